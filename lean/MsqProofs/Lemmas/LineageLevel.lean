import MsqProofs.Lemmas.LineageStore
/-!
# Lineage: one query level against the specification — qualified and unqualified references, with the error cases
-/
namespace LineageL
open Ast AN LN Spec Flow

/-- the level's table names resolve, in the current stores, to lineage objects denoting the relations of the scope -/
def Resolves (cat : Cat) (st : St) (tn : List (String × StdTable)) (scope : Scope) : Prop :=
  All2 (fun kt kr => kt.1 = kr.1 ∧ ∃ L, lookup cat st.subq st.withT kt.2 = some L ∧ Denotes L kr.2) tn scope

theorem Resolves.same {cat : Cat} {st st' : St} {tn : List (String × StdTable)} {scope : Scope}
    (h : Resolves cat st tn scope) (hs : Same st st') : Resolves cat st' tn scope := by
  unfold Resolves at h ⊢
  rw [hs.1, hs.2]; exact h

/-- looking a name up in the table-name dictionary and in the scope -/
theorem resolves_get {cat : Cat} {st : St} : ∀ {tn : List (String × StdTable)} {scope : Scope}, Resolves cat st tn scope → ∀ t : String,
    (dictGet? tn t = none ∧ dictGet? scope t = none) ∨
    (∃ std R L, dictGet? tn t = some std ∧ dictGet? scope t = some R ∧ lookup cat st.subq st.withT std = some L ∧ Denotes L R)
  | [], [], _, t => Or.inl ⟨rfl, rfl⟩
  | [], _ :: _, h, _ => nomatch h
  | _ :: _, [], h, _ => nomatch h
  | kt :: tn, kr :: scope, h, t => by
    cases h with
    | cons hd tl =>
      obtain ⟨hk, L, hl, hden⟩ := hd
      by_cases e : kt.1 = t
      · refine Or.inr ⟨kt.2, kr.2, L, ?_, ?_, hl, hden⟩
        · simp [dictGet?, List.find?, e]
        · simp [dictGet?, List.find?, ← hk, e]
      · have e1 : (kt.1 == t) = false := by simpa using e
        have e2 : (kr.1 == t) = false := by rw [← hk]; exact e1
        rcases resolves_get tl t with h | h
        · left; simpa [dictGet?, List.find?, e1, e2] using h
        · right; simpa [dictGet?, List.find?, e1, e2] using h

/-- **a qualified reference `t.c`**: the sources the relation bound to `t` gives for `c`; an unknown `t` or a `c` the relation does
not have is the analysis error -/
theorem qualified_spec {cat : Cat} {st : St} {tn : List (String × StdTable)} {scope : Scope} (hres : Resolves cat st tn scope)
    (t n : String) (hn : (n != "*") = true) (st1 : St) (hs : Same st st1) :
    match refQ scope t n with
    | .ok s => ∃ st2, analyzeQuoteColumn cat tn ⟨some t, some n, none⟩ st1 = .ok (s, st2) ∧ Same st st2
    | .error _ => analyzeQuoteColumn cat tn ⟨some t, some n, none⟩ st1 = .error .analyzer := by
  unfold refQ
  rcases resolves_get hres t with ⟨h1, h2⟩ | ⟨std, R, L, h1, h2, hl, hden⟩
  · simp [h2, analyzeQuoteColumn, h1]
  · simp only [h2]
    have hg := getTableLineage_lookup cat std st1
    rw [hs.1, hs.2, hl] at hg
    obtain ⟨st2, hg1, hg2⟩ := hg
    have hhas := hasColumn_denotes hden n hn
    by_cases hr : relHas R n = true
    · obtain ⟨s, hs'⟩ := dictGet_of_has R n hr
      simp only [hs']
      refine ⟨st2, ?_, hs.trans hg2⟩
      simp [analyzeQuoteColumn, h1, hg1, bind, Except.bind, hhas, hr, Lineage.srcByName, hn, hden.get, hs', pure, Except.pure]
    · have hr' : relHas R n = false := by simpa using hr
      rw [dictGet_none_of_not_has R n hr']
      simp [analyzeQuoteColumn, h1, hg1, bind, Except.bind, hhas, hr']

/-- the search of an unqualified name through the upstream relations, as the analysis performs it -/
def unqSpec (n : String) : List Rel → Bool → List SrcCol → Option (List SrcCol)
  | [], m, acc => if m then some acc else none
  | R :: r, m, acc =>
    if !relHas R n then unqSpec n r m acc
    else if m then none
    else match dictGet? R n with
      | some s => unqSpec n r true (acc ++ s)
      | none => none

theorem unqualified_loop {cat : Cat} {st : St} (n : String) (hn : (n != "*") = true) :
    ∀ (ts : List StdTable) (rs : List Rel),
      All2 (fun t R => ∃ L, lookup cat st.subq st.withT t = some L ∧ Denotes L R) ts rs →
      ∀ (m : Bool) (acc : List SrcCol) (st1 : St), Same st st1 →
      match unqSpec n rs m acc with
      | some s => ∃ st2, unqualifiedSources cat n ts m acc st1 = .ok (s, st2) ∧ Same st st2
      | none => unqualifiedSources cat n ts m acc st1 = .error .analyzer
  | [], [], _, m, acc, st1, hs => by
    cases m <;> simp [unqSpec, unqualifiedSources, hs]
  | [], _ :: _, h, _, _, _, _ => nomatch h
  | _ :: _, [], h, _, _, _, _ => nomatch h
  | t :: ts, R :: rs, h, m, acc, st1, hs => by
    cases h with
    | cons hd tl =>
      obtain ⟨L, hl, hden⟩ := hd
      have hg := getTableLineage_lookup cat t st1
      rw [hs.1, hs.2, hl] at hg
      obtain ⟨st2, hg1, hg2⟩ := hg
      have hhas := hasColumn_denotes hden n hn
      have hs2 := hs.trans hg2
      by_cases hr : relHas R n = true
      · cases m with
        | true => simp [unqSpec, unqualifiedSources, hg1, bind, Except.bind, hhas, hr, hn]
        | false =>
          obtain ⟨s, hs'⟩ := dictGet_of_has R n hr
          have ih := unqualified_loop n hn ts rs tl true (acc ++ s) st2 hs2
          simp only [unqSpec, hr, Bool.not_true, Bool.false_eq_true, if_false, hs']
          simp only [unqualifiedSources, hg1, bind, Except.bind, hhas, hr, Bool.not_true, Bool.false_eq_true, if_false,
            Bool.false_and, Lineage.srcByName, hn, if_true, hden.get, hs']
          exact ih
      · have hr' : relHas R n = false := by simpa using hr
        have ih := unqualified_loop n hn ts rs tl m acc st2 hs2
        simp only [unqSpec, hr', Bool.not_false, if_true]
        simp only [unqualifiedSources, hg1, bind, Except.bind, hhas, hr', Bool.not_false, if_true]
        exact ih

/-- once a relation has matched, any further match is fatal -/
theorem unqSpec_true (n : String) : ∀ (rs : List Rel) (acc : List SrcCol),
    unqSpec n rs true acc = if rs.filter (fun R => relHas R n) = [] then some acc else none
  | [], acc => by simp [unqSpec]
  | R :: r, acc => by
    by_cases h : relHas R n = true
    · simp [unqSpec, h, List.filter_cons]
    · have h' : relHas R n = false := by simpa using h
      simp [unqSpec, h', List.filter_cons, unqSpec_true n r acc]

/-- the search succeeds exactly when ONE upstream relation has the name -/
theorem unqSpec_false (n : String) : ∀ (rs : List Rel),
    unqSpec n rs false [] = match rs.filter (fun R => relHas R n) with
      | [R] => dictGet? R n
      | _ => none
  | [] => by simp [unqSpec]
  | R :: r => by
    by_cases h : relHas R n = true
    · obtain ⟨s, hs⟩ := dictGet_of_has R n h
      simp only [unqSpec, h, Bool.not_true, Bool.false_eq_true, if_false, hs, List.nil_append, unqSpec_true, List.filter_cons, if_true]
      cases hf : r.filter (fun R => relHas R n) with
      | nil => simp [hs]
      | cons a b => simp
    · have h' : relHas R n = false := by simpa using h
      simp only [unqSpec, h', Bool.not_false, if_true, List.filter_cons, Bool.false_eq_true, if_false]
      exact unqSpec_false n r

theorem resolves_values {cat : Cat} {st : St} : ∀ {tn : List (String × StdTable)} {scope : Scope}, Resolves cat st tn scope →
    All2 (fun t R => ∃ L, lookup cat st.subq st.withT t = some L ∧ Denotes L R) (tn.map (·.2)) (scope.map (·.2))
  | [], [], _ => All2.nil
  | [], _ :: _, h => nomatch h
  | _ :: _, [], h => nomatch h
  | _ :: _, _ :: _, h => by
    cases h with
    | cons hd tl => exact All2.cons hd.2 (resolves_values tl)

/-- **an unqualified reference `c`**: the sources of the one upstream relation that has `c`; no such relation, or more than one
(counted per FROM / JOIN item), is the analysis error -/
theorem unqualified_spec {cat : Cat} {st : St} {tn : List (String × StdTable)} {scope : Scope} (hres : Resolves cat st tn scope)
    (n : String) (hn : (n != "*") = true) (st1 : St) (hs : Same st st1) :
    match refU scope n with
    | .ok s => ∃ st2, analyzeQuoteColumn cat tn ⟨none, some n, none⟩ st1 = .ok (s, st2) ∧ Same st st2
    | .error _ => analyzeQuoteColumn cat tn ⟨none, some n, none⟩ st1 = .error .analyzer := by
  have h := unqualified_loop (cat := cat) n hn _ _ (resolves_values hres) false [] st1 hs
  rw [unqSpec_false] at h
  unfold refU
  simp only [analyzeQuoteColumn]
  cases hf : (scope.map (·.2)).filter (fun R => relHas R n) with
  | nil => simpa [hf] using h
  | cons R r =>
    cases r with
    | nil =>
      simp only [hf] at h ⊢
      cases hg : dictGet? R n with
      | none => simpa [hg] using h
      | some s => simpa [hg] using h
    | cons R2 r2 => simpa [hf] using h

/-- **an aggregate without column argument**: one anonymous source per upstream table of every FROM / JOIN item -/
theorem anon_loop {cat : Cat} {st : St} : ∀ (ts : List StdTable) (rs : List Rel),
    All2 (fun t R => ∃ L, lookup cat st.subq st.withT t = some L ∧ Denotes L R) ts rs →
    ∀ (st1 : St), Same st st1 →
    ∃ st2, anonSources cat ts st1 = .ok (rs.flatMap (fun R => (relTables R).map fun t => (⟨t.1, t.2, none⟩ : SrcCol)), st2) ∧ Same st st2
  | [], [], _, st1, hs => ⟨st1, by simp [anonSources], hs⟩
  | [], _ :: _, h, _, _ => nomatch h
  | _ :: _, [], h, _, _ => nomatch h
  | t :: ts, R :: rs, h, st1, hs => by
    cases h with
    | cons hd tl =>
      obtain ⟨L, hl, hden⟩ := hd
      have hg := getTableLineage_lookup cat t st1
      rw [hs.1, hs.2, hl] at hg
      obtain ⟨st2, hg1, hg2⟩ := hg
      obtain ⟨st3, e3, s3⟩ := anon_loop ts rs tl st2 (hs.trans hg2)
      exact ⟨st3, by simp [anonSources, hg1, e3, bind, Except.bind, pure, Except.pure, hden.tables], s3⟩

theorem dictGet_mem' {κ ν : Type} [DecidableEq κ] : ∀ (d : List (κ × ν)) (k : κ) (v : ν), dictGet? d k = some v → (k, v) ∈ d
  | [], _, _, h => by simp [dictGet?] at h
  | p :: r, k, v, h => by
    unfold dictGet? at h
    rw [List.find?_cons] at h
    by_cases e : p.1 = k
    · simp [e] at h
      have : p = (k, v) := by cases p; simp_all
      simp [this]
    · have e' : (p.1 == k) = false := by simpa using e
      simp only [e'] at h
      exact List.mem_cons_of_mem _ (dictGet_mem' r k v h)

/-- the three outcomes of a step: the specified value with the stores untouched, the analysis error, or no claim -/
def Agrees {α : Type} (st : St) (spec : Except FErr α) (model : Except Err (α × St)) : Prop :=
  match spec with
  | .ok v => ∃ st2, model = .ok (v, st2) ∧ Same st st2
  | .error .analysis => model = .error .analyzer
  | .error .outside => True

/-- one reference -/
theorem ref_spec {cat : Cat} {st : St} {tn : List (String × StdTable)} {scope : Scope} (hres : Resolves cat st tn scope)
    (r : QCol) (st1 : St) (hs : Same st st1) : Agrees st (ref scope r) (analyzeQuoteColumn cat tn r st1) := by
  obtain ⟨t, n, ix⟩ := r
  unfold Agrees ref
  cases ix with
  | some k => cases t <;> cases n <;> simp
  | none =>
    cases n with
    | none =>
      cases t with
      | some t => simp
      | none =>
        obtain ⟨st2, e2, s2⟩ := anon_loop (cat := cat) _ _ (resolves_values hres) st1 hs
        refine ⟨st2, ?_, s2⟩
        simp only [analyzeQuoteColumn, e2, anonOf, List.flatMap_map]
    | some n =>
      by_cases hstar : n = "*"
      · subst hstar; cases t <;> simp
      · have hn : (n != "*") = true := by simpa using hstar
        have hn' : (n == "*") = false := by simpa using hstar
        cases t with
        | some t =>
          simp only [hn', Bool.false_eq_true, if_false]
          have := qualified_spec hres t n hn st1 hs
          cases hq : refQ scope t n with
          | ok s => simpa [hq] using this
          | error e =>
            have hh : analyzeQuoteColumn cat tn ⟨some t, some n, none⟩ st1 = .error .analyzer := by simpa [hq] using this
            have he : e = FErr.analysis := by
              unfold refQ at hq
              cases h1 : dictGet? scope t with
              | none => simp [h1] at hq; exact hq.symm
              | some R =>
                cases h2 : dictGet? R n with
                | none => simp [h1, h2] at hq; exact hq.symm
                | some s => simp [h1, h2] at hq
            subst he; exact hh
        | none =>
          simp only [hn', Bool.false_eq_true, if_false]
          have := unqualified_spec hres n hn st1 hs
          cases hq : refU scope n with
          | ok s => simpa [hq] using this
          | error e =>
            have hh : analyzeQuoteColumn cat tn ⟨none, some n, none⟩ st1 = .error .analyzer := by simpa [hq] using this
            have he : e = FErr.analysis := by
              unfold refU at hq
              split at hq
              · split at hq
                · simp at hq
                · simp at hq; exact hq.symm
              · simp at hq; exact hq.symm
            subst he; exact hh

/-- the references of one output column, left to right; the first failing reference decides -/
theorem refs_spec {cat : Cat} {st : St} {tn : List (String × StdTable)} {scope : Scope} (hres : Resolves cat st tn scope) :
    ∀ (qs : List QCol) (st1 : St), Same st st1 → Agrees st (refs scope qs) (analyzeQuoteColumns cat tn qs st1)
  | [], st1, hs => by simp [Agrees, refs, analyzeQuoteColumns, hs]
  | r :: rest, st1, hs => by
    have h1 := ref_spec hres r st1 hs
    unfold Agrees at h1 ⊢
    simp only [refs, bind, Except.bind]
    cases hr : ref scope r with
    | error e =>
      cases e with
      | analysis => simp only [hr] at h1; simp [analyzeQuoteColumns, h1, bind, Except.bind]
      | outside => trivial
    | ok a =>
      simp only [hr] at h1
      obtain ⟨st2, e1, s2⟩ := h1
      have h2 := refs_spec hres rest st2 s2
      unfold Agrees at h2
      cases hrest : refs scope rest with
      | error e =>
        cases e with
        | analysis => simp only [hrest] at h2; simp [analyzeQuoteColumns, e1, h2, bind, Except.bind]
        | outside => trivial
      | ok b =>
        simp only [hrest] at h2
        obtain ⟨st3, e2, s3⟩ := h2
        exact ⟨st3, by simp [analyzeQuoteColumns, e1, e2, bind, Except.bind, pure, Except.pure], s3⟩

/-- what flows into each output column, given the references each one reads -/
def curSpec (scope : Scope) : List (SCol × List QCol) → Except FErr (List (SCol × List SrcCol))
  | [] => .ok []
  | (c, qs) :: r => do
    let s ← refs scope qs
    let b ← curSpec scope r
    pure ((c, s) :: b)

theorem sourcesLoop_spec {cat : Cat} {st : St} {tn : List (String × StdTable)} {scope : Scope} (hres : Resolves cat st tn scope) :
    ∀ (cur : List (SCol × List QCol)) (st1 : St), Same st st1 → Agrees st (curSpec scope cur) (sourcesLoop cat tn [] cur st1)
  | [], st1, hs => by simp [Agrees, curSpec, sourcesLoop, hs]
  | (c, qs) :: r, st1, hs => by
    have h1 := refs_spec hres qs st1 hs
    unfold Agrees at h1 ⊢
    simp only [curSpec, bind, Except.bind]
    cases hr : refs scope qs with
    | error e =>
      cases e with
      | analysis => simp only [hr] at h1; simp [sourcesLoop, C16.mapLateral_nil, h1, bind, Except.bind]
      | outside => trivial
    | ok a =>
      simp only [hr] at h1
      obtain ⟨st2, e1, s2⟩ := h1
      have h2 := sourcesLoop_spec hres r st2 s2
      unfold Agrees at h2
      cases hrest : curSpec scope r with
      | error e =>
        cases e with
        | analysis => simp only [hrest] at h2; simp [sourcesLoop, C16.mapLateral_nil, e1, h2, bind, Except.bind]
        | outside => trivial
      | ok b =>
        simp only [hrest] at h2
        obtain ⟨st3, e2, s3⟩ := h2
        exact ⟨st3, by simp [sourcesLoop, C16.mapLateral_nil, e1, e2, bind, Except.bind, pure, Except.pure], s3⟩

/-- the output columns of a level whose select items are all named (aliased, or a plain column — qualified or not) -/
theorem currentLevelSingle_named (cat : Cat) (tn : List (String × StdTable)) :
    ∀ (its : List (Expr × Option String)) (idx : Nat) (st : St), (∀ it ∈ its, (itemName it).isSome = true) →
      currentLevelSingle cat tn its idx st = .ok (C16.curOf its idx, st)
  | [], idx, st, _ => by simp [currentLevelSingle, C16.curOf]
  | (e, some a) :: r, idx, st, h => by
    have ih := currentLevelSingle_named cat tn r (idx + 1) st (fun it hit => h it (by simp [hit]))
    simp [currentLevelSingle, C16.curOf, C15.expr_ok e, itemName, ih, bind, Except.bind, pure, Except.pure]
  | (e, none) :: r, idx, st, h => by
    have ih := currentLevelSingle_named cat tn r (idx + 1) st (fun it hit => h it (by simp [hit]))
    have h0 := h (e, none) (by simp)
    cases e <;> simp [itemName] at h0
    case column t n =>
      simp [currentLevelSingle, C16.curOf, itemName, ih, C15.expr_ok (.column t n), bind, Except.bind, pure, Except.pure]

/-- the specification's output columns, numbered, are what the references of the numbered items give -/
theorem curSpec_items (scope : Scope) : ∀ (its : List (Expr × Option String)) (idx : Nat),
    curSpec scope (C16.curOf its idx) = (itemsGo scope its).map (fun R => C16.number R idx)
  | [], idx => by simp [curSpec, itemsGo, C16.curOf, C16.number, Except.map]
  | it :: r, idx => by
    have ih := curSpec_items scope r (idx + 1)
    simp only [C16.curOf, curSpec, itemsGo, bind, Except.bind]
    cases hr : refs scope (colsE it.1) with
    | error e => simp [Except.map]
    | ok a =>
      simp only [ih]
      cases hrest : itemsGo scope r with
      | error e => simp [Except.map]
      | ok b => simp [Except.map, C16.number, pure, Except.pure]

theorem items_named (scope : Scope) (its : List (Expr × Option String)) (h : items scope its ≠ .error .outside) :
    ∀ it ∈ its, (itemName it).isSome = true := by
  unfold items at h
  by_cases ha : its.all (fun it => (itemName it).isSome) = true
  · intro it hit
    exact List.all_eq_true.mp ha it hit
  · simp [ha] at h

/-- **one level**: output columns and sources as specified; the first unknown or ambiguous reference is the analysis error -/
theorem level_spec {cat : Cat} {st : St} {tn : List (String × StdTable)} {scope : Scope} (hres : Resolves cat st tn scope)
    (its : List (Expr × Option String)) (st1 : St) (hs : Same st st1) :
    Agrees st ((items scope its).map (fun R => C16.number R 1))
      (do let (cur, st2) ← currentLevelSingle cat tn its 1 st1; sourcesLoop cat tn [] cur st2) := by
  by_cases ha : its.all (fun it => (itemName it).isSome) = true
  · have hnamed : ∀ it ∈ its, (itemName it).isSome = true := fun it hit => List.all_eq_true.mp ha it hit
    unfold items
    rw [currentLevelSingle_named cat tn its 1 st1 hnamed, if_pos ha, ← curSpec_items scope its 1]
    simpa [bind, Except.bind] using sourcesLoop_spec hres (C16.curOf its 1) st1 hs
  · simp [items, ha, Except.map, Agrees]

end LineageL
