import MsqProofs.Lemmas.LexLinkSelectMirror
import MsqProofs.Props.C01T
/-!
# A property of texts that survives the SELECT printer's separators holds of the printed SELECT

`q_prSL`: let `Q` be a property of character lists that holds of the empty text and is preserved by joining two texts
with a "safe" separator character; if it holds of every atom the printer writes (expression texts, names, aliases,
numerals, keywords), it holds of `prSL d s`.  Instance: "`==` does not occur" (`C01.occ`), hence the Hive pre-pass
(`==` → `=`, a whole-text replacement) leaves the printed SELECT alone unless a payload contains `==`
(`hive_pre_select`).
-/
set_option linter.unusedVariables false
set_option linter.unusedSimpArgs false
set_option linter.unusedSectionVars false
namespace LexLink
open Lex Spec C05 C06 C09 Ast TP TS

def okTable (okN : String → Prop) : FromTable → Prop
  | .mk r _ => okN (tblName r)
def okRule (okE : Expr → Prop) : Option JoinRule → Prop
  | some (.on e) => okE e
  | _ => True
def okJoin (okE : Expr → Prop) (okN : String → Prop) : Join → Prop
  | .mk _ t rule => okTable okN t ∧ okRule okE rule
def okOpt (okE : Expr → Prop) : Option Expr → Prop
  | some e => okE e
  | none => True
def okGroup (okE : Expr → Prop) : Option GroupBy → Prop
  | some (.mk cs _ _ _) => ∀ e ∈ cs, okE e
  | none => True
def okOrd (okE : Expr → Prop) : OrderItem → Prop
  | .mk e _ _ _ => okE e
def okOrder (okE : Expr → Prop) : Option (List OrderItem) → Prop
  | some l => ∀ o ∈ l, okOrd okE o
  | none => True
/-- the select-level collection of a predicate on expressions and one on table names -/
def OkS (okE : Expr → Prop) (okN : String → Prop) : Select → Prop
  | .mk _ _ cols fr _ js wh gb hv ob _ _ _ _ =>
    (∀ c ∈ cols, okE c.1) ∧ (∀ l, fr = some l → ∀ t ∈ l, okTable okN t) ∧ (∀ j ∈ js, okJoin okE okN j) ∧
    okOpt okE wh ∧ okGroup okE gb ∧ okOpt okE hv ∧ okOrder okE ob

section generic
variable (d : Gen.D) (Q : List Char → Prop) (safe : Char → Prop)
  (hnil : Q []) (hsep : ∀ (a b : List Char) (c : Char), safe c → Q a → Q b → Q (a ++ c :: b))
  (s_sp : safe ' ') (s_cm : safe ',') (s_nl : safe '\n') (s_lp : safe '(') (s_rp : safe ')') (s_bq : safe '`')
  (okE : Expr → Prop) (hE : ∀ e, Frag d e = true → Leaf d e → okE e → Q (prEL d e))
  (okN : String → Prop) (hN : ∀ n, okN n → Q n.toList)
  (hA : ∀ a, aliasLex a → Q a.toList) (hNum : ∀ n : Int, 0 ≤ n → Q (toString n).toList)
  (hkw : ∀ k ∈ clauseWords, Q k.toList) (hjw : ∀ e ∈ Gen.joinTypes, ∀ w ∈ e.2, Q w.toList)
include hnil hsep s_sp s_cm s_nl s_lp s_rp s_bq hE hN hA hNum hkw hjw

theorem q_joinLL1 (c : Char) (hc : safe c) : ∀ (l : List (List Char)), (∀ x ∈ l, Q x) → Q (joinLL [c] l)
  | [], _ => hnil
  | [a], h => h a (by simp)
  | a :: b :: r, h => by
    have := q_joinLL1 c hc (b :: r) fun x hx => h x (by simp [hx])
    have e : joinLL [c] (a :: b :: r) = a ++ c :: joinLL [c] (b :: r) := by simp [joinLL]
    rw [e]; exact hsep _ _ _ hc (h a (by simp)) this

theorem q_joinLL2 : ∀ (l : List (List Char)), (∀ x ∈ l, Q x) → Q (joinLL [',', ' '] l)
  | [], _ => hnil
  | [a], h => h a (by simp)
  | a :: b :: r, h => by
    have := q_joinLL2 (b :: r) fun x hx => h x (by simp [hx])
    have e : joinLL [',', ' '] (a :: b :: r) = a ++ ',' :: ([] ++ ' ' :: joinLL [',', ' '] (b :: r)) := by simp [joinLL]
    rw [e]; exact hsep _ _ _ s_cm (h a (by simp)) (hsep _ _ _ s_sp hnil this)

theorem q_kwThen (k : String) (hk : k ∈ clauseWords) (x : List Char) (hx : Q x) : Q (k.toList ++ ' ' :: x) :=
  hsep _ _ _ s_sp (hkw k hk) hx

theorem q_alias (x : List Char) (hx : Q x) (a : Option String) (ha : optAliasLex a) : Q (x ++ aliasL a) := by
  cases a with
  | none => simpa [aliasL] using hx
  | some a =>
    have e : x ++ aliasL (some a) = x ++ ' ' :: ("AS".toList ++ ' ' :: a.toList) := by
      have e1 : (" AS " : String).toList = ' ' :: ("AS".toList ++ [' ']) := rfl
      simp [aliasL, e1]
    rw [e]; exact hsep _ _ _ s_sp hx (q_kwThen d Q safe hnil hsep s_sp s_cm s_nl s_lp s_rp s_bq okE hE okN hN hA hNum hkw hjw "AS"
      (by simp [clauseWords]) _ (hA a ha))

theorem q_wrap (e : Expr) (k : Nat) (s : List Char) (hs : Q s) : Q (wrapL e k s) := by
  unfold wrapL
  split
  · have e1 : '(' :: (s ++ [')']) = [] ++ '(' :: (s ++ ')' :: []) := by simp
    rw [e1]; exact hsep _ _ _ s_lp hnil (hsep _ _ _ s_rp hs hnil)
  · exact hs

theorem q_table (t : FromTable) (hl : tableLex t) (hn : okTable okN t) : Q (tableL t) := by
  obtain ⟨r, a⟩ := t
  have h1 : Q ('`' :: ((tblName r).toList ++ ['`'])) := by
    have e1 : '`' :: ((tblName r).toList ++ ['`']) = [] ++ '`' :: ((tblName r).toList ++ '`' :: []) := by simp
    rw [e1]; exact hsep _ _ _ s_bq hnil (hsep _ _ _ s_bq (hN _ hn) hnil)
  exact q_alias d Q safe hnil hsep s_sp s_cm s_nl s_lp s_rp s_bq okE hE okN hN hA hNum hkw hjw _ h1 a hl.2

/-- **the generic theorem** -/
theorem q_prSL (s : Select) (hs : FragS d s = true) (hl : LeafS d s) (hok : OkS okE okN s) : Q (prSL d s) := by
  obtain ⟨ws, dist, cols, fr, lats, js, wh, gb, hv, ob, sb, db, cb, lm⟩ := s
  cases ws with
  | none => simp [FragS] at hs
  | some w =>
  cases w with
  | cons a b => simp [FragS] at hs
  | nil =>
  cases cols with
  | nil => simp [FragS] at hs
  | cons c cs =>
  cases lats with
  | cons a b => simp [FragS] at hs
  | nil =>
  cases sb with
  | some a => simp [FragS] at hs
  | none =>
  cases db with
  | some a => simp [FragS] at hs
  | none =>
  cases cb with
  | some a => simp [FragS] at hs
  | none =>
  simp only [FragS, Bool.and_eq_true] at hs
  obtain ⟨⟨⟨⟨⟨⟨⟨⟨⟨hc, hcs⟩, _⟩, hfr⟩, hjs⟩, hwh⟩, hgb⟩, hhv⟩, hob⟩, hlm⟩ := hs
  obtain ⟨lc, lfr, ljs, lwh, lgb, lhv, lob⟩ := hl
  obtain ⟨oc, ofr, ojs, owh, ogb, ohv, oob⟩ := hok
  have kwT := q_kwThen d Q safe hnil hsep s_sp s_cm s_nl s_lp s_rp s_bq okE hE okN hN hA hNum hkw hjw
  have qal := q_alias d Q safe hnil hsep s_sp s_cm s_nl s_lp s_rp s_bq okE hE okN hN hA hNum hkw hjw
  have qwr := q_wrap d Q safe hnil hsep s_sp s_cm s_nl s_lp s_rp s_bq okE hE okN hN hA hNum hkw hjw
  have qtb := q_table d Q safe hnil hsep s_sp s_cm s_nl s_lp s_rp s_bq okE hE okN hN hA hNum hkw hjw
  have qj2 := q_joinLL2 d Q safe hnil hsep s_sp s_cm s_nl s_lp s_rp s_bq okE hE okN hN hA hNum hkw hjw
  have qj1 := q_joinLL1 d Q safe hnil hsep s_sp s_cm s_nl s_lp s_rp s_bq okE hE okN hN hA hNum hkw hjw
  have hcol : ∀ y ∈ c :: cs, Q (colL d y) := by
    intro y hy
    have hfy : colOKS d y = true := by
      rcases List.mem_cons.mp hy with rfl | h
      · exact hc
      · exact (List.all_eq_true.mp hcs) y h
    simp only [colOKS, Bool.and_eq_true] at hfy
    exact qal _ (hE y.1 hfy.1 (lc y hy).1 (oc y hy)) y.2 (lc y hy).2
  have hsel : Q (selC d dist c cs).1 := by
    have hcols := qj2 ((c :: cs).map (colL d)) (by
      intro x hx; obtain ⟨y, hy, rfl⟩ := List.mem_map.mp hx; exact hcol y hy)
    cases dist with
    | false => exact kwT "SELECT" (by simp [clauseWords]) _ (by simpa using hcols)
    | true =>
      have e1 : ("DISTINCT " : String).toList = "DISTINCT".toList ++ [' '] := rfl
      have := kwT "SELECT" (by simp [clauseWords]) _ (kwT "DISTINCT" (by simp [clauseWords]) _ hcols)
      simpa [selC, e1] using this
  have hkey : ∀ e, Frag d e = true → Leaf d e → okE e → Q (keyL d e) := fun e h1 h2 h3 => qwr e 8 _ (hE e h1 h2 h3)
  have hlines : ∀ x ∈ (clauses d (.mk (some []) dist (c :: cs) fr [] js wh gb hv ob none none none lm)).map (·.1), Q x := by
    intro x hx
    simp only [clauses, List.map_cons, List.map_append, List.mem_cons, List.mem_append] at hx
    rcases hx with rfl | h | h | h | h | h | h | h
    · exact hsel
    · cases fr with
      | none => simp [fromC] at h
      | some l =>
        cases l with
        | nil => simp [fromC] at h
        | cons t ts =>
          simp only [fromC, List.map_cons, List.map_nil, List.mem_singleton] at h
          subst h
          exact kwT "FROM" (by simp [clauseWords]) _ (qj2 ((t :: ts).map tableL) (by
            intro x hx; obtain ⟨y, hy, rfl⟩ := List.mem_map.mp hx; exact qtb y (lfr _ rfl y hy) (ofr _ rfl y hy)))
    · simp only [List.map_map] at h
      obtain ⟨j, hj, rfl⟩ := List.mem_map.mp h
      obtain ⟨ty, t, rule⟩ := j
      have hjo := (List.all_eq_true.mp hjs) _ hj
      have hjl := ljs _ hj
      have hjk := ojs _ hj
      obtain ⟨tr, ta⟩ := t
      simp only [joinOK, Bool.and_eq_true] at hjo
      have hwds : Q (joinWordsL ty) := by
        unfold joinWordsL
        cases hf : Gen.joinTypes.find? (·.1 == ty) with
        | none => exact hnil
        | some e =>
          have hm := List.mem_of_find?_eq_some hf
          exact qj1 ' ' s_sp _ (by intro x hx; obtain ⟨y, hy, rfl⟩ := List.mem_map.mp hx; exact hjw e hm y hy)
      have htb := qtb (.mk tr ta) hjl.1 hjk.1
      have hall : Q (tableL (.mk tr ta) ++ ruleL d rule) := by
        cases rule with
        | none => simpa [ruleL] using htb
        | some r =>
          cases r with
          | on e =>
            have e1 : tableL (.mk tr ta) ++ ruleL d (some (.on e)) = tableL (.mk tr ta) ++ ' ' :: ("ON".toList ++ ' ' :: prEL d e) := by
              have e2 : (" ON " : String).toList = ' ' :: ("ON".toList ++ [' ']) := rfl
              simp [ruleL, e2]
            rw [e1]
            exact hsep _ _ _ s_sp htb (kwT "ON" (by simp [clauseWords]) _ (hE e hjo.2 hjl.2 hjk.2))
          | «using» u => simp [ruleOK] at hjo
      simp only [Function.comp, joinC]
      exact hsep _ _ _ s_sp hwds hall
    · cases wh with
      | none => simp [optC] at h
      | some e =>
        simp only [optC, List.map_cons, List.map_nil, List.mem_singleton] at h
        subst h
        exact kwT "WHERE" (by simp [clauseWords]) _ (hE e hwh lwh owh)
    · cases gb with
      | none => simp [groupC] at h
      | some g =>
        obtain ⟨gc, sets, cube, rollup⟩ := g
        cases gc with
        | nil => simp [groupC] at h
        | cons e es =>
          cases sets with
          | some x => simp [groupOK] at hgb
          | none =>
          cases cube with
          | true => simp [groupOK] at hgb
          | false =>
          cases rollup with
          | true => simp [groupOK] at hgb
          | false =>
          simp only [groupOK, Bool.and_eq_true] at hgb
          simp only [groupC, List.map_cons, List.map_nil, List.mem_singleton] at h
          subst h
          have e1 : ("GROUP BY" : String).toList = "GROUP".toList ++ ' ' :: "BY".toList := rfl
          have := kwT "GROUP" (by simp [clauseWords]) _ (kwT "BY" (by simp [clauseWords]) _
            (qj2 ((e :: es).map (keyL d)) (by
              intro x hx; obtain ⟨y, hy, rfl⟩ := List.mem_map.mp hx
              rcases List.mem_cons.mp hy with rfl | hy'
              · exact hkey _ hgb.1.1 (lgb _ (by simp)) (ogb _ (by simp))
              · exact hkey y ((List.all_eq_true.mp hgb.1.2) y hy') (lgb y (by simp [hy'])) (ogb y (by simp [hy'])))))
          simpa [e1] using this
    · cases hv with
      | none => simp [optC] at h
      | some e =>
        simp only [optC, List.map_cons, List.map_nil, List.mem_singleton] at h
        subst h
        exact kwT "HAVING" (by simp [clauseWords]) _ (hE e hhv lhv ohv)
    · cases ob with
      | none => simp [orderC] at h
      | some l =>
        cases l with
        | nil => simp [orderC] at h
        | cons o os =>
          simp only [orderOK, Bool.and_eq_true] at hob
          simp only [orderC, List.map_cons, List.map_nil, List.mem_singleton] at h
          subst h
          have hitem : ∀ y ∈ o :: os, Q (ordItemL d y) := by
            intro y hy
            have hfy : ordOK d y = true := by
              rcases List.mem_cons.mp hy with rfl | h'
              · exact hob.1
              · exact (List.all_eq_true.mp hob.2) y h'
            have hly := lob _ hy
            have hoy := oob _ hy
            obtain ⟨e, desc, nf, nl⟩ := y
            simp only [ordOK, Bool.and_eq_true] at hfy
            have hk := hkey e hfy.1.1 hly hoy
            cases desc with
            | false => simpa [ordItemL] using hk
            | true =>
              have e2 : ordItemL d (.mk e true nf nl) = keyL d e ++ ' ' :: "DESC".toList := by
                have e3 : (" DESC" : String).toList = ' ' :: "DESC".toList := rfl
                simp [ordItemL, e3]
              rw [e2]; exact hsep _ _ _ s_sp hk (hkw "DESC" (by simp [clauseWords]))
          have e1 : ("ORDER BY" : String).toList = "ORDER".toList ++ ' ' :: "BY".toList := rfl
          have := kwT "ORDER" (by simp [clauseWords]) _ (kwT "BY" (by simp [clauseWords]) _
            (qj2 ((o :: os).map (ordItemL d)) (by
              intro x hx; obtain ⟨y, hy, rfl⟩ := List.mem_map.mp hx; exact hitem y hy)))
          simpa [e1] using this
    · cases lm with
      | none => simp [limitC] at h
      | some pr =>
        obtain ⟨n, m⟩ := pr
        cases m with
        | none =>
          simp only [limitOK, limOK, Bool.and_eq_true, decide_eq_true_eq] at hlm
          simp only [limitC, List.map_cons, List.map_nil, List.mem_singleton] at h
          subst h
          exact kwT "LIMIT" (by simp [clauseWords]) _ (hNum n hlm.1)
        | some m =>
          simp only [limitOK, limOK, Bool.and_eq_true, decide_eq_true_eq] at hlm
          simp only [limitC, List.map_cons, List.map_nil, List.mem_singleton] at h
          subst h
          refine kwT "LIMIT" (by simp [clauseWords]) _ ?_
          have e1 : (toString m).toList ++ ',' :: ' ' :: (toString n).toList =
              (toString m).toList ++ ',' :: ([] ++ ' ' :: (toString n).toList) := by simp
          rw [e1]
          exact hsep _ _ _ s_cm (hNum m hlm.2.1) (hsep _ _ _ s_sp hnil (hNum n hlm.1.1))
  exact qj1 '\n' s_nl _ hlines

end generic

/-! ## the instance: `==` does not occur -/

theorem clause_words_occ : clauseWords.all (fun k => !C01.occ k.toList) = true := by decide +kernel
theorem join_words_occ : Gen.joinTypes.all (fun e => e.2.all fun w => !C01.occ w.toList) = true := by decide +kernel

theorem alnum_ne_eq (c : Char) (h : alnumU c = true) : c ≠ '=' := by
  intro e; subst e; revert h; decide

/-- no column name, literal payload or table name of the SELECT contains `==` -/
def noEqEqS (s : Select) : Prop := OkS C01.noEqEq (fun n => C01.occ n.toList = false) s

/-- for HIVE, the dialect pre-pass leaves the printed SELECT alone unless a payload contains `==` -/
theorem hive_pre_select (s : Select) (hs : FragS .HIVE s = true) (hl : LeafS .HIVE s) (hq : noEqEqS s) :
    PM.dialectPre .HIVE (prSL .HIVE s) = prSL .HIVE s := by
  apply C01.hivePre_no_occ
  refine q_prSL .HIVE (fun l => C01.occ l = false) (fun c => c ≠ '=') rfl ?_ (by decide) (by decide) (by decide) (by decide)
    (by decide) (by decide) C01.noEqEq (fun e h1 h2 h3 => C01.occ_prEL .HIVE (sz e) e (Nat.le_refl _) h1 h2 h3)
    (fun n => C01.occ n.toList = false) (fun n h => h) ?_ ?_ ?_ ?_ s hs hl hq
  · intro a b c hc ha hb
    rw [C01.occ_sep _ _ _ hc, ha, hb]; rfl
  · intro a ha
    apply C01.occ_none
    have hp : plainL a.toList = true := by rw [← isPlainName_plainL]; exact ha.1
    cases hc : a.toList with
    | nil => intro x hx; cases hx
    | cons c r =>
      rw [hc] at hp
      simp only [plainL, Bool.and_eq_true, List.all_eq_true] at hp
      intro x hx
      rcases List.mem_cons.mp hx with rfl | hx
      · exact alnum_ne_eq _ (plainL_head _ hp.1)
      · exact alnum_ne_eq x (hp.2 x hx)
  · intro n hn
    apply C01.occ_none
    intro x hx e; subst e
    have := (toString_nonneg n hn).2 '=' hx
    revert this; decide
  · intro k hk
    have := (List.all_eq_true.mp clause_words_occ) k hk
    simpa using this
  · intro e he w hw
    have := (List.all_eq_true.mp ((List.all_eq_true.mp join_words_occ) e he)) w hw
    simpa using this

end LexLink
