import MsqProofs.Lemmas.ParseAccountDdl6
/-!
# C08, general accounting for the DDL classes — part 7: one statement of ANY class, the statement loop

`runsOK d f g ts` (Bool): the statement loop is followed only to DELIMIT the statements (`run ts r` = the tokens `pStatement`
consumed); for every statement whose result is a CREATE TABLE ( … ) its token run satisfies `ddlRunOK`, for an ALTER TABLE the runs of
its operations satisfy `NoRep` (`alterOK`) — conditions on tokens.  Nothing is required of the other classes.
-/
set_option linter.unusedVariables false
set_option linter.unusedSectionVars false
set_option linter.unusedSimpArgs false
set_option maxHeartbeats 2000000
open Lex PM Ast

namespace PA
namespace Ddl

set_option hygiene false in
macro "notnew" : tactic =>
  `(tactic| (split_run <;> first | (simp at h; done) | (simp at h; obtain ⟨rfl, _⟩ := h; rfl)))
theorem notNew_pDelete {d f ts s r} (h : pDelete d f ts = .ok (s, r)) : isNewRes s = false := by unfold pDelete at h; notnew
theorem notNew_pDropTable {ts s r} (h : pDropTable ts = .ok (s, r)) : isNewRes s = false := by unfold pDropTable at h; notnew
theorem notNew_pAnalyze {d f ts s r} (h : pAnalyze d f ts = .ok (s, r)) : isNewRes s = false := by unfold pAnalyze at h; notnew
theorem notNew_pMsck {ts s r} (h : pMsck ts = .ok (s, r)) : isNewRes s = false := by unfold pMsck pKwTable at h; notnew
theorem notNew_pTruncate {ts s r} (h : pTruncate ts = .ok (s, r)) : isNewRes s = false := by unfold pTruncate pKwTable at h; notnew
theorem notNew_pUse {ts s r} (h : pUse ts = .ok (s, r)) : isNewRes s = false := by unfold pUse at h; notnew
theorem notNew_pShowColumns {d f ts s r} (h : pShowColumns d f ts = .ok (s, r)) : isNewRes s = false := by unfold pShowColumns at h; notnew
theorem notNew_pInsert {d f w ts s r} (h : pInsert d f w ts = .ok (s, r)) : isNewRes s = false := by unfold pInsert at h; notnew
theorem notNew_pUpdate {d f w ts s r} (h : pUpdate d f w ts = .ok (s, r)) : isNewRes s = false := by unfold pUpdate at h; notnew

/-- one statement of any class -/
theorem pStatement_acc (T : List String) (d : Gen.D) (f : Nat) (ts : List Tok) (s : Stmt) (r : List Tok) (h : pStatement d f ts = .ok (s, r)) :
    ∃ used, ts = used ++ r ∧ (stmtOK d f ts s used = true → FullDStmt s = true → Sub (tStmt s) T → AccAllD T used) := by
  have h0 := h
  have old : isNewRes s = false →
      ∃ used, ts = used ++ r ∧ (stmtOK d f ts s used = true → FullDStmt s = true → Sub (tStmt s) T → AccAllD T used) := fun hn => by
    obtain ⟨u1, e, ha⟩ := ar_used (accS_pStatement T d f ts) h0 (pStatement_consumes d f _ _ _ h0)
    exact ⟨u1, e, fun _ hf hs => accAllD_of_acc (ha (by rw [← fullD_old s hn]; exact hf) hs)⟩
  unfold pStatement at h
  peelD
  · obtain ⟨u, e, k⟩ := pSet_acc T ts s r h; exact ⟨u, e, fun _ _ hs => k hs⟩
  peelD
  · exact old (notNew_pDelete h)
  peelD
  · exact old (notNew_pDropTable h)
  peelD
  · exact pCreateTable_acc T d f ts s r h
  peelD
  · exact old (notNew_pAnalyze h)
  peelD
  · exact pAlter_acc T d f ts s r h
  peelD
  · exact old (notNew_pMsck h)
  peelD
  · exact old (notNew_pUse h)
  peelD
  · exact old (notNew_pTruncate h)
  peelD
  · simp at h; obtain ⟨rfl, _⟩ := h; exact old rfl
  peelD
  · simp at h; obtain ⟨rfl, _⟩ := h; exact old rfl
  peelD
  · exact old (notNew_pShowColumns h)
  · split at h
    · simp at h
    · rename_i withs r1 hw
      peelD
      · split at h
        · simp at h; obtain ⟨rfl, _⟩ := h; exact old rfl
        · simp at h
      peelD
      · exact old (notNew_pInsert h)
      peelD
      · exact old (notNew_pUpdate h)
      · simp at h

/-- every CREATE TABLE ( … ) / ALTER TABLE statement of the token list, as the parser delimits the statements, satisfies `stmtOK` -/
def runsOK (d : Gen.D) (f : Nat) : Nat → List Tok → Bool
  | 0, _ => true
  | g+1, ts =>
    if ts.isEmpty then true else
    match pStatement d f ts with
    | .error _ => true
    | .ok (s, r) => stmtOK d f ts s (run ts r) && runsOK d f g (moveStr r ";").2

theorem statementsLoop_acc (T : List String) (d : Gen.D) (f : Nat) : ∀ g acc ts v, statementsLoop d f g acc ts = .ok v →
    runsOK d f g ts = true → FullDStmts v = true → FullDStmts acc = true ∧ (Sub (tStmts v) T → AccAllD T ts ∧ Sub (tStmts acc) T) := by
  have kSEMI : kwOk ";" = true := by decide
  intro g
  induction g with
  | zero => intro acc ts v h; simp [statementsLoop] at h
  | succ g ih =>
    intro acc ts v h hr hf
    unfold statementsLoop at h
    peelD
    · simp at h; subst h
      have : ts = [] := by simpa using hcnd
      subst this
      exact ⟨hf, fun hs => ⟨accAllD_nil T, hs⟩⟩
    · split at h
      · simp at h
      · rename_i s r1 hp
        unfold runsOK at hr
        rw [if_neg hcnd] at hr
        simp only [hp, Bool.and_eq_true] at hr
        obtain ⟨u1, e1, k1⟩ := pStatement_acc T d f ts s r1 hp
        obtain ⟨uS, eS, kS⟩ := moveStr_kw r1 ";" kSEMI
        obtain ⟨f1, k2⟩ := ih _ _ _ h hr.2 hf
        rw [FullDStmts_append] at f1
        simp only [FullDStmts, Bool.and_true, Bool.and_eq_true] at f1
        refine ⟨f1.1, fun hs => ?_⟩
        obtain ⟨a2, s2⟩ := k2 hs
        rw [tStmts_append, tStmts_one, sub_append] at s2
        refine ⟨?_, s2.1⟩
        have hrun : run ts r1 = u1 := by rw [e1]; exact run_append u1 r1
        have a1 := k1 (by rw [← hrun]; exact hr.1) f1.2 s2.2
        have E : ts = u1 ++ (uS ++ (moveStr r1 ";").2) := e1.trans (congrArg (u1 ++ ·) eS)
        rw [E]
        exact accAllD_append a1 (accAllD_append (accAllD_of_acc (accAll_kws kS)) a2)

end Ddl
end PA
