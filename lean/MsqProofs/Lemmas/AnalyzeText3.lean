import MsqProofs.Lemmas.AnalyzeText2
/-!
# Cutting the token rendering of a SELECT branch into its clauses (C14 / C15 on texts)

`CT.cut p ts` reads the TOP-LEVEL tokens of a token list (bracket groups are single tokens: what is inside is at depth > 0 and is never
looked at) and returns the tokens of the clauses whose number satisfies `p`:

| 0 | `SELECT [DISTINCT] list` | 1 | `FROM …` | 3 | `WHERE …` | 4 | `GROUP BY …` | 5 | `HAVING …` | 6 | `ORDER BY …` | 7 | `LIMIT …` |
| 2 | `… JOIN table [AS alias]` | 8 | `ON condition` (inside the JOIN segment) |

A token starts clause `k` iff it is a clause word (`clauseRank`): `FROM` (1); `JOIN`, `INNER`, `LEFT`, `RIGHT`, `FULL` (2); `CROSS`
directly followed by `JOIN` (2: the lexer gives `CROSS` the NAME mark, it may be a function name or an alias elsewhere); `WHERE` (3);
`GROUP` (4); `HAVING` (5); `ORDER` (6); `LIMIT` (7); `ON` (8).  The token directly after `AS` is an alias and never a clause word.  Every token
belongs to the clause of the last clause word before it (the tokens before the first clause word: clause 0).

`CT.cut_toksS3`: on the rendering of a SELECT of the fragment `TQ.FragS3` the cut returns exactly the pieces the printer concatenated
(`CT.seg d k s`).  Only the expression layer of the fragment matters here (a sub-query is one bracket group).
-/
set_option linter.unusedVariables false
set_option linter.unusedSimpArgs false
open Lex PM Ast TP TP2 TS TQ Spec
namespace CT

def nextIs (w : String) : List Tok → Bool
  | u :: _ => u.equalsStr w
  | [] => false

/-- the clause a top-level token starts (`next`: the tokens after it) -/
def clauseRank (t : Tok) (next : List Tok) : Option Nat :=
  if t.equalsStr "FROM" then some 1
  else if t.equalsStr "JOIN" || t.equalsStr "INNER" || t.equalsStr "LEFT" || t.equalsStr "RIGHT" || t.equalsStr "FULL" then some 2
  else if t.equalsStr "CROSS" && nextIs "JOIN" next then some 2
  else if t.equalsStr "WHERE" then some 3
  else if t.equalsStr "GROUP" then some 4
  else if t.equalsStr "HAVING" then some 5
  else if t.equalsStr "ORDER" then some 6
  else if t.equalsStr "LIMIT" then some 7
  else if t.equalsStr "ON" then some 8
  else none

/-- **the tokens of the clauses selected by `p`**: `cur` = the clause we are in, `as_` = the previous token was `AS` -/
def cut (p : Nat → Bool) : Nat → Bool → List Tok → List Tok
  | _, _, [] => []
  | cur, as_, t :: r =>
    (if p (if as_ then cur else (clauseRank t r).getD cur) then [t] else []) ++
      cut p (if as_ then cur else (clauseRank t r).getD cur) (!as_ && t.equalsStr "AS") r

/-- the clause `c` of a branch's token list -/
def clauseToks (c : Nat) (ts : List Tok) : List Tok := cut (· == c) 0 false ts
/-- C14: the FROM segment / the JOIN segment (join heads, joined tables and ON conditions) of a branch's token list -/
def cutFrom (ts : List Tok) : List Tok := clauseToks 1 ts
def cutJoins (ts : List Tok) : List Tok := cut (fun k => k == 2 || k == 8) 0 false ts
/-- the ON conditions of a token list, each with its `ON` word -/
def cutOns (ts : List Tok) : List Tok := clauseToks 8 ts

/-! ### tokens that are no clause words -/
def noneOf (ws : List String) (t : Tok) : Bool := ws.all fun k => !t.equalsStr k
/-- the clause words the lexer gives no NAME mark -/
def cwords : List String := ["FROM", "JOIN", "INNER", "LEFT", "RIGHT", "FULL", "WHERE", "GROUP", "HAVING", "ORDER", "LIMIT", "ON"]
/-- `t` is none of the unambiguous clause words (it may be `AS` or `CROSS`) -/
def quietW (t : Tok) : Bool := noneOf cwords t
/-- `t` is no clause word, not `AS`, not `CROSS` -/
def dull (t : Tok) : Bool := noneOf ("AS" :: "CROSS" :: cwords) t

theorem noneOf_mem {ws : List String} {t : Tok} (h : noneOf ws t = true) {k : String} (hk : k ∈ ws) : t.equalsStr k = false := by
  have := List.all_eq_true.1 h k hk
  simpa using this
theorem dull_quiet {t : Tok} (h : dull t = true) : quietW t = true := by
  simp only [dull, noneOf, List.all_cons, Bool.and_eq_true] at h
  exact h.2.2

theorem rank_quiet {t : Tok} (h : quietW t = true) (next : List Tok) (hc : (t.equalsStr "CROSS" && nextIs "JOIN" next) = false) :
    clauseRank t next = none := by
  have e := fun k (hk : k ∈ cwords) => noneOf_mem h hk
  simp only [clauseRank, e "FROM" (by decide), e "JOIN" (by decide), e "INNER" (by decide), e "LEFT" (by decide), e "RIGHT" (by decide),
    e "FULL" (by decide), e "WHERE" (by decide), e "GROUP" (by decide), e "HAVING" (by decide), e "ORDER" (by decide), e "LIMIT" (by decide),
    e "ON" (by decide),
    hc, Bool.or_self, Bool.false_eq_true, if_false]
theorem rank_dull {t : Tok} (h : dull t = true) (next : List Tok) : clauseRank t next = none :=
  rank_quiet (dull_quiet h) next (by rw [noneOf_mem h (k := "CROSS") (by decide)]; rfl)

theorem cut_step (p : Nat → Bool) (cur : Nat) (b : Bool) (t : Tok) (r : List Tok) :
    cut p cur b (t :: r) = (if p (if b then cur else (clauseRank t r).getD cur) then [t] else []) ++
      cut p (if b then cur else (clauseRank t r).getD cur) (!b && t.equalsStr "AS") r := rfl
theorem cut_dull {t : Tok} (h : dull t = true) (p : Nat → Bool) (cur : Nat) (b : Bool) (r : List Tok) :
    cut p cur b (t :: r) = (if p cur then [t] else []) ++ cut p cur false r := by
  have ha : t.equalsStr "AS" = false := noneOf_mem h (by decide)
  cases b <;> simp [cut_step, rank_dull h, ha]
theorem cut_pair {t u : Tok} (ht : quietW t = true) (hu : dull u = true) (p : Nat → Bool) (cur : Nat) (b : Bool) (r : List Tok) :
    cut p cur b (t :: u :: r) = (if p cur then [t, u] else []) ++ cut p cur false r := by
  have hj : u.equalsStr "JOIN" = false := noneOf_mem hu (by decide)
  have h1 : clauseRank t (u :: r) = none := rank_quiet ht _ (by simp [nextIs, hj])
  have hr : ∀ b', cut p cur b' (u :: r) = (if p cur then [u] else []) ++ cut p cur false r := fun b' => cut_dull hu p cur b' r
  rw [cut_step]
  cases b
  · simp only [h1, Option.getD_none, Bool.false_eq_true, if_false, hr]
    by_cases hcc : p cur = true <;> simp [hcc]
  · simp only [if_true, hr]
    by_cases hcc : p cur = true <;> simp [hcc]

/-- a piece that the cut walks over without leaving the clause it is in -/
def Inert (ts : List Tok) : Prop :=
  ∀ p cur rest, cut p cur false (ts ++ rest) = (if p cur then ts else []) ++ cut p cur false rest

theorem ite_app {α : Type} (p : Bool) (a b : List α) : (if p then a else []) ++ (if p then b else []) = if p then a ++ b else [] := by
  cases p <;> simp

theorem Inert.nil : Inert [] := fun p cur rest => by simp
theorem Inert.app {a b : List Tok} (ha : Inert a) (hb : Inert b) : Inert (a ++ b) := fun p cur rest => by
  rw [List.append_assoc, ha, hb, ← List.append_assoc, ite_app]
theorem Inert.cons {t : Tok} {b : List Tok} (ht : dull t = true) (hb : Inert b) : Inert (t :: b) := fun p cur rest => by
  rw [List.cons_append, cut_dull ht, hb, ← List.append_assoc, ite_app]; rfl
theorem Inert.one {t : Tok} (ht : dull t = true) : Inert [t] := Inert.cons ht Inert.nil
/-- a word that may be `AS` or `CROSS` (a function name, a wildcard qualifier) in front of a token that is neither -/
theorem Inert.pair {t u : Tok} {b : List Tok} (ht : quietW t = true) (hu : dull u = true) (hb : Inert b) : Inert (t :: u :: b) :=
  fun p cur rest => by
    rw [List.cons_append, List.cons_append, cut_pair ht hu, hb, ← List.append_assoc, ite_app]; rfl
theorem Inert.cast {a b : List Tok} (h : Inert a) (e : a = b) : Inert b := e ▸ h
theorem Inert.ite {ts : List Tok} (c : Bool) (h : Inert ts) : Inert (if c then ts else []) := by
  cases c
  · exact Inert.nil
  · exact h

/-! ### token facts -/
theorem dull_grp (cs : List Tok) : dull (grp cs) = true := by
  simp [dull, noneOf, grp, Tok.equalsStr]
theorem Inert.grp (cs : List Tok) : Inert [grp cs] := Inert.one (dull_grp cs)
theorem Inert.wrap {ts : List Tok} (h : Inert ts) (b : Bool) (e : Expr) (k : Nat) : Inert (wrapT b e k ts) := by
  unfold wrapT
  split
  · exact Inert.grp _
  · exact h

/-- a word list none of whose members starts with a back quote (after upper-casing) -/
def noBq (ws : List String) : Bool := ws.all fun k => (up k).toList.head? != some '`'
theorem noneOf_bq {t : Tok} (h : (up t.src).toList.head? = some '`') {ws : List String} (hw : noBq ws = true)
    (ht : ∀ k, t.equalsStr k = (up t.src == up k)) : noneOf ws t = true := by
  simp only [noneOf, List.all_eq_true, Bool.not_eq_true'] at hw ⊢
  intro k hk
  rw [ht, beq_eq_false_iff_ne]
  exact ne_of_head h (by simpa [noBq] using List.all_eq_true.1 hw k hk)
theorem noneOf_name (n : String) {ws : List String} (hw : noBq ws = true) : noneOf ws (nameTok n) = true :=
  noneOf_bq (TQ.up_nameTok_head n) hw (fun k => rfl)
theorem up_tblTok_head (s : Option String) (n : String) : (up (tblTok s n).src).toList.head? = some '`' := by
  cases s with
  | none => exact TQ.up_nameTok_head n
  | some s =>
    have : ('`'.toNat < 128) := by decide
    simp [tblTok, Tok.src, Tok.source, up, Gen.pyUpperS, String.toList_ofList, TQ.pyUpper_ascii _ _ this]
    decide
theorem noneOf_tbl (s : Option String) (n : String) {ws : List String} (hw : noBq ws = true) : noneOf ws (tblTok s n) = true :=
  noneOf_bq (up_tblTok_head s n) hw (fun k => by cases s <;> rfl)

/-- a word list every member of which is upper-case already -/
def upId (ws : List String) : Bool := ws.all fun k => up k == k
/-- a word token with the NAME mark is none of the words the lexer gives an empty mark set -/
def zeroWords (ws : List String) : Bool := ws.all fun w => (Gen.wordMarks.find? (·.1 == w)) == some (w, 0)
theorem noneOf_named (a : String) (h : (opTok a).has NAME = true) {ws : List String} (h1 : upId ws = true) (h2 : zeroWords ws = true) :
    noneOf ws (opTok a) = true := by
  simp only [noneOf, List.all_eq_true, Bool.not_eq_true']
  intro k hk
  have e1 : up k = k := by simpa using List.all_eq_true.1 h1 k hk
  have e2 : Gen.wordMarks.find? (·.1 == k) = some (k, 0) := by simpa using List.all_eq_true.1 h2 k hk
  rw [TQ.opTok_equals, e1, beq_eq_false_iff_ne]
  exact AT.named_ne a k h e2
theorem noneOf_q (n : String) (h : (qTok n).has NAME = true) {ws : List String} (h0 : noBq ws = true) (h1 : upId ws = true)
    (h2 : zeroWords ws = true) : noneOf ws (qTok n) = true := by
  by_cases hq : (PR.quoteName n == n) = true
  · simp only [qTok, hq, if_true] at h ⊢; exact noneOf_named n h h1 h2
  · simp only [qTok, hq, if_false]; exact noneOf_name n h0

/-- words a literal token cannot be: upper-case, first character no digit and no quote, and either without an entry in the word table
or with an empty mark set -/
def litWords (ws : List String) : Bool := ws.all fun w =>
  up w == w && w.toList.head?.all (fun c => !c.isDigit && c != '\'' && c != '"') &&
    (match Gen.wordMarks.find? (·.1 == w) with | none => true | some p => p == (w, 0))
theorem noneOf_lit {d : Gen.D} (v : String) (hv : litOK d v = true) {ws : List String} (hw : litWords ws = true) :
    noneOf ws (litTok v) = true := by
  simp only [noneOf, List.all_eq_true, Bool.not_eq_true']
  intro k hk
  have := List.all_eq_true.1 hw k hk
  simp only [Bool.and_eq_true, beq_iff_eq] at this
  obtain ⟨⟨e1, e2⟩, e3⟩ := this
  rw [TQ.litTok_equals, e1, beq_eq_false_iff_ne]
  cases hf : Gen.wordMarks.find? (·.1 == k) with
  | none => exact TQ.lit_up_ne v k hv hf e2
  | some p =>
    rw [hf] at e3
    have : p = (k, 0) := by simpa using e3
    subst this
    exact AT.lit_up_ne0 v k hv hf e2
theorem noneOf_int (n : Int) (h : 0 ≤ n) {ws : List String} (hw : ws.all (fun k => (up k).toList.head?.all (fun c => !c.isDigit)) = true) :
    noneOf ws (intTok n) = true := by
  obtain ⟨hne, hd⟩ := LexLink.toString_nonneg n h
  simp only [noneOf, List.all_eq_true, Bool.not_eq_true']
  intro k hk
  have hk' := List.all_eq_true.1 hw k hk
  cases hc : (toString n).toList with
  | nil => exact absurd hc hne
  | cons c r =>
    have hcd : c.isDigit = true := by rw [LexLink.charIsDigit]; exact hd c (by rw [hc]; simp)
    obtain ⟨a1, a2, a3⟩ := TQ.digit_ascii c hcd
    have hh := TQ.up_head (toString n) c r hc a1
    rw [a2] at hh
    rw [intTok, TQ.litTok_equals, beq_eq_false_iff_ne]
    intro he
    rw [he] at hh
    rw [hh] at hk'
    simp [a3] at hk'
theorem noneOf_agg (n : String) (h : Gen.aggNames.contains (up n) = true) {ws : List String}
    (hw : ws.all (fun k => !Gen.aggNames.contains (up k)) = true) : noneOf ws (opTok n) = true := by
  simp only [noneOf, List.all_eq_true, Bool.not_eq_true']
  intro k hk
  have hk' := List.all_eq_true.1 hw k hk
  rw [TQ.opTok_equals, beq_eq_false_iff_ne]
  intro he
  rw [he] at h
  rw [h] at hk'
  exact absurd hk' (by decide)

def dwords : List String := "AS" :: "CROSS" :: cwords
theorem dull_name (n : String) : dull (nameTok n) = true := noneOf_name n (by decide)
theorem dull_tbl (s : Option String) (n : String) : dull (tblTok s n) = true := noneOf_tbl s n (by decide)
theorem dull_lit {d : Gen.D} (v : String) (hv : litOK d v = true) : dull (litTok v) = true := noneOf_lit v hv (by decide)
theorem dull_int (n : Int) (h : 0 ≤ n) : dull (intTok n) = true := noneOf_int n h (by decide)
theorem dull_agg (n : String) (h : Gen.aggNames.contains (up n) = true) : dull (opTok n) = true := noneOf_agg n h (by decide)
theorem quiet_q (n : String) (h : (qTok n).has NAME = true) : quietW (qTok n) = true := noneOf_q n h (by decide) (by decide) (by decide)
theorem quiet_named (a : String) (h : (opTok a).has NAME = true) : quietW (opTok a) = true := noneOf_named a h (by decide) (by decide)

def dullS (w : String) : Bool := dull (opTok w)
theorem dull_cval (o : String) : dull (opTok (cval o)) = true := by
  have hall : Gen.computeEnum.all (fun e => dullS e.2.1) = true := by decide
  unfold cval
  cases hf : Gen.computeEnum.find? (·.1 == o) with
  | none => decide
  | some e => exact List.all_eq_true.1 hall e (List.mem_of_find?_eq_some hf)
theorem dull_cmpVal (o : String) : dull (opTok (cmpVal o)) = true := by
  have hall : Gen.compareEnum.all (fun e => dullS (PR.joinS " " e.2)) = true := by decide
  unfold cmpVal
  cases hf : Gen.compareEnum.find? (·.1 == o) with
  | none => decide
  | some e => exact List.all_eq_true.1 hall e (List.mem_of_find?_eq_some hf)

def kwList : List String := ["SELECT", "DISTINCT", "CASE", "WHEN", "THEN", "ELSE", "END", "EXISTS", "NOT", "AND", "OR", "XOR", "BETWEEN", "BY", "DESC", "IS", "IN", "LIKE", "RLIKE", "REGEXP", ".", "*", ",", "OUTER", "SEMI"]
theorem dull_kwList : kwList.all (fun w => dull (opTok w)) = true := by decide +kernel
theorem dull_kw (w : String) (h : w ∈ kwList) : dull (opTok w) = true := List.all_eq_true.1 dull_kwList w h
theorem dk (w : String) (h : w ∈ kwList := by simp [kwList]) : dull (opTok w) = true := dull_kw w h
theorem inert_kwToks (k : KwKind) (n : Bool) : Inert (kwToks k n) := by
  cases k <;> cases n <;> simp only [kwToks, Bool.false_eq_true, if_false, if_true]
  · exact Inert.one (dk "IS")
  · exact Inert.cons (dk "IS") (Inert.one (dk "NOT"))
  · exact Inert.one (dk "IN")
  · exact Inert.cons (dk "NOT") (Inert.one (dk "IN"))
  · exact Inert.one (dk "LIKE")
  · exact Inert.cons (dk "NOT") (Inert.one (dk "LIKE"))
  · exact Inert.one (dk "RLIKE")
  · exact Inert.cons (dk "NOT") (Inert.one (dk "RLIKE"))
  · exact Inert.one (dk "REGEXP")
  · exact Inert.cons (dk "NOT") (Inert.one (dk "REGEXP"))

/-- `AS alias`: the alias is walked over whatever word it is -/
theorem inert_alias (a : Option String) : Inert (aliasToks a) := by
  cases a with
  | none => exact Inert.nil
  | some a =>
    intro p cur rest
    have h1 : clauseRank (opTok "AS") (opTok a :: rest) = none := rank_quiet (by decide) _ (by
      have : (opTok "AS").equalsStr "CROSS" = false := by decide
      rw [this]; rfl)
    have h2 : (opTok "AS").equalsStr "AS" = true := by decide
    simp only [aliasToks, List.cons_append, List.nil_append, cut, h1, h2, Option.getD_none, Bool.false_eq_true, if_false, if_true,
      Bool.not_false, Bool.true_and, Bool.not_true, Bool.false_and]
    by_cases hcc : p cur = true <;> simp [hcc]

/-! ### the expression layer: every rendering is inert -/
variable {d : Gen.D} (ch : Expr → Bool)

mutual
theorem iE : ∀ (e : Expr), FragE3 d e = true → Inert (toksE3 d ch e)
  | e, h => by
    cases e with
    | column t c =>
      cases t with
      | none => simp only [toksE3]; exact Inert.one (dull_name c)
      | some t => simp only [toksE3]; exact Inert.cons (dull_name t) (Inert.cons (dk ".") (Inert.one (dull_name c)))
    | literal v => simp only [FragE3] at h; simp only [toksE3]; exact Inert.one (dull_lit v h)
    | wildcard t =>
      cases t with
      | none => simp only [toksE3]; exact Inert.one (dk "*")
      | some t =>
        simp only [FragE3, wildOK] at h
        simp only [toksE3]
        exact Inert.pair (quiet_q t (AT.nm_has h)) (dk ".") (Inert.one (dk "*"))
    | func s n ps =>
      simp only [FragE3, Bool.and_eq_true] at h
      have hq : quietW (qTok n) = true := by
        have h1 := h.1
        cases s with
        | none => simp only [fnOK, Bool.and_eq_true] at h1; exact quiet_q n (AT.nm_has h1.2.1)
        | some s => simp only [fnOK, Bool.and_eq_true] at h1; exact quiet_q n (AT.nm2_has h1.2.2)
      simp only [toksE3]
      cases s with
      | none => exact (Inert.pair hq (dull_grp (toksArgs3 d ch 14 ps)) Inert.nil).cast rfl
      | some s => exact (Inert.cons (dull_name s) (Inert.cons (dk ".") (Inert.pair hq (dull_grp (toksArgs3 d ch 14 ps)) Inert.nil))).cast rfl
    | agg n ps dist =>
      simp only [FragE3, aggOK, Bool.and_eq_true] at h
      simp only [toksE3]
      exact Inert.cons (dull_agg n h.1.1.1) (Inert.grp _)
    | caseCond cs els =>
      simp only [FragE3, Bool.and_eq_true] at h
      simp only [toksE3]
      exact Inert.cons (dk "CASE") ((iArms cs h.1.1).app ((iElse els h.1.2).app (Inert.one (dk "END"))))
    | caseVal v cs els =>
      simp only [FragE3, Bool.and_eq_true] at h
      simp only [toksE3]
      exact Inert.cons (dk "CASE") (((iE v h.1.1.1).wrap _ _ _).app ((iArms cs h.1.1.2).app ((iElse els h.1.2).app (Inert.one (dk "END")))))
    | subQuery q => simp only [toksE3]; exact Inert.grp _
    | exists_ v =>
      simp only [FragE3] at h
      cases v with
      | subQuery q => simp only [toksE3]; exact Inert.cons (dk "EXISTS") (Inert.grp _)
      | _ => simp [isSubQ] at h
    | unary o e =>
      simp only [FragE3, Bool.and_eq_true] at h
      simp only [toksE3]
      exact Inert.cons (dull_cval o) ((iE e h.2).wrap _ _ _)
    | compute l o r =>
      simp only [FragE3, Bool.and_eq_true] at h
      simp only [toksE3]
      exact ((iE l h.1.2).wrap _ _ _).app (Inert.cons (dull_cval o) ((iE r h.2).wrap _ _ _))
    | kw k n l r =>
      simp only [FragE3, Bool.and_eq_true] at h
      have hr : Inert (toksE3 d ch r) := by
        have h2 := h.1.2
        by_cases hk : (k == KwKind.in_) = true
        · simp only [hk, if_true] at h2
          cases r with
          | subQuery q => simp only [toksE3]; exact Inert.grp _
          | subValue vs => simp only [toksE3]; exact Inert.grp _
          | _ => simp [inRhs3] at h2
        · simp only [hk, if_false] at h2; exact iE r h2
      simp only [toksE3]
      exact ((iE l h.1.1).wrap _ _ _).app ((inert_kwToks k n).app (hr.wrap _ _ _))
    | between n b f t =>
      simp only [FragE3, Bool.and_eq_true] at h
      simp only [toksE3]
      exact ((iE b h.1.1.1).wrap _ _ _).app ((Inert.ite n (Inert.one (dk "NOT"))).app (Inert.cons (dk "BETWEEN")
        (((iE f h.1.1.2).wrap _ _ _).app (Inert.cons (dk "AND") ((iE t h.1.2).wrap _ _ _)))))
    | compare o l r =>
      simp only [FragE3, Bool.and_eq_true] at h
      simp only [toksE3]
      exact ((iE l h.1.1.2).wrap _ _ _).app (Inert.cons (dull_cmpVal o) ((iE r h.1.2).wrap _ _ _))
    | not_ e => simp only [FragE3] at h; simp only [toksE3]; exact Inert.cons (dk "NOT") ((iE e h).wrap _ _ _)
    | and_ l r =>
      simp only [FragE3, Bool.and_eq_true] at h
      simp only [toksE3]
      exact ((iE l h.1).wrap _ _ _).app (Inert.cons (dk "AND") ((iE r h.2).wrap _ _ _))
    | xor l r =>
      simp only [FragE3, Bool.and_eq_true] at h
      simp only [toksE3]
      exact ((iE l h.1).wrap _ _ _).app (Inert.cons (dk "XOR") ((iE r h.2).wrap _ _ _))
    | or_ l r =>
      simp only [FragE3, Bool.and_eq_true] at h
      simp only [toksE3]
      exact ((iE l h.1).wrap _ _ _).app (Inert.cons (dk "OR") ((iE r h.2).wrap _ _ _))
    | _ => simp [FragE3] at h
theorem iArms : ∀ (cs : List (Expr × Expr)), FragA3 d cs = true → Inert (toksArms3 d ch cs)
  | [], _ => by simp only [toksArms3]; exact Inert.nil
  | (w, t) :: r, h => by
    simp only [FragA3, Bool.and_eq_true] at h
    simp only [toksArms3]
    exact Inert.cons (dk "WHEN") (((iE w h.1.1).wrap _ _ _).app (Inert.cons (dk "THEN") (((iE t h.1.2).wrap _ _ _).app (iArms r h.2))))
theorem iElse : ∀ (y : Option Expr), FragO3 d y = true → Inert (toksElse3 d ch y)
  | none, _ => by simp only [toksElse3]; exact Inert.nil
  | some y, h => by
    simp only [FragO3] at h
    simp only [toksElse3]
    exact Inert.cons (dk "ELSE") ((iE y h).wrap _ _ _)
end

theorem iArgsTail (k : Nat) : ∀ (ps : List Expr), FragL3 d ps = true → Inert (toksArgsTail3 d ch k ps)
  | [], _ => by simp only [toksArgsTail3]; exact Inert.nil
  | a :: as, h => by
    simp only [FragL3, Bool.and_eq_true] at h
    simp only [toksArgsTail3]
    exact Inert.cons (dk ",") (((iE ch a h.1).wrap _ _ _).app (iArgsTail k as h.2))

end CT
