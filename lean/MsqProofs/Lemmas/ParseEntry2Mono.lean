import MsqModel.Parse.Entry2
import MsqProofs.Lemmas.ParseEntriesMono
/-!
# The 26 entry points of `PM.entries2`: more fuel never changes a successful parse

Same statement as `PM.entries_mono` (generated, for `PM.entries`): a result obtained with fuel `f` is the result with every
`f' ≥ f`.  Built on `PM.monoF` (the 80-function block) and the statement-level `mono_*` lemmas.
-/
open Lex PM Ast
namespace PM

theorem pJoinOn_mono : ∀ d f f' ts r, f ≤ f' → pJoinOn d f ts = .ok r → pJoinOn d f' ts = .ok r := by
  intro d f f' ts r hle h
  unfold pJoinOn at h ⊢
  cases hm : matchKw ts "ON" with
  | error e => simp [hm] at h
  | ok v =>
    simp only [hm] at h ⊢
    cases ho : pOr d f v.2 with
    | error e => simp [ho] at h
    | ok w => rw [(monoF d f).pOr _ _ f' ho hle]; simpa [ho] using h

theorem pJoinUsing_mono : ∀ d f f' ts r, f ≤ f' → pJoinUsing d f ts = .ok r → pJoinUsing d f' ts = .ok r := by
  intro d f f' ts r hle h
  unfold pJoinUsing at h ⊢
  cases ho : pFunc d f ts with
  | error e => simp [ho] at h
  | ok w => rw [(monoF d f).pFunc _ _ f' ho hle]; simpa [ho] using h

theorem pJoinExpr_mono : ∀ d f f' ts r, f ≤ f' → pJoinExpr d f ts = .ok r → pJoinExpr d f' ts = .ok r := by
  intro d f f' ts r hle h
  unfold pJoinExpr at h ⊢
  split
  · rename_i hc; simp only [hc, if_true] at h; exact pJoinOn_mono d f f' ts r hle h
  · rename_i hc; simp only [hc] at h
    split
    · rename_i hu; simp only [hu, if_true] at h; exact pJoinUsing_mono d f f' ts r hle h
    · rename_i hu; simp [hu] at h

theorem pSelectClause_mono : ∀ d f f' ts r, f ≤ f' → pSelectClause d f ts = .ok r → pSelectClause d f' ts = .ok r := by
  intro d f f' ts r hle h
  unfold pSelectClause at h ⊢
  cases hm : matchKw ts "SELECT" with
  | error e => simp [hm] at h
  | ok v =>
    simp only [hm] at h ⊢
    cases hc : pSelectCol d f (moveStrUp v.2 "DISTINCT").2 with
    | error e => simp [hc] at h
    | ok c =>
      simp only [hc] at h
      rw [(monoF d f).pSelectCol _ _ f' hc hle]
      cases hs : pSelectCols d f [c.1] c.2 with
      | error e => simp [hs] at h
      | ok cs =>
        simp only [hs] at h
        simp only [(monoF d f).pSelectCols _ _ _ f' hs hle]
        exact h

/-- every entry of `entries2`: a result obtained with fuel `f` is the result with every `f' ≥ f` -/
theorem entries2_mono : ∀ p ∈ entries2, ∀ d f f' ts r, f ≤ f' → p.2 d f ts = .ok r → p.2 d f' ts = .ok r := by
  unfold entries2
  simp only [List.forall_mem_cons]
  refine ⟨?_, ?_, ?_, ?_, ?_, ?_, ?_, ?_, ?_, ?_, ?_, ?_, ?_, ?_, ?_, ?_, ?_, ?_, ?_, ?_, ?_, ?_, ?_, ?_, ?_, ?_, by simp⟩
  · exact fun _ _ _ _ _ _ h => h   -- insert_type
  · exact fun _ _ _ _ _ _ h => h   -- join_type
  · exact fun _ _ _ _ _ _ h => h   -- order_type
  · exact fun _ _ _ _ _ _ h => h   -- union_type
  · exact fun _ _ _ _ _ _ h => h   -- compare_operator
  · exact fun _ _ _ _ _ _ h => h   -- compute_operator
  · exact fun _ _ _ _ _ _ h => h   -- cast_data_type
  · exact fun _ _ _ _ _ _ h => h   -- window_row_item
  · exact fun _ _ _ _ _ _ h => h   -- window_row
  · exact fun _ _ _ _ _ _ h => h   -- wildcard_expression
  · exact fun _ _ _ _ _ _ h => h   -- alias_expression
  · exact fun _ _ _ _ _ _ h => h   -- multi_alias_expression
  · exact mapEntry_mono pJoinOn JoinRule.toVal pJoinOn_mono   -- join_on_expression
  · exact mapEntry_mono pJoinUsing JoinRule.toVal pJoinUsing_mono   -- join_using_expression
  · exact mapEntry_mono pJoinExpr JoinRule.toVal pJoinExpr_mono   -- join_expression
  · exact mapEntry_mono pSelectCol selectColVal (fun d f f' ts r hle h => (monoF d f).pSelectCol ts r f' h hle)   -- select_column
  · exact mapEntry_mono pSelectClause selectClauseVal pSelectClause_mono   -- select_clause
  · exact mapEntry_mono pFromClause fromClauseVal1 (fun d f f' ts r hle h => stmtMono (a := fun f => pFromClause d f ts) hle (fun hF => mono_pFromClause hF ts r h) h)   -- from_clause
  · exact mapEntry_mono pGroupingSets groupingSetsVal (fun d f f' ts r hle h => (monoF d f).pGroupingSets ts r f' h hle)   -- grouping_sets
  · exact mapEntry_mono (fun d f ts => pOptOr d f "HAVING" ts) havingClauseVal (fun d f f' ts r hle h => (monoF d f).pOptOr "HAVING" ts r f' h hle)   -- having_clause
  · exact mapEntry_mono pSortBy sortByClauseVal (fun d f f' ts r hle h => (monoF d f).pSortBy ts r f' h hle)   -- sort_by_clause
  · exact mapEntry_mono (fun d f ts => pByList d f "DISTRIBUTE" ts) distributeByClauseVal (fun d f f' ts r hle h => (monoF d f).pByList "DISTRIBUTE" ts r f' h hle)   -- distribute_by_clause
  · exact mapEntry_mono (fun d f ts => pByList d f "CLUSTER" ts) clusterByClauseVal (fun d f f' ts r hle h => (monoF d f).pByList "CLUSTER" ts r f' h hle)   -- cluster_by_clause
  · exact mapEntry_mono pWithTable WithTable.toVal (fun d f f' ts r hle h => (monoF d f).pWithTable ts r f' h hle)   -- with_table
  · exact mapEntry_mono pUpdateSetCol updateSetColVal (fun d f f' ts r hle h => stmtMono (a := fun f => pUpdateSetCol d f ts) hle (fun hF => mono_pUpdateSetCol hF ts r h) h)   -- update_set_column
  · exact mapEntry_mono pUpdateSet updateSetVal (fun d f f' ts r hle h => stmtMono (a := fun f => pUpdateSet d f ts) hle (fun hF => mono_pUpdateSet hF ts r h) h)   -- update_set_clause

end PM
