import MsqProofs.Lemmas.TQueryE3
import MsqProofs.Lemmas.LexLinkSelect
import MsqModel.Analyze.TablesSpec
/-!
# Token-level characterisation of table usage (C14 on texts)

`AT.tableToks ts` reads a token list (what the lexer makes of a text) and returns the table tokens in textual order.  It looks only
at the words `FROM`, `JOIN`, `AS`, the comma, and bracket nesting:

* outside a FROM / JOIN position (`idle`) it walks over every token, descending into every bracket group;
* the token after `FROM` or `JOIN` is a table reference: a plain token is a table token, a bracket group is a derived table whose
  children are scanned from the start;
* after a table reference an optional `AS alias` is skipped; after a reference of a FROM list a comma announces the next reference.

`AT.tables_toksQ`: for every query of the nested fragment `TQ.FragQ`, whatever redundant brackets the rendering carries (`ch`), the
table tokens of the rendering are the printed names of `Spec.tablesOf q`, in order, and each reads back (`PM.splitName`) as its
(schema, name) pair — so `Spec.tablesOf q = AT.tableNames (toksQ d ch q)`.
-/
set_option linter.unusedVariables false
set_option linter.unusedSimpArgs false
open Lex PM Ast TP TP2 TS TQ Spec
namespace AT

inductive Mode where
  | idle
  | expect (fromList : Bool)
  | after (fromList : Bool)
  | alias (fromList : Bool)

mutual
/-- the table tokens inside one token met outside a FROM / JOIN position: none for a plain token, the scan of the children for a group -/
def tabT : Tok → List Tok
  | .single _ _ => []
  | .group _ cs _ => tabL .idle cs
/-- the token at a table position: a plain token is the table, a group is a derived table -/
def refT : Tok → List Tok
  | .single s m => [.single s m]
  | .group _ cs _ => tabL .idle cs
def tabL : Mode → List Tok → List Tok
  | _, [] => []
  | .idle, t :: r =>
    if t.equalsStr "FROM" then tabL (.expect true) r
    else if t.equalsStr "JOIN" then tabL (.expect false) r
    else tabT t ++ tabL .idle r
  | .expect fl, t :: r => refT t ++ tabL (.after fl) r
  | .after fl, t :: r =>
    if t.equalsStr "AS" then tabL (.alias fl) r
    else if fl && t.equalsStr "," then tabL (.expect true) r
    else if t.equalsStr "FROM" then tabL (.expect true) r
    else if t.equalsStr "JOIN" then tabL (.expect false) r
    else tabT t ++ tabL .idle r
  | .alias fl, _ :: r => tabL (.after fl) r
end

/-- **the table tokens of a token list**, in textual order -/
def tableToks (ts : List Tok) : List Tok := tabL .idle ts

/-- the (schema, name) pair a table token stands for, as the parser reads it (`_parse_table_name_expression`) -/
def tokTbl (t : Tok) : Option Tbl := match splitName t.src with | .ok (s, n) => some ⟨s, n⟩ | .error _ => none
/-- **the tables named in a token list**, in textual order -/
def tableNames (ts : List Tok) : List Tbl := (tableToks ts).filterMap tokTbl

/-! ### scanning facts -/
/-- a plain token that is neither `FROM` nor `JOIN` -/
structure Skip (t : Tok) : Prop where
  nf : t.equalsStr "FROM" = false
  nj : t.equalsStr "JOIN" = false
  leaf : tabT t = []

theorem idle_skip {t : Tok} (h : Skip t) (r : List Tok) : tabL .idle (t :: r) = tabL .idle r := by
  simp [tabL, h.nf, h.nj, h.leaf]
theorem idle_grp (cs r : List Tok) : tabL .idle (grp cs :: r) = tabL .idle cs ++ tabL .idle r := by
  simp [tabL, grp, Tok.equalsStr, tabT]

/-- the next token is neither `AS` nor a comma -/
def hdOK : List Tok → Bool
  | [] => true
  | t :: _ => !t.equalsStr "AS" && !t.equalsStr ","
theorem after_idle (fl : Bool) {rest : List Tok} (h : hdOK rest = true) : tabL (.after fl) rest = tabL .idle rest := by
  cases rest with
  | nil => simp [tabL]
  | cons t r =>
    simp only [hdOK, Bool.and_eq_true, Bool.not_eq_true'] at h
    simp [tabL, h.1, h.2]

/-! ### the tokens of the rendering that are walked over -/
variable {d : Gen.D}

theorem up_FROM : up "FROM" = "FROM" := by decide
theorem up_JOIN : up "JOIN" = "JOIN" := by decide

theorem skip_op_of (w : String) (h1 : up w ≠ "FROM") (h2 : up w ≠ "JOIN") : Skip (opTok w) :=
  ⟨by rw [TQ.opTok_equals, up_FROM]; simpa using h1, by rw [TQ.opTok_equals, up_JOIN]; simpa using h2, rfl⟩
theorem skip_lit_of (v : String) (h1 : up v ≠ "FROM") (h2 : up v ≠ "JOIN") : Skip (litTok v) :=
  ⟨by rw [TQ.litTok_equals, up_FROM]; simpa using h1, by rw [TQ.litTok_equals, up_JOIN]; simpa using h2, rfl⟩

theorem skip_name (n : String) : Skip (nameTok n) := by
  have h2 := TQ.up_nameTok_head n
  refine ⟨?_, ?_, rfl⟩
  · rw [TQ.nameTok_equals, beq_eq_false_iff_ne]; exact ne_of_head h2 (by decide)
  · rw [TQ.nameTok_equals, beq_eq_false_iff_ne]; exact ne_of_head h2 (by decide)

/-- a word token with the NAME mark is no word of `Gen.wordMarks` whose marks are empty -/
theorem named_ne (a w : String) (h : (opTok a).has NAME = true) (hw : Gen.wordMarks.find? (·.1 == w) = some (w, 0)) : up a ≠ w := by
  intro he
  simp only [opTok, Tok.has, Tok.marks, wordMark, he, hw] at h
  exact absurd h (by decide)
theorem skip_named (a : String) (h : (opTok a).has NAME = true) : Skip (opTok a) :=
  skip_op_of a (named_ne a "FROM" h (by decide)) (named_ne a "JOIN" h (by decide))
theorem skip_q (n : String) (h : (qTok n).has NAME = true) : Skip (qTok n) := by
  by_cases hq : (PR.quoteName n == n) = true
  · simp only [qTok, hq, if_true] at h ⊢; exact skip_named n h
  · simp only [qTok, hq, if_false]; exact skip_name n

/-- a literal token is no LITERAL-free word of `Gen.wordMarks` -/
theorem lit_up_ne0 (v w : String) (hv : litOK d v = true) (hw1 : Gen.wordMarks.find? (·.1 == w) = some (w, 0))
    (hw2 : w.toList.head?.all (fun c => !c.isDigit && c != '\'' && c != '"') = true) : up v ≠ w := by
  intro he
  simp only [litOK, Bool.and_eq_true] at hv
  have hl := hv.1
  simp only [litTok, Tok.has, Tok.marks, litMark] at hl
  by_cases hd : isDigits v = true
  · simp only [isDigits, Bool.and_eq_true, Bool.not_eq_true', List.all_eq_true] at hd
    cases hc : v.toList with
    | nil => rw [hc] at hd; simp at hd
    | cons c r =>
      rw [hc] at hd
      obtain ⟨a1, a2, a3⟩ := TQ.digit_ascii c (hd.2 c (by simp))
      have := TQ.up_head v c r hc a1
      rw [he, a2] at this
      rw [this] at hw2
      simp [a3] at hw2
  · simp only [hd, Bool.false_eq_true, if_false] at hl
    by_cases hq : (v.toList.head? == some '\'' || v.toList.head? == some '"') = true
    · cases hc : v.toList with
      | nil => rw [hc] at hq; simp at hq
      | cons c r =>
        rw [hc] at hq
        simp only [List.head?_cons, Bool.or_eq_true, beq_iff_eq, Option.some.injEq] at hq
        rcases hq with rfl | rfl
        · have := TQ.up_head v '\'' r hc (by decide)
          rw [he, show Py.upperAsciiChar '\'' = '\'' by decide] at this
          rw [this] at hw2; simp at hw2
        · have := TQ.up_head v '"' r hc (by decide)
          rw [he, show Py.upperAsciiChar '"' = '"' by decide] at this
          rw [this] at hw2; simp at hw2
    · simp only [hq, Bool.false_eq_true, if_false, wordMark, he, hw1] at hl
      exact absurd hl (by decide)
theorem skip_lit (v : String) (hv : litOK d v = true) : Skip (litTok v) :=
  skip_lit_of v (lit_up_ne0 v "FROM" hv (by decide) (by decide)) (lit_up_ne0 v "JOIN" hv (by decide) (by decide))

theorem skip_agg (n : String) (h : Gen.aggNames.contains (up n) = true) : Skip (opTok n) := by
  refine skip_op_of n ?_ ?_ <;> (intro he; rw [he] at h; exact absurd h (by decide))

def skipS (w : String) : Bool := !(opTok w).equalsStr "FROM" && !(opTok w).equalsStr "JOIN"
theorem skip_of_S (w : String) (h : skipS w = true) : Skip (opTok w) := by
  simp only [skipS, Bool.and_eq_true, Bool.not_eq_true'] at h
  exact ⟨h.1, h.2, rfl⟩

theorem skip_cval (o : String) : Skip (opTok (cval o)) := by
  apply skip_of_S
  have hall : Gen.computeEnum.all (fun e => skipS e.2.1) = true := by decide
  unfold cval
  cases hf : Gen.computeEnum.find? (·.1 == o) with
  | none => decide
  | some e => exact List.all_eq_true.1 hall e (List.mem_of_find?_eq_some hf)
theorem skip_cmpVal (o : String) : Skip (opTok (cmpVal o)) := by
  apply skip_of_S
  have hall : Gen.compareEnum.all (fun e => skipS (PR.joinS " " e.2)) = true := by decide
  unfold cmpVal
  cases hf : Gen.compareEnum.find? (·.1 == o) with
  | none => decide
  | some e => exact List.all_eq_true.1 hall e (List.mem_of_find?_eq_some hf)

theorem skip_int (n : Int) (h : 0 ≤ n) : Skip (intTok n) := by
  obtain ⟨hne, hd⟩ := LexLink.toString_nonneg n h
  cases hc : (toString n).toList with
  | nil => exact absurd hc hne
  | cons c r =>
    have hcd : c.isDigit = true := by rw [LexLink.charIsDigit]; exact hd c (by rw [hc]; simp)
    obtain ⟨a1, a2, a3⟩ := TQ.digit_ascii c hcd
    have hh := TQ.up_head (toString n) c r hc a1
    rw [a2] at hh
    refine skip_lit_of _ ?_ ?_
    · intro he
      rw [he, show "FROM".toList.head? = some 'F' by decide] at hh
      injection hh with hh
      rw [← hh] at a3; exact absurd a3 (by decide)
    · intro he
      rw [he, show "JOIN".toList.head? = some 'J' by decide] at hh
      injection hh with hh
      rw [← hh] at a3; exact absurd a3 (by decide)

/-! ### keyword sequences of the generated tables -/
/-- a JOIN keyword sequence: words that are walked over, then `JOIN` -/
def joinSeqOK : List String → Bool
  | [] => false
  | [w] => (opTok w).equalsStr "JOIN" && !(opTok w).equalsStr "FROM"
  | w :: ws => skipS w && joinSeqOK ws
def hdW : List String → Bool
  | [] => false
  | w :: _ => !(opTok w).equalsStr "AS" && !(opTok w).equalsStr ","
theorem joinTypes_ok : Gen.joinTypes.all (fun e => joinSeqOK e.2 && hdW e.2) = true := by decide
theorem unionTypes_ok : Gen.unionTypes.all (fun e => e.2.all skipS && hdW e.2) = true := by decide

theorem joinSeq_scan (ws : List String) : joinSeqOK ws = true → ∀ rest, tabL .idle (ws.map opTok ++ rest) = tabL (.expect false) rest := by
  induction ws with
  | nil => intro h; exact absurd h (by decide)
  | cons w ws ih =>
    intro h rest
    cases ws with
    | nil =>
      have h' : ((opTok w).equalsStr "JOIN" && !(opTok w).equalsStr "FROM") = true := h
      simp only [Bool.and_eq_true, Bool.not_eq_true'] at h'
      simp only [List.map_cons, List.map_nil, List.cons_append, List.nil_append, tabL, h'.1, h'.2, if_true, Bool.false_eq_true, if_false]
    | cons w2 ws =>
      have h' : (skipS w && joinSeqOK (w2 :: ws)) = true := h
      simp only [Bool.and_eq_true] at h'
      have := ih h'.2 rest
      simp only [List.map_cons, List.cons_append] at this ⊢
      rw [idle_skip (skip_of_S w h'.1), this]
theorem hdW_hd (ws : List String) (h : hdW ws = true) (rest : List Tok) : hdOK (ws.map opTok ++ rest) = true := by
  cases ws with
  | nil => exact absurd h (by decide)
  | cons w ws => exact h

theorem joinWords_facts {ty : String} (h : joinTyOK d ty = true) :
    (∀ rest, tabL .idle (joinWords ty ++ rest) = tabL (.expect false) rest) ∧ (∀ rest, hdOK (joinWords ty ++ rest) = true) := by
  unfold joinWords
  cases hf : Gen.joinTypes.find? (·.1 == ty) with
  | none => simp [joinTyOK, joinWords, hf] at h
  | some e =>
    have := List.all_eq_true.1 joinTypes_ok e (List.mem_of_find?_eq_some hf)
    simp only [Bool.and_eq_true] at this
    exact ⟨joinSeq_scan e.2 this.1, hdW_hd e.2 this.2⟩

theorem skips_scan : ∀ (ws : List String), ws.all skipS = true → ∀ rest, tabL .idle (ws.map opTok ++ rest) = tabL .idle rest
  | [], _, _ => rfl
  | w :: ws, h, rest => by
    simp only [List.all_cons, Bool.and_eq_true] at h
    simp only [List.map_cons, List.cons_append]
    rw [idle_skip (skip_of_S w h.1), skips_scan ws h.2 rest]

theorem unionWords_facts {ty : String} (h : unionTyOK d ty = true) :
    (∀ rest, tabL .idle (unionWords ty ++ rest) = tabL .idle rest) ∧ (∀ rest, hdOK (unionWords ty ++ rest) = true) := by
  unfold unionWords
  cases hf : Gen.unionTypes.find? (·.1 == ty) with
  | none => simp [unionTyOK, unionWords, hf] at h
  | some e =>
    have := List.all_eq_true.1 unionTypes_ok e (List.mem_of_find?_eq_some hf)
    simp only [Bool.and_eq_true] at this
    exact ⟨skips_scan e.2 this.1, hdW_hd e.2 this.2⟩

/-! ### pieces of a rendering -/
/-- the token a table is printed as -/
def tk (t : Tbl) : Tok := tblTok t.schema t.name
def AllOK (l : List Tbl) : Prop := ∀ t ∈ l, tblOK t.schema t.name = true
theorem allOK_nil : AllOK [] := fun _ h => by cases h
theorem allOK_app {a b : List Tbl} (ha : AllOK a) (hb : AllOK b) : AllOK (a ++ b) := by
  intro t ht
  rcases List.mem_append.1 ht with h | h
  · exact ha t h
  · exact hb t h

/-- a piece that is walked over outside FROM / JOIN positions whatever follows: its table tokens are the printed names of `l` -/
structure TabOK (ts : List Tok) (l : List Tbl) : Prop where
  scan : ∀ rest, tabL .idle (ts ++ rest) = l.map tk ++ tabL .idle rest
  ok : AllOK l
/-- the same for a piece that may end in a table position: what follows must not start with `AS` or a comma -/
structure TabOKH (ts : List Tok) (l : List Tbl) : Prop where
  scan : ∀ rest, hdOK rest = true → tabL .idle (ts ++ rest) = l.map tk ++ tabL .idle rest
  ok : AllOK l
/-- a piece that is empty or starts with a token that is neither `AS` nor a comma -/
def HdP (ts : List Tok) : Prop := ∀ rest, hdOK rest = true → hdOK (ts ++ rest) = true

theorem TabOK.nil : TabOK [] [] := ⟨fun _ => rfl, allOK_nil⟩
theorem TabOK.cast {ts ts' : List Tok} {l l' : List Tbl} (h : TabOK ts l) (e1 : ts = ts') (e2 : l = l') : TabOK ts' l' := by
  subst e1; subst e2; exact h
theorem TabOKH.cast {ts ts' : List Tok} {l l' : List Tbl} (h : TabOKH ts l) (e1 : ts = ts') (e2 : l = l') : TabOKH ts' l' := by
  subst e1; subst e2; exact h
theorem TabOK.app {a b : List Tok} {x y : List Tbl} (ha : TabOK a x) (hb : TabOK b y) : TabOK (a ++ b) (x ++ y) :=
  ⟨fun rest => by rw [List.append_assoc, ha.scan, hb.scan, List.map_append, List.append_assoc], allOK_app ha.ok hb.ok⟩
theorem TabOK.cons {t : Tok} {b : List Tok} {y : List Tbl} (ht : Skip t) (hb : TabOK b y) : TabOK (t :: b) y :=
  ⟨fun rest => by rw [List.cons_append, idle_skip ht, hb.scan], hb.ok⟩
theorem TabOK.one {t : Tok} (ht : Skip t) : TabOK [t] [] := TabOK.cons ht TabOK.nil
theorem TabOK.toH {a : List Tok} {x : List Tbl} (ha : TabOK a x) : TabOKH a x := ⟨fun rest _ => ha.scan rest, ha.ok⟩
theorem TabOK.appH {a b : List Tok} {x y : List Tbl} (ha : TabOK a x) (hb : TabOKH b y) : TabOKH (a ++ b) (x ++ y) :=
  ⟨fun rest hr => by rw [List.append_assoc, ha.scan, hb.scan rest hr, List.map_append, List.append_assoc], allOK_app ha.ok hb.ok⟩
theorem TabOK.consH {t : Tok} {b : List Tok} {y : List Tbl} (ht : Skip t) (hb : TabOKH b y) : TabOKH (t :: b) y :=
  ⟨fun rest hr => by rw [List.cons_append, idle_skip ht, hb.scan rest hr], hb.ok⟩
theorem TabOKH.app {a b : List Tok} {x y : List Tbl} (ha : TabOKH a x) (hb : TabOKH b y) (hp : HdP b) : TabOKH (a ++ b) (x ++ y) :=
  ⟨fun rest hr => by rw [List.append_assoc, ha.scan _ (hp rest hr), hb.scan rest hr, List.map_append, List.append_assoc],
   allOK_app ha.ok hb.ok⟩
/-- a bracket group: its children are scanned from the start -/
theorem TabOKH.grp {ts : List Tok} {l : List Tbl} (h : TabOKH ts l) : TabOK [grp ts] l :=
  ⟨fun rest => by
    have := h.scan [] rfl
    simp only [List.append_nil, tabL] at this
    simp only [List.singleton_append, idle_grp, this, List.append_nil], h.ok⟩
theorem TabOK.grp {ts : List Tok} {l : List Tbl} (h : TabOK ts l) : TabOK [grp ts] l := h.toH.grp
theorem TabOK.wrap {ts : List Tok} {l : List Tbl} (h : TabOK ts l) (b : Bool) (e : Expr) (k : Nat) : TabOK (wrapT b e k ts) l := by
  unfold wrapT
  split
  · exact h.grp
  · exact h
theorem TabOK.ite {ts : List Tok} (c : Bool) (h : TabOK ts []) : TabOK (if c then ts else []) [] := by
  cases c
  · exact TabOK.nil
  · exact h

theorem HdP.nil : HdP [] := fun _ h => h
theorem HdP.cons {t : Tok} (h1 : t.equalsStr "AS" = false) (h2 : t.equalsStr "," = false) (ts : List Tok) : HdP (t :: ts) :=
  fun rest _ => by simp [hdOK, h1, h2]
theorem HdP.app {a b : List Tok} (ha : HdP a) (hb : HdP b) : HdP (a ++ b) :=
  fun rest hr => by rw [List.append_assoc]; exact ha _ (hb rest hr)

/-! ### constant tokens -/
theorem sk_SELECT : Skip (opTok "SELECT") := ⟨by decide, by decide, rfl⟩
theorem sk_DISTINCT : Skip (opTok "DISTINCT") := ⟨by decide, by decide, rfl⟩
theorem sk_CASE : Skip (opTok "CASE") := ⟨by decide, by decide, rfl⟩
theorem sk_WHEN : Skip (opTok "WHEN") := ⟨by decide, by decide, rfl⟩
theorem sk_THEN : Skip (opTok "THEN") := ⟨by decide, by decide, rfl⟩
theorem sk_ELSE : Skip (opTok "ELSE") := ⟨by decide, by decide, rfl⟩
theorem sk_END : Skip (opTok "END") := ⟨by decide, by decide, rfl⟩
theorem sk_EXISTS : Skip (opTok "EXISTS") := ⟨by decide, by decide, rfl⟩
theorem sk_NOT : Skip (opTok "NOT") := ⟨by decide, by decide, rfl⟩
theorem sk_AND : Skip (opTok "AND") := ⟨by decide, by decide, rfl⟩
theorem sk_OR : Skip (opTok "OR") := ⟨by decide, by decide, rfl⟩
theorem sk_XOR : Skip (opTok "XOR") := ⟨by decide, by decide, rfl⟩
theorem sk_BETWEEN : Skip (opTok "BETWEEN") := ⟨by decide, by decide, rfl⟩
theorem sk_ON : Skip (opTok "ON") := ⟨by decide, by decide, rfl⟩
theorem sk_AS : Skip (opTok "AS") := ⟨by decide, by decide, rfl⟩
theorem sk_GROUP : Skip (opTok "GROUP") := ⟨by decide, by decide, rfl⟩
theorem sk_ORDER : Skip (opTok "ORDER") := ⟨by decide, by decide, rfl⟩
theorem sk_BY : Skip (opTok "BY") := ⟨by decide, by decide, rfl⟩
theorem sk_DESC : Skip (opTok "DESC") := ⟨by decide, by decide, rfl⟩
theorem sk_LIMIT : Skip (opTok "LIMIT") := ⟨by decide, by decide, rfl⟩
theorem sk_WHERE : Skip (opTok "WHERE") := ⟨by decide, by decide, rfl⟩
theorem sk_HAVING : Skip (opTok "HAVING") := ⟨by decide, by decide, rfl⟩
theorem sk_dot : Skip dotTok := ⟨by decide, by decide, rfl⟩
theorem sk_star : Skip starTok := ⟨by decide, by decide, rfl⟩
theorem sk_comma2 : Skip TP2.commaTok := ⟨by decide, by decide, rfl⟩
theorem sk_comma : Skip TS.commaTok := ⟨by decide, by decide, rfl⟩
theorem tab_kwToks (k : KwKind) (n : Bool) : TabOK (kwToks k n) [] := by
  have sk : ∀ w ∈ ["IS", "NOT", "IN", "LIKE", "RLIKE", "REGEXP"], Skip (opTok w) := by
    intro w hw
    simp only [List.mem_cons, List.mem_nil_iff, or_false] at hw
    rcases hw with rfl | rfl | rfl | rfl | rfl | rfl <;> exact ⟨by decide, by decide, rfl⟩
  cases k <;> cases n <;> simp only [kwToks, Bool.false_eq_true, if_false, if_true] <;>
    first
    | exact TabOK.one (sk _ (by simp))
    | exact TabOK.cons (sk _ (by simp)) (TabOK.one (sk _ (by simp)))

theorem tab_alias (a : Option String) (h : optAliasOK a = true) : TabOK (aliasToks a) [] := by
  cases a with
  | none => exact TabOK.nil
  | some a =>
    simp only [optAliasOK, aliasOK, Bool.and_eq_true] at h
    exact TabOK.cons sk_AS (TabOK.one (skip_named a h.1.1))
/-- after a table reference: the optional alias is skipped -/
theorem after_alias (fl : Bool) (a : Option String) (rest : List Tok) : tabL (.after fl) (aliasToks a ++ rest) = tabL (.after fl) rest := by
  cases a with
  | none => rfl
  | some a =>
    have : (opTok "AS").equalsStr "AS" = true := by decide
    simp [aliasToks, tabL, this]

theorem tab_limit (lm : Option (Int × Option Int)) (h : limitOK lm = true) : TabOK (toksLimit lm) [] := by
  rcases lm with _ | ⟨n, _ | m⟩
  · exact TabOK.nil
  · simp only [limitOK, limOK, Bool.and_eq_true, decide_eq_true_eq] at h
    exact TabOK.cons sk_LIMIT (TabOK.one (skip_int n h.1))
  · simp only [limitOK, limOK, Bool.and_eq_true, decide_eq_true_eq] at h
    exact TabOK.cons sk_LIMIT (TabOK.cons (skip_int m h.2.1) (TabOK.cons sk_comma (TabOK.one (skip_int n h.1.1))))
theorem hdp_limit (lm : Option (Int × Option Int)) : HdP (toksLimit lm) := by
  rcases lm with _ | ⟨n, _ | m⟩
  · exact HdP.nil
  · exact HdP.cons (by decide) (by decide) _
  · exact HdP.cons (by decide) (by decide) _

theorem nm_has {t : Tok} {n : String} (h : nmOK d t n = true) : t.has NAME = true := by
  simp only [nmOK, Bool.and_eq_true] at h
  exact h.1.1.1.1.1.1.1.2
theorem nm2_has {t : Tok} {n : String} (h : nm2OK t n = true) : t.has NAME = true := by
  simp only [nm2OK, Bool.and_eq_true] at h
  exact h.1.1

end AT
