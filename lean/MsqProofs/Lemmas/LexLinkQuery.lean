import MsqProofs.Lemmas.LexLinkSelectMirror
import MsqProofs.Lemmas.TQuery0
/-!
# The lexer link for nested queries, lexer side

What the printer writes on the nested fragment `TQ.FragQ` beyond the single SELECT over operators: a name written DIRECTLY
before `(` (calls) or `.` (qualified columns, `t.*`, `` `s`.f(…) ``), the dot itself, doubled blanks (`NOT IN  (…)`), the
indentation of the `CASE x` form, the words of CASE / EXISTS / IN and of every set operator of `Gen.unionTypes`.

* `tk_plain`, `tk_bq`, `tk_dot` : the three tokens that are followed by no delimiter;
* `Lx.blank`, `Lx.trail`, `lx_nil` : blanks before / after a text, the empty text;
* `Seg c us ts` : the pieces `us`, joined by the separator `c` (a blank or a line break), lex to `ts` — closed under `++`, so a
  printed line list `[a] ++ optional ++ list ++ …` is handled piece by piece.
-/
set_option linter.unusedVariables false
set_option linter.unusedSimpArgs false
namespace LexLink
open Lex Spec C05 C06 C09 Ast TP TS

/-! ## blanks and the empty text -/

theorem lx_nil : Lx [] [] := by
  intro T pre rest f fs hT hd
  simp

theorem Lx.blank {b : List Char} {tb : List Tok} (hb : Lx b tb) : Lx (' ' :: b) tb := by
  intro T pre rest f fs hT hd
  have e1 : (' ' :: b) ++ rest = ' ' :: (b ++ rest) := rfl
  rw [e1, step_blank]
  have hT2 : T = (pre ++ [' ']) ++ b ++ rest := by rw [hT]; simp
  have := hb T (pre ++ [' ']) rest f fs hT2 hd
  simp only [List.length_append, List.length_cons, List.length_nil] at this ⊢
  rw [this]
  congr 2 <;> omega

theorem Lx.trail {a : List Char} {ta : List Tok} (ha : Lx a ta) : Lx (a ++ [' ']) ta := by
  intro T pre rest f fs hT hd
  have e1 : (a ++ [' ']) ++ rest = a ++ (' ' :: rest) := by simp
  have hT1 : T = pre ++ a ++ (' ' :: rest) := by rw [hT]; simp
  rw [e1, ha T pre (' ' :: rest) f fs hT1 (Or.inr ⟨_, Or.inl rfl⟩), step_blank]
  simp only [List.length_append, List.length_cons, List.length_nil]
  congr 2 <;> omega

/-- two texts separated by a blank or a line break -/
theorem Lx.sepc {c : Char} (hc : c = ' ' ∨ c = '\n') {a b : List Char} {ta tb : List Tok} (ha : Lx a ta) (hb : Lx b tb) :
    Lx (a ++ c :: b) (ta ++ tb) := by
  rcases hc with rfl | rfl
  · exact Lx.sep ha hb
  · exact Lx.line ha hb

/-! ## tokens followed by no delimiter -/

/-- a back-quoted name: complete with its closing quote, whatever follows -/
theorem feed_bq (c : List Char) (hc : ∀ x ∈ c, x ≠ '`') (T pre rest : List Char) (f : List Tok) (fs : List (List Tok))
    (hT : T = pre ++ ('`' :: (c ++ ['`'])) ++ rest) :
    feedAllWith (handle Gen.cfgS T) ('`' :: (c ++ ['`'])) ⟨pre.length, pre.length, .WAIT, f :: fs⟩ =
      .ok ⟨pre.length + ('`' :: (c ++ ['`'])).length, pre.length + ('`' :: (c ++ ['`'])).length, .WAIT,
        (f ++ [.single ('`' :: (c ++ ['`'])) Gen.mark_NAME]) :: fs⟩ := by
  have := backquote_in_context pre c rest (fun x hx => ⟨hc x hx, fun h => absurd rfl h⟩) f fs
  rw [hT]
  exact this

theorem tk_bq (c : List Char) (hc : ∀ x ∈ c, x ≠ '`') (d : Char) :
    Tk ('`' :: (c ++ ['`'])) (.single ('`' :: (c ++ ['`'])) Gen.mark_NAME) d :=
  tk_of_feed (feed_bq c hc) d

theorem wmL_dot : wmL ['.'] = 0 := by decide +kernel

/-- the dot between tokens: a token of its own, whatever follows -/
theorem tk_dot (c : Char) : Tk ['.'] (ctok ['.']) c := by
  have := tk_of_complete ['.'] [] '.' rfl .WAIT 0 (fun T n stk => rfl) (Or.inr ⟨look (by decide +kernel), rfl⟩)
  simp only [ctok, wmL_dot]
  exact tk_of_feed this c

/-- a pending word in `IN_WORD` whose window is `w`, followed by a character that ends a word -/
theorem tk_of_inword (w : List Char)
    (hrun : ∀ (T : List Char) (n : Nat) (stk : List (List Tok)),
      feedAllWith (handle Gen.cfgS T) w ⟨n, n, .WAIT, stk⟩ = .ok ⟨n, n + w.length, .IN_WORD, stk⟩)
    (d : Char) (hdd : endsWord d = true) : Tk w (.single w (C05.wordMark w)) d := by
  have := tk_of_pending w .IN_WORD d emitWordBefore hrun (word_stop d hdd) (by decide) (by decide)
  simpa [endTok, C05.wordMark, Gen.mark_NAME] using this

/-- the one-letter names `b B x X` directly before `(` or `.` -/
theorem tk_bx (c : Char) (hc : c = 'b' ∨ c = 'B' ∨ c = 'x' ∨ c = 'X') (d : Char) (hd : d = '(' ∨ d = '.') :
    Tk [c] (.single [c] Gen.mark_NAME) d := by
  have hp : ∃ p, (p = S.AFTER_B ∨ p = S.AFTER_X) ∧ addPath .WAIT [c] = some p := by
    rcases hc with rfl | rfl | rfl | rfl
    · exact ⟨.AFTER_B, Or.inl rfl, by decide +kernel⟩
    · exact ⟨.AFTER_B, Or.inl rfl, by decide +kernel⟩
    · exact ⟨.AFTER_X, Or.inr rfl, by decide +kernel⟩
    · exact ⟨.AFTER_X, Or.inr rfl, by decide +kernel⟩
  obtain ⟨p, hpp, hap⟩ := hp
  have hm : C05.wordMark [c] = Gen.mark_NAME := by
    rcases hc with rfl | rfl | rfl | rfl <;> decide +kernel
  rcases hd with rfl | rfl
  · have hl : Gen.cfgS.lookup p (.ch '(') = some (emitBefore mName) := by
      rcases hpp with rfl | rfl <;> exact look (by decide +kernel)
    have := tk_of_pending [c] p '(' (emitBefore mName) (fun T n stk => addPath_run T [c] .WAIT p hap n n stk) hl (by decide)
      (by decide)
    simpa [endTok, emitBefore, emitWordBefore, emitWordAtEnd, mName] using this
  · have hl : Gen.cfgS.lookup p (.ch '.') = some emitWordBefore := by
      rcases hpp with rfl | rfl <;> exact look (by decide +kernel)
    have := tk_of_pending [c] p '.' emitWordBefore (fun T n stk => addPath_run T [c] .WAIT p hap n n stk) hl (by decide)
      (by decide)
    have e : endTok emitWordBefore [c] = .single [c] (C05.wordMark [c]) := by simp [endTok, C05.wordMark, Gen.mark_NAME]
    rw [e, hm] at this
    exact this

/-- **a plain name directly before `(` or `.`**: one token with the marks `TP.opTok` gives it -/
theorem tk_plain (a : List Char) (h : plainL a = true) (d : Char) (hd : d = '(' ∨ d = '.') : Tk a (.single a (wmL a)) d := by
  have hend : endsWord d = true := by rcases hd with rfl | rfl <;> decide +kernel
  cases a with
  | nil => cases h
  | cons c r =>
    simp only [plainL, Bool.and_eq_true, List.all_eq_true] at h
    have hhead : (c :: r).head?.any (fun c => c.isAlpha || c == '_') = true := by simpa using h.1
    have hwm := wordMark_alpha (c :: r) hhead
    by_cases hbx : c = 'b' ∨ c = 'B' ∨ c = 'x' ∨ c = 'X'
    · cases r with
      | nil =>
        have := tk_bx c hbx d hd
        have hm : wmL [c] = Gen.mark_NAME := by
          rcases hbx with rfl | rfl | rfl | rfl
          · exact wmL_bx.1
          · exact wmL_bx.2.1
          · exact wmL_bx.2.2.1
          · exact wmL_bx.2.2.2
        rw [hm]; exact this
      | cons y r' =>
        rw [← hwm]
        refine tk_of_inword (c :: y :: r') (fun T n stk => ?_) d hend
        have hp : ∃ p, (p = S.AFTER_B ∨ p = S.AFTER_X) ∧ Gen.cfgS.lookup .WAIT (.ch c) = some (addTo p) := by
          rcases hbx with rfl | rfl | rfl | rfl
          · exact ⟨.AFTER_B, Or.inl rfl, look (by decide +kernel)⟩
          · exact ⟨.AFTER_B, Or.inl rfl, look (by decide +kernel)⟩
          · exact ⟨.AFTER_X, Or.inr rfl, look (by decide +kernel)⟩
          · exact ⟨.AFTER_X, Or.inr rfl, look (by decide +kernel)⟩
        obtain ⟨p, hpp, hl1⟩ := hp
        have hy := alnumU_code y (h.2 y (by simp))
        have hf := alnum_facts y.toNat hy.2 hy.1
        have hl2 : Gen.cfgS.lookup p (.ch y) = some (addTo .IN_WORD) := by
          rcases hpp with rfl | rfl
          · exact look hf.2.1
          · exact look hf.2.2
        have e1 := handle_addTo shipped_code (text := T) (m := ⟨n, n, .WAIT, stk⟩) hl1
        have e2 := handle_addTo shipped_code (text := T) (m := ⟨n, n + 1, p, stk⟩) hl2
        rw [feedAllWith_cons_adv e1, feedAllWith_cons_adv e2,
          feedAll_loop shipped_code (fun c => wordChar c = true) word_next r'
            (fun x hx => alnum_wordChar x (h.2 x (by simp [hx])))]
        simp only [List.length_cons]; congr 2; omega
    · have hsw : startsWord c = true := by
        have hc := alnumU_code c (plainL_head c h.1)
        have hwc := (alnum_facts c.toNat hc.2 hc.1).1
        have hnd : isDigit c.toNat = false := by
          have hr := alphaU_code c h.1
          have h0 : '0'.toNat = 48 := by decide
          have h9 : '9'.toNat = 57 := by decide
          cases hd : isDigit c.toNat with
          | false => rfl
          | true =>
            simp only [isDigit, between, Bool.and_eq_true, Nat.ble_eq, h0, h9] at hd
            omega
        have hnb : isBitPrefix c.toNat = false ∧ isHexPrefix c.toNat = false := by
          simp only [isBitPrefix, isHexPrefix, isCh_toNat, Bool.or_eq_false_iff, decide_eq_false_iff_not]
          exact ⟨⟨fun e => hbx (Or.inl e), fun e => hbx (Or.inr (Or.inl e))⟩,
            ⟨fun e => hbx (Or.inr (Or.inr (Or.inl e))), fun e => hbx (Or.inr (Or.inr (Or.inr e)))⟩⟩
        simp [startsWord, hwc, hnd, hnb.1, hnb.2]
      have hw : isWord (c :: r) = true := by
        simp only [isWord, Bool.and_eq_true, List.all_eq_true]
        exact ⟨hsw, fun x hx => alnum_wordChar x (h.2 x hx)⟩
      rw [← hwm]
      exact tk_of_inword (c :: r) (fun T n stk => word_run T (c :: r) hw n stk) d hend

/-! ## names as `quoteName` prints them -/

/-- the printer prints the name bare -/
def bareB (n : String) : Bool := PR.isPlainName n && !(Gen.wordMarks.any (·.1 == Gen.pyUpperS n))
/-- `PR.quoteName n` on character lists -/
def qnameL (n : String) : List Char := if bareB n then n.toList else '`' :: (n.toList ++ ['`'])

theorem quoteName_toList (n : String) : (PR.quoteName n).toList = qnameL n := by
  unfold PR.quoteName qnameL bareB
  split
  · rfl
  · simp [toString, String.toList_append]

theorem quoteName_beq (n : String) : (PR.quoteName n == n) = bareB n := by
  have hq := quoteName_toList n
  cases hb : bareB n with
  | true =>
    simp only [qnameL, hb, if_true] at hq
    have : PR.quoteName n = n := String.toList_inj.mp hq
    simp [this]
  | false =>
    simp only [qnameL, hb, Bool.false_eq_true, if_false] at hq
    have : PR.quoteName n ≠ n := by
      intro e
      rw [e] at hq
      have := congrArg List.length hq
      simp at this
      omega
    simpa using this

theorem qTok_eq (n : String) : TP2.qTok n = if bareB n then opTok n else nameTok n := by
  simp only [TP2.qTok, quoteName_beq]

theorem qnameL_ne_nil (n : String) (h : bareB n = true ∨ True) : ∃ c r, qnameL n = c :: r := by
  unfold qnameL
  split
  · rename_i hb
    simp only [bareB, Bool.and_eq_true] at hb
    have := hb.1
    unfold PR.isPlainName at this
    cases hc : n.toList with
    | nil => rw [hc] at this; cases this
    | cons c r => exact ⟨c, r, rfl⟩
  · exact ⟨_, _, rfl⟩

/-- a name as `quoteName` prints it, directly before `(` or `.` -/
theorem tk_qname (n : String) (hn : ∀ x ∈ n.toList, x ≠ '`') (d : Char) (hd : d = '(' ∨ d = '.') :
    Tk (qnameL n) (TP2.qTok n) d := by
  rw [qTok_eq]
  unfold qnameL
  cases hb : bareB n with
  | true =>
    simp only [if_true]
    rw [opTok_eq]
    simp only [bareB, Bool.and_eq_true] at hb
    exact tk_plain n.toList (by rw [← isPlainName_plainL]; exact hb.1) d hd
  | false =>
    simp only [Bool.false_eq_true, if_false]
    have := tk_bq n.toList hn d
    simpa [nameTok, Lex.NAME] using this

/-! ## closed words of the nested fragment -/

def queryWords : List String := ["CASE", "WHEN", "THEN", "ELSE", "END", "EXISTS", "IN", "NOT", "DISTINCT", "*"]
theorem query_words_lex : queryWords.all (fun k => lxIs k.toList (ctok k.toList)) = true := by decide +kernel
theorem union_words_lex : Gen.unionTypes.all (fun e => e.2.all fun w => lxIs w.toList (ctok w.toList)) = true := by
  decide +kernel

theorem lx_qw (k : String) (hk : k ∈ queryWords) : Lx k.toList [opTok k] := by
  rw [opTok_eq]; exact lx_of_is ((List.all_eq_true.mp query_words_lex) k hk)

/-! ## pieces joined by a one-character separator -/

theorem joinLL_cons_ne (sep a : List Char) : ∀ (l : List (List Char)), l ≠ [] → joinLL sep (a :: l) = a ++ sep ++ joinLL sep l
  | [], h => absurd rfl h
  | b :: r, _ => rfl

theorem joinLL_append (sep : List Char) : ∀ (us vs : List (List Char)), us ≠ [] → vs ≠ [] →
    joinLL sep (us ++ vs) = joinLL sep us ++ sep ++ joinLL sep vs
  | [], _, h, _ => absurd rfl h
  | [a], vs, _, hv => by simp [joinLL_cons_ne sep a vs hv, joinLL]
  | a :: b :: r, vs, _, hv => by
    have := joinLL_append sep (b :: r) vs (by simp) hv
    simp only [List.cons_append] at this ⊢
    rw [joinLL_cons_ne sep a (b :: (r ++ vs)) (by simp), this, joinLL_cons_ne sep a (b :: r) (by simp)]
    simp

/-- the pieces `us`, joined by the separator character `c`, lex to `ts`; no pieces, no tokens -/
def Seg (c : Char) (us : List (List Char)) (ts : List Tok) : Prop :=
  (us = [] ∧ ts = []) ∨ (us ≠ [] ∧ Lx (joinLL [c] us) ts)

theorem Seg.nil (c : Char) : Seg c [] [] := Or.inl ⟨rfl, rfl⟩
theorem Seg.one (c : Char) {u : List Char} {ts : List Tok} (h : Lx u ts) : Seg c [u] ts := Or.inr ⟨by simp, by simpa [joinLL] using h⟩
theorem Seg.lx {c : Char} {us : List (List Char)} {ts : List Tok} (h : Seg c us ts) (hne : us ≠ []) : Lx (joinLL [c] us) ts := by
  rcases h with ⟨h, _⟩ | ⟨_, h⟩
  · exact absurd h hne
  · exact h
theorem Seg.append {c : Char} (hc : c = ' ' ∨ c = '\n') {us vs : List (List Char)} {ts tv : List Tok} (h1 : Seg c us ts)
    (h2 : Seg c vs tv) : Seg c (us ++ vs) (ts ++ tv) := by
  rcases h1 with ⟨rfl, rfl⟩ | ⟨hu, h1⟩
  · simpa using h2
  · rcases h2 with ⟨rfl, rfl⟩ | ⟨hv, h2⟩
    · simp only [List.append_nil]; exact Or.inr ⟨hu, h1⟩
    · refine Or.inr ⟨by simp [hu], ?_⟩
      rw [joinLL_append [c] us vs hu hv]
      exact Lx.congr (Lx.sepc hc h1 h2) (by simp) rfl
theorem Seg.cons {c : Char} (hc : c = ' ' ∨ c = '\n') {u : List Char} {us : List (List Char)} {t ts : List Tok} (h1 : Lx u t)
    (h2 : Seg c us ts) : Seg c (u :: us) (t ++ ts) :=
  Seg.append hc (Seg.one c h1) h2
/-- a list of pieces, each with its tokens -/
theorem Seg.map {α : Type} {c : Char} (hc : c = ' ' ∨ c = '\n') (txt : α → List Char) (tk : α → List Tok) :
    ∀ (xs : List α), (∀ x ∈ xs, Lx (txt x) (tk x)) → Seg c (xs.map txt) ((xs.map tk).flatten)
  | [], _ => Seg.nil c
  | x :: xs, h => by
    have := Seg.cons hc (h x (by simp)) (Seg.map hc txt tk xs fun y hy => h y (by simp [hy]))
    simpa using this

end LexLink
