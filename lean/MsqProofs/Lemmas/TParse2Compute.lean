import MsqProofs.Lemmas.TParse2Lift
/-!
# T-parse, larger fragment: the compute layer (C02)

The argument of MsqProofs/Lemmas/TParseCompute.lean for `Frag2` / `toksE2` / `stopLE2`: the operator-tree view `TP.tview` and its
embedding and root-level lemmas are TP's; re-derived by substitution are the parts that mention the fragment or the printer
(`wn_tview`, `render_tview`, `flat_parts`, the loop lemmas with the stronger continuation condition, `compute_node`).
-/
set_option linter.unusedVariables false
set_option linter.unusedSimpArgs false
open Lex PM Ast SR TP
namespace TP2
variable (d : Gen.D) (ch : Expr → Bool)

theorem opOK_notOver {o : Op} (h : OpOK o) (x : List Tok) : headIsOver (opTok (cval o.name) :: x) = false := by
  have h1 := h.1
  simp only [headIsOver, Tok.srcEqUp, beq_eq_false_iff_ne, ne_eq]
  intro he
  rw [he] at h1
  have : computeOp? "OVER" = none := by decide
  rw [this] at h1; cases h1

/-- an operand: parses at the unary level in front of anything that does not continue an element -/
def Opd (u : Expr) : Prop := Full2 d (P2 d) 2 0 (W2 d ch u 2) u

def renderTail : List (Op × Expr) → List Tok
  | [] => []
  | (o, u) :: xs => opTok (cval o.name) :: (W2 d ch u 2 ++ renderTail xs)
def renderFlat (p : Expr × List (Op × Expr)) : List Tok := W2 d ch p.1 2 ++ renderTail d ch p.2

theorem renderTail_append (xs ys : List (Op × Expr)) : renderTail d ch (xs ++ ys) = renderTail d ch xs ++ renderTail d ch ys := by
  induction xs with
  | nil => rfl
  | cons p xs ih => obtain ⟨o, u⟩ := p; simp [renderTail, ih]

theorem stop2_tail (xs : List (Op × Expr)) (hop : ∀ p ∈ xs, OpOK p.1) (rest : List Tok) (hr : stopLE2 d 8 rest = true) :
    stopLE2 d 2 (renderTail d ch xs ++ rest) = true := by
  cases xs with
  | nil => simpa [renderTail] using stopLE2_mono hr (by omega)
  | cons p xs =>
    obtain ⟨o, u⟩ := p
    have h := hop (o, u) (by simp)
    have h1 := h.2
    have h2 := opOK_notOver h (W2 d ch u 2 ++ renderTail d ch xs ++ rest)
    simp only [renderTail, List.cons_append, List.append_assoc] at h2 ⊢
    simp [stopLE2, stopLE, stopTok, h1, h2]

/-- the stack loop of the model computes the abstract shift/reduce on a flat rendering (explicit fuel) -/
theorem loop_go' (xs : List (Op × Expr)) (hop : ∀ p ∈ xs, OpOK p.1) (hx : ∀ p ∈ xs, Opd d ch p.2)
    (rest : List Tok) (hr : stopLE2 d 8 rest = true) : ∀ (st : List (T Expr × Op)) (top : T Expr),
    OkAt (fun f => pComputeLoop d f (C02.embSt st) (C02.embed top) (renderTail d ch xs ++ rest)) (20 * sizeL (renderTail d ch xs) + 1)
      (C02.embed (go st top xs), rest) := by
  induction xs with
  | nil =>
    intro st top
    simp only [renderTail, List.nil_append, go]
    rw [← C02.collapse_embed]
    exact (computeLoop_stop d _ _ rest (sl hr)).mono (by omega)
  | cons p xs ih =>
    obtain ⟨o, u⟩ := p
    intro st top f hf
    obtain ⟨g, rfl⟩ : ∃ g, f = g + 1 := ⟨f - 1, by omega⟩
    have ho := (hop (o, u) (by simp)).1
    have hxu : Opd d ch u := hx (o, u) (by simp)
    have hu : pUnary d g (W2 d ch u 2 ++ (renderTail d ch xs ++ rest)) = .ok (u, renderTail d ch xs ++ rest) := by
      apply hxu _ (stop2_tail d ch xs (fun p hp => hop p (by simp [hp])) rest hr) g
      simp only [renderTail, sizeL_cons, sizeL_append, size_opTok] at hf
      omega
    have hl := ih (fun p hp => hop p (by simp [hp])) (fun p hp => hx p (by simp [hp]))
      (((SR.reduceWhile o.level st top).2, o) :: (SR.reduceWhile o.level st top).1) (T.leaf u) g (by
        simp only [renderTail, sizeL_cons, sizeL_append, size_opTok] at hf
        omega)
    simp only [renderTail, List.cons_append, List.append_assoc, go]
    unfold pComputeLoop
    simp only [ho, hu, C02.reduceWhile_embed]
    simpa [C02.embSt, C02.embed] using hl

/-- `_parse_compute_expression` on a flat rendering -/
theorem compute_flat (u0 : Expr) (xs : List (Op × Expr)) (h0 : Opd d ch u0) (hop : ∀ p ∈ xs, OpOK p.1) (hx : ∀ p ∈ xs, Opd d ch p.2) :
    Full2 d (P8 d) 8 2 (renderFlat d ch (u0, xs)) (C02.embed (shiftReduce u0 xs)) := by
  intro rest hr f hf
  obtain ⟨g, rfl⟩ : ∃ g, f = g + 1 := ⟨f - 1, by omega⟩
  simp only [renderFlat, sizeL_append] at hf
  have hu : pUnary d g (W2 d ch u0 2 ++ (renderTail d ch xs ++ rest)) = .ok (u0, renderTail d ch xs ++ rest) :=
    h0 _ (stop2_tail d ch xs hop rest hr) g (by omega)
  have hl := loop_go' d ch xs hop hx rest hr [] (T.leaf u0) g (by omega)
  show pCompute d (g + 1) (renderFlat d ch (u0, xs) ++ rest) = _
  unfold pCompute
  simp only [renderFlat, List.append_assoc, hu]
  simpa [C02.embSt, C02.embed, shiftReduce] using hl

/-! ### a compute-level tree as a tree over operands -/
theorem frag_compute {l r : Expr} {o : String} (h : Frag2 d (.compute l o r) = true) :
    binOK d o = true ∧ Frag2 d l = true ∧ Frag2 d r = true := by
  simp only [Frag2, Bool.and_eq_true] at h; exact ⟨h.1.1, h.1.2, h.2⟩
theorem wn_tview : ∀ e, Frag2 d e = true → (tview ch e).WN := by
  apply computeInd
  · intro e h _; rw [tview_leaf ch h]; trivial
  · intro l o r hl hr hf
    obtain ⟨hb, fl, fr⟩ := frag_compute d hf
    obtain ⟨h3, _, _⟩ := binOK_parts d hb
    rw [tview_node]
    refine ⟨?_, ?_, ?_, ?_⟩
    · split; exact hl fl; trivial
    · split; exact hr fr; trivial
    · intro k hk
      split at hk
      · rename_i hle
        simp only [inTree, Bool.and_eq_true, decide_eq_true_eq] at hle
        have := rootLevel_tview ch l k hk; simp only; omega
      · simp [T.rootLevel] at hk
    · intro k hk
      split at hk
      · rename_i hle
        simp only [inTree, Bool.and_eq_true, decide_eq_true_eq] at hle
        have := rootLevel_tview ch r k hk; simp only; omega
      · simp [T.rootLevel] at hk

/-- in the fragment a node that is not a compute node has level `≤ 2` (atom, unary) or `≥ 9` (predicates and above) -/
theorem lvl_noncompute {e : Expr} (hf : Frag2 d e = true) (hc : isCompute e = false) : PR.lvl e ≤ 2 ∨ 9 ≤ PR.lvl e := by
  cases e <;> simp_all [PR.lvl, isCompute, Frag2]

/-- the rendering of a child at its position is the flat rendering of its part of the operator tree -/
theorem render_child (c : Expr) (b : Nat) (hb : 2 ≤ b) (hb8 : b ≤ 8) (hf : Frag2 d c = true)
    (ih : renderFlat d ch (tview ch c).flat = if isCompute c then toksE2 d ch c else W2 d ch c 2) :
    renderFlat d ch ((if inTree ch c b then tview ch c else .leaf c).flat) = W2 d ch c b := by
  split
  · rename_i hin
    simp only [inTree, Bool.and_eq_true, decide_eq_true_eq, Bool.not_eq_true'] at hin
    obtain ⟨hle, hch⟩ := hin
    have hnw : ¬(PR.lvl c > b ∨ ch c = true) := by rw [hch]; simp; omega
    rw [ih]
    cases hc : isCompute c with
    | true => simp [W2, wrapT, hnw]
    | false =>
      have := lvl_noncompute d hf hc
      have h2 : ¬(PR.lvl c > 2 ∨ ch c = true) := by rw [hch]; simp; omega
      simp [W2, wrapT, hnw, h2]
  · rename_i hin
    have hw : PR.lvl c > b ∨ ch c = true := by
      simp only [inTree, Bool.and_eq_true, decide_eq_true_eq, Bool.not_eq_true'] at hin
      cases hch : ch c with
      | true => exact Or.inr rfl
      | false =>
        left
        have hn : ¬ PR.lvl c ≤ b := fun h => by simp [h, hch] at hin
        omega
    have h2 : PR.lvl c > 2 ∨ ch c = true := by rcases hw with h | h; left; omega; right; exact h
    simp [T.flat, renderFlat, renderTail, W2, wrapT, hw, h2]

theorem render_tview : ∀ e, Frag2 d e = true → renderFlat d ch (tview ch e).flat = if isCompute e then toksE2 d ch e else W2 d ch e 2 := by
  apply computeInd
  · intro e h _; rw [tview_leaf ch h]; simp [h, T.flat, renderFlat, renderTail]
  · intro l o r hl hr hf
    obtain ⟨hb, fl, fr⟩ := frag_compute d hf
    obtain ⟨h3, h8, _⟩ := binOK_parts d hb
    have cl := render_child d ch l (binLevel o) (by omega) h8 fl (hl fl)
    have cr := render_child d ch r (binLevel o - 1) (by omega) (by omega) fr (hr fr)
    rw [flat_tview_node]
    simp only [isCompute, if_true, toksE, lvl_compute]
    simp only [renderFlat, renderTail_append, renderTail] at cl cr ⊢
    rw [← List.append_assoc, cl, cr]
    rfl

/-- the operands and operators of the flat sequence: in the fragment, operators found again, operands proper sub-terms -/
theorem flat_parts : ∀ e, Frag2 d e = true →
    (Frag2 d (tview ch e).flat.1 = true ∧ sz2 (tview ch e).flat.1 ≤ sz2 e ∧ (isCompute e = true → sz2 (tview ch e).flat.1 < sz2 e)) ∧
    ∀ p ∈ (tview ch e).flat.2, OpOK p.1 ∧ Frag2 d p.2 = true ∧ sz2 p.2 < sz2 e := by
  apply computeInd
  · intro e h hf; rw [tview_leaf ch h]; simp [T.flat, hf, h]
  · intro l o r hl hr hf
    obtain ⟨hb, fl, fr⟩ := frag_compute d hf
    obtain ⟨_, _, hop⟩ := binOK_parts d hb
    rw [flat_tview_node]
    have L : (Frag2 d ((if inTree ch l (binLevel o) then tview ch l else .leaf l).flat).1 = true ∧
        sz2 ((if inTree ch l (binLevel o) then tview ch l else .leaf l).flat).1 ≤ sz2 l) ∧
        ∀ p ∈ ((if inTree ch l (binLevel o) then tview ch l else .leaf l).flat).2, OpOK p.1 ∧ Frag2 d p.2 = true ∧ sz2 p.2 < sz2 l := by
      split
      · exact ⟨⟨(hl fl).1.1, (hl fl).1.2.1⟩, (hl fl).2⟩
      · simp [T.flat, fl]
    have R : (Frag2 d ((if inTree ch r (binLevel o - 1) then tview ch r else .leaf r).flat).1 = true ∧
        sz2 ((if inTree ch r (binLevel o - 1) then tview ch r else .leaf r).flat).1 ≤ sz2 r) ∧
        ∀ p ∈ ((if inTree ch r (binLevel o - 1) then tview ch r else .leaf r).flat).2, OpOK p.1 ∧ Frag2 d p.2 = true ∧ sz2 p.2 < sz2 r := by
      split
      · exact ⟨⟨(hr fr).1.1, (hr fr).1.2.1⟩, (hr fr).2⟩
      · simp [T.flat, fr]
    simp only [sz2]
    refine ⟨⟨L.1.1, by omega, fun _ => by omega⟩, ?_⟩
    intro p hp
    simp only [List.mem_append, List.mem_cons] at hp
    rcases hp with hp | rfl | hp
    · obtain ⟨a, b, c⟩ := L.2 p hp; exact ⟨a, b, by omega⟩
    · exact ⟨hop, R.1.1, by have := R.1.2; dsimp only; omega⟩
    · obtain ⟨a, b, c⟩ := R.2 p hp; exact ⟨a, b, by omega⟩

/-- **the compute layer**: a compute node of the fragment whose operands (proper sub-terms) parse at the unary level is returned by
`_parse_compute_expression` from its token rendering -/
theorem compute_node (e : Expr) (hc : isCompute e = true) (hf : Frag2 d e = true)
    (ih : ∀ u, Frag2 d u = true → sz2 u < sz2 e → Opd d ch u) : Full2 d (P8 d) 8 2 (toksE2 d ch e) e := by
  obtain ⟨⟨f0, _, s0⟩, hrest⟩ := flat_parts d ch e hf
  have key := compute_flat d ch (tview ch e).flat.1 (tview ch e).flat.2 (ih _ f0 (s0 hc)) (fun p hp => (hrest p hp).1)
    (fun p hp => ih _ (hrest p hp).2.1 (hrest p hp).2.2)
  have hsr : tview ch e = shiftReduce (tview ch e).flat.1 (tview ch e).flat.2 :=
    (SR.shiftReduce_spec _ _ _).1 ⟨rfl, wn_tview d ch e hf⟩
  rw [← hsr, embed_tview] at key
  have hr := render_tview d ch e hf
  simp only [hc, if_true] at hr
  rw [show ((tview ch e).flat.1, (tview ch e).flat.2) = (tview ch e).flat from rfl, hr] at key
  exact key


end TP2
