import MsqProofs.Lemmas.ParseAccountDdl5
/-!
# C08, general accounting for the DDL classes — part 6: CREATE TABLE, ALTER TABLE, SET, the statement loop

`ddlRunOK used` (Bool, on the token run of ONE CREATE TABLE statement as the parser delimits it) collects the hypotheses of the
loops: no text-bearing attribute keyword twice in a comma piece of a top-level bracket group (`segsOKb`: the column definitions of
the element list and of `PARTITIONED BY`), at most one `PRIMARY KEY` element (`pkOnce`), no text-bearing option keyword twice among
the top-level tokens (`NoRepO`), a bracket group after `PARTITIONED BY` / `TBLPROPERTIES` (`groupAt`).
`alterOK d f ts` (Bool): the ALTER TABLE statement at the cursor `ts` is followed only to DELIMIT its operations; the token run of
every operation satisfies `NoRep` (the column definition of ADD / MODIFY / CHANGE has no text-bearing attribute keyword twice).
-/
set_option linter.unusedVariables false
set_option linter.unusedSectionVars false
set_option linter.unusedSimpArgs false
set_option maxHeartbeats 2000000
open Lex PM Ast

namespace PA
namespace Ddl

def segsOKb (us : List Tok) : Bool := us.all fun g => (splitBy "," g.children [] []).all NoRep
def pkOnce (us : List Tok) : Bool := us.all fun g => decide (pkCnt (splitBy "," g.children [] []) ≤ 1)
/-- the hypothesis on the token run of one CREATE TABLE statement -/
def ddlRunOK (us : List Tok) : Bool := segsOKb us && (pkOnce us && (NoRepO us && groupAt us))
theorem segsOKb_iff (us : List Tok) : segsOKb us = true ↔ SegsOK us := by
  simp only [segsOKb, SegsOK, List.all_eq_true]

def FullDAO : AlterOp → Bool
  | .add x => FullCOI x | .modify x => FullCOI x | .change _ x => FullCOI x
  | .addPartition b p => FullAO (.addPartition b p) | .dropPartition b p => FullAO (.dropPartition b p)
  | .renameColumn a b => true | .dropColumn a => true
def FullDAOs : List AlterOp → Bool | [] => true | o :: l => FullDAO o && FullDAOs l
/-- the fragment of results of the combined theorem: `FullStmt` for the classes it covers, plus CREATE TABLE (`FullCT`: indexes
and foreign keys with at least one column, at least one element), SET, ALTER … ADD / MODIFY / CHANGE -/
def FullDStmt : Stmt → Bool
  | .createTable c => FullCT c | .set _ => true | .alter _ ops => FullDAOs ops
  | .select q => FullStmt (.select q) | .insertValues h vs => FullStmt (.insertValues h vs) | .insertSelect h q => FullStmt (.insertSelect h q)
  | .update a b c d e f => FullStmt (.update a b c d e f) | .delete a b c d => FullStmt (.delete a b c d)
  | .createTableAs a b c => FullStmt (.createTableAs a b c) | .dropTable a b => true | .analyze a b c d e => FullStmt (.analyze a b c d e)
  | .msck _ => true | .use _ => true | .truncate _ => true | .showDatabases => true | .showTables => true
  | .showColumns a b => FullStmt (.showColumns a b)
def FullDStmts : List Stmt → Bool | [] => true | s :: l => FullDStmt s && FullDStmts l
theorem FullDStmts_append (a b : List Stmt) : FullDStmts (a ++ b) = (FullDStmts a && FullDStmts b) := by
  induction a with
  | nil => simp [FullDStmts]
  | cons x a ih => simp [FullDStmts, ih, Bool.and_assoc]

theorem groupAt_pfx {a b : List Tok} (h : groupAt (a ++ b) = true) : groupAt a = true := by
  induction a with
  | nil => rfl
  | cons t a ih =>
    simp only [List.cons_append, groupAt, Bool.and_eq_true] at h ⊢
    refine ⟨?_, ?_, ih h.2.2⟩
    · cases a <;> simp_all [headG]
    · rcases a with _ | ⟨x, _ | ⟨y, a⟩⟩ <;> simp_all [headG]
theorem cntO_empty (t : TableName) (ine : Bool) {a uO b : List Tok} (h : NoRepO (a ++ (uO ++ b)) = true) : CntO (emptyCreate t ine) uO := by
  simp only [NoRepO, Bool.and_eq_true, decide_eq_true_eq, cnt_append] at h
  simp only [CntO, emptyCreate, Option.isSome_none, b2n]
  simp; omega
theorem tCTb_empty (t : TableName) (ine : Bool) : tCTb (emptyCreate t ine) = tTN t := by
  rw [tCTb_eq]; simp [emptyCreate, tDCs_nil, tOIdx_none, tIdxs_nil, tFKs_nil, tOS_none, tOI_none, tCSs_nil]
theorem hasElem_empty (t : TableName) (ine : Bool) : HasElem (emptyCreate t ine) = false := by simp [HasElem, emptyCreate]

/-- the result is a CREATE TABLE ( … ) or an ALTER TABLE statement: the classes whose token run needs `ddlRunOK` -/
def isDdlRes : Stmt → Bool | .createTable _ => true | .alter _ _ => true | _ => false
/-- the classes outside `FullStmt` -/
def isNewRes : Stmt → Bool | .createTable _ => true | .alter _ _ => true | .set _ => true | _ => false
theorem fullD_old (s : Stmt) (h : isNewRes s = false) : FullDStmt s = FullStmt s := by
  cases s <;> simp [isNewRes, FullDStmt, FullStmt] at h ⊢

/-- the tokens consumed between the cursor `ts` and its rest `r` -/
def run (ts r : List Tok) : List Tok := ts.take (ts.length - r.length)
theorem run_append (u r : List Tok) : run (u ++ r) r = u := by simp [run]
/-- the operations after the first one, as `alterLoop` delimits them: each run satisfies `NoRep` -/
def alterRunsOK (d : Gen.D) (f : Nat) : Nat → List Tok → Bool
  | 0, _ => true
  | g+1, ts =>
    if searchStr ts "," then
      (match pAlterExpr d f (ts.drop 1) with
       | .ok (_, r) => NoRep (run (ts.drop 1) r) && alterRunsOK d f g r
       | .error _ => true)
    else true
/-- every operation of the ALTER TABLE statement at the cursor `ts` (delimited by the parser) satisfies `NoRep` -/
def alterOK (d : Gen.D) (f : Nat) (ts : List Tok) : Bool :=
  match matchSeq ts ["ALTER", "TABLE"] with
  | .error _ => true
  | .ok (_, r0) => match pTblName r0 with
    | .error _ => true
    | .ok (_, r1) => match pAlterExpr d f r1 with
      | .error _ => true
      | .ok (_, r2) => NoRep (run r1 r2) && alterRunsOK d f (r2.length + 1) r2
/-- the token hypothesis of one statement: by the class of the RESULT -/
def stmtOK (d : Gen.D) (f : Nat) (ts : List Tok) (s : Stmt) (used : List Tok) : Bool :=
  match s with
  | .createTable _ => ddlRunOK used
  | .alter _ _ => alterOK d f ts
  | _ => true

/-! ### CREATE TABLE -/
theorem pCreateTable_acc (T : List String) (d : Gen.D) (f : Nat) (ts : List Tok) (s : Stmt) (r : List Tok) (h : pCreateTable d f ts = .ok (s, r)) :
    ∃ used, ts = used ++ r ∧ (stmtOK d f ts s used = true → FullDStmt s = true → Sub (tStmt s) T → AccAllD T used) := by
  have kCT : allKw ["CREATE", "TABLE"] = true := by decide
  have kIF : kwOk "IF" = true := by decide
  have kNOT : kwOk "NOT" = true := by decide
  have kEX : kwOk "EXISTS" = true := by decide
  have kSEMI : kwOk ";" = true := by decide
  have h0 := h
  unfold pCreateTable at h
  split at h
  · simp at h
  · rename_i u r0 hm
    split at h
    · simp at h
    · rename_i tbl r1 ht
      peelD
      · split at h
        · rename_i q r2 hq; simp at h; obtain ⟨rfl, rfl⟩ := h
          obtain ⟨u1, e, ha⟩ := ar_used (accS_pCreateTable T d f ts) h0 (pCreateTable_consumes d f _ _ _ h0)
          exact ⟨u1, e, fun _ hf hs => accAllD_of_acc (ha hf hs)⟩
        · simp at h
      · split at h
        · simp at h
        · rename_i segs r2 hp
          obtain ⟨g, e1, rfl⟩ := popSplit_ok _ _ _ hp
          split at h
          · simp at h
          · rename_i c hc
            split at h
            · simp at h
            · rename_i c' r3 ho
              simp at h; obtain ⟨rfl, rfl⟩ := h
              obtain ⟨u0, e0, k0⟩ := matchSeq_kw _ ts kCT _ _ hm
              obtain ⟨uI, eI, kI⟩ := moveThreeUp_kw r0 "IF" "NOT" "EXISTS" kIF kNOT kEX
              obtain ⟨uT, eT, kT⟩ := ar_used (accS_pTblName T _) ht (pTblName_consumes _ _ _ ht)
              obtain ⟨uO, eO, kO⟩ := createOpts_acc T d f _ _ _ _ _ ho
              obtain ⟨uS, eS, kS⟩ := moveStr_kw r3 ";" kSEMI
              obtain ⟨o1, o2, kE⟩ := createElems_acc T d f _ _ _ hc
              have E := e0.trans (congrArg (u0 ++ ·) (eI.trans (congrArg (uI ++ ·) (eT.trans (congrArg (uT ++ ·) (e1.trans
                (congrArg (g :: ·) (eO.trans (congrArg (uO ++ ·) eS)))))))))
              refine ⟨u0 ++ (uI ++ (uT ++ (g :: (uO ++ uS)))), by simpa using E, fun hok hf hs => ?_⟩
              have hok : ddlRunOK (u0 ++ (uI ++ (uT ++ (g :: (uO ++ uS))))) = true := hok
              simp only [ddlRunOK, Bool.and_eq_true] at hok
              obtain ⟨hseg, hpk, hno, hga⟩ := hok
              have hseg := (segsOKb_iff _).1 hseg
              have hg : g ∈ u0 ++ (uI ++ (uT ++ (g :: (uO ++ uS)))) := by simp
              have hOpt : OptOK c uO := by
                refine ⟨cntO_of_opts o1 (cntO_empty _ _ (a := u0 ++ (uI ++ (uT ++ [g]))) (b := uS) (by simpa using hno)), ?_, ?_⟩
                · exact groupAt_pfx (b := uS) (groupAt_sfx (a := u0 ++ (uI ++ (uT ++ [g]))) (by simpa using hga))
                · intro x hx; exact hseg x (by simp [hx])
              have hf : FullCT c' = true := hf
              have hs : Sub (tCTb c') T := hs
              obtain ⟨fc, k1⟩ := kO hOpt hf
              obtain ⟨aO, s1⟩ := k1 hs
              rw [FullCT_eq, Bool.and_eq_true] at fc
              have hpk1 : pkCnt (splitBy "," g.children [] []) ≤ 1 := by
                simp only [pkOnce, List.all_eq_true, decide_eq_true_eq] at hpk; exact hpk g hg
              obtain ⟨_, k2⟩ := kE (hseg g hg) (by simp [emptyCreate, b2n]; exact hpk1) fc.1
              obtain ⟨aE, s2⟩ := k2 s1
              rw [tCTb_empty] at s2
              have hgr : Groupish g = true := by
                rcases splitBy_nil_or g.children with hne | he
                · cases hc2 : g.children with
                  | nil => exact absurd hc2 hne
                  | cons a b => simp [Groupish, hc2]
                · have := o2 he; rw [this, hasElem_empty] at fc; simp at fc
              have aG : AccAllD T [g] := accAllD_one (.group hgr (accAll_splitBy T g.children aE))
              exact accAllD_append (accAllD_of_acc (accAll_kws k0)) (accAllD_append (accAllD_of_acc (accAll_kws kI))
                (accAllD_append (accAllD_of_acc (kT rfl s2)) (accAllD_append aG (accAllD_append aO (accAllD_of_acc (accAll_kws kS))))))

/-! ### ALTER TABLE … ADD / MODIFY / CHANGE -/
theorem tAO_add (x : ColOrIdx) : tAO (.add x) = tCOI x := by simp [tAO, AlterOp.toVal, tCOI, Val.texts, Val.textsF]
theorem tAO_modify (x : ColOrIdx) : tAO (.modify x) = tCOI x := by simp [tAO, AlterOp.toVal, tCOI, Val.texts, Val.textsF]
theorem tAO_change (n : String) (x : ColOrIdx) : tAO (.change n x) = n :: tCOI x := by simp [tAO, AlterOp.toVal, tCOI, Val.texts, Val.textsF]
theorem FullDAOs_append (a b : List AlterOp) : FullDAOs (a ++ b) = (FullDAOs a && FullDAOs b) := by
  induction a with
  | nil => simp [FullDAOs]
  | cons x a ih => simp [FullDAOs, ih, Bool.and_assoc]

theorem pAlterExpr_acc (T : List String) (d : Gen.D) (f : Nat) (ts : List Tok) (x : AlterOp) (r : List Tok) (h : pAlterExpr d f ts = .ok (x, r)) :
    ∃ used, ts = used ++ r ∧ (NoRep used = true → FullDAO x = true → Sub (tAO x) T → AccAll T used) := by
  have kADD : kwOk "ADD" = true := by decide
  have kMODIFY : kwOk "MODIFY" = true := by decide
  have kCHANGE : kwOk "CHANGE" = true := by decide
  have h0 := h
  unfold pAlterExpr at h
  peelD
  · split_run <;> first | (simp at h; done) | (simp at h; obtain ⟨rfl, rfl⟩ := h; obtain ⟨u1, e, ha⟩ := ar_used (accS_pAlterExpr T d f ts) h0 (pAlterExpr_consumes d f _ _ _ h0); exact ⟨u1, e, fun _ hf hs => ha hf hs⟩)
  peelD
  · split_run <;> first | (simp at h; done) | (simp at h; obtain ⟨rfl, rfl⟩ := h; obtain ⟨u1, e, ha⟩ := ar_used (accS_pAlterExpr T d f ts) h0 (pAlterExpr_consumes d f _ _ _ h0); exact ⟨u1, e, fun _ hf hs => ha hf hs⟩)
  peelD
  · obtain ⟨t, e, ht⟩ := sUp1 hcnd
    split at h
    · rename_i y r1 hp; simp at h; obtain ⟨rfl, rfl⟩ := h
      obtain ⟨u1, e1, ha⟩ := pColOrIdx_acc T d f _ _ _ hp
      refine ⟨t :: u1, by rw [e, e1] <;> simp, fun hr hf hs => ?_⟩
      have : t :: u1 = [t] ++ u1 := rfl
      rw [this, accAll_append]
      exact ⟨accAll_kws (by simp; exact srcEqUp_kw ht kADD), ha (NoRep_sfx (a := [t]) hr) hf (by simpa [tAO_add] using hs)⟩
    · simp at h
  peelD
  · obtain ⟨t, e, ht⟩ := sUp1 hcnd
    split at h
    · rename_i y r1 hp; simp at h; obtain ⟨rfl, rfl⟩ := h
      obtain ⟨u1, e1, ha⟩ := pColOrIdx_acc T d f _ _ _ hp
      refine ⟨t :: u1, by rw [e, e1] <;> simp, fun hr hf hs => ?_⟩
      have : t :: u1 = [t] ++ u1 := rfl
      rw [this, accAll_append]
      exact ⟨accAll_kws (by simp; exact srcEqUp_kw ht kMODIFY), ha (NoRep_sfx (a := [t]) hr) hf (by simpa [tAO_modify] using hs)⟩
    · simp at h
  peelD
  · obtain ⟨t, e, ht⟩ := sUp1 hcnd
    split at h
    · simp at h
    · rename_i n r0 hn
      obtain ⟨tn, en, rfl⟩ := popSrc_ok hn
      split at h
      · rename_i y r1 hp; simp at h; obtain ⟨rfl, rfl⟩ := h
        obtain ⟨u1, e1, ha⟩ := pColOrIdx_acc T d f _ _ _ hp
        refine ⟨t :: tn :: u1, by rw [e, en, e1] <;> simp, fun hr hf hs => ?_⟩
        have : t :: tn :: u1 = [t, tn] ++ u1 := rfl
        rw [tAO_change, sub_cons] at hs
        rw [this, accAll_append]
        refine ⟨?_, ha (NoRep_sfx (a := [t, tn]) hr) hf hs.2⟩
        simp only [accAll_cons, accAll_nil, and_true]
        exact ⟨.kw (srcEqUp_kw ht kCHANGE), .name hs.1⟩
      · simp at h
  all_goals (split_run <;> first | (simp at h; done) | (simp at h; obtain ⟨rfl, rfl⟩ := h; obtain ⟨u1, e, ha⟩ := ar_used (accS_pAlterExpr T d f ts) h0 (pAlterExpr_consumes d f _ _ _ h0); exact ⟨u1, e, fun _ hf hs => ha hf hs⟩))

theorem alterLoop_acc (T : List String) (d : Gen.D) (f : Nat) : ∀ g acc ts v r, alterLoop d f g acc ts = .ok (v, r) →
    ∃ used, ts = used ++ r ∧ (alterRunsOK d f g ts = true → FullDAOs v = true →
      FullDAOs acc = true ∧ (Sub (tAOs v) T → AccAll T used ∧ Sub (tAOs acc) T)) := by
  have kC : kwOk "," = true := by decide
  intro g
  induction g with
  | zero => intro acc ts v r h; simp [alterLoop] at h
  | succ g ih =>
    intro acc ts v r h
    unfold alterLoop at h
    peelD
    · obtain ⟨t, r0, rfl, ht⟩ := searchStr_head hcnd
      simp only [List.drop_succ_cons, List.drop_zero] at h
      split at h
      · rename_i x r1 hp
        obtain ⟨u1, e1, ha⟩ := pAlterExpr_acc T d f _ _ _ hp
        obtain ⟨u2, e2, k⟩ := ih _ _ _ _ h
        refine ⟨t :: (u1 ++ u2), by rw [e1, e2]; simp, fun hr hf => ?_⟩
        unfold alterRunsOK at hr
        rw [if_pos hcnd] at hr
        simp only [List.drop_succ_cons, List.drop_zero, hp, Bool.and_eq_true] at hr
        have hr2 : alterRunsOK d f g r1 = true := hr.2
        have hr1 : NoRep u1 = true := by have := hr.1; rw [e1, run_append] at this; exact this
        obtain ⟨f1, k1⟩ := k hr2 hf
        rw [FullDAOs_append] at f1
        simp only [FullDAOs, Bool.and_true, Bool.and_eq_true] at f1
        refine ⟨f1.1, fun hs => ?_⟩
        obtain ⟨a2, s2⟩ := k1 hs
        rw [tAOs_append, tAOs_one, sub_append] at s2
        refine ⟨?_, s2.1⟩
        have : t :: (u1 ++ u2) = [t] ++ (u1 ++ u2) := rfl
        rw [this, accAll_append, accAll_append]
        exact ⟨accAll_kws (by simp; exact srcEq_kw (by simpa [Tok.srcEq] using ht) kC), ha hr1 f1.2 s2.2, a2⟩
      · simp at h
    · simp at h; obtain ⟨rfl, rfl⟩ := h
      exact ⟨[], by simp, fun _ hf => ⟨hf, fun hs => ⟨by simp [AccAll], hs⟩⟩⟩

theorem pAlter_acc (T : List String) (d : Gen.D) (f : Nat) (ts : List Tok) (s : Stmt) (r : List Tok) (h : pAlter d f ts = .ok (s, r)) :
    ∃ used, ts = used ++ r ∧ (stmtOK d f ts s used = true → FullDStmt s = true → Sub (tStmt s) T → AccAllD T used) := by
  have kAT : allKw ["ALTER", "TABLE"] = true := by decide
  unfold pAlter at h
  split at h
  · simp at h
  · rename_i u r0 hm
    split at h
    · simp at h
    · rename_i tbl r1 ht
      split at h
      · simp at h
      · rename_i x r2 hx
        split at h
        · rename_i xs r3 hl
          simp at h; obtain ⟨rfl, rfl⟩ := h
          obtain ⟨u0, e0, k0⟩ := matchSeq_kw _ ts kAT _ _ hm
          obtain ⟨uT, eT, kT⟩ := ar_used (accS_pTblName T _) ht (pTblName_consumes _ _ _ ht)
          obtain ⟨u1, e1, k1⟩ := pAlterExpr_acc T d f _ _ _ hx
          obtain ⟨u2, e2, k2⟩ := alterLoop_acc T d f _ _ _ _ _ hl
          have E := e0.trans (congrArg (u0 ++ ·) (eT.trans (congrArg (uT ++ ·) (e1.trans (congrArg (u1 ++ ·) e2)))))
          refine ⟨u0 ++ (uT ++ (u1 ++ u2)), by simpa using E, fun hok hf hs => ?_⟩
          have hok : alterOK d f ts = true := hok
          unfold alterOK at hok
          simp only [hm, ht, hx, Bool.and_eq_true] at hok
          have hnr2 : alterRunsOK d f (r2.length + 1) r2 = true := hok.2
          have hnr1 : NoRep u1 = true := by have := hok.1; rw [e1, run_append] at this; exact this
          have hf : FullDAOs xs = true := hf
          rw [tStmt_alter, sub_append] at hs
          obtain ⟨f1, k3⟩ := k2 hnr2 hf
          obtain ⟨a2, s2⟩ := k3 hs.2
          simp only [FullDAOs, Bool.and_true] at f1
          rw [tAOs_one] at s2
          exact accAllD_of_acc (by
            rw [accAll_append, accAll_append, accAll_append]
            exact ⟨accAll_kws k0, kT rfl hs.1, k1 hnr1 f1 s2, a2⟩)
        · simp at h

/-! ### SET -/
theorem tStmt_set (c : ConfigStr) : tStmt (.set c) = tCS c := by simp [tStmt, Stmt.toVal, ConfigStr.toVal, tCS, Val.texts, Val.textsF]
theorem pSet_acc (T : List String) (ts : List Tok) (s : Stmt) (r : List Tok) (h : pSet ts = .ok (s, r)) :
    ∃ used, ts = used ++ r ∧ (Sub (tStmt s) T → AccAllD T used) := by
  have kSET : kwOk "SET" = true := by decide
  unfold pSet at h
  split at h
  · simp at h
  · rename_i u r0 hm
    split at h
    · rename_i c r1 hc
      simp at h; obtain ⟨rfl, rfl⟩ := h
      obtain ⟨t, rfl, ht⟩ := matchKw_ok hm kSET
      obtain ⟨u1, e1⟩ := pConfigStrExpr_consumes _ _ _ hc
      refine ⟨t :: u1, by rw [e1]; simp, fun hs => ?_⟩
      rw [tStmt_set] at hs
      have h3 := pConfigStrExpr_acc T hc hs
      obtain ⟨w, ew, hw⟩ := h3
      have : w = u1 := List.append_cancel_right (ew.symm.trans e1)
      subst this
      exact accAllD_append (accAllD_one (.kw ht)) hw
    · simp at h

end Ddl
end PA
