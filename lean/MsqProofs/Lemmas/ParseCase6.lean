import MsqProofs.Lemmas.ParseCase5
import MsqProofs.Lemmas.ParseCase4
/-!
# C09, parser half — hand-written part 8: facts for the statement level
A word popped by `popSrc` is used by the DDL / DML parsers in three ways: stored as it is, stored after `unifyName` (back-quotes stripped),
or looked up in the compare-operator table: `srcRel` says that two popped words agree in all three.
-/
set_option linter.unusedSimpArgs false
set_option linter.unusedVariables false
open Lex Ast
namespace PM

/-- what two popped sources have in common -/
def srcRel (s s' : String) : Prop := up s = up s' ∧ up (unifyName s) = up (unifyName s') ∧ compareOp? s = compareOp? s'
@[simp, grind =] theorem srcRel_def (s s' : String) :
    srcRel s s' = (up s = up s' ∧ up (unifyName s) = up (unifyName s') ∧ compareOp? s = compareOp? s') := rfl
theorem popSrc_ce2 : ∀ x0 y0, CEL x0 y0 → CER srcRel (popSrc x0) (popSrc y0) := by
  intro x0 y0 h
  cases x0 <;> cases y0 <;> simp_all [popSrc]
  exact ⟨ce_up_src h.1, ce_unifyName h.1, ce_compareOp h.1⟩
grind_pattern popSrc_ce2 => popSrc x0, popSrc y0

attribute [grind =] up_append

/-- the look-up of the saving mode of a generated column, as a function of the upper-cased word alone -/
def genModeOf (u : String) : Option (String × String) := Gen.genColSaveModes.find? (fun x => x.1 == u)
theorem genModes_find (s : String) : Gen.genColSaveModes.find? (fun x => x.1 == up s) = genModeOf (up s) := rfl

theorem emptyCreate_ce (t t' : TableName) (b : Bool) (h : upTN t = upTN t') : upCR (emptyCreate t b) = upCR (emptyCreate t' b) := by
  simp [emptyCreate, upCR, h]
grind_pattern emptyCreate_ce => emptyCreate t b, emptyCreate t' b

/-- partition items `(expression, is non-dynamic)`: the flags are the same, the expressions related -/
theorem items_any {l l' : List (Expr × Bool)} (h : l.map (Prod.map upE id) = l'.map (Prod.map upE id)) (p : Bool → Bool) :
    (l.any fun i => p i.2) = (l'.any fun i => p i.2) := by
  induction l generalizing l' with
  | nil => cases l' <;> simp_all
  | cons a l ih =>
    cases l' with
    | nil => simp at h
    | cons a' l' =>
      obtain ⟨e, b⟩ := a; obtain ⟨e', b'⟩ := a'
      simp [Prod.map] at h
      simp only [List.any_cons, ih h.2, h.1.2]
theorem items_any_snd {l l' : List (Expr × Bool)} (h : ceq (List.map (Prod.map upE id)) l l') :
    (l.any (·.2)) = (l'.any (·.2)) ∧ (l.any fun i => !i.2) = (l'.any fun i => !i.2) :=
  ⟨items_any h id, items_any h (!·)⟩
grind_pattern items_any_snd => ceq (List.map (Prod.map upE id)) l l'
theorem items_fst {l l' : List (Expr × Bool)} (h : ceq (List.map (Prod.map upE id)) l l') :
    (l.map (·.1)).map upE = (l'.map (·.1)).map upE := by
  have := congrArg (List.map Prod.fst) h
  simpa [List.map_map, Function.comp_def, Prod.map] using this
grind_pattern items_fst => ceq (List.map (Prod.map upE id)) l l'

end PM
