import MsqProofs.Lemmas.AnalyzeText3b
import MsqModel.Analyze.ColumnsSpec
/-!
# Reading the column references off the tokens of one clause (C15 on texts)

`CT.colL st ts` walks over a token list at ONE bracket depth and returns the column references written there, in textual order, with
their qualifier (`AN.QCol`).  It never enters a bracket group that starts with `SELECT` / `WITH` (a sub-query); every other bracket group
(call arguments, a bracketed operand, an `IN` list) is scanned from the start.  Per token it looks at the token itself, the kind of the
NEXT token (a `.`, a bracket group, anything else), and its own state:

* a LITERAL-marked token is an operand and no reference;
* a word (NAME mark, bare or back-quoted) directly followed by `.` is a qualifier: `q . *` is the wildcard reference `q.*`,
  `q . name (…)` a schema-qualified call (no reference), `q . name` the qualified reference `q.name`;
* a bare word of `reserved` (CASE WHEN THEN ELSE END IS IN LIKE … DISTINCT DESC …) is no reference;  `AS` (not followed by a bracket
  group) announces an alias: the next token is skipped;
* a word directly followed by a bracket group is a function name (no reference); if it is one of the aggregate names (`Gen.aggNames`),
  the group is the argument list of an aggregate: its references, or ONE anonymous reference if there are none (`COUNT(1)`);
* any other word is an unqualified column reference — unless its name is one of the dialect variables (`Spec.isGlobal`: CURRENT_DATE …);
* a `*` where an operand is expected (state `expr false`: at the start, after an operator, a keyword, a comma) is the wildcard reference
  `*`; after an operand (a name, a literal, a bracket group, `END`) it is the multiplication sign;
* everything else (operator symbols, commas, the keywords the lexer gives no NAME mark: AND OR NOT ON …) is no reference and is followed
  by an operand.

`CT.clauseColumnTokens c seg`: the references of clause `c` read off its token segment (`CT.clauseToks`): the whole segment for the select
list, WHERE and HAVING; the `ON` conditions of the JOIN segment (`CT.cutOns`); for GROUP BY / ORDER BY the items between the top-level commas, an
item that is ONE integer literal (followed by nothing, `ASC` or `DESC`) being a select-list position.
-/
set_option linter.unusedVariables false
set_option linter.unusedSimpArgs false
open Lex PM Ast TP TP2 TS TQ Spec
open AN (QCol Clause)
namespace CT

inductive St where
  /-- at expression level; `after = true`: an operand has just ended -/
  | expr (after : Bool)
  /-- the next token is the argument list of an aggregate -/
  | agg
  /-- the next token is the `.` after the qualifier `q` -/
  | dot (q : String)
  /-- the next token is what the qualifier `q` qualifies -/
  | member (q : String)
  /-- the next token is an alias -/
  | alias

def isGrp : Tok → Bool
  | .group _ _ _ => true
  | .single _ _ => false
def nextIsGrp : List Tok → Bool
  | t :: _ => isGrp t
  | [] => false
/-- a bracket group that starts with `SELECT` / `WITH` is a sub-query -/
def isSubq : List Tok → Bool
  | t :: _ => t.equalsStr "SELECT" || t.equalsStr "WITH"
  | [] => false
/-- a plain token with the NAME mark and without the LITERAL mark (strings carry both) -/
def isWord : Tok → Bool
  | .single s m => (Tok.single s m).has NAME && !(Tok.single s m).has LITERAL
  | .group _ _ _ => false
def quoted (t : Tok) : Bool := t.source.head? == some '`'
/-- bare words that are never a column reference -/
def reserved : List String :=
  ["CASE", "WHEN", "THEN", "ELSE", "END", "IS", "IN", "LIKE", "RLIKE", "REGEXP", "BETWEEN", "EXISTS", "DISTINCT", "DESC", "ASC", "XOR",
   "DIV", "MOD", "ALL", "ANY", "USING", "OUTER", "SEMI", "NULLS", "INTERVAL", "OVER", "PARTITION", "ROWS", "OFFSET"]
/-- the reserved words that END an operand -/
def endsOperand (t : Tok) : Bool := t.equalsStr "END" || t.equalsStr "DESC" || t.equalsStr "ASC"
/-- the name a word token stands for (`unify_name`: back quotes stripped) -/
def nm (t : Tok) : String := unifyName t.src
/-- an unqualified / qualified name as a reference: the dialect variables are none -/
def ref (q : Option String) (n : String) : List QCol := if isGlobal q n then [] else [⟨q, some n, none⟩]

/-- one step on a plain token: the references it contributes and the next state (`r`: the tokens after it) -/
def step (st : St) (t : Tok) (r : List Tok) : List QCol × St :=
  match st with
  | .alias => ([], .expr true)
  | .dot q => ([], .member q)
  | .member q =>
    if nextIsGrp r then ([], .expr false)
    else if isWord t then ([⟨some q, some (nm t), none⟩], .expr true)
    else if t.equalsStr "*" then ([⟨some q, some "*", none⟩], .expr true)
    else ([], .expr false)
  | st =>
    if t.has LITERAL then ([], .expr true)
    else if isWord t then
      if nextIs "." r then ([], .dot (nm t))
      else if t.equalsStr "AS" then ([], if nextIsGrp r then .expr false else .alias)
      else if !quoted t && reserved.contains (up t.src) then ([], .expr (endsOperand t))
      else if nextIsGrp r then ([], if Gen.aggNames.contains (up t.src) then .agg else .expr false)
      else (ref none (nm t), .expr true)
    else if t.equalsStr "*" then
      (match st with
       | .expr true => ([], .expr false)
       | _ => ([⟨none, some "*", none⟩], .expr true))
    else ([], .expr false)

mutual
/-- a bracket group met in state `st` -/
def colG (st : St) : Tok → List QCol
  | .single _ _ => []
  | .group _ cs _ =>
    match st with
    | .agg => if (colL (.expr false) cs).length > 0 then colL (.expr false) cs else [anon]
    | .alias => []
    | _ => if isSubq cs then [] else colL (.expr false) cs
/-- **the column references of a token list**, in textual order -/
def colL : St → List Tok → List QCol
  | _, [] => []
  | st, t :: r =>
    match t with
    | .group k cs m => colG st (.group k cs m) ++ colL (.expr true) r
    | .single s m => (step st (.single s m) r).1 ++ colL (step st (.single s m) r).2 r
end

/-! ### the clauses -/
/-- the pieces of a token list between its (top-level) commas -/
def splitC : List Tok → List (List Tok)
  | [] => [[]]
  | t :: r =>
    if t.equalsStr "," then [] :: splitC r
    else match splitC r with
      | s :: ss => (t :: s) :: ss
      | [] => [[t]]

def isDir (t : Tok) : Bool := t.equalsStr "DESC" || t.equalsStr "ASC"
/-- a token that is an integer literal, as a select-list position -/
def ordTok (t : Tok) : Option Int :=
  if t.has LITERAL then (match AN.ordinalOfSource t.src with | .ok k => k | .error _ => none) else none
/-- one item of GROUP BY / ORDER BY: a lone integer literal is a position, everything else is scanned -/
def itemT (ts : List Tok) : List QCol :=
  match ts with
  | [t] => (match ordTok t with | some k => [⟨none, none, some k⟩] | none => colL (.expr false) ts)
  | [t, u] => (match ordTok t with | some k => if isDir u then [⟨none, none, some k⟩] else colL (.expr false) ts | none => colL (.expr false) ts)
  | _ => colL (.expr false) ts

/-- the six clauses -/
def clauseColumnTokens6 (c : Clause) (seg : List Tok) : List QCol :=
  match c with
  | .select | .where_ | .having => colL (.expr false) seg
  | .join => colL (.expr false) (cutOns seg)
  | .group | .order => (splitC (seg.drop 2)).flatMap itemT
  | .all => []
/-- the number of a clause -/
def clauseNo : Clause → Nat
  | .select => 0 | .join => 2 | .where_ => 3 | .group => 4 | .having => 5 | .order => 6 | .all => 9
/-- **the token segment of clause `c`** of a SELECT branch's token list (`CT.cut`: by the clause words at bracket depth 0); for the
union: the whole list -/
def clauseSeg (c : Clause) (ts : List Tok) : List Tok :=
  match c with
  | .join => cutJoins ts
  | .all => ts
  | c => clauseToks (clauseNo c) ts
/-- **the references written in one clause**, read off the clause's token segment: the whole segment for the select list, WHERE and
HAVING; the `ON` conditions of the JOIN segment; the items of GROUP BY / ORDER BY; the union `all` is the concatenation of the six -/
def clauseColumnTokens (c : Clause) (seg : List Tok) : List QCol :=
  match c with
  | .all => [Clause.select, .join, .where_, .group, .having, .order].flatMap fun c' => clauseColumnTokens6 c' (clauseSeg c' seg)
  | c => clauseColumnTokens6 c seg
/-- the references of clause `c` of a SELECT branch, read off the branch's token list -/
def branchColumnTokens (c : Clause) (ts : List Tok) : List QCol := clauseColumnTokens c (clauseSeg c ts)

end CT
