import MsqProofs.Lemmas.TDml2
/-!
# T-parse for data-change statements: INSERT assembled, the WITH clause, queries under a WITH clause (C03 / C01)

* `insert_values_ok`, `insert_query_ok`: `pInsert` with the WITH slot already consumed;
* `with_ok`: `_parse_with_clause` on `WITH name AS (q), …` (every body a fragment query, parsed in its own closed child cursor);
* `single_w`: `_parse_single_select_statement` is parametric in the WITH clause it is handed (it only stores it), hence
  `query_ws`: `_parse_select_statement` with a WITH clause already consumed, on the rendering of a fragment query — the clause is recorded
  once: on the single SELECT, or on the union (whose branches keep the empty clause).
-/
set_option linter.unusedVariables false
set_option linter.unusedSimpArgs false
set_option maxHeartbeats 1000000
open Lex PM Ast TP TP2 TS TQ
namespace TDM
variable {d : Gen.D} {ch : Expr → Bool}

/-! ### INSERT -/
theorem kw_values : (opTok "VALUES").srcEqUp "PARTITION" = false ∧ (opTok "VALUES").has PAREN = false ∧ (opTok "VALUES").srcEq "." = false ∧
    (opTok "VALUES").srcEqUp "VALUES" = true ∧ (opTok "VALUES").size = 1 := by decide
theorem kw_select : (opTok "SELECT").srcEqUp "PARTITION" = false ∧ (opTok "SELECT").has PAREN = false ∧ (opTok "SELECT").srcEq "." = false ∧
    (opTok "SELECT").srcEqUp "VALUES" = false ∧ (opTok "SELECT").srcEqUp "SELECT" = true := by decide
theorem sizeL_target_part (tb : Bool) (h : InsertHead) : sizeL (toksPart d ch h.partition) ≤ sizeL (toksTarget d ch tb h) := by
  simp only [toksTarget, sizeL_append, sizeL_cons]; omega
theorem insert_values_ok (tb : Bool) (h : InsertHead) (ws : List WithTable) (hw : h.withs = some ws) (hh : HeadRec d ch h)
    (rows : List (List Expr)) (hrows : ∀ r ∈ rows, ∀ e ∈ r, RT3 d ch e) (rest : List Tok) (hr : Bd3 d 7 rest = true) :
    OkAt (fun f => pInsert d f (some ws) (toksTarget d ch tb h ++ opTok "VALUES" :: (toksRows d ch rows ++ rest)))
      (20 * sizeL (toksTarget d ch tb h ++ opTok "VALUES" :: toksRows d ch rows) + 2) (.insertValues h rows, rest) := by
  obtain ⟨k1, k2, k3, k4, k5⟩ := kw_values
  intro f hf'
  simp only [sizeL_append, sizeL_cons, k5] at hf'
  have hp := sizeL_target_part (d := d) (ch := ch) tb h
  have h1 := insert_target tb h ws hw hh (opTok "VALUES" :: (toksRows d ch rows ++ rest))
    (by simpa [searchStrUp] using k1) (by simpa [searchMark] using k2) (by simpa [searchStr] using k3) f (by omega)
  have h2 := valuesLoop_ok rest hr rows hrows [] f ((opTok "VALUES" :: (toksRows d ch rows ++ rest)).length + 1) (by omega)
    (by have := length_rows (d := d) (ch := ch) rows; simp only [List.length_cons, List.length_append]; omega)
  have hs : searchStrUp (opTok "VALUES" :: (toksRows d ch rows ++ rest)) "VALUES" = true := by simpa [searchStrUp] using k4
  show pInsert d f (some ws) _ = _
  rw [h1]
  unfold insertBody
  simp only [hs, if_true, List.drop_succ_cons, List.drop_zero, h2, List.nil_append]
theorem insert_query_ok (hch : ChOK d ch) (tb : Bool) (h : InsertHead) (ws : List WithTable) (hw : h.withs = some ws) (hh : HeadRec d ch h)
    (q : Query) (hq : FragQ d q = true) (rest : List Tok) (hr : stopsQ d rest = true) :
    OkAt (fun f => pInsert d f (some ws) (toksTarget d ch tb h ++ (toksQ d ch q ++ rest)))
      (20 * sizeL (toksTarget d ch tb h ++ toksQ d ch q) + 9) (.insertSelect h q, rest) := by
  obtain ⟨k1, k2, k3, k4, k5⟩ := kw_select
  obtain ⟨x, hx⟩ := toksQ_head hch q hq
  intro f hf'
  simp only [sizeL_append] at hf'
  have hp := sizeL_target_part (d := d) (ch := ch) tb h
  have h1 := insert_target tb h ws hw hh (toksQ d ch q ++ rest)
    (by simpa [hx, searchStrUp] using k1) (by simpa [hx, searchMark] using k2) (by simpa [hx, searchStr] using k3) f (by omega)
  have h2 := stmt_some hch q hq rest hr f (by omega)
  have hs1 : searchStrUp (toksQ d ch q ++ rest) "VALUES" = false := by simpa [hx, searchStrUp] using k4
  have hs2 : searchStrUp (toksQ d ch q ++ rest) "SELECT" = true := by simpa [hx, searchStrUp] using k5
  simp only at h2
  show pInsert d f (some ws) _ = _
  rw [h1]
  unfold insertBody
  simp only [hs1, Bool.false_eq_true, if_false, hs2, if_true, h2]

/-! ### the WITH clause -/
theorem kw_with : (opTok "WITH").srcEqUp "WITH" = true ∧ (opTok "AS").equalsStr "AS" = true ∧ (opTok "WITH").size = 1 ∧ (opTok "AS").size = 1 := by decide
theorem withTable_ok (hch : ChOK d ch) (w : WithTable) (hw : withOK d w = true) (x : List Tok) :
    OkAt (fun f => pWithTable d f (toksWith d ch w ++ x)) (20 * sizeL (toksWith d ch w)) (w, x) := by
  obtain ⟨n, q⟩ := w
  obtain ⟨_, k2, _, k4⟩ := kw_with
  simp only [withOK, Bool.and_eq_true, beq_iff_eq] at hw
  obtain ⟨hn, hq⟩ := hw
  intro f hf'
  simp only [toksWith, sizeL_cons, size_grp, k4, sizeL] at hf'
  have := tok_size_pos (qTok n)
  obtain ⟨g, rfl⟩ : ∃ g, f = g + 2 := ⟨f - 2, by omega⟩
  have h1 := stmt_some hch q hq [] rfl g (by omega)
  simp only [List.append_nil] at h1
  unfold pWithTable
  simp only [toksWith, List.cons_append, List.nil_append, matchSeq, k2, if_true]
  unfold pWithBody
  simp only [children_grp, h1, closed, hn]
theorem withsTail_size (w : WithTable) (r : List WithTable) :
    sizeL (toksWithsTail d ch (w :: r)) = 1 + sizeL (toksWith d ch w) + sizeL (toksWithsTail d ch r) := by
  have hsz : TS.commaTok.size = 1 := by decide
  simp only [toksWithsTail, sizeL_cons, sizeL_append, hsz]; omega
theorem withTables_ok (hch : ChOK d ch) (fol : List Tok) (hc : searchStr fol "," = false) :
    ∀ (ws : List WithTable), (∀ w ∈ ws, withOK d w = true) → ∀ acc,
    OkAt (fun f => pWithTables d f acc (toksWithsTail d ch ws ++ fol)) (20 * sizeL (toksWithsTail d ch ws) + 1) (acc ++ ws, fol) := by
  intro ws
  induction ws with
  | nil =>
    intro _ acc f hf'
    obtain ⟨g, rfl⟩ : ∃ g, f = g + 1 := ⟨f - 1, by omega⟩
    simp [toksWithsTail, pWithTables, hc]
  | cons w r ih =>
    intro hws acc f hf'
    rw [withsTail_size] at hf'
    obtain ⟨g, rfl⟩ : ∃ g, f = g + 1 := ⟨f - 1, by omega⟩
    have h1 := withTable_ok hch w (hws w (by simp)) (toksWithsTail d ch r ++ fol) g (by omega)
    have h2 := ih (fun u hu => hws u (by simp [hu])) (acc ++ [w]) g (by omega)
    simp only at h1
    show pWithTables d (g + 1) acc (toksWithsTail d ch (w :: r) ++ fol) = _
    unfold pWithTables
    simp only [toksWithsTail, List.cons_append, List.append_assoc, TS.comma_search, if_true, List.drop_succ_cons, List.drop_zero, h1]
    simpa using h2
/-- `_parse_with_clause`: the tables in order; `fol` (the statement proper) starts neither with `,` nor with `WITH` -/
theorem with_ok (hch : ChOK d ch) (ws : List WithTable) (hws : withsOK d (some ws) = true) (fol : List Tok)
    (hc : searchStr fol "," = false) (hw : searchStrUp fol "WITH" = false) :
    OkAt (fun f => pWith d f (toksWiths d ch (some ws) ++ fol)) (20 * sizeL (toksWiths d ch (some ws)) + 1) (ws, fol) := by
  obtain ⟨k1, _, k3, _⟩ := kw_with
  simp only [withsOK, List.all_eq_true] at hws
  intro f hf'
  obtain ⟨g, rfl⟩ : ∃ g, f = g + 1 := ⟨f - 1, by omega⟩
  cases ws with
  | nil => simp [toksWiths, pWith, hw]
  | cons w r =>
    simp only [toksWiths, sizeL_cons, sizeL_append, k3] at hf'
    have h1 := withTable_ok hch w (hws w (by simp)) (toksWithsTail d ch r ++ fol) g (by omega)
    have h2 := withTables_ok hch fol hc r (fun u hu => hws u (by simp [hu])) [w] g (by omega)
    have hs : searchStrUp (opTok "WITH" :: (toksWith d ch w ++ (toksWithsTail d ch r ++ fol))) "WITH" = true := by simpa [searchStrUp] using k1
    simp only at h1 h2
    unfold pWith
    simp only [toksWiths, List.cons_append, List.append_assoc, hs, if_true, List.drop_succ_cons, List.drop_zero, h1]
    simpa using h2

/-! ### `_parse_single_select_statement` only stores the WITH clause it is handed -/
def mapR {α β : Type} (g : α → β) : R α → R β
  | .ok (a, r) => .ok (g a, r)
  | .error e => .error e
theorem selectTail_w (ws : List WithTable) (f : Nat) (dist : Bool) (cols : List (Expr × Option String)) (fr : Option (List FromTable))
    (lats : List Lateral) (js : List Join) (ts : List Tok) :
    pSelectTail d f ws dist cols fr lats js ts = mapR (setW ws) (pSelectTail d f [] dist cols fr lats js ts) := by
  cases f with
  | zero => rfl
  | succ g =>
    simp only [pSelectTail]
    cases pWhereGroup d g ts with
    | error e => rfl
    | ok p1 =>
      obtain ⟨⟨wh, gb⟩, r2⟩ := p1
      simp only []
      cases pHavingOrder d g r2 with
      | error e => rfl
      | ok p2 =>
        obtain ⟨⟨hv, ob⟩, r4⟩ := p2
        simp only []
        cases pHiveClauses d g r4 with
        | error e => rfl
        | ok p3 =>
          obtain ⟨⟨sb, db, cb⟩, r4'⟩ := p3
          simp only []
          cases pLimit r4' with
          | error e => rfl
          | ok p4 => obtain ⟨lm, r5⟩ := p4; rfl
theorem selectRest_w (ws : List WithTable) (f : Nat) (dist : Bool) (cols : List (Expr × Option String)) (same : Bool) (outer inner : List Tok) :
    pSelectRest d f ws dist cols same outer inner = mapR (setW ws) (pSelectRest d f [] dist cols same outer inner) := by
  cases f with
  | zero => rfl
  | succ g =>
    simp only [pSelectRest]
    cases pFromOpt d g inner with
    | error e => rfl
    | ok p1 =>
      obtain ⟨fr, r1⟩ := p1
      simp only []
      cases pLaterals d g same outer [] r1 with
      | error e => rfl
      | ok p2 =>
        obtain ⟨lats, r1'⟩ := p2
        simp only []
        cases pJoins d g same outer [] r1' with
        | error e => rfl
        | ok p3 =>
          obtain ⟨js, r2⟩ := p3
          simp only []
          exact selectTail_w ws g dist cols fr lats js r2
theorem selectBody_w (ws : List WithTable) (f : Nat) (same : Bool) (outer inner : List Tok) :
    pSelectBody d f ws same outer inner = mapR (setW ws) (pSelectBody d f [] same outer inner) := by
  cases f with
  | zero => rfl
  | succ g =>
    simp only [pSelectBody]
    cases matchSeq inner ["SELECT"] with
    | error e => rfl
    | ok p0 =>
      obtain ⟨u, r0⟩ := p0
      simp only []
      cases pSelectCol d g (moveStrUp r0 "DISTINCT").2 with
      | error e => rfl
      | ok p1 =>
        obtain ⟨c, r1⟩ := p1
        simp only []
        cases pSelectCols d g [c] r1 with
        | error e => rfl
        | ok p2 =>
          obtain ⟨cols, r2⟩ := p2
          simp only []
          exact selectRest_w ws g _ cols same outer r2
theorem single_w (ws : List WithTable) (f : Nat) (ts : List Tok) (hts : searchMark ts PAREN = false) :
    pSingle d f ws ts = mapR (setW ws) (pSingle d f [] ts) := by
  cases f with
  | zero => rfl
  | succ g =>
    simp only [pSingle, hts, Bool.not_false, if_true]
    exact selectBody_w ws g true [] ts

/-- the single SELECT of a query under a WITH clause -/
theorem single_ws (ws : List WithTable) {s : Select} (hs : SRec d ch s) (rest : List Tok) (hr : Bd3 d 7 rest = true) :
    OkAt (fun f => pSingle d f ws (toksS3 d ch s ++ rest)) (20 * sizeL (toksS3 d ch s) + 6) (setW ws s, rest) := by
  obtain ⟨x, hx⟩ := hs.head
  intro f hf'
  have h := hs.parse rest hr f hf'
  simp only at h
  have hp : searchMark (toksS3 d ch s ++ rest) PAREN = false := by
    simpa [hx, searchMark] using kw_select.2.1
  show pSingle d f ws _ = _
  rw [single_w ws f _ hp, h]
  rfl
theorem setWiths_setW (ws : List WithTable) {s : Select} (hs : SRec d ch s) : setWiths (setW ws s) = s := by
  obtain ⟨dist, c, cs, fr, js, wh, gb, hv, ob, lm, rfl, _⟩ := hs
  rfl
theorem unions_w (ws : List WithTable) (rest : List Tok) (hr : stopsQ d rest = true) :
    ∀ (us : List (String × Select)), UnRec d ch us → ∀ acc,
    OkAt (fun f => pUnions d f ws acc (toksUn d ch us ++ rest)) (20 * sizeL (toksUn d ch us) + 1)
      (acc ++ us.map (fun p => (p.1, setW ws p.2)), rest) := by
  intro us
  induction us with
  | nil =>
    intro _ acc f hf'
    obtain ⟨g, rfl⟩ : ∃ g, f = g + 1 := ⟨f - 1, by omega⟩
    have := (unions_bd (ch := ch) [] trivial rest hr).2
    simp only [toksUn, List.nil_append, List.isEmpty_nil, Bool.not_true] at this
    simp [toksUn, pUnions, this]
  | cons p r ih =>
    intro hus acc f hf'
    obtain ⟨ty, s⟩ := p
    obtain ⟨hty, hs, hr'⟩ := hus
    obtain ⟨hfe, t, ws', hw, _, _, _⟩ := unionTy_parts hty
    obtain ⟨x, hx⟩ := hs.head
    have hwpos : 1 ≤ sizeL (unionWords ty) := by
      rw [hw, sizeL_cons]; have := tok_size_pos t; omega
    have hspos := sizeL_toksS3_pos (d := d) (ch := ch) s
    simp only [toksUn, sizeL_append] at hf'
    obtain ⟨g, rfl⟩ : ∃ g, f = g + 1 := ⟨f - 1, by omega⟩
    have hnext := unions_bd r hr' rest hr
    have hhead := (unions_bd ((ty, s) :: r) ⟨hty, hs, hr'⟩ rest hr).2
    have hfirst : firstEnum Gen.unionTypes (unionWords ty ++ (toksS3 d ch s ++ (toksUn d ch r ++ rest))) =
        some (ty, toksS3 d ch s ++ (toksUn d ch r ++ rest)) := by
      rw [hx, List.cons_append, TS.firstEnum_app _ _ _ _ select_noUnionWord, hfe]
      simp
    have h1 : pSingle d g ws (toksS3 d ch s ++ (toksUn d ch r ++ rest)) = .ok (setW ws s, toksUn d ch r ++ rest) :=
      single_ws ws hs _ hnext.1 g (by omega)
    have h2 := ih hr' (acc ++ [(ty, setW ws s)]) g (by omega)
    show pUnions d (g + 1) ws acc (toksUn d ch ((ty, s) :: r) ++ rest) = _
    unfold pUnions
    simp only [hhead, List.isEmpty_cons, Bool.not_false, Bool.not_true, Bool.false_eq_true, if_false]
    simp only [toksUn, List.append_assoc, hfirst, h1]
    simpa using h2
theorem unrec_setWiths (ws : List WithTable) : ∀ {us : List (String × Select)}, UnRec d ch us →
    (us.map (fun p => (p.1, setW ws p.2))).map (fun p => (p.1, PM.setWiths p.2)) = us
  | [], _ => rfl
  | (t, s) :: r, h => by
    simp only [List.map_cons, setWiths_setW ws h.2.1, unrec_setWiths ws h.2.2]
/-- `_parse_select_statement` with a WITH clause already consumed -/
theorem stmt_w (ws : List WithTable) (s : Select) (us : List (String × Select))
    (hs : SRec d ch s) (hus : UnRec d ch us) (rest : List Tok) (hr : stopsQ d rest = true) :
    OkAt (fun f => pSelectStmt d f (some ws) (toksS3 d ch s ++ (toksUn d ch us ++ rest))) (20 * sizeL (toksS3 d ch s ++ toksUn d ch us) + 9)
      (if us.isEmpty then .single (setW ws s) else .union (some ws) s us, rest) := by
  intro f hf'
  simp only [sizeL_append] at hf'
  obtain ⟨g, rfl⟩ : ∃ g, f = g + 2 := ⟨f - 2, by omega⟩
  have h1 : pSingle d (g + 1) ws (toksS3 d ch s ++ (toksUn d ch us ++ rest)) = .ok (setW ws s, toksUn d ch us ++ rest) :=
    single_ws ws hs _ (unions_bd us hus rest hr).1 (g + 1) (by omega)
  have h2 := unions_w ws rest hr us hus [] (g + 1) (by omega)
  simp only [List.nil_append] at h2
  show pSelectStmt d (g + 2) (some ws) _ = _
  unfold pSelectStmt
  simp only [h1, h2, setWiths_setW ws hs, unrec_setWiths ws hus, List.isEmpty_map]
  split <;> rfl
theorem query_ws (hch : ChOK d ch) (ws : List WithTable) (q : Query) (hq : FragQ d q = true) (rest : List Tok) (hr : stopsQ d rest = true) :
    OkAt (fun f => pSelectStmt d f (some ws) (toksQ d ch q ++ rest)) (20 * sizeL (toksQ d ch q) + 9) (setQW ws q, rest) := by
  cases q with
  | single s =>
    simp only [FragQ] at hq
    have := stmt_w ws s [] (srec_of hch s hq) trivial rest hr
    simpa [toksQ, toksUn, setQW] using this
  | union w s us =>
    cases w with
    | none => simp [FragQ] at hq
    | some l =>
      cases l with
      | cons _ _ => simp [FragQ] at hq
      | nil =>
        simp only [FragQ, Bool.and_eq_true, Bool.not_eq_true', Bool.true_and] at hq
        have := stmt_w ws s us (srec_of hch s hq.1.1) (unrec_of hch us hq.1.2) rest hr
        simpa [toksQ, hq.2, setQW] using this

/-! ### a query and its WITH clause -/
theorem toksQ_stripW (q : Query) : toksQ d ch (stripW q) = toksQ d ch q := by
  cases q with
  | single s => obtain ⟨w, dist, cols, fr, lats, js, wh, gb, hv, ob, sb, db, cb, lm⟩ := s; simp only [stripW, setQW, setW, toksQ, toksS3]
  | union w s us => simp only [stripW, setQW, toksQ]
theorem setQW_stripW (q : Query) (ws : List WithTable) (h : withsOf q = some ws) : setQW ws (stripW q) = q := by
  cases q with
  | single s =>
    obtain ⟨w, dist, cols, fr, lats, js, wh, gb, hv, ob, sb, db, cb, lm⟩ := s
    simp only [withsOf] at h; subst h
    rfl
  | union w s us =>
    simp only [withsOf] at h; subst h
    rfl

end TDM
