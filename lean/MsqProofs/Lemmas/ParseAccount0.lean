import MsqModel.Parse.Stmt
/-!
# C08, hand-written part: the cursor primitives consume a prefix of their cursor

`Sfx r ts` — "`r` is what is left of the cursor `ts`": `∃ used, ts = used ++ r`.  A parser function that returns `(v, r)` on the
cursor `ts` with `Sfx r ts` has neither skipped, reordered, duplicated nor invented a token: the tokens it has looked at
are exactly the prefix `used`, and what it hands to its caller is the untouched rest.

`ConsRel ts a` — the run `a` (on the cursor `ts`), if it succeeds with `(v, r)`, has `Sfx r ts`.  Stated as a relation on the
run so that `grind` instantiates it once per call that occurs in the unfolded hypothesis (`grind_pattern … => f … ts`).

Every proof of the generated files has the shape `unfold f at h; split_run <;> grind`: the hypothesis about the
run is split completely first, `grind` never sees a `match` (two modules that let `grind` see the same `match` both emit its
`congr_eq` lemma and cannot be imported together).
-/
set_option linter.unusedSimpArgs false
set_option linter.unusedSectionVars false
set_option linter.unusedVariables false
open Lex
namespace PM

/-- one step of the complete case analysis of a run: `split at h` gives up on the long `if` chains of the statement level
(its `simp` call exceeds the step limit on the structure updates), so a leading `if` is taken apart by this lemma -/
theorem ite_split {α : Type} {c : Prop} [Decidable c] {a b x : α} (h : (if c then a else b) = x) : (c ∧ a = x) ∨ (¬ c ∧ b = x) := by
  by_cases hc : c <;> simp_all
set_option hygiene false in
/-- split the hypothesis `h` about a run completely (every `if`, every `match`) -/
macro "split_run" : tactic =>
  `(tactic| repeat' (first | split at h | (with_reducible have h' := ite_split h); clear h; rcases h' with ⟨hc, h⟩ | ⟨hc, h⟩))

/-- `r` is the rest of the cursor `ts` after a prefix of it has been consumed -/
def Sfx (r ts : List Tok) : Prop := ∃ used, ts = used ++ r

theorem Sfx.refl (ts : List Tok) : Sfx ts ts := ⟨[], rfl⟩
@[grind =] theorem sfx_self (ts : List Tok) : Sfx ts ts = True := by simp [Sfx.refl]
theorem Sfx.trans {a b c : List Tok} (h1 : Sfx a b) (h2 : Sfx b c) : Sfx a c := by
  obtain ⟨u, rfl⟩ := h1; obtain ⟨w, rfl⟩ := h2; exact ⟨w ++ u, by simp⟩
grind_pattern Sfx.trans => Sfx a b, Sfx b c
theorem sfx_cons (t : Tok) (r : List Tok) : Sfx r (t :: r) := ⟨[t], rfl⟩
grind_pattern sfx_cons => t :: r
theorem sfx_drop (n : Nat) (ts : List Tok) : Sfx (ts.drop n) ts := ⟨ts.take n, (List.take_append_drop n ts).symm⟩
grind_pattern sfx_drop => List.drop n ts
theorem Sfx.length_le {r ts : List Tok} (h : Sfx r ts) : r.length ≤ ts.length := by
  obtain ⟨u, rfl⟩ := h; simp
theorem sfx_nil (ts : List Tok) : Sfx [] ts := ⟨ts, by simp⟩
grind_pattern sfx_nil => Sfx [] ts
/-- the consumed prefix, as a function of the two cursors -/
def usedOf (ts r : List Tok) : List Tok := ts.take (ts.length - r.length)
theorem Sfx.eq_used {r ts : List Tok} (h : Sfx r ts) : ts = usedOf ts r ++ r := by
  obtain ⟨u, rfl⟩ := h; simp [usedOf]

/-- a successful run on the cursor `ts` returns a rest of `ts` -/
def ConsRel {α : Type} (ts : List Tok) (a : R α) : Prop := ∀ v r, a = .ok (v, r) → Sfx r ts
@[grind =] theorem consRel_ok {α : Type} (ts : List Tok) (v : α) (r : List Tok) : ConsRel ts (.ok (v, r) : R α) = Sfx r ts := by
  simp [ConsRel]
@[grind =] theorem consRel_error {α : Type} (ts : List Tok) (e : Err) : ConsRel ts (.error e : R α) = True := by simp [ConsRel]
/-- the same for the three functions that return `Option (value × cursor)` -/
def ConsRelO {α : Type} (ts : List Tok) (a : Except Err (Option (α × List Tok))) : Prop := ∀ v r, a = .ok (some (v, r)) → Sfx r ts
@[grind =] theorem consRelO_some {α : Type} (ts : List Tok) (v : α) (r : List Tok) :
    ConsRelO ts (.ok (some (v, r)) : Except Err (Option (α × List Tok))) = Sfx r ts := by simp [ConsRelO]
@[grind =] theorem consRelO_none {α : Type} (ts : List Tok) : ConsRelO ts (.ok none : Except Err (Option (α × List Tok))) = True := by
  simp [ConsRelO]
@[grind =] theorem consRelO_error {α : Type} (ts : List Tok) (e : Err) : ConsRelO ts (.error e : Except Err (Option (α × List Tok))) = True := by
  simp [ConsRelO]

/-- the same for `pFirstDiscard`, whose result IS the rest of its cursor -/
def ConsRelD (ts : List Tok) (a : Except Err (List Tok)) : Prop := ∀ r, a = .ok r → Sfx r ts
@[grind =] theorem consRelD_ok (ts r : List Tok) : ConsRelD ts (.ok r) = Sfx r ts := by simp [ConsRelD]
@[grind =] theorem consRelD_error (ts : List Tok) (e : Err) : ConsRelD ts (.error e) = True := by simp [ConsRelD]

/-! ### `search_and_move*`: the rest is the cursor itself or the cursor without the matched words -/
theorem moveStrUp_sfx (ts : List Tok) (k : String) : Sfx (moveStrUp ts k).2 ts := by
  unfold moveStrUp; split <;> first | exact sfx_drop _ _ | exact Sfx.refl _
grind_pattern moveStrUp_sfx => moveStrUp ts k
theorem moveStr_sfx (ts : List Tok) (k : String) : Sfx (moveStr ts k).2 ts := by
  unfold moveStr; split <;> first | exact sfx_drop _ _ | exact Sfx.refl _
grind_pattern moveStr_sfx => moveStr ts k
theorem moveSetUp_sfx (ts : List Tok) (ks : List String) : Sfx (moveSetUp ts ks).2 ts := by
  unfold moveSetUp; split <;> first | exact sfx_drop _ _ | exact Sfx.refl _
grind_pattern moveSetUp_sfx => moveSetUp ts ks
theorem moveSeq_sfx (ts : List Tok) (ks : List String) : Sfx (moveSeq ts ks).2 ts := by
  unfold moveSeq; split <;> first | exact sfx_drop _ _ | exact Sfx.refl _
grind_pattern moveSeq_sfx => moveSeq ts ks
theorem moveTwoUp_sfx (ts : List Tok) (a b : String) : Sfx (moveTwoUp ts a b).2 ts := by
  unfold moveTwoUp; split <;> first | exact sfx_drop _ _ | exact Sfx.refl _
grind_pattern moveTwoUp_sfx => moveTwoUp ts a b
theorem moveThreeUp_sfx (ts : List Tok) (a b c : String) : Sfx (moveThreeUp ts a b c).2 ts := by
  unfold moveThreeUp; split <;> first | exact sfx_drop _ _ | exact Sfx.refl _
grind_pattern moveThreeUp_sfx => moveThreeUp ts a b c
theorem skipNot_sfx (d : Gen.D) (ts : List Tok) : Sfx (skipNot d ts).2 ts := by
  unfold skipNot; split
  · split <;> simp [sfx_cons, Sfx.refl]
  · simp [Sfx.refl]
grind_pattern skipNot_sfx => skipNot d ts
theorem firstEnum_sfx (tbl : List (String × List String)) (ts : List Tok) (n : String) (r : List Tok)
    (h : firstEnum tbl ts = some (n, r)) : Sfx r ts := by
  induction tbl with
  | nil => simp [firstEnum] at h
  | cons e tbl ih =>
    obtain ⟨m, ks⟩ := e
    simp only [firstEnum] at h
    split at h
    · simp only [Option.some.injEq, Prod.mk.injEq] at h; rw [← h.2]; exact sfx_drop _ _
    · exact ih h
grind_pattern firstEnum_sfx => firstEnum tbl ts, some (n, r)

/-! ### consuming primitives -/
theorem pop_cons (ts : List Tok) : ConsRel ts (pop ts) := by
  intro v r h; cases ts <;> simp [pop] at h; obtain ⟨rfl, rfl⟩ := h; exact sfx_cons _ _
grind_pattern pop_cons => pop ts
theorem popSrc_cons (ts : List Tok) : ConsRel ts (popSrc ts) := by
  intro v r h; cases ts <;> simp [popSrc] at h; obtain ⟨rfl, rfl⟩ := h; exact sfx_cons _ _
grind_pattern popSrc_cons => popSrc ts
theorem popInt_cons (ts : List Tok) : ConsRel ts (popInt ts) := by
  intro v r h
  cases ts with
  | nil => simp [popInt] at h
  | cons t ts =>
    simp only [popInt] at h
    split at h <;> simp at h
    obtain ⟨rfl, rfl⟩ := h; exact sfx_cons _ _
grind_pattern popInt_cons => popInt ts
theorem popAsInt_cons (ts : List Tok) : ConsRel ts (popAsInt ts) := by
  intro v r h
  cases ts with
  | nil => simp [popAsInt] at h
  | cons t ts =>
    simp only [popAsInt] at h
    split at h <;> simp at h
    obtain ⟨rfl, rfl⟩ := h; exact sfx_cons _ _
grind_pattern popAsInt_cons => popAsInt ts
theorem matchKw_cons (ts : List Tok) (k : String) : ConsRel ts (matchKw ts k) := by
  intro v r h
  cases ts with
  | nil => simp [matchKw] at h
  | cons t ts =>
    simp only [matchKw] at h
    split at h <;> simp at h
    subst h; exact sfx_cons _ _
grind_pattern matchKw_cons => matchKw ts k
theorem matchSeq_cons (ts : List Tok) (ks : List String) : ConsRel ts (matchSeq ts ks) := by
  intro v r h
  induction ks generalizing ts with
  | nil => simp [matchSeq] at h; subst h; exact Sfx.refl _
  | cons k ks ih => cases ts with
    | nil => simp [matchSeq] at h
    | cons t ts =>
      simp only [matchSeq] at h
      split at h
      · exact (ih ts h).trans (sfx_cons _ _)
      · simp at h
grind_pattern matchSeq_cons => matchSeq ts ks
theorem popSplit_cons (ts : List Tok) : ConsRel ts (popSplit ts) := by
  intro v r h; cases ts <;> simp [popSplit] at h; obtain ⟨_, rfl⟩ := h; exact sfx_cons _ _
grind_pattern popSplit_cons => popSplit ts
theorem getAliasName_cons (ts : List Tok) : ConsRel ts (getAliasName ts) := by
  intro v r h
  cases ts with
  | nil => simp [getAliasName] at h
  | cons t ts =>
    simp only [getAliasName] at h
    split at h <;> simp at h
    obtain ⟨_, rfl⟩ := h; exact sfx_cons _ _
grind_pattern getAliasName_cons => getAliasName ts

/-! ### the helper functions of `MsqModel/Parse/Expr.lean` outside the mutual block -/
theorem multiAliasLoop_cons : ∀ g acc ts, ConsRel ts (multiAliasLoop g acc ts) := by
  intro g
  induction g with
  | zero => intro acc ts v r h; simp [multiAliasLoop] at h
  | succ g ih =>
    intro acc ts v r h
    unfold multiAliasLoop at h
    split_run <;> grind
grind_pattern multiAliasLoop_cons => multiAliasLoop g acc ts
theorem pMultiAlias_cons (ts : List Tok) : ConsRel ts (pMultiAlias ts) := by
  intro v r h
  unfold pMultiAlias at h
  split_run <;> grind
grind_pattern pMultiAlias_cons => pMultiAlias ts
theorem pFuncName_cons (ts : List Tok) : ConsRel ts (pFuncName ts) := by
  intro v r h
  unfold pFuncName at h
  split_run <;> grind
grind_pattern pFuncName_cons => pFuncName ts
theorem pAlias_cons (ts : List Tok) : ConsRel ts (pAlias ts) := by
  intro v r h
  unfold pAlias at h
  split_run <;> grind
grind_pattern pAlias_cons => pAlias ts
theorem pTableName_cons (ts : List Tok) : ConsRel ts (pTableName ts) := by
  intro v r h
  unfold pTableName at h
  split_run <;> grind
grind_pattern pTableName_cons => pTableName ts
theorem pRowItem_cons (ts : List Tok) : ConsRel ts (pRowItem ts) := by
  intro v r h
  unfold pRowItem at h
  split_run <;> grind
grind_pattern pRowItem_cons => pRowItem ts
theorem pWindowRow_cons (ts : List Tok) : ConsRel ts (pWindowRow ts) := by
  intro v r h
  unfold pWindowRow at h
  split_run <;> grind
grind_pattern pWindowRow_cons => pWindowRow ts
theorem orderTail_cons (e : Ast.Expr) (ts : List Tok) : ConsRel ts (orderTail e ts) := by
  intro v r h
  unfold orderTail at h
  split_run <;> grind
grind_pattern orderTail_cons => orderTail e ts
theorem pLimit_cons (ts : List Tok) : ConsRel ts (pLimit ts) := by
  intro v r h
  unfold pLimit at h
  split_run <;> grind
grind_pattern pLimit_cons => pLimit ts

end PM
