import MsqModel.Parse.Expr
/-!
# C02 — the documented expression grammar as an inductive relation on token lists (`Derives`)

`Derives d L ts e` — "the token list `ts` (all of it) is an expression of precedence level at most `L`, and `e` is the tree the
documented table, left associativity and the brackets of `ts` dictate".  This file is the SPECIFICATION: it is written from the
property text (unary over ^ over * / % DIV MOD over + - over shifts over & over |, then keyword predicates, comparison operators,
NOT, AND, XOR, OR; left associative; a bracket group re-enters at the top level) and does not mention the recursive parser
functions.  The only things taken from the model are lexical: the generated operator tables (`computeOp?`, `compareOp?`,
`Gen.unarySet`, `Gen.notSet`), the token predicates (`Tok.has`, `Tok.srcEqUp`, `Tok.equalsStr`), the splitting of a bracket group at
its commas (`splitBy`), and the non-recursive helpers that build a node from already parsed parts (`callPrep` / `callNode`,
`castTail`, `splitName`).

Levels (the number is the one `PR.lvl` / `EnumComputeOperator.level` use, with one refinement):

      0  element (literal, column, call, CASE, bracket group, sub-query …)
      1  prefix operators of the dialect's unary set, stacked (`- - a`)            } the documented level 2 "unary"
      2  `~` / `!` written BETWEEN two operands (the table gives them level 2)     }   — see `Derives.compute`, DEVIATION 1
      3  ^      4  * / % DIV MOD      5  + -      6  << >>      7  &      8  |
      9  keyword predicates  [NOT] BETWEEN … AND …, IS [NOT], [NOT] IN, [NOT] LIKE / RLIKE / REGEXP, EXISTS
     10  comparison operators      11  NOT      12  AND &&      13  XOR      14  OR ||

Every binary production has the shape `left : L`, `right : L - 1` (left associativity); `Derives.up` makes the levels cumulative.

Places where the relation says what the code does rather than what a SQL grammar would say (each is needed for `parse_derives`):
  DEVIATION 1 (`compute` with k = 2): `~` and `!` are members of `COMPUTE_OPERATOR_HASH` with level 2, so `_parse_compute_expression`
      (parser.py:834-858, the `while` at 837) accepts them as BINARY operators binding tighter than `^`: `a ! b`, `a ~ b ^ c` = `(a ~ b) ^ c`.
  DEVIATION 2 (`column`): `_parse_element_level_expression` (parser.py:773-806, the fall-through at 805) never checks that the token of a column name is a
      NAME: any token that is not a literal, a group, CASE or `*` is a column, reserved words included (`a + AND`).
  DEVIATION 3 (`is_` with a NOT in front): `b NOT IS a` is accepted as `b IS NOT a` (parser.py:902, 923); after such a NOT a second
      NOT behind IS is not a flag any more (`or` short-circuits) but the start of the right operand (`b NOT IS NOT` = `b IS NOT "NOT"`).
  DEVIATION 4 (`inList`): empty segments of an IN list are dropped (`IN (1,,2)` = `IN (1,2)`), `IN ()` is accepted (parser.py:612, 724).
  DEVIATION 5 (`index`): stated for every element although the code only indexes columns and calls (weaker, shorter).
The two OPAQUE leaves `SubQ` (sub-query) and `WinSpec` (window specification) are opened in ParseWNCov*.lean (`subQ_covered`,
`winSpec_covered`: every expression inside them is again derived by this relation from a contiguous token run).
-/
open Lex
namespace WNG
open PM Ast

/-! ### lexical classes of operator tokens -/
def isOr (t : Tok) : Bool := up t.src == "OR" || up t.src == "||"
def isAnd (t : Tok) : Bool := up t.src == "AND" || up t.src == "&&"
def isXor (t : Tok) : Bool := t.srcEqUp "XOR"
/-- the dialect's NOT spellings (`get_not_operator_set`: NOT, and `!` for Hive) -/
def isNot (d : Gen.D) (t : Tok) : Bool := (Gen.notSet d).contains (up t.src)
/-- the dialect's prefix operators (`get_unary_operator_set`: + - ~, and `!` except for Hive) -/
def isUnary (d : Gen.D) (t : Tok) : Bool := (Gen.unarySet d).contains t.src
/-- LIKE / RLIKE / REGEXP -/
def likeKind (k : String) : Option KwKind :=
  if k == "LIKE" then some .like else if k == "RLIKE" then some .rlike else if k == "REGEXP" then some .regexp else none

/-- the optional NOT in front of a keyword predicate: its tokens and the flag -/
inductive NotOpt (d : Gen.D) : List Tok → Bool → Prop
  | no : NotOpt d [] false
  | yes {t : Tok} : isNot d t = true → NotOpt d [t] true

/-- a function name: `name` or `schema . name` (one NAME token with one dot inside is split) -/
inductive FName : List Tok → Option String → String → Prop
  | dotted {a b c : Tok} : a.has NAME = true → b.equalsStr "." = true → c.has NAME = true →
      FName [a, b, c] (some (unifyName a.src)) (unifyName c.src)
  | plain {a : Tok} {s : Option String} {n : String} : a.has NAME = true → splitName a.src = .ok (s, n) → FName [a] s n

/-- OPAQUE: the content of the group `g` is a SELECT statement with the tree `q` (the SELECT grammar is not part of this relation) -/
def SubQ (d : Gen.D) (g : Tok) (q : Query) : Prop := ∃ f, closed (pSelectStmt d f none g.children) = .ok q
/-- OPAQUE: the content `cs` of the group after OVER is a window specification of `fn` with the tree `w` -/
def WinSpec (d : Gen.D) (fn : Expr) (cs : List Tok) (w : Expr) : Prop := ∃ f, pWindowBody d f fn cs = .ok w

mutual
inductive Derives (d : Gen.D) : Nat → List Tok → Expr → Prop
  /-- levels are cumulative -/
  | up {L L' : Nat} {ts : List Tok} {e : Expr} : Derives d L ts e → L ≤ L' → Derives d L' ts e
  /- ---------------------------------------------------------------- 14 … 10: left associative, right operand one level down -/
  | or_ {l r : List Tok} {t : Tok} {a b : Expr} :
      Derives d 14 l a → isOr t = true → Derives d 13 r b → Derives d 14 (l ++ t :: r) (.or_ a b)
  | xor {l r : List Tok} {t : Tok} {a b : Expr} :
      Derives d 13 l a → isXor t = true → Derives d 12 r b → Derives d 13 (l ++ t :: r) (.xor a b)
  | and_ {l r : List Tok} {t : Tok} {a b : Expr} :
      Derives d 12 l a → isAnd t = true → Derives d 11 r b → Derives d 12 (l ++ t :: r) (.and_ a b)
  | not_ {r : List Tok} {t : Tok} {a : Expr} :
      isNot d t = true → Derives d 11 r a → Derives d 11 (t :: r) (.not_ a)
  | compare {l r : List Tok} {t : Tok} {o : String} {a b : Expr} :
      Derives d 10 l a → compareOp? t.src = some o → Derives d 9 r b → Derives d 10 (l ++ t :: r) (.compare o a b)
  /- ---------------------------------------------------------------- 9: keyword predicates (left operand 9: they chain to the left) -/
  | between {l ns u1 u2 : List Tok} {n : Bool} {tb ta : Tok} {b f t : Expr} :
      Derives d 9 l b → NotOpt d ns n → up tb.src = "BETWEEN" → Derives d 8 u1 f → ta.equalsStr "AND" = true → Derives d 8 u2 t →
      Derives d 9 (l ++ ns ++ tb :: u1 ++ ta :: u2) (.between n b f t)
  | is_ {l ns r : List Tok} {n : Bool} {ti : Tok} {b a : Expr} :
      Derives d 9 l b → NotOpt d ns n → up ti.src = "IS" → Derives d 8 r a → Derives d 9 (l ++ ns ++ ti :: r) (.kw .is n b a)
  | isNot_ {l r : List Tok} {ti tn : Tok} {b a : Expr} :
      Derives d 9 l b → up ti.src = "IS" → tn.srcEqUp "NOT" = true → Derives d 8 r a →
      Derives d 9 (l ++ ti :: tn :: r) (.kw .is true b a)
  | like {l ns r : List Tok} {n : Bool} {tk : Tok} {k : KwKind} {b a : Expr} :
      Derives d 9 l b → NotOpt d ns n → likeKind (up tk.src) = some k → Derives d 8 r a →
      Derives d 9 (l ++ ns ++ tk :: r) (.kw k n b a)
  | inList {l ns : List Tok} {n : Bool} {ti g : Tok} {b : Expr} {vs : List Expr} :
      Derives d 9 l b → NotOpt d ns n → up ti.src = "IN" → startsSelect g.children = false →
      Segs d (splitBy "," g.children [] []) vs → Derives d 9 (l ++ ns ++ [ti, g]) (.kw .in_ n b (.subValue vs))
  | inQuery {l ns : List Tok} {n : Bool} {ti g : Tok} {b : Expr} {q : Query} :
      Derives d 9 l b → NotOpt d ns n → up ti.src = "IN" → startsSelect g.children = true → SubQ d g q →
      Derives d 9 (l ++ ns ++ [ti, g]) (.kw .in_ n b (.subQuery q))
  | exists_ {te g : Tok} {q : Query} :
      te.srcEqUp "EXISTS" = true → SubQ d g q → Derives d 9 [te, g] (.exists_ (.subQuery q))
  /- ---------------------------------------------------------------- 8 … 2: the operator table (k = 2: DEVIATION 1) -/
  | compute {l r : List Tok} {t : Tok} {o : String} {k : Nat} {a b : Expr} :
      computeOp? (up t.src) = some (o, k) → Derives d k l a → Derives d (k - 1) r b → Derives d k (l ++ t :: r) (.compute a o b)
  /- ---------------------------------------------------------------- 1: prefix operators -/
  | unary {r : List Tok} {t : Tok} {o : String} {k : Nat} {a : Expr} :
      isUnary d t = true → computeOp? (up t.src) = some (o, k) → Derives d 1 r a → Derives d 1 (t :: r) (.unary o a)
  /- ---------------------------------------------------------------- 0: elements -/
  | literal {t : Tok} : t.has LITERAL = true → Derives d 0 [t] (.literal t.src)
  /-- explicit brackets: the content is an expression of ANY level, the group is an element -/
  | paren {g : Tok} {e : Expr} : g.has LITERAL = false → g.has PAREN = true → startsSelect g.children = false →
      Derives d 14 g.children e → Derives d 0 [g] e
  | subQuery {g : Tok} {q : Query} : g.has LITERAL = false → g.has PAREN = true → startsSelect g.children = true →
      SubQ d g q → Derives d 0 [g] (.subQuery q)
  | caseCond {tc : Tok} {ws ee : List Tok} {cs : List (Expr × Expr)} {el : Option Expr} :
      tc.equalsStr "CASE" = true → Whens d ws cs → ElseEnd d ee el → Derives d 0 (tc :: ws ++ ee) (.caseCond cs el)
  | caseVal {tc : Tok} {u ws ee : List Tok} {v : Expr} {cs : List (Expr × Expr)} {el : Option Expr} :
      tc.equalsStr "CASE" = true → Derives d 14 u v → Whens d ws cs → ElseEnd d ee el →
      Derives d 0 (tc :: u ++ ws ++ ee) (.caseVal v cs el)
  | wildcard {t : Tok} : t.srcEq "*" = true → Derives d 0 [t] (.wildcard none)
  /-- DEVIATION 2: any other single token is a column name -/
  | column {t : Tok} : t.has LITERAL = false → t.has PAREN = false → Derives d 0 [t] (.column none (unifyName t.src))
  | qcolumn {n0 dot n2 : Tok} : dot.srcEq "." = true → n2.has NAME = true →
      Derives d 0 [n0, dot, n2] (.column (some (unifyName n0.src)) (unifyName n2.src))
  | qwildcard {n0 dot st : Tok} : dot.srcEq "." = true → st.srcEq "*" = true →
      Derives d 0 [n0, dot, st] (.wildcard (some (unifyName n0.src)))
  | index {u : List Tok} {t : Tok} {b i : Expr} :
      Derives d 0 u b → t.has ARRAY = true → Derives d 8 t.children i → Derives d 0 (u ++ [t]) (.index b i)
  /-- `f(a, b, …)`: every argument re-enters at the top level (DISTINCT / SUBSTRING … FROM … FOR handled by `callPrep`) -/
  | call {nm : List Tok} {g : Tok} {s : Option String} {n : String} {ps : List Expr} :
      FName nm s n → Args d (callPrep n g).2.2 ps →
      Derives d 0 (nm ++ [g]) (callNode s n (callPrep n g).1 (callPrep n g).2.1 ps)
  | ifCall {nm : List Tok} {g : Tok} {n : String} {ps : List Expr} :
      FName nm none n → up n = "IF" → Args d g.children ps → Derives d 0 (nm ++ [g]) (.func none "IF" ps)
  | cast {nm u tl : List Tok} {g ta : Tok} {n : String} {e c : Expr} :
      FName nm none n → up n = "CAST" → g.children = u ++ ta :: tl → Derives d 8 u e → ta.equalsStr "AS" = true →
      castTail e tl = .ok c → Derives d 0 (nm ++ [g]) c
  | extract {nm u1 u2 : List Tok} {g tf : Tok} {n : String} {a b : Expr} :
      FName nm none n → up n = "EXTRACT" → g.children = u1 ++ tf :: u2 → Derives d 8 u1 a → tf.equalsStr "FROM" = true →
      Derives d 8 u2 b → Derives d 0 (nm ++ [g]) (.extract a b)
  | window {u : List Tok} {tov g : Tok} {fn w : Expr} :
      Derives d 0 u fn → tov.equalsStr "OVER" = true → WinSpec d fn g.children w → Derives d 0 (u ++ [tov, g]) w
/-- `, e , e …` with every `e` of level `L` -/
inductive CommaTail (d : Gen.D) : Nat → List Tok → List Expr → Prop
  | nil {L : Nat} : CommaTail d L [] []
  | cons {L : Nat} {t : Tok} {u rest : List Tok} {e : Expr} {es : List Expr} :
      t.srcEq "," = true → Derives d L u e → CommaTail d L rest es → CommaTail d L (t :: u ++ rest) (e :: es)
/-- the argument list of a call: empty, or top-level expressions separated by commas -/
inductive Args (d : Gen.D) : List Tok → List Expr → Prop
  | nil : Args d [] []
  | cons {u rest : List Tok} {e : Expr} {es : List Expr} : Derives d 14 u e → CommaTail d 14 rest es → Args d (u ++ rest) (e :: es)
/-- `WHEN e THEN e` … -/
inductive Whens (d : Gen.D) : List Tok → List (Expr × Expr) → Prop
  | nil : Whens d [] []
  | cons {tw tt : Tok} {u1 u2 rest : List Tok} {w t : Expr} {cs : List (Expr × Expr)} :
      tw.srcEqUp "WHEN" = true → Derives d 14 u1 w → tt.equalsStr "THEN" = true → Derives d 14 u2 t → Whens d rest cs →
      Whens d (tw :: u1 ++ tt :: u2 ++ rest) ((w, t) :: cs)
/-- `[ELSE e] END` -/
inductive ElseEnd (d : Gen.D) : List Tok → Option Expr → Prop
  | end_ {te : Tok} : te.equalsStr "END" = true → ElseEnd d [te] none
  | else_ {tl te : Tok} {u : List Tok} {e : Expr} :
      tl.srcEqUp "ELSE" = true → Derives d 14 u e → te.equalsStr "END" = true → ElseEnd d (tl :: u ++ [te]) (some e)
/-- the comma-separated segments of an IN list, each of the compute level -/
inductive Segs (d : Gen.D) : List (List Tok) → List Expr → Prop
  | nil : Segs d [] []
  | cons {sg : List Tok} {rest : List (List Tok)} {e : Expr} {es : List Expr} :
      Derives d 8 sg e → Segs d rest es → Segs d (sg :: rest) (e :: es)
end

end WNG
