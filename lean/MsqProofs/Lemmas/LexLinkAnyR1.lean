import MsqProofs.Lemmas.LexLinkAnyR0
/-!
# The lexer link for the remaining statement classes: PARTITION lists, ANALYZE TABLE, SHOW COLUMNS, CREATE TABLE … AS

The members come from the Q2 link (`LL2.good_expr` / `good_query`, instantiated at the kit `plainKit`: no pre-pass character) and from the
link for statements over `FragQ2` (`LL2.Any.good_stmt`).
-/
set_option linter.unusedVariables false
set_option linter.unusedSimpArgs false
namespace LL2.Any
open Lex Spec C05 C06 C09 Ast TP TS LexLink TQ2
open TQ (tblTok unionWords isExists)
open LLD (ps pc ps_cons pc_cons ps_nil pc_nil ps_append pc_append lx_ps lx_pc seg_sp sp q_ps q_pc DW lx_dw dmlWords printableStmt tbl_good
  partStr dw_plain whereStr)
open LD (tailL wordsP flagP bqL parenL PAll)

variable {d : Gen.D}

/-! ## `PARTITION (item, …)` -/

def partTxt (d : Gen.D) (es : List Expr) : List Char := "PARTITION".toList ++ ' ' :: '(' :: (joinLL [',', ' '] (es.map (prE4L d)) ++ [')'])

theorem partPieces_some (es : List Expr) : partPieces d (some es) = [partTxt d es] := rfl

theorem partition_good (es : List Expr) (hf : TDM2.partOK d (some es) = true) (hl : On2 (leafOK2 d) (leavesL4 es)) :
    Pc (partTxt d es) [opTok "PARTITION", TR.partGrp d es] ∧ PR.prPartition d es = .ok (String.ofList (partTxt d es)) := by
  obtain ⟨h1, h2, h3⟩ := part_good (K := plainKit) dw_plain (some es) hf (lv2_plain (by simpa [leavesPart] using hl))
  rw [partPieces_some] at h1 h2 h3
  refine ⟨⟨?_, h2 _ (by simp)⟩, ?_⟩
  · have := h1.lx (by simp)
    exact Lx.congr this (by simp [joinLL]) (by simp [TDM2.toksPart, TR.partGrp])
  · simp only [partStr] at h3
    cases hp : PR.prPartition d es with
    | error e => rw [hp] at h3; cases h3
    | ok x =>
      rw [hp] at h3
      simp only [Except.map, Except.ok.injEq] at h3
      refine congrArg Except.ok (ofList_eq ?_)
      have := congrArg String.toList h3
      have e1 : (" " : String).toList = [' '] := rfl
      simp only [String.toList_append, String.toList_ofList, e1, ps, List.map_cons, List.map_nil, List.flatten_cons, List.flatten_nil,
        List.append_nil] at this
      exact List.append_cancel_right this

/-! ## ANALYZE TABLE -/

def analyzeTailP (fc cm ns : Bool) : List (List Char) :=
  "STATISTICS".toList :: (flagP fc ["FOR", "COLUMNS"] ++ (flagP cm ["CACHE", "METADATA"] ++ flagP ns ["NOSCAN"]))
/-- the Hive rendering (two blanks in front of `COMPUTE`: the partition text carries its own trailing blank), the bare MySQL rendering -/
def analyzeL (d : Gen.D) (t : TableName) (p : Option (List Expr)) (fc cm ns : Bool) : List Char :=
  if d == .HIVE then
    "ANALYZE".toList ++ ' ' :: ("TABLE".toList ++ ' ' :: (tnL t ++ ' ' :: (ps (partPieces d p) ++ ' ' :: ("COMPUTE".toList ++ tailL (analyzeTailP fc cm ns)))))
  else "ANALYZE".toList ++ tailL ["TABLE".toList, tnL t]

theorem pc_computeTail (fc cm ns : Bool) : Pc ("COMPUTE".toList ++ tailL (analyzeTailP fc cm ns))
    (opTok "COMPUTE" :: opTok "STATISTICS" :: (TD.flag fc [opTok "FOR", opTok "COLUMNS"] ++
      (TD.flag cm [opTok "CACHE", opTok "METADATA"] ++ TD.flag ns [opTok "NOSCAN"]))) := by
  have := Pc.tail (pc_w "COMPUTE" (by simp [restWords])) (SegP.cons (pc_w "STATISTICS" (by simp [restWords]))
    (SegP.append (segp_flag fc ["FOR", "COLUMNS"] (by simp [restWords])) (SegP.append (segp_flag cm ["CACHE", "METADATA"] (by simp [restWords]))
      (segp_flag ns ["NOSCAN"] (by simp [restWords])))))
  exact this.congr rfl (by simp)

theorem pc_analyze (t : TableName) (p : Option (List Expr)) (fc cm ns : Bool) (ht : tblLeaf t)
    (hf : if d == .HIVE then TDM2.partOK d p = true else True) (hl : On2 (leafOK2 d) (leavesPart p)) :
    Pc (analyzeL d t p fc cm ns) (TR.toksAnalyze d t p fc cm ns) := by
  delta analyzeL TR.toksAnalyze
  cases hd : (d == Gen.D.HIVE)
  · simp only [Bool.false_eq_true, ↓reduceIte]
    have := Pc.tail (pc_w "ANALYZE" (by simp [restWords])) (SegP.cons (pc_w "TABLE" (by simp [restWords])) (SegP.one (pc_tn t ht).1))
    exact this.congr rfl (by simp)
  · simp only [hd, ↓reduceIte] at hf ⊢
    obtain ⟨h1, h2, _⟩ := part_good (K := plainKit) dw_plain p hf (lv2_plain hl)
    have hc := pc_computeTail fc cm ns
    refine ⟨?_, ?_⟩
    · have := Lx.sep (pc_w "ANALYZE" (by simp [restWords])).lx (Lx.sep (pc_w "TABLE" (by simp [restWords])).lx
        (Lx.sep (pc_tn t ht).1.lx (lx_ps h1 (Lx.blank hc.lx))))
      exact Lx.congr this (by simp) (by simp)
    · have h3 : allP (ps (partPieces d p) ++ ' ' :: ("COMPUTE".toList ++ tailL (analyzeTailP fc cm ns))) = true :=
        q_ps plainKit _ h2 _ (plainKit.pre plainKit.s_sp hc.q)
      exact plainKit.sp (pc_w "ANALYZE" (by simp [restWords])).q (plainKit.sp (pc_w "TABLE" (by simp [restWords])).q
        (plainKit.sp (pc_tn t ht).1.q h3))

theorem pr_analyze (t : TableName) (p : Option (List Expr)) (fc cm ns : Bool) (ht : tblLeaf t) (hd : (d == .HIVE || d == .MYSQL) = true)
    (hf : if d == .HIVE then TDM2.partOK d p = true else True) (hl : On2 (leafOK2 d) (leavesPart p)) :
    PR.prStmt d (.analyze t p fc cm ns) = .ok (String.ofList (analyzeL d t p fc cm ns)) := by
  delta analyzeL
  cases hh : (d == Gen.D.HIVE)
  · have hm : (d == Gen.D.MYSQL) = true := by simpa [hh] using hd
    simp only [PR.prStmt, hh, hm, Bool.false_eq_true, ↓reduceIte, (pc_tn t ht).2]
    refine congrArg Except.ok (ofList_eq ?_)
    have e1 : ("ANALYZE TABLE " : String).toList = "ANALYZE".toList ++ ' ' :: ("TABLE".toList ++ [' ']) := by simp
    simp only [toString, String.toList_append, String.toList_ofList, e1]
    simp
  · simp only [hh, ↓reduceIte] at hf ⊢
    obtain ⟨_, _, h3⟩ := part_good (K := plainKit) dw_plain p hf (lv2_plain hl)
    have fin : ∀ v : String, (s!"ANALYZE TABLE {PR.tn t} {v} COMPUTE STATISTICS{if fc then " FOR COLUMNS" else ""}{if cm then " CACHE METADATA" else ""}{if ns then " NOSCAN" else ""}").toList =
        "ANALYZE".toList ++ ' ' :: ("TABLE".toList ++ ' ' :: (tnL t ++ ' ' :: (v.toList ++ ' ' :: ("COMPUTE".toList ++ tailL (analyzeTailP fc cm ns))))) := by
      intro v
      have e1 : ("ANALYZE TABLE " : String).toList = "ANALYZE".toList ++ ' ' :: ("TABLE".toList ++ [' ']) := by simp
      have e2 : (" COMPUTE STATISTICS" : String).toList = ' ' :: ("COMPUTE".toList ++ ' ' :: "STATISTICS".toList) := by simp
      have e3 : (" " : String).toList = [' '] := rfl
      simp only [toString, String.toList_append, String.toList_ofList, e1, e2, e3, (pc_tn t ht).2,
        LD.ite_toList fc " FOR COLUMNS" ["FOR", "COLUMNS"] (by simp [wordsP]),
        LD.ite_toList cm " CACHE METADATA" ["CACHE", "METADATA"] (by simp [wordsP]),
        LD.ite_toList ns " NOSCAN" ["NOSCAN"] (by simp [wordsP])]
      delta analyzeTailP
      simp only [LD.tailL_cons, LD.tailL_append, List.append_assoc, List.cons_append, List.nil_append, List.append_nil]
    cases p with
    | none =>
      simp only [PR.prStmt, hh, ↓reduceIte, bind, Except.bind, pure, Except.pure]
      refine congrArg Except.ok (ofList_eq ?_)
      rw [fin]
      simp [partPieces]
    | some es =>
      have h3' : Except.map (fun x => x ++ " ") (PR.prPartition d es) = .ok (String.ofList (ps (partPieces d (some es)))) := h3
      simp only [PR.prStmt, hh, ↓reduceIte, h3', bind, Except.bind, pure, Except.pure]
      refine congrArg Except.ok (ofList_eq ?_)
      rw [fin]
      simp

/-! ## SHOW COLUMNS -/

def showColsL (d : Gen.D) (fr : List FromTable) (wh : Option Expr) : List Char :=
  "SHOW".toList ++ ' ' :: ("COLUMNS".toList ++ ' ' :: (("FROM".toList ++ ' ' :: joinLL [',', ' '] (fr.map (table4L d))) ++ pc (opt4LL d "WHERE" wh)))

theorem tables_good (ts : List FromTable) (hf : tablesOK4 d ts = true) (hl : On2 (leafOK2 d) (leavesTables4 ts)) : ∀ t ∈ ts, GT4 d plainKit t :=
  tables_rec (n := szTables ts) QWc.out (fun e _ => good_expr d plainKit QWc.out e) (fun q _ => good_query d plainKit QWc.out q) ts
    (Nat.le_refl _) hf (lv2_plain hl)

theorem show_good (fr : List FromTable) (wh : Option Expr) (hf : TQ2.fromOK4 d (some fr) = true) (hw : TQ2.FragO4 d wh = true)
    (hl : On2 (leafOK2 d) (leavesTables4 fr ++ leavesO4 wh)) :
    Pc (showColsL d fr wh) (TR.toksShowColumns d fr wh) ∧ PR.prStmt d (.showColumns fr wh) = .ok (String.ofList (showColsL d fr wh)) := by
  rw [on2_append] at hl
  cases fr with
  | nil => simp [TQ2.fromOK4] at hf
  | cons t ts =>
    have hall := tables_good (t :: ts) (by simpa [TQ2.fromOK4, TQ2.tablesOK4] using hf) hl.1
    have hwg : ∀ e, wh = some e → GE4 d plainKit e := opt_good wh hw (lv2_plain hl.2)
    have cf := cl_from (K := plainKit) (some (t :: ts)) (by simp) (fun l hl' => by cases hl'; exact hall)
    have cw := cl_where (K := plainKit) wh hwg
    have l1 : (opt4LL d "WHERE" wh).length ≤ 1 := by cases wh <;> simp [opt4LL]
    have hfl : Lx ("FROM".toList ++ ' ' :: joinLL [',', ' '] ((t :: ts).map (table4L d))) (toksFrom4 d noX (some (t :: ts))) := by
      have := cf.seg.lx (by simp [from4LL])
      exact Lx.congr this (by simp [from4LL, joinLL, tablesLL_eq]) rfl
    have hfq : allP ("FROM".toList ++ ' ' :: joinLL [',', ' '] ((t :: ts).map (table4L d))) = true := by
      have := cf.q ("FROM".toList ++ ' ' :: joinLL [',', ' '] (table4L d t :: tables4LL d ts)) (by simp [from4LL])
      rw [tablesLL_eq] at this
      exact this
    refine ⟨⟨?_, ?_⟩, ?_⟩
    · have := Lx.sep (pc_w "SHOW" (by simp [restWords])).lx (Lx.sep (pc_w "COLUMNS" (by simp [restWords])).lx (lx_pc hfl (seg_sp cw.seg l1)))
      delta showColsL TR.toksShowColumns
      exact Lx.congr this (by simp) (by simp)
    · delta showColsL
      exact plainKit.sp (pc_w "SHOW" (by simp [restWords])).q (plainKit.sp (pc_w "COLUMNS" (by simp [restWords])).q
        (q_pc plainKit _ cw.q _ hfq))
    · have fin : ∀ v : String, (s!"SHOW COLUMNS FROM {PR.joinS ", " (((t :: ts).map (table4L d)).map String.ofList)}{v}").toList =
          "SHOW".toList ++ ' ' :: ("COLUMNS".toList ++ ' ' :: (("FROM".toList ++ ' ' :: joinLL [',', ' '] ((t :: ts).map (table4L d))) ++ v.toList)) := by
        intro v
        have e1 : ("SHOW COLUMNS FROM " : String).toList = "SHOW".toList ++ ' ' :: ("COLUMNS".toList ++ ' ' :: ("FROM".toList ++ [' '])) := by simp
        have e3 : (", " : String).toList = [',', ' '] := rfl
        simp only [toString, String.toList_append, String.toList_ofList, toList_joinS, e1, e3, map_map_ofList]
        simp only [List.append_assoc, List.cons_append, List.nil_append]
      delta showColsL
      cases wh with
      | none =>
        simp only [PR.prStmt, pr_fromList (t :: ts) hall, bind, Except.bind, pure, Except.pure]
        refine congrArg Except.ok (ofList_eq ?_)
        rw [fin]
        simp [opt4LL]
      | some e =>
        simp only [PR.prStmt, (hwg e rfl).pr, Except.map, pr_fromList (t :: ts) hall, bind, Except.bind, pure, Except.pure]
        refine congrArg Except.ok (ofList_eq ?_)
        rw [fin]
        simp [toString, String.toList_append, String.toList_ofList, opt4LL, pc]

/-! ## a query as a statement (`TR.toksSel`), CREATE TABLE … AS -/

theorem select_good (q : Query) (h : TR.selOK d q = true) (hl : On2 (leafOK2 d) (leavesStmt (.select q))) :
    Pc (stmtL d (.select q)) (TR.toksSel d q) ∧ PR.prQ d q = .ok (String.ofList (stmtL d (.select q))) := by
  by_cases h1 : TDM2.FragStmt d (.select q) = true
  · have g := good_stmt (K := plainKit) dw_plain (.select q) h1 rfl (lv2_plain hl)
    refine ⟨⟨?_, g.q⟩, g.pr⟩
    have := g.lx
    simp only [TR.toksSel, h1, if_true]
    exact this
  · have h2 : TQ2.FragQ2 d q = true := by simpa [TR.selOK, h1] using h
    have hw := TR.withsOf_fragQ2 q h2
    have e1 : stmtL d (.select q) = prQ2L d q := by simp only [stmtL, hw, withPrefixL, List.nil_append]
    have hl2 : On2 (leafOK2 d) (leavesQ2 q) := by
      have := hl
      simp only [leavesStmt, hw, leavesWiths, leavesWL, List.nil_append] at this
      exact this
    have g := good_query d plainKit QWc.out q h2 (lv2_plain hl2)
    rw [e1]
    refine ⟨⟨?_, g.q⟩, g.pr⟩
    simp only [TR.toksSel, h1, Bool.false_eq_true, if_false]
    exact g.lx

def ctasL (d : Gen.D) (t : TableName) (ine : Bool) (q : Query) : List Char :=
  "CREATE".toList ++ tailL ("TABLE".toList :: (flagP ine ["IF", "NOT", "EXISTS"] ++ [tnL t, "AS".toList, stmtL d (.select q)]))

theorem ctas_good (t : TableName) (ine : Bool) (q : Query) (ht : tblLeaf t) (h : TR.selOK d q = true)
    (hl : On2 (leafOK2 d) (leavesStmt (.select q))) :
    Pc (ctasL d t ine q) (TR.toksCreateAs d t ine q) ∧ PR.prStmt d (.createTableAs t ine q) = .ok (String.ofList (ctasL d t ine q)) := by
  obtain ⟨hq, hp⟩ := select_good q h hl
  refine ⟨?_, ?_⟩
  · have := Pc.tail (pc_w "CREATE" (by simp [restWords])) (SegP.cons (pc_w "TABLE" (by simp [restWords]))
      (SegP.append (segp_flag ine ["IF", "NOT", "EXISTS"] (by simp [restWords])) (SegP.cons (pc_tn t ht).1
        (SegP.cons (pc_w "AS" (by simp [restWords])) (SegP.one hq)))))
    delta ctasL TR.toksCreateAs
    refine this.congr rfl ?_
    cases ine <;> simp [TD.flag]
  · simp only [PR.prStmt, hp, Except.map, (pc_tn t ht).2]
    refine congrArg Except.ok (ofList_eq ?_)
    have e1 : ("CREATE TABLE " : String).toList = "CREATE".toList ++ ' ' :: ("TABLE".toList ++ [' ']) := by simp
    have e2 : ("IF NOT EXISTS " : String).toList = "IF".toList ++ ' ' :: ("NOT".toList ++ ' ' :: ("EXISTS".toList ++ [' '])) := by simp
    have e3 : (" AS " : String).toList = ' ' :: ("AS".toList ++ [' ']) := by simp
    delta ctasL
    cases ine
    · simp only [Bool.false_eq_true, ↓reduceIte, toString, String.toList_append, String.toList_ofList, e1, e3, flagP]
      simp
    · simp only [↓reduceIte, toString, String.toList_append, String.toList_ofList, e1, e2, e3, flagP, wordsP]
      simp

end LL2.Any
