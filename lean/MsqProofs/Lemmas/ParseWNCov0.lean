import MsqProofs.Lemmas.ParseWN
import MsqProofs.Lemmas.ParseAccount
/-!
# C02 at the clause level: every expression CONTAINED in a parsed SELECT is derived by the documented grammar

`Derives` treats a sub-query (and the specification of a window) as an opaque element.  This development opens them: for every
function of the SELECT part of the parser model, every expression that stands at a clause position of the returned structure
(select items, ON conditions and USING calls of joins, LATERAL VIEW calls, WHERE, GROUP BY columns and grouping sets, HAVING,
ORDER / SORT / DISTRIBUTE / CLUSTER BY items, the PARTITION BY / ORDER BY items of a window — recursively through sub-queries in
FROM, WITH tables and set operations: `exprsQ`) is `Cov`ered: derived by `Derives` from a CONTIGUOUS run of tokens of the cursor
(or of the content of a bracket group inside it, at any depth: `Sub`).

It is NOT a SELECT grammar: which clause a token run belongs to is not stated (that is C03's T-parse); it says that whatever
ends up at an expression position was built by the documented expression grammar from consecutive tokens of the input.
-/
set_option linter.unusedVariables false
open Lex
namespace WNG
open PM Ast

/-- `Sub T ts`: `ts` is a contiguous run of tokens of `T`, or of the content of a bracket group of such a run, at any depth -/
inductive Sub (T : List Tok) : List Tok → Prop
  | refl : Sub T T
  | mid {a ts b : List Tok} : Sub T (a ++ ts ++ b) → Sub T ts
  | child {ts : List Tok} {g : Tok} : Sub T ts → g ∈ ts → Sub T g.children

theorem Sub.sfx {T u r : List Tok} (h : Sub T (u ++ r)) : Sub T r := Sub.mid (a := u) (b := []) (by simpa using h)
theorem Sub.pfx {T u r : List Tok} (h : Sub T (u ++ r)) : Sub T u := Sub.mid (a := []) (b := r) (by simpa using h)
theorem Sub.of_cons {T ts r : List Tok} (h : Sub T ts) (hc : ∃ used, ts = used ++ r) : Sub T r := by
  obtain ⟨u, rfl⟩ := hc; exact h.sfx
theorem Sub.drop {T ts : List Tok} (h : Sub T ts) (k : Nat) : Sub T (ts.drop k) :=
  Sub.sfx (u := ts.take k) (by simpa using h)
theorem Sub.head_child {T r : List Tok} {g : Tok} (h : Sub T (g :: r)) : Sub T g.children := h.child (by simp)
theorem Sub.tail {T r : List Tok} {g : Tok} (h : Sub T (g :: r)) : Sub T r := Sub.sfx (u := [g]) h
theorem Sub.trans {T ts us : List Tok} (h1 : Sub T ts) (h2 : Sub ts us) : Sub T us := by
  induction h2 with
  | refl => exact h1
  | mid _ ih => exact ih.mid
  | child _ hm ih => exact ih.child hm

/-- the expression `e` is derived, at some level, from a contiguous run of tokens inside `T` -/
def Cov (d : Gen.D) (T : List Tok) (e : Expr) : Prop := ∃ L us, Sub T us ∧ Derives d L us e
/-- all of them -/
def CovL (d : Gen.D) (T : List Tok) (es : List Expr) : Prop := ∀ e ∈ es, Cov d T e

theorem Cov.lift {d : Gen.D} {T ts : List Tok} {e : Expr} (h : Sub T ts) (hc : Cov d ts e) : Cov d T e := by
  obtain ⟨L, us, hs, hd⟩ := hc; exact ⟨L, us, h.trans hs, hd⟩
theorem CovL.lift {d : Gen.D} {T ts : List Tok} {es : List Expr} (h : Sub T ts) (hc : CovL d ts es) : CovL d T es :=
  fun e he => (hc e he).lift h
theorem CovL.nil {d : Gen.D} {T : List Tok} : CovL d T [] := by intro e he; cases he
theorem CovL.append {d : Gen.D} {T : List Tok} {a b : List Expr} (h1 : CovL d T a) (h2 : CovL d T b) : CovL d T (a ++ b) := by
  intro e he; rcases List.mem_append.mp he with h | h; exact h1 e h; exact h2 e h
theorem CovL.left {d : Gen.D} {T : List Tok} {a b : List Expr} (h : CovL d T (a ++ b)) : CovL d T a :=
  fun e he => h e (List.mem_append_left _ he)
theorem CovL.right {d : Gen.D} {T : List Tok} {a b : List Expr} (h : CovL d T (a ++ b)) : CovL d T b :=
  fun e he => h e (List.mem_append_right _ he)
theorem CovL.single {d : Gen.D} {T : List Tok} {e : Expr} (h : Cov d T e) : CovL d T [e] := by
  intro x hx; simp only [List.mem_cons, List.not_mem_nil, or_false] at hx; subst hx; exact h
theorem CovL.snoc {d : Gen.D} {T : List Tok} {a : List Expr} {e : Expr} (h1 : CovL d T a) (h2 : Cov d T e) : CovL d T (a ++ [e]) :=
  h1.append (.single h2)
theorem CovL.opt {d : Gen.D} {T : List Tok} {e : Expr} (h : Cov d T e) : CovL d T (some e).toList := CovL.single h

/-- what a run of an expression-level function gives -/
theorem cov_of_run {d : Gen.D} {L : Nat} {T ts r : List Tok} {e : Expr} (hs : Sub T ts)
    (h : ∃ u, ts = u ++ r ∧ Derives d L ([] ++ u) e) : Cov d T e := by
  obtain ⟨u, rfl, hd⟩ := h
  exact ⟨L, u, hs.pfx, by simpa using hd⟩

/-! ### the expressions at the clause positions of a query -/
def oiE : OrderItem → Expr | .mk e _ _ _ => e
def latE : Lateral → Expr | .mk _ fn _ _ => fn
def oiEs (o : Option (List OrderItem)) : List Expr := (o.getD []).map oiE
def gbE : GroupBy → List Expr | .mk cols sets _ _ => cols ++ (sets.getD []).flatten
def ogbE : Option GroupBy → List Expr | none => [] | some g => gbE g
def jrE : JoinRule → List Expr | .on e => [e] | .using f => [f]
def ojrE : Option JoinRule → List Expr | none => [] | some j => jrE j

mutual
def exprsQ : Query → List Expr
  | .single s => exprsS s
  | .union w first rest => exprsOW w ++ (exprsS first ++ exprsUs rest)
def exprsS : Select → List Expr
  | .mk w _ cols fr lats js wh gb hv ob sb db cb _ =>
    exprsOW w ++ (cols.map (·.1) ++ (exprsOF fr ++ (lats.map latE ++ (exprsJs js ++ (wh.toList ++ (ogbE gb ++ (hv.toList ++ (oiEs ob ++
      (oiEs sb ++ (db.getD [] ++ cb.getD []))))))))))
def exprsOW : Option (List WithTable) → List Expr
  | none => []
  | some ws => exprsWs ws
def exprsWs : List WithTable → List Expr
  | [] => []
  | w :: ws => exprsW w ++ exprsWs ws
def exprsW : WithTable → List Expr
  | .mk _ q => exprsQ q
def exprsOF : Option (List FromTable) → List Expr
  | none => []
  | some fs => exprsFs fs
def exprsFs : List FromTable → List Expr
  | [] => []
  | f :: fs => exprsF f ++ exprsFs fs
def exprsF : FromTable → List Expr
  | .mk t _ => exprsT t
def exprsT : TableRef → List Expr
  | .table _ _ => []
  | .sub q => exprsQ q
def exprsJs : List Join → List Expr
  | [] => []
  | j :: js => exprsJ j ++ exprsJs js
def exprsJ : Join → List Expr
  | .mk _ t rule => exprsF t ++ ojrE rule
def exprsUs : List (String × Select) → List Expr
  | [] => []
  | (_, s) :: us => exprsS s ++ exprsUs us
end

theorem exprsWs_append (a b : List WithTable) : exprsWs (a ++ b) = exprsWs a ++ exprsWs b := by
  induction a with
  | nil => simp [exprsWs]
  | cons w a ih => simp [exprsWs, ih]
theorem exprsFs_append (a b : List FromTable) : exprsFs (a ++ b) = exprsFs a ++ exprsFs b := by
  induction a with
  | nil => simp [exprsFs]
  | cons w a ih => simp [exprsFs, ih]
theorem exprsJs_append (a b : List Join) : exprsJs (a ++ b) = exprsJs a ++ exprsJs b := by
  induction a with
  | nil => simp [exprsJs]
  | cons w a ih => simp [exprsJs, ih]
theorem exprsUs_append (a b : List (String × Select)) : exprsUs (a ++ b) = exprsUs a ++ exprsUs b := by
  induction a with
  | nil => simp [exprsUs]
  | cons w a ih => obtain ⟨x, s⟩ := w; simp [exprsUs, ih]

end WNG
