import MsqProofs.Lemmas.TParseLift
/-!
# T-parse, the compute layer: the printer's bracketing makes the tree THE precedence tree of its flat rendering (C02)

`tview e` reads a compute-level tree as a tree over OPERANDS (`SR.T Expr`): a child is part of the operator tree exactly when the
printer does not wrap it (`PR.lvl child ≤ bound`, the bound being the node's level on the left and level − 1 on the right) and it
is a compute node; every other child — unary, atom, or wrapped — is an operand leaf.  Then

* `embed_tview`   : the operator tree embeds back to `e`;
* `wn_tview`      : it is WELL NESTED w.r.t. the level table (left child's level ≤, right child's level <) — because of the wrapping rule;
* `render_tview`  : the token rendering of `e` is the flat sequence `operand₀ op₁ operand₁ …` of that tree, every operand rendered
  at bound 2 (unwrapped if unary level, a bracket group otherwise);
* `loop_go'` / `compute_flat` : on such a flat sequence the stack loop of the model computes the abstract `shiftReduce` (explicit fuel);
* `SR.shiftReduce_spec` (uniqueness of the well-nested tree over a flat sequence) closes the circle: `compute_node`.
-/
set_option linter.unusedVariables false
set_option linter.unusedSimpArgs false
open Lex PM Ast SR
namespace TP
variable (d : Gen.D) (ch : Expr → Bool)

/-- the operator token is found again by the parser, with the level of the table, and does not continue an element -/
def OpOK (o : Op) : Prop := computeOp? (up (opTok (cval o.name)).src) = some (o.name, o.level) ∧ stopsE (opTok (cval o.name)) = true
/-- an operand: parses at the unary level in front of anything that does not continue an element -/
def Opd (u : Expr) : Prop := Full d (P2 d) 2 0 (W d ch u 2) u

def renderTail : List (Op × Expr) → List Tok
  | [] => []
  | (o, u) :: xs => opTok (cval o.name) :: (W d ch u 2 ++ renderTail xs)
def renderFlat (p : Expr × List (Op × Expr)) : List Tok := W d ch p.1 2 ++ renderTail d ch p.2

theorem renderTail_append (xs ys : List (Op × Expr)) : renderTail d ch (xs ++ ys) = renderTail d ch xs ++ renderTail d ch ys := by
  induction xs with
  | nil => rfl
  | cons p xs ih => obtain ⟨o, u⟩ := p; simp [renderTail, ih]

theorem stop2_tail (xs : List (Op × Expr)) (hop : ∀ p ∈ xs, OpOK p.1) (rest : List Tok) (hr : stopLE d 8 rest = true) :
    stopLE d 2 (renderTail d ch xs ++ rest) = true := by
  cases xs with
  | nil => simpa [renderTail] using stopLE_mono hr (by omega)
  | cons p xs =>
    obtain ⟨o, u⟩ := p
    have := (hop (o, u) (by simp)).2
    simp [renderTail, stopLE, stopTok, this]

/-- the stack loop of the model computes the abstract shift/reduce on a flat rendering (explicit fuel) -/
theorem loop_go' (xs : List (Op × Expr)) (hop : ∀ p ∈ xs, OpOK p.1) (hx : ∀ p ∈ xs, Opd d ch p.2)
    (rest : List Tok) (hr : stopLE d 8 rest = true) : ∀ (st : List (T Expr × Op)) (top : T Expr),
    OkAt (fun f => pComputeLoop d f (C02.embSt st) (C02.embed top) (renderTail d ch xs ++ rest)) (20 * sizeL (renderTail d ch xs) + 1)
      (C02.embed (go st top xs), rest) := by
  induction xs with
  | nil =>
    intro st top
    simp only [renderTail, List.nil_append, go]
    rw [← C02.collapse_embed]
    exact (computeLoop_stop d _ _ rest hr).mono (by omega)
  | cons p xs ih =>
    obtain ⟨o, u⟩ := p
    intro st top f hf
    obtain ⟨g, rfl⟩ : ∃ g, f = g + 1 := ⟨f - 1, by omega⟩
    have ho := (hop (o, u) (by simp)).1
    have hxu : Opd d ch u := hx (o, u) (by simp)
    have hu : pUnary d g (W d ch u 2 ++ (renderTail d ch xs ++ rest)) = .ok (u, renderTail d ch xs ++ rest) := by
      apply hxu _ (stop2_tail d ch xs (fun p hp => hop p (by simp [hp])) rest hr) g
      simp only [renderTail, sizeL_cons, sizeL_append, size_opTok] at hf
      omega
    have hl := ih (fun p hp => hop p (by simp [hp])) (fun p hp => hx p (by simp [hp]))
      (((SR.reduceWhile o.level st top).2, o) :: (SR.reduceWhile o.level st top).1) (T.leaf u) g (by
        simp only [renderTail, sizeL_cons, sizeL_append, size_opTok] at hf
        omega)
    simp only [renderTail, List.cons_append, List.append_assoc, go]
    unfold pComputeLoop
    simp only [ho, hu, C02.reduceWhile_embed]
    simpa [C02.embSt, C02.embed] using hl

/-- `_parse_compute_expression` on a flat rendering -/
theorem compute_flat (u0 : Expr) (xs : List (Op × Expr)) (h0 : Opd d ch u0) (hop : ∀ p ∈ xs, OpOK p.1) (hx : ∀ p ∈ xs, Opd d ch p.2) :
    Full d (P8 d) 8 2 (renderFlat d ch (u0, xs)) (C02.embed (shiftReduce u0 xs)) := by
  intro rest hr f hf
  obtain ⟨g, rfl⟩ : ∃ g, f = g + 1 := ⟨f - 1, by omega⟩
  simp only [renderFlat, sizeL_append] at hf
  have hu : pUnary d g (W d ch u0 2 ++ (renderTail d ch xs ++ rest)) = .ok (u0, renderTail d ch xs ++ rest) :=
    h0 _ (stop2_tail d ch xs hop rest hr) g (by omega)
  have hl := loop_go' d ch xs hop hx rest hr [] (T.leaf u0) g (by omega)
  show pCompute d (g + 1) (renderFlat d ch (u0, xs) ++ rest) = _
  unfold pCompute
  simp only [renderFlat, List.append_assoc, hu]
  simpa [C02.embSt, C02.embed, shiftReduce] using hl

/-! ### a compute-level tree as a tree over operands -/
def isCompute : Expr → Bool
  | .compute _ _ _ => true
  | _ => false
/-- the child is part of the operator tree: not wrapped (neither by the printer's rule nor redundantly) -/
def inTree (ch : Expr → Bool) (c : Expr) (b : Nat) : Bool := decide (PR.lvl c ≤ b) && !ch c
def tview : Expr → T Expr
  | .compute l o r =>
      .node (if inTree ch l (binLevel o) then tview l else .leaf l) ⟨o, binLevel o⟩ (if inTree ch r (binLevel o - 1) then tview r else .leaf r)
  | e => .leaf e
theorem tview_leaf {e : Expr} (h : isCompute e = false) : tview ch e = .leaf e := by
  cases e <;> simp_all [tview, isCompute]
theorem tview_node (l r : Expr) (o : String) : tview ch (.compute l o r) =
    .node (if inTree ch l (binLevel o) then tview ch l else .leaf l) ⟨o, binLevel o⟩ (if inTree ch r (binLevel o - 1) then tview ch r else .leaf r) := by
  simp [tview]

/-- induction along the compute nodes -/
theorem computeInd {P : Expr → Prop} (hleaf : ∀ e, isCompute e = false → P e) (hnode : ∀ l o r, P l → P r → P (.compute l o r)) :
    ∀ e, P e := by
  have : ∀ n e, sz e ≤ n → P e := by
    intro n
    induction n with
    | zero =>
      intro e he
      cases hc : isCompute e with
      | false => exact hleaf e hc
      | true => cases e <;> simp_all [isCompute, sz]
    | succ n ih =>
      intro e he
      cases hc : isCompute e with
      | false => exact hleaf e hc
      | true =>
        cases e <;> simp [isCompute] at hc
        rename_i l o r
        simp only [sz] at he
        exact hnode l o r (ih l (by omega)) (ih r (by omega))
  exact fun e => this (sz e) e (Nat.le_refl _)

theorem embed_tview : ∀ e, C02.embed (tview ch e) = e := by
  apply computeInd
  · intro e h; rw [tview_leaf ch h]; rfl
  · intro l o r hl hr
    rw [tview_node]
    simp only [C02.embed]
    have h1 : C02.embed (if inTree ch l (binLevel o) then tview ch l else .leaf l) = l := by split <;> simp [hl, C02.embed]
    have h2 : C02.embed (if inTree ch r (binLevel o - 1) then tview ch r else .leaf r) = r := by split <;> simp [hr, C02.embed]
    rw [h1, h2]

theorem rootLevel_tview (e : Expr) (k : Nat) (h : (tview ch e).rootLevel = some k) : k = PR.lvl e := by
  cases hc : isCompute e with
  | false => rw [tview_leaf ch hc] at h; simp [T.rootLevel] at h
  | true =>
    cases e <;> simp [isCompute] at hc
    rename_i l o r
    rw [tview_node] at h
    simp only [T.rootLevel, Option.some.injEq] at h
    rw [lvl_compute]; exact h.symm

theorem frag_compute {l r : Expr} {o : String} (h : Frag d (.compute l o r) = true) :
    binOK d o = true ∧ Frag d l = true ∧ Frag d r = true := by
  simp only [Frag, Bool.and_eq_true] at h; exact ⟨h.1.1, h.1.2, h.2⟩
theorem binOK_parts {o : String} (h : binOK d o = true) :
    3 ≤ binLevel o ∧ binLevel o ≤ 8 ∧ OpOK ⟨o, binLevel o⟩ := by
  simp only [binOK, Bool.and_eq_true, decide_eq_true_eq, beq_iff_eq] at h
  exact ⟨h.1.1.1.1, h.1.1.1.2, h.1.1.2, h.1.2⟩

theorem wn_tview : ∀ e, Frag d e = true → (tview ch e).WN := by
  apply computeInd
  · intro e h _; rw [tview_leaf ch h]; trivial
  · intro l o r hl hr hf
    obtain ⟨hb, fl, fr⟩ := frag_compute d hf
    obtain ⟨h3, _, _⟩ := binOK_parts d hb
    rw [tview_node]
    refine ⟨?_, ?_, ?_, ?_⟩
    · split; exact hl fl; trivial
    · split; exact hr fr; trivial
    · intro k hk
      split at hk
      · rename_i hle
        simp only [inTree, Bool.and_eq_true, decide_eq_true_eq] at hle
        have := rootLevel_tview ch l k hk; simp only; omega
      · simp [T.rootLevel] at hk
    · intro k hk
      split at hk
      · rename_i hle
        simp only [inTree, Bool.and_eq_true, decide_eq_true_eq] at hle
        have := rootLevel_tview ch r k hk; simp only; omega
      · simp [T.rootLevel] at hk

/-- in the fragment a node that is not a compute node has level `≤ 2` (atom, unary) or `≥ 9` (predicates and above) -/
theorem lvl_noncompute {e : Expr} (hf : Frag d e = true) (hc : isCompute e = false) : PR.lvl e ≤ 2 ∨ 9 ≤ PR.lvl e := by
  cases e <;> simp_all [PR.lvl, isCompute, Frag]

theorem flat_tview_node (l r : Expr) (o : String) :
    (tview ch (.compute l o r)).flat =
      (((if inTree ch l (binLevel o) then tview ch l else .leaf l).flat).1,
       ((if inTree ch l (binLevel o) then tview ch l else .leaf l).flat).2 ++
         (⟨o, binLevel o⟩, ((if inTree ch r (binLevel o - 1) then tview ch r else .leaf r).flat).1) ::
         ((if inTree ch r (binLevel o - 1) then tview ch r else .leaf r).flat).2) := by
  rw [tview_node, SR.flat_node]

/-- the rendering of a child at its position is the flat rendering of its part of the operator tree -/
theorem render_child (c : Expr) (b : Nat) (hb : 2 ≤ b) (hb8 : b ≤ 8) (hf : Frag d c = true)
    (ih : renderFlat d ch (tview ch c).flat = if isCompute c then toksE d ch c else W d ch c 2) :
    renderFlat d ch ((if inTree ch c b then tview ch c else .leaf c).flat) = W d ch c b := by
  split
  · rename_i hin
    simp only [inTree, Bool.and_eq_true, decide_eq_true_eq, Bool.not_eq_true'] at hin
    obtain ⟨hle, hch⟩ := hin
    have hnw : ¬(PR.lvl c > b ∨ ch c = true) := by rw [hch]; simp; omega
    rw [ih]
    cases hc : isCompute c with
    | true => simp [W, wrapT, hnw]
    | false =>
      have := lvl_noncompute d hf hc
      have h2 : ¬(PR.lvl c > 2 ∨ ch c = true) := by rw [hch]; simp; omega
      simp [W, wrapT, hnw, h2]
  · rename_i hin
    have hw : PR.lvl c > b ∨ ch c = true := by
      simp only [inTree, Bool.and_eq_true, decide_eq_true_eq, Bool.not_eq_true'] at hin
      cases hch : ch c with
      | true => exact Or.inr rfl
      | false =>
        left
        have hn : ¬ PR.lvl c ≤ b := fun h => by simp [h, hch] at hin
        omega
    have h2 : PR.lvl c > 2 ∨ ch c = true := by rcases hw with h | h; left; omega; right; exact h
    simp [T.flat, renderFlat, renderTail, W, wrapT, hw, h2]

theorem render_tview : ∀ e, Frag d e = true → renderFlat d ch (tview ch e).flat = if isCompute e then toksE d ch e else W d ch e 2 := by
  apply computeInd
  · intro e h _; rw [tview_leaf ch h]; simp [h, T.flat, renderFlat, renderTail]
  · intro l o r hl hr hf
    obtain ⟨hb, fl, fr⟩ := frag_compute d hf
    obtain ⟨h3, h8, _⟩ := binOK_parts d hb
    have cl := render_child d ch l (binLevel o) (by omega) h8 fl (hl fl)
    have cr := render_child d ch r (binLevel o - 1) (by omega) (by omega) fr (hr fr)
    rw [flat_tview_node]
    simp only [isCompute, if_true, toksE, lvl_compute]
    simp only [renderFlat, renderTail_append, renderTail] at cl cr ⊢
    rw [← List.append_assoc, cl, cr]
    rfl

/-- the operands and operators of the flat sequence: in the fragment, operators found again, operands proper sub-terms -/
theorem flat_parts : ∀ e, Frag d e = true →
    (Frag d (tview ch e).flat.1 = true ∧ sz (tview ch e).flat.1 ≤ sz e ∧ (isCompute e = true → sz (tview ch e).flat.1 < sz e)) ∧
    ∀ p ∈ (tview ch e).flat.2, OpOK p.1 ∧ Frag d p.2 = true ∧ sz p.2 < sz e := by
  apply computeInd
  · intro e h hf; rw [tview_leaf ch h]; simp [T.flat, hf, h]
  · intro l o r hl hr hf
    obtain ⟨hb, fl, fr⟩ := frag_compute d hf
    obtain ⟨_, _, hop⟩ := binOK_parts d hb
    rw [flat_tview_node]
    have L : (Frag d ((if inTree ch l (binLevel o) then tview ch l else .leaf l).flat).1 = true ∧
        sz ((if inTree ch l (binLevel o) then tview ch l else .leaf l).flat).1 ≤ sz l) ∧
        ∀ p ∈ ((if inTree ch l (binLevel o) then tview ch l else .leaf l).flat).2, OpOK p.1 ∧ Frag d p.2 = true ∧ sz p.2 < sz l := by
      split
      · exact ⟨⟨(hl fl).1.1, (hl fl).1.2.1⟩, (hl fl).2⟩
      · simp [T.flat, fl]
    have R : (Frag d ((if inTree ch r (binLevel o - 1) then tview ch r else .leaf r).flat).1 = true ∧
        sz ((if inTree ch r (binLevel o - 1) then tview ch r else .leaf r).flat).1 ≤ sz r) ∧
        ∀ p ∈ ((if inTree ch r (binLevel o - 1) then tview ch r else .leaf r).flat).2, OpOK p.1 ∧ Frag d p.2 = true ∧ sz p.2 < sz r := by
      split
      · exact ⟨⟨(hr fr).1.1, (hr fr).1.2.1⟩, (hr fr).2⟩
      · simp [T.flat, fr]
    simp only [sz]
    refine ⟨⟨L.1.1, by omega, fun _ => by omega⟩, ?_⟩
    intro p hp
    simp only [List.mem_append, List.mem_cons] at hp
    rcases hp with hp | rfl | hp
    · obtain ⟨a, b, c⟩ := L.2 p hp; exact ⟨a, b, by omega⟩
    · exact ⟨hop, R.1.1, by have := R.1.2; dsimp only; omega⟩
    · obtain ⟨a, b, c⟩ := R.2 p hp; exact ⟨a, b, by omega⟩

/-- **the compute layer**: a compute node of the fragment whose operands (proper sub-terms) parse at the unary level is returned by
`_parse_compute_expression` from its token rendering -/
theorem compute_node (e : Expr) (hc : isCompute e = true) (hf : Frag d e = true)
    (ih : ∀ u, Frag d u = true → sz u < sz e → Opd d ch u) : Full d (P8 d) 8 2 (toksE d ch e) e := by
  obtain ⟨⟨f0, _, s0⟩, hrest⟩ := flat_parts d ch e hf
  have key := compute_flat d ch (tview ch e).flat.1 (tview ch e).flat.2 (ih _ f0 (s0 hc)) (fun p hp => (hrest p hp).1)
    (fun p hp => ih _ (hrest p hp).2.1 (hrest p hp).2.2)
  have hsr : tview ch e = shiftReduce (tview ch e).flat.1 (tview ch e).flat.2 :=
    (SR.shiftReduce_spec _ _ _).1 ⟨rfl, wn_tview d ch e hf⟩
  rw [← hsr, embed_tview] at key
  have hr := render_tview d ch e hf
  simp only [hc, if_true] at hr
  rw [show ((tview ch e).flat.1, (tview ch e).flat.2) = (tview ch e).flat from rfl, hr] at key
  exact key

end TP
