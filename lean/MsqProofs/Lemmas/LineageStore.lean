import MsqModel.Analyze.LineageFlow
import MsqProofs.Props.C16
/-!
# Lineage: the stores as a pure lookup, and what a lineage object denotes
-/
namespace LineageL
open Ast AN LN Spec Flow

/-- two lists related element by element -/
inductive All2 {α β : Type} (P : α → β → Prop) : List α → List β → Prop
  | nil : All2 P [] []
  | cons {a : α} {b : β} {as : List α} {bs : List β} : P a b → All2 P as bs → All2 P (a :: as) (b :: bs)

/-- what `get_table_lineage` answers, as a function of the two stores and the catalogue: derived tables first, then WITH
tables, then the provider -/
def lookup (cat : Cat) (subq withT : List (String × Lineage)) (t : StdTable) : Option Lineage :=
  match dictGet? subq t.2 with
  | some l => some l
  | none => match dictGet? withT t.2 with
    | some l => some l
    | none => (catLookup cat t).map byCreateTable

/-- two states with the same stores (only the provider's request log may differ) -/
def Same (st st' : St) : Prop := st'.subq = st.subq ∧ st'.withT = st.withT

theorem Same.refl (st : St) : Same st st := ⟨rfl, rfl⟩
theorem Same.trans {a b c : St} (h1 : Same a b) (h2 : Same b c) : Same a c :=
  ⟨h2.1.trans h1.1, h2.2.trans h1.2⟩

/-- `get_table_lineage` is `lookup`; it changes nothing but the request log -/
theorem getTableLineage_lookup (cat : Cat) (t : StdTable) (st : St) :
    match lookup cat st.subq st.withT t with
    | some L => ∃ st', getTableLineage cat t st = .ok (L, st') ∧ Same st st'
    | none => getTableLineage cat t st = .error (.py .KeyError) := by
  unfold lookup getTableLineage
  cases h1 : dictGet? st.subq t.2 with
  | some l => exact ⟨st, rfl, Same.refl st⟩
  | none =>
    cases h2 : dictGet? st.withT t.2 with
    | some l => exact ⟨st, rfl, Same.refl st⟩
    | none =>
      unfold catLookup getStatement
      cases hf : cat.find? (·.1 == PM.unifyName (StdTable.source t)) with
      | none => simp
      | some p =>
        obtain ⟨k, c⟩ := p
        simp only [Option.map_some]
        refine ⟨_, rfl, ?_⟩
        unfold Same
        split <;> simp

/-- a lineage object denotes a relation: same column names in order, and the same sources under every name -/
structure Denotes (L : Lineage) (R : Rel) : Prop where
  names : L.names = R.map (·.1)
  get : ∀ n, dictGet? L.srcOf n = dictGet? R n
  tables : L.tables = relTables R
  std : ∃ cols, L.allStd = .ok cols ∧ cols.map (·.name) = R.map (·.1)

theorem mk_stdOf : ∀ (data : List (SCol × List SrcCol)) (l : Lineage),
    (mkLineage data l).stdOf = data.foldl (fun m p => dictSet m p.1.name p.1) l.stdOf
  | [], l => rfl
  | (c, s) :: r, l => by simp [mkLineage, mk_stdOf r]

theorem stdOf_inv : ∀ (data : List (SCol × List SrcCol)) (d : List (String × SCol)),
    (∀ k v, dictGet? d k = some v → v.name = k) →
    ∀ k v, dictGet? (data.foldl (fun m p => dictSet m p.1.name p.1) d) k = some v → v.name = k
  | [], d, h, k, v, hk => h k v hk
  | (c, s) :: r, d, h, k, v, hk => by
    refine stdOf_inv r (dictSet d c.name c) ?_ k v hk
    intro k' v' h'
    rw [C15.dictGet_dictSet] at h'
    by_cases e : c.name = k'
    · simp [e] at h'; subst h'; exact e
    · have : (c.name == k') = false := by simpa using e
      simp [this] at h'; exact h k' v' h'

theorem stdOf_mem : ∀ (data : List (SCol × List SrcCol)) (d : List (String × SCol)) (k : String),
    (k ∈ data.map (·.1.name) ∨ (dictGet? d k).isSome = true) →
    (dictGet? (data.foldl (fun m p => dictSet m p.1.name p.1) d) k).isSome = true
  | [], d, k, h => by
    rcases h with h | h
    · simp at h
    · exact h
  | (c, s) :: r, d, k, h => by
    refine stdOf_mem r (dictSet d c.name c) k ?_
    rw [C15.dictGet_dictSet]
    by_cases e : c.name = k
    · right; simp [e]
    · have he : (c.name == k) = false := by simpa using e
      rcases h with h | h
      · simp only [List.map_cons, List.mem_cons] at h
        rcases h with h | h
        · exact absurd h.symm e
        · left; exact h
      · right; simpa [he] using h

theorem mapM_std (f : String → Option SCol) : ∀ (ns : List String), (∀ n ∈ ns, ∃ c, f n = some c ∧ c.name = n) →
    ∃ cols, ns.mapM (fun n => match f n with | some c => (.ok c : Except Err SCol) | none => .error (.py .KeyError)) = .ok cols
      ∧ cols.map (·.name) = ns
  | [], _ => ⟨[], rfl, rfl⟩
  | n :: r, h => by
    obtain ⟨c, hc, hn⟩ := h n (by simp)
    obtain ⟨cols, e, hm⟩ := mapM_std f r (fun x hx => h x (by simp [hx]))
    exact ⟨c :: cols, by simp [List.mapM_cons, hc, e, bind, Except.bind, pure, Except.pure], by simp [hn, hm]⟩

/-- the standard columns of a lineage object built from `data`: one per column, with the column's name -/
theorem allStd_mk (data : List (SCol × List SrcCol)) :
    ∃ cols, (mkLineage data Lineage.empty).allStd = .ok cols ∧ cols.map (·.name) = data.map (·.1.name) := by
  have hn : (mkLineage data Lineage.empty).names = data.map (·.1.name) := by rw [C16.mk_names]; simp [Lineage.empty]
  unfold Lineage.allStd
  rw [hn, mk_stdOf]
  refine mapM_std (fun n => dictGet? (data.foldl (fun m p => dictSet m p.1.name p.1) Lineage.empty.stdOf) n) _ ?_
  intro n hnm
  have hsome := stdOf_mem data Lineage.empty.stdOf n (Or.inl hnm)
  cases hg : dictGet? (data.foldl (fun m p => dictSet m p.1.name p.1) Lineage.empty.stdOf) n with
  | none => simp [hg] at hsome
  | some c => exact ⟨c, rfl, stdOf_inv data _ (by simp [Lineage.empty, dictGet?]) n c hg⟩

/-- the upstream tables of a lineage object depend only on the source lists it was built from -/
theorem mk_tables : ∀ (data : List (SCol × List SrcCol)) (l : Lineage),
    (mkLineage data l).tables = tablesOfSrcs (data.map (·.2)) l.tables
  | [], l => rfl
  | (c, s) :: r, l => by simp [mkLineage, mk_tables r, tablesOfSrcs]

theorem go_srcs (c : CreateTable) : ∀ (ds : List DefCol) (i : Nat),
    (byCreateTable.go c ds i).map (·.2) = ds.map (fun d => [(⟨c.table.schema, c.table.name, some d.name⟩ : SrcCol)])
  | [], _ => rfl
  | d :: r, i => by simp [byCreateTable.go, go_srcs c r]

theorem denotes_base (c : CreateTable) : Denotes (byCreateTable c) (baseRel c) :=
  ⟨by rw [C16.byCreate_names]; simp [baseRel], C16.byCreate_srcOf c, by
    unfold byCreateTable relTables
    rw [mk_tables, go_srcs]
    simp [Lineage.empty, baseRel, Function.comp_def], by
    obtain ⟨cols, e, hm⟩ := allStd_mk (byCreateTable.go c c.columns 0)
    refine ⟨cols, e, ?_⟩
    rw [hm]
    have := congrArg (List.map (·.1)) (C16.go_names c c.columns 0)
    simpa [baseRel, List.map_map, Function.comp_def] using this⟩

/-- `d[k] = v` for successive pairs with pairwise distinct keys, none of them in `d`: the pairs are appended -/
theorem foldl_dictSet_fresh {κ ν : Type} [BEq κ] [LawfulBEq κ] :
    ∀ (ps : List (κ × ν)) (d : List (κ × ν)), (ps.map (·.1)).Nodup → (∀ p ∈ ps, ∀ q ∈ d, q.1 ≠ p.1) →
      ps.foldl (fun m p => dictSet m p.1 p.2) d = d ++ ps
  | [], d, _, _ => by simp
  | p :: r, d, hn, hd => by
    have hset : dictSet d p.1 p.2 = d ++ [p] := by
      have : ∀ (d : List (κ × ν)), (∀ q ∈ d, q.1 ≠ p.1) → dictSet d p.1 p.2 = d ++ [p] := by
        intro d
        induction d with
        | nil => intro _; rfl
        | cons q t ih =>
          intro h
          have hq : (q.1 == p.1) = false := by simpa using h q (by simp)
          simp [dictSet, hq, ih (fun x hx => h x (by simp [hx]))]
      exact this d (fun q hq => hd p (by simp) q hq)
    rw [List.foldl_cons, hset]
    have hn' : (r.map (·.1)).Nodup := (List.nodup_cons.mp (by simpa using hn)).2
    have hp : p.1 ∉ r.map (·.1) := (List.nodup_cons.mp (by simpa using hn)).1
    rw [foldl_dictSet_fresh r (d ++ [p]) hn']
    · simp
    · intro x hx q hq
      rcases List.mem_append.mp hq with h | h
      · exact hd x (by simp [hx]) q h
      · have : q = p := by simpa using h
        subst this
        intro e
        exact hp (by rw [e]; exact List.mem_map_of_mem hx)

theorem number_map_name : ∀ (R : Rel) (i : Nat), (C16.number R i).map (fun p => (p.1.name, p.2)) = R
  | [], _ => rfl
  | (n, s) :: r, i => by simp [C16.number, number_map_name r]

/-- the lineage object built from a relation with pairwise distinct column names denotes that relation -/
theorem number_srcs : ∀ (R : Rel) (i : Nat), (C16.number R i).map (·.2) = R.map (·.2)
  | [], _ => rfl
  | (n, s) :: r, i => by simp [C16.number, number_srcs r]

theorem denotes_mk (R : Rel) (i : Nat) (h : (R.map (·.1)).Nodup) : Denotes (mkLineage (C16.number R i) Lineage.empty) R := by
  refine ⟨?_, ?_, by rw [mk_tables, number_srcs]; rfl, by
    obtain ⟨cols, e, hm⟩ := allStd_mk (C16.number R i)
    exact ⟨cols, e, by rw [hm]; exact C16.number_names R i⟩⟩
  · rw [C16.mk_names, C16.number_names]; simp [Lineage.empty]
  · intro n
    rw [C16.mk_srcOf]
    have key : (C16.number R i).foldl (fun m p => dictSet m p.1.name p.2) ([] : List (String × List SrcCol))
        = ((C16.number R i).map (fun p => (p.1.name, p.2))).foldl (fun m p => dictSet m p.1 p.2) [] := by
      rw [List.foldl_map]
    simp only [Lineage.empty]
    rw [key, number_map_name, foldl_dictSet_fresh R [] h (by simp)]
    simp

theorem mk_data : ∀ (data : List (SCol × List SrcCol)) (l : Lineage), (mkLineage data l).data = l.data ++ data
  | [], l => by simp [mkLineage]
  | (c, s) :: r, l => by simp [mkLineage, mk_data r]

/-- a name the relation has is answered -/
theorem dictGet_of_has (R : Rel) (n : String) (h : relHas R n = true) : ∃ s, dictGet? R n = some s := by
  induction R with
  | nil => simp [relHas] at h
  | cons p r ih =>
    unfold dictGet?
    rw [List.find?_cons]
    by_cases hp : p.1 = n
    · simp [hp]
    · have h4 : (p.1 == n) = false := by simpa using hp
      simp only [h4]
      have : relHas r n = true := by
        simp only [relHas, List.map_cons, List.contains_cons, Bool.or_eq_true] at h
        rcases h with h | h
        · exact absurd (by simpa using h : n = p.1).symm hp
        · simpa [relHas] using h
      exact ih this

theorem dictGet_none_of_not_has (R : Rel) (n : String) (h : relHas R n = false) : dictGet? R n = none := by
  induction R with
  | nil => rfl
  | cons p r ih =>
    simp only [relHas, List.map_cons, List.contains_cons, Bool.or_eq_false_iff] at h
    have hp : (p.1 == n) = false := by
      have := h.1
      simp at this ⊢
      exact fun e => this e.symm
    unfold dictGet?
    rw [List.find?_cons]
    simp only [hp]
    exact ih (by simpa [relHas] using h.2)

theorem hasColumn_denotes {L : Lineage} {R : Rel} (h : Denotes L R) (n : String) (hn : (n != "*") = true) :
    L.hasColumn n = relHas R n := by
  have : (n == "*") = false := by simpa using hn
  simp [Lineage.hasColumn, relHas, h.names, this]

end LineageL
