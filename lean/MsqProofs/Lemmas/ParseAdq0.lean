import MsqProofs.Lemmas.ParseAccountStmt
import MsqModel.Parse.Entry
/-!
# Fuel adequacy, hand-written part: the potential of a cursor and what the primitives do to it

The parser model is fuel-indexed: every call inside the 80-function mutual block of `Parse/Expr.lean` — a call of another
function AND every iteration of a loop, which is a recursive call — costs one unit.  The fuel a run needs is therefore the
DEPTH of its call chain.  `adqWL ts` is a potential that bounds it:

* a word weighs `19`;
* a bracket group weighs `19 + (number of its children) + (weight of its children)`.

`19` pays for the longest chain of calls that do not consume a token (15 functions: `pSelectCol → pOr → … → pElement → pNamed →
pWindow → pFuncIdx → pFunc`; every function has a rank `≥ 1` in that order, `ParseAdqDefs.lean`), the extra unit per child
pays for the one place where the same tokens are walked twice (`pSplit`, the list of `IN (…)`, first collects the tokens of a
segment one per call and then parses the segment; likewise the segment loops of `GROUPING SETS`).
`adqWL ts + ts.length ≤ 20 * sizeL ts` (`adqWL_le`), which is how the shipped budget `fuelFor ts = 20 * sizeL ts + 40` comes in.

What this file proves about the cursor primitives and the helper functions outside the block:
* non-strict: a rest of a cursor weighs no more (`Sfx r ts → adqWL r ≤ adqWL ts`; all `Sfx` facts are C08's);
* STRICT consumption: a successful look-ahead followed by `drop`, a successful `match` / `pop`, a successful `move`, the
  children of the head token — the cursor loses at least one token (weight `≥ 19`, length `≥ 1`).  `StrictRel ts a`: the run
  `a` on `ts`, if it succeeds, returns a strictly smaller cursor;
* the helpers never answer `.fuel` (their private loop counters `cs.length + 1` are adequate).
Every `grind` call comes after a complete `split_run` (C08's tactic): `grind` never sees a `match`.
-/
set_option linter.unusedSimpArgs false
set_option linter.unusedVariables false
open Lex
namespace PM

/-! ### the potential -/
mutual
/-- weight of one token -/
def adqW : Tok → Nat
  | .single _ _ => 19
  | .group _ cs _ => 19 + (cs.length + adqWL cs)
/-- weight of a cursor -/
def adqWL : List Tok → Nat
  | [] => 0
  | t :: ts => adqW t + adqWL ts
end

@[simp, grind =] theorem adqWL_nil : adqWL [] = 0 := by simp [adqWL]
@[simp, grind =] theorem adqWL_cons (t : Tok) (ts : List Tok) : adqWL (t :: ts) = adqW t + adqWL ts := by simp [adqWL]
theorem adqWL_append (a b : List Tok) : adqWL (a ++ b) = adqWL a + adqWL b := by
  induction a with
  | nil => simp
  | cons t a ih => simp [ih]; omega
theorem adqW_ge (t : Tok) : 19 ≤ adqW t := by cases t <;> simp [adqW]
grind_pattern adqW_ge => adqW t
/-- descending into a bracket group: the group pays `19` and one unit per child -/
theorem adqW_children (t : Tok) : adqWL t.children + t.children.length + 19 ≤ adqW t := by
  cases t <;> simp [adqW, Tok.children]; omega
grind_pattern adqW_children => Tok.children t

-- the shipped budget is stated in `sizeL`: `fuelFor ts = 20 * sizeL ts + 40`
mutual
theorem adqW_le : ∀ t : Tok, adqW t + 1 ≤ 20 * t.size
  | .single _ _ => by simp [adqW, Tok.size]
  | .group _ cs _ => by have := adqWL_le cs; simp [adqW, Tok.size]; omega
theorem adqWL_le : ∀ ts : List Tok, adqWL ts + ts.length ≤ 20 * sizeL ts
  | [] => by simp [sizeL]
  | t :: ts => by have := adqW_le t; have := adqWL_le ts; simp [sizeL]; omega
end
theorem adqWL_fuelFor (ts : List Tok) : adqWL ts + 40 ≤ fuelFor ts := by
  have := adqWL_le ts; unfold fuelFor; omega

theorem sfx_adqWL {r ts : List Tok} (h : Sfx r ts) : adqWL r ≤ adqWL ts ∧ r.length ≤ ts.length := by
  obtain ⟨u, rfl⟩ := h; simp [adqWL_append]
grind_pattern sfx_adqWL => Sfx r ts

/-- weight of a list of segments: one unit per segment (the loop over the segments) plus their weights -/
def adqWLL : List (List Tok) → Nat
  | [] => 0
  | sg :: rest => adqWL sg + 1 + adqWLL rest
@[simp, grind =] theorem adqWLL_nil : adqWLL [] = 0 := rfl
@[simp, grind =] theorem adqWLL_cons (sg : List Tok) (rest : List (List Tok)) : adqWLL (sg :: rest) = adqWL sg + 1 + adqWLL rest := rfl
theorem adqWLL_append (a b : List (List Tok)) : adqWLL (a ++ b) = adqWLL a + adqWLL b := by
  induction a with
  | nil => simp
  | cons t a ih => simp [ih]; omega
theorem adqWLL_mem {sg : List Tok} {segs : List (List Tok)} (h : sg ∈ segs) : adqWL sg + 1 ≤ adqWLL segs := by
  induction segs with
  | nil => cases h
  | cons s segs ih =>
    rcases List.mem_cons.mp h with rfl | h
    · simp
    · have := ih h; simp; omega

theorem splitBy_adqWLL (sep : String) : ∀ ts cur acc,
    adqWLL (splitBy sep ts cur acc) ≤ adqWLL acc + adqWL cur + adqWL ts + ts.length + 1 := by
  intro ts
  induction ts with
  | nil => intro cur acc; unfold splitBy; split <;> simp [adqWLL_append] <;> (try omega)
  | cons t r ih =>
    intro cur acc
    have ht := adqW_ge t
    unfold splitBy
    split
    · split
      · have := ih [] acc; simp at this ⊢; omega
      · have := ih [] (acc ++ [cur]); simp [adqWLL_append] at this ⊢; omega
    · have := ih (cur ++ [t]) acc; simp [adqWL_append] at this ⊢; omega
/-- the comma-separated segments of the children of a bracket group -/
theorem splitBy_children (sep : String) (t : Tok) : adqWLL (splitBy sep t.children [] []) + 18 ≤ adqW t := by
  have := splitBy_adqWLL sep t.children [] []; have := adqW_children t; simp at *; omega
grind_pattern splitBy_children => splitBy sep (Tok.children t) [] []

/-- `SUBSTRING(x FROM a FOR b)`: replacing words by commas does not add weight -/
theorem substringRewrite_adqWL (u : String) (cs : List Tok) : adqWL (substringRewrite u cs) ≤ adqWL cs := by
  unfold substringRewrite
  split
  · induction cs with
    | nil => simp
    | cons t cs ih =>
      have := adqW_ge t
      simp only [List.map_cons, adqWL_cons]
      split <;> simp [adqW] at * <;> omega
  · exact Nat.le_refl _
theorem callPrep_adqWL (name : String) (g : Tok) : adqWL (callPrep name g).2.2 + 19 ≤ adqW g := by
  have h1 := substringRewrite_adqWL (up name) g.children
  have h2 := adqW_children g
  have h3 := sfx_adqWL (moveStrUp_sfx (substringRewrite (up name) g.children) "DISTINCT")
  unfold callPrep
  dsimp only
  split <;> (try dsimp only) <;> omega
grind_pattern callPrep_adqWL => callPrep name g

/-! ### strict consumption -/

/-- `r` is `ts` without at least its first token -/
def Lost (r ts : List Tok) : Prop := adqWL r + 19 ≤ adqWL ts ∧ r.length + 1 ≤ ts.length
theorem Lost.le {r ts : List Tok} (h : Lost r ts) : adqWL r + 19 ≤ adqWL ts ∧ r.length + 1 ≤ ts.length := h
grind_pattern Lost.le => Lost r ts
theorem lost_cons (t : Tok) (r : List Tok) : Lost r (t :: r) := by
  have := adqW_ge t; constructor <;> simp <;> omega
theorem Lost.sfx {a b c : List Tok} (h1 : Sfx a b) (h2 : Lost b c) : Lost a c := by
  have := sfx_adqWL h1; obtain ⟨h3, h4⟩ := h2; constructor <;> omega
theorem lost_drop (ts : List Tok) (n : Nat) (hn : 1 ≤ n) (hts : ts ≠ []) : Lost (ts.drop n) ts := by
  cases ts with
  | nil => exact absurd rfl hts
  | cons t r =>
    obtain ⟨m, rfl⟩ : ∃ m, n = m + 1 := ⟨n - 1, by omega⟩
    simp only [List.drop_succ_cons]
    exact Lost.sfx (sfx_drop m r) (lost_cons t r)

/-- a successful run on `ts` returns a cursor that lost at least one token -/
def StrictRel {α : Type} (ts : List Tok) (a : R α) : Prop := ∀ v r, a = .ok (v, r) → Lost r ts
@[grind =] theorem strictRel_ok {α : Type} (ts : List Tok) (v : α) (r : List Tok) : StrictRel ts (.ok (v, r) : R α) = Lost r ts := by
  simp [StrictRel]
@[grind =] theorem strictRel_error {α : Type} (ts : List Tok) (e : Err) : StrictRel ts (.error e : R α) = True := by simp [StrictRel]

/-! look-aheads: a successful look-ahead means the cursor is not empty, so the `drop` that follows it is strict -/
theorem searchStr_lost (ts : List Tok) (k : String) (n : Nat) (h : searchStr ts k = true) : Lost (ts.drop (n+1)) ts :=
  lost_drop ts _ (by omega) (by rintro rfl; simp [searchStr] at h)
grind_pattern searchStr_lost => searchStr ts k, List.drop (n+1) ts
theorem searchStrUp_lost (ts : List Tok) (k : String) (n : Nat) (h : searchStrUp ts k = true) : Lost (ts.drop (n+1)) ts :=
  lost_drop ts _ (by omega) (by rintro rfl; simp [searchStrUp] at h)
grind_pattern searchStrUp_lost => searchStrUp ts k, List.drop (n+1) ts
theorem searchMark_lost (ts : List Tok) (m : Nat) (n : Nat) (h : searchMark ts m = true) : Lost (ts.drop (n+1)) ts :=
  lost_drop ts _ (by omega) (by rintro rfl; simp [searchMark] at h)
grind_pattern searchMark_lost => searchMark ts m, List.drop (n+1) ts
theorem searchTwoUp_lost (ts : List Tok) (a b : String) (n : Nat) (h : searchTwoUp ts a b = true) : Lost (ts.drop (n+1)) ts :=
  lost_drop ts _ (by omega) (by rintro rfl; simp [searchTwoUp] at h)
grind_pattern searchTwoUp_lost => searchTwoUp ts a b, List.drop (n+1) ts
theorem searchThreeUp_lost (ts : List Tok) (a b c : String) (n : Nat) (h : searchThreeUp ts a b c = true) : Lost (ts.drop (n+1)) ts :=
  lost_drop ts _ (by omega) (by rintro rfl; simp [searchThreeUp] at h)
grind_pattern searchThreeUp_lost => searchThreeUp ts a b c, List.drop (n+1) ts
theorem searchSeq_lost (ts : List Tok) (k : String) (ks : List String) (n : Nat) (h : searchSeq ts (k :: ks) = true) : Lost (ts.drop (n+1)) ts :=
  lost_drop ts _ (by omega) (by rintro rfl; simp [searchSeq] at h)
grind_pattern searchSeq_lost => searchSeq ts (k :: ks), List.drop (n+1) ts

/-! `search_and_move*`: moved means lost -/
theorem moveStr_lost (ts : List Tok) (k : String) (h : (moveStr ts k).1 = true) : Lost (moveStr ts k).2 ts := by
  unfold moveStr at h ⊢
  by_cases hs : searchStr ts k = true
  · simp only [hs, if_true]; exact searchStr_lost ts k 0 hs
  · simp [hs] at h
grind_pattern moveStr_lost => moveStr ts k
theorem moveStrUp_lost (ts : List Tok) (k : String) (h : (moveStrUp ts k).1 = true) : Lost (moveStrUp ts k).2 ts := by
  unfold moveStrUp at h ⊢
  by_cases hs : searchStrUp ts k = true
  · simp only [hs, if_true]; exact searchStrUp_lost ts k 0 hs
  · simp [hs] at h
grind_pattern moveStrUp_lost => moveStrUp ts k

/-! consuming primitives -/
theorem pop_strict (ts : List Tok) : StrictRel ts (pop ts) := by
  intro v r h; cases ts <;> simp [pop] at h; obtain ⟨rfl, rfl⟩ := h; exact lost_cons _ _
grind_pattern pop_strict => pop ts
theorem popSrc_strict (ts : List Tok) : StrictRel ts (popSrc ts) := by
  intro v r h; cases ts <;> simp [popSrc] at h; obtain ⟨rfl, rfl⟩ := h; exact lost_cons _ _
grind_pattern popSrc_strict => popSrc ts
theorem popInt_strict (ts : List Tok) : StrictRel ts (popInt ts) := by
  intro v r h
  cases ts with
  | nil => simp [popInt] at h
  | cons t ts =>
    simp only [popInt] at h
    split at h <;> simp at h
    obtain ⟨rfl, rfl⟩ := h; exact lost_cons _ _
grind_pattern popInt_strict => popInt ts
theorem popAsInt_strict (ts : List Tok) : StrictRel ts (popAsInt ts) := by
  intro v r h
  cases ts with
  | nil => simp [popAsInt] at h
  | cons t ts =>
    simp only [popAsInt] at h
    split at h <;> simp at h
    obtain ⟨rfl, rfl⟩ := h; exact lost_cons _ _
grind_pattern popAsInt_strict => popAsInt ts
theorem matchKw_strict (ts : List Tok) (k : String) : StrictRel ts (matchKw ts k) := by
  intro v r h
  cases ts with
  | nil => simp [matchKw] at h
  | cons t ts =>
    simp only [matchKw] at h
    split at h <;> simp at h
    subst h; exact lost_cons _ _
grind_pattern matchKw_strict => matchKw ts k
theorem matchSeq_strict (ts : List Tok) (k : String) (ks : List String) : StrictRel ts (matchSeq ts (k :: ks)) := by
  intro v r h
  cases ts with
  | nil => simp [matchSeq] at h
  | cons t ts =>
    simp only [matchSeq] at h
    split at h
    · exact Lost.sfx (matchSeq_cons ts ks v r h) (lost_cons _ _)
    · simp at h
grind_pattern matchSeq_strict => matchSeq ts (k :: ks)
theorem getAliasName_strict (ts : List Tok) : StrictRel ts (getAliasName ts) := by
  intro v r h
  cases ts with
  | nil => simp [getAliasName] at h
  | cons t ts =>
    simp only [getAliasName] at h
    split at h <;> simp at h
    obtain ⟨_, rfl⟩ := h; exact lost_cons _ _
grind_pattern getAliasName_strict => getAliasName ts
theorem popSplit_strict (ts : List Tok) (segs : List (List Tok)) (r : List Tok) (h : popSplit ts = .ok (segs, r)) :
    Lost r ts ∧ adqWLL segs + adqWL r + 18 ≤ adqWL ts := by
  cases ts with
  | nil => simp [popSplit] at h
  | cons g ts =>
    simp [popSplit] at h; obtain ⟨rfl, rfl⟩ := h
    have := splitBy_children "," g
    exact ⟨lost_cons _ _, by simp; omega⟩
grind_pattern popSplit_strict => popSplit ts, Except.ok (segs, r)
theorem headChildren_lost (ts cs : List Tok) (h : headChildren ts = .ok cs) : adqWL cs + cs.length + 19 ≤ adqWL ts := by
  cases ts with
  | nil => simp [headChildren] at h
  | cons t ts =>
    simp [headChildren] at h; subst h
    have := adqW_children t; simp; omega
grind_pattern headChildren_lost => headChildren ts, Except.ok cs
theorem pFuncName_strict (ts : List Tok) : StrictRel ts (pFuncName ts) := by
  intro v r h
  unfold pFuncName at h
  split_run <;> first
    | (cases h; done)
    | (cases h; exact Lost.sfx (sfx_cons _ _) (Lost.sfx (sfx_cons _ _) (lost_cons _ _)))
    | (cases h; exact lost_cons _ _)
grind_pattern pFuncName_strict => pFuncName ts

/-- `for m in Enum: if search_and_move(*m.value)`: strict when no member has an empty word list -/
theorem firstEnum_lost (tbl : List (String × List String)) (hne : tbl.all (fun e => !e.2.isEmpty) = true) (ts : List Tok) (n : String)
    (r : List Tok) (h : firstEnum tbl ts = some (n, r)) : Lost r ts := by
  induction tbl with
  | nil => simp [firstEnum] at h
  | cons e tbl ih =>
    obtain ⟨m, ks⟩ := e
    simp only [List.all_cons, Bool.and_eq_true] at hne
    simp only [firstEnum] at h
    split at h
    · rename_i hs
      simp only [Option.some.injEq, Prod.mk.injEq] at h; rw [← h.2]
      cases ks with
      | nil => simp at hne
      | cons k ks => exact searchSeq_lost ts k ks ks.length hs
    · exact ih hne.2 h
theorem firstEnum_join_lost (ts : List Tok) (n : String) (r : List Tok) (h : firstEnum Gen.joinTypes ts = some (n, r)) : Lost r ts :=
  firstEnum_lost _ (by decide) ts n r h
grind_pattern firstEnum_join_lost => firstEnum Gen.joinTypes ts, some (n, r)
theorem firstEnum_union_lost (ts : List Tok) (n : String) (r : List Tok) (h : firstEnum Gen.unionTypes ts = some (n, r)) : Lost r ts :=
  firstEnum_lost _ (by decide) ts n r h
grind_pattern firstEnum_union_lost => firstEnum Gen.unionTypes ts, some (n, r)

end PM
