import MsqProofs.Lemmas.TDml0
/-!
# Accounting for the renderings of the statement fragment (C08)

`leaves s : List String` — the names and literals STORED in the tree of a statement, in print order (defined on the tree: `lvE` / `lvQ` /
`lvS` … over the mutually recursive expression / query types, `leaves` for statements).

`Acc ts l` — the token list `ts` reads as grammar words and operator spellings (`isKw`: a leaf whose upper-cased source is one of the words
the printers emit, `KWL`) interleaved with exactly the strings `l`, in order: a leaf token contributes its source with the back-quotes
stripped (`name`), its source as it stands (`lit`), or schema and name as `splitName` reads them (`table`); a bracket group contributes
what its children contribute.  Nothing else is allowed: every token of `ts` is a grammar word, a bracket, or the NEXT stored string.

`accE` / `accQ` … : for every fragment expression / query the rendering is accounted for by the stored strings (mutual structural
recursion over the trees, mirroring the printer).  `C08.dml_accounted` (Props/C03D.lean) is the statement level.
-/
set_option linter.unusedVariables false
set_option linter.unusedSimpArgs false
set_option maxHeartbeats 1000000
open Lex PM Ast TP TP2 TS TQ
namespace TDM

/-! ### grammar words -/
def FIXED : List String := ["SELECT", "DISTINCT", "FROM", "AS", "ON", "WHERE", "GROUP", "BY", "HAVING", "ORDER", "DESC", "LIMIT", ",", ".", "*",
  "CASE", "WHEN", "THEN", "ELSE", "END", "EXISTS", "NOT", "AND", "OR", "XOR", "IS", "IN", "LIKE", "RLIKE", "REGEXP", "BETWEEN", "WITH",
  "INSERT", "INTO", "IGNORE", "OVERWRITE", "TABLE", "PARTITION", "VALUES", "UPDATE", "SET", "=", "DELETE", ";", ""]
/-- every word and operator spelling the printers of the fragment emit -/
def KWL : List String := FIXED ++ Gen.joinTypes.flatMap (·.2) ++ Gen.unionTypes.flatMap (·.2) ++ Gen.insertTypes.flatMap (·.2) ++
  Gen.computeEnum.map (·.2.1) ++ Gen.compareEnum.map (fun e => PR.joinS " " e.2)
def KWU : List String := KWL.map up
def isKw : Tok → Bool
  | .single cs _ => KWU.contains (up (String.ofList cs))
  | .group _ _ _ => false
def isSingle : Tok → Bool
  | .single _ _ => true
  | .group _ _ _ => false
theorem isKw_opTok (w : String) : isKw (opTok w) = KWU.contains (up w) := by simp [isKw, opTok, String.ofList_toList]
theorem fixed_kw : FIXED.all (fun w => KWU.contains (up w)) = true := by decide
theorem compute_kw : Gen.computeEnum.all (fun e => KWU.contains (up e.2.1)) = true := by decide
theorem compare_kw : Gen.compareEnum.all (fun e => KWU.contains (up (PR.joinS " " e.2))) = true := by decide
theorem join_kw : Gen.joinTypes.all (fun e => e.2.all (fun k => KWU.contains (up k))) = true := by decide
theorem union_kw : Gen.unionTypes.all (fun e => e.2.all (fun k => KWU.contains (up k))) = true := by decide
theorem insert_kw : Gen.insertTypes.all (fun e => e.2.all (fun k => KWU.contains (up k))) = true := by decide
theorem kw_fixed (w : String) (hw : w ∈ FIXED) : isKw (opTok w) = true := by
  rw [isKw_opTok]; exact List.all_eq_true.1 fixed_kw w hw
theorem kw_cval (o : String) : isKw (opTok (cval o)) = true := by
  unfold cval
  split
  · rename_i e he
    rw [isKw_opTok]; exact List.all_eq_true.1 compute_kw e (List.mem_of_find?_eq_some he)
  · exact kw_fixed "" (by decide)
theorem kw_cmpVal (o : String) : isKw (opTok (cmpVal o)) = true := by
  unfold cmpVal
  split
  · rename_i e he
    rw [isKw_opTok]; exact List.all_eq_true.1 compare_kw e (List.mem_of_find?_eq_some he)
  · exact kw_fixed "" (by decide)
theorem kw_words (tbl : List (String × List String)) (h : tbl.all (fun e => e.2.all (fun k => KWU.contains (up k))) = true) (ty : String) :
    ∀ t ∈ (match tbl.find? (·.1 == ty) with | some e => e.2.map opTok | none => []), isKw t = true := by
  split
  · rename_i e he
    intro t ht
    obtain ⟨k, hk, rfl⟩ := List.mem_map.1 ht
    rw [isKw_opTok]
    exact List.all_eq_true.1 (List.all_eq_true.1 h e (List.mem_of_find?_eq_some he)) k hk
  · intro t ht; simp at ht

/-! ### the accounting relation -/
inductive Acc : List Tok → List String → Prop
  | nil : Acc [] []
  | kw {t : Tok} {ts : List Tok} {l : List String} : isKw t = true → Acc ts l → Acc (t :: ts) l
  | name {t : Tok} {ts : List Tok} {l : List String} : isSingle t = true → Acc ts l → Acc (t :: ts) (unifyName t.src :: l)
  | lit {t : Tok} {ts : List Tok} {l : List String} : isSingle t = true → Acc ts l → Acc (t :: ts) (t.src :: l)
  | table {t : Tok} {ts : List Tok} {l : List String} {s : Option String} {n : String} :
      isSingle t = true → splitName t.src = .ok (s, n) → Acc ts l → Acc (t :: ts) (s.toList ++ n :: l)
  | group {k : GK} {cs : List Tok} {m : Nat} {ts : List Tok} {l1 l2 : List String} : Acc cs l1 → Acc ts l2 → Acc (.group k cs m :: ts) (l1 ++ l2)

theorem Acc.cast {ts : List Tok} {l l' : List String} (h : l = l') (a : Acc ts l) : Acc ts l' := h ▸ a
theorem Acc.app {a b : List Tok} {l1 l2 : List String} (h1 : Acc a l1) (h2 : Acc b l2) : Acc (a ++ b) (l1 ++ l2) := by
  induction h1 with
  | nil => simpa using h2
  | kw hk _ ih => exact Acc.kw hk ih
  | name hs _ ih => exact Acc.name hs ih
  | lit hs _ ih => exact Acc.lit hs ih
  | table hs hn _ ih => exact (Acc.table hs hn ih).cast (by simp)
  | group hc _ ihc ih => exact (Acc.group hc ih).cast (by simp)
theorem Acc.kf (w : String) {ts : List Tok} {l : List String} (h : Acc ts l) (hw : w ∈ FIXED := by decide) : Acc (opTok w :: ts) l :=
  Acc.kw (kw_fixed w hw) h
theorem Acc.kws {ws : List Tok} (hw : ∀ t ∈ ws, isKw t = true) {ts : List Tok} {l : List String} (h : Acc ts l) : Acc (ws ++ ts) l := by
  induction ws with
  | nil => exact h
  | cons t r ih => exact Acc.kw (hw t (by simp)) (ih (fun u hu => hw u (by simp [hu])))
theorem Acc.g {cs ts : List Tok} {l1 l2 : List String} (h1 : Acc cs l1) (h2 : Acc ts l2) : Acc (grp cs :: ts) (l1 ++ l2) := Acc.group h1 h2
theorem Acc.g1 {cs : List Tok} {l : List String} (h : Acc cs l) : Acc [grp cs] l := (Acc.group h Acc.nil).cast (by simp)
theorem Acc.wrap {ts : List Tok} {l : List String} (x : Bool) (e : Expr) (k : Nat) (h : Acc ts l) : Acc (wrapT x e k ts) l := by
  unfold wrapT; split
  · exact h.g1
  · exact h
theorem Acc.nm {t : Tok} {n : String} (hs : isSingle t = true) (hn : unifyName t.src = n) {ts : List Tok} {l : List String} (h : Acc ts l) :
    Acc (t :: ts) (n :: l) := hn ▸ Acc.name hs h
theorem single_nameTok (c : String) : isSingle (nameTok c) = true := rfl
theorem single_opTok (c : String) : isSingle (opTok c) = true := rfl
theorem single_litTok (c : String) : isSingle (litTok c) = true := rfl
theorem single_qTok (c : String) : isSingle (qTok c) = true := by unfold qTok; split <;> rfl
theorem single_tblTok (s : Option String) (n : String) : isSingle (tblTok s n) = true := by cases s <;> rfl
theorem Acc.lt (v : String) {ts : List Tok} {l : List String} (h : Acc ts l) : Acc (litTok v :: ts) (v :: l) :=
  (Acc.lit (single_litTok v) h).cast (by rw [src_litTok])

/-! ### the stored strings, in print order -/
def lvLimit : Option (Int × Option Int) → List String
  | none => []
  | some (n, none) => [toString n]
  | some (n, some m) => [toString m, toString n]
mutual
def lvE : Expr → List String
  | .column none c => [c]
  | .column (some t) c => [t, c]
  | .literal v => [v]
  | .wildcard none => []
  | .wildcard (some t) => [t]
  | .func s n ps => s.toList ++ n :: lvL ps
  | .agg n ps _ => n :: lvL ps
  | .caseCond cs els => lvA cs ++ lvO els
  | .caseVal v cs els => lvE v ++ (lvA cs ++ lvO els)
  | .subValue vs => lvL vs
  | .subQuery q => lvQ q
  | .exists_ v => lvE v
  | .unary _ e => lvE e
  | .compute l _ r => lvE l ++ lvE r
  | .kw _ _ l r => lvE l ++ lvE r
  | .between _ b f t => lvE b ++ (lvE f ++ lvE t)
  | .compare _ l r => lvE l ++ lvE r
  | .not_ e => lvE e
  | .and_ l r => lvE l ++ lvE r
  | .xor l r => lvE l ++ lvE r
  | .or_ l r => lvE l ++ lvE r
  | _ => []
def lvL : List Expr → List String
  | [] => []
  | a :: as => lvE a ++ lvL as
def lvA : List (Expr × Expr) → List String
  | [] => []
  | (w, t) :: r => lvE w ++ (lvE t ++ lvA r)
def lvO : Option Expr → List String
  | none => []
  | some y => lvE y
def lvQ : Query → List String
  | .single s => lvS s
  | .union _ s us => lvS s ++ lvUn us
def lvUn : List (String × Select) → List String
  | [] => []
  | (_, s) :: r => lvS s ++ lvUn r
def lvS : Select → List String
  | .mk _ _ cols fr _ js wh gb hv ob _ _ _ lm =>
      lvCols cols ++ (lvFrom fr ++ (lvJoins js ++ (lvO wh ++ (lvGroup gb ++ (lvO hv ++ (lvOrder ob ++ lvLimit lm))))))
def lvCols : List (Expr × Option String) → List String
  | [] => []
  | (e, a) :: cs => lvE e ++ (a.toList ++ lvCols cs)
def lvRef : TableRef → List String
  | .table s n => s.toList ++ [n]
  | .sub q => lvQ q
def lvTable : FromTable → List String
  | .mk t a => lvRef t ++ a.toList
def lvTables : List FromTable → List String
  | [] => []
  | t :: ts => lvTable t ++ lvTables ts
def lvFrom : Option (List FromTable) → List String
  | some ts => lvTables ts
  | none => []
def lvRule : Option JoinRule → List String
  | some (.on e) => lvE e
  | _ => []
def lvJoin : Join → List String
  | .mk _ t rule => lvTable t ++ lvRule rule
def lvJoins : List Join → List String
  | [] => []
  | j :: js => lvJoin j ++ lvJoins js
def lvGroup : Option GroupBy → List String
  | some (.mk es _ _ _) => lvL es
  | none => []
def lvOrdItem : OrderItem → List String
  | .mk e _ _ _ => lvE e
def lvOrdL : List OrderItem → List String
  | [] => []
  | o :: os => lvOrdItem o ++ lvOrdL os
def lvOrder : Option (List OrderItem) → List String
  | some os => lvOrdL os
  | none => []
end

/-! ### leaves of the small pieces -/
variable {d : Gen.D}
theorem acc_alias (a : Option String) (h : optAliasOK a = true) {ts : List Tok} {l : List String} (hts : Acc ts l) :
    Acc (aliasToks a ++ ts) (a.toList ++ l) := by
  cases a with
  | none => simpa [aliasToks] using hts
  | some a =>
    simp only [optAliasOK, aliasOK, Bool.and_eq_true, beq_iff_eq] at h
    simpa [aliasToks] using Acc.kf "AS" (Acc.nm (single_opTok a) h.1.2 hts)
theorem acc_tbl (s : Option String) (n : String) (h : tblOK s n = true) {ts : List Tok} {l : List String} (hts : Acc ts l) :
    Acc (tblTok s n :: ts) (s.toList ++ n :: l) := by
  simp only [tblOK, Bool.and_eq_true] at h
  exact Acc.table (single_tblTok s n) (isOkPair_eq h.1.2) hts
theorem acc_limit (lm : Option (Int × Option Int)) : Acc (toksLimit lm) (lvLimit lm) := by
  cases lm with
  | none => exact Acc.nil
  | some p =>
    obtain ⟨n, o⟩ := p
    cases o with
    | none => exact Acc.kf "LIMIT" (Acc.lt _ Acc.nil)
    | some m => exact Acc.kf "LIMIT" (Acc.lt _ (Acc.kf "," (Acc.lt _ Acc.nil)))
theorem acc_kwToks (k : KwKind) (n : Bool) : ∀ t ∈ kwToks k n, isKw t = true := by
  intro t ht
  cases k <;> cases n <;> simp [kwToks] at ht <;> (try rcases ht with rfl | rfl) <;> (try subst ht) <;> exact kw_fixed _ (by decide)
theorem nmOK_name {t : Tok} {n : String} (h : nmOK d t n = true) : unifyName t.src = n := by
  simp only [nmOK, Bool.and_eq_true, beq_iff_eq] at h
  exact h.1.1.2
theorem nm2OK_name {t : Tok} {n : String} (h : nm2OK t n = true) : unifyName t.src = n := by
  simp only [nm2OK, Bool.and_eq_true, beq_iff_eq] at h
  exact h.1.2

/-! ### the mutual accounting theorem (mirrors the printer `toksE3` … `toksOrder3`) -/
mutual
theorem accE : ∀ (e : Expr), FragE3 d e = true → Acc (toksE3 d noX e) (lvE e)
  | e, h => by
    cases e with
    | column t c =>
      cases t with
      | none =>
        simp only [FragE3, colOK, Bool.and_eq_true, beq_iff_eq] at h
        simp only [toksE3, lvE]
        exact Acc.nm (single_nameTok c) h.2 Acc.nil
      | some t =>
        simp only [FragE3, qcolOK, Bool.and_eq_true] at h
        simp only [toksE3, lvE]
        exact Acc.nm (single_nameTok t) (nmOK_name h.1) (Acc.kf "." (Acc.nm (single_nameTok c) (nm2OK_name h.2) Acc.nil))
    | literal v => simp only [toksE3, lvE]; exact Acc.lt v Acc.nil
    | wildcard t =>
      cases t with
      | none => simp only [toksE3, lvE]; exact Acc.kf "*" Acc.nil
      | some t =>
        simp only [FragE3, wildOK] at h
        simp only [toksE3, lvE]
        exact Acc.nm (single_qTok t) (nmOK_name h) (Acc.kf "." (Acc.kf "*" Acc.nil))
    | func s n ps =>
      have hps := accArgs 14 ps (by simp only [FragE3, Bool.and_eq_true] at h; exact h.2)
      cases s with
      | none =>
        simp only [FragE3, fnOK, Bool.and_eq_true] at h
        simp only [toksE3, lvE]
        exact (Acc.nm (single_qTok n) (nmOK_name h.1.2.1) hps.g1).cast (by simp)
      | some s =>
        simp only [FragE3, fnOK, Bool.and_eq_true] at h
        simp only [toksE3, lvE]
        exact (Acc.nm (single_nameTok s) (nmOK_name h.1.2.1) (Acc.kf "." (Acc.nm (single_qTok n) (nm2OK_name h.1.2.2) hps.g1))).cast (by simp)
    | agg n ps dist =>
      simp only [FragE3, aggOK, Bool.and_eq_true] at h
      have hps := accArgs 14 ps h.2
      simp only [toksE3, lvE]
      refine Acc.nm (single_opTok n) (nmOK_name h.1.1.2) (Acc.g1 ?_)
      cases dist
      · simpa using hps
      · simpa using Acc.kf "DISTINCT" hps
    | caseCond cs els =>
      simp only [FragE3, Bool.and_eq_true] at h
      simp only [toksE3, lvE]
      exact (Acc.kf "CASE" (Acc.app (accArms cs h.1.1) (Acc.app (accElse els h.1.2) (Acc.kf "END" Acc.nil)))).cast (by simp)
    | caseVal v cs els =>
      simp only [FragE3, Bool.and_eq_true] at h
      simp only [toksE3, lvE]
      exact (Acc.kf "CASE" (Acc.app ((accE v h.1.1.1).wrap _ _ _) (Acc.app (accArms cs h.1.1.2) (Acc.app (accElse els h.1.2) (Acc.kf "END" Acc.nil))))).cast (by simp)
    | subQuery q =>
      simp only [FragE3] at h
      simp only [toksE3, lvE]
      exact (accQ q h).g1
    | exists_ v =>
      cases v with
      | subQuery q =>
        simp only [FragE3, isSubQ] at h
        simp only [toksE3, lvE]
        exact Acc.kf "EXISTS" (accQ q h).g1
      | _ => simp [FragE3, isSubQ] at h
    | unary o e =>
      simp only [FragE3, Bool.and_eq_true] at h
      simp only [toksE3, lvE]
      exact Acc.kw (kw_cval o) ((accE e h.2).wrap _ _ _)
    | compute l o r =>
      simp only [FragE3, Bool.and_eq_true] at h
      simp only [toksE3, lvE]
      exact Acc.app ((accE l h.1.2).wrap _ _ _) (Acc.kw (kw_cval o) ((accE r h.2).wrap _ _ _))
    | kw k n l r =>
      simp only [FragE3, Bool.and_eq_true] at h
      simp only [toksE3, lvE]
      refine Acc.app ((accE l h.1.1).wrap _ _ _) (Acc.kws (acc_kwToks k n) (Acc.wrap _ _ _ ?_))
      by_cases hk : (k == KwKind.in_) = true
      · have h2 := h.1.2
        simp only [hk, if_true] at h2
        cases r with
        | subValue vs =>
          simp only [inRhs3, Bool.and_eq_true] at h2
          simp only [toksE3, lvE]
          exact (accArgs 8 vs h2.1.1).g1
        | subQuery q =>
          simp only [inRhs3] at h2
          simp only [toksE3, lvE]
          exact (accQ q h2).g1
        | _ => simp [inRhs3] at h2
      · have h2 := h.1.2
        simp only [hk, if_false] at h2
        exact accE r h2
    | between n b f t =>
      simp only [FragE3, Bool.and_eq_true] at h
      simp only [toksE3, lvE]
      refine Acc.app ((accE b h.1.1.1).wrap _ _ _) ?_
      have core := Acc.kf "BETWEEN" (Acc.app ((accE f h.1.1.2).wrap (noX f) f 8) (Acc.kf "AND" ((accE t h.1.2).wrap (noX t) t 8)))
      cases n
      · simpa using core
      · simpa using Acc.kf "NOT" core
    | compare o l r =>
      simp only [FragE3, Bool.and_eq_true] at h
      simp only [toksE3, lvE]
      exact Acc.app ((accE l h.1.1.2).wrap _ _ _) (Acc.kw (kw_cmpVal o) ((accE r h.1.2).wrap _ _ _))
    | not_ e =>
      simp only [FragE3] at h
      simp only [toksE3, lvE]
      exact Acc.kf "NOT" ((accE e h).wrap _ _ _)
    | and_ l r =>
      simp only [FragE3, Bool.and_eq_true] at h
      simp only [toksE3, lvE]
      exact Acc.app ((accE l h.1).wrap _ _ _) (Acc.kf "AND" ((accE r h.2).wrap _ _ _))
    | xor l r =>
      simp only [FragE3, Bool.and_eq_true] at h
      simp only [toksE3, lvE]
      exact Acc.app ((accE l h.1).wrap _ _ _) (Acc.kf "XOR" ((accE r h.2).wrap _ _ _))
    | or_ l r =>
      simp only [FragE3, Bool.and_eq_true] at h
      simp only [toksE3, lvE]
      exact Acc.app ((accE l h.1).wrap _ _ _) (Acc.kf "OR" ((accE r h.2).wrap _ _ _))
    | _ => simp [FragE3] at h
theorem accArgs : ∀ (k : Nat) (es : List Expr), FragL3 d es = true → Acc (toksArgs3 d noX k es) (lvL es)
  | k, es, h => by
    cases es with
    | nil => simp only [toksArgs3, lvL]; exact Acc.nil
    | cons a as =>
      simp only [FragL3, Bool.and_eq_true] at h
      simp only [toksArgs3, lvL]
      exact Acc.app ((accE a h.1).wrap _ _ _) (accArgsTail k as h.2)
theorem accArgsTail : ∀ (k : Nat) (es : List Expr), FragL3 d es = true → Acc (toksArgsTail3 d noX k es) (lvL es)
  | k, es, h => by
    cases es with
    | nil => simp only [toksArgsTail3, lvL]; exact Acc.nil
    | cons a as =>
      simp only [FragL3, Bool.and_eq_true] at h
      simp only [toksArgsTail3, lvL]
      exact Acc.kf "," (Acc.app ((accE a h.1).wrap _ _ _) (accArgsTail k as h.2))
theorem accArms : ∀ (cs : List (Expr × Expr)), FragA3 d cs = true → Acc (toksArms3 d noX cs) (lvA cs)
  | cs, h => by
    cases cs with
    | nil => simp only [toksArms3, lvA]; exact Acc.nil
    | cons p r =>
      obtain ⟨w, t⟩ := p
      simp only [FragA3, Bool.and_eq_true] at h
      simp only [toksArms3, lvA]
      exact Acc.kf "WHEN" (Acc.app ((accE w h.1.1).wrap _ _ _) (Acc.kf "THEN" (Acc.app ((accE t h.1.2).wrap _ _ _) (accArms r h.2))))
theorem accElse : ∀ (o : Option Expr), FragO3 d o = true → Acc (toksElse3 d noX o) (lvO o)
  | o, h => by
    cases o with
    | none => simp only [toksElse3, lvO]; exact Acc.nil
    | some y =>
      simp only [FragO3] at h
      simp only [toksElse3, lvO]
      exact Acc.kf "ELSE" ((accE y h).wrap _ _ _)
theorem accQ : ∀ (q : Query), FragQ d q = true → Acc (toksQ d noX q) (lvQ q)
  | q, h => by
    cases q with
    | single s => simp only [FragQ] at h; simp only [toksQ, lvQ]; exact accS s h
    | union ws s us =>
      simp only [FragQ, Bool.and_eq_true] at h
      simp only [toksQ, lvQ]
      exact Acc.app (accS s h.1.1.2) (accUn us h.1.2)
theorem accUn : ∀ (us : List (String × Select)), FragUn d us = true → Acc (toksUn d noX us) (lvUn us)
  | us, h => by
    cases us with
    | nil => simp only [toksUn, lvUn]; exact Acc.nil
    | cons p r =>
      obtain ⟨t, s⟩ := p
      simp only [FragUn, Bool.and_eq_true] at h
      simp only [toksUn, lvUn]
      exact Acc.kws (kw_words Gen.unionTypes union_kw t) (Acc.app (accS s h.1.2) (accUn r h.2))
theorem accS : ∀ (s : Select), FragS3 d s = true → Acc (toksS3 d noX s) (lvS s)
  | s, h => by
    obtain ⟨w, dist, cols, fr, lats, js, wh, gb, hv, ob, sb, db, cb, lm⟩ := s
    cases w with
    | none => simp [FragS3] at h
    | some w =>
    cases w with
    | cons _ _ => simp [FragS3] at h
    | nil =>
    cases lats with
    | cons _ _ => simp [FragS3] at h
    | nil =>
    cases sb with
    | some _ => simp [FragS3] at h
    | none =>
    cases db with
    | some _ => simp [FragS3] at h
    | none =>
    cases cb with
    | some _ => simp [FragS3] at h
    | none =>
      simp only [FragS3, Bool.and_eq_true] at h
      obtain ⟨⟨⟨⟨⟨⟨⟨⟨⟨h1, _⟩, h3⟩, h4⟩, h5⟩, h6⟩, h7⟩, h8⟩, h9⟩, _⟩ := h
      simp only [toksS3, lvS]
      have body := Acc.app (accCols cols h1) (Acc.app (accFrom fr h3) (Acc.app (accJoins js h4) (Acc.app (accOptE "WHERE" (by decide) wh h5)
        (Acc.app (accGroup gb h6) (Acc.app (accOptE "HAVING" (by decide) hv h7) (Acc.app (accOrder ob h8) (acc_limit lm)))))))
      cases dist
      · simpa using Acc.kf "SELECT" body
      · simpa using Acc.kf "SELECT" (Acc.kf "DISTINCT" body)
theorem accCols : ∀ (cs : List (Expr × Option String)), colsOK3 d cs = true → Acc (toksCols3 d noX cs) (lvCols cs)
  | cs, h => by
    cases cs with
    | nil => simp only [toksCols3, lvCols]; exact Acc.nil
    | cons p r =>
      obtain ⟨e, a⟩ := p
      simp only [colsOK3, Bool.and_eq_true] at h
      simp only [toksCols3, lvCols, List.append_assoc]
      exact Acc.app (accE e h.1.1) (acc_alias a h.1.2 (accColsTail r h.2))
theorem accColsTail : ∀ (cs : List (Expr × Option String)), colsOK3 d cs = true → Acc (toksColsTail3 d noX cs) (lvCols cs)
  | cs, h => by
    cases cs with
    | nil => simp only [toksColsTail3, lvCols]; exact Acc.nil
    | cons p r =>
      obtain ⟨e, a⟩ := p
      simp only [colsOK3, Bool.and_eq_true] at h
      simp only [toksColsTail3, lvCols, List.append_assoc]
      exact Acc.kf "," (Acc.app (accE e h.1.1) (acc_alias a h.1.2 (accColsTail r h.2)))
theorem accTable : ∀ (t : FromTable), tableOK3 d t = true → ∀ (ts : List Tok) (l : List String), Acc ts l → Acc (toksTable3 d noX t ++ ts) (lvTable t ++ l)
  | t, h, ts, l, hts => by
    obtain ⟨r, a⟩ := t
    simp only [tableOK3, Bool.and_eq_true] at h
    cases r with
    | table s n =>
      simp only [refOK3] at h
      simp only [toksTable3, toksRef3, lvTable, lvRef]
      exact (acc_tbl s n h.1 (acc_alias a h.2 hts)).cast (by simp)
    | sub q =>
      simp only [refOK3] at h
      simp only [toksTable3, toksRef3, lvTable, lvRef]
      exact (Acc.g (accQ q h.1) (acc_alias a h.2 hts)).cast (by simp)
theorem accTablesTail : ∀ (ts : List FromTable), tablesOK3 d ts = true → Acc (toksTablesTail3 d noX ts) (lvTables ts)
  | ts, h => by
    cases ts with
    | nil => simp only [toksTablesTail3, lvTables]; exact Acc.nil
    | cons t r =>
      simp only [tablesOK3, Bool.and_eq_true] at h
      simp only [toksTablesTail3, lvTables]
      exact Acc.kf "," (accTable t h.1 _ _ (accTablesTail r h.2))
theorem accFrom : ∀ (fr : Option (List FromTable)), fromOK3 d fr = true → Acc (toksFrom3 d noX fr) (lvFrom fr)
  | fr, h => by
    cases fr with
    | none => simp only [toksFrom3, lvFrom]; exact Acc.nil
    | some l =>
      cases l with
      | nil => simp [fromOK3] at h
      | cons t r =>
        simp only [fromOK3, Bool.and_eq_true] at h
        simp only [toksFrom3, lvFrom, lvTables]
        exact Acc.kf "FROM" (accTable t h.1 _ _ (accTablesTail r h.2))
theorem accJoins : ∀ (js : List Join), joinsOK3 d js = true → Acc (toksJoins3 d noX js) (lvJoins js)
  | js, h => by
    cases js with
    | nil => simp only [toksJoins3, lvJoins]; exact Acc.nil
    | cons j r =>
      obtain ⟨ty, t, rule⟩ := j
      simp only [joinsOK3, joinOK3, Bool.and_eq_true] at h
      simp only [toksJoins3, toksJoin3, lvJoins, lvJoin, List.append_assoc]
      refine Acc.kws (kw_words Gen.joinTypes join_kw ty) (accTable t h.1.1.2 _ _ ?_)
      cases rule with
      | none => simp only [toksRule3, lvRule]; simpa using accJoins r h.2
      | some ru =>
        cases ru with
        | on e =>
          simp only [ruleOK3] at h
          simp only [toksRule3, lvRule, List.cons_append]
          exact Acc.kf "ON" (Acc.app (accE e h.1.2) (accJoins r h.2))
        | «using» u => simp [ruleOK3] at h
theorem accOptE : ∀ (kw : String) (hkw : kw ∈ FIXED) (o : Option Expr), FragO3 d o = true → Acc (toksOptE3 d noX kw o) (lvO o)
  | kw, hkw, o, h => by
    cases o with
    | none => simp only [toksOptE3, lvO]; exact Acc.nil
    | some e =>
      simp only [FragO3] at h
      simp only [toksOptE3, lvO]
      exact Acc.kf kw (accE e h) hkw
theorem accGroup : ∀ (gb : Option GroupBy), groupOK3 d gb = true → Acc (toksGroup3 d noX gb) (lvGroup gb)
  | gb, h => by
    cases gb with
    | none => simp only [toksGroup3, lvGroup]; exact Acc.nil
    | some g =>
      obtain ⟨cols, sets, cube, rollup⟩ := g
      cases cols with
      | nil => simp [groupOK3] at h
      | cons e es =>
        cases sets with
        | some l => simp [groupOK3] at h
        | none =>
          cases cube with
          | true => simp [groupOK3] at h
          | false =>
            cases rollup with
            | true => simp [groupOK3] at h
            | false =>
              simp only [groupOK3, Bool.and_eq_true] at h
              simp only [toksGroup3, lvGroup, lvL]
              exact Acc.kf "GROUP" (Acc.kf "BY" (Acc.app ((accE e h.1.1).wrap _ _ _) (accArgsTail 8 es h.1.2)))
theorem accOrdItem : ∀ (o : OrderItem), ordItemOK3 d o = true → ∀ (ts : List Tok) (l : List String), Acc ts l → Acc (toksOrdItem3 d noX o ++ ts) (lvOrdItem o ++ l)
  | o, h, ts, l, hts => by
    obtain ⟨e, desc, nf, nl⟩ := o
    simp only [ordItemOK3, Bool.and_eq_true] at h
    simp only [toksOrdItem3, lvOrdItem, List.append_assoc]
    refine Acc.app ((accE e h.1.1).wrap _ _ _) ?_
    cases desc
    · simpa using hts
    · simpa using Acc.kf "DESC" hts
theorem accOrdTail : ∀ (os : List OrderItem), ordTailOK3 d os = true → Acc (toksOrdTail3 d noX os) (lvOrdL os)
  | os, h => by
    cases os with
    | nil => simp only [toksOrdTail3, lvOrdL]; exact Acc.nil
    | cons o r =>
      simp only [ordTailOK3, Bool.and_eq_true] at h
      simp only [toksOrdTail3, lvOrdL]
      exact Acc.kf "," (accOrdItem o h.1 _ _ (accOrdTail r h.2))
theorem accOrder : ∀ (ob : Option (List OrderItem)), orderOK3 d ob = true → Acc (toksOrder3 d noX ob) (lvOrder ob)
  | ob, h => by
    cases ob with
    | none => simp only [toksOrder3, lvOrder]; exact Acc.nil
    | some l =>
      cases l with
      | nil => simp [orderOK3] at h
      | cons o r =>
        simp only [orderOK3, Bool.and_eq_true] at h
        simp only [toksOrder3, lvOrder, lvOrdL]
        exact Acc.kf "ORDER" (Acc.kf "BY" (accOrdItem o h.1 _ _ (accOrdTail r h.2)))
end

end TDM
