import MsqProofs.Props.C10T
import MsqProofs.Props.C03L
/-!
# Printed statements never end open; scripts of printed SELECTs (C10 ∘ C03 ∘ C01)

`C10.lx_not_open`: a text `u` that satisfies the compositional lexer relation `LexLink.Lx u ts` (followed by a delimiter
it appends exactly the tokens `ts` and continues between tokens) does not end inside a line comment — otherwise
`u ++ " y"` would lex to `ts` (the comment swallows ` y`) and to `ts ++ [y]` (by `Lx`).  Hence the printed text of every
fragment expression and every fragment SELECT does not end open (`printed_expr_not_open`, `printed_select_not_open`),
and the hypothesis `EndsOpen … = false` of `C10.script_text` is discharged for printed statements:

`C10.script_printed`: for SELECTs `s1 … sn` of the C03 fragment (lexable leaves, dialect pre-pass hypothesis as in
`C03.tselect_text`), the model of `parse_statements` on the script `print s1 sep1 … print sn sepn` (separators: blanks
and line breaks around one `;`; the last one optional) returns exactly `[s1, …, sn]`.
-/
namespace C10
open Lex PM Ast TP TS LexLink

theorem l_lc_blank : Gen.cfgS.lookup .IN_EXPLAIN_1 (.ch ' ') = some (Spec.addTo .IN_EXPLAIN_1) := by decide +kernel
theorem l_lc_y : Gen.cfgS.lookup .IN_EXPLAIN_1 (.ch 'y') = some (Spec.addTo .IN_EXPLAIN_1) := by decide +kernel
theorem l_lc_end : Gen.cfgS.lookup .IN_EXPLAIN_1 .eof = some Spec.dropAtEnd := by decide +kernel

/-- a text with the compositional lexer property does not end inside a line comment -/
theorem lx_not_open {u : List Char} {ts : List Tok} (h : Lx u ts) : endState Gen.cfgS u ≠ .IN_EXPLAIN_1 := by
  intro he
  have hu := C01.lexText_of_lx h
  simp only [lexText] at hu
  cases e1 : feedAllWith (handle Gen.cfgS u) u {} with
  | error x => rw [e1] at hu; cases hu
  | ok m1 =>
    rw [e1] at hu
    simp only at hu
    have hst : m1.status = .IN_EXPLAIN_1 := by
      rw [(feedAllWith_skel Gen.cfgS (C04.summarizable 7) u u {} m1 e1 (by simp)).1]; exact he
    obtain ⟨st, nw, q, stk⟩ := m1
    simp only at hst
    subst hst
    rw [handle_dropAtEnd C05.shipped_code l_lc_end] at hu
    simp only at hu
    obtain ⟨_, hstk⟩ := finish_ok_inv (cfg := Gen.cfgS) (by decide) hu
    simp only at hstk
    subst hstk
    -- the comment swallows ` y`
    have hA : feedAllWith (handle Gen.cfgS (u ++ [' ', 'y'])) u {} = .ok ⟨st, nw, .IN_EXPLAIN_1, [ts]⟩ := by
      rw [feedAllWith_context _ C06.shipped_good]; exact e1
    have hB : feedAllWith (handle Gen.cfgS (u ++ [' ', 'y'])) (u ++ [' ', 'y']) {} =
        .ok ⟨st, nw + 1 + 1, .IN_EXPLAIN_1, [ts]⟩ := by
      rw [feedAllWith_append_ok hA,
        feedAllWith_cons_adv (handle_addTo C05.shipped_code (m := ⟨st, nw, .IN_EXPLAIN_1, [ts]⟩) l_lc_blank),
        feedAllWith_cons_adv (handle_addTo C05.shipped_code (m := ⟨st, nw + 1, .IN_EXPLAIN_1, [ts]⟩) l_lc_y)]
      rfl
    have hL : lexText Gen.cfgS (u ++ [' ', 'y']) = .ok ts := by
      rw [lexText_ok hB (handle_dropAtEnd C05.shipped_code (m := ⟨st, nw + 1 + 1, .IN_EXPLAIN_1, [ts]⟩) l_lc_end)]
      exact finish_end _ C05.shipped_depth C05.shipped_end _ _ _
    -- by `Lx`, it does not
    have h1 := h (u ++ [' ', 'y']) [] [' ', 'y'] [] [] (by simp) (Or.inr ⟨['y'], Or.inl rfl⟩)
    simp only [List.length_nil, Nat.zero_add, List.nil_append] at h1
    have h2 := lx_word ['y'] (by decide) (u ++ [' ', 'y']) (u ++ [' ']) [] ts [] (by simp) (Or.inl rfl)
    simp only [List.append_nil, List.length_append, List.length_cons, List.length_nil] at h2
    have hR : lexText Gen.cfgS (u ++ [' ', 'y']) = .ok (ts ++ [.single ['y'] (C05.wordMark ['y'])]) := by
      rw [lexText_eq_runTail]
      show runTail Gen.cfgS (u ++ [' ', 'y']) (u ++ [' ', 'y']) ⟨0, 0, .WAIT, [[]]⟩ = _
      rw [h1, step_blank, h2, runTail_nil_wait]
      exact finish_end _ C05.shipped_depth C05.shipped_end _ _ _
    rw [hL] at hR
    have := congrArg (fun r => match r with | .ok (l : List Tok) => l.length | .error _ => 0) hR
    simp at this

theorem pre_plain (t : List Char) (h : t.all C05.plain = true) : Gen.cfgS.pre t = t :=
  preWith_noop _ _ (untouched_of_plain _ _ (fun c hc => List.all_eq_true.mp h c hc))

theorem not_open_of_lx {u : List Char} {ts : List Tok} (h : Lx u ts) (hp : u.all C05.plain = true) :
    EndsOpen Gen.cfgS u = false := by
  rw [endsOpen_shipped, pre_plain u hp]
  simp [lx_not_open h]

/-- the printed text of a fragment expression does not end open -/
theorem printed_expr_not_open (d : Gen.D) (e : Expr) (hf : Frag d e = true) (hl : Leaf d e) :
    EndsOpen Gen.cfgS (prEL d e) = false :=
  not_open_of_lx (C01.lex_prE_in_context d e hf hl) (plain_prEL d (sz e) e (Nat.le_refl _) hf hl)

/-- the printed text of a fragment SELECT does not end open -/
theorem printed_select_not_open (d : Gen.D) (s : Select) (hs : FragS d s = true) (hl : LeafS d s) :
    EndsOpen Gen.cfgS (prSL d s) = false :=
  not_open_of_lx (C03.lex_prS_in_context d s hs hl) (plain_prSL d s hs hl)

/-- the part of a script that is the printed SELECT `it.1` followed by the separator text `it.2` -/
def partOf (d : Gen.D) (it : Select × List Char) : Part :=
  ⟨prSL d it.1, it.2, toksS d it.1, .select (.single it.1)⟩

/-- **scripts of printed SELECTs** parse back to the SELECTs: no "ends open" hypothesis, no hypothesis on parse results -/
theorem script_printed (d : Gen.D) (hd : d ≠ .DB2) (items : List (Select × List Char))
    (h : ∀ it ∈ items, FragS d it.1 = true ∧ LeafS d it.1 ∧ dialectPre d (prSL d it.1) = prSL d it.1 ∧
      ∀ c ∈ it.2, isSepChar c = true)
    (hseps : SepsOK (items.map (partOf d))) :
    parseStatementsText d (scriptOf Part.text (items.map (partOf d))) =
      .ok (items.map fun it => Stmt.select (.single it.1)) := by
  have := script_text_std d hd (items.map (partOf d)) (fun p hp => by
    obtain ⟨it, hit, rfl⟩ := List.mem_map.mp hp
    obtain ⟨hs, hl, hpre, hsep⟩ := h it hit
    simp only [partOf]
    rw [hpre]
    refine ⟨?_, ?_, Or.inl (printed_select_not_open d it.1 hs hl), hsep, ?_⟩
    · obtain ⟨str, _, h2, h3⟩ := C03.lex_prS d it.1 hs hl
      rw [← h2]; exact h3
    · have := C03.tselect_statement d it.1 hs [] rfl rfl (fuelFor (toksS d it.1)) (by simp only [fuelFor]; omega)
      simpa using this
    · intro hc
      have hm : '\r' ∈ prSL d it.1 := List.mem_of_getLast? hc
      have := List.all_eq_true.mp (plain_prSL d it.1 hs hl) _ hm
      revert this; decide) hseps
  simpa [List.map_map, Function.comp_def, partOf] using this

/-- an instance, hypotheses decided by the kernel: `SELECT DISTINCT a AS k, 'x' FROM t AS u` and `SELECT 1`, printed (clauses on
separate lines), with ` ;` + line break between them and a final `;` -/
example : parseStatementsText .MYSQL
      (scriptOf Part.text ([(C03.s5, " ;\n".toList), (C03.s2, ";".toList)].map (partOf .MYSQL))) =
    .ok [.select (.single C03.s5), .select (.single C03.s2)] :=
  script_printed .MYSQL (by decide) [(C03.s5, " ;\n".toList), (C03.s2, ";".toList)]
    (by
      intro it hit
      simp only [List.mem_cons, List.not_mem_nil, or_false] at hit
      rcases hit with rfl | rfl
      · exact ⟨by decide, C03.leafS_of_B _ _ (by decide +kernel), C01.dialectPre_id _ (by decide) (by decide) _, by decide⟩
      · exact ⟨by decide, C03.leafS_of_B _ _ (by decide +kernel), C01.dialectPre_id _ (by decide) (by decide) _, by decide⟩)
    ⟨by decide, (by decide : (semis ";".toList).length ≤ 1)⟩

#guard EndsOpen Gen.cfgS (prSL .MYSQL C03.s5) == false && EndsOpen Gen.cfgS (prSL .HIVE C03.s2) == false
#guard count (parseStatementsText .MYSQL
  (scriptOf Part.text ([(C03.s5, " ;\n".toList), (C03.s2, ";".toList)].map (partOf .MYSQL)))) == some 2

end C10
