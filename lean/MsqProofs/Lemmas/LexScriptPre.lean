import MsqProofs.Lemmas.LexSpec
/-!
# The lexer's pre-pass and a separator character

`preproc_sql` is a chain of `str.replace` calls (CR LF → LF, TAB → blank, U+3000 → blank).  A replacement commutes with
cutting the text at a character `c` when no occurrence of the pattern can contain `c` (`replace_sep`); for the pattern
CR LF and `c` = LF this needs the text in front of the cut not to end with CR (`replace_crlf`).

`preWith_sep`: for every chain whose patterns do not contain `c`,
`preWith chain (a ++ c :: b) = preWith chain a ++ c :: preWith chain b`.
`pre_sep_newline`: the same for the generated chain and `c` = LF, when `a` does not end with CR.
-/
namespace Lex
open Py

theorem replaceGo_nil (pat rep : List Char) (f : Nat) : replaceGo pat rep f [] = [] := by
  cases f <;> rfl

/-- enough fuel is enough -/
theorem replaceGo_fuel (pat rep : List Char) (hp : pat ≠ []) : ∀ (f g : Nat) (t : List Char), t.length ≤ f → t.length ≤ g →
    replaceGo pat rep f t = replaceGo pat rep g t := by
  intro f
  induction f with
  | zero =>
    intro g t h1 _
    have : t = [] := List.eq_nil_of_length_eq_zero (by omega)
    subst this
    rw [replaceGo_nil, replaceGo_nil]
  | succ f ih =>
    intro g t h1 h2
    cases t with
    | nil => rw [replaceGo_nil, replaceGo_nil]
    | cons c r =>
      cases g with
      | zero => simp at h2
      | succ g =>
        simp only [List.length_cons] at h1 h2
        have hl : 0 < pat.length := List.length_pos_iff.mpr hp
        simp only [replaceGo]
        split
        · rw [ih g _ (by simp; omega) (by simp; omega)]
        · rw [ih g r (by omega) (by omega)]

/-- cutting at `c`: no occurrence of the pattern contains the cut -/
theorem replaceGo_sep (pat rep : List Char) (hp : pat ≠ []) (c : Char) (b : List Char)
    (hcb : pat.isPrefixOf (c :: b) = false) :
    ∀ (n : Nat) (a : List Char), a.length ≤ n →
      (∀ s, s ≠ [] → s <:+ a → pat.isPrefixOf (s ++ c :: b) = pat.isPrefixOf s) →
      ∀ f f1 f2, (a ++ c :: b).length ≤ f → a.length ≤ f1 → b.length ≤ f2 →
        replaceGo pat rep f (a ++ c :: b) = replaceGo pat rep f1 a ++ c :: replaceGo pat rep f2 b := by
  intro n
  induction n with
  | zero =>
    intro a ha _ f f1 f2 hf _ hf2
    have : a = [] := List.eq_nil_of_length_eq_zero (by omega)
    subst this
    cases f with
    | zero => simp at hf
    | succ f =>
      simp only [List.nil_append, List.length_cons] at hf
      simp only [List.nil_append, replaceGo, hcb, replaceGo_nil, Bool.false_eq_true, if_false]
      rw [replaceGo_fuel pat rep hp f f2 b (by omega) hf2]
  | succ n ih =>
    intro a ha hpre f f1 f2 hf hf1 hf2
    cases a with
    | nil =>
      cases f with
      | zero => simp at hf
      | succ f =>
        simp only [List.nil_append, List.length_cons] at hf
        simp only [List.nil_append, replaceGo, hcb, replaceGo_nil, Bool.false_eq_true, if_false]
        rw [replaceGo_fuel pat rep hp f f2 b (by omega) hf2]
    | cons x xs =>
      simp only [List.length_cons] at ha hf1
      cases f with
      | zero => simp at hf
      | succ f =>
        cases f1 with
        | zero => omega
        | succ f1 =>
          have hx := hpre (x :: xs) (by simp) (List.suffix_refl _)
          simp only [List.cons_append] at hx
          simp only [List.cons_append, replaceGo, hx]
          simp only [List.cons_append, List.length_cons, List.length_append] at hf
          have hl : 0 < pat.length := List.length_pos_iff.mpr hp
          by_cases hpx : pat.isPrefixOf (x :: xs) = true
          · simp only [hpx, if_true]
            have hle : pat.length ≤ (x :: xs).length := (List.isPrefixOf_iff_prefix.mp hpx).length_le
            have hd : (x :: (xs ++ c :: b)).drop pat.length = (x :: xs).drop pat.length ++ c :: b := by
              rw [← List.cons_append, List.drop_append_of_le_length hle]
            rw [hd, ih ((x :: xs).drop pat.length) (by simp; omega)
              (fun s hs hsuf => hpre s hs (hsuf.trans (List.drop_suffix _ _))) f f1 f2
              (by simp; omega) (by simp; omega) hf2]
            simp
          · simp only [hpx, Bool.false_eq_true, if_false]
            rw [ih xs (by omega) (fun s hs hsuf => hpre s hs (hsuf.trans (List.suffix_cons _ _))) f f1 f2
              (by simp; omega) (by omega) hf2]
            simp

theorem isPrefixOf_sep (c : Char) (b : List Char) : ∀ (pat s : List Char), c ∉ pat →
    pat.isPrefixOf (s ++ c :: b) = pat.isPrefixOf s
  | [], _, _ => by simp
  | p :: ps, [], h => by
    have : p ≠ c := fun e => h (by simp [e])
    simp [List.isPrefixOf, this]
  | p :: ps, x :: xs, h => by
    have := isPrefixOf_sep c b ps xs (fun e => h (by simp [e]))
    simp [List.isPrefixOf, this]

/-- a replacement commutes with cutting the text at a character that does not occur in the pattern -/
theorem replace_sep (pat rep : List Char) (c : Char) (hc : c ∉ pat) (a b : List Char) :
    replace pat rep (a ++ c :: b) = replace pat rep a ++ c :: replace pat rep b := by
  simp only [replace]
  cases hp : pat.isEmpty with
  | true => simp
  | false =>
    have hne : pat ≠ [] := by intro e; rw [e] at hp; cases hp
    simp only [Bool.false_eq_true, if_false]
    exact replaceGo_sep pat rep hne c b (by
        have := isPrefixOf_sep c b pat [] hc
        rw [List.nil_append] at this
        rw [this]; cases pat with | nil => exact absurd rfl hne | cons _ _ => rfl) a.length a
      (Nat.le_refl _) (fun s _ _ => isPrefixOf_sep c b pat s hc) _ _ _ (by omega) (by omega) (by omega)

/-- CR LF → LF commutes with cutting the text at a LF that does not follow a CR -/
theorem replace_crlf (rep : List Char) (a b : List Char) (ha : a.getLast? ≠ some '\r') :
    replace ['\r', '\n'] rep (a ++ '\n' :: b) = replace ['\r', '\n'] rep a ++ '\n' :: replace ['\r', '\n'] rep b := by
  simp only [replace, List.isEmpty_cons, Bool.false_eq_true, if_false]
  refine replaceGo_sep _ rep (by simp) '\n' b (by simp [List.isPrefixOf]) a.length a (Nat.le_refl _) ?_ _ _ _
    (by omega) (by omega) (by omega)
  intro s hs hsuf
  cases s with
  | nil => exact absurd rfl hs
  | cons x xs =>
    cases xs with
    | nil =>
      obtain ⟨t, ht⟩ := hsuf
      have : a.getLast? = some x := by rw [← ht]; simp
      have hx : x ≠ '\r' := fun e => ha (by rw [this, e])
      have hx' : ('\r' == x) = false := by simp [Ne.symm hx]
      simp [List.isPrefixOf, hx']
    | cons y ys => simp [List.isPrefixOf]

/-- the pre-pass commutes with cutting the text at a character that occurs in none of its patterns -/
theorem preWith_sep (c : Char) : ∀ (chain : List (List Char × List Char)), (∀ pr ∈ chain, c ∉ pr.1) → ∀ (a b : List Char),
    preWith chain (a ++ c :: b) = preWith chain a ++ c :: preWith chain b := by
  intro chain
  induction chain with
  | nil => intro _ a b; rfl
  | cons pr rest ih =>
    intro h a b
    simp only [preWith, List.foldl_cons]
    rw [replace_sep pr.1 pr.2 c (h pr (by simp)) a b]
    exact ih (fun q hq => h q (by simp [hq])) _ _

/-- … and, for the generated chain, with cutting at a LF that does not follow a CR -/
theorem preWith_newline (a b : List Char) (ha : a.getLast? ≠ some '\r') :
    preWith Gen.preChain (a ++ '\n' :: b) = preWith Gen.preChain a ++ '\n' :: preWith Gen.preChain b := by
  have h1 := replace_crlf ['\n'] a b ha
  have e : Gen.preChain = (['\r', '\n'], ['\n']) :: [([Char.ofNat 9], [Char.ofNat 32]), ([Char.ofNat 12288], [Char.ofNat 32])] := rfl
  rw [e]
  simp only [preWith, List.foldl_cons] at *
  rw [h1]
  exact preWith_sep '\n' [([Char.ofNat 9], [Char.ofNat 32]), ([Char.ofNat 12288], [Char.ofNat 32])] (by decide) _ _

end Lex
