import MsqProofs.Lemmas.LexSize
import MsqProofs.Oblig.LexCfg7
/-!
# C19, text level: at most ONE node of the token tree per `handle` call on the shipped table

`Lemmas/LexSize.lean` allows a leaf and a group per `handle` call (any table).  The decidable obligation `OneNode` — no operation of the
table both emits a leaf and closes a group — is checked on the shipped table by the kernel; under it a `handle` call adds at most one node,
hence `sizeL (lex text) ≤ 2·|text| + 1`.
-/
namespace Lex
variable {Cls : Type}

def Body.isEmit : Body → Bool | .emit _ => true | _ => false
def Grp.isPop : Grp → Bool | .pop _ _ => true | _ => false
def oneNodeOp (cfg : Cfg Cls) (o : Option (OpRef Cls)) : Bool :=
  match o with
  | none => true
  | some o => match summarize (cfg.code o.cls) with
    | some sm => !(sm.body.isEmit && sm.grp.isPop)
    | none => true
/-- no operation of the table both emits a leaf token and closes a bracket group -/
def OneNode (cfg : Cfg Cls) : Bool :=
  allS.all fun s => ((cfg.rows s).all fun e => oneNodeOp cfg (some e.2)) && oneNodeOp cfg (cfg.dflt s) && oneNodeOp cfg (cfg.atEnd s)

theorem OneNode.lookup {cfg : Cfg Cls} (h : OneNode cfg = true) (s : S) (sym : Sym) : oneNodeOp cfg (cfg.lookup s sym) = true := by
  simp only [OneNode, List.all_eq_true, Bool.and_eq_true] at h
  have hs := h s (mem_allS s)
  cases sym with
  | eof => exact hs.2
  | ch c =>
    simp only [Cfg.lookup]
    split
    · rename_i e he
      exact hs.1.1 e (List.mem_of_find?_eq_some he)
    · exact hs.1.2

theorem execCore_size1 (env : Env) (ss : S) (sm : Nat) (adv : Bool) (body : Body) (grp : Grp) (st : St) (ret : Bool) (m m' : Mem) (b : Bool)
    (hone : (body.isEmit && grp.isPop) = false)
    (h : execCore env ss sm adv body grp st ret m = .ok (m', b)) : sizeSt m'.stack ≤ sizeSt m.stack + 1 := by
  unfold execCore at h
  cases body with
  | keep =>
    simp only at h
    cases grp with
    | none => simp at h; rw [← h.1]; simp
    | push => simp at h; rw [← h.1]; simp [sizeSt, sizeL]
    | pop k mk =>
      simp only at h
      cases hst : m.stack with
      | nil => simp [hst] at h
      | cons f fs =>
        simp only [hst] at h
        split at h
        · simp at h
        · rename_i stk2 hap
          simp at h; rw [← h.1]
          simp only [sizeSt_appendTop _ _ _ hap, Tok.size, sizeSt]; omega
  | drop =>
    simp only at h
    cases grp with
    | none => simp at h; rw [← h.1]; simp
    | push => simp at h; rw [← h.1]; simp [sizeSt, sizeL]
    | pop k mk =>
      simp only at h
      cases hst : m.stack with
      | nil => simp [hst] at h
      | cons f fs =>
        simp only [hst] at h
        split at h
        · simp at h
        · rename_i stk2 hap
          simp at h; rw [← h.1]
          simp only [sizeSt_appendTop _ _ _ hap, Tok.size, sizeSt]; omega
  | emit mk0 =>
    cases grp with
    | pop k mk => simp [Body.isEmit, Grp.isPop] at hone
    | none =>
      simp only at h
      split at h
      · simp at h
      · rename_i start stk hr
        split at hr
        · simp at hr
        · rename_i stk1 hap
          simp at hr h; rw [← h.1, ← hr.2]
          simp [sizeSt_appendTop _ _ _ hap, Tok.size]
    | push =>
      simp only at h
      split at h
      · simp at h
      · rename_i start stk hr
        split at hr
        · simp at hr
        · rename_i stk1 hap
          simp at hr h; rw [← h.1, ← hr.2]
          simp [sizeSt_appendTop _ _ _ hap, Tok.size, sizeSt, sizeL]

section table
variable (cfg : Cfg Cls) (advSt : List S) (wk : S → WK) (text : List Char)

theorem handle_size1 (hT : TableOK cfg advSt wk = true) (h1 : OneNode cfg = true) (m m' : Mem) (sym : Sym) (b : Bool)
    (h : handle cfg text m sym = .ok (m', b)) : sizeSt m'.stack ≤ sizeSt m.stack + 1 := by
  have hone := OneNode.lookup h1 m.status sym
  have hsum : ∀ o, cfg.lookup m.status sym = some o → ∃ sm, summarize (cfg.code o.cls) = some sm := by
    intro o ho
    cases sym with
    | eof =>
      have hc := TableOK.eof hT m.status
      have ho' : cfg.lookup m.status .eof = some o := ho
      simp only [ho', eofOK] at hc
      cases hs : summarize (cfg.code o.cls) with
      | none => simp [hs] at hc
      | some sm => exact ⟨sm, rfl⟩
    | ch c =>
      obtain ⟨co, hco, hcell⟩ := TableOK.char hT m.status c
      simp only [ho, charOK] at hcell
      cases hs : summarize (cfg.code o.cls) with
      | none => simp [hs] at hcell
      | some sm => exact ⟨sm, rfl⟩
  cases ho : cfg.lookup m.status sym with
  | none => simp [handle, ho] at h
  | some o =>
    obtain ⟨sm, hs⟩ := hsum o ho
    simp only [ho, oneNodeOp, hs] at hone
    rw [handle_eq cfg text m _ o sm ho hs] at h
    obtain ⟨_, h⟩ := execS_ok _ _ _ sm m m' b h
    exact execCore_size1 _ _ _ _ _ _ _ _ _ _ _ (by cases hb : sm.body.isEmit <;> cases hg : sm.grp.isPop <;> simp_all) h

theorem feed_size1 (hT : TableOK cfg advSt wk = true) (h1 : OneNode cfg = true) (m m' : Mem) (c : Char) (h : feed cfg text m c = .ok m') :
    sizeSt m'.stack ≤ sizeSt m.stack + 2 := by
  unfold feed feedWith at h
  split at h
  · simp at h
  · rename_i m1 hm1
    simp at h; subst h
    have := handle_size1 cfg advSt wk text hT h1 m m1 _ true hm1; omega
  · rename_i m1 hm1
    have := handle_size1 cfg advSt wk text hT h1 m m1 _ false hm1
    split at h
    · simp at h
    · rename_i m2 b2 hm2
      simp at h; subst h
      have := handle_size1 cfg advSt wk text hT h1 m1 m2 _ b2 hm2; omega

theorem feedAll_size1 (hT : TableOK cfg advSt wk = true) (h1 : OneNode cfg = true) (cs : List Char) (m m' : Mem)
    (h : feedAll cfg text cs m = .ok m') : sizeSt m'.stack ≤ sizeSt m.stack + 2 * cs.length := by
  induction cs generalizing m with
  | nil => simp [feedAll, feedAllWith] at h; subst h; simp
  | cons c cs ih =>
    simp only [feedAll, feedAllWith] at h
    split at h
    · simp at h
    · rename_i m1 hm1
      have := feed_size1 cfg advSt wk text hT h1 m m1 c hm1
      have := ih m1 h
      simp only [List.length_cons]; omega

/-- **the token tree has at most `2·|text| + 1` nodes** under `TableOK` and `OneNode` -/
theorem lex_size1 (hT : TableOK cfg advSt wk = true) (h1 : OneNode cfg = true) (raw : List Char) (toks : List Tok)
    (h : lex cfg raw = .ok toks) : sizeL toks ≤ 2 * (cfg.pre raw).length + 1 := by
  unfold lex lexWith at h
  simp only at h
  split at h
  · simp at h
  · rename_i m hm
    have h2 := feedAll_size1 cfg advSt wk (cfg.pre raw) hT h1 (cfg.pre raw) {} m hm
    split at h
    · simp at h
    · rename_i m' b hm'
      have h3 := handle_size1 cfg advSt wk (cfg.pre raw) hT h1 m m' _ b hm'
      unfold finish at h
      split at h
      · simp at h
      · split at h
        · simp at h
        · split at h
          · rename_i f hf
            simp at h; subst h
            have h4 := sizeL_le_sizeSt_getLast _ _ hf
            have h0 : sizeSt ({} : Mem).stack = 0 := by simp [sizeSt, sizeL]
            omega
          · simp at h
end table

/-- the shipped table: no operation both emits a leaf and closes a group (kernel-evaluated over every cell) -/
theorem oneNode_cfg7 : OneNode Gen.Cfg7.cfg = true := by decide +kernel

end Lex
