import MsqProofs.Lemmas.LexInv
import MsqProofs.Lemmas.LexWK
/-! generic losslessness of `lex` for any table satisfying `TableOK` -/
namespace Lex
variable {Cls : Type}

section proj
variable {cfg : Cfg Cls} {advSt : List S} {wk : S → WK}

theorem TableOK.wait (h : TableOK cfg advSt wk = true) : wk .WAIT = .exact [] := by
  simp only [TableOK, Bool.and_eq_true, beq_iff_eq] at h
  exact h.1.1

theorem TableOK.char (h : TableOK cfg advSt wk = true) (s : S) (c : Char) :
    ∃ co, (co = some c ∨ co = none) ∧ charOK cfg advSt wk s co (cfg.lookup s (.ch c)) = true := by
  simp only [TableOK, Bool.and_eq_true, List.all_eq_true] at h
  have hs := h.2 s (mem_allS s)
  simp only [Cfg.lookup]
  split
  · rename_i e he
    have hm := List.mem_of_find?_eq_some he
    have hp := List.find?_some he
    simp at hp
    refine ⟨some c, .inl rfl, ?_⟩
    have := hs.1.1 e hm
    rw [hp] at this
    simpa using this
  · exact ⟨none, .inr rfl, hs.1.2⟩

theorem TableOK.adv (h : TableOK cfg advSt wk = true) (q : S) (hq : advSt.contains q = true) :
    allAdvance cfg wk q = true := by
  simp only [TableOK, Bool.and_eq_true, List.all_eq_true] at h
  exact h.1.2 q (by simpa using hq)

theorem TableOK.eof (h : TableOK cfg advSt wk = true) (s : S) :
    eofOK cfg wk s (cfg.lookup s .eof) = true := by
  simp only [TableOK, Bool.and_eq_true, List.all_eq_true] at h
  exact (h.2 s (mem_allS s)).2

theorem allAdvance.char {q : S} (h : allAdvance cfg wk q = true) (c : Char) :
    ∃ co, (co = some c ∨ co = none) ∧ advOrRaise cfg wk q co (cfg.lookup q (.ch c)) = true := by
  simp only [allAdvance, Bool.and_eq_true, List.all_eq_true] at h
  simp only [Cfg.lookup]
  split
  · rename_i e he
    have hm := List.mem_of_find?_eq_some he
    have hp := List.find?_some he
    simp at hp
    refine ⟨some c, .inl rfl, ?_⟩
    have := h.1 e hm
    rw [hp] at this
    simpa using this
  · exact ⟨none, .inr rfl, h.2⟩
end proj

variable (cfg : Cfg Cls) (advSt : List S) (wk : S → WK) (text : List Char)

/-- the current window `text[start:now]` -/
def curWin (m : Mem) : List Char := (text.drop m.start).take (m.now - m.start)

/-- invariant between operations -/
structure Inv2 (m : Mem) (segs : List Seg) : Prop extends Inv text m segs where
  emptyWin : isEmptySt cfg m.status = true → m.start = m.now
  kind : (wk m.status).claims (curWin text m) = true
  gaps : ∀ g ∈ gapTexts segs, gapOKb g = true

theorem handle_eq (m : Mem) (sym : Sym) (o : OpRef Cls) (sm : Summary)
    (ho : cfg.lookup m.status sym = some o) (hs : summarize (cfg.code o.cls) = some sm) :
    handle cfg text m sym = execS (cfg.env text) o.status o.marks sm m := by
  simp [handle, ho, exec_summarize _ _ _ _ _ _ hs]

theorem execS_ok (env : Env) (ss : S) (smk : Nat) (s : Summary) (m m' : Mem) (b : Bool)
    (h : execS env ss smk s m = .ok (m', b)) :
    s.raises = false ∧ execCore env ss smk s.adv s.body s.grp s.st s.ret m = .ok (m', b) := by
  unfold execS at h
  split at h
  · cases h
  · split at h
    · cases h
    · rename_i hr
      exact ⟨by simpa using hr, h⟩

theorem window_snoc (m : Mem) (c : Char) (rest : List Char) (hle : m.start ≤ m.now)
    (hc : text.drop m.now = c :: rest) :
    (text.drop m.start).take (m.now + 1 - m.start) = curWin text m ++ [c] := by
  unfold curWin
  have h1 : m.now + 1 - m.start = (m.now - m.start) + 1 := by omega
  rw [h1, List.take_add]
  congr 1
  rw [List.drop_drop]
  have : m.start + (m.now - m.start) = m.now := by omega
  rw [this, hc]
  simp

/-- the core step: a cell that passed `windowOK` and `kindOK` preserves `Inv2` -/
theorem step_inv (m m' : Mem) (b : Bool) (segs : List Seg) (o : OpRef Cls) (sm : Summary) (co : Option Char)
    (hinv : Inv2 cfg wk text m segs)
    (hcur : sm.adv = true → ∃ c rest, text.drop m.now = c :: rest ∧ (co = some c ∨ co = none))
    (hw : windowOK cfg m.status o sm = true) (hk : kindOK wk m.status co o sm = true)
    (h : execCore (cfg.env text) o.status o.marks sm.adv sm.body sm.grp sm.st sm.ret m = .ok (m', b)) :
    ∃ segs', Inv2 cfg wk text m' segs' ∧ m'.now = (if sm.adv then m.now + 1 else m.now) ∧ b = sm.ret
      ∧ m'.status = nextSt m.status o sm := by
  obtain ⟨segs', hi, hnow, hb, hst, hk1, hk2, hseg⟩ :=
    execCore_inv (cfg.env text) o.status o.marks sm.adv sm.body sm.grp sm.st sm.ret m m' b segs hinv.toInv h
  have hst' : m'.status = nextSt m.status o sm := hst
  -- the window the operation saw (after a possible advance)
  have hwin : ((if sm.adv then (wk m.status).snoc co else wk m.status)).claims (window text m sm.adv) = true := by
    unfold window
    cases hadv : sm.adv with
    | false => simpa [curWin] using hinv.kind
    | true =>
      obtain ⟨c, rest, hc, hco⟩ := hcur hadv
      simp only [if_true]
      rw [window_snoc text m c rest hinv.le hc]
      exact WK.snoc_sound _ _ c co hco hinv.kind
  simp only [kindOK, Bool.and_eq_true, Bool.or_eq_true, bne_iff_ne, ne_eq] at hk
  obtain ⟨hgap, hnext⟩ := hk
  refine ⟨segs', ⟨hi, ?_, ?_, ?_⟩, hnow, hb, hst'⟩
  · intro he
    rw [hst'] at he
    by_cases hkeep : sm.body = .keep
    · have := hk2 hkeep
      simp only [windowOK, he, hkeep, Bool.not_true, Bool.false_or, bne_self_eq_false, Bool.and_eq_true,
        Bool.not_eq_eq_eq_not, Bool.not_true] at hw
      rw [this, hnow, hw.2]
      simpa using hinv.emptyWin hw.1
    · exact hk1 hkeep
  · -- window kind of the new state
    rw [hst']
    by_cases hkeep : sm.body = .keep
    · simp only [hkeep, beq_self_eq_true, if_true] at hnext
      have hs := hk2 hkeep
      have : curWin text m' = window (cfg.env text).text m sm.adv := by
        unfold curWin window; rw [hs, hnow]; rfl
      rw [this]
      exact WK.le_sound _ _ _ hnext hwin
    · have hs := hk1 hkeep
      have hne : (sm.body == .keep) = false := by simpa using hkeep
      simp only [hne] at hnext
      have : curWin text m' = [] := by unfold curWin; rw [hs]; simp
      rw [this]
      exact WK.le_sound _ _ _ hnext (by simp [WK.claims])
  · -- gaps
    rcases hseg with rfl | ⟨_, hg⟩
    · exact hinv.gaps
    · intro g hgm
      rw [hg] at hgm
      rcases List.mem_append.mp hgm with hgm | hgm
      · exact hinv.gaps g hgm
      · by_cases hd : sm.body = .drop
        · simp only [hd, if_true, List.mem_singleton] at hgm
          subst hgm
          rcases hgap with hgap | hgap
          · exact absurd hd hgap
          · exact WK.allGap_sound _ _ hgap hwin
        · simp [hd] at hgm

/-- one `handle` call on the character at `now`, under the table obligation for that cell -/
theorem handle_char_inv (hT : TableOK cfg advSt wk = true) (m m' : Mem) (c : Char) (rest : List Char) (b : Bool)
    (segs : List Seg) (hinv : Inv2 cfg wk text m segs) (hc : text.drop m.now = c :: rest)
    (h : handle cfg text m (.ch c) = .ok (m', b)) :
    ∃ segs', Inv2 cfg wk text m' segs' ∧ m'.now = (if b then m.now + 1 else m.now)
      ∧ (b = false → advSt.contains m'.status = true) := by
  obtain ⟨co, hco, hcell⟩ := TableOK.char hT m.status c
  cases ho : cfg.lookup m.status (.ch c) with
  | none => simp [handle, ho] at h
  | some o =>
    simp only [ho, charOK] at hcell
    cases hs : summarize (cfg.code o.cls) with
    | none => simp [hs] at hcell
    | some sm =>
      simp only [hs] at hcell
      rw [handle_eq cfg text m _ o sm ho hs] at h
      obtain ⟨hr, h⟩ := execS_ok _ _ _ sm m m' b h
      simp only [hr, Bool.false_or, Bool.and_eq_true, beq_iff_eq, Bool.or_eq_true] at hcell
      obtain ⟨⟨⟨hret, hw⟩, hk⟩, hadv⟩ := hcell
      obtain ⟨segs', hi, hnow, hb, hst⟩ :=
        step_inv cfg wk text m m' b segs o sm co hinv (fun _ => ⟨c, rest, hc, hco⟩) hw hk h
      refine ⟨segs', hi, ?_, ?_⟩
      · rw [hnow, hb, hret]
      · intro hbf
        rw [hb, hret] at hbf
        rcases hadv with hadv | hadv
        · simp [hbf] at hadv
        · rw [hst]; exact hadv

theorem feed_inv (hT : TableOK cfg advSt wk = true) (m m' : Mem) (c : Char) (rest : List Char) (segs : List Seg)
    (hinv : Inv2 cfg wk text m segs) (hc : text.drop m.now = c :: rest) (h : feed cfg text m c = .ok m') :
    ∃ segs', Inv2 cfg wk text m' segs' ∧ m'.now = m.now + 1 := by
  unfold feed feedWith at h
  split at h
  · simp at h
  · rename_i m1 h1
    simp at h; subst h
    obtain ⟨segs1, hi1, hn1, _⟩ := handle_char_inv cfg advSt wk text hT m m1 c rest true segs hinv hc h1
    exact ⟨segs1, hi1, by simpa using hn1⟩
  · rename_i m1 h1
    obtain ⟨segs1, hi1, hn1, ha1⟩ := handle_char_inv cfg advSt wk text hT m m1 c rest false segs hinv hc h1
    have hadv := TableOK.adv hT m1.status (ha1 rfl)
    have hn1' : m1.now = m.now := by simpa using hn1
    split at h
    · simp at h
    · rename_i m2 b2 h2
      simp at h; subst h
      obtain ⟨segs2, hi2, hn2, _⟩ :=
        handle_char_inv cfg advSt wk text hT m1 m2 c rest b2 segs1 hi1 (by rw [hn1']; exact hc) h2
      refine ⟨segs2, hi2, ?_⟩
      -- the second call must have advanced
      obtain ⟨co, _, hq⟩ := allAdvance.char hadv c
      cases ho : cfg.lookup m1.status (.ch c) with
      | none => simp [handle, ho] at h2
      | some o =>
        simp only [ho, advOrRaise] at hq
        cases hs : summarize (cfg.code o.cls) with
        | none => simp [hs] at hq
        | some sm =>
          simp only [hs] at hq
          rw [handle_eq cfg text m1 _ o sm ho hs] at h2
          obtain ⟨hr, h2⟩ := execS_ok _ _ _ sm m1 m2 b2 h2
          simp only [hr, Bool.false_or, Bool.and_eq_true] at hq
          obtain ⟨_, _, _, hb, _⟩ :=
            execCore_inv (cfg.env text) o.status o.marks sm.adv sm.body sm.grp sm.st sm.ret m1 m2 b2 segs1 hi1.toInv h2
          have : b2 = true := by rw [hb]; exact hq.1.1.2
          simp [this] at hn2
          omega

theorem feedAll_inv (hT : TableOK cfg advSt wk = true) (cs : List Char) (m m' : Mem) (segs : List Seg)
    (hinv : Inv2 cfg wk text m segs) (hcs : text.drop m.now = cs) (h : feedAll cfg text cs m = .ok m') :
    ∃ segs', Inv2 cfg wk text m' segs' ∧ m'.now = m.now + cs.length := by
  induction cs generalizing m segs with
  | nil => simp [feedAll, feedAllWith] at h; subst h; exact ⟨segs, hinv, by simp⟩
  | cons c cs ih =>
    simp only [feedAll, feedAllWith] at h
    split at h
    · simp at h
    · rename_i m1 h1
      obtain ⟨segs1, hi1, hn1⟩ := feed_inv cfg advSt wk text hT m m1 c cs segs hinv hcs h1
      have hcs1 : text.drop m1.now = cs := by
        rw [hn1, ← List.drop_drop, hcs]; simp
      obtain ⟨segs2, hi2, hn2⟩ := ih m1 segs1 hi1 hcs1 h
      exact ⟨segs2, hi2, by simp [hn2, hn1]; omega⟩

theorem handle_eof_inv (hT : TableOK cfg advSt wk = true) (m m' : Mem) (b : Bool) (segs : List Seg)
    (hinv : Inv2 cfg wk text m segs) (h : handle cfg text m .eof = .ok (m', b)) :
    ∃ segs', Inv2 cfg wk text m' segs' ∧ m'.now = m.now := by
  have hc := TableOK.eof hT m.status
  cases ho : cfg.lookup m.status .eof with
  | none => simp [handle, ho] at h
  | some o =>
    simp only [ho, eofOK] at hc
    cases hs : summarize (cfg.code o.cls) with
    | none => simp [hs] at hc
    | some sm =>
      simp only [hs] at hc
      rw [handle_eq cfg text m _ o sm ho hs] at h
      obtain ⟨hr, h⟩ := execS_ok _ _ _ sm m m' b h
      simp only [hr, Bool.false_or, Bool.and_eq_true, Bool.not_eq_eq_eq_not, Bool.not_true] at hc
      obtain ⟨⟨hadv, hw⟩, hk⟩ := hc
      obtain ⟨segs', hi, hnow, _, _⟩ :=
        step_inv cfg wk text m m' b segs o sm none hinv (fun ha => by simp [hadv] at ha) hw hk h
      exact ⟨segs', hi, by simp [hnow, hadv]⟩

/-- C04(a), generic in the table: every accepted input is exactly covered by the leaf tokens, in
order, and gaps; every gap is empty, one blank, one bracket character, or begins with a comment opener -/
theorem lex_lossless (hT : TableOK cfg advSt wk = true) (hd : cfg.depthLimit ≤ 1) (raw : List Char) (toks : List Tok)
    (h : lex cfg raw = .ok toks) :
    ∃ segs : List Seg, (segs.map Seg.text).flatten = cfg.pre raw ∧ tokTexts segs = leavesL toks
      ∧ ∀ g ∈ gapTexts segs, gapOKb g = true := by
  unfold lex lexWith at h
  simp only at h
  split at h
  · simp at h
  · rename_i m hm
    have hinit : Inv2 cfg wk (cfg.pre raw) ({} : Mem) [] :=
      ⟨⟨by simp, by simp [tokTexts, allLeaves, leavesL], Nat.le_refl _⟩, fun _ => rfl,
        by simp [TableOK.wait hT, curWin, WK.claims], by simp [gapTexts]⟩
    obtain ⟨segs1, hi1, hn1⟩ := feedAll_inv cfg advSt wk (cfg.pre raw) hT (cfg.pre raw) {} m [] hinit (by simp) hm
    split at h
    · simp at h
    · rename_i m' b hm'
      obtain ⟨segs2, hi2, hn2⟩ := handle_eof_inv cfg advSt wk (cfg.pre raw) hT m m' b segs1 hi1 hm'
      unfold finish at h
      split at h
      · simp at h
      · rename_i hEnd
        split at h
        · simp at h
        · rename_i hlen
          split at h
          · rename_i f hf
            simp at h; subst h
            refine ⟨segs2, ?_, ?_, hi2.gaps⟩
            · have hs : m'.start = m'.now := hi2.emptyWin (by simp at hEnd; simp [isEmptySt, hEnd])
              have := hi2.cover
              rw [hs, hn2, hn1] at this
              simpa using this
            · have := hi2.toks
              rw [this]
              -- at most one frame is left, and it is the one returned
              cases hst : m'.stack with
              | nil => simp [hst] at hf
              | cons a as =>
                cases as with
                | nil => simp [hst] at hf; subst hf; simp [allLeaves]
                | cons b bs => simp [hst] at hlen; omega
          · simp at h

end Lex
