import MsqProofs.Lemmas.ParseSubst2
/-!
# C06, parser half — part 3: the look-aheads and pure helpers of the parser on two `QEL`-related cursors

One lemma per primitive of `MsqModel/Parse/Prim.lean` / helper of `Expr.lean` that is not a run, each with a `grind_pattern` on the term
for the FIRST cursor.  A comparison with a constant `k` needs `plainB k = true`, which `grind` finds among the generated facts of
`ParseSubstKw.lean` (one `@[grind =]` equation per string constant / literal list of the model).
-/
set_option linter.unusedSimpArgs false
set_option linter.unusedVariables false
set_option linter.unusedSectionVars false
set_option maxHeartbeats 1000000
open Lex PM Ast
namespace PMQ

/-- values are related through a function (the erasure of their type): `qeq f a b ↔ f a = f b` -/
def qeq {α β : Type} (f : α → β) (a b : α) : Prop := f a = f b
@[simp, grind =] theorem qeq_def {α β : Type} (f : α → β) (a b : α) : qeq f a b = (f a = f b) := rfl
@[grind =] theorem prod_map_mk {α β γ δ : Type} (f : α → γ) (g : β → δ) (a : α) (b : β) : Prod.map f g (a, b) = (f a, g b) := rfl

variable [S : PaySet]

/-- `close()` on two related runs -/
theorem closed_qe {α : Type} {rv : α → α → Prop} {a b : R α} (h : QER rv a b) : QEX rv (closed a) (closed b) := by
  match a, b, h with
  | .ok (v, r), .ok (v', r'), h =>
    simp at h
    cases r <;> cases r' <;> simp_all [closed]
  | .error e, .error e', h => simp at h; simp [closed, h]
  | .ok (_, _), .error _, h => simp at h
  | .error _, .ok (_, _), h => simp at h
grind_pattern closed_qe => QER rv a b, closed a

/-! ### erased texts and the tests the parser makes on STORED names -/
theorem er_inert {x y : String} (h : er x = er y) : x = y ∨ (inertB x = true ∧ inertB y = true) := by
  rw [er_eq_iff] at h
  rcases h with h | ⟨h1, h2⟩
  · exact .inl h
  · exact .inr ⟨S.inert _ h1, S.inert _ h2⟩
theorem inert_strEq {x w : String} (h : inertB x = true) (hw : ["CAST", "EXTRACT", "IF", "SUBSTRING"].contains w = true) : strEq (up x) w = false := by
  simp only [inertB, Bool.and_eq_true, Bool.not_eq_true'] at h
  have h1 := h.1
  simp only [strEq, beq_eq_false_iff_ne]
  rintro e; rw [e, hw] at h1; cases h1
theorem er_strEq_cast {x y : String} (h : er x = er y) : strEq (up x) "CAST" = strEq (up y) "CAST" := by
  rcases er_inert h with rfl | ⟨h1, h2⟩
  · rfl
  · rw [inert_strEq h1 (by decide), inert_strEq h2 (by decide)]
grind_pattern er_strEq_cast => er x, er y, strEq (up x) "CAST"
theorem er_strEq_extract {x y : String} (h : er x = er y) : strEq (up x) "EXTRACT" = strEq (up y) "EXTRACT" := by
  rcases er_inert h with rfl | ⟨h1, h2⟩
  · rfl
  · rw [inert_strEq h1 (by decide), inert_strEq h2 (by decide)]
grind_pattern er_strEq_extract => er x, er y, strEq (up x) "EXTRACT"
theorem er_strEq_if {x y : String} (h : er x = er y) : strEq (up x) "IF" = strEq (up y) "IF" := by
  rcases er_inert h with rfl | ⟨h1, h2⟩
  · rfl
  · rw [inert_strEq h1 (by decide), inert_strEq h2 (by decide)]
grind_pattern er_strEq_if => er x, er y, strEq (up x) "IF"
theorem er_er2 {x y : String} (h : er x = er y) : er2 x = er2 y := er2_of_er h
grind_pattern er_er2 => er x, er y, er2 x
theorem er2_app {a a' b b' : String} (h1 : er2 a = er2 a') (h2 : er2 b = er2 b') : er2 (a ++ b) = er2 (a' ++ b') := er2_append h1 h2
grind_pattern er2_app => er2 a, er2 a', er2 (a ++ b), er2 (a' ++ b')

/-! ### token facts, as `grind` rules -/
theorem g_has {t t' : Tok} (h : QE t t') (m : Nat) : t.has m = t'.has m := qe_has h m
grind_pattern g_has => QE t t', Tok.has t m
theorem g_er_src {t t' : Tok} (h : QE t t') : er t.src = er t'.src := qe_er_src h
grind_pattern g_er_src => QE t t', Tok.src t
theorem g_srcEqUp {t t' : Tok} (h : QE t t') (k : String) (hk : plainB k = true) : t.srcEqUp k = t'.srcEqUp k := qe_srcEqUp h k hk
grind_pattern g_srcEqUp => QE t t', Tok.srcEqUp t k
theorem g_srcEq {t t' : Tok} (h : QE t t') (k : String) (hk : plainB k = true) : t.srcEq k = t'.srcEq k := qe_srcEq h k hk
grind_pattern g_srcEq => QE t t', Tok.srcEq t k
theorem g_equalsStr {t t' : Tok} (h : QE t t') (k : String) (hk : plainB k = true) : t.equalsStr k = t'.equalsStr k := qe_equalsStr h k hk
grind_pattern g_equalsStr => QE t t', Tok.equalsStr t k
theorem g_strEq_up {t t' : Tok} (h : QE t t') (k : String) (hk : plainB k = true) : strEq (up t.src) k = strEq (up t'.src) k := qe_strEq_up h k hk
grind_pattern g_strEq_up => QE t t', strEq (up (Tok.src t)) k
theorem g_kwRel {t t' : Tok} (h : QE t t') : kwRel (up t.src) (up t'.src) := qe_kwRel h
grind_pattern g_kwRel => QE t t', up (Tok.src t)
theorem g_children {t t' : Tok} (h : QE t t') : QEL t.children t'.children := qe_children h
grind_pattern g_children => QE t t', Tok.children t
theorem g_unarySet {t t' : Tok} (h : QE t t') (d : Gen.D) : (Gen.unarySet d).contains t.src = (Gen.unarySet d).contains t'.src := qe_unarySet h d
grind_pattern g_unarySet => QE t t', (Gen.unarySet d).contains (Tok.src t)
theorem g_notSet {t t' : Tok} (h : QE t t') (d : Gen.D) : (Gen.notSet d).contains (up t.src) = (Gen.notSet d).contains (up t'.src) := qe_notSet h d
grind_pattern g_notSet => QE t t', (Gen.notSet d).contains (up (Tok.src t))
/-- the alias guard of `_parse_alias_expression`: applied to the RAW source, so a back-quoted `` `cross` `` is never one of the words -/
theorem g_aliasGuard {t t' : Tok} (h : QE t t') :
    ["CROSS", "USING", "SORT", "DISTRIBUTE", "CLUSTER"].contains (up t.src) = ["CROSS", "USING", "SORT", "DISTRIBUTE", "CLUSTER"].contains (up t'.src) :=
  qe_contains_up h _ (by decide)
grind_pattern g_aliasGuard => QE t t', ["CROSS", "USING", "SORT", "DISTRIBUTE", "CLUSTER"].contains (up (Tok.src t))
theorem g_compareOp {t t' : Tok} (h : QE t t') : compareOp? t.src = compareOp? t'.src := qe_compareOp h
grind_pattern g_compareOp => QE t t', compareOp? (Tok.src t)
theorem g_computeOp {t t' : Tok} (h : QE t t') : computeOp? (up t.src) = computeOp? (up t'.src) := qe_computeOp h
grind_pattern g_computeOp => QE t t', computeOp? (up (Tok.src t))
theorem g_castTypes {t t' : Tok} (h : QE t t') :
    Gen.castTypes.find? (fun k => t.equalsStr k.2) = Gen.castTypes.find? (fun k => t'.equalsStr k.2) := qe_castTypes h
grind_pattern g_castTypes => QE t t', Gen.castTypes.find? (fun k => t.equalsStr k.2)
theorem g_pyInt {t t' : Tok} (h : QE t t') : pyInt t.src = pyInt t'.src := qe_pyInt h
grind_pattern g_pyInt => QE t t', pyInt (Tok.src t)
theorem g_asInt {t t' : Tok} (h : QE t t') : asInt t.src = asInt t'.src := qe_asInt h
grind_pattern g_asInt => QE t t', asInt (Tok.src t)
theorem g_unifyName {t t' : Tok} (h : QE t t') : er (unifyName t.src) = er (unifyName t'.src) := qe_er_unify h
grind_pattern g_unifyName => QE t t', unifyName (Tok.src t)
/-- `_parse_function_name_expression` / `_parse_table_name_expression` on ONE token: only for NAME tokens -/
theorem g_splitName {t t' : Tok} (h : QE t t') (hn : t.has NAME = true) :
    QEX (qeq (Prod.map (Option.map er) er)) (splitName t.src) (splitName t'.src) := by
  rcases qe_splitName h hn with e | ⟨e1, e2⟩
  · rw [e]; cases splitName t'.src <;> simp
  · rw [e1, e2]; simp [qe_er_unify h]
grind_pattern g_splitName => QE t t', splitName (Tok.src t)

/-! ### look-aheads on the head of the cursor -/
section cur
variable {ts ts' : List Tok} (h : QEL ts ts')
include h
theorem qel_searchStrUp (k : String) (hk : plainB k = true) : searchStrUp ts k = searchStrUp ts' k := by
  cases ts <;> cases ts' <;> simp_all [searchStrUp]; exact qe_srcEqUp h.1 k hk
theorem qel_searchStr (k : String) (hk : plainB k = true) : searchStr ts k = searchStr ts' k := by
  cases ts <;> cases ts' <;> simp_all [searchStr]; exact qe_srcEq h.1 k hk
theorem qel_searchMark (m : Nat) : searchMark ts m = searchMark ts' m := by
  cases ts <;> cases ts' <;> simp_all [searchMark]; exact qe_has h.1 m
theorem qel_searchSetUp (ks : List String) (hk : ks.all plainB = true) : searchSetUp ts ks = searchSetUp ts' ks := by
  cases ts with
  | nil => rw [qel_nil_left h]
  | cons t r => cases ts' with
    | nil => simp at h
    | cons t' r' => simp at h; simp only [searchSetUp]; exact qe_contains_up h.1 ks hk
theorem qel_searchSet_compare : searchSet ts Gen.compareSet = searchSet ts' Gen.compareSet := by
  cases ts with
  | nil => rw [qel_nil_left h]
  | cons t r => cases ts' with
    | nil => simp at h
    | cons t' r' => simp at h; simp only [searchSet]; exact qe_contains_src h.1 Gen.compareSet (by decide)
theorem qel_searchTwoUp (a b : String) (ha : plainB a = true) (hb : plainB b = true) : searchTwoUp ts a b = searchTwoUp ts' a b := by
  unfold searchTwoUp
  match ts, ts', h with
  | [], [], _ => rfl
  | [_], [_], _ => rfl
  | x :: y :: _, x' :: y' :: _, h => simp at h; simp [qe_srcEqUp h.1 a ha, qe_srcEqUp h.2.1 b hb]
  | [], _ :: _, h => simp at h
  | _ :: _, [], h => simp at h
  | [_], _ :: _ :: _, h => simp at h
  | _ :: _ :: _, [_], h => simp at h
theorem qel_searchThreeUp (a b c : String) (ha : plainB a = true) (hb : plainB b = true) (hc : plainB c = true) :
    searchThreeUp ts a b c = searchThreeUp ts' a b c := by
  unfold searchThreeUp
  match ts, ts', h with
  | [], [], _ => rfl
  | [_], [_], _ => rfl
  | [_, _], [_, _], _ => rfl
  | x :: y :: z :: _, x' :: y' :: z' :: _, h => simp at h; simp [qe_srcEqUp h.1 a ha, qe_srcEqUp h.2.1 b hb, qe_srcEqUp h.2.2.1 c hc]
  | [], _ :: _, h => simp at h
  | _ :: _, [], h => simp at h
  | [_], _ :: _ :: _, h => simp at h
  | _ :: _ :: _, [_], h => simp at h
  | [_, _], _ :: _ :: _ :: _, h => simp at h
  | _ :: _ :: _ :: _, [_, _], h => simp at h
theorem qel_searchSeq (ks : List String) (hk : ks.all plainB = true) : searchSeq ts ks = searchSeq ts' ks := by
  induction ks generalizing ts ts' with
  | nil => simp [searchSeq]
  | cons k ks ih =>
    simp only [List.all_cons, Bool.and_eq_true] at hk
    cases ts <;> cases ts' <;> simp_all [searchSeq]
    rw [qe_equalsStr h.1 k hk.1, ih h.2]
theorem qel_startsSelect : startsSelect ts = startsSelect ts' := qel_searchSetUp h _ (by decide)
theorem qel_headIsOver : headIsOver ts = headIsOver ts' := by
  cases ts <;> cases ts' <;> simp_all [headIsOver]; exact qe_srcEqUp h.1 _ (by decide)
theorem qel_setOpHead : setOpHead ts = setOpHead ts' := by
  cases ts <;> cases ts' <;> simp_all [setOpHead]; simpa using qe_contains_up h.1 ["UNION","EXCEPT","INTERSECT","MINUS"] (by decide)
theorem qel_joinHead : joinHead ts = joinHead ts' := by
  cases ts <;> cases ts' <;> simp_all [joinHead]; simpa using qe_contains_up h.1 ["JOIN","INNER","LEFT","RIGHT","FULL","CROSS"] (by decide)
theorem qel_onUsingHead : onUsingHead ts = onUsingHead ts' := by
  cases ts <;> cases ts' <;> simp_all [onUsingHead]; simpa using qe_contains_up h.1 ["ON","USING"] (by decide)
theorem qel_chainsOn : chainsOn ts = chainsOn ts' := by
  cases ts <;> cases ts' <;> simp_all [chainsOn]
  simpa using qe_contains_up h.1 ["NOT","BETWEEN","IS","IN","LIKE","RLIKE","REGEXP"] (by decide)
theorem qel_skipNot (d : Gen.D) : (skipNot d ts).1 = (skipNot d ts').1 ∧ QEL (skipNot d ts).2 (skipNot d ts').2 := by
  cases ts with
  | nil => rw [qel_nil_left h]; simp [skipNot]
  | cons t r => cases ts' with
    | nil => simp at h
    | cons t' r' =>
      simp at h; simp only [skipNot]
      rw [qe_notSet h.1 d]; split <;> simp_all
theorem qel_moveStrUp (k : String) (hk : plainB k = true) : (moveStrUp ts k).1 = (moveStrUp ts' k).1 ∧ QEL (moveStrUp ts k).2 (moveStrUp ts' k).2 := by
  unfold moveStrUp; rw [qel_searchStrUp h k hk]; split <;> first | exact ⟨rfl, qel_drop h _⟩ | exact ⟨rfl, h⟩
theorem qel_moveStr (k : String) (hk : plainB k = true) : (moveStr ts k).1 = (moveStr ts' k).1 ∧ QEL (moveStr ts k).2 (moveStr ts' k).2 := by
  unfold moveStr; rw [qel_searchStr h k hk]; split <;> first | exact ⟨rfl, qel_drop h _⟩ | exact ⟨rfl, h⟩
theorem qel_moveSetUp (ks : List String) (hk : ks.all plainB = true) : (moveSetUp ts ks).1 = (moveSetUp ts' ks).1 ∧ QEL (moveSetUp ts ks).2 (moveSetUp ts' ks).2 := by
  unfold moveSetUp; rw [qel_searchSetUp h ks hk]; split <;> first | exact ⟨rfl, qel_drop h _⟩ | exact ⟨rfl, h⟩
theorem qel_moveSeq (ks : List String) (hk : ks.all plainB = true) : (moveSeq ts ks).1 = (moveSeq ts' ks).1 ∧ QEL (moveSeq ts ks).2 (moveSeq ts' ks).2 := by
  unfold moveSeq; rw [qel_searchSeq h ks hk]; split <;> first | exact ⟨rfl, qel_drop h _⟩ | exact ⟨rfl, h⟩
theorem qel_moveTwoUp (a b : String) (ha : plainB a = true) (hb : plainB b = true) :
    (moveTwoUp ts a b).1 = (moveTwoUp ts' a b).1 ∧ QEL (moveTwoUp ts a b).2 (moveTwoUp ts' a b).2 := by
  unfold moveTwoUp; rw [qel_searchTwoUp h a b ha hb]; split <;> first | exact ⟨rfl, qel_drop h _⟩ | exact ⟨rfl, h⟩
theorem qel_moveThreeUp (a b c : String) (ha : plainB a = true) (hb : plainB b = true) (hc : plainB c = true) :
    (moveThreeUp ts a b c).1 = (moveThreeUp ts' a b c).1 ∧ QEL (moveThreeUp ts a b c).2 (moveThreeUp ts' a b c).2 := by
  unfold moveThreeUp; rw [qel_searchThreeUp h a b c ha hb hc]; split <;> first | exact ⟨rfl, qel_drop h _⟩ | exact ⟨rfl, h⟩
/-- `for m in Enum: if search_and_move(*m.value)`: the same member, related rests -/
theorem qel_firstEnum (tbl : List (String × List String)) (ht : (tbl.all fun e => e.2.all plainB) = true) :
    (firstEnum tbl ts = none ∧ firstEnum tbl ts' = none) ∨
    (∃ n r r', firstEnum tbl ts = some (n, r) ∧ firstEnum tbl ts' = some (n, r') ∧ QEL r r') := by
  induction tbl with
  | nil => simp [firstEnum]
  | cons e tbl ih =>
    obtain ⟨n, ks⟩ := e
    simp only [List.all_cons, Bool.and_eq_true] at ht
    simp only [firstEnum, qel_searchSeq h ks ht.1]
    split
    · exact .inr ⟨n, _, _, rfl, rfl, qel_drop h _⟩
    · exact ih ht.2
theorem qel_firstEnum_join :
    (firstEnum Gen.joinTypes ts = none ∧ firstEnum Gen.joinTypes ts' = none) ∨
    (∃ n r r', firstEnum Gen.joinTypes ts = some (n, r) ∧ firstEnum Gen.joinTypes ts' = some (n, r') ∧ QEL r r') :=
  qel_firstEnum h _ (by decide)
theorem qel_firstEnum_union :
    (firstEnum Gen.unionTypes ts = none ∧ firstEnum Gen.unionTypes ts' = none) ∨
    (∃ n r r', firstEnum Gen.unionTypes ts = some (n, r) ∧ firstEnum Gen.unionTypes ts' = some (n, r') ∧ QEL r r') :=
  qel_firstEnum h _ (by decide)
theorem qel_substringRewrite (u u' : String) (hu : strEq u "SUBSTRING" = strEq u' "SUBSTRING") : QEL (substringRewrite u ts) (substringRewrite u' ts') := by
  unfold substringRewrite
  simp only [strEq] at hu
  rw [hu]
  split
  · induction ts generalizing ts' with
    | nil => rw [qel_nil_left h]; simp
    | cons t ts ih =>
      cases ts' with
      | nil => simp at h
      | cons t' ts' =>
        simp at h
        have e1 := qe_strEq_up h.1 "FROM" (by decide)
        have e2 := qe_strEq_up h.1 "FOR" (by decide)
        simp only [strEq] at e1 e2
        simp only [List.map_cons, qel_cons_cons, e1, e2]
        refine ⟨?_, ih h.2⟩
        split
        · exact QE.refl _
        · exact h.1
  · exact h
end cur
grind_pattern qel_searchStrUp => QEL ts ts', searchStrUp ts k
grind_pattern qel_searchStr => QEL ts ts', searchStr ts k
grind_pattern qel_searchMark => QEL ts ts', searchMark ts m
grind_pattern qel_searchSetUp => QEL ts ts', searchSetUp ts ks
grind_pattern qel_searchSet_compare => QEL ts ts', searchSet ts Gen.compareSet
grind_pattern qel_searchTwoUp => QEL ts ts', searchTwoUp ts a b
grind_pattern qel_searchThreeUp => QEL ts ts', searchThreeUp ts a b c
grind_pattern qel_searchSeq => QEL ts ts', searchSeq ts ks
grind_pattern qel_startsSelect => QEL ts ts', startsSelect ts
grind_pattern qel_headIsOver => QEL ts ts', headIsOver ts
grind_pattern qel_setOpHead => QEL ts ts', setOpHead ts
grind_pattern qel_joinHead => QEL ts ts', joinHead ts
grind_pattern qel_onUsingHead => QEL ts ts', onUsingHead ts
grind_pattern qel_chainsOn => QEL ts ts', chainsOn ts
grind_pattern qel_skipNot => QEL ts ts', skipNot d ts
grind_pattern qel_moveStrUp => QEL ts ts', moveStrUp ts k
grind_pattern qel_moveStr => QEL ts ts', moveStr ts k
grind_pattern qel_moveSetUp => QEL ts ts', moveSetUp ts ks
grind_pattern qel_moveSeq => QEL ts ts', moveSeq ts ks
grind_pattern qel_moveTwoUp => QEL ts ts', moveTwoUp ts a b
grind_pattern qel_moveThreeUp => QEL ts ts', moveThreeUp ts a b c
grind_pattern qel_firstEnum_join => QEL ts ts', firstEnum Gen.joinTypes ts
grind_pattern qel_firstEnum_union => QEL ts ts', firstEnum Gen.unionTypes ts

/-- `pop_as_children_scanner_list_split_by(",")` -/
theorem qel_splitBy (sep : String) (hs : plainB sep = true) : ∀ (ts ts' cur cur' : List Tok) (acc acc' : List (List Tok)), QEL ts ts' → QEL cur cur' → QELL acc acc' →
    QELL (splitBy sep ts cur acc) (splitBy sep ts' cur' acc') := by
  intro ts
  induction ts with
  | nil =>
    intro ts' cur cur' acc acc' h hc ha
    rw [qel_nil_left h]
    simp only [splitBy, qel_isEmpty hc]
    split
    · exact ha
    · exact qell_append ha (by simp [hc])
  | cons t r ih =>
    intro ts' cur cur' acc acc' h hc ha
    cases ts' with
    | nil => simp at h
    | cons t' r' =>
      simp at h
      simp only [splitBy, qe_equalsStr h.1 sep hs, qel_isEmpty hc]
      split
      · split
        · exact ih _ _ _ _ _ h.2 (by simp) ha
        · exact ih _ _ _ _ _ h.2 (by simp) (qell_append ha (by simp [hc]))
      · exact ih _ _ _ _ _ h.2 (qel_append hc (by simp [h.1])) ha
theorem qel_splitBy0 {ts ts' : List Tok} (h : QEL ts ts') : QELL (splitBy "," ts [] []) (splitBy "," ts' [] []) :=
  qel_splitBy "," (by decide) ts ts' [] [] [] [] h (by simp) (by simp)
grind_pattern qel_splitBy0 => QEL ts ts', splitBy "," ts [] []

/-- `_parse_function_expression`, the pure part: aggregate?, DISTINCT seen?, argument tokens.  The name is a STORED text: if it is a payload
text it is inert (`PaySet.inert`): no aggregation name, not `SUBSTRING`. -/
theorem qel_callPrep {name name' : String} {g g' : Tok} (hn : er name = er name') (h : QE g g') :
    (callPrep name g).1 = (callPrep name' g').1 ∧ (callPrep name g).2.1 = (callPrep name' g').2.1 ∧ QEL (callPrep name g).2.2 (callPrep name' g').2.2 := by
  have hu : strEq (up name) "SUBSTRING" = strEq (up name') "SUBSTRING" := by
    rcases er_inert hn with rfl | ⟨h1, h2⟩
    · rfl
    · rw [inert_strEq h1 (by decide), inert_strEq h2 (by decide)]
  have ha : Gen.aggNames.contains (up name) = Gen.aggNames.contains (up name') := by
    rcases er_inert hn with rfl | ⟨h1, h2⟩
    · rfl
    · simp only [inertB, Bool.and_eq_true, Bool.not_eq_true'] at h1 h2
      rw [h1.2, h2.2]
  have hs := qel_substringRewrite (qe_children h) (up name) (up name') hu
  have hm := qel_moveStrUp hs "DISTINCT" (by decide)
  unfold callPrep
  simp only [← ha]
  split <;> simp_all
grind_pattern qel_callPrep => QE g g', callPrep name g, callPrep name' g'
theorem callNode_qe {schema schema' : Option String} {name name' : String} {a d : Bool} {ps ps' : List Expr}
    (hs : schema.map er = schema'.map er) (hn : er name = er name') (hp : ps.map erE = ps'.map erE) :
    erE (callNode schema name a d ps) = erE (callNode schema' name' a d ps') := by
  have : schema.isNone = schema'.isNone := by cases schema <;> cases schema' <;> simp_all
  unfold callNode
  rw [this]
  split <;> simp [erE, erEs_eq, hs, hn, hp]
grind_pattern callNode_qe => callNode schema name a d ps, callNode schema' name' a d ps'

/-- the operator stack of the compute loop -/
theorem reduceWhile_qe (lvl : Nat) : ∀ (st st' : List (Expr × String × Nat)) (top top' : Expr), erSt st = erSt st' → erE top = erE top' →
    erSt (reduceWhile lvl st top).1 = erSt (reduceWhile lvl st' top').1 ∧ erE (reduceWhile lvl st top).2 = erE (reduceWhile lvl st' top').2 := by
  intro st
  induction st with
  | nil => intro st' top top' hs ht; cases st' <;> simp_all [erSt, reduceWhile]
  | cons p st ih =>
    intro st' top top' hs ht
    cases st' with
    | nil => simp [erSt] at hs
    | cons p' st' =>
      obtain ⟨l, o, k⟩ := p; obtain ⟨l', o', k'⟩ := p'
      simp [erSt] at hs
      obtain ⟨⟨h1, h2, rfl⟩, h3⟩ := hs
      simp only [reduceWhile]
      split
      · exact ih st' _ _ (by simpa [erSt] using h3) (by simp [erE, h1, h2, ht])
      · simp [erSt, h1, h2, h3, ht]
grind_pattern reduceWhile_qe => reduceWhile lvl st top, reduceWhile lvl st' top'
theorem collapse_qe : ∀ (st st' : List (Expr × String × Nat)) (top top' : Expr), erSt st = erSt st' → erE top = erE top' →
    erE (collapse st top) = erE (collapse st' top') := by
  intro st
  induction st with
  | nil => intro st' top top' hs ht; cases st' <;> simp_all [erSt, collapse]
  | cons p st ih =>
    intro st' top top' hs ht
    cases st' with
    | nil => simp [erSt] at hs
    | cons p' st' =>
      obtain ⟨l, o, k⟩ := p; obtain ⟨l', o', k'⟩ := p'
      simp [erSt] at hs
      obtain ⟨⟨h1, h2, rfl⟩, h3⟩ := hs
      simp only [collapse]
      exact ih st' _ _ (by simpa [erSt] using h3) (by simp [erE, h1, h2, ht])
grind_pattern collapse_qe => collapse st top, collapse st' top'
@[grind =] theorem erSt_cons (l : Expr) (o : String) (k : Nat) (st : List (Expr × String × Nat)) :
    erSt ((l, o, k) :: st) = (erE l, er o, k) :: erSt st := by simp [erSt]
@[grind =] theorem erSt_nil : erSt [] = [] := rfl
theorem setWiths_qe {s s' : Select} (h : erS s = erS s') : erS (setWiths s) = erS (setWiths s') := by
  cases s; cases s'
  simp only [erS_mk, Select.mk.injEq] at h
  simp only [setWiths, erS_mk, Select.mk.injEq]
  simp_all
grind_pattern setWiths_qe => setWiths s, setWiths s'

end PMQ
