import MsqProofs.Lemmas.LexSim
import MsqProofs.Lemmas.LexLossless
import MsqProofs.Lemmas.LexSpec
import MsqProofs.Lemmas.LexSkel
/-!
# Lexing a text in front of a separator — generic part of C10 at text level

Used by `MsqProofs/Props/C10T.lean`.  Everything here is generic in the table (`cfg : Cfg Gen.Cls` with the generated
micro-code), the per-setting facts (summarisable code, `TableOK`, depth limit, end state) are hypotheses.

1. `PfxRel`: two runs of the lexer on texts with a common suffix whose memories agree up to position offsets and up to
   a list of tokens `P` standing in front of the BOTTOM frame of the first.  One summarised operation preserves the
   relation (`execCore_pfx`), hence `handle`, `feedWith`, `feedAllWith`, `finish` and `runTail` do (`runTail_pfx`):
   the first run returns `P ++` what the second returns, or both fail with the same error.
2. `closesWith cfg c s`: the cell of character `c` in state `s` ends the pending token exactly as the END cell of `s`
   does and reads `c` again between tokens.  `sepToks cfg c`: what the cell of `c` between tokens leaves behind (one
   token, or nothing).
3. `lexText_sep`: if `u1` is accepted with tokens `ts1`, ends in a state that `c` closes, then
   `lexText (u1 ++ c :: u2) = (lexText u2).map (ts1 ++ sepToks c ++ ·)` — whatever `u2` is, also when it is rejected.
-/
namespace Lex

/-! ## 1. a list of tokens in front of the bottom frame -/

/-- `P` in front of the bottom (last) frame -/
def addPfx (P : List Tok) : List (List Tok) → List (List Tok)
  | [] => []
  | [f] => [P ++ f]
  | f :: g :: r => f :: addPfx P (g :: r)

theorem addPfx_length (P : List Tok) : ∀ stk, (addPfx P stk).length = stk.length
  | [] => rfl
  | [_] => rfl
  | _ :: g :: r => by simp [addPfx, addPfx_length P (g :: r)]

theorem addPfx_getLast? (P : List Tok) : ∀ stk, (addPfx P stk).getLast? = stk.getLast?.map (P ++ ·)
  | [] => rfl
  | [_] => rfl
  | f :: g :: r => by
    have := addPfx_getLast? P (g :: r)
    cases h : addPfx P (g :: r) with
    | nil => have := addPfx_length P (g :: r); rw [h] at this; cases this
    | cons x xs =>
      rw [h] at this
      simp only [addPfx, h, List.getLast?_cons_cons]
      exact this

theorem addPfx_nil (stk : List (List Tok)) : addPfx [] stk = stk := by
  induction stk with
  | nil => rfl
  | cons f fs ih =>
    cases fs with
    | nil => rfl
    | cons g r => simp [addPfx, ih]

/-- memories that agree up to constant position offsets `A1`, `A2`, the first having `P` in front of its bottom frame -/
structure PfxRel (P : List Tok) (A1 A2 : Nat) (m1 m2 : Mem) : Prop where
  status : m1.status = m2.status
  stack : m1.stack = addPfx P m2.stack
  ne : m2.stack ≠ []
  pos : A1 ≤ m1.start ∧ A1 ≤ m1.now ∧ m2.start = A2 + (m1.start - A1) ∧ m2.now = A2 + (m1.now - A1)

theorem PfxRel.pos' {P : List Tok} {A1 A2 : Nat} {m1 m2 : Mem} (h : PfxRel P A1 A2 m1 m2) :
    ∃ i j, m1.start = A1 + i ∧ m2.start = A2 + i ∧ m1.now = A1 + j ∧ m2.now = A2 + j :=
  ⟨m1.start - A1, m1.now - A1, by have := h.pos; omega, h.pos.2.2.1, by have := h.pos; omega, h.pos.2.2.2⟩

abbrev PStepRel (P : List Tok) (A1 A2 : Nat) (x y : Mem × Bool) : Prop := PfxRel P A1 A2 x.1 y.1 ∧ x.2 = y.2

section psim
variable (P : List Tok) (env1 env2 : Env) (P1 P2 B : List Char)
  (hup : env1.upper = env2.upper) (hwm : env1.wordMarks = env2.wordMarks)
  (ht1 : env1.text = P1 ++ B) (ht2 : env2.text = P2 ++ B) (ss : S) (sm : Nat)
include hup hwm ht1 ht2

theorem execCore_pfx (adv : Bool) (body : Body) (grp : Grp) (st : St) (ret : Bool) (m1 m2 : Mem)
    (hm : PfxRel P P1.length P2.length m1 m2) :
    ERel (PStepRel P P1.length P2.length) (execCore env1 ss sm adv body grp st ret m1)
      (execCore env2 ss sm adv body grp st ret m2) := by
  obtain ⟨i, j, h1, h2, h3, h4⟩ := hm.pos'
  obtain ⟨s1, n1, q1, k1⟩ := m1
  obtain ⟨s2, n2, q2, k2⟩ := m2
  obtain ⟨hst, hstk, hne, -⟩ := hm
  simp only at hst hstk hne h1 h2 h3 h4
  subst hst hstk h1 h2 h3 h4
  have hw : ∀ j', ((env1.text.drop (P1.length + i)).take (P1.length + j' - (P1.length + i))) =
      ((env2.text.drop (P2.length + i)).take (P2.length + j' - (P2.length + i))) := by
    intro j'; rw [ht1, ht2, slice_suffix, slice_suffix]
  have hw1 := hw (j + 1)
  have hw0 := hw j
  simp only [← Nat.add_assoc] at hw1
  match k2, hne with
  | [f], _ =>
    cases adv <;> cases body <;> cases grp <;>
      simp [execCore, addPfx, appendTop, ERel, PStepRel, hw0, hw1, hup, hwm] <;>
      constructor <;> simp [addPfx] <;> omega
  | [f, g], _ =>
    cases adv <;> cases body <;> cases grp <;>
      simp [execCore, addPfx, appendTop, ERel, PStepRel, hw0, hw1, hup, hwm] <;>
      constructor <;> simp [addPfx] <;> omega
  | f :: g :: g' :: r, _ =>
    cases adv <;> cases body <;> cases grp <;>
      simp [execCore, addPfx, appendTop, ERel, PStepRel, hw0, hw1, hup, hwm] <;>
      constructor <;> simp [addPfx] <;> omega

end psim

/-! ### lifting a step relation through `feedWith`, `feedAllWith` -/

section lift
variable {Rm : Mem → Mem → Prop} {h1 h2 : Mem → Sym → Except Err (Mem × Bool)}
  (hh : ∀ m1 m2 sym, Rm m1 m2 → ERel (fun x y => Rm x.1 y.1 ∧ x.2 = y.2) (h1 m1 sym) (h2 m2 sym))
include hh

theorem feedWith_rel (m1 m2 : Mem) (c : Char) (hm : Rm m1 m2) : ERel Rm (feedWith h1 m1 c) (feedWith h2 m2 c) := by
  have a := hh m1 m2 (.ch c) hm
  simp only [feedWith]
  cases e1 : h1 m1 (.ch c) with
  | error x =>
    cases e2 : h2 m2 (.ch c) with
    | error y => rw [e1, e2] at a; simpa [ERel] using a
    | ok y => rw [e1, e2] at a; exact a.elim
  | ok x =>
    cases e2 : h2 m2 (.ch c) with
    | error y => rw [e1, e2] at a; exact a.elim
    | ok y =>
      rw [e1, e2] at a
      obtain ⟨x1, xb⟩ := x
      obtain ⟨y1, yb⟩ := y
      obtain ⟨hmem, hb⟩ := a
      simp only at hmem hb
      subst hb
      cases xb with
      | true => simpa [ERel] using hmem
      | false =>
        simp only []
        have b := hh x1 y1 (.ch c) hmem
        cases f1 : h1 x1 (.ch c) with
        | error u =>
          cases f2 : h2 y1 (.ch c) with
          | error v => rw [f1, f2] at b; simpa [ERel] using b
          | ok v => rw [f1, f2] at b; exact b.elim
        | ok u =>
          cases f2 : h2 y1 (.ch c) with
          | error v => rw [f1, f2] at b; exact b.elim
          | ok v => rw [f1, f2] at b; simpa [ERel] using b.1

theorem feedAllWith_rel (cs : List Char) : ∀ (m1 m2 : Mem), Rm m1 m2 →
    ERel Rm (feedAllWith h1 cs m1) (feedAllWith h2 cs m2) := by
  induction cs with
  | nil => intro m1 m2 hm; simpa [feedAllWith, ERel] using hm
  | cons c cs ih =>
    intro m1 m2 hm
    have a := feedWith_rel hh m1 m2 c hm
    simp only [feedAllWith]
    cases e1 : feedWith h1 m1 c with
    | error x =>
      cases e2 : feedWith h2 m2 c with
      | error y => rw [e1, e2] at a; simpa [ERel] using a
      | ok y => rw [e1, e2] at a; exact a.elim
    | ok x =>
      cases e2 : feedWith h2 m2 c with
      | error y => rw [e1, e2] at a; exact a.elim
      | ok y => rw [e1, e2] at a; exact ih x y a

end lift

section pdrv
variable {Cls : Type} (cfg : Cfg Cls) (hsum : ∀ c, (summarize (cfg.code c)).isSome = true) (P : List Tok)
  (P1 P2 B : List Char)
include hsum

theorem handle_pfx (m1 m2 : Mem) (sym : Sym) (hm : PfxRel P P1.length P2.length m1 m2) :
    ERel (PStepRel P P1.length P2.length) (handle cfg (P1 ++ B) m1 sym) (handle cfg (P2 ++ B) m2 sym) := by
  cases ho : cfg.lookup m2.status sym with
  | none => simp [handle, hm.status, ho, ERel]
  | some o =>
    cases hs : summarize (cfg.code o.cls) with
    | none => have := hsum o.cls; rw [hs] at this; cases this
    | some sm =>
      rw [handle_eq cfg (P1 ++ B) m1 sym o sm (by rw [hm.status]; exact ho) hs, handle_eq cfg (P2 ++ B) m2 sym o sm ho hs]
      have hbl : sm.blocked m1 = sm.blocked m2 := by simp only [Summary.blocked, hm.stack, addPfx_length]
      simp only [execS, hbl]
      cases sm.blocked m2
      · cases sm.raises
        · simp only [Bool.false_eq_true, if_false]
          exact execCore_pfx P (cfg.env (P1 ++ B)) (cfg.env (P2 ++ B)) P1 P2 B rfl rfl rfl rfl _ _ _ _ _ _ _ m1 m2 hm
        · simp [ERel]
      · simp [ERel]

theorem feedAllWith_pfx (cs : List Char) (m1 m2 : Mem) (hm : PfxRel P P1.length P2.length m1 m2) :
    ERel (PfxRel P P1.length P2.length) (feedAllWith (handle cfg (P1 ++ B)) cs m1)
      (feedAllWith (handle cfg (P2 ++ B)) cs m2) :=
  feedAllWith_rel (fun a b sym h => handle_pfx cfg hsum P P1 P2 B a b sym h) cs m1 m2 hm

omit hsum in
theorem finish_pfx (m1 m2 : Mem) (hm : PfxRel P P1.length P2.length m1 m2) :
    finish cfg m1 = (finish cfg m2).map (P ++ ·) := by
  simp only [finish, hm.status, hm.stack, addPfx_length, addPfx_getLast?]
  split
  · rfl
  · split
    · rfl
    · cases m2.stack.getLast? <;> rfl

/-- the rest of two runs from memories related by `PfxRel P`: the first returns `P ++` the result of the second -/
theorem runTail_pfx (cs : List Char) (m1 m2 : Mem) (hm : PfxRel P P1.length P2.length m1 m2) :
    runTail cfg (P1 ++ B) cs m1 = (runTail cfg (P2 ++ B) cs m2).map (P ++ ·) := by
  have a := feedAllWith_pfx cfg hsum P P1 P2 B cs m1 m2 hm
  simp only [runTail]
  cases e1 : feedAllWith (handle cfg (P1 ++ B)) cs m1 with
  | error x =>
    cases e2 : feedAllWith (handle cfg (P2 ++ B)) cs m2 with
    | error y => rw [e1, e2] at a; simp only [ERel] at a; subst a; rfl
    | ok y => rw [e1, e2] at a; exact a.elim
  | ok x =>
    cases e2 : feedAllWith (handle cfg (P2 ++ B)) cs m2 with
    | error y => rw [e1, e2] at a; exact a.elim
    | ok y =>
      rw [e1, e2] at a
      simp only []
      have b := handle_pfx cfg hsum P P1 P2 B x y .eof a
      cases f1 : handle cfg (P1 ++ B) x .eof with
      | error u =>
        cases f2 : handle cfg (P2 ++ B) y .eof with
        | error v => rw [f1, f2] at b; simp only [ERel] at b; subst b; rfl
        | ok v => rw [f1, f2] at b; exact b.elim
      | ok u =>
        cases f2 : handle cfg (P2 ++ B) y .eof with
        | error v => rw [f1, f2] at b; exact b.elim
        | ok v =>
          rw [f1, f2] at b
          exact finish_pfx cfg P P1 P2 u.1 v.1 b.1

end pdrv

/-! ## 2. separators -/

/-- what the cell of `c` between tokens leaves behind: one token (`emitStay`), or nothing (`skip`) -/
def sepToks (cfg : Cfg Gen.Cls) (c : Char) : Option (List Tok) :=
  match cfg.lookup .WAIT (.ch c) with
  | none => none
  | some o =>
    if o = Spec.skip then some []
    else if o = Spec.emitStay o.marks then some [.single [c] o.marks] else none

/-- the same as a decidable description: `some none` nothing, `some (some k)` one token with marks `k` -/
def sepMark (cfg : Cfg Gen.Cls) (c : Char) : Option (Option Nat) :=
  match cfg.lookup .WAIT (.ch c) with
  | none => none
  | some o =>
    if o = Spec.skip then some none
    else if o = Spec.emitStay o.marks then some (some o.marks) else none

def markToks (c : Char) : Option Nat → List Tok
  | none => []
  | some k => [.single [c] k]

theorem sepToks_of_mark {cfg : Cfg Gen.Cls} {c : Char} {k : Option Nat} (h : sepMark cfg c = some k) :
    sepToks cfg c = some (markToks c k) := by
  simp only [sepMark, sepToks] at *
  cases ho : cfg.lookup .WAIT (.ch c) with
  | none => rw [ho] at h; cases h
  | some o =>
    rw [ho] at h
    simp only at h ⊢
    by_cases h1 : o = Spec.skip
    · simp only [h1, if_true, Option.some.injEq] at h ⊢
      subst h; rfl
    · simp only [h1, if_false] at h ⊢
      by_cases h2 : o = Spec.emitStay o.marks
      · rw [if_pos h2] at h ⊢
        simp only [Option.some.injEq] at h
        subst h; rfl
      · rw [if_neg h2] at h; cases h

/-- the cell of `c` in state `s` ends what is pending exactly as the END cell of `s` does, and `c` is read again
between tokens -/
def closesWith (cfg : Cfg Gen.Cls) (c : Char) (s : S) : Bool :=
  match cfg.lookup s .eof, cfg.lookup s (.ch c) with
  | some oe, some oc =>
    (s == .WAIT && oe == Spec.finish) || (oe == Spec.emitAtEnd oe.marks && oc == Spec.emitBefore oe.marks)
      || (oe == Spec.emitWordAtEnd && oc == Spec.emitWordBefore) || (oe == Spec.dropAtEnd && oc == Spec.dropBefore)
  | _, _ => false

/-- the state at the end of a text (status projection of the run, `LexSkel.trace`) -/
def endState (cfg : Cfg Gen.Cls) (text : List Char) : S := (trace cfg .WAIT text).1

theorem goodCode_of {cfg : Cfg Gen.Cls} (hc : cfg.code = Gen.Cls.code) : GoodCode cfg := by
  intro c; rw [hc]; cases c <;> decide

theorem finish_ok_inv {cfg : Cfg Gen.Cls} (hd : cfg.depthLimit ≤ 1) {m : Mem} {ts : List Tok}
    (h : finish cfg m = .ok ts) : m.status = cfg.endStatus ∧ m.stack = [ts] := by
  simp only [finish] at h
  split at h
  · cases h
  · rename_i hs
    split at h
    · cases h
    · rename_i hl
      have hs' : m.status = cfg.endStatus := by simpa using hs
      refine ⟨hs', ?_⟩
      cases hk : m.stack with
      | nil => rw [hk] at h; simp at h
      | cons f fs =>
        cases fs with
        | nil => rw [hk] at h; simp at h; rw [h]
        | cons g r => rw [hk] at hl; simp at hl; omega

section sep
variable {cfg : Cfg Gen.Cls} (hc : cfg.code = Gen.Cls.code)
include hc

/-- between tokens, the separator character leaves `sepToks` behind -/
theorem wait_sep (A B : List Char) (c : Char) (tc f : List Tok) (hs : sepToks cfg c = some tc) :
    handle cfg (A ++ c :: B) ⟨A.length, A.length, .WAIT, [f]⟩ (.ch c) =
      .ok (⟨A.length + 1, A.length + 1, .WAIT, [f ++ tc]⟩, true) := by
  simp only [sepToks] at hs
  cases ho : cfg.lookup .WAIT (.ch c) with
  | none => rw [ho] at hs; cases hs
  | some o =>
    rw [ho] at hs
    simp only at hs
    by_cases h1 : o = Spec.skip
    · simp only [h1, if_true, Option.some.injEq] at hs
      subst hs
      rw [handle_skip hc (m := ⟨A.length, A.length, .WAIT, [f]⟩) (by rw [ho, h1])]
      simp
    · simp only [h1, if_false] at hs
      by_cases h2 : o = Spec.emitStay o.marks
      · simp only [← h2, if_true, Option.some.injEq] at hs
        subst hs
        rw [handle_emitStay hc (m := ⟨A.length, A.length, .WAIT, [f]⟩) (k := o.marks) (f := f) (fs := [])
          (by rw [ho, ← h2]) rfl]
        simp [win]
      · simp [h2] at hs

omit hc in
theorem win_before (u x : List Char) (m : Mem) (n : Nat) (hn : n ≤ u.length) : win (u ++ x) m n = win u m n :=
  slice_prefix (u ++ x) u u.length m.start n (by simp) hn

/-- the separator after an accepted text: the pending token is ended as the end of the text ends it, the separator
is read between tokens -/
theorem sep_step (hd : cfg.depthLimit ≤ 1) (u1 u2 : List Char) (c : Char) (m1 m' : Mem)
    (b : Bool) (ts1 tc : List Tok) (hnow : m1.now = u1.length) (hwait : m1.status = .WAIT → m1.start = m1.now)
    (h2 : handle cfg u1 m1 .eof = .ok (m', b)) (h3 : finish cfg m' = .ok ts1)
    (hcl : closesWith cfg c m1.status = true) (hs : sepToks cfg c = some tc) :
    feedWith (handle cfg (u1 ++ c :: u2)) m1 c = .ok ⟨u1.length + 1, u1.length + 1, .WAIT, [ts1 ++ tc]⟩ := by
  obtain ⟨_, hstk⟩ := finish_ok_inv hd h3
  obtain ⟨st, nw, q, stk⟩ := m1
  simp only at hnow hwait hcl
  subst hnow
  simp only [closesWith] at hcl
  cases hoe : cfg.lookup q .eof with
  | none => rw [hoe] at hcl; cases hcl
  | some oe =>
    cases hoc : cfg.lookup q (.ch c) with
    | none => rw [hoe, hoc] at hcl; cases hcl
    | some oc =>
      rw [hoe, hoc] at hcl
      simp only [Bool.or_eq_true, Bool.and_eq_true, beq_iff_eq] at hcl
      have hws := wait_sep hc u1 u2 c tc
      rcases hcl with ((⟨hq, hf⟩ | ⟨ha, hb⟩) | ⟨ha, hb⟩) | ⟨ha, hb⟩
      · -- between tokens
        subst hq
        rw [handle_finish hc (by rw [hoe, hf])] at h2
        simp only [Except.ok.injEq, Prod.mk.injEq] at h2
        rw [← h2.1] at hstk
        simp only at hstk
        subst hstk
        have := hwait rfl
        subst this
        exact feedWith_adv (hws ts1 hs)
      · have hl : cfg.lookup q .eof = some (Spec.emitAtEnd oe.marks) := by rw [hoe, ← ha]
        cases stk with
        | nil => simp [handle, hl, Spec.emitAtEnd, hc, Gen.Cls.code, exec, appendTop] at h2
        | cons f fs =>
          rw [handle_emitAtEnd hc hl rfl] at h2
          simp only [Except.ok.injEq, Prod.mk.injEq] at h2
          rw [← h2.1] at hstk
          simp only [List.cons.injEq] at hstk
          obtain ⟨h5, h6⟩ := hstk
          subst h6
          rw [feedWith_retry (handle_emitBefore hc (text := u1 ++ c :: u2) (by rw [hoc, hb]) rfl)]
          simp only
          rw [win_before u1 (c :: u2) _ _ (Nat.le_refl _), h5, hws _ hs]
      · have hl : cfg.lookup q .eof = some Spec.emitWordAtEnd := by rw [hoe, ← ha]
        cases stk with
        | nil => simp [handle, hl, Spec.emitWordAtEnd, hc, Gen.Cls.code, exec, appendTop] at h2
        | cons f fs =>
          rw [handle_emitWordAtEnd hc hl rfl] at h2
          simp only [Except.ok.injEq, Prod.mk.injEq] at h2
          rw [← h2.1] at hstk
          simp only [List.cons.injEq] at hstk
          obtain ⟨h5, h6⟩ := hstk
          subst h6
          rw [feedWith_retry (handle_emitWordBefore hc (text := u1 ++ c :: u2) (by rw [hoc, hb]) rfl)]
          simp only
          rw [win_before u1 (c :: u2) _ _ (Nat.le_refl _), h5, hws _ hs]
      · rw [handle_dropAtEnd hc (by rw [hoe, ha])] at h2
        simp only [Except.ok.injEq, Prod.mk.injEq] at h2
        rw [← h2.1] at hstk
        simp only at hstk
        subst hstk
        rw [feedWith_retry (handle_dropBefore hc (text := u1 ++ c :: u2) (by rw [hoc, hb]))]
        simp only
        rw [hws _ hs]

end sep

/-- **the separator theorem**, generic in the table: an accepted text `u1` that ends in a state which `c` closes,
followed by the separator `c` and ANY text `u2`, lexes to the tokens of `u1`, what the separator leaves behind, and the
tokens of `u2` — or is rejected exactly as `u2` is -/
theorem lexText_sep {cfg : Cfg Gen.Cls} (hc : cfg.code = Gen.Cls.code)
    (hsum : ∀ c, (summarize (cfg.code c)).isSome = true) {advSt : List S} {wk : S → WK}
    (hT : TableOK cfg advSt wk = true) (hd : cfg.depthLimit ≤ 1)
    (u1 u2 : List Char) (c : Char) (ts1 tc : List Tok) (h1 : lexText cfg u1 = .ok ts1)
    (hcl : closesWith cfg c (endState cfg u1) = true) (hs : sepToks cfg c = some tc) :
    lexText cfg (u1 ++ c :: u2) = (lexText cfg u2).map (fun ts2 => ts1 ++ tc ++ ts2) := by
  simp only [lexText] at h1
  cases e1 : feedAllWith (handle cfg u1) u1 {} with
  | error x => rw [e1] at h1; cases h1
  | ok m1 =>
    rw [e1] at h1
    simp only at h1
    cases e2 : handle cfg u1 m1 .eof with
    | error x => rw [e2] at h1; cases h1
    | ok r =>
      obtain ⟨m', b⟩ := r
      rw [e2] at h1
      simp only at h1
      -- the invariants at the end of `u1`
      have hinit : Inv2 cfg wk u1 ({} : Mem) [] :=
        ⟨⟨by simp, by simp [tokTexts, allLeaves, leavesL], Nat.le_refl _⟩, fun _ => rfl,
          by simp [TableOK.wait hT, curWin, WK.claims], by simp [gapTexts]⟩
      obtain ⟨segs1, hi1, hn1⟩ := feedAll_inv cfg advSt wk u1 hT u1 {} m1 [] hinit (by simp) e1
      have hnow : m1.now = u1.length := by simpa using hn1
      have hwait : m1.status = .WAIT → m1.start = m1.now := fun hw => hi1.emptyWin (by simp [isEmptySt, hw])
      have hst : m1.status = endState cfg u1 := (feedAllWith_skel cfg hsum u1 u1 {} m1 e1 (by simp)).1
      rw [← hst] at hcl
      have hstep := sep_step hc hd u1 u2 c m1 m' b ts1 tc hnow hwait e2 h1 hcl hs
      -- the run on the whole text
      have hA : feedAllWith (handle cfg (u1 ++ c :: u2)) u1 {} = .ok m1 := by
        rw [feedAllWith_context _ (goodCode_of hc)]; exact e1
      have hB : feedAllWith (handle cfg (u1 ++ c :: u2)) (u1 ++ [c]) {} =
          .ok ⟨u1.length + 1, u1.length + 1, .WAIT, [ts1 ++ tc]⟩ := by
        rw [feedAllWith_append_ok hA, feedAllWith_one, hstep]
      rw [lexText_eq_runTail, lexText_eq_runTail]
      have e : runTail cfg (u1 ++ c :: u2) (u1 ++ c :: u2) {} =
          runTail cfg (u1 ++ c :: u2) u2 ⟨u1.length + 1, u1.length + 1, .WAIT, [ts1 ++ tc]⟩ := by
        have : u1 ++ c :: u2 = (u1 ++ [c]) ++ u2 := by simp
        conv => lhs; arg 3; rw [this]
        exact runTail_append_ok hB _
      rw [e]
      have hp := runTail_pfx cfg hsum (ts1 ++ tc) (u1 ++ [c]) [] u2 u2
        ⟨u1.length + 1, u1.length + 1, .WAIT, [ts1 ++ tc]⟩ {}
        ⟨rfl, by simp [addPfx], by simp, by simp⟩
      simp only [List.append_assoc, List.singleton_append, List.nil_append] at hp
      rw [hp]
      cases runTail cfg u2 u2 {} <;> simp [Except.map]

end Lex
