import MsqProofs.Lemmas.LexLink
import MsqProofs.Props.C02T
/-!
# The lexer link of T-parse, printer side

* `prEL d e` — a `List Char` mirror of the printer `PR.prE d e` on the operator fragment (`String` operations do not
  reduce in the kernel; `prE_eq`: on fragment trees with lexable leaves the printer succeeds with exactly that text);
* `Leaf d e` — the well-formedness of the leaf payloads that the link genuinely needs (see `colLex`, `litLex`);
* `lx_prE` — **the link**, in context: lexing the printed text of a fragment tree, between tokens, in any context that
  continues with a delimiter, appends exactly `TP.toksE d TP.noX e`.
-/
set_option linter.unusedVariables false
set_option linter.unusedSimpArgs false
namespace LexLink
open Lex Spec C05 C06 C09 Ast TP

/-! ## marks: `List Char` mirrors of the `String` definitions of `TParse0` -/

theorem beq_ofList (s : String) (x : List Char) : (s == String.ofList x) = (s.toList == x) := by
  by_cases h : s.toList = x
  · subst h; simp [String.ofList_toList]
  · have : s ≠ String.ofList x := fun e => h (by rw [e, String.toList_ofList])
    rw [beq_eq_false_iff_ne.mpr this, beq_eq_false_iff_ne.mpr h]

/-- `TP.wordMark` on character lists -/
def wmL (l : List Char) : Nat :=
  match Gen.wordMarks.find? (fun e => e.1.toList == Gen.pyUpper l) with
  | some p => p.2
  | none => if l.head?.any (fun c => c.isAlpha || c == '_') then Gen.mark_NAME else 0

theorem wordMark_eq (s : String) : TP.wordMark s = wmL s.toList := by
  have hf : (fun e : String × Nat => e.1 == up s) = (fun e => e.1.toList == Gen.pyUpper s.toList) := by
    funext e; simp only [up, Gen.pyUpperS, beq_ofList]
  simp only [TP.wordMark, wmL, hf, TP.isWordS, Lex.NAME]
  cases List.find? (fun e : String × Nat => e.1.toList == Gen.pyUpper s.toList) Gen.wordMarks <;> rfl

theorem opTok_eq (s : String) : opTok s = .single s.toList (wmL s.toList) := by simp [opTok, wordMark_eq]

/-- the lexer's word marks agree with `wmL` on every word found in the keyword table -/
theorem wordMark_found (l : List Char) (h : (Gen.wordMarks.find? (fun e => e.1.toList == Gen.pyUpper l)).isSome = true) :
    C05.wordMark l = wmL l := by
  cases hf : Gen.wordMarks.find? (fun e => e.1.toList == Gen.pyUpper l) with
  | none => rw [hf] at h; cases h
  | some p =>
    simp only [C05.wordMark, resolveMarks, wmL]
    show (match Gen.wordMarks.find? (fun e => e.1.toList == Gen.pyUpper l) with | some e => e.2 | none => _) = _
    rw [hf]

/-! ## closed tokens, decided on the regenerated tables -/

/-- the token the lexer must make of a closed operator / keyword text -/
def ctok (u : List Char) : Tok := .single u (wmL u)

/-- every binary / unary compute operator spelling, every comparison spelling, every keyword the printer emits is a
complete expression-level token with the marks `TP.opTok` expects -/
theorem compute_ops_lex : Gen.computeEnum.all (fun e => lxIs e.2.1.toList (ctok e.2.1.toList)) = true := by decide +kernel
theorem compare_ops_lex : Gen.compareEnum.all (fun e => match e.2 with
    | [x] => lxIs x.toList (ctok x.toList) | _ => false) = true := by decide +kernel
def keywords : List String := ["IS", "NOT", "LIKE", "RLIKE", "REGEXP", "BETWEEN", "AND", "XOR", "OR"]
theorem keywords_lex : keywords.all (fun k => lxIs k.toList (ctok k.toList)) = true := by decide +kernel

theorem lx_kw (k : String) (hk : k ∈ keywords) : Lx k.toList [opTok k] := by
  rw [opTok_eq]; exact lx_of_is ((List.all_eq_true.mp keywords_lex) k hk)

/-! ## the printer on character lists -/

def wrapL (e : Expr) (k : Nat) (s : List Char) : List Char := if PR.lvl e > k then '(' :: (s ++ [')']) else s

def prEL (d : Gen.D) : Expr → List Char
  | .column _ c => '`' :: (c.toList ++ ['`'])
  | .literal v => v.toList
  | .unary o e =>
      if (cval o).toList = ['-'] ∧ (wrapL e 2 (prEL d e)).head? = some '-' then (cval o).toList ++ ' ' :: wrapL e 2 (prEL d e)
      else (cval o).toList ++ wrapL e 2 (prEL d e)
  | .compute l o r =>
      wrapL l (PR.lvl (.compute l o r)) (prEL d l) ++ ' ' :: ((cval o).toList ++ ' ' :: wrapL r (PR.lvl (.compute l o r) - 1) (prEL d r))
  | .kw k n l r => wrapL l 9 (prEL d l) ++ ' ' :: ((PR.kwSrc k n).toList ++ ' ' :: wrapL r 8 (prEL d r))
  | .between n b f t =>
      wrapL b 9 (prEL d b) ++ ' ' :: ((if n then "NOT ".toList else []) ++ ("BETWEEN".toList ++ ' ' ::
        (wrapL f 8 (prEL d f) ++ ' ' :: ("AND".toList ++ ' ' :: wrapL t 8 (prEL d t)))))
  | .compare o l r => wrapL l 10 (prEL d l) ++ ' ' :: ((cmpVal o).toList ++ ' ' :: wrapL r 9 (prEL d r))
  | .not_ e => "NOT".toList ++ ' ' :: wrapL e 11 (prEL d e)
  | .and_ l r => wrapL l 12 (prEL d l) ++ ' ' :: ("AND".toList ++ ' ' :: wrapL r 11 (prEL d r))
  | .xor l r => wrapL l 13 (prEL d l) ++ ' ' :: ("XOR".toList ++ ' ' :: wrapL r 12 (prEL d r))
  | .or_ l r => wrapL l 14 (prEL d l) ++ ' ' :: ("OR".toList ++ ' ' :: wrapL r 13 (prEL d r))
  | _ => []

/-! ## the leaf payloads -/

/-- a column name the printer back-quotes verbatim (true of every plain name except the three `CURRENT_*` pseudo
columns and `*`; for DB2 additionally the name must not contain `CURRENT_DATE/TIME/TIMESTAMP`, which the DB2 printer
rewrites inside any column text — finding F-C06), free of back-quotes and of characters the pre-pass rewrites -/
def colLex (d : Gen.D) (c : String) : Prop :=
  (PR.columnSrc d none c).toList = '`' :: (c.toList ++ ['`']) ∧ ∀ x ∈ c.toList, x ≠ '`' ∧ plain x = true

/-- a literal payload the lexer reads back as ONE literal token: a non-empty digit string; or a quoted string `'…'` /
`"…"` whose body obeys the escape grammar `C06.strBody` (doubled quotes, backslash + any character) and contains no
character the pre-pass rewrites; or a word (with `TP.litOK`: `TRUE` / `FALSE` / `NULL` in any letter case) -/
def litLex (v : String) : Prop :=
  (v.toList ≠ [] ∧ ∀ x ∈ v.toList, isDigit x.toNat = true) ∨
  (∃ k body, k ≠ QK.bq ∧ v.toList = k.wrap body ∧ strBody k.ch body = true ∧ ∀ x ∈ body, plain x = true) ∨
  (isWord v.toList = true ∧ ∀ x ∈ v.toList, plain x = true)

def Leaf (d : Gen.D) : Expr → Prop
  | .column _ c => colLex d c
  | .literal v => litLex v
  | .unary _ e => Leaf d e
  | .compute l _ r => Leaf d l ∧ Leaf d r
  | .kw _ _ l r => Leaf d l ∧ Leaf d r
  | .between _ b f t => Leaf d b ∧ Leaf d f ∧ Leaf d t
  | .compare _ l r => Leaf d l ∧ Leaf d r
  | .not_ e => Leaf d e
  | .and_ l r => Leaf d l ∧ Leaf d r
  | .xor l r => Leaf d l ∧ Leaf d r
  | .or_ l r => Leaf d l ∧ Leaf d r
  | _ => True

/-! ## what the fragment conditions say about the operator spellings -/

theorem printsAs_ok {p : PR.P} {s : String} (h : printsAs p s = true) : p = .ok s := by
  unfold printsAs at h
  cases p with
  | error e => cases h
  | ok x => simp only [beq_iff_eq] at h; rw [h]

theorem cval_mem (d : Gen.D) (o : String) (h : PR.computeOpSrc d o = .ok (cval o)) :
    ∃ e ∈ Gen.computeEnum, cval o = e.2.1 := by
  unfold PR.computeOpSrc at h
  split at h
  · cases h
  · cases hf : Gen.computeEnum.find? (·.1 == o) with
    | none => rw [hf] at h; cases h
    | some e => exact ⟨e, List.mem_of_find?_eq_some hf, by simp [cval, hf]⟩

theorem lx_cval (d : Gen.D) (o : String) (h : PR.computeOpSrc d o = .ok (cval o)) : Lx (cval o).toList [opTok (cval o)] := by
  obtain ⟨e, he, hc⟩ := cval_mem d o h
  rw [opTok_eq, hc]
  exact lx_of_is ((List.all_eq_true.mp compute_ops_lex) e he)

theorem cmpVal_mem (o : String) (h : PR.compareOpSrc o = .ok (cmpVal o)) :
    ∃ e ∈ Gen.compareEnum, cmpVal o = PR.joinS " " e.2 := by
  unfold PR.compareOpSrc at h
  cases hf : Gen.compareEnum.find? (·.1 == o) with
  | none => rw [hf] at h; cases h
  | some e => exact ⟨e, List.mem_of_find?_eq_some hf, by simp [cmpVal, hf]⟩

theorem lx_cmpVal (o : String) (h : PR.compareOpSrc o = .ok (cmpVal o)) : Lx (cmpVal o).toList [opTok (cmpVal o)] := by
  obtain ⟨e, he, hc⟩ := cmpVal_mem o h
  have := (List.all_eq_true.mp compare_ops_lex) e he
  rw [opTok_eq, hc]
  cases hl : e.2 with
  | nil => rw [hl] at this; cases this
  | cons x r =>
    cases r with
    | nil =>
      rw [hl] at this
      have hj : PR.joinS " " [x] = x := rfl
      rw [hj]; exact lx_of_is this
    | cons y r' => rw [hl] at this; cases this

/-! ## leaves -/

theorem lx_col (d : Gen.D) (c : String) (h : colLex d c) : Lx ('`' :: (c.toList ++ ['`'])) [nameTok c] :=
  lx_name c.toList fun x hx => (h.2 x hx).1

theorem charIsDigit (x : Char) : x.isDigit = isDigit x.toNat := by
  have h0 : ('0' : Char).val.toNat = 48 := by decide
  have h9 : ('9' : Char).val.toNat = 57 := by decide
  rw [Bool.eq_iff_iff]
  simp only [Char.isDigit, isDigit, between, Char.toNat, Nat.ble_eq, Bool.and_eq_true, decide_eq_true_eq, ge_iff_le,
    UInt32.le_iff_toNat_le, h0, h9]

theorem isWordChar_not_quote (x : Char) (h : isWordChar x.toNat = true) : x ≠ '\'' ∧ x ≠ '"' := by
  constructor <;> intro e <;> subst e <;> revert h <;> decide

theorem lx_lit (d : Gen.D) (v : String) (hf : litOK d v = true) (h : litLex v) : Lx v.toList [litTok v] := by
  rcases h with ⟨hne, hd⟩ | ⟨k, body, hk, hv, hb, _⟩ | ⟨hw, _⟩
  · have hdig : isDigits v = true := by
      simp only [isDigits, Bool.and_eq_true, Bool.not_eq_eq_eq_not, Bool.not_true, List.isEmpty_eq_false_iff, List.all_eq_true]
      exact ⟨hne, fun x hx => by rw [charIsDigit]; exact hd x hx⟩
    have : litTok v = .single v.toList (Gen.mark_LITERAL ||| Gen.mark_LITERAL_INT) := by
      simp [litTok, litMark, hdig, Lex.LITERAL]
    rw [this]; exact lx_int v.toList hne hd
  · have hhead : v.toList.head? = some k.ch := by rw [hv]; rfl
    have hq : k.ch = '\'' ∨ k.ch = '"' := by cases k <;> first | exact Or.inl rfl | exact Or.inr rfl | exact absurd rfl hk
    have hdig : isDigits v = false := by
      simp only [isDigits, Bool.and_eq_false_iff]
      right
      rw [hv]
      rcases hq with e | e <;> simp [QK.wrap, e] <;> decide
    have : litTok v = .single v.toList (Gen.mark_LITERAL ||| Gen.mark_NAME) := by
      have hh : (v.toList.head? == some '\'' || v.toList.head? == some '"') = true := by
        rw [hhead]; rcases hq with e | e <;> simp [e]
      simp [litTok, litMark, hdig, hh, Lex.LITERAL, Lex.NAME]
    rw [this, hv]; exact lx_string k hk body hb
  · cases hv : v.toList with
    | nil => rw [hv] at hw; cases hw
    | cons c cs =>
      have hsw : startsWord c = true := by rw [hv] at hw; simp only [isWord, Bool.and_eq_true] at hw; exact hw.1
      simp only [startsWord, Bool.and_eq_true, Bool.not_eq_eq_eq_not, Bool.not_true] at hsw
      have hnd : c.isDigit = false := by rw [charIsDigit]; exact hsw.1.1.2
      have hnq := isWordChar_not_quote c hsw.1.1.1
      have hdig : isDigits v = false := by
        simp only [isDigits, Bool.and_eq_false_iff]; right; rw [hv]; simp [hnd]
      have hh : (v.toList.head? == some '\'' || v.toList.head? == some '"') = false := by
        rw [hv]; simp [hnq.1, hnq.2]
      have hm : litMark v = wmL v.toList := by simp [litMark, hdig, hh, wordMark_eq]
      -- `litOK`: the token carries LITERAL, so the word is in the keyword table
      have hfound : (Gen.wordMarks.find? (fun e => e.1.toList == Gen.pyUpper v.toList)).isSome = true := by
        simp only [litOK, Bool.and_eq_true] at hf
        have hl := hf.1
        simp only [litTok, Tok.has, Tok.marks, hm, wmL] at hl
        cases hfd : Gen.wordMarks.find? (fun e => e.1.toList == Gen.pyUpper v.toList) with
        | some p => rfl
        | none =>
          rw [hfd] at hl
          simp only at hl
          split at hl <;> revert hl <;> decide
      have : litTok v = .single v.toList (C05.wordMark v.toList) := by
        simp only [litTok, hm, wordMark_found _ hfound]
      rw [this, ← hv]; exact lx_word v.toList hw

/-! ## brackets -/

theorem lx_wrap {y : Expr} {k : Nat} {s : List Char} {ts : List Tok} (h : Lx s ts) :
    Lx (wrapL y k s) (wrapT (noX y) y k ts) := by
  unfold wrapL wrapT
  by_cases hl : PR.lvl y > k
  · simp only [hl, if_true, true_or]
    exact Lx.paren h
  · simp only [hl, if_false, noX, Bool.false_eq_true, or_false]
    exact h

/-! ## prefix operators -/

theorem wmL_sym : wmL ['+'] = 0 ∧ wmL ['~'] = 0 ∧ wmL ['-'] = 0 ∧ wmL ['!'] = 0 := by decide +kernel

theorem tk_plus (c : Char) : Tk ['+'] (ctok ['+']) c := by
  have := tk_of_complete ['+'] [] '+' rfl .WAIT 0 (fun T n stk => rfl) (Or.inr ⟨look (by decide +kernel), rfl⟩)
  simp only [ctok, wmL_sym.1]
  exact tk_of_feed this c

theorem tk_tilde (c : Char) : Tk ['~'] (ctok ['~']) c := by
  have := tk_of_complete ['~'] [] '~' rfl .WAIT 0 (fun T n stk => rfl) (Or.inr ⟨look (by decide +kernel), rfl⟩)
  simp only [ctok, wmL_sym.2.1]
  exact tk_of_feed this c

theorem tk_minus (c : Char) (hc : c ≠ '-') : Tk ['-'] (ctok ['-']) c := by
  have hl : Gen.cfgS.lookup .AFTER_2D (.ch c) = some (emitBefore mNone) :=
    lookClass .AFTER_2D (fun n => !(n =ᶜ '-')) (emitBefore mNone) (by decide +kernel) (Or.inl (by decide +kernel)) c
      (by simp [ne_of_isCh hc])
  have := tk_of_pending ['-'] .AFTER_2D c (emitBefore mNone)
    (fun T n stk => addPath_run T ['-'] .WAIT .AFTER_2D (by decide +kernel) n n stk) hl (by decide) (by decide)
  simpa [ctok, wmL_sym.2.2.1, endTok, emitBefore, emitWordBefore, emitWordAtEnd, mNone, Gen.mark_NONE] using this

theorem tk_bang (c : Char) (hc : c ≠ '=') : Tk ['!'] (ctok ['!']) c := by
  have hl : Gen.cfgS.lookup .AFTER_21 (.ch c) = some (emitBefore mNone) :=
    lookClass .AFTER_21 (fun n => !(n =ᶜ '=')) (emitBefore mNone) (by decide +kernel) (Or.inl (by decide +kernel)) c
      (by simp [ne_of_isCh hc])
  have := tk_of_pending ['!'] .AFTER_21 c (emitBefore mNone)
    (fun T n stk => addPath_run T ['!'] .WAIT .AFTER_21 (by decide +kernel) n n stk) hl (by decide) (by decide)
  simpa [ctok, wmL_sym.2.2.2, endTok, emitBefore, emitWordBefore, emitWordAtEnd, mNone, Gen.mark_NONE] using this

/-- the unary operator spellings of every dialect -/
theorem unary_spelling (d : Gen.D) (o : String) (h : (Gen.unarySet d).contains (cval o) = true) :
    (cval o).toList = ['!'] ∨ (cval o).toList = ['+'] ∨ (cval o).toList = ['-'] ∨ (cval o).toList = ['~'] := by
  generalize cval o = s at h
  have hm : s ∈ Gen.unarySet d := by simpa using h
  have : s = "!" ∨ s = "+" ∨ s = "-" ∨ s = "~" := by
    cases d <;> simp only [Gen.unarySet, List.mem_cons, List.mem_nil_iff, or_false] at hm
    all_goals first
      | (rcases hm with e | e | e | e <;> simp [e])
      | (rcases hm with e | e | e <;> simp [e])
  rcases this with e | e | e | e <;> subst e <;> simp

/-- a prefix operator directly before a text that does not begin with `=`, nor with `-` if the operator is `-` -/
theorem tk_unary (u : List Char) (hu : u = ['!'] ∨ u = ['+'] ∨ u = ['-'] ∨ u = ['~']) (c : Char) (h1 : c ≠ '=')
    (h2 : u = ['-'] → c ≠ '-') : Tk u (ctok u) c := by
  rcases hu with rfl | rfl | rfl | rfl
  · exact tk_bang c h1
  · exact tk_plus c
  · exact tk_minus c (h2 rfl)
  · exact tk_tilde c

/-! ## the first character of a printed fragment text -/

theorem isWordChar_ne_eq (x : Char) (h : isWordChar x.toNat = true) : x ≠ '=' := by
  intro e; subst e; revert h; decide

theorem first_char (d : Gen.D) : ∀ (n : Nat) (e : Expr), sz e ≤ n → Frag d e = true → Leaf d e →
    ∃ c b', prEL d e = c :: b' ∧ c ≠ '=' := by
  intro n
  induction n with
  | zero => intro e he; cases e <;> simp [sz] at he
  | succ n ih =>
    intro e he hf hl
    have w : ∀ (y : Expr) (k : Nat) (rest : List Char), sz y ≤ n → Frag d y = true → Leaf d y →
        ∃ c b', wrapL y k (prEL d y) ++ rest = c :: b' ∧ c ≠ '=' := by
      intro y k rest hy hfy hly
      unfold wrapL
      split
      · exact ⟨'(', _, rfl, by decide⟩
      · obtain ⟨c, b', hc, hne⟩ := ih y hy hfy hly
        exact ⟨c, b' ++ rest, by rw [hc]; rfl, hne⟩
    cases e <;> simp only [sz] at he <;> (try simp only [Frag, Bool.and_eq_true] at hf) <;> (try simp only [Leaf] at hl) <;> try (cases hf; done)
    case column t c => exact ⟨'`', _, rfl, by decide⟩
    case literal v =>
      rcases hl with ⟨hne, hd⟩ | ⟨k, body, hk, hv, _, _⟩ | ⟨hw, _⟩
      · cases hv : v.toList with
        | nil => exact absurd hv hne
        | cons c cs =>
          refine ⟨c, cs, by simp [prEL, hv], ?_⟩
          intro e; subst e
          have := hd '=' (by rw [hv]; simp)
          revert this; decide
      · refine ⟨k.ch, body ++ [k.ch], by simp [prEL, hv, QK.wrap], ?_⟩
        cases k <;> decide
      · cases hv : v.toList with
        | nil => rw [hv] at hw; cases hw
        | cons c cs =>
          refine ⟨c, cs, by simp [prEL, hv], ?_⟩
          rw [hv] at hw
          simp only [isWord, Bool.and_eq_true, startsWord] at hw
          exact isWordChar_ne_eq c hw.1.1.1.1
    case unary o y =>
      have hsp := unary_spelling d o (by simp only [unOK, Bool.and_eq_true] at hf; exact hf.1.1.1.1)
      have : ∃ c b', (cval o).toList = c :: b' ∧ c ≠ '=' := by
        rcases hsp with e | e | e | e <;> rw [e] <;> exact ⟨_, _, rfl, by decide⟩
      obtain ⟨c, b', hc, hne⟩ := this
      simp only [prEL]
      split <;> exact ⟨c, _, by rw [hc]; rfl, hne⟩
    case compute l o r => simp only [prEL]; exact w l _ _ (by omega) hf.1.2 hl.1
    case kw k n0 l r => simp only [prEL]; exact w l _ _ (by omega) hf.1.2 hl.1
    case between n0 b f t => simp only [prEL]; exact w b _ _ (by omega) hf.1.1 hl.1
    case compare o l r => simp only [prEL]; exact w l _ _ (by omega) hf.1.2 hl.1
    case not_ y => exact ⟨'N', _, rfl, by decide⟩
    case and_ l r => simp only [prEL]; exact w l _ _ (by omega) hf.1 hl.1
    case xor l r => simp only [prEL]; exact w l _ _ (by omega) hf.1 hl.1
    case or_ l r => simp only [prEL]; exact w l _ _ (by omega) hf.1 hl.1

/-! ## the link, in context -/

theorem Lx.congr {a a' : List Char} {ta ta' : List Tok} (h : Lx a ta) (e1 : a = a') (e2 : ta = ta') : Lx a' ta' :=
  e1 ▸ e2 ▸ h

theorem lx_kwSrc (k : KwKind) (n : Bool) (hk : (k != .in_) = true) : Lx (PR.kwSrc k n).toList (kwToks k n) := by
  have one : ∀ a : String, a ∈ keywords → Lx a.toList [opTok a] := lx_kw
  have two : ∀ a b : String, a ∈ keywords → b ∈ keywords → Lx (a.toList ++ ' ' :: b.toList) [opTok a, opTok b] :=
    fun a b ha hb => Lx.sep (lx_kw a ha) (lx_kw b hb)
  cases k <;> cases n
  case in_.false => cases hk
  case in_.true => cases hk
  case is.false => exact one "IS" (by simp [keywords])
  case is.true => exact two "IS" "NOT" (by simp [keywords]) (by simp [keywords])
  case like.false => exact one "LIKE" (by simp [keywords])
  case like.true => exact two "NOT" "LIKE" (by simp [keywords]) (by simp [keywords])
  case rlike.false => exact one "RLIKE" (by simp [keywords])
  case rlike.true => exact two "NOT" "RLIKE" (by simp [keywords]) (by simp [keywords])
  case regexp.false => exact one "REGEXP" (by simp [keywords])
  case regexp.true => exact two "NOT" "REGEXP" (by simp [keywords]) (by simp [keywords])

theorem unOK_prints {d : Gen.D} {o : String} (h : unOK d o = true) : PR.computeOpSrc d o = .ok (cval o) := by
  simp only [unOK, Bool.and_eq_true] at h; exact printsAs_ok h.2
theorem binOK_prints {d : Gen.D} {o : String} (h : binOK d o = true) : PR.computeOpSrc d o = .ok (cval o) := by
  simp only [binOK, Bool.and_eq_true] at h; exact printsAs_ok h.2
theorem cmpOK_prints {d : Gen.D} {o : String} (h : cmpOK d o = true) : PR.compareOpSrc o = .ok (cmpVal o) := by
  simp only [cmpOK, Bool.and_eq_true] at h; exact printsAs_ok h.2

/-- **the link, in context**: between tokens, in any text that continues with a delimiter, with any current frame and
frame stack, the printed text of a fragment tree appends exactly its token rendering -/
theorem lx_prE (d : Gen.D) : ∀ (n : Nat) (e : Expr), sz e ≤ n → Frag d e = true → Leaf d e →
    Lx (prEL d e) (toksE d noX e) := by
  intro n
  induction n with
  | zero => intro e he; cases e <;> simp [sz] at he
  | succ n ih =>
    intro e he hf hl
    have w : ∀ (y : Expr) (k : Nat), sz y ≤ n → Frag d y = true → Leaf d y →
        Lx (wrapL y k (prEL d y)) (wrapT (noX y) y k (toksE d noX y)) :=
      fun y k hy hfy hly => lx_wrap (ih y hy hfy hly)
    have kw1 : ∀ a : String, a ∈ keywords → Lx a.toList [opTok a] := lx_kw
    cases e <;> simp only [sz] at he <;> (try simp only [Frag, Bool.and_eq_true] at hf) <;> (try simp only [Leaf] at hl) <;>
      try (cases hf; done)
    case column t c =>
      cases t with
      | some t => simp [Frag] at hf
      | none => exact lx_col d c hl
    case literal v => exact lx_lit d v hf hl
    case unary o y =>
      have hb := w y 2 (by omega) hf.2 hl
      have hop := lx_cval d o (unOK_prints hf.1)
      simp only [prEL, toksE]
      split
      · exact Lx.congr (Lx.sep hop hb) rfl (by simp)
      · rename_i hcond
        -- the first character of the operand text
        have hfc : ∃ c b', wrapL y 2 (prEL d y) = c :: b' ∧ c ≠ '=' := by
          unfold wrapL
          split
          · exact ⟨'(', _, rfl, by decide⟩
          · exact first_char d n y (by omega) hf.2 hl
        obtain ⟨c, b', hc, hne⟩ := hfc
        have hsp := unary_spelling d o (by simp only [unOK, Bool.and_eq_true] at hf; exact hf.1.1.1.1)
        have h2 : (cval o).toList = ['-'] → c ≠ '-' := by
          intro ha hcc
          exact hcond ⟨ha, by rw [hc, hcc]; rfl⟩
        have := Lx.prefix hb hc (tk_unary (cval o).toList hsp c hne h2)
        exact Lx.congr this rfl (by simp [ctok, opTok_eq])
    case compute l o r =>
      have h1 := w l (PR.lvl (.compute l o r)) (by omega) hf.1.2 hl.1
      have h2 := w r (PR.lvl (.compute l o r) - 1) (by omega) hf.2 hl.2
      exact Lx.congr (Lx.sep h1 (Lx.sep (lx_cval d o (binOK_prints hf.1.1)) h2)) (by simp [prEL]) (by simp [toksE])
    case kw k n0 l r =>
      have h1 := w l 9 (by omega) hf.1.2 hl.1
      have h2 := w r 8 (by omega) hf.2 hl.2
      exact Lx.congr (Lx.sep h1 (Lx.sep (lx_kwSrc k n0 hf.1.1) h2)) (by simp [prEL]) (by simp [toksE])
    case between n0 b f t =>
      have h1 := w b 9 (by omega) hf.1.1 hl.1
      have h2 := w f 8 (by omega) hf.1.2 hl.2.1
      have h3 := w t 8 (by omega) hf.2 hl.2.2
      have hBT := Lx.sep (kw1 "BETWEEN" (by simp [keywords])) (Lx.sep h2 (Lx.sep (kw1 "AND" (by simp [keywords])) h3))
      cases n0 with
      | false => exact Lx.congr (Lx.sep h1 hBT) (by simp [prEL]) (by simp [toksE])
      | true =>
        have hN : "NOT ".toList = "NOT".toList ++ [' '] := rfl
        exact Lx.congr (Lx.sep h1 (Lx.sep (kw1 "NOT" (by simp [keywords])) hBT)) (by simp [prEL, hN]) (by simp [toksE])
    case compare o l r =>
      have h1 := w l 10 (by omega) hf.1.2 hl.1
      have h2 := w r 9 (by omega) hf.2 hl.2
      exact Lx.congr (Lx.sep h1 (Lx.sep (lx_cmpVal o (cmpOK_prints hf.1.1)) h2)) (by simp [prEL]) (by simp [toksE])
    case not_ y =>
      have h1 := w y 11 (by omega) hf hl
      exact Lx.congr (Lx.sep (kw1 "NOT" (by simp [keywords])) h1) (by simp [prEL]) (by simp [toksE])
    case and_ l r =>
      have h1 := w l 12 (by omega) hf.1 hl.1
      have h2 := w r 11 (by omega) hf.2 hl.2
      exact Lx.congr (Lx.sep h1 (Lx.sep (kw1 "AND" (by simp [keywords])) h2)) (by simp [prEL]) (by simp [toksE])
    case xor l r =>
      have h1 := w l 13 (by omega) hf.1 hl.1
      have h2 := w r 12 (by omega) hf.2 hl.2
      exact Lx.congr (Lx.sep h1 (Lx.sep (kw1 "XOR" (by simp [keywords])) h2)) (by simp [prEL]) (by simp [toksE])
    case or_ l r =>
      have h1 := w l 14 (by omega) hf.1 hl.1
      have h2 := w r 13 (by omega) hf.2 hl.2
      exact Lx.congr (Lx.sep h1 (Lx.sep (kw1 "OR" (by simp [keywords])) h2)) (by simp [prEL]) (by simp [toksE])

/-! ## the printer prints `prEL` -/

theorem wrap_ofList (y : Expr) (k : Nat) (s : List Char) : PR.wrap y k (String.ofList s) = String.ofList (wrapL y k s) := by
  unfold PR.wrap wrapL
  split
  · apply String.toList_inj.mp
    simp [toString, String.toList_append, String.toList_ofList]
  · rfl

theorem minus_cond (a : String) (l : List Char) :
    (a == "-" && (String.ofList l).startsWith "-") = decide (a.toList = ['-'] ∧ l.head? = some '-') := by
  have h1 : (a == "-") = decide (a.toList = ['-']) := by
    by_cases h : a = "-"
    · subst h; simp
    · have : a.toList ≠ ['-'] := fun e => h (String.toList_inj.mp (by rw [e]; rfl))
      simp [h, this]
  have h2 : ((String.ofList l).startsWith "-") = decide (l.head? = some '-') := by
    rw [Bool.eq_iff_iff]
    simp only [String.startsWith_string_iff, String.toList_ofList, decide_eq_true_eq]
    have : ("-" : String).toList = ['-'] := rfl
    rw [this]
    cases l with
    | nil => simp
    | cons c r => simp [eq_comm]
  rw [h1, h2]
  by_cases p : a.toList = ['-'] <;> by_cases q : l.head? = some '-' <;> simp [p, q]

/-- on fragment trees with lexable leaves the printer succeeds, with exactly the text `prEL` -/
theorem prE_eq (d : Gen.D) : ∀ (n : Nat) (e : Expr), sz e ≤ n → Frag d e = true → Leaf d e →
    PR.prE d e = .ok (String.ofList (prEL d e)) := by
  intro n
  induction n with
  | zero => intro e he; cases e <;> simp [sz] at he
  | succ n ih =>
    intro e he hf hl
    cases e <;> simp only [sz] at he <;> (try simp only [Frag, Bool.and_eq_true] at hf) <;> (try simp only [Leaf] at hl) <;>
      try (cases hf; done)
    case column t c =>
      cases t with
      | some t => simp [Frag] at hf
      | none =>
        simp only [PR.prE, prEL]
        refine congrArg Except.ok ?_
        apply String.toList_inj.mp
        rw [hl.1, String.toList_ofList]
    case literal v => simp [PR.prE, prEL, String.ofList_toList]
    case unary o y =>
      have h1 := ih y (by omega) hf.2 hl
      simp only [PR.prE, h1, unOK_prints hf.1, Except.map, bind, Except.bind, pure, Except.pure, wrap_ofList, minus_cond, prEL]
      refine congrArg Except.ok ?_
      apply String.toList_inj.mp
      split <;> simp_all [toString, String.toList_append, String.toList_ofList]
    case compute l o r =>
      have h1 := ih l (by omega) hf.1.2 hl.1
      have h2 := ih r (by omega) hf.2 hl.2
      simp only [PR.prE, h1, h2, binOK_prints hf.1.1, Except.map, bind, Except.bind, pure, Except.pure, wrap_ofList, prEL]
      refine congrArg Except.ok ?_
      apply String.toList_inj.mp
      simp [toString, String.toList_append, String.toList_ofList]
    case kw k n0 l r =>
      have h1 := ih l (by omega) hf.1.2 hl.1
      have h2 := ih r (by omega) hf.2 hl.2
      simp only [PR.prE, h1, h2, Except.map, bind, Except.bind, pure, Except.pure, wrap_ofList, prEL]
      refine congrArg Except.ok ?_
      apply String.toList_inj.mp
      simp [toString, String.toList_append, String.toList_ofList]
    case between n0 b f t =>
      have h1 := ih b (by omega) hf.1.1 hl.1
      have h2 := ih f (by omega) hf.1.2 hl.2.1
      have h3 := ih t (by omega) hf.2 hl.2.2
      simp only [PR.prE, h1, h2, h3, Except.map, bind, Except.bind, pure, Except.pure, wrap_ofList, prEL]
      refine congrArg Except.ok ?_
      apply String.toList_inj.mp
      have hA : (" AND " : String).toList = ' ' :: ("AND".toList ++ [' ']) := rfl
      have hB : (" BETWEEN " : String).toList = ' ' :: ("BETWEEN".toList ++ [' ']) := rfl
      cases n0 <;> simp [toString, String.toList_append, String.toList_ofList]
    case compare o l r =>
      have h1 := ih l (by omega) hf.1.2 hl.1
      have h2 := ih r (by omega) hf.2 hl.2
      simp only [PR.prE, h1, h2, cmpOK_prints hf.1.1, Except.map, bind, Except.bind, pure, Except.pure, wrap_ofList, prEL]
      refine congrArg Except.ok ?_
      apply String.toList_inj.mp
      simp [toString, String.toList_append, String.toList_ofList]
    case not_ y =>
      have h1 := ih y (by omega) hf hl
      simp only [PR.prE, h1, Except.map, wrap_ofList, prEL]
      refine congrArg Except.ok ?_
      apply String.toList_inj.mp
      simp [toString, String.toList_append, String.toList_ofList]
    case and_ l r =>
      have h1 := ih l (by omega) hf.1 hl.1
      have h2 := ih r (by omega) hf.2 hl.2
      simp only [PR.prE, h1, h2, Except.map, bind, Except.bind, pure, Except.pure, wrap_ofList, prEL]
      refine congrArg Except.ok ?_
      apply String.toList_inj.mp
      simp [toString, String.toList_append, String.toList_ofList]
    case xor l r =>
      have h1 := ih l (by omega) hf.1 hl.1
      have h2 := ih r (by omega) hf.2 hl.2
      simp only [PR.prE, h1, h2, Except.map, bind, Except.bind, pure, Except.pure, wrap_ofList, prEL]
      refine congrArg Except.ok ?_
      apply String.toList_inj.mp
      simp [toString, String.toList_append, String.toList_ofList]
    case or_ l r =>
      have h1 := ih l (by omega) hf.1 hl.1
      have h2 := ih r (by omega) hf.2 hl.2
      simp only [PR.prE, h1, h2, Except.map, bind, Except.bind, pure, Except.pure, wrap_ofList, prEL]
      refine congrArg Except.ok ?_
      apply String.toList_inj.mp
      simp [toString, String.toList_append, String.toList_ofList]

/-! ## the printed text is left alone by the lexer's pre-pass -/

theorem compute_ops_plain : Gen.computeEnum.all (fun e => e.2.1.toList.all plain) = true := by decide +kernel
theorem compare_ops_plain : Gen.compareEnum.all (fun e => match e.2 with | [x] => x.toList.all plain | _ => false) = true := by
  decide +kernel
theorem kwSrc_plain (k : KwKind) (n : Bool) : (PR.kwSrc k n).toList.all plain = true := by
  cases k <;> cases n <;> decide +kernel

theorem plain_prEL (d : Gen.D) : ∀ (n : Nat) (e : Expr), sz e ≤ n → Frag d e = true → Leaf d e →
    (prEL d e).all plain = true := by
  intro n
  induction n with
  | zero => intro e he; cases e <;> simp [sz] at he
  | succ n ih =>
    intro e he hf hl
    have w : ∀ (y : Expr) (k : Nat), sz y ≤ n → Frag d y = true → Leaf d y → (wrapL y k (prEL d y)).all plain = true := by
      intro y k hy hfy hly
      have := ih y hy hfy hly
      unfold wrapL
      have hp : plain '(' = true ∧ plain ')' = true := by decide
      split <;> simp [this, hp.1, hp.2]
    have hb : plain ' ' = true := by decide
    have cv : ∀ o, PR.computeOpSrc d o = .ok (cval o) → (cval o).toList.all plain = true := by
      intro o h
      obtain ⟨e, he, hc⟩ := cval_mem d o h
      rw [hc]; exact (List.all_eq_true.mp compute_ops_plain) e he
    cases e <;> simp only [sz] at he <;> (try simp only [Frag, Bool.and_eq_true] at hf) <;> (try simp only [Leaf] at hl) <;>
      try (cases hf; done)
    case column t c =>
      have hq : plain '`' = true := by decide
      simp only [prEL, List.all_cons, List.all_append, List.all_nil, hq, Bool.and_true, Bool.true_and, List.all_eq_true]
      exact fun x hx => (hl.2 x hx).2
    case literal v =>
      simp only [prEL, List.all_eq_true]
      rcases hl with ⟨_, hd⟩ | ⟨k, body, hk, hv, _, hp⟩ | ⟨_, hp⟩
      · exact fun x hx => digit_plain x (hd x hx)
      · rw [hv]
        intro x hx
        simp only [QK.wrap, List.mem_cons, List.mem_append, List.mem_nil_iff, or_false] at hx
        have hq : plain k.ch = true := by cases k <;> decide
        rcases hx with rfl | hx | rfl
        · exact hq
        · exact hp x hx
        · exact hq
      · exact hp
    case unary o y =>
      have h1 := w y 2 (by omega) hf.2 hl
      have h2 := cv o (unOK_prints hf.1)
      simp only [prEL]
      split <;> simp [h1, h2, hb]
    case compute l o r =>
      have h1 := w l (PR.lvl (.compute l o r)) (by omega) hf.1.2 hl.1
      have h2 := w r (PR.lvl (.compute l o r) - 1) (by omega) hf.2 hl.2
      simp [prEL, h1, h2, hb, cv o (binOK_prints hf.1.1)]
    case kw k n0 l r =>
      have h1 := w l 9 (by omega) hf.1.2 hl.1
      have h2 := w r 8 (by omega) hf.2 hl.2
      simp [prEL, h1, h2, hb, kwSrc_plain k n0]
    case between n0 b f t =>
      have h1 := w b 9 (by omega) hf.1.1 hl.1
      have h2 := w f 8 (by omega) hf.1.2 hl.2.1
      have h3 := w t 8 (by omega) hf.2 hl.2.2
      have k1 : "NOT ".toList.all plain = true := by decide +kernel
      have k2 : "BETWEEN".toList.all plain = true := by decide +kernel
      have k3 : "AND".toList.all plain = true := by decide +kernel
      cases n0 <;> simp [prEL, h1, h2, h3, hb, k1, k2, k3] <;> decide
    case compare o l r =>
      have h1 := w l 10 (by omega) hf.1.2 hl.1
      have h2 := w r 9 (by omega) hf.2 hl.2
      have h3 : (cmpVal o).toList.all plain = true := by
        obtain ⟨e, he, hc⟩ := cmpVal_mem o (cmpOK_prints hf.1.1)
        have := (List.all_eq_true.mp compare_ops_plain) e he
        rw [hc]
        cases hl : e.2 with
        | nil => rw [hl] at this; cases this
        | cons x r => cases r with
          | nil => rw [hl] at this; exact this
          | cons y r' => rw [hl] at this; cases this
      simp [prEL, h1, h2, hb, h3]
    case not_ y =>
      have h1 := w y 11 (by omega) hf hl
      have k1 : "NOT".toList.all plain = true := by decide +kernel
      simp [prEL, h1, hb, k1]
      decide
    case and_ l r =>
      have h1 := w l 12 (by omega) hf.1 hl.1
      have h2 := w r 11 (by omega) hf.2 hl.2
      have k1 : "AND".toList.all plain = true := by decide +kernel
      simp [prEL, h1, h2, hb, k1]
      decide
    case xor l r =>
      have h1 := w l 13 (by omega) hf.1 hl.1
      have h2 := w r 12 (by omega) hf.2 hl.2
      have k1 : "XOR".toList.all plain = true := by decide +kernel
      simp [prEL, h1, h2, hb, k1]
      decide
    case or_ l r =>
      have h1 := w l 14 (by omega) hf.1 hl.1
      have h2 := w r 13 (by omega) hf.2 hl.2
      have k1 : "OR".toList.all plain = true := by decide +kernel
      simp [prEL, h1, h2, hb, k1]
      decide

end LexLink
