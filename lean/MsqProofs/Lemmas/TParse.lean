import MsqProofs.Lemmas.TParseCompute
/-!
# T-parse on the expression grammar: the induction (C02 / C01)

`RT d ch e` — for the tree `e`: the tower of all level statements from its own level for its plain rendering `toksE d ch e`, the tower
from the unary level for its bracketed rendering `[grp (toksE d ch e)]`, and what its first token is.  `rt_all : Frag d e → RT d ch e` by
induction on the number of nodes, one case per production:

* atoms (`full2_literal`, `full2_column`), bracket group (`full2_group`: `pElement` runs `pOr` on the children), unary (`full2_unary`),
* compute nodes (`compute_node`, MsqProofs/Lemmas/TParseCompute.lean),
* keyword predicates (`cont9_kw`, `cont9_between`: chain in continuation form), comparison (`cont10_compare`), `NOT` (`full11_not`),
  `AND` / `XOR` / `OR` (`cont12_and`, `cont13_xor`, `cont14_or`: left-associative loops in continuation form).
-/
set_option linter.unusedVariables false
set_option linter.unusedSimpArgs false
set_option maxHeartbeats 1000000
open Lex PM Ast
namespace TP
variable (d : Gen.D) (ch : Expr → Bool)

/-- the first token of a rendering -/
def Head (e : Expr) (ts : List Tok) : Prop :=
  ∃ t ts', ts = t :: ts' ∧ startTok t = true ∧ (PR.lvl e ≤ 10 → operandTok d t = true)

structure RT (e : Expr) : Prop where
  own : Tower d (PR.lvl e) (toksE d ch e) e
  wrapped : Tower d 2 [grp (toksE d ch e)] e
  head : Head d e (toksE d ch e)

variable {d} {ch}
theorem Tower.any_of2 {ts x} (T : Tower d 2 ts x) (L0 : Nat) : Tower d L0 ts x :=
  ⟨fun _ => T.s2 (by omega), fun _ => T.s8 (by omega), fun _ => T.c9 (by omega), fun _ => T.s9 (by omega),
   fun _ => T.c10 (by omega), fun _ => T.s10 (by omega), fun _ => T.s11 (by omega), fun _ => T.c12 (by omega), fun _ => T.s12 (by omega),
   fun _ => T.c13 (by omega), fun _ => T.s13 (by omega), T.c14, T.s14⟩

/-- the rendering of a child at a position with bound `L` has every level statement from `L` on -/
theorem RT.at {e : Expr} (h : RT d ch e) (L : Nat) (hL : 2 ≤ L) : Tower d L (W d ch e L) e := by
  unfold W wrapT
  split
  · exact h.wrapped.weaken hL
  · rename_i hle
    have : ¬ PR.lvl e > L := fun h => hle (Or.inl h)
    exact h.own.weaken (by omega)

theorem grp_headOK (cs : List Tok) : HeadOK d [grp cs] := by
  refine ⟨grp cs, [], rfl, ?_⟩
  have := grp_elemTok d cs
  simp only [elemTok, Bool.and_eq_true] at this
  exact this.1
theorem grp_startTok (cs : List Tok) : startTok (grp cs) = true := by
  have := grp_elemTok .MYSQL cs
  simp only [elemTok, operandTok, Bool.and_eq_true] at this
  exact this.1.1.1

/-- first token of a child rendering: may start an operand if the child is below the `NOT` level or wrapped -/
theorem RT.headW {e : Expr} (h : RT d ch e) (L : Nat) :
    ∃ t ts', W d ch e L = t :: ts' ∧ startTok t = true ∧ ((PR.lvl e ≤ 10 ∨ L < PR.lvl e) → operandTok d t = true) := by
  unfold W wrapT
  split
  · refine ⟨grp _, [], rfl, grp_startTok _, fun _ => ?_⟩
    obtain ⟨t, ts', h1, h2⟩ := grp_headOK (d := d) (toksE d ch e)
    simp only [List.cons.injEq] at h1
    rw [h1.1]; exact h2
  · rename_i hle
    have : ¬ PR.lvl e > L := fun h => hle (Or.inl h)
    obtain ⟨t, ts', h1, h2, h3⟩ := h.head
    exact ⟨t, ts', h1, h2, fun hh => h3 (by omega)⟩
theorem RT.headOKW {e : Expr} (h : RT d ch e) (L : Nat) (hl : PR.lvl e ≤ 10 ∨ L < PR.lvl e) : HeadOK d (W d ch e L) := by
  obtain ⟨t, ts', h1, _, h3⟩ := h.headW L
  exact ⟨t, ts', h1, h3 hl⟩

/-! ### atoms -/
theorem full2_literal (v : String) (hv : litOK d v = true) : Full d (P2 d) 2 0 [litTok v] (.literal v) := by
  intro rest hr f hf
  simp only [sizeL, Tok.size, litTok] at hf
  obtain ⟨g, rfl⟩ : ∃ g, f = g + 2 := ⟨f - 2, by omega⟩
  simp only [litOK, elemTok, Bool.and_eq_true, Bool.not_eq_true'] at hv
  show pUnary d (g + 2) (litTok v :: rest) = _
  unfold pUnary
  simp only [List.cons_append, List.nil_append, hv.2.2, Bool.false_eq_true, if_false]
  unfold pElement
  simp [hv.1, src_litTok]
theorem full2_column (c : String) (hc : colOK d c = true) : Full d (P2 d) 2 0 [nameTok c] (.column none c) := by
  intro rest hr f hf
  simp only [sizeL, Tok.size, nameTok] at hf
  obtain ⟨g, rfl⟩ : ∃ g, f = g + 4 := ⟨f - 4, by omega⟩
  simp only [colOK, elemTok, Bool.and_eq_true, Bool.not_eq_true', beq_iff_eq] at hc
  obtain ⟨⟨⟨⟨_, hu⟩, hcase⟩, hstar⟩, hname⟩ := hc
  have hl : (nameTok c).has LITERAL = false := by simp [nameTok, Tok.has, Tok.marks]; decide
  have hp : (nameTok c).has PAREN = false := by simp [nameTok, Tok.has, Tok.marks]; decide
  show pUnary d (g + 4) (nameTok c :: rest) = _
  unfold pUnary
  simp only [List.cons_append, List.nil_append, hu, Bool.false_eq_true, if_false]
  unfold pElement
  simp only [hl, hp, hcase, hstar, Bool.false_eq_true, if_false]
  unfold pNamed
  cases rest with
  | nil => simp [pIndex, hname]
  | cons t r =>
    have hs := (stop_parts d hr).1
    simp only [stopsE, Bool.and_eq_true, Bool.not_eq_true'] at hs
    simp [pIndex, hname, hs.1.1, hs.1.2, hs.2]

/-! ### a bracket group: `pElement` runs `pOr` on the children and wants them consumed -/
theorem full2_group (e : Expr) (h14 : Full d (P14 d) 14 15 (toksE d ch e) e) (hd : Head d e (toksE d ch e)) :
    Full d (P2 d) 2 0 [grp (toksE d ch e)] e := by
  intro rest hr f hf
  simp only [sizeL, size_grp] at hf
  obtain ⟨g, rfl⟩ : ∃ g, f = g + 3 := ⟨f - 3, by omega⟩
  have he := grp_elemTok d (toksE d ch e)
  simp only [elemTok, Bool.and_eq_true, Bool.not_eq_true'] at he
  have hor : pOr d g (toksE d ch e) = .ok (e, []) := by
    have := h14 [] rfl g (by omega)
    simpa using this
  have hss : startsSelect (toksE d ch e) = false := by
    obtain ⟨t, ts', h1, h2, _⟩ := hd
    rw [h1]
    simp only [startTok, Bool.not_eq_true'] at h2
    simpa [startsSelect, searchSetUp] using h2
  show pUnary d (g + 3) (grp (toksE d ch e) :: rest) = _
  unfold pUnary
  simp only [List.cons_append, List.nil_append, he.2, Bool.false_eq_true, if_false]
  unfold pElement
  simp only [grp_literal, grp_paren, Bool.false_eq_true, if_false, if_true]
  unfold pParen
  simp [children_grp, hss, hor]

/-! ### unary -/
theorem full2_unary (o : String) (x : Expr) (ho : unOK d o = true) (hx : Full d (P2 d) 2 0 (W d ch x 2) x) :
    Full d (P2 d) 2 0 (opTok (cval o) :: W d ch x 2) (.unary o x) := by
  intro rest hr f hf
  simp only [sizeL_cons, size_opTok] at hf
  obtain ⟨g, rfl⟩ : ∃ g, f = g + 1 := ⟨f - 1, by omega⟩
  simp only [unOK, Bool.and_eq_true] at ho
  obtain ⟨⟨⟨hu, hcomp⟩, _⟩, _⟩ := ho
  have h1 : pUnary d g (W d ch x 2 ++ rest) = .ok (x, rest) := hx rest hr g (by omega)
  show pUnary d (g + 1) (opTok (cval o) :: W d ch x 2 ++ rest) = _
  unfold pUnary
  simp only [List.cons_append, src_opTok, hu, if_true]
  split at hcomp
  · rename_i nm k hk
    simp only [beq_iff_eq] at hcomp
    subst hcomp
    simp [hk, h1]
  · simp at hcomp

/-! ### comparison, NOT, AND, XOR, OR -/
theorem cont10_compare (o : String) (l r : Expr) (ho : cmpOK d o = true)
    (hl : Cont d (P10 d) (fun f => pCompareLoop d f) 9 7 (W d ch l 10) l) (hr : Full d (P9 d) 9 6 (W d ch r 9) r) :
    Cont d (P10 d) (fun f => pCompareLoop d f) 9 7 (W d ch l 10 ++ opTok (cmpVal o) :: W d ch r 9) (.compare o l r) := by
  intro rest hrest n res hloop
  simp only [cmpOK, Bool.and_eq_true, beq_iff_eq] at ho
  obtain ⟨⟨hop, hstop⟩, _⟩ := ho
  have key : OkAt (fun f => pCompareLoop d f l (opTok (cmpVal o) :: (W d ch r 9 ++ rest))) (n + 20 * sizeL (W d ch r 9) + 7) res := by
    intro f hf
    obtain ⟨g, rfl⟩ : ∃ g, f = g + 1 := ⟨f - 1, by omega⟩
    have h1 : pKeyword d g none (W d ch r 9 ++ rest) = .ok (r, rest) := hr rest hrest g (by omega)
    show pCompareLoop d (g + 1) l _ = _
    unfold pCompareLoop
    simp only [hop, h1]
    exact hloop g (by omega)
  have := hl (opTok (cmpVal o) :: (W d ch r 9 ++ rest)) hstop _ res key
  simp only [List.append_assoc, List.cons_append]
  refine this.mono ?_
  simp only [sizeL_append, sizeL_cons, size_opTok]; omega

theorem notSet_NOT : (Gen.notSet d).contains (up (opTok "NOT").src) = true := by cases d <;> decide
theorem full11_not (x : Expr) (hx : Full d (P11 d) 11 9 (W d ch x 11) x) :
    Full d (P11 d) 11 9 (opTok "NOT" :: W d ch x 11) (.not_ x) := by
  intro rest hr f hf
  simp only [sizeL_cons, size_opTok] at hf
  obtain ⟨g, rfl⟩ : ∃ g, f = g + 1 := ⟨f - 1, by omega⟩
  have h1 : pNot d g (W d ch x 11 ++ rest) = .ok (x, rest) := hx rest hr g (by omega)
  show pNot d (g + 1) (opTok "NOT" :: W d ch x 11 ++ rest) = _
  unfold pNot
  simp only [List.cons_append, notSet_NOT, if_true, h1]

theorem stop_AND : stopTok d 11 (opTok "AND") = true := by cases d <;> decide
theorem stop_XOR : stopTok d 12 (opTok "XOR") = true := by cases d <;> decide
theorem stop_OR : stopTok d 13 (opTok "OR") = true := by cases d <;> decide

theorem cont12_and (l r : Expr) (hl : Cont d (P12 d) (fun f => pAndLoop d f) 11 10 (W d ch l 12) l) (hr : Full d (P11 d) 11 9 (W d ch r 11) r) :
    Cont d (P12 d) (fun f => pAndLoop d f) 11 10 (W d ch l 12 ++ opTok "AND" :: W d ch r 11) (.and_ l r) := by
  intro rest hrest n res hloop
  have key : OkAt (fun f => pAndLoop d f l (opTok "AND" :: (W d ch r 11 ++ rest))) (n + 20 * sizeL (W d ch r 11) + 10) res := by
    intro f hf
    obtain ⟨g, rfl⟩ : ∃ g, f = g + 1 := ⟨f - 1, by omega⟩
    have h1 : pNot d g (W d ch r 11 ++ rest) = .ok (r, rest) := hr rest hrest g (by omega)
    have hand : (up (opTok "AND").src == "AND" || up (opTok "AND").src == "&&") = true := by decide
    show pAndLoop d (g + 1) l _ = _
    unfold pAndLoop
    simp only [hand, if_true, h1]
    exact hloop g (by omega)
  have := hl (opTok "AND" :: (W d ch r 11 ++ rest)) stop_AND _ res key
  simp only [List.append_assoc, List.cons_append]
  refine this.mono ?_
  simp only [sizeL_append, sizeL_cons, size_opTok]; omega

theorem cont13_xor (l r : Expr) (hl : Cont d (P13 d) (fun f => pXorLoop d f) 12 12 (W d ch l 13) l) (hr : Full d (P12 d) 12 11 (W d ch r 12) r) :
    Cont d (P13 d) (fun f => pXorLoop d f) 12 12 (W d ch l 13 ++ opTok "XOR" :: W d ch r 12) (.xor l r) := by
  intro rest hrest n res hloop
  have key : OkAt (fun f => pXorLoop d f l (opTok "XOR" :: (W d ch r 12 ++ rest))) (n + 20 * sizeL (W d ch r 12) + 12) res := by
    intro f hf
    obtain ⟨g, rfl⟩ : ∃ g, f = g + 1 := ⟨f - 1, by omega⟩
    have h1 : pAnd d g (W d ch r 12 ++ rest) = .ok (r, rest) := hr rest hrest g (by omega)
    have hx : searchStrUp (opTok "XOR" :: (W d ch r 12 ++ rest)) "XOR" = true := by
      have : (opTok "XOR").srcEqUp "XOR" = true := by decide
      simpa [searchStrUp] using this
    show pXorLoop d (g + 1) l _ = _
    unfold pXorLoop
    simp only [hx, if_true, List.drop_succ_cons, List.drop_zero, h1]
    exact hloop g (by omega)
  have := hl (opTok "XOR" :: (W d ch r 12 ++ rest)) stop_XOR _ res key
  simp only [List.append_assoc, List.cons_append]
  refine this.mono ?_
  simp only [sizeL_append, sizeL_cons, size_opTok]; omega

theorem cont14_or (l r : Expr) (hl : Cont d (P14 d) (fun f => pOrLoop d f) 13 14 (W d ch l 14) l) (hr : Full d (P13 d) 13 13 (W d ch r 13) r) :
    Cont d (P14 d) (fun f => pOrLoop d f) 13 14 (W d ch l 14 ++ opTok "OR" :: W d ch r 13) (.or_ l r) := by
  intro rest hrest n res hloop
  have key : OkAt (fun f => pOrLoop d f l (opTok "OR" :: (W d ch r 13 ++ rest))) (n + 20 * sizeL (W d ch r 13) + 14) res := by
    intro f hf
    obtain ⟨g, rfl⟩ : ∃ g, f = g + 1 := ⟨f - 1, by omega⟩
    have h1 : pXor d g (W d ch r 13 ++ rest) = .ok (r, rest) := hr rest hrest g (by omega)
    have hor : (up (opTok "OR").src == "OR" || up (opTok "OR").src == "||") = true := by decide
    show pOrLoop d (g + 1) l _ = _
    unfold pOrLoop
    simp only [hor, if_true, h1]
    exact hloop g (by omega)
  have := hl (opTok "OR" :: (W d ch r 13 ++ rest)) stop_OR _ res key
  simp only [List.append_assoc, List.cons_append]
  refine this.mono ?_
  simp only [sizeL_append, sizeL_cons, size_opTok]; omega


/-! ### keyword predicates: the chain in continuation form -/
theorem notSet_sub {s : String} (h : (Gen.notSet d).contains s = true) : s = "NOT" ∨ s = "!" := by
  cases d <;> simp [Gen.notSet] at h <;> first | exact Or.inl h | (rcases h with h | h; exact Or.inr h; exact Or.inl h)
theorem stop9_of_nochain {rest : List Tok} (h8 : stopLE d 8 rest = true) (hc : chainsOn rest = false) : stopLE d 9 rest = true := by
  cases rest with
  | nil => rfl
  | cons t r =>
    have hp := stop_parts d h8
    have hC := hp.2.1 (by omega)
    simp only [chainsOn] at hc
    have hn : (Gen.notSet d).contains (up t.src) = false := by
      cases hh : (Gen.notSet d).contains (up t.src) with
      | false => rfl
      | true =>
        rcases notSet_sub hh with h | h
        · rw [h] at hc; simp at hc
        · simp only [stopsC] at hC; rw [h] at hC; exact absurd hC (by decide)
    have hk : stopsK d t = true := by simp only [stopsK, hn, hc]; rfl
    simp only [stopLE, stopTok, Bool.and_eq_true, Bool.or_eq_true, decide_eq_true_eq] at h8 ⊢
    obtain ⟨⟨⟨⟨⟨⟨h1, h2⟩, h3⟩, h4⟩, h5⟩, h6⟩, h7⟩ := h8
    exact ⟨⟨⟨⟨⟨⟨h1, Or.inr hC⟩, Or.inr hk⟩, Or.inl (by omega)⟩, Or.inl (by omega)⟩, Or.inl (by omega)⟩, Or.inl (by omega)⟩

/-- after a predicate: the chain goes on with the predicate as the left side, or the level is done -/
theorem kw_tail (v : Expr) (rest : List Tok) (h8 : stopLE d 8 rest = true) (n : Nat) (res) (hl : OkAt (fun f => kwLoop d f v rest) n res) :
    OkAt (fun f => if chainsOn rest = true then pKeyword d f (some v) rest else .ok (v, rest)) (n + 2) res := by
  intro f hf
  cases hc : chainsOn rest with
  | true =>
    obtain ⟨g, rfl⟩ : ∃ g, f = g + 2 := ⟨f - 2, by omega⟩
    simp only [if_true]
    unfold pKeyword
    simp only [Option.isNone_some, Bool.false_and, Bool.false_eq_true, if_false]
    unfold pKwFirst
    exact hl (g + 1) (by omega)
  | false =>
    have s9 := stop9_of_nochain h8 hc
    have a := kwLoop_stop d v rest s9 (max n 2) (by omega)
    have b := hl (max n 2) (by omega)
    simp only [a, Except.ok.injEq] at b
    simp [b]

theorem stop8_kw : stopTok d 8 (opTok "IS") = true ∧ stopTok d 8 (opTok "NOT") = true ∧ stopTok d 8 (opTok "LIKE") = true ∧
    stopTok d 8 (opTok "RLIKE") = true ∧ stopTok d 8 (opTok "REGEXP") = true ∧ stopTok d 8 (opTok "BETWEEN") = true ∧
    stopTok d 8 (opTok "AND") = true := by cases d <;> decide
theorem notSet_kw : (Gen.notSet d).contains (up (opTok "IS").src) = false ∧ (Gen.notSet d).contains (up (opTok "LIKE").src) = false ∧
    (Gen.notSet d).contains (up (opTok "RLIKE").src) = false ∧ (Gen.notSet d).contains (up (opTok "REGEXP").src) = false ∧
    (Gen.notSet d).contains (up (opTok "BETWEEN").src) = false := by cases d <;> decide
theorem skipNot_NOT (r : List Tok) : skipNot d (opTok "NOT" :: r) = (true, r) := by simp only [skipNot, notSet_NOT, if_true]
theorem skipNot_of {t : Tok} (r : List Tok) (h : (Gen.notSet d).contains (up t.src) = false) : skipNot d (t :: r) = (false, t :: r) := by
  simp only [skipNot, h]; rfl

/-- `LIKE` / `RLIKE` / `REGEXP` with the (already skipped) `NOT` flag -/
theorem kwRest_like (k : KwKind) (s : String) (hk : (k = .like ∧ s = "LIKE") ∨ (k = .rlike ∧ s = "RLIKE") ∨ (k = .regexp ∧ s = "REGEXP"))
    (isNot : Bool) (l r : Expr) (rest : List Tok) (h8 : stopLE d 8 rest = true) (hr : Full d (P8 d) 8 2 (W d ch r 8) r)
    (n : Nat) (res) (hl : OkAt (fun f => kwLoop d f (.kw k isNot l r) rest) n res) :
    OkAt (fun f => pKwRest d f l isNot (opTok s :: (W d ch r 8 ++ rest))) (n + 20 * sizeL (W d ch r 8) + 6) res := by
  intro f hf
  obtain ⟨g, rfl⟩ : ∃ g, f = g + 3 := ⟨f - 3, by omega⟩
  have h1 : pCompute d (g + 1) (W d ch r 8 ++ rest) = .ok (r, rest) := hr rest h8 (g + 1) (by omega)
  have ht := kw_tail (.kw k isNot l r) rest h8 n res hl (g + 2) (by omega)
  unfold pKwRest
  simp only []
  unfold pKwBody
  rcases hk with ⟨rfl, rfl⟩ | ⟨rfl, rfl⟩ | ⟨rfl, rfl⟩
  · have hu : up (opTok "LIKE").src = "LIKE" := by decide
    simp only [hu, h1]
    simpa using ht
  · have hu : up (opTok "RLIKE").src = "RLIKE" := by decide
    simp only [hu, h1]
    simpa using ht
  · have hu : up (opTok "REGEXP").src = "REGEXP" := by decide
    simp only [hu, h1]
    simpa using ht

/-- `IS [NOT]` -/
theorem kwRest_is (n0 : Bool) (l r : Expr) (rest : List Tok) (h8 : stopLE d 8 rest = true) (hr : Full d (P8 d) 8 2 (W d ch r 8) r)
    (hh : HeadOK d (W d ch r 8)) (n : Nat) (res) (hl : OkAt (fun f => kwLoop d f (.kw .is n0 l r) rest) n res) :
    OkAt (fun f => pKwRest d f l false (opTok "IS" :: ((if n0 then [opTok "NOT"] else []) ++ (W d ch r 8 ++ rest)))) (n + 20 * sizeL (W d ch r 8) + 6) res := by
  intro f hf
  obtain ⟨g, rfl⟩ : ∃ g, f = g + 3 := ⟨f - 3, by omega⟩
  have h1 : pCompute d (g + 1) (W d ch r 8 ++ rest) = .ok (r, rest) := hr rest h8 (g + 1) (by omega)
  have ht := kw_tail (.kw .is n0 l r) rest h8 n res hl (g + 2) (by omega)
  have hu : up (opTok "IS").src = "IS" := by decide
  have hm : moveStrUp ((if n0 then [opTok "NOT"] else []) ++ (W d ch r 8 ++ rest)) "NOT" = (n0, W d ch r 8 ++ rest) := by
    cases n0 with
    | true =>
      have : (opTok "NOT").srcEqUp "NOT" = true := by decide
      simp [moveStrUp, searchStrUp, this]
    | false =>
      obtain ⟨t, ts', h1, h2⟩ := hh
      simp only [operandTok, Bool.and_eq_true, Bool.not_eq_true'] at h2
      have hne : t.srcEqUp "NOT" = false := by
        cases hq : t.srcEqUp "NOT" with
        | false => rfl
        | true =>
          simp only [Tok.srcEqUp, beq_iff_eq] at hq
          have := h2.1.2
          rw [hq] at this
          have h3 : (Gen.notSet d).contains "NOT" = true := by cases d <;> decide
          rw [h3] at this; cases this
      simp [moveStrUp, searchStrUp, h1, hne]
  unfold pKwRest
  simp only []
  unfold pKwBody
  simp only [hu, hm, h1, Bool.false_eq_true, if_false]
  simpa using ht

theorem cont9_kw (k : KwKind) (n0 : Bool) (l r : Expr) (hk : k ≠ .in_)
    (hl : Cont d (P9 d) (kwLoop d) 8 4 (W d ch l 9) l) (hr : Full d (P8 d) 8 2 (W d ch r 8) r) (hh : HeadOK d (W d ch r 8)) :
    Cont d (P9 d) (kwLoop d) 8 4 (W d ch l 9 ++ (kwToks k n0 ++ W d ch r 8)) (.kw k n0 l r) := by
  intro rest h8 n res hloop
  obtain ⟨sIS, sNOT, sLIKE, sRLIKE, sREGEXP, _, _⟩ := @stop8_kw d
  obtain ⟨nIS, nLIKE, nRLIKE, nREGEXP, _⟩ := @notSet_kw d
  have key : OkAt (fun f => kwLoop d f l (kwToks k n0 ++ (W d ch r 8 ++ rest))) (n + 20 * sizeL (W d ch r 8) + 6) res ∧
      stopLE d 8 (kwToks k n0 ++ (W d ch r 8 ++ rest)) = true ∧ 1 ≤ sizeL (kwToks k n0) := by
    cases k with
    | in_ => exact absurd rfl hk
    | is =>
      refine ⟨?_, ?_, ?_⟩
      · have := kwRest_is n0 l r rest h8 hr hh n res hloop
        unfold kwLoop
        cases n0 <;> simp only [kwToks, List.cons_append, List.nil_append, skipNot_of _ nIS, Bool.false_eq_true, if_false, if_true] <;>
          simpa using this
      · cases n0 <;> simp [kwToks, stopLE, sIS]
      · cases n0 <;> simp [kwToks, sizeL, Tok.size, opTok]
    | like =>
      refine ⟨?_, ?_, ?_⟩
      · have := kwRest_like .like "LIKE" (Or.inl ⟨rfl, rfl⟩) n0 l r rest h8 hr n res hloop
        unfold kwLoop
        cases n0 <;> simp only [kwToks, List.cons_append, List.nil_append, skipNot_of _ nLIKE, skipNot_NOT, Bool.false_eq_true, if_false, if_true] <;>
          exact this
      · cases n0 <;> simp [kwToks, stopLE, sLIKE, sNOT]
      · cases n0 <;> simp [kwToks, sizeL, Tok.size, opTok]
    | rlike =>
      refine ⟨?_, ?_, ?_⟩
      · have := kwRest_like .rlike "RLIKE" (Or.inr (Or.inl ⟨rfl, rfl⟩)) n0 l r rest h8 hr n res hloop
        unfold kwLoop
        cases n0 <;> simp only [kwToks, List.cons_append, List.nil_append, skipNot_of _ nRLIKE, skipNot_NOT, Bool.false_eq_true, if_false, if_true] <;>
          exact this
      · cases n0 <;> simp [kwToks, stopLE, sRLIKE, sNOT]
      · cases n0 <;> simp [kwToks, sizeL, Tok.size, opTok]
    | regexp =>
      refine ⟨?_, ?_, ?_⟩
      · have := kwRest_like .regexp "REGEXP" (Or.inr (Or.inr ⟨rfl, rfl⟩)) n0 l r rest h8 hr n res hloop
        unfold kwLoop
        cases n0 <;> simp only [kwToks, List.cons_append, List.nil_append, skipNot_of _ nREGEXP, skipNot_NOT, Bool.false_eq_true, if_false, if_true] <;>
          exact this
      · cases n0 <;> simp [kwToks, stopLE, sREGEXP, sNOT]
      · cases n0 <;> simp [kwToks, sizeL, Tok.size, opTok]
  have := hl (kwToks k n0 ++ (W d ch r 8 ++ rest)) key.2.1 _ res key.1
  simp only [List.append_assoc]
  refine this.mono ?_
  have := key.2.2
  simp only [sizeL_append]; omega

theorem cont9_between (n0 : Bool) (b fr to : Expr)
    (hb : Cont d (P9 d) (kwLoop d) 8 4 (W d ch b 9) b) (hf : Full d (P8 d) 8 2 (W d ch fr 8) fr) (ht : Full d (P8 d) 8 2 (W d ch to 8) to) :
    Cont d (P9 d) (kwLoop d) 8 4
      (W d ch b 9 ++ ((if n0 then [opTok "NOT"] else []) ++ opTok "BETWEEN" :: (W d ch fr 8 ++ opTok "AND" :: W d ch to 8))) (.between n0 b fr to) := by
  intro rest h8 n res hloop
  obtain ⟨_, sNOT, _, _, _, sBETWEEN, sAND⟩ := @stop8_kw d
  obtain ⟨_, _, _, _, nBETWEEN⟩ := @notSet_kw d
  have body : OkAt (fun f => pKwRest d f b n0 (opTok "BETWEEN" :: (W d ch fr 8 ++ opTok "AND" :: (W d ch to 8 ++ rest))))
      (n + 20 * sizeL (W d ch fr 8) + 20 * sizeL (W d ch to 8) + 8) res := by
    intro f hf'
    obtain ⟨g, rfl⟩ : ∃ g, f = g + 4 := ⟨f - 4, by omega⟩
    have h1 : pCompute d (g + 1) (W d ch fr 8 ++ opTok "AND" :: (W d ch to 8 ++ rest)) = .ok (fr, opTok "AND" :: (W d ch to 8 ++ rest)) :=
      hf _ (show stopLE d 8 (opTok "AND" :: (W d ch to 8 ++ rest)) = true from sAND) (g + 1) (by omega)
    have h2 : pCompute d (g + 1) (W d ch to 8 ++ rest) = .ok (to, rest) := ht rest h8 (g + 1) (by omega)
    have htl := kw_tail (.between n0 b fr to) rest h8 n res hloop (g + 3) (by omega)
    have hu : up (opTok "BETWEEN").src = "BETWEEN" := by decide
    have hm : (opTok "AND").equalsStr "AND" = true := by decide
    unfold pKwRest
    simp only []
    unfold pKwBody
    simp only [hu, beq_self_eq_true, if_true]
    unfold pBetween
    simp only [h1, matchKw, hm, if_true, h2]
    simpa using htl
  have key : OkAt (fun f => kwLoop d f b ((if n0 then [opTok "NOT"] else []) ++ opTok "BETWEEN" :: (W d ch fr 8 ++ opTok "AND" :: (W d ch to 8 ++ rest))))
      (n + 20 * sizeL (W d ch fr 8) + 20 * sizeL (W d ch to 8) + 8) res := by
    unfold kwLoop
    cases n0 <;> simp only [List.cons_append, List.nil_append, skipNot_of _ nBETWEEN, skipNot_NOT, Bool.false_eq_true, if_false, if_true] <;>
      exact body
  have hstop : stopLE d 8 ((if n0 then [opTok "NOT"] else []) ++ opTok "BETWEEN" :: (W d ch fr 8 ++ opTok "AND" :: (W d ch to 8 ++ rest))) = true := by
    cases n0 <;> simp [stopLE, sNOT, sBETWEEN]
  have := hb _ hstop _ res key
  simp only [List.append_assoc, List.cons_append]
  refine this.mono ?_
  cases n0 <;> simp only [sizeL_append, sizeL_cons, size_opTok, sizeL, if_true, if_false, Bool.false_eq_true] <;> omega

/-! ### the induction -/
theorem Tower.relevel {ts x} {L0 : Nat} (T : Tower d L0 ts x) (L1 : Nat)
    (h : (L1 ≤ 2 → L0 ≤ 2) ∧ (L1 ≤ 8 → L0 ≤ 8) ∧ (L1 ≤ 9 → L0 ≤ 9) ∧ (L1 ≤ 10 → L0 ≤ 10) ∧ (L1 ≤ 11 → L0 ≤ 11) ∧ (L1 ≤ 12 → L0 ≤ 12) ∧
      (L1 ≤ 13 → L0 ≤ 13)) : Tower d L1 ts x :=
  ⟨fun g => T.s2 (h.1 g), fun g => T.s8 (h.2.1 g), fun g => T.c9 (h.2.2.1 g), fun g => T.s9 (h.2.2.1 g),
   fun g => T.c10 (h.2.2.2.1 g), fun g => T.s10 (h.2.2.2.1 g), fun g => T.s11 (h.2.2.2.2.1 g), fun g => T.c12 (h.2.2.2.2.2.1 g),
   fun g => T.s12 (h.2.2.2.2.2.1 g), fun g => T.c13 (h.2.2.2.2.2.2 g), fun g => T.s13 (h.2.2.2.2.2.2 g), T.c14, T.s14⟩

theorem RT.mk' {e : Expr} (own : Tower d (PR.lvl e) (toksE d ch e) e) (head : Head d e (toksE d ch e)) : RT d ch e :=
  ⟨own, Tower.of2 (full2_group e own.s14 head) (grp_headOK _), head⟩

theorem HeadOK.append {ts : List Tok} (h : HeadOK d ts) (ys : List Tok) : HeadOK d (ts ++ ys) := by
  obtain ⟨t, ts', rfl, h2⟩ := h; exact ⟨t, ts' ++ ys, rfl, h2⟩
/-- the head of a binary node's rendering is the head of its left child's rendering -/
theorem head_left {e l : Expr} (hl : RT d ch l) (L : Nat) (ys : List Tok) (hL : PR.lvl e ≤ 10 → L ≤ 10) :
    Head d e (W d ch l L ++ ys) := by
  obtain ⟨t, ts', h1, h2, h3⟩ := hl.headW L
  refine ⟨t, ts' ++ ys, by rw [h1]; rfl, h2, fun he => h3 ?_⟩
  have := hL he
  omega

theorem rt_all : ∀ n e, sz e ≤ n → Frag d e = true → RT d ch e := by
  intro n
  induction n with
  | zero => intro e he; cases e <;> simp [sz] at he
  | succ n ih =>
    intro e he hf
    cases e with
    | column t c =>
      cases t with
      | some t => simp [Frag] at hf
      | none =>
        simp only [Frag] at hf
        have hh : operandTok d (nameTok c) = true := by
          simp only [colOK, elemTok, Bool.and_eq_true] at hf; exact hf.1.1.1.1
        have hs : startTok (nameTok c) = true := by simp only [operandTok, Bool.and_eq_true] at hh; exact hh.1.1
        exact RT.mk' ((Tower.of2 (full2_column c hf) ⟨_, [], rfl, hh⟩).relevel _ (by simp [PR.lvl])) ⟨_, [], rfl, hs, fun _ => hh⟩
    | literal v =>
      simp only [Frag] at hf
      have hh : operandTok d (litTok v) = true := by
        simp only [litOK, elemTok, Bool.and_eq_true] at hf; exact hf.2.1
      have hs : startTok (litTok v) = true := by simp only [operandTok, Bool.and_eq_true] at hh; exact hh.1.1
      exact RT.mk' ((Tower.of2 (full2_literal v hf) ⟨_, [], rfl, hh⟩).relevel _ (by simp [PR.lvl])) ⟨_, [], rfl, hs, fun _ => hh⟩
    | unary o x =>
      simp only [Frag, Bool.and_eq_true] at hf
      simp only [sz] at he
      have hx := ih x (by omega) hf.2
      have hh : operandTok d (opTok (cval o)) = true := by
        have := hf.1; simp only [unOK, Bool.and_eq_true] at this; exact this.1.2
      have hs : startTok (opTok (cval o)) = true := by simp only [operandTok, Bool.and_eq_true] at hh; exact hh.1.1
      have f2 := full2_unary o x hf.1 ((hx.at 2 (by omega)).s2 (by omega))
      exact RT.mk' ((Tower.of2 f2 ⟨_, _, rfl, hh⟩).relevel _ (by simp [PR.lvl])) ⟨_, _, rfl, hs, fun _ => hh⟩
    | compute l o r =>
      obtain ⟨hb, fl, fr⟩ := frag_compute d hf
      obtain ⟨h3, h8, _⟩ := binOK_parts d hb
      simp only [sz] at he
      have hl := ih l (by omega) fl
      have f8 := compute_node d ch (.compute l o r) rfl hf
        (fun u fu su => ((ih u (by simp only [sz] at su; omega) fu).at 2 (by omega)).s2 (by omega))
      have hd : HeadOK d (toksE d ch (.compute l o r)) := by
        simp only [toksE, lvl_compute]
        exact (hl.headOKW (binLevel o) (by omega)).append _
      have hhd : Head d (.compute l o r) (toksE d ch (.compute l o r)) := by
        simp only [toksE, lvl_compute]
        exact head_left hl (binLevel o) _ (fun _ => by omega)
      exact RT.mk' ((Tower.of8 f8 hd).relevel _ (by rw [lvl_compute]; omega)) hhd
    | kw k n0 l r =>
      simp only [Frag, Bool.and_eq_true, bne_iff_ne, ne_eq] at hf
      simp only [sz] at he
      have hl := ih l (by omega) hf.1.2
      have hr := ih r (by omega) hf.2
      have c9 := cont9_kw k n0 l r hf.1.1 ((hl.at 9 (by omega)).c9 (by omega)) ((hr.at 8 (by omega)).s8 (by omega))
        (hr.headOKW 8 (by omega))
      have hd : HeadOK d (toksE d ch (.kw k n0 l r)) := (hl.headOKW 9 (by omega)).append _
      exact RT.mk' ((Tower.of9 c9 hd).relevel _ (by simp [PR.lvl])) (head_left hl 9 _ (fun _ => by omega))
    | between n0 b fr to =>
      simp only [Frag, Bool.and_eq_true] at hf
      simp only [sz] at he
      have hb := ih b (by omega) hf.1.1
      have hfr := ih fr (by omega) hf.1.2
      have hto := ih to (by omega) hf.2
      have c9 := cont9_between n0 b fr to ((hb.at 9 (by omega)).c9 (by omega)) ((hfr.at 8 (by omega)).s8 (by omega))
        ((hto.at 8 (by omega)).s8 (by omega))
      have hd : HeadOK d (toksE d ch (.between n0 b fr to)) := (hb.headOKW 9 (by omega)).append _
      exact RT.mk' ((Tower.of9 c9 hd).relevel _ (by simp [PR.lvl])) (head_left hb 9 _ (fun _ => by omega))
    | compare o l r =>
      simp only [Frag, Bool.and_eq_true] at hf
      simp only [sz] at he
      have hl := ih l (by omega) hf.1.2
      have hr := ih r (by omega) hf.2
      have c10 := cont10_compare o l r hf.1.1 ((hl.at 10 (by omega)).c10 (by omega)) ((hr.at 9 (by omega)).s9 (by omega))
      have hd : HeadOK d (toksE d ch (.compare o l r)) := (hl.headOKW 10 (by omega)).append _
      exact RT.mk' ((Tower.of10 c10 hd).relevel _ (by simp [PR.lvl])) (head_left hl 10 _ (fun _ => by omega))
    | not_ x =>
      simp only [Frag] at hf
      simp only [sz] at he
      have hx := ih x (by omega) hf
      have f11 := full11_not x ((hx.at 11 (by omega)).s11 (by omega))
      have hs : startTok (opTok "NOT") = true := by decide
      exact RT.mk' ((Tower.of11 f11).relevel _ (by simp [PR.lvl])) ⟨_, _, rfl, hs, fun h => by simp [PR.lvl] at h⟩
    | and_ l r =>
      simp only [Frag, Bool.and_eq_true] at hf
      simp only [sz] at he
      have hl := ih l (by omega) hf.1
      have hr := ih r (by omega) hf.2
      have c12 := cont12_and l r ((hl.at 12 (by omega)).c12 (by omega)) ((hr.at 11 (by omega)).s11 (by omega))
      exact RT.mk' ((Tower.of12 c12).relevel _ (by simp [PR.lvl])) (head_left hl 12 _ (fun h => by simp [PR.lvl] at h))
    | xor l r =>
      simp only [Frag, Bool.and_eq_true] at hf
      simp only [sz] at he
      have hl := ih l (by omega) hf.1
      have hr := ih r (by omega) hf.2
      have c13 := cont13_xor l r ((hl.at 13 (by omega)).c13 (by omega)) ((hr.at 12 (by omega)).s12 (by omega))
      exact RT.mk' ((Tower.of13 c13).relevel _ (by simp [PR.lvl])) (head_left hl 13 _ (fun h => by simp [PR.lvl] at h))
    | or_ l r =>
      simp only [Frag, Bool.and_eq_true] at hf
      simp only [sz] at he
      have hl := ih l (by omega) hf.1
      have hr := ih r (by omega) hf.2
      have c14 := cont14_or l r (hl.at 14 (by omega)).c14 ((hr.at 13 (by omega)).s13 (by omega))
      exact RT.mk' ((Tower.of14 c14).relevel _ (by simp [PR.lvl])) (head_left hl 14 _ (fun h => by simp [PR.lvl] at h))
    | _ => simp [Frag] at hf

end TP
