import MsqProofs.Lemmas.LexLinkDml1
/-!
# The lexer link for data-change statements: the INSERT head, the WITH clause of a query, the statement record

`GSt d K s` — the record of a statement text: it lexes to `TDM.toksStmt d s` (in context), `PR.prStmt` prints exactly `stmtL d s`, the kit's
property holds of it.  `good_stmt`: every statement of `TDM.FragStmt` that the printer prints (`printableStmt`) and whose payloads satisfy
the leaf hypotheses has its record.
-/
set_option linter.unusedVariables false
set_option linter.unusedSimpArgs false
namespace LLD
open Lex Spec C05 C06 C09 Ast TP TS TQ LexLink

structure GSt (d : Gen.D) (K : QKit) (s : Stmt) : Prop where
  lx : Lx (stmtL d s) (TDM.toksStmt d s)
  pr : PR.prStmt d s = .ok (String.ofList (stmtL d s))
  q : K.Q (stmtL d s)

section
variable {d : Gen.D} {K : QKit}

/-! ## the INSERT words, the target -/

theorem insertTy_cases {ty : String} (h : TDM.insertTyOK ty = true) : ty = "INSERT_INTO" ∨ ty = "INSERT_IGNORE_INTO" ∨ ty = "INSERT_OVERWRITE" := by
  simpa [TDM.insertTyOK] using h

theorem insertWordsL_eq : insertWordsL "INSERT_INTO" = "INSERT".toList ++ ' ' :: "INTO".toList ∧
    insertWordsL "INSERT_IGNORE_INTO" = "INSERT".toList ++ ' ' :: ("IGNORE".toList ++ ' ' :: "INTO".toList) ∧
    insertWordsL "INSERT_OVERWRITE" = "INSERT".toList ++ ' ' :: "OVERWRITE".toList := by
  refine ⟨?_, ?_, ?_⟩ <;> simp [insertWordsL, Gen.insertTypes, joinLL]
theorem insertWordsT_eq : TDM.insertWords "INSERT_INTO" = [opTok "INSERT", opTok "INTO"] ∧
    TDM.insertWords "INSERT_IGNORE_INTO" = [opTok "INSERT", opTok "IGNORE", opTok "INTO"] ∧
    TDM.insertWords "INSERT_OVERWRITE" = [opTok "INSERT", opTok "OVERWRITE"] := by
  refine ⟨?_, ?_, ?_⟩ <;> simp [TDM.insertWords, Gen.insertTypes]

theorem lx_iw (w : String) (hw : w ∈ ["INSERT", "INTO", "IGNORE", "OVERWRITE"]) : Lx w.toList [opTok w] := by
  have hall := List.all_eq_true.mp insert_words_lex
  rw [opTok_eq]
  simp only [List.mem_cons, List.mem_nil_iff, or_false] at hw
  rcases hw with rfl | rfl | rfl | rfl
  · exact lx_of_is (List.all_eq_true.mp (hall ("INSERT_INTO", ["INSERT", "INTO"]) (by simp [Gen.insertTypes])) "INSERT" (by simp))
  · exact lx_of_is (List.all_eq_true.mp (hall ("INSERT_INTO", ["INSERT", "INTO"]) (by simp [Gen.insertTypes])) "INTO" (by simp))
  · exact lx_of_is (List.all_eq_true.mp (hall ("INSERT_IGNORE_INTO", ["INSERT", "IGNORE", "INTO"]) (by simp [Gen.insertTypes])) "IGNORE" (by simp))
  · exact lx_of_is (List.all_eq_true.mp (hall ("INSERT_OVERWRITE", ["INSERT", "OVERWRITE"]) (by simp [Gen.insertTypes])) "OVERWRITE" (by simp))

theorem q_iw (hK : DW K) (w : String) (hw : w ∈ ["INSERT", "INTO", "IGNORE", "OVERWRITE"]) : K.Q w.toList := by
  simp only [List.mem_cons, List.mem_nil_iff, or_false] at hw
  rcases hw with rfl | rfl | rfl | rfl
  · exact hK.iws ("INSERT_INTO", ["INSERT", "INTO"]) (by simp [Gen.insertTypes]) "INSERT" (by simp)
  · exact hK.iws ("INSERT_INTO", ["INSERT", "INTO"]) (by simp [Gen.insertTypes]) "INTO" (by simp)
  · exact hK.iws ("INSERT_IGNORE_INTO", ["INSERT", "IGNORE", "INTO"]) (by simp [Gen.insertTypes]) "IGNORE" (by simp)
  · exact hK.iws ("INSERT_OVERWRITE", ["INSERT", "OVERWRITE"]) (by simp [Gen.insertTypes]) "OVERWRITE" (by simp)

theorem insertWords_good (hK : DW K) (ty : String) (h : TDM.insertTyOK ty = true) :
    Lx (insertWordsL ty) (TDM.insertWords ty) ∧ K.Q (insertWordsL ty) ∧
      ∃ s, PR.wordsSrc Gen.insertTypes ty = .ok s ∧ s.toList = insertWordsL ty := by
  obtain ⟨a1, a2, a3⟩ := insertWordsL_eq
  obtain ⟨b1, b2, b3⟩ := insertWordsT_eq
  rcases insertTy_cases h with rfl | rfl | rfl
  · rw [a1, b1]
    exact ⟨Lx.sep (lx_iw "INSERT" (by simp)) (lx_iw "INTO" (by simp)), K.sp (q_iw hK "INSERT" (by simp)) (q_iw hK "INTO" (by simp)),
      "INSERT INTO", by simp [PR.wordsSrc, Gen.insertTypes, PR.joinS], rfl⟩
  · rw [a2, b2]
    exact ⟨Lx.sep (lx_iw "INSERT" (by simp)) (Lx.sep (lx_iw "IGNORE" (by simp)) (lx_iw "INTO" (by simp))),
      K.sp (q_iw hK "INSERT" (by simp)) (K.sp (q_iw hK "IGNORE" (by simp)) (q_iw hK "INTO" (by simp))),
      "INSERT IGNORE INTO", by simp [PR.wordsSrc, Gen.insertTypes, PR.joinS], rfl⟩
  · rw [a3, b3]
    exact ⟨Lx.sep (lx_iw "INSERT" (by simp)) (lx_iw "OVERWRITE" (by simp)), K.sp (q_iw hK "INSERT" (by simp)) (q_iw hK "OVERWRITE" (by simp)),
      "INSERT OVERWRITE", by simp [PR.wordsSrc, Gen.insertTypes, PR.joinS], rfl⟩

theorem tbl_good (s : Option String) (n : String) (hl : optNameLex s ∧ nameLex n) (hq : K.item (.tbl s n)) :
    Lx (tblL s n) [tblTok s n] ∧ K.Q (tblL s n) ∧ PR.tableNameSrc s n = String.ofList (tblL s n) := by
  refine ⟨?_, ?_, ?_⟩
  · rw [tblTok_eq]
    cases s with
    | none => exact lx_name n.toList fun x hx => (hl.2 x hx).1
    | some s =>
      have := lx_name (s.toList ++ '.' :: n.toList) (by
        intro x hx
        simp only [List.mem_append, List.mem_cons] at hx
        rcases hx with hx | rfl | hx
        · exact (hl.1 x hx).1
        · decide
        · exact (hl.2 x hx).1)
      exact Lx.congr this (by simp [tblL]) (by simp [tblL])
  · cases s with
    | none => exact K.bq (hq n (by simp [strs]))
    | some s =>
      have := K.bq (K.sep _ _ '.' K.s_dot (hq s (by simp [strs])) (hq n (by simp [strs])))
      simpa [tblL] using this
  · apply ofList_eq
    cases s <;> simp [PR.tableNameSrc, tblL, toString, String.toList_append]

/-! ## PARTITION -/

theorem wrapL_le (e : Expr) (k : Nat) (s : List Char) (h : PR.lvl e ≤ k) : wrapL e k s = s := by
  unfold wrapL; split <;> first | omega | rfl
theorem wrapL_gt (e : Expr) (k : Nat) (s : List Char) (h : PR.lvl e > k) : wrapL e k s = '(' :: (s ++ [')']) := by
  unfold wrapL; split <;> first | omega | rfl

/-- a partition item of the fragment: the partition printer (`prPartItem`, brackets above the compute level) prints what the general
expression printer prints -/
theorem partItem_good (e : Expr) (h : (TDM.staticOK d e || TDM.dynOK d e) = true) (hl : Lv d K (leavesE e)) :
    GE d K e ∧ PR.prPartItem d e = .ok (String.ofList (prE3L d e)) := by
  rcases Bool.or_eq_true_iff.mp h with h | h
  · cases e with
    | compare o l r =>
      simp only [TDM.staticOK, Bool.and_eq_true, decide_eq_true_eq] at h
      obtain ⟨⟨⟨⟨⟨ho, hfl⟩, hfr⟩, hll⟩, hlr⟩, _⟩ := h
      simp only [leavesE, lv_append] at hl
      have gl := good_expr d K l hfl hl.1
      have gr := good_expr d K r hfr hl.2
      refine ⟨ge_compare o l r ho gl gr, ?_⟩
      simp only [PR.prPartItem, gl.pr, gr.pr, cmpOK_prints ho, Except.map, bind, Except.bind, pure, Except.pure, wrap_ofList, prE3L]
      refine congrArg Except.ok ?_
      apply String.toList_inj.mp
      have e1 : wrapL l 8 (prE3L d l) = wrapL l 10 (prE3L d l) := by
        rw [wrapL_le l 8 _ hll, wrapL_le l 10 _ (by omega)]
      have e2 : wrapL r 8 (prE3L d r) = wrapL r 9 (prE3L d r) := by
        by_cases hr : PR.lvl r ≤ 8
        · rw [wrapL_le r 8 _ hr, wrapL_le r 9 _ (by omega)]
        · rw [wrapL_gt r 8 _ (by omega), wrapL_gt r 9 _ (by omega)]
      simp [toString, String.toList_append, String.toList_ofList, e1, e2]
    | _ => simp [TDM.staticOK] at h
  · simp only [TDM.dynOK, Bool.and_eq_true, decide_eq_true_eq] at h
    have g := good_expr d K e h.1 hl
    refine ⟨g, ?_⟩
    have hp : PR.prPartItem d e = (PR.prE d e).map (PR.wrap e 8) := by
      cases e <;> first | rfl | (simp [PR.lvl] at h)
    rw [hp, g.pr]
    simp only [Except.map, wrap_ofList, wrapL_le e 8 _ h.2]

theorem partItems_good (es : List Expr) (h : (es.all (TDM.staticOK d) || es.all (TDM.dynOK d)) = true) (hl : Lv d K (leavesL es)) :
    ∀ e ∈ es, GE d K e ∧ PR.prPartItem d e = .ok (String.ofList (prE3L d e)) := by
  have hall : ∀ e ∈ es, (TDM.staticOK d e || TDM.dynOK d e) = true := by
    intro e he
    rcases Bool.or_eq_true_iff.mp h with h | h
    · rw [(List.all_eq_true.mp h) e he]; rfl
    · rw [(List.all_eq_true.mp h) e he]; simp
  clear h
  induction es with
  | nil => intro e he; cases he
  | cons a r ih =>
    simp only [leavesL, lv_append] at hl
    intro e he
    rcases List.mem_cons.mp he with rfl | he
    · exact partItem_good e (hall e (by simp)) hl.1
    · exact ih hl.2 (fun x hx => hall x (by simp [hx])) e he

theorem pr_partList (es : List Expr) (h : ∀ e ∈ es, PR.prPartItem d e = .ok (String.ofList (prE3L d e))) :
    PR.prPartList d es = .ok ((es.map (prE3L d)).map String.ofList) := by
  induction es with
  | nil => rfl
  | cons a r ih =>
    have h2 := ih fun x hx => h x (by simp [hx])
    simp only [PR.prPartList, h a (by simp), h2, bind, Except.bind, pure, Except.pure, List.map_cons]

/-- the optional parts of `PR.prInsertHead`, named -/
def partStr (d : Gen.D) : Option (List Expr) → PR.P
  | some p => (PR.prPartition d p).map fun x => x ++ " " | none => pure ""
def colsStr (d : Gen.D) : Option (List (Option String × String)) → String
  | some cs => "(" ++ PR.joinS ", " (cs.map fun (t, c) => PR.columnSrc d t c) ++ ") "
  | none => ""
theorem prInsertHead_eq (d : Gen.D) (h : InsertHead) : PR.prInsertHead d h = (do
    if h.type == "INSERT_OVERWRITE" && !(d == .HIVE || d == .DEFAULT) then throw .notSupported
    let ty ← PR.wordsSrc Gen.insertTypes h.type
    let part ← partStr d h.partition
    let w ← PR.prWithPrefix d "\n" h.withs
    pure s!"{w}{ty} {if d == .HIVE then "TABLE " else ""}{PR.tn h.table} {part}{colsStr d h.columns}") := by
  obtain ⟨w, ty, t, p, c⟩ := h
  cases p <;> cases c <;> rfl

theorem part_good (hK : DW K) (p : Option (List Expr)) (hf : TDM.partOK d p = true) (hl : Lv d K (leavesPart p)) :
    Seg ' ' (partPieces d p) (TDM.toksPart d noX p) ∧ (∀ x ∈ partPieces d p, K.Q x) ∧
      partStr d p = .ok (String.ofList (ps (partPieces d p))) := by
  cases p with
  | none => exact ⟨Seg.nil _, fun x hx => by simp [partPieces] at hx, rfl⟩
  | some es =>
    have hall := partItems_good (K := K) es (by simpa [TDM.partOK] using hf) (by simpa [leavesPart] using hl)
    have hP := lx_dw "PARTITION" (by simp [dmlWords])
    refine ⟨?_, ?_, ?_⟩
    · have := Lx.sep hP (Lx.paren (lx_joinC (prE3L d) (toksE3 d noX) es fun e he => (hall e he).1.lx))
      exact Seg.one _ (Lx.congr this (by simp [partPieces]) (by simp [TDM.toksPart, grp_eq]))
    · intro x hx
      simp only [partPieces, List.mem_singleton] at hx
      subst hx
      exact K.sp (hK.dws "PARTITION" (by simp [dmlWords])) (K.paren (K.joinLL2 _ fun y hy => by
        obtain ⟨e, he, rfl⟩ := List.mem_map.mp hy
        exact (hall e he).1.q))
    · simp only [partStr, PR.prPartition, pr_partList es (fun e he => (hall e he).2), Except.map]
      refine congrArg Except.ok ?_
      apply ofList_eq
      have e3 : (", " : String).toList = [',', ' '] := rfl
      simp [toString, String.toList_append, toList_joinS, map_map_ofList, e3, partPieces, ps, Function.comp_def, String.toList_ofList]

/-! ## the column list -/

theorem colName_good (c : Option String × String) (hl : leafOK d (.col c.1 c.2)) (hq : K.item (.col c.1 c.2)) :
    Lx (colNameL d c) (TDM.toksColName c) ∧ K.Q (colNameL d c) ∧ PR.columnSrc d c.1 c.2 = String.ofList (colNameL d c) := by
  obtain ⟨t, n⟩ := c
  have g : GE d K (.column t n) := by
    cases t with
    | none => exact ge_col n hl (hq n (by simp [strs]))
    | some t => exact ge_qcol t n hl (hq t (by simp [strs])) (hq n (by simp [strs]))
  refine ⟨?_, g.q, ?_⟩
  · have := g.lx
    cases t <;> exact this
  · have := g.pr
    simp only [PR.prE, Except.ok.injEq] at this
    exact this

theorem cols_good (cs : Option (List (Option String × String))) (hl : Lv d K (leavesColNames cs)) :
    Seg ' ' (colPieces d cs) (TDM.toksColNames cs) ∧ (∀ x ∈ colPieces d cs, K.Q x) ∧
      colsStr d cs = String.ofList (ps (colPieces d cs)) := by
  cases cs with
  | none => exact ⟨Seg.nil _, fun x hx => by simp [colPieces] at hx, rfl⟩
  | some cs =>
    have hall : ∀ c ∈ cs, Lx (colNameL d c) (TDM.toksColName c) ∧ K.Q (colNameL d c) ∧
        PR.columnSrc d c.1 c.2 = String.ofList (colNameL d c) := by
      intro c hc
      have := hl (.col c.1 c.2) (by simp only [leavesColNames]; exact List.mem_map.mpr ⟨c, hc, rfl⟩)
      exact colName_good c this.1 this.2
    refine ⟨?_, ?_, ?_⟩
    · have := Lx.paren (lx_joinC (colNameL d) TDM.toksColName cs fun c hc => (hall c hc).1)
      exact Seg.one _ (Lx.congr this (by simp [colPieces]) (by simp [TDM.toksColNames, grp_eq]))
    · intro x hx
      simp only [colPieces, List.mem_singleton] at hx
      subst hx
      exact K.paren (K.joinLL2 _ fun y hy => by
        obtain ⟨c, hc, rfl⟩ := List.mem_map.mp hy
        exact (hall c hc).2.1)
    · have hm : (cs.map fun (p : Option String × String) => PR.columnSrc d p.1 p.2) = (cs.map (colNameL d)).map String.ofList := by
        rw [List.map_map]
        exact List.map_congr_left fun c hc => (hall c hc).2.2
      simp only [colsStr]
      apply ofList_eq
      have e3 : (", " : String).toList = [',', ' '] := rfl
      have e1 : ("(" : String).toList = ['('] := rfl
      have e2 : (") " : String).toList = [')', ' '] := rfl
      rw [String.toList_append, String.toList_append, toList_joinS, hm, map_map_ofList, e1, e2, e3]
      simp [colPieces, ps]

/-! ## the INSERT head -/

theorem head_good (hK : DW K) (h : InsertHead) (hf : TDM.headOK d h = true) (hp : insertPrintable d h = true)
    (hl : Lv d K (leavesHead h)) :
    (∀ l, h.withs = some l → ∀ w ∈ l, GW d K w) ∧ (∃ l, h.withs = some l) ∧
    Seg ' ' (headPieces d h) (TDM.toksTarget d noX (d == .HIVE) h) ∧ headPieces d h ≠ [] ∧ (∀ x ∈ headPieces d h, K.Q x) ∧
      PR.prInsertHead d h = .ok (String.ofList (withPrefixL d ['\n'] h.withs ++ ps (headPieces d h))) := by
  simp only [TDM.headOK, Bool.and_eq_true] at hf
  obtain ⟨⟨⟨⟨hws, hty⟩, htb⟩, hpt⟩, hcs⟩ := hf
  simp only [leavesHead, lv_append, lv_cons] at hl
  obtain ⟨lws, ⟨ltb, lqtb⟩, lpt, lcs⟩ := hl
  obtain ⟨iw1, iw2, ty, iw3, iw4⟩ := insertWords_good hK h.type hty
  obtain ⟨tb1, tb2, tb3⟩ := tbl_good h.table.schema h.table.name ltb lqtb
  obtain ⟨pt1, pt2, pt3⟩ := part_good hK h.partition hpt lpt
  obtain ⟨cs1, cs2, cs3⟩ := cols_good h.columns lcs
  have hW : ∀ l, h.withs = some l → ∀ w ∈ l, GW d K w := by
    intro l hl
    rw [hl] at hws lws
    exact withs_good l (by simpa [TDM.withsOK] using hws) (by simpa [leavesWiths] using lws)
  have hsome : ∃ l, h.withs = some l := by
    cases hw : h.withs with
    | none => rw [hw] at hws; simp [TDM.withsOK] at hws
    | some l => exact ⟨l, rfl⟩
  have hT : Seg ' ' (if d == .HIVE then ["TABLE".toList] else []) (if (d == .HIVE) = true then [opTok "TABLE"] else []) := by
    cases (d == Gen.D.HIVE)
    · exact Seg.nil _
    · exact Seg.one _ (lx_dw "TABLE" (by simp [dmlWords]))
  refine ⟨hW, hsome, ?_, ?_, ?_, ?_⟩
  · have := Seg.cons sp iw1 (Seg.append sp hT (Seg.cons sp tb1 (Seg.append sp pt1 cs1)))
    simpa [headPieces, TDM.toksTarget] using this
  · simp [headPieces]
  · intro x hx
    simp only [headPieces, List.mem_cons, List.mem_append] at hx
    rcases hx with rfl | hx | rfl | hx | hx
    · exact iw2
    · cases hd : (d == Gen.D.HIVE) <;> simp only [hd, Bool.false_eq_true, if_false, if_true, List.mem_singleton, List.not_mem_nil] at hx
      subst hx
      exact hK.dws "TABLE" (by simp [dmlWords])
    · exact tb2
    · exact pt2 x hx
    · exact cs2 x hx
  · obtain ⟨l, hl⟩ := hsome
    have hw := pr_withPre (d := d) (K := K) "\n" l (hW l hl)
    have hguard : (h.type == "INSERT_OVERWRITE" && !(d == Gen.D.HIVE || d == Gen.D.DEFAULT)) = false := by
      simp only [insertPrintable, Bool.not_eq_true'] at hp; exact hp
    rw [prInsertHead_eq]
    simp only [hguard, Bool.false_eq_true, if_false, iw3, pt3, hl, hw, cs3, PR.tn, tb3, bind, Except.bind, pure, Except.pure]
    refine congrArg Except.ok ?_
    apply ofList_eq
    have e1 : ("\n" : String).toList = ['\n'] := rfl
    have e2 : ("TABLE " : String).toList = "TABLE".toList ++ [' '] := rfl
    cases hd : (d == Gen.D.HIVE) <;>
      simp [toString, String.toList_append, String.toList_ofList, iw4, e1, e2, headPieces, ps_cons, ps_append, hd]

/-! ## the WITH clause of a query statement -/

theorem prSRest_w (w : String) (dist : Bool) (cols : List (Expr × Option String))
    (fr : Option (List FromTable)) (lats : List Lateral) (js : List Join) (wh : Option Expr) (gb : Option GroupBy)
    (hv : Option Expr) (ob sb : Option (List OrderItem)) (db cb : Option (List Expr)) (lm : Option (Int × Option Int)) :
    PR.prSRest d w dist cols fr lats js wh gb hv ob sb db cb lm =
      (PR.prSRest d "" dist cols fr lats js wh gb hv ob sb db cb lm).map (w ++ ·) := by
  unfold PR.prSRest
  cases PR.prCols d cols with
  | error e => rfl
  | ok a1 =>
  cases PR.prOptFrom d fr with
  | error e => rfl
  | ok a2 =>
  cases PR.prLateralList d lats with
  | error e => rfl
  | ok a3 =>
  cases PR.prJoinList d js with
  | error e => rfl
  | ok a4 =>
  cases PR.prOptWhere d wh with
  | error e => rfl
  | ok a5 =>
  cases PR.prOptGroup d gb with
  | error e => rfl
  | ok a6 =>
  cases PR.prOptHaving d hv with
  | error e => rfl
  | ok a7 =>
  cases PR.prOptOrder d ob with
  | error e => rfl
  | ok a8 =>
  cases PR.prHive d sb db cb with
  | error e => rfl
  | ok a9 =>
    simp [bind, Except.bind, pure, Except.pure, Except.map]

theorem prQL_stripW (q : Query) : prQL d (TDM.stripW q) = prQL d q := by
  cases q with
  | single s => obtain ⟨w, dist, cols, fr, lats, js, wh, gb, hv, ob, sb, db, cb, lm⟩ := s; simp only [TDM.stripW, TDM.setQW, TDM.setW, prQL, prS3L]
  | union w s us => simp only [TDM.stripW, TDM.setQW, prQL]
theorem toksQ_stripW (q : Query) : toksQ d noX (TDM.stripW q) = toksQ d noX q := by
  cases q with
  | single s => obtain ⟨w, dist, cols, fr, lats, js, wh, gb, hv, ob, sb, db, cb, lm⟩ := s; simp only [TDM.stripW, TDM.setQW, TDM.setW, toksQ, toksS3]
  | union w s us => simp only [TDM.stripW, TDM.setQW, toksQ]
theorem leavesQ_stripW (q : Query) : leavesQ (TDM.stripW q) = leavesQ q := by
  cases q with
  | single s => obtain ⟨w, dist, cols, fr, lats, js, wh, gb, hv, ob, sb, db, cb, lm⟩ := s; simp only [TDM.stripW, TDM.setQW, TDM.setW, leavesQ, leavesS]
  | union w s us => simp only [TDM.stripW, TDM.setQW, leavesQ]

/-- a query with a WITH clause prints the clause, then what the query without it prints -/
theorem prQ_with (q : Query) (w body : String) (hw : PR.prWithPrefix d "\n" (TDM.withsOf q) = .ok w)
    (hb : PR.prQ d (TDM.stripW q) = .ok body) : PR.prQ d q = .ok (w ++ body) := by
  have h0 : PR.prWithPrefix d "\n" (some []) = .ok "" := by simp [PR.prWithPrefix]
  cases q with
  | single s =>
    obtain ⟨ws, dist, cols, fr, lats, js, wh, gb, hv, ob, sb, db, cb, lm⟩ := s
    simp only [TDM.withsOf] at hw
    simp only [TDM.stripW, TDM.setQW, TDM.setW, PR.prQ] at hb ⊢
    rw [PR.prS_eq] at hb ⊢
    rw [h0] at hb
    rw [hw]
    simp only [PR.ok_bind] at hb ⊢
    cases hg : PR.prSGuard d lats sb db cb with
    | error e => rw [hg] at hb; cases hb
    | ok u =>
      rw [hg] at hb
      simp only [PR.ok_bind] at hb ⊢
      rw [prSRest_w, hb]
      rfl
  | union ws s us =>
    simp only [TDM.withsOf] at hw
    simp only [TDM.stripW, TDM.setQW, PR.prQ] at hb ⊢
    rw [h0] at hb
    rw [hw]
    simp only [PR.ok_bind] at hb ⊢
    cases h1 : PR.prS d s with
    | error e => rw [h1] at hb; cases hb
    | ok a =>
      rw [h1] at hb
      simp only [PR.ok_bind] at hb ⊢
      cases h2 : PR.prUnions d us with
      | error e => rw [h2] at hb; cases hb
      | ok b =>
        rw [h2] at hb
        simp only [PR.ok_bind, pure, Except.pure, Except.ok.injEq] at hb ⊢
        rw [← hb]
        simp

/-! ## the statement -/

theorem good_stmt (hK : DW K) (s : Stmt) (hs : TDM.FragStmt d s = true) (hp : printableStmt d s = true) (hl : Lv d K (leavesStmt s)) :
    GSt d K s := by
  cases s <;> try (simp [TDM.FragStmt] at hs; done)
  case select q =>
    simp only [TDM.FragStmt, Bool.and_eq_true] at hs
    simp only [leavesStmt, lv_append] at hl
    have gq := good_query d K (TDM.stripW q) hs.2 (by rw [leavesQ_stripW]; exact hl.2)
    have hW : ∀ l, TDM.withsOf q = some l → ∀ w ∈ l, GW d K w := by
      intro l hl'
      have h1 := hs.1; have h2 := hl.1
      rw [hl'] at h1 h2
      exact withs_good l (by simpa [TDM.withsOK] using h1) (by simpa [leavesWiths] using h2)
    obtain ⟨l, hsome⟩ : ∃ l, TDM.withsOf q = some l := by
      cases hw : TDM.withsOf q with
      | none => have := hs.1; rw [hw] at this; simp [TDM.withsOK] at this
      | some l => exact ⟨l, rfl⟩
    refine ⟨?_, ?_, ?_⟩
    · have := lx_withPre ['\n'] (Or.inl rfl) (TDM.withsOf q) hW gq.lx
      rw [prQL_stripW, toksQ_stripW] at this
      exact Lx.congr this (by simp only [stmtL]) (by simp only [TDM.toksStmt, TDM.toksStmtG])
    · have hw := pr_withPre (d := d) (K := K) "\n" l (hW l hsome)
      rw [← hsome] at hw
      have := prQ_with q _ _ hw gq.pr
      simp only [PR.prStmt, this, stmtL]
      refine congrArg Except.ok ?_
      apply ofList_eq
      simp only [String.toList_append, String.toList_ofList, prQL_stripW]
      rfl
    · have := q_withPre hK ['\n'] (Or.inl rfl) (TDM.withsOf q) hW gq.q
      rw [prQL_stripW] at this
      exact this
  case insertValues h vs =>
    simp only [TDM.FragStmt, Bool.and_eq_true] at hs
    simp only [leavesStmt, lv_append] at hl
    obtain ⟨hW, ⟨l, hsome⟩, hseg, hne, hq, hpr⟩ := head_good hK h hs.1 hp hl.1
    have hrows := rows_good (K := K) vs hs.2 hl.2
    have hV := lx_dw "VALUES" (by simp [dmlWords])
    have hR : Lx (joinLL [',', ' '] (vs.map (rowL d))) (TDM.toksRows d noX vs) := by
      rw [toksRows_joinC]
      exact lx_joinC (rowL d) (fun r => [TDM.toksRow d noX r]) vs fun r hr => by
        have := (hrows r hr).lx
        rw [row_tok] at this
        exact this
    have hQR : K.Q (joinLL [',', ' '] (vs.map (rowL d))) := K.joinLL2 _ fun y hy => by
      obtain ⟨r, hr, rfl⟩ := List.mem_map.mp hy
      exact (hrows r hr).q
    refine ⟨?_, ?_, ?_⟩
    · have := lx_withPre ['\n'] (Or.inl rfl) h.withs hW (lx_ps hseg (Lx.sep hV hR))
      exact Lx.congr this (by simp only [stmtL]) (by simp [TDM.toksStmt, TDM.toksStmtG])
    · simp only [PR.prStmt, pr_rows vs hrows, hpr, bind, Except.bind, pure, Except.pure, stmtL]
      refine congrArg Except.ok ?_
      apply ofList_eq
      have e3 : (", " : String).toList = [',', ' '] := rfl
      have e1 : ("VALUES " : String).toList = "VALUES".toList ++ [' '] := rfl
      simp [toString, String.toList_append, String.toList_ofList, toList_joinS, map_map_ofList, e3, e1, Function.comp_def]
    · exact q_withPre hK ['\n'] (Or.inl rfl) h.withs hW (q_ps K _ hq _ (K.sp (hK.dws "VALUES" (by simp [dmlWords])) hQR))
  case insertSelect h q =>
    simp only [TDM.FragStmt, Bool.and_eq_true] at hs
    simp only [leavesStmt, lv_append] at hl
    obtain ⟨hW, ⟨l, hsome⟩, hseg, hne, hq, hpr⟩ := head_good hK h hs.1 hp hl.1
    have gq := good_query d K q hs.2 hl.2
    refine ⟨?_, ?_, ?_⟩
    · have := lx_withPre ['\n'] (Or.inl rfl) h.withs hW (lx_ps hseg (Lx.blank gq.lx))
      exact Lx.congr this (by simp only [stmtL]) (by simp [TDM.toksStmt, TDM.toksStmtG])
    · simp only [PR.prStmt, gq.pr, hpr, bind, Except.bind, pure, Except.pure, stmtL]
      refine congrArg Except.ok ?_
      apply ofList_eq
      simp [toString, String.toList_append, String.toList_ofList]
    · exact q_withPre hK ['\n'] (Or.inl rfl) h.withs hW (q_ps K _ hq _ (K.pre K.s_sp gq.q))
  case update ws t sets wh ob lm =>
    simp only [TDM.FragStmt, Bool.and_eq_true, Bool.not_eq_true'] at hs
    obtain ⟨⟨⟨⟨⟨⟨hws, htb⟩, hne⟩, hsets⟩, hwh⟩, hob⟩, hlm⟩ := hs
    simp only [leavesStmt, lv_append, lv_cons] at hl
    obtain ⟨lws, ⟨ltb, lqtb⟩, lsets, lwh, lob⟩ := hl
    obtain ⟨tb1, tb2, tb3⟩ := tbl_good t.schema t.name ltb lqtb
    obtain ⟨tl1, tl2, tl3⟩ := tail_good (K := K) wh ob lm hwh hob hlm lwh lob
    have hS := sets_good hK sets hsets lsets
    have hW : ∀ l, ws = some l → ∀ w ∈ l, GW d K w := by
      intro l hl'
      subst hl'
      exact withs_good l (by simpa [TDM.withsOK] using hws) (by simpa [leavesWiths] using lws)
    obtain ⟨l, hsome⟩ : ∃ l, ws = some l := by
      cases ws with
      | none => simp [TDM.withsOK] at hws
      | some l => exact ⟨l, rfl⟩
    have hSL : Lx (joinLL [',', ' '] (sets.map (setL d))) (TDM.toksSets d noX sets) := by
      rw [toksSets_joinC]
      exact lx_joinC (setL d) (TDM.toksSet d noX) sets fun p hp' => (set_good p (hS p hp').1 (hS p hp').2.1 hK (hS p hp').2.2).1
    have hSQ : K.Q (joinLL [',', ' '] (sets.map (setL d))) := K.joinLL2 _ fun y hy => by
      obtain ⟨p, hp', rfl⟩ := List.mem_map.mp hy
      exact (set_good p (hS p hp').1 (hS p hp').2.1 hK (hS p hp').2.2).2
    refine ⟨?_, ?_, ?_⟩
    · have := lx_withPre ['\n', '\n'] (Or.inr rfl) ws hW
        (Lx.sep (lx_dw "UPDATE" (by simp [dmlWords])) (Lx.sep tb1 (Lx.sep (lx_dw "SET" (by simp [dmlWords])) (lx_pc hSL tl1))))
      exact Lx.congr this (by simp only [stmtL]) (by simp [TDM.toksStmt, TDM.toksStmtG])
    · subst hsome
      have hw := pr_withPre (d := d) (K := K) "\n\n" l (hW l rfl)
      simp only [PR.prStmt, hw, pr_sets sets (fun p hp' => (hS p hp').2.2), tl3, PR.tn, tb3, bind, Except.bind, pure, Except.pure, stmtL]
      refine congrArg Except.ok ?_
      apply ofList_eq
      have e3 : (", " : String).toList = [',', ' '] := rfl
      have e1 : ("\n\n" : String).toList = ['\n', '\n'] := rfl
      simp [toString, String.toList_append, String.toList_ofList, toList_joinS, map_map_ofList, e3, e1, Function.comp_def]
    · exact q_withPre hK ['\n', '\n'] (Or.inr rfl) ws hW (K.sp (hK.dws "UPDATE" (by simp [dmlWords]))
        (K.sp tb2 (K.sp (hK.dws "SET" (by simp [dmlWords])) (q_pc K _ tl2 _ hSQ))))
  case delete t wh ob lm =>
    simp only [TDM.FragStmt, Bool.and_eq_true] at hs
    obtain ⟨⟨⟨htb, hwh⟩, hob⟩, hlm⟩ := hs
    simp only [leavesStmt, lv_append, lv_cons] at hl
    obtain ⟨⟨ltb, lqtb⟩, lwh, lob⟩ := hl
    obtain ⟨tb1, tb2, tb3⟩ := tbl_good t.schema t.name ltb lqtb
    obtain ⟨tl1, tl2, tl3⟩ := tail_good (K := K) wh ob lm hwh hob hlm lwh lob
    have hD := lx_dw "DELETE" (by simp [dmlWords])
    have hF := lx_cw "FROM" (by simp [clauseWords])
    refine ⟨?_, ?_, ?_⟩
    · have := lx_pc2 (Lx.sep hD (Lx.sep hF tb1)) tl1
      exact Lx.congr this (by simp [stmtL]) (by simp [TDM.toksStmt, TDM.toksStmtG])
    · simp only [PR.prStmt, tl3, PR.tn, tb3, bind, Except.bind, pure, Except.pure, stmtL]
      refine congrArg Except.ok ?_
      apply ofList_eq
      simp [toString, String.toList_append, String.toList_ofList]
    · have h1 : K.Q ("DELETE".toList ++ ' ' :: ("FROM".toList ++ ' ' :: (tblL t.schema t.name ++ [' ']))) :=
        K.sp (hK.dws "DELETE" (by simp [dmlWords])) (K.sp (K.word "FROM" (mem_cw (by simp [clauseWords]))) (K.post K.s_sp tb2))
      have := q_pc K _ tl2 _ h1
      simpa [stmtL] using this

end
end LLD
