import MsqProofs.Lemmas.LexLinkDml0
/-!
# The lexer link for data-change statements: the parts (WITH prefix, tail, SET list, INSERT head, rows)

Every lemma builds, from the records `GE` / `GQ` / `GO` of the nested expressions / queries, the three facts of a part: it lexes to its
token rendering, the printer prints the mirror, the kit's property holds.
-/
set_option linter.unusedVariables false
set_option linter.unusedSimpArgs false
namespace LLD
open Lex Spec C05 C06 C09 Ast TP TS TQ LexLink

section
variable {d : Gen.D} {K : QKit}

/-! ## records of members, without sizes -/

theorem list_good : ∀ (ps : List Expr), FragL3 d ps = true → Lv d K (leavesL ps) → ∀ a ∈ ps, GE d K a
  | [], _, _ => fun a ha => by cases ha
  | p :: ps, hf, hl => by
    simp only [FragL3, Bool.and_eq_true] at hf
    simp only [leavesL, lv_append] at hl
    intro a ha
    rcases List.mem_cons.mp ha with rfl | ha
    · exact good_expr d K a hf.1 hl.1
    · exact list_good ps hf.2 hl.2 a ha

theorem ords_good : ∀ (os : List OrderItem), ordTailOK3 d os = true → Lv d K (leavesOrdL os) → ∀ o ∈ os, GO d K o
  | [], _, _ => fun a ha => by cases ha
  | o :: os, hf, hl => by
    simp only [ordTailOK3, Bool.and_eq_true] at hf
    simp only [leavesOrdL, lv_append] at hl
    intro x hx
    rcases List.mem_cons.mp hx with rfl | hx
    · obtain ⟨e, desc, nf, nl⟩ := x
      simp only [ordItemOK3, Bool.and_eq_true, Bool.not_eq_true'] at hf
      obtain ⟨⟨⟨h1, h2⟩, h3⟩, _⟩ := hf
      subst h2; subst h3
      exact go_item e desc (good_expr d K e h1 (by simpa [leavesOrdItem] using hl.1))
    · exact ords_good os hf.2 hl.2 x hx

theorem opt_good (o : Option Expr) (hf : FragO3 d o = true) (hl : Lv d K (leavesO o)) : ∀ y, o = some y → GE d K y := by
  intro y hy
  subst hy
  exact good_expr d K y (by simpa [FragO3] using hf) (by simpa [leavesO] using hl)

/-! ## names as `quoteName` prints them, between blanks -/

theorem lx_qname (n : String) (hn : nameLex n) : Lx (qnameL n) [TP2.qTok n] := by
  rw [qTok_eq]
  unfold qnameL
  cases hb : bareB n with
  | true =>
    simp only [if_true]
    rw [opTok_eq]
    simp only [bareB, Bool.and_eq_true] at hb
    exact lx_plain n.toList (by rw [← isPlainName_plainL]; exact hb.1)
  | false =>
    simp only [Bool.false_eq_true, if_false]
    have := lx_name n.toList fun x hx => (hn x hx).1
    simpa [nameTok, Lex.NAME] using this

/-! ## the WITH prefix -/

structure GW (d : Gen.D) (K : QKit) (w : WithTable) : Prop where
  lx : Lx (withItemL d w) (TDM.toksWith d noX w)
  q : K.Q (withItemL d w)
  nm : ∃ n q, w = .mk n q ∧ GQ d K q

theorem gw_item (n : String) (q : Query) (hn : nameLex n) (hqn : K.Q n.toList) (hq : GQ d K q) : GW d K (.mk n q) where
  lx := by
    have := Lx.sep (lx_qname n hn) (Lx.sep (lx_cw "AS" (by simp [clauseWords])) (Lx.paren hq.lx))
    exact Lx.congr this (by simp [withItemL]) (by simp [TDM.toksWith, grp_eq])
  q := K.sp (q_qname n hqn) (K.sp (K.word "AS" (mem_cw (by simp [clauseWords]))) (K.paren hq.q))
  nm := ⟨n, q, rfl, hq⟩

theorem withs_good (ws : List WithTable) : ws.all (TDM.withOK d) = true → Lv d K (leavesWL ws) → ∀ w ∈ ws, GW d K w := by
  induction ws with
  | nil => intro _ _ a ha; cases ha
  | cons w r ih =>
    obtain ⟨n, q⟩ := w
    intro hf hl
    simp only [List.all_cons, Bool.and_eq_true, TDM.withOK] at hf
    simp only [leavesWL, lv_cons, lv_append] at hl
    intro x hx
    rcases List.mem_cons.mp hx with rfl | hx
    · exact gw_item n q hl.1.1 (hl.1.2 n (by simp [strs])) (good_query d K q hf.1.2 hl.2.1)
    · exact ih hf.2 hl.2.2 x hx

theorem pr_withTables (ws : List WithTable) : (∀ w ∈ ws, GW d K w) →
    PR.prWithTables d ws = .ok ((ws.map (withItemL d)).map String.ofList) := by
  induction ws with
  | nil => intro _; rfl
  | cons w r ih =>
    intro h
    obtain ⟨n', q', he, hq⟩ := (h w (by simp)).nm
    subst he
    have h2 := ih fun y hy => h y (by simp [hy])
    simp only [PR.prWithTables, hq.pr, h2, bind, Except.bind, pure, Except.pure, List.map_cons]
    refine congrArg Except.ok ?_
    congr 1
    apply ofList_eq
    simp [toString, String.toList_append, String.toList_ofList, quoteName_toList, withItemL]

theorem toksWithsTail_eq : ∀ (x : WithTable) (xs : List WithTable),
    TDM.toksWithsTail d noX (x :: xs) = TS.commaTok :: (TDM.toksWith d noX x ++ TDM.toksWithsTail d noX xs) := fun _ _ => rfl

/-- the prefix in front of a text: `sep` is one line break (queries, INSERT) or two (UPDATE) -/
theorem lx_withPre (sep : List Char) (hsep : sep = ['\n'] ∨ sep = ['\n', '\n']) (ws : Option (List WithTable))
    (h : ∀ l, ws = some l → ∀ w ∈ l, GW d K w) {b : List Char} {tb : List Tok} (hb : Lx b tb) :
    Lx (withPrefixL d sep ws ++ b) (TDM.toksWiths d noX ws ++ tb) := by
  cases ws with
  | none => simpa [withPrefixL, TDM.toksWiths] using hb
  | some l =>
    cases l with
    | nil => simpa [withPrefixL, TDM.toksWiths] using hb
    | cons w r =>
      have hall := h _ rfl
      have hJ := lx_cnl (withItemL d) (TDM.toksWith d noX) (TDM.toksWithsTail d noX) rfl toksWithsTail_eq r w
        (hall w (by simp)).lx (fun y hy => (hall y (by simp [hy])).lx)
      have hW := lx_dw "WITH" (by simp [dmlWords])
      rcases hsep with rfl | rfl
      · exact Lx.congr (Lx.sep hW (Lx.line hJ hb)) (by simp [withPrefixL]) (by simp [TDM.toksWiths])
      · exact Lx.congr (Lx.sep hW (Lx.line hJ (lx_nlpre hb))) (by simp [withPrefixL]) (by simp [TDM.toksWiths])

theorem q_withPre (hK : DW K) (sep : List Char) (hsep : sep = ['\n'] ∨ sep = ['\n', '\n']) (ws : Option (List WithTable))
    (h : ∀ l, ws = some l → ∀ w ∈ l, GW d K w) {b : List Char} (hb : K.Q b) : K.Q (withPrefixL d sep ws ++ b) := by
  cases ws with
  | none => simpa [withPrefixL] using hb
  | some l =>
    cases l with
    | nil => simpa [withPrefixL] using hb
    | cons w r =>
      have hall := h _ rfl
      have hJ := q_cnl K ((w :: r).map (withItemL d)) (by
        intro x hx; obtain ⟨y, hy, rfl⟩ := List.mem_map.mp hx; exact (hall y hy).q)
      have hW := hK.dws "WITH" (by simp [dmlWords])
      rcases hsep with rfl | rfl
      · have := K.sp hW (K.sep _ _ '\n' K.s_nl hJ hb)
        simpa [withPrefixL] using this
      · have := K.sp hW (K.sep _ _ '\n' K.s_nl hJ (K.pre K.s_nl hb))
        simpa [withPrefixL] using this

theorem pr_withPre (sep : String) (ws : List WithTable) (h : ∀ w ∈ ws, GW d K w) :
    PR.prWithPrefix d sep (some ws) = .ok (String.ofList (withPrefixL d sep.toList (some ws))) := by
  cases ws with
  | nil => simp [PR.prWithPrefix, withPrefixL]
  | cons w r =>
    simp only [PR.prWithPrefix, List.isEmpty_cons, Bool.false_eq_true, if_false, pr_withTables (w :: r) h, Except.map]
    refine congrArg Except.ok ?_
    apply ofList_eq
    have e1 : ("WITH " : String).toList = "WITH".toList ++ [' '] := rfl
    have e2 : (", \n" : String).toList = [',', ' ', '\n'] := rfl
    rw [String.toList_append, String.toList_append, toList_joinS, e1, e2, map_map_ofList]
    simp [withPrefixL]

/-! ## the tail: WHERE, ORDER BY, LIMIT -/

/-- the three parts of `PR.prTail`, named -/
def whereStr (d : Gen.D) : Option Expr → PR.P
  | some e => (PR.prE d e).map fun x => s!" WHERE {x}" | none => pure ""
def orderStr (d : Gen.D) : Option (List OrderItem) → PR.P
  | some l => (PR.prOrdList d l).map fun x => " ORDER BY " ++ PR.joinS ", " x | none => pure ""
def limStr : Option (Int × Option Int) → String
  | some l => " " ++ PR.limitSrc l | none => ""
theorem prTail_eq (d : Gen.D) (wh : Option Expr) (ob : Option (List OrderItem)) (lm : Option (Int × Option Int)) :
    PR.prTail d wh ob lm = (do let a ← whereStr d wh; let b ← orderStr d ob; pure (a ++ b ++ limStr lm)) := by
  cases wh <;> cases ob <;> cases lm <;> rfl

theorem tail_good (wh : Option Expr) (ob : Option (List OrderItem)) (lm : Option (Int × Option Int))
    (hwh : FragO3 d wh = true) (hob : orderOK3 d ob = true) (hlm : limitOK lm = true)
    (lwh : Lv d K (leavesO wh)) (lob : Lv d K (leavesOrder ob)) :
    Seg ' ' (tailPieces d wh ob lm) (TDM.toksTail d noX wh ob lm) ∧ (∀ x ∈ tailPieces d wh ob lm, K.Q x) ∧
      PR.prTail d wh ob lm = .ok (String.ofList (pc (tailPieces d wh ob lm))) := by
  have cwh := cl_where (K := K) wh (opt_good wh hwh lwh)
  have hord : ∀ l, ob = some l → ∀ o ∈ l, GO d K o := by
    intro l hl o ho
    subst hl
    cases l with
    | nil => cases ho
    | cons o0 os =>
      simp only [orderOK3] at hob
      exact ords_good (o0 :: os) (by simpa [ordTailOK3] using hob) (by simpa [leavesOrder] using lob) o ho
  have cob := cl_order (K := K) ob (by intro e; subst e; simp [orderOK3] at hob) hord
  have clm := cl_limit (K := K) lm hlm
  have l1 : (optLL d "WHERE" wh).length ≤ 1 := by cases wh <;> simp [optLL]
  have l2 : (orderLL d ob).length ≤ 1 := by
    cases ob with
    | none => simp [orderLL]
    | some l => cases l <;> simp [orderLL]
  have l3 : ((limitC lm).map (·.1)).length ≤ 1 := by
    cases lm with
    | none => simp [limitC]
    | some p => obtain ⟨n, m⟩ := p; cases m <;> simp [limitC]
  refine ⟨?_, ?_, ?_⟩
  · exact Seg.append sp (seg_sp cwh.seg l1) (Seg.append sp (seg_sp cob.seg l2) (seg_sp clm.seg l3))
  · intro x hx
    simp only [tailPieces, List.mem_append] at hx
    rcases hx with hx | hx | hx
    · exact cwh.q x hx
    · exact cob.q x hx
    · exact clm.q x hx
  · have hl : (limStr lm).toList = pc ((limitC lm).map (·.1)) := by
      cases lm with
      | none => rfl
      | some pr =>
        have := congrArg (List.map String.toList) (limit_eq (some pr))
        simp only [List.map_cons, List.map_nil, List.map_map, Function.comp_def, String.toList_ofList] at this
        have e1 : (" " : String).toList = [' '] := rfl
        simp only [limStr, String.toList_append, e1]
        obtain ⟨n, m⟩ := pr
        cases m <;> simp only [limitC, List.map_cons, List.map_nil, List.cons.injEq, and_true] at this ⊢ <;> rw [this] <;> simp [pc]
    have hw : whereStr d wh = .ok (String.ofList (pc (optLL d "WHERE" wh))) := by
      cases wh with
      | none => rfl
      | some e =>
        have he := opt_good (K := K) (some e) hwh lwh e rfl
        simp only [whereStr, he.pr, Except.map, optLL]
        refine congrArg Except.ok ?_
        apply ofList_eq
        simp [toString, String.toList_append, String.toList_ofList, pc]
    have ho : orderStr d ob = .ok (String.ofList (pc (orderLL d ob))) := by
      cases ob with
      | none => rfl
      | some l =>
        cases l with
        | nil => simp [orderOK3] at hob
        | cons o os =>
          simp only [orderStr, pr_ordList (o :: os) (hord _ rfl), Except.map, orderLL]
          refine congrArg Except.ok ?_
          apply ofList_eq
          have e1 : (" ORDER BY " : String).toList = ' ' :: ("ORDER".toList ++ ' ' :: ("BY".toList ++ [' '])) := rfl
          have e3 : (", " : String).toList = [',', ' '] := rfl
          rw [String.toList_append, toList_joinS, e1, e3, map_map_ofList]
          simp [pc, ordLL_eq]
    rw [prTail_eq]
    simp only [hw, ho, bind, Except.bind, pure, Except.pure]
    refine congrArg Except.ok ?_
    apply ofList_eq
    rw [String.toList_append, String.toList_append, hl, String.toList_ofList, String.toList_ofList]
    simp only [tailPieces, pc_append, List.append_assoc]

/-! ## the SET list -/

theorem eqTok_lx : Lx ['='] [opTok "="] := lx_dw "=" (by simp [dmlWords])

theorem set_good (p : String × Expr) (hn : nameLex p.1) (hqn : K.Q p.1.toList) (hK : DW K) (he : GE d K p.2) :
    Lx (setL d p) (TDM.toksSet d noX p) ∧ K.Q (setL d p) := by
  refine ⟨?_, ?_⟩
  · have := Lx.sep (lx_name p.1.toList fun x hx => (hn x hx).1) (Lx.sep eqTok_lx he.lx)
    exact Lx.congr this (by simp [setL]) (by simp [TDM.toksSet, nameTok_eq])
  · have := K.sp (K.bq hqn) (K.sp (hK.dws "=" (by simp [dmlWords])) he.q)
    simpa [setL] using this

theorem sets_good (hK : DW K) (sets : List (String × Expr)) : sets.all (TDM.setOK d) = true → Lv d K (leavesSets sets) →
    ∀ p ∈ sets, nameLex p.1 ∧ K.Q p.1.toList ∧ GE d K p.2 := by
  induction sets with
  | nil => intro _ _ a ha; cases ha
  | cons p r ih =>
    obtain ⟨c, e⟩ := p
    intro hf hl
    simp only [List.all_cons, Bool.and_eq_true, TDM.setOK] at hf
    simp only [leavesSets, lv_cons, lv_append] at hl
    intro x hx
    rcases List.mem_cons.mp hx with rfl | hx
    · exact ⟨hl.1.1, hl.1.2 c (by simp [strs]), good_expr d K e hf.1.2 hl.2.1⟩
    · exact ih hf.2 hl.2.2 x hx

theorem toksSets_joinC : ∀ (sets : List (String × Expr)), TDM.toksSets d noX sets = TDM.joinC (sets.map (TDM.toksSet d noX))
  | [] => rfl
  | [p] => by simp [TDM.toksSets, TDM.toksSetsTail, TDM.joinC]
  | p :: q :: r => by
    have := toksSets_joinC (q :: r)
    simp only [TDM.toksSets, TDM.toksSetsTail, List.map_cons, TDM.joinC] at this ⊢
    rw [← this]

theorem pr_sets (sets : List (String × Expr)) : (∀ p ∈ sets, GE d K p.2) →
    PR.mapM' (fun (cv : String × Expr) => (PR.prE d cv.2).map fun x => s!"`{cv.1}` = {x}") sets =
      .ok ((sets.map (setL d)).map String.ofList) := by
  induction sets with
  | nil => intro _; rfl
  | cons p r ih =>
    intro h
    have h1 := (h p (by simp)).pr
    have h2 := ih fun y hy => h y (by simp [hy])
    simp only [PR.mapM', h2, h1]
    simp only [Except.map, bind, Except.bind, pure, Except.pure, List.map_cons]
    refine congrArg Except.ok ?_
    congr 1
    apply ofList_eq
    simp [toString, String.toList_append, String.toList_ofList, setL]

/-! ## rows of VALUES -/

theorem toksArgs_joinC (k : Nat) : ∀ (vs : List Expr), toksArgs3 d noX k vs = TDM.joinC (vs.map (fun e => W3 d noX e k))
  | [] => rfl
  | [a] => by simp [toksArgs3, toksArgsTail3, TDM.joinC, W3]
  | a :: b :: r => by
    have := toksArgs_joinC k (b :: r)
    simp only [toksArgs3, toksArgsTail3, List.map_cons, TDM.joinC, W3] at this ⊢
    rw [← this]
    rfl

theorem row_tok (r : List Expr) : toksE3 d noX (.subValue r) = [TDM.toksRow d noX r] := by
  simp only [toksE3, TDM.toksRow, toksArgs_joinC]

theorem rows_good : ∀ (vs : List (List Expr)), vs.all (FragL3 d) = true → Lv d K (leavesRows vs) → ∀ r ∈ vs, GE d K (.subValue r)
  | [], _, _ => fun a ha => by cases ha
  | r :: rs, hf, hl => by
    simp only [List.all_cons, Bool.and_eq_true] at hf
    simp only [leavesRows, lv_append] at hl
    intro x hx
    rcases List.mem_cons.mp hx with rfl | hx
    · exact ge_subValue x (list_good x hf.1 hl.1)
    · exact rows_good rs hf.2 hl.2 x hx

theorem toksRows_joinC : ∀ (vs : List (List Expr)), TDM.toksRows d noX vs = TDM.joinC (vs.map (fun r => [TDM.toksRow d noX r]))
  | [] => rfl
  | [p] => by simp [TDM.toksRows, TDM.toksRowsTail, TDM.joinC]
  | p :: q :: r => by
    have := toksRows_joinC (q :: r)
    simp only [TDM.toksRows, TDM.toksRowsTail, List.map_cons, TDM.joinC] at this ⊢
    rw [← this]
    rfl

theorem pr_rows (vs : List (List Expr)) : (∀ r ∈ vs, GE d K (.subValue r)) →
    PR.mapM' (fun r => (PR.prList8 d r).map fun p => s!"({PR.joinS ", " p})") vs = .ok ((vs.map (rowL d)).map String.ofList) := by
  induction vs with
  | nil => intro _; rfl
  | cons p r ih =>
    intro h
    have h1 := (h p (by simp)).pr
    have h2 := ih fun y hy => h y (by simp [hy])
    simp only [PR.prE] at h1
    simp only [PR.mapM', h2, h1]
    simp only [bind, Except.bind, pure, Except.pure, List.map_cons, rowL]

end
end LLD
