import MsqProofs.Lemmas.TQueryI
/-!
# T-parse closed under nesting: the nested SELECT fragment contains the SELECT fragment of C03.tselect (C03)

`TS.FragS d s → TQ.FragS3 d s`, and on `FragS` the token printers agree (`fragS_sub`): `C03.tselect` is an instance of the SELECT half of
`C03.tquery` (for the continuations of the nested fragment, i.e. additionally not `OVER`).
-/
set_option linter.unusedVariables false
set_option linter.unusedSimpArgs false
set_option maxHeartbeats 1000000
open Lex PM Ast TP TS
namespace TQ
variable {d : Gen.D}

theorem incE (e : Expr) (h : TP.Frag d e = true) : FragE3 d e = true ∧ toksE3 d noX e = TP.toksE d noX e := by
  have h2 := TP2.frag_sub_all d e h
  have r := frag2_sub (d := d) (ch := noX) (TP2.sz2 e) e (Nat.le_refl _) h2
  exact ⟨r.1, by rw [r.2.1, TP2.toksE2_eq_all d noX e h]⟩
theorem incW (e : Expr) (h : TP.Frag d e = true) (k : Nat) : W3 d noX e k = TP.W d noX e k := by
  unfold W3 TP.W; rw [(incE e h).2]
theorem incCols : ∀ cs : List (Expr × Option String), cs.all (colOKS d) = true →
    colsOK3 d cs = true ∧ toksColsTail3 d noX cs = TS.toksColsTail d cs := by
  intro cs
  induction cs with
  | nil => intro _; exact ⟨by simp [colsOK3], by simp [toksColsTail3, TS.toksColsTail]⟩
  | cons c cs ih =>
    obtain ⟨e, a⟩ := c
    intro h
    simp only [List.all_cons, Bool.and_eq_true, colOKS] at h
    obtain ⟨i1, i2⟩ := ih h.2
    obtain ⟨e1, e2⟩ := incE e h.1.1
    exact ⟨by simp [colsOK3, e1, h.1.2, i1], by simp only [toksColsTail3, TS.toksColsTail, TS.toksCol, e2, i2]⟩
theorem isOkPair_of_none {r : Except Err (Option String × String)} {n : String} (h : isOkNone r n = true) : isOkPair r none n = true := by
  unfold isOkNone at h
  split at h
  · simp only [beq_iff_eq] at h; subst h; simp [isOkPair]
  · cases h
theorem incTable (t : FromTable) (h : tableOK t = true) : tableOK3 d t = true ∧ toksTable3 d noX t = TS.toksTable t := by
  obtain ⟨r, a⟩ := t
  cases r with
  | sub q => simp [tableOK] at h
  | table s n =>
    cases s with
    | some s => simp [tableOK] at h
    | none =>
      simp only [tableOK, Bool.and_eq_true] at h
      obtain ⟨m1, _, m3⟩ := TP2.nameTok_marks n
      have hj : Gen.joinTypes.all (fun e => e.2.all (fun k => !(nameTok n).equalsStr k)) = true := by
        simp only [List.all_eq_true, Bool.not_eq_true']
        exact fun e he k hk => TS.nameTok_noJoinWord n e he k hk
      refine ⟨?_, by simp [toksTable3, toksRef3, tblTok, TS.toksTable, TS.tblName]⟩
      have hc : (nameTok n).children.isEmpty = true := rfl
      simp only [tableOK3, refOK3, tblOK, tblTok, m1, m3, hc, isOkPair_of_none h.1, hj, h.2, Bool.not_false, Bool.and_self]
theorem incTables : ∀ ts : List FromTable, ts.all tableOK = true →
    tablesOK3 d ts = true ∧ toksTablesTail3 d noX ts = TS.toksTablesTail ts := by
  intro ts
  induction ts with
  | nil => intro _; exact ⟨by simp [tablesOK3], by simp [toksTablesTail3, TS.toksTablesTail]⟩
  | cons t ts ih =>
    intro h
    simp only [List.all_cons, Bool.and_eq_true] at h
    obtain ⟨i1, i2⟩ := ih h.2
    obtain ⟨e1, e2⟩ := incTable (d := d) t h.1
    exact ⟨by simp [tablesOK3, e1, i1], by simp only [toksTablesTail3, TS.toksTablesTail, e2, i2]⟩
theorem incFrom (fr : Option (List FromTable)) (h : fromOK fr = true) : fromOK3 d fr = true ∧ toksFrom3 d noX fr = TS.toksFrom fr := by
  cases fr with
  | none => exact ⟨by simp [fromOK3], by simp [toksFrom3, TS.toksFrom]⟩
  | some l =>
    cases l with
    | nil => simp [fromOK] at h
    | cons t ts =>
      simp only [fromOK, Bool.and_eq_true] at h
      obtain ⟨i1, i2⟩ := incTables (d := d) ts h.2
      obtain ⟨e1, e2⟩ := incTable (d := d) t h.1
      exact ⟨by simp [fromOK3, e1, i1], by simp only [toksFrom3, TS.toksFrom, e2, i2]⟩
theorem incJoins : ∀ js : List Join, js.all (joinOK d) = true → joinsOK3 d js = true ∧ toksJoins3 d noX js = TS.toksJoins d js := by
  intro js
  induction js with
  | nil => intro _; exact ⟨by simp [joinsOK3], by simp [toksJoins3, TS.toksJoins]⟩
  | cons j js ih =>
    obtain ⟨ty, t, rule⟩ := j
    intro h
    simp only [List.all_cons, Bool.and_eq_true, joinOK] at h
    obtain ⟨i1, i2⟩ := ih h.2
    obtain ⟨e1, e2⟩ := incTable (d := d) t h.1.1.2
    have hr : ruleOK3 d rule = true ∧ toksRule3 d noX rule = TS.toksRule d rule := by
      cases rule with
      | none => exact ⟨by simp [ruleOK3], by simp [toksRule3, TS.toksRule]⟩
      | some r =>
        cases r with
        | on e =>
          have := h.1.2; simp only [ruleOK] at this
          obtain ⟨x1, x2⟩ := incE e this
          exact ⟨by simp [ruleOK3, x1], by simp only [toksRule3, TS.toksRule, x2]⟩
        | «using» u => have := h.1.2; simp [ruleOK] at this
    exact ⟨by simp [joinsOK3, joinOK3, h.1.1.1, e1, hr.1, i1], by simp only [toksJoins3, toksJoin3, TS.toksJoins, TS.toksJoin, e2, hr.2, i2]⟩
theorem incOpt (kw : String) (o : Option Expr) (h : optFrag d o = true) : FragO3 d o = true ∧ toksOptE3 d noX kw o = TS.toksOpt d kw o := by
  cases o with
  | none => exact ⟨by simp [FragO3], by simp [toksOptE3, TS.toksOpt]⟩
  | some e =>
    simp only [optFrag] at h
    obtain ⟨x1, x2⟩ := incE e h
    exact ⟨by simp [FragO3, x1], by simp only [toksOptE3, TS.toksOpt, x2]⟩
theorem incKeys : ∀ es : List Expr, es.all (TP.Frag d) = true → FragL3 d es = true ∧ toksArgsTail3 d noX 8 es = TS.toksKeysTail d es := by
  intro es
  induction es with
  | nil => intro _; exact ⟨by simp [FragL3], by simp [toksArgsTail3, TS.toksKeysTail]⟩
  | cons e es ih =>
    intro h
    simp only [List.all_cons, Bool.and_eq_true] at h
    obtain ⟨i1, i2⟩ := ih h.2
    have w := incW e h.1 8
    unfold W3 at w
    exact ⟨by simp [FragL3, (incE e h.1).1, i1], by simp only [toksArgsTail3, TS.toksKeysTail, w, i2]; rfl⟩
theorem incGroup (gb : Option GroupBy) (h : groupOK d gb = true) : groupOK3 d gb = true ∧ toksGroup3 d noX gb = TS.toksGroup d gb := by
  cases gb with
  | none => exact ⟨by simp [groupOK3], by simp [toksGroup3, TS.toksGroup]⟩
  | some g =>
    obtain ⟨cols, sets, cube, rollup⟩ := g
    cases cols with
    | nil => simp [groupOK] at h
    | cons e es =>
      cases sets with
      | some l => simp [groupOK] at h
      | none =>
        cases cube with
        | true => simp [groupOK] at h
        | false =>
          cases rollup with
          | true => simp [groupOK] at h
          | false =>
            simp only [groupOK, Bool.and_eq_true, Bool.not_eq_true'] at h
            obtain ⟨i1, i2⟩ := incKeys es h.1.2
            have w := incW e h.1.1 8
            refine ⟨by simp [groupOK3, (incE e h.1.1).1, i1, w, h.2], ?_⟩
            unfold W3 at w
            simp only [toksGroup3, TS.toksGroup, w, i2]
theorem incOrd (o : OrderItem) (h : ordOK d o = true) : ordItemOK3 d o = true ∧ toksOrdItem3 d noX o = TS.toksOrdItem d o := by
  obtain ⟨e, desc, nf, nl⟩ := o
  simp only [ordOK, Bool.and_eq_true] at h
  have w := incW e h.1.1 8
  unfold W3 at w
  exact ⟨by simp [ordItemOK3, (incE e h.1.1).1, h.1.2, h.2], by simp only [toksOrdItem3, TS.toksOrdItem, w]⟩
theorem incOrdTail : ∀ os : List OrderItem, os.all (ordOK d) = true → ordTailOK3 d os = true ∧ toksOrdTail3 d noX os = TS.toksOrdTail d os := by
  intro os
  induction os with
  | nil => intro _; exact ⟨by simp [ordTailOK3], by simp [toksOrdTail3, TS.toksOrdTail]⟩
  | cons o os ih =>
    intro h
    simp only [List.all_cons, Bool.and_eq_true] at h
    obtain ⟨i1, i2⟩ := ih h.2
    obtain ⟨e1, e2⟩ := incOrd o h.1
    exact ⟨by simp [ordTailOK3, e1, i1], by simp only [toksOrdTail3, TS.toksOrdTail, e2, i2]⟩
theorem incOrder (ob : Option (List OrderItem)) (h : orderOK d ob = true) : orderOK3 d ob = true ∧ toksOrder3 d noX ob = TS.toksOrder d ob := by
  cases ob with
  | none => exact ⟨by simp [orderOK3], by simp [toksOrder3, TS.toksOrder]⟩
  | some l =>
    cases l with
    | nil => simp [orderOK] at h
    | cons o os =>
      simp only [orderOK, Bool.and_eq_true] at h
      obtain ⟨i1, i2⟩ := incOrdTail os h.2
      obtain ⟨e1, e2⟩ := incOrd o h.1
      exact ⟨by simp [orderOK3, e1, i1], by simp only [toksOrder3, TS.toksOrder, e2, i2]⟩

/-- **`FragS ⊆ FragS3`**, and on `FragS` the token printers agree -/
theorem fragS_sub (s : Select) (hs : FragS d s = true) : FragS3 d s = true ∧ toksS3 d noX s = TS.toksS d s := by
  obtain ⟨ws, dist, cols, fr, lats, js, wh, gb, hv, ob, sb, db, cb, lm⟩ := s
  cases ws with
  | none => simp [FragS] at hs
  | some w =>
  cases w with
  | cons x y => simp [FragS] at hs
  | nil =>
  cases cols with
  | nil => simp [FragS] at hs
  | cons c cs =>
  cases lats with
  | cons x y => simp [FragS] at hs
  | nil =>
  cases sb with
  | some x => simp [FragS] at hs
  | none =>
  cases db with
  | some x => simp [FragS] at hs
  | none =>
  cases cb with
  | some x => simp [FragS] at hs
  | none =>
    simp only [FragS, Bool.and_eq_true, Bool.or_eq_true, Bool.not_eq_true'] at hs
    obtain ⟨⟨⟨⟨⟨⟨⟨⟨⟨hc, hcs⟩, hdist⟩, hfr⟩, hjs⟩, hwh⟩, hgb⟩, hhv⟩, hob⟩, hlm⟩ := hs
    obtain ⟨e, a⟩ := c
    have hc' := hc
    simp only [colOKS, Bool.and_eq_true] at hc'
    obtain ⟨c1, c2⟩ := incE e hc'.1
    obtain ⟨cs1, cs2⟩ := incCols cs hcs
    obtain ⟨f1, f2⟩ := incFrom (d := d) fr hfr
    obtain ⟨j1, j2⟩ := incJoins js hjs
    obtain ⟨w1, w2⟩ := incOpt "WHERE" wh hwh
    obtain ⟨g1, g2⟩ := incGroup gb hgb
    obtain ⟨v1, v2⟩ := incOpt "HAVING" hv hhv
    obtain ⟨o1, o2⟩ := incOrder ob hob
    have hcols : toksCols3 d noX ((e, a) :: cs) = TS.toksCol d (e, a) ++ TS.toksColsTail d cs := by
      simp only [toksCols3, TS.toksCol, c2, cs2]
    refine ⟨?_, ?_⟩
    · have hd : dist = true ∨ searchStrUp (toksCols3 d noX ((e, a) :: cs)) "DISTINCT" = false := by
        rcases hdist with h | h
        · exact Or.inl h
        · right
          obtain ⟨t, ts', hh, _⟩ := (C02.rt d noX e hc'.1).head
          rw [hcols]
          simp only [TS.toksCol, hh, List.cons_append] at h ⊢
          simpa [searchStrUp] using h
      simp only [FragS3, colsOK3, c1, hc'.2, cs1, List.isEmpty_cons, Bool.not_false, f1, j1, w1, g1, v1, o1, hlm, Bool.and_self, Bool.true_and,
        Bool.and_true, Bool.or_eq_true, Bool.not_eq_true']
      exact hd
    · simp only [toksS3, TS.toksS, TS.toksRest, hcols, f2, j2, w2, g2, v2, o2, List.append_assoc]

end TQ
