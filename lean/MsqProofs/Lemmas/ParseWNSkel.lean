import MsqProofs.Lemmas.ParseWNShape
import MsqProofs.Lemmas.OpGrammar
/-!
# C02 — uniqueness for the operator layers: given the operands, the table dictates the tree

`Derives` is not functional as a whole (`C02.derives_not_unique_witness`: which tokens are read as ELEMENTS is not determined where the
code accepts a reserved word or an operator sign as a column name).  What the precedence table, left associativity and the brackets
are responsible for IS determined — this file proves it for the two operator skeletons:

* logical skeleton: OR / XOR / AND / prefix NOT / comparison operators over operands of the keyword level (≤ 9);
* compute skeleton: the binary operators of levels 2 … 8 and the prefix operators over elements (level 0).

`skelL_exists` / `skelC_exists`: every derivation has a skeleton — a segmentation of its tokens into operands (token run + tree,
each derived at level 9 resp. 0) and operator tokens, along which the abstract operator grammar `OPG.G` with the documented levels
derives a tree whose image is the derived tree.  `skelL_unique` / `skelC_unique`: two trees with the same skeleton items are equal
(`OPG.unique`).  So: once it is fixed which token runs are the operands, no other nesting of the operators is derivable.
-/
set_option linter.unusedVariables false
open Lex
namespace WNG
open PM Ast OPG

/-- an operand: its tokens and its tree -/
abbrev Atom := List Tok × Expr
abbrev It := Item Atom Tok

def flatI : List It → List Tok
  | [] => []
  | .atom (u, _) :: r => u ++ flatI r
  | .op t :: r => t :: flatI r
theorem flatI_append (a b : List It) : flatI (a ++ b) = flatI a ++ flatI b := by
  induction a with
  | nil => rfl
  | cons i a ih =>
    cases i with
    | atom p => obtain ⟨u, e⟩ := p; simp [flatI, ih]
    | op t => simp [flatI, ih]

/-! ### the words of the logical layers are pairwise different -/
theorem xor_not_or {t : Tok} (h : isXor t = true) : isOr t = false := by
  simp only [isXor, Tok.srcEqUp, beq_iff_eq] at h
  simp [isOr, h]
theorem and_not_or {t : Tok} (h : isAnd t = true) : isOr t = false ∧ isXor t = false := by
  simp only [isAnd, Bool.or_eq_true, beq_iff_eq] at h
  rcases h with h | h <;> simp [isOr, isXor, Tok.srcEqUp, h]
theorem compare_keys {s o : String} (h : compareOp? s = some o) :
    s = "=" ∨ s = "!=" ∨ s = "<>" ∨ s = "<" ∨ s = "<=" ∨ s = ">" ∨ s = ">=" ∨ s = "<=>" := by
  unfold compareOp? at h
  cases hf : Gen.compareHash.find? (·.1 == s) with
  | none => simp [hf] at h
  | some e =>
    have h1 := List.find?_some hf
    have h2 := List.mem_of_find?_eq_some hf
    simp only [beq_iff_eq] at h1
    simp only [Gen.compareHash, List.mem_cons, List.not_mem_nil, or_false] at h2
    rcases h2 with rfl | rfl | rfl | rfl | rfl | rfl | rfl | rfl <;> simp_all
theorem cmp_not_word {t : Tok} {o : String} (h : compareOp? t.src = some o) : isOr t = false ∧ isXor t = false ∧ isAnd t = false := by
  rcases compare_keys h with h | h | h | h | h | h | h | h <;> (simp only [isOr, isXor, isAnd, Tok.srcEqUp, h]; decide)

/-! ### logical skeleton -/
def logicSig (d : Gen.D) : Sig Tok where
  binL t := if isOr t then some 14 else if isXor t then some 13 else if isAnd t then some 12
            else if (compareOp? t.src).isSome then some 10 else none
  preL t := if isNot d t then some 11 else none
  bin_pos := by
    intro t k h
    repeat' split at h
    all_goals (cases h <;> omega)
  apart := by
    intro t t' k p h h'
    repeat' split at h
    all_goals (split at h' <;> (cases h' <;> cases h <;> omega))

def embL : Tr Atom Tok → Expr
  | .leaf (_, a) => a
  | .pre _ x => .not_ (embL x)
  | .bin l t r =>
    if isOr t then .or_ (embL l) (embL r) else if isXor t then .xor (embL l) (embL r) else if isAnd t then .and_ (embL l) (embL r)
    else .compare ((compareOp? t.src).getD "") (embL l) (embL r)

/-- a logical skeleton of `(ts, e)`: items whose tokens are `ts`, whose operands derive at the keyword level, and along which the
operator grammar with the documented levels (OR 14, XOR 13, AND 12, prefix NOT 11, comparison 10) derives a tree with image `e` -/
def SkelL (d : Gen.D) (ts : List Tok) (e : Expr) (items : List It) : Prop :=
  ∃ L x, flatI items = ts ∧ G (logicSig d) L items x ∧ embL x = e ∧ ∀ u a, Item.atom (u, a) ∈ items → Derives d 9 u a

theorem skelL_atom {d : Gen.D} {L : Nat} {ts : List Tok} {e : Expr} (h : Derives d 9 ts e) :
    ∃ items x, flatI items = ts ∧ G (logicSig d) L items x ∧ embL x = e ∧ ∀ u a, Item.atom (u, a) ∈ items → Derives d 9 u a :=
  ⟨[.atom (ts, e)], .leaf (ts, e), by simp [flatI], .leaf, rfl, by
    intro u a hm
    simp only [List.mem_cons, Item.atom.injEq, Prod.mk.injEq, List.not_mem_nil, or_false] at hm
    obtain ⟨rfl, rfl⟩ := hm
    exact h⟩

theorem skelL_bin {d : Gen.D} {k : Nat} {l r : List Tok} {t : Tok} {a b : Expr}
    (hb : (logicSig d).binL t = some k)
    (h1 : ∃ items x, flatI items = l ∧ G (logicSig d) k items x ∧ embL x = a ∧ ∀ u a, Item.atom (u, a) ∈ items → Derives d 9 u a)
    (h2 : ∃ items x, flatI items = r ∧ G (logicSig d) (k - 1) items x ∧ embL x = b ∧ ∀ u a, Item.atom (u, a) ∈ items → Derives d 9 u a) :
    ∃ items x, flatI items = l ++ t :: r ∧ G (logicSig d) k items x ∧ (∃ x1 x2, x = .bin x1 t x2 ∧ embL x1 = a ∧ embL x2 = b) ∧
      ∀ u a, Item.atom (u, a) ∈ items → Derives d 9 u a := by
  obtain ⟨i1, x1, f1, g1, e1, a1⟩ := h1
  obtain ⟨i2, x2, f2, g2, e2, a2⟩ := h2
  refine ⟨i1 ++ .op t :: i2, .bin x1 t x2, by simp [flatI_append, flatI, f1, f2], .bin hb g1 g2, ⟨x1, x2, rfl, e1, e2⟩, ?_⟩
  intro u a hm
  simp only [List.mem_append, List.mem_cons, reduceCtorEq, false_or] at hm
  rcases hm with hm | hm
  · exact a1 u a hm
  · exact a2 u a hm

/-- **every derivation has a logical skeleton** -/
theorem skelL_of {d : Gen.D} : ∀ {L : Nat} {ts : List Tok} {e : Expr}, Derives d L ts e →
    ∃ items x, flatI items = ts ∧ G (logicSig d) L items x ∧ embL x = e ∧ ∀ u a, Item.atom (u, a) ∈ items → Derives d 9 u a
  | _, _, _, .up h hl => by
      obtain ⟨i, x, f, g, e, a⟩ := skelL_of h
      exact ⟨i, x, f, g.up hl, e, a⟩
  | _, _, _, .or_ (t := t) h1 ht h2 => by
      have hb : (logicSig d).binL t = some 14 := by simp [logicSig, ht]
      obtain ⟨i, x, f, g, ⟨x1, x2, rfl, e1, e2⟩, a⟩ := skelL_bin hb (skelL_of h1) (skelL_of h2)
      exact ⟨i, _, f, g, by simp [embL, ht, e1, e2], a⟩
  | _, _, _, .xor (t := t) h1 ht h2 => by
      have hb : (logicSig d).binL t = some 13 := by simp [logicSig, ht, xor_not_or ht]
      obtain ⟨i, x, f, g, ⟨x1, x2, rfl, e1, e2⟩, a⟩ := skelL_bin hb (skelL_of h1) (skelL_of h2)
      exact ⟨i, _, f, g, by simp [embL, ht, xor_not_or ht, e1, e2], a⟩
  | _, _, _, .and_ (t := t) h1 ht h2 => by
      have hn := and_not_or ht
      have hb : (logicSig d).binL t = some 12 := by simp [logicSig, ht, hn.1, hn.2]
      obtain ⟨i, x, f, g, ⟨x1, x2, rfl, e1, e2⟩, a⟩ := skelL_bin hb (skelL_of h1) (skelL_of h2)
      exact ⟨i, _, f, g, by simp [embL, ht, hn.1, hn.2, e1, e2], a⟩
  | _, _, _, .compare (t := t) (o := o) h1 ht h2 => by
      have hn := cmp_not_word ht
      have hb : (logicSig d).binL t = some 10 := by simp [logicSig, ht, hn.1, hn.2.1, hn.2.2]
      obtain ⟨i, x, f, g, ⟨x1, x2, rfl, e1, e2⟩, a⟩ := skelL_bin hb (skelL_of h1) (skelL_of h2)
      exact ⟨i, _, f, g, by simp [embL, ht, hn.1, hn.2.1, hn.2.2, e1, e2], a⟩
  | _, _, _, .not_ (t := t) ht h => by
      obtain ⟨i, x, f, g, e, a⟩ := skelL_of h
      have hp : (logicSig d).preL t = some 11 := by simp [logicSig, ht]
      refine ⟨.op t :: i, .pre t x, by simp [flatI, f], .pre hp g, by simp [embL, e], ?_⟩
      intro u b hm
      simp only [List.mem_cons, reduceCtorEq, false_or] at hm
      exact a u b hm
  | _, _, _, h@(.between _ _ _ _ _ _) => skelL_atom h
  | _, _, _, h@(.is_ _ _ _ _) => skelL_atom h
  | _, _, _, h@(.isNot_ _ _ _ _) => skelL_atom h
  | _, _, _, h@(.like _ _ _ _) => skelL_atom h
  | _, _, _, h@(.inList _ _ _ _ _) => skelL_atom h
  | _, _, _, h@(.inQuery _ _ _ _ _) => skelL_atom h
  | _, _, _, h@(.exists_ _ _) => skelL_atom h
  | _, _, _, h@(.compute ho _ _) => skelL_atom (h.up (by have := computeOp_level ho; omega))
  | _, _, _, h@(.unary _ _ _) => skelL_atom (h.up (by omega))
  | _, _, _, h@(.literal _) => skelL_atom (h.up (by omega))
  | _, _, _, h@(.paren _ _ _ _) => skelL_atom (h.up (by omega))
  | _, _, _, h@(.subQuery _ _ _ _) => skelL_atom (h.up (by omega))
  | _, _, _, h@(.caseCond _ _ _) => skelL_atom (h.up (by omega))
  | _, _, _, h@(.caseVal _ _ _ _) => skelL_atom (h.up (by omega))
  | _, _, _, h@(.wildcard _) => skelL_atom (h.up (by omega))
  | _, _, _, h@(.column _ _) => skelL_atom (h.up (by omega))
  | _, _, _, h@(.qcolumn _ _) => skelL_atom (h.up (by omega))
  | _, _, _, h@(.qwildcard _ _) => skelL_atom (h.up (by omega))
  | _, _, _, h@(.index _ _ _) => skelL_atom (h.up (by omega))
  | _, _, _, h@(.call _ _) => skelL_atom (h.up (by omega))
  | _, _, _, h@(.ifCall _ _ _) => skelL_atom (h.up (by omega))
  | _, _, _, h@(.cast _ _ _ _ _ _) => skelL_atom (h.up (by omega))
  | _, _, _, h@(.extract _ _ _ _ _ _) => skelL_atom (h.up (by omega))
  | _, _, _, h@(.window _ _ _) => skelL_atom (h.up (by omega))

theorem skelL_exists {d : Gen.D} {L : Nat} {ts : List Tok} {e : Expr} (h : Derives d L ts e) : ∃ items, SkelL d ts e items := by
  obtain ⟨i, x, f, g, e, a⟩ := skelL_of h
  exact ⟨i, L, x, f, g, e, a⟩

/-- **the logical skeleton determines the tree** -/
theorem skelL_unique {d : Gen.D} {ts ts' : List Tok} {e e' : Expr} {items : List It}
    (h : SkelL d ts e items) (h' : SkelL d ts' e' items) : e = e' ∧ ts = ts' := by
  obtain ⟨L, x, f, g, he, _⟩ := h
  obtain ⟨L', x', f', g', he', _⟩ := h'
  have := g.unique g'
  subst this
  exact ⟨he.symm.trans he', f.symm.trans f'⟩


theorem atoms_left {P : List Tok → Expr → Prop} {a b : List It} {t : Tok}
    (h : ∀ u e, Item.atom (u, e) ∈ a ++ Item.op t :: b → P u e) : (∀ u e, Item.atom (u, e) ∈ a → P u e) ∧ (∀ u e, Item.atom (u, e) ∈ b → P u e) :=
  ⟨fun u e hm => h u e (by simp [hm]), fun u e hm => h u e (by simp [hm])⟩

/-- conversely, a skeleton IS a derivation: the abstract operator grammar over derived operands is included in `Derives` -/
theorem derives_of_GL {d : Gen.D} {L : Nat} {items : List It} {x : Tr Atom Tok} (h : G (logicSig d) L items x) :
    (∀ u a, Item.atom (u, a) ∈ items → Derives d 9 u a) → Derives d (max L 9) (flatI items) (embL x) := by
  induction h with
  | @leaf L p =>
    intro ha
    obtain ⟨u, a⟩ := p
    simpa [flatI, embL] using (ha u a (by simp)).up (Nat.le_max_right L 9)
  | up _ hl ih => intro ha; exact (ih ha).up (by omega)
  | @pre p t r x hp _ ih =>
    intro ha
    simp only [logicSig] at hp
    split at hp
    · rename_i ht
      cases hp
      have := ih (fun u a hm => ha u a (by simp [hm]))
      simpa [flatI, embL] using Derives.not_ ht (by simpa using this)
    · cases hp
  | @bin k t l r a b hb _ _ ih1 ih2 =>
    intro ha
    obtain ⟨ha1, ha2⟩ := atoms_left ha
    have d1 := ih1 ha1
    have d2 := ih2 ha2
    simp only [logicSig] at hb
    split at hb
    · rename_i ht
      cases hb
      simpa [flatI_append, flatI, embL, ht] using Derives.or_ (by simpa using d1) ht (by simpa using d2)
    split at hb
    · rename_i hn ht
      cases hb
      simpa [flatI_append, flatI, embL, ht, hn] using Derives.xor (by simpa using d1) ht (by simpa using d2)
    split at hb
    · rename_i hn1 hn2 ht
      cases hb
      simpa [flatI_append, flatI, embL, ht, hn1, hn2] using Derives.and_ (by simpa using d1) ht (by simpa using d2)
    split at hb
    · rename_i hn1 hn2 hn3 ht
      cases hb
      obtain ⟨o, ho⟩ := Option.isSome_iff_exists.mp ht
      simpa [flatI_append, flatI, embL, ho, hn1, hn2, hn3] using Derives.compare (by simpa using d1) ho (by simpa using d2)
    · cases hb

/-! ### compute skeleton -/
def computeSig (d : Gen.D) : Sig Tok where
  binL t := (computeOp? (up t.src)).map (·.2)
  preL t := if isUnary d t && (computeOp? (up t.src)).isSome then some 1 else none
  bin_pos := by
    intro t k h
    cases ho : computeOp? (up t.src) with
    | none => simp [ho] at h
    | some p => obtain ⟨o, k'⟩ := p; simp [ho] at h; subst h; exact Nat.le_trans (by omega) (computeOp_level ho).1
  apart := by
    intro t t' k p h h'
    cases ho : computeOp? (up t.src) with
    | none => simp [ho] at h
    | some q =>
      obtain ⟨o, k'⟩ := q
      simp [ho] at h; subst h
      have := (computeOp_level ho).1
      split at h' <;> (cases h'; try omega)

def opName (t : Tok) : String := ((computeOp? (up t.src)).map (·.1)).getD ""
def embC : Tr Atom Tok → Expr
  | .leaf (_, a) => a
  | .pre t x => .unary (opName t) (embC x)
  | .bin l t r => .compute (embC l) (opName t) (embC r)

/-- a compute skeleton of `(ts, e)`: operands are ELEMENTS (derived at level 0), operators the prefix signs (level 1) and the binary
operators of the table (levels 2 … 8) -/
def SkelC (d : Gen.D) (ts : List Tok) (e : Expr) (items : List It) : Prop :=
  ∃ L x, flatI items = ts ∧ G (computeSig d) L items x ∧ embC x = e ∧ ∀ u a, Item.atom (u, a) ∈ items → Derives d 0 u a

theorem skelC_atom {d : Gen.D} {L : Nat} {ts : List Tok} {e : Expr} (h : Derives d 0 ts e) :
    ∃ items x, flatI items = ts ∧ G (computeSig d) L items x ∧ embC x = e ∧ ∀ u a, Item.atom (u, a) ∈ items → Derives d 0 u a :=
  ⟨[.atom (ts, e)], .leaf (ts, e), by simp [flatI], .leaf, rfl, by
    intro u a hm
    simp only [List.mem_cons, Item.atom.injEq, Prod.mk.injEq, List.not_mem_nil, or_false] at hm
    obtain ⟨rfl, rfl⟩ := hm
    exact h⟩

/-- **every derivation of a compute level has a compute skeleton** -/
theorem skelC_of {d : Gen.D} : ∀ {L : Nat} {ts : List Tok} {e : Expr}, Derives d L ts e → L ≤ 8 →
    ∃ items x, flatI items = ts ∧ G (computeSig d) L items x ∧ embC x = e ∧ ∀ u a, Item.atom (u, a) ∈ items → Derives d 0 u a
  | _, _, _, .up h hl, hL => by
      obtain ⟨i, x, f, g, e, a⟩ := skelC_of h (by omega)
      exact ⟨i, x, f, g.up hl, e, a⟩
  | _, _, _, .compute (t := t) (o := o) (k := k) ho h1 h2, hL => by
      obtain ⟨i1, x1, f1, g1, e1, a1⟩ := skelC_of h1 hL
      obtain ⟨i2, x2, f2, g2, e2, a2⟩ := skelC_of h2 (by omega)
      have hb : (computeSig d).binL t = some k := by simp [computeSig, ho]
      refine ⟨i1 ++ .op t :: i2, .bin x1 t x2, by simp [flatI_append, flatI, f1, f2], .bin hb g1 g2, by simp [embC, opName, ho, e1, e2], ?_⟩
      intro u a hm
      simp only [List.mem_append, List.mem_cons, reduceCtorEq, false_or] at hm
      rcases hm with hm | hm
      · exact a1 u a hm
      · exact a2 u a hm
  | _, _, _, .unary (t := t) (o := o) hu ho h, hL => by
      obtain ⟨i, x, f, g, e, a⟩ := skelC_of h (by omega)
      have hp : (computeSig d).preL t = some 1 := by simp [computeSig, hu, ho]
      refine ⟨.op t :: i, .pre t x, by simp [flatI, f], .pre hp g, by simp [embC, opName, ho, e], ?_⟩
      intro u b hm
      simp only [List.mem_cons, reduceCtorEq, false_or] at hm
      exact a u b hm
  | _, _, _, .or_ _ _ _, hL => by omega
  | _, _, _, .xor _ _ _, hL => by omega
  | _, _, _, .and_ _ _ _, hL => by omega
  | _, _, _, .not_ _ _, hL => by omega
  | _, _, _, .compare _ _ _, hL => by omega
  | _, _, _, .between _ _ _ _ _ _, hL => by omega
  | _, _, _, .is_ _ _ _ _, hL => by omega
  | _, _, _, .isNot_ _ _ _ _, hL => by omega
  | _, _, _, .like _ _ _ _, hL => by omega
  | _, _, _, .inList _ _ _ _ _, hL => by omega
  | _, _, _, .inQuery _ _ _ _ _, hL => by omega
  | _, _, _, .exists_ _ _, hL => by omega
  | _, _, _, h@(.literal _), _ => skelC_atom h
  | _, _, _, h@(.paren _ _ _ _), _ => skelC_atom h
  | _, _, _, h@(.subQuery _ _ _ _), _ => skelC_atom h
  | _, _, _, h@(.caseCond _ _ _), _ => skelC_atom h
  | _, _, _, h@(.caseVal _ _ _ _), _ => skelC_atom h
  | _, _, _, h@(.wildcard _), _ => skelC_atom h
  | _, _, _, h@(.column _ _), _ => skelC_atom h
  | _, _, _, h@(.qcolumn _ _), _ => skelC_atom h
  | _, _, _, h@(.qwildcard _ _), _ => skelC_atom h
  | _, _, _, h@(.index _ _ _), _ => skelC_atom h
  | _, _, _, h@(.call _ _), _ => skelC_atom h
  | _, _, _, h@(.ifCall _ _ _), _ => skelC_atom h
  | _, _, _, h@(.cast _ _ _ _ _ _), _ => skelC_atom h
  | _, _, _, h@(.extract _ _ _ _ _ _), _ => skelC_atom h
  | _, _, _, h@(.window _ _ _), _ => skelC_atom h

theorem skelC_exists {d : Gen.D} {L : Nat} {ts : List Tok} {e : Expr} (h : Derives d L ts e) (hL : L ≤ 8) : ∃ items, SkelC d ts e items := by
  obtain ⟨i, x, f, g, e, a⟩ := skelC_of h hL
  exact ⟨i, L, x, f, g, e, a⟩

/-- **the compute skeleton determines the tree** -/
theorem skelC_unique {d : Gen.D} {ts ts' : List Tok} {e e' : Expr} {items : List It}
    (h : SkelC d ts e items) (h' : SkelC d ts' e' items) : e = e' ∧ ts = ts' := by
  obtain ⟨L, x, f, g, he, _⟩ := h
  obtain ⟨L', x', f', g', he', _⟩ := h'
  have := g.unique g'
  subst this
  exact ⟨he.symm.trans he', f.symm.trans f'⟩

/-- conversely, a compute skeleton IS a derivation -/
theorem derives_of_GC {d : Gen.D} {L : Nat} {items : List It} {x : Tr Atom Tok} (h : G (computeSig d) L items x) :
    (∀ u a, Item.atom (u, a) ∈ items → Derives d 0 u a) → Derives d L (flatI items) (embC x) := by
  induction h with
  | @leaf L p =>
    intro ha
    obtain ⟨u, a⟩ := p
    simpa [flatI, embC] using (ha u a (by simp)).up (Nat.zero_le L)
  | up _ hl ih => intro ha; exact (ih ha).up hl
  | @pre p t r x hp _ ih =>
    intro ha
    simp only [computeSig] at hp
    split at hp
    · rename_i ht
      cases hp
      simp only [Bool.and_eq_true] at ht
      obtain ⟨q, hq⟩ := Option.isSome_iff_exists.mp ht.2
      obtain ⟨o, k⟩ := q
      have := ih (fun u a hm => ha u a (by simp [hm]))
      simpa [flatI, embC, opName, hq] using Derives.unary ht.1 hq this
    · cases hp
  | @bin k t l r a b hb _ _ ih1 ih2 =>
    intro ha
    obtain ⟨ha1, ha2⟩ := atoms_left ha
    have d1 := ih1 ha1
    have d2 := ih2 ha2
    simp only [computeSig] at hb
    cases ho : computeOp? (up t.src) with
    | none => simp [ho] at hb
    | some q =>
      obtain ⟨o, k'⟩ := q
      simp [ho] at hb
      subst hb
      simpa [flatI_append, flatI, embC, opName, ho] using Derives.compute ho d1 d2

end WNG
