import MsqProofs.Lemmas.ParseWNE2
/-!
# C02 — `parse_derives`, fuel step, part 3: the elements (bracket groups, CASE, calls, CAST / EXTRACT, window calls, indexing)
-/
set_option linter.unusedVariables false
open Lex
namespace WNG
open PM Ast
variable {d : Gen.D} {n : Nat}

theorem matchSeq1_ok {ts r : List Tok} {k : String} (h : matchSeq ts [k] = .ok ((), r)) : ∃ t, ts = t :: r ∧ t.equalsStr k = true := by
  cases ts with
  | nil => simp [matchSeq] at h
  | cons t r0 =>
    simp only [matchSeq] at h
    split at h
    · rename_i hc
      simp only [Except.ok.injEq, Prod.mk.injEq, true_and] at h
      exact ⟨t, by rw [h], hc⟩
    · cases h

theorem pFuncName_spec {ts r : List Tok} {s : Option String} {nm : String} (h : pFuncName ts = .ok ((s, nm), r)) :
    ∃ u, ts = u ++ r ∧ FName u s nm := by
  unfold pFuncName at h
  split at h
  · rename_i a b c r0
    split at h
    · rename_i hc
      simp only [Bool.and_eq_true] at hc
      simp only [Except.ok.injEq, Prod.mk.injEq] at h
      obtain ⟨⟨rfl, rfl⟩, rfl⟩ := h
      exact ⟨[a, b, c], by simp, .dotted hc.1.1 hc.1.2 hc.2⟩
    · split at h
      · rename_i ha
        split at h
        · rename_i x hx
          simp only [Except.ok.injEq, Prod.mk.injEq] at h
          obtain ⟨rfl, rfl⟩ := h
          exact ⟨[a], by simp, .plain ha hx⟩
        · cases h
      · cases h
  · rename_i a r0 _
    split at h
    · rename_i ha
      split at h
      · rename_i x hx
        simp only [Except.ok.injEq, Prod.mk.injEq] at h
        obtain ⟨rfl, rfl⟩ := h
        exact ⟨[a], by simp, .plain ha hx⟩
      · cases h
    · cases h
  · cases h

theorem commaTail_nil {L : Nat} {es : List Expr} (h : CommaTail d L [] es) : es = [] := by
  cases h; rfl

/-- `pFirstArg` followed by `closed (pArgs …)` -/
theorem args_build {inner r2 u' : List Tok} {acc es : List Expr}
    (h1 : (inner = [] ∧ acc = [] ∧ r2 = []) ∨ ∃ u e, inner = u ++ r2 ∧ acc = [e] ∧ Derives d 14 u e)
    (h2 : r2 = u' ++ []) (h3 : CommaTail d 14 u' es) : Args d inner (acc ++ es) := by
  simp only [List.append_nil] at h2
  subst h2
  rcases h1 with ⟨rfl, rfl, rfl⟩ | ⟨u, e, rfl, rfl, hd⟩
  · have := commaTail_nil h3
    subst this
    exact .nil
  · exact .cons hd h3

theorem wf_pArgs (ih : WF d n) : ∀ acc ts ps r, pArgs d (n+1) acc ts = .ok (ps, r) →
    ∃ u es, ts = u ++ r ∧ ps = acc ++ es ∧ CommaTail d 14 u es := by
  intro acc ts ps r h
  unfold pArgs at h
  by_cases hs : searchStr ts "," = true
  · simp only [moveStr, hs, ↓reduceIte] at h
    cases ts with
    | nil => simp [searchStr] at hs
    | cons t r0 =>
      simp only [searchStr] at hs
      simp only [List.drop_one, List.tail_cons] at h
      split at h
      · rename_i e r2 h1
        obtain ⟨u1, rfl, hd1⟩ := ih.pOr r0 e r2 h1
        obtain ⟨u2, es, rfl, rfl, hct⟩ := ih.pArgs _ r2 ps r h
        exact ⟨t :: u1 ++ u2, e :: es, by simp, by simp, .cons hs (by simpa using hd1) hct⟩
      · cases h
  · simp only [moveStr, hs] at h
    simp only [Bool.false_eq_true, ↓reduceIte, Except.ok.injEq, Prod.mk.injEq] at h
    obtain ⟨rfl, rfl⟩ := h
    exact ⟨[], [], by simp, by simp, .nil⟩

theorem wf_pFirstArg (ih : WF d n) : ∀ inner acc r2, pFirstArg d (n+1) inner = .ok (acc, r2) →
    (inner = [] ∧ acc = [] ∧ r2 = []) ∨ ∃ u e, inner = u ++ r2 ∧ acc = [e] ∧ Derives d 14 u e := by
  intro inner acc r2 h
  unfold pFirstArg at h
  split at h
  · rename_i hc
    simp only [Except.ok.injEq, Prod.mk.injEq] at h
    obtain ⟨rfl, rfl⟩ := h
    left
    simpa using hc
  · split at h
    · rename_i e r h1
      simp only [Except.ok.injEq, Prod.mk.injEq] at h
      obtain ⟨rfl, rfl⟩ := h
      obtain ⟨u, hu, hd⟩ := ih.pOr inner e r h1
      exact .inr ⟨u, e, hu, rfl, by simpa using hd⟩
    · cases h

theorem wf_pIfCall (ih : WF d n) : ∀ nm name r, FName nm none name → up name = "IF" → RE d 0 nm r (pIfCall d (n+1) r) := by
  intro nm name r hn hname v r' h
  unfold pIfCall at h
  split at h
  · cases h
  · rename_i g r0
    split at h
    · cases h
    · rename_i acc r2 h1
      split at h
      · rename_i ps hps
        simp only [Except.ok.injEq, Prod.mk.injEq] at h
        obtain ⟨rfl, rfl⟩ := h
        rw [closed_ok] at hps
        obtain ⟨u', es, hu', rfl, hct⟩ := ih.pArgs acc r2 ps [] hps
        have ha := args_build (ih.pFirstArg _ acc r2 h1) hu' hct
        exact ⟨[g], by simp, Derives.ifCall hn hname ha⟩
      · cases h

theorem wf_pCall (ih : WF d n) : ∀ nm s name r, FName nm s name → RE d 0 nm r (pCall d (n+1) s name r) := by
  intro nm s name r hn v r' h
  unfold pCall at h
  split at h
  · cases h
  · rename_i g r0
    split at h
    · cases h
    · rename_i acc r2 h1
      split at h
      · rename_i ps hps
        simp only [Except.ok.injEq, Prod.mk.injEq] at h
        obtain ⟨rfl, rfl⟩ := h
        rw [closed_ok] at hps
        obtain ⟨u', es, hu', rfl, hct⟩ := ih.pArgs acc r2 ps [] hps
        have ha := args_build (ih.pFirstArg _ acc r2 h1) hu' hct
        exact ⟨[g], by simp, Derives.call hn ha⟩
      · cases h

theorem wf_pCast (ih : WF d n) : ∀ nm name r, FName nm none name → up name = "CAST" → RE d 0 nm r (pCast d (n+1) r) := by
  intro nm name r hn hname v r' h
  unfold pCast at h
  split at h
  · cases h
  · rename_i g r0
    split at h
    · cases h
    · rename_i e r1 h1
      obtain ⟨u, hu, hd⟩ := ih.pCompute _ e r1 h1
      split at h
      · cases h
      · rename_i r2 hm
        obtain ⟨ta, rfl, hta⟩ := matchSeq1_ok hm
        split at h
        · rename_i c hc
          simp only [Except.ok.injEq, Prod.mk.injEq] at h
          obtain ⟨rfl, rfl⟩ := h
          exact ⟨[g], by simp, Derives.cast hn hname hu (by simpa using hd) hta hc⟩
        · cases h

theorem wf_pExtractTail (ih : WF d n) : ∀ a r1 x, pExtractTail d (n+1) a r1 = .ok x →
    ∃ tf u2 b, r1 = tf :: u2 ∧ tf.equalsStr "FROM" = true ∧ Derives d 8 u2 b ∧ x = .extract a b := by
  intro a r1 x h
  unfold pExtractTail at h
  split at h
  · cases h
  · rename_i r2 hm
    obtain ⟨tf, rfl, htf⟩ := matchSeq1_ok hm
    split at h
    · rename_i c hc
      simp only [Except.ok.injEq] at h
      subst h
      rw [closed_ok] at hc
      obtain ⟨u, hu, hd⟩ := ih.pCompute r2 c [] hc
      simp only [List.append_nil] at hu
      subst hu
      exact ⟨tf, _, c, rfl, htf, by simpa using hd, rfl⟩
    · cases h

theorem wf_pExtract (ih : WF d n) : ∀ nm name r, FName nm none name → up name = "EXTRACT" → RE d 0 nm r (pExtract d (n+1) r) := by
  intro nm name r hn hname v r' h
  unfold pExtract at h
  split at h
  · cases h
  · rename_i g r0
    split at h
    · cases h
    · rename_i a r1 h1
      obtain ⟨u, hu, hd⟩ := ih.pCompute _ a r1 h1
      split at h
      · rename_i x hx
        simp only [Except.ok.injEq, Prod.mk.injEq] at h
        obtain ⟨rfl, rfl⟩ := h
        obtain ⟨tf, u2, b, rfl, htf, hd2, rfl⟩ := ih.pExtractTail a r1 x hx
        exact ⟨[g], by simp, Derives.extract hn hname hu (by simpa using hd) htf hd2⟩
      · cases h

theorem wf_pFunc (ih : WF d n) : ∀ ts, RE d 0 [] ts (pFunc d (n+1) ts) := by
  intro ts v r h
  unfold pFunc at h
  split at h
  · cases h
  · rename_i schema name r0 hf
    obtain ⟨nm, rfl, hn⟩ := pFuncName_spec hf
    have fin : ∀ {x : R Expr}, RE d 0 nm r0 x → x = .ok (v, r) → ∃ u, nm ++ r0 = u ++ r ∧ Derives d 0 ([] ++ u) v := by
      intro x hx hxe
      obtain ⟨u, rfl, hd⟩ := hx v r hxe
      exact ⟨nm ++ u, by simp, by simpa using hd⟩
    split at h
    · rename_i hc
      simp only [Bool.and_eq_true, Option.isNone_iff_eq_none, beq_iff_eq] at hc
      obtain ⟨rfl, hname⟩ := hc
      exact fin (ih.pCast nm name r0 hn hname) h
    split at h
    · rename_i hc
      simp only [Bool.and_eq_true, Option.isNone_iff_eq_none, beq_iff_eq] at hc
      obtain ⟨rfl, hname⟩ := hc
      exact fin (ih.pExtract nm name r0 hn hname) h
    split at h
    · rename_i hc
      simp only [Bool.and_eq_true, Option.isNone_iff_eq_none, beq_iff_eq] at hc
      obtain ⟨rfl, hname⟩ := hc
      exact fin (ih.pIfCall nm name r0 hn hname) h
    · exact fin (ih.pCall nm schema name r0 hn) h

theorem wf_pIndex (ih : WF d n) : ∀ before pre ts, Derives d 0 pre before → RE d 0 pre ts (pIndex d (n+1) before ts) := by
  intro before pre ts hb v r h
  unfold pIndex at h
  split at h
  · rename_i t r0
    split at h
    · rename_i hc
      split at h
      · rename_i i hi
        simp only [Except.ok.injEq, Prod.mk.injEq] at h
        obtain ⟨rfl, rfl⟩ := h
        obtain ⟨u, hu, hd⟩ := ih.pCompute _ i [] hi
        simp only [List.append_nil] at hu
        exact ⟨[t], by simp, Derives.index hb hc (by rw [hu]; simpa using hd)⟩
      · cases h
      · cases h
    · exact re_ret hb h
  · exact re_ret hb h

theorem wf_pFuncIdx (ih : WF d n) : ∀ ts, RE d 0 [] ts (pFuncIdx d (n+1) ts) := by
  intro ts v r h
  unfold pFuncIdx at h
  split at h
  · rename_i e r1 h1
    obtain ⟨u1, rfl, hd1⟩ := ih.pFunc ts e r1 h1
    obtain ⟨u2, rfl, hd2⟩ := ih.pIndex e _ r1 hd1 v r h
    exact ⟨u1 ++ u2, by simp, by simpa using hd2⟩
  · cases h

theorem wf_pWindow (ih : WF d n) : ∀ ts, RE d 0 [] ts (pWindow d (n+1) ts) := by
  intro ts v r h
  unfold pWindow at h
  split at h
  · cases h
  · rename_i fn r0 h1
    obtain ⟨u1, rfl, hd1⟩ := ih.pFuncIdx ts fn r0 h1
    split at h
    · cases h
    · rename_i r1 hm
      obtain ⟨tov, rfl, hov⟩ := matchSeq1_ok hm
      split at h
      · cases h
      · rename_i g r2
        split at h
        · rename_i w hw
          simp only [Except.ok.injEq, Prod.mk.injEq] at h
          obtain ⟨rfl, rfl⟩ := h
          exact ⟨u1 ++ [tov, g], by simp, by simpa using Derives.window (by simpa using hd1) hov ⟨n, hw⟩⟩
        · cases h

theorem wf_pElseEnd (ih : WF d n) : ∀ ts el r, pElseEnd d (n+1) ts = .ok (el, r) → ∃ u, ts = u ++ r ∧ ElseEnd d u el := by
  intro ts el r h
  unfold pElseEnd at h
  split at h
  · rename_i hc
    cases ts with
    | nil => simp [searchStrUp] at hc
    | cons tl r0 =>
      simp only [searchStrUp] at hc
      simp only [List.drop_one, List.tail_cons] at h
      split at h
      · cases h
      · rename_i e r4 h1
        obtain ⟨u, rfl, hd⟩ := ih.pOr r0 e r4 h1
        split at h
        · rename_i r5 hm
          obtain ⟨te, rfl, hte⟩ := matchKw_ok hm
          simp only [Except.ok.injEq, Prod.mk.injEq] at h
          obtain ⟨rfl, rfl⟩ := h
          exact ⟨tl :: u ++ [te], by simp, .else_ hc (by simpa using hd) hte⟩
        · cases h
  · split at h
    · rename_i r5 hm
      obtain ⟨te, rfl, hte⟩ := matchKw_ok hm
      simp only [Except.ok.injEq, Prod.mk.injEq] at h
      obtain ⟨rfl, rfl⟩ := h
      exact ⟨[te], by simp, .end_ hte⟩
    · cases h

theorem wf_pWhens (ih : WF d n) : ∀ acc ts cs r, pWhens d (n+1) acc ts = .ok (cs, r) →
    ∃ u cs', ts = u ++ r ∧ cs = acc ++ cs' ∧ Whens d u cs' := by
  intro acc ts cs r h
  unfold pWhens at h
  by_cases hs : searchStrUp ts "WHEN" = true
  · simp only [moveStrUp, hs, ↓reduceIte] at h
    cases ts with
    | nil => simp [searchStrUp] at hs
    | cons tw r0 =>
      simp only [searchStrUp] at hs
      simp only [List.drop_one, List.tail_cons] at h
      split at h
      · cases h
      · rename_i w r1 h1
        obtain ⟨u1, rfl, hd1⟩ := ih.pOr r0 w r1 h1
        split at h
        · cases h
        · rename_i r2 hm
          obtain ⟨tt, rfl, htt⟩ := matchKw_ok hm
          split at h
          · cases h
          · rename_i t r3 h2
            obtain ⟨u2, rfl, hd2⟩ := ih.pOr r2 t r3 h2
            obtain ⟨u3, cs', rfl, rfl, hw⟩ := ih.pWhens _ r3 cs r h
            exact ⟨tw :: u1 ++ tt :: u2 ++ u3, (w, t) :: cs', by simp, by simp,
              .cons hs (by simpa using hd1) htt (by simpa using hd2) hw⟩
  · simp only [moveStrUp, hs] at h
    simp only [Bool.false_eq_true, ↓reduceIte, Except.ok.injEq, Prod.mk.injEq] at h
    obtain ⟨rfl, rfl⟩ := h
    exact ⟨[], [], by simp, by simp, .nil⟩

theorem wf_pCase (ih : WF d n) : ∀ ts, RE d 0 [] ts (pCase d (n+1) ts) := by
  intro ts v r h
  unfold pCase at h
  split at h
  · cases h
  · rename_i r0 hm
    obtain ⟨tc, rfl, htc⟩ := matchKw_ok hm
    split at h
    · split at h
      · cases h
      · rename_i cs r2 hw
        obtain ⟨ws, cs', rfl, hcs, hwd⟩ := ih.pWhens [] r0 cs r2 hw
        simp only [List.nil_append] at hcs
        subst hcs
        split at h
        · rename_i el r5 he
          obtain ⟨ee, rfl, hee⟩ := ih.pElseEnd r2 el r5 he
          simp only [Except.ok.injEq, Prod.mk.injEq] at h
          obtain ⟨rfl, rfl⟩ := h
          exact ⟨tc :: ws ++ ee, by simp, by simpa using Derives.caseCond htc hwd hee⟩
        · cases h
    · split at h
      · cases h
      · rename_i v0 r1 h1
        obtain ⟨u, rfl, hd⟩ := ih.pOr r0 v0 r1 h1
        split at h
        · cases h
        · rename_i cs r2 hw
          obtain ⟨ws, cs', rfl, hcs, hwd⟩ := ih.pWhens [] r1 cs r2 hw
          simp only [List.nil_append] at hcs
          subst hcs
          split at h
          · rename_i el r5 he
            obtain ⟨ee, rfl, hee⟩ := ih.pElseEnd r2 el r5 he
            simp only [Except.ok.injEq, Prod.mk.injEq] at h
            obtain ⟨rfl, rfl⟩ := h
            exact ⟨tc :: u ++ ws ++ ee, by simp, by simpa using Derives.caseVal htc (by simpa using hd) hwd hee⟩
          · cases h

theorem wf_pParen (ih : WF d n) : ∀ n0 r0, n0.has LITERAL = false → n0.has PAREN = true →
    RE d 0 [] (n0 :: r0) (pParen d (n+1) n0 r0) := by
  intro n0 r0 hl hp v r h
  unfold pParen at h
  split at h
  · rename_i hc
    obtain ⟨g, q, hg, rfl, hq⟩ := ih.pSubQuery _ v r h
    simp only [List.cons.injEq] at hg
    obtain ⟨rfl, rfl⟩ := hg
    exact ⟨[n0], by simp, Derives.subQuery hl hp hc hq⟩
  · rename_i hc
    split at h
    · rename_i e he
      simp only [Except.ok.injEq, Prod.mk.injEq] at h
      obtain ⟨rfl, rfl⟩ := h
      obtain ⟨u, hu, hd⟩ := ih.pOr _ e [] he
      simp only [List.append_nil] at hu
      exact ⟨[n0], by simp, Derives.paren hl hp (by simpa using hc) (by rw [hu]; simpa using hd)⟩
    · cases h
    · cases h

theorem wf_pQualified (ih : WF d n) : ∀ n0 n1 r1, n1.srcEq "." = true →
    RE d 0 [] (n0 :: n1 :: r1) (pQualified d (n+1) n0 r1 (n0 :: n1 :: r1)) := by
  intro n0 n1 r1 hdot v r h
  unfold pQualified at h
  split at h
  · cases h
  · rename_i n2 r2
    split at h
    · rename_i hname
      split at h
      · exact ih.pFuncIdx _ v r h
      · have hb : Derives d 0 [n0, n1, n2] (.column (some (unifyName n0.src)) (unifyName n2.src)) := .qcolumn hdot hname
        obtain ⟨u, rfl, hd⟩ := ih.pIndex _ _ r2 hb v r h
        exact ⟨n0 :: n1 :: n2 :: u, by simp, by simpa using hd⟩
    · split at h
      · rename_i hst
        simp only [Except.ok.injEq, Prod.mk.injEq] at h
        obtain ⟨rfl, rfl⟩ := h
        exact ⟨[n0, n1, n2], by simp, Derives.qwildcard hdot hst⟩
      · cases h

theorem wf_pNamed (ih : WF d n) : ∀ n0 r0, n0.has LITERAL = false → n0.has PAREN = false →
    RE d 0 [] (n0 :: r0) (pNamed d (n+1) n0 r0 (n0 :: r0)) := by
  intro n0 r0 hl hp v r h
  have hcol : ∀ x, pIndex d n (.column none (unifyName n0.src)) r0 = x → x = .ok (v, r) →
      ∃ u, n0 :: r0 = u ++ r ∧ Derives d 0 ([] ++ u) v := by
    intro x hx hxe
    subst hx
    have hb : Derives d 0 [n0] (.column none (unifyName n0.src)) := .column hl hp
    obtain ⟨u, rfl, hd⟩ := ih.pIndex _ _ r0 hb v r hxe
    exact ⟨n0 :: u, by simp, by simpa using hd⟩
  unfold pNamed at h
  split at h
  · rename_i n1 r1
    split at h
    · split at h
      · exact ih.pWindow _ v r h
      · exact ih.pFuncIdx _ v r h
    · split at h
      · rename_i hdot
        exact ih.pQualified n0 n1 r1 hdot v r h
      · exact hcol _ rfl h
  · exact hcol _ rfl h

theorem wf_pElement (ih : WF d n) : ∀ ts, RE d 0 [] ts (pElement d (n+1) ts) := by
  intro ts v r h
  unfold pElement at h
  split at h
  · cases h
  · rename_i n0 r0
    split at h
    · rename_i hl
      simp only [Except.ok.injEq, Prod.mk.injEq] at h
      obtain ⟨rfl, rfl⟩ := h
      exact ⟨[n0], by simp, Derives.literal hl⟩
    · rename_i hl
      split at h
      · rename_i hp
        exact ih.pParen n0 r0 (by simpa using hl) hp v r h
      · rename_i hp
        split at h
        · exact ih.pCase _ v r h
        · split at h
          · rename_i hst
            simp only [Except.ok.injEq, Prod.mk.injEq] at h
            obtain ⟨rfl, rfl⟩ := h
            exact ⟨[n0], by simp, Derives.wildcard hst⟩
          · exact ih.pNamed n0 r0 (by simpa using hl) (by simpa using hp) v r h

end WNG
