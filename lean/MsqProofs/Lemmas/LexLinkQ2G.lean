import MsqProofs.Lemmas.LexLinkQ2C
/-!
# The lexer link for the larger fragment: GROUP BY with GROUPING SETS / WITH CUBE / WITH ROLLUP, and the record of a SELECT (hand-written)
-/
set_option linter.unusedVariables false
set_option linter.unusedSimpArgs false
namespace LL2
open Lex Spec C05 C06 C09 Ast TP TS LexLink TQ2
open TQ (tblTok unionWords isExists)
open LLD (ps pc lx_pc q_pc seg_sp sp pc_cons pc_nil pc_append pc_join)

section
variable {d : Gen.D} {K : QKit}

/-! ## one grouping set -/

theorem startsWith_paren (l : List Char) : (String.ofList l).startsWith "(" = decide (l.head? = some '(') := by
  rw [Bool.eq_iff_iff]
  simp only [String.startsWith_string_iff, String.toList_ofList, decide_eq_true_eq]
  have : ("(" : String).toList = ['('] := rfl
  rw [this]
  cases l with
  | nil => simp
  | cons c r => simp [eq_comm]

theorem grp_has (x : List Tok) : (grp x).has Lex.PAREN = true := by
  show (Lex.PAREN &&& Lex.PAREN != 0) = true
  decide

/-- under `setElemOK` the first character of the element's text is `(` exactly when its first token is a bracket group -/
theorem head_iff (e : Expr) (hs : setElemOK e = true) :
    ((wrapL e 8 (prE4L d e)).head? = some '(') ↔ headIsGrp (wrapT (noX e) e 8 (toksE4 d noX e)) = true := by
  by_cases hlv : PR.lvl e > 8
  · have e1 : wrapL e 8 (prE4L d e) = '(' :: (prE4L d e ++ [')']) := by unfold wrapL; simp [hlv]
    have e2 : wrapT (noX e) e 8 (toksE4 d noX e) = [grp (toksE4 d noX e)] := by unfold wrapT; simp [hlv, noX]
    rw [e1, e2]
    simp [headIsGrp, grp_has]
  · have e1 : wrapL e 8 (prE4L d e) = prE4L d e := by unfold wrapL; simp [hlv]
    have e2 : wrapT (noX e) e 8 (toksE4 d noX e) = toksE4 d noX e := by unfold wrapT; simp [hlv, noX]
    rw [e1, e2]
    simp only [setElemOK, hlv, decide_false, Bool.false_or] at hs
    cases e <;> try (simp at hs; done)
    case column t c =>
      have hn : ∀ x : String, (nameTok x).has Lex.PAREN = false := fun x => by simp [nameTok, Tok.has, Tok.marks]; decide
      cases t <;> simp [prE4L, toksE4, headIsGrp, hn]
    case subValue vs => simp [prE4L, toksE4, headIsGrp, grp_has]
    case subQuery q => simp [prE4L, toksE4, headIsGrp, grp_has]

theorem set_good (g : List Expr) (hg : ∀ e ∈ g, GE4 d K e) (hs : ∀ e, g = [e] → setElemOK e = true) :
    Lx (setOfL (prList84LL d g)) (toksSet4 d noX g) ∧ K.Q (setOfL (prList84LL d g)) := by
  match g, hg, hs with
  | [], _, _ =>
    refine ⟨?_, ?_⟩
    · have := Lx.paren lx_nil
      exact Lx.congr this (by simp [setOfL, prList84LL, joinLL]) (by simp [toksSet4, grp_eq])
    · have := K.paren K.nil
      simpa [setOfL, prList84LL, joinLL] using this
  | [e], hg, hs =>
    have ge := hg e (by simp)
    have hi := head_iff (d := d) e (hs e rfl)
    by_cases hh : (wrapL e 8 (prE4L d e)).head? = some '('
    · have ht := hi.mp hh
      refine ⟨?_, ?_⟩
      · exact Lx.congr (Lx.paren (ge.w 8)) (by simp [setOfL, prList84LL, hh]) (by simp [toksSet4, ht, grp_eq])
      · have := K.paren (ge.qw 8)
        simpa [setOfL, prList84LL, hh] using this
    · have ht : headIsGrp (wrapT (noX e) e 8 (toksE4 d noX e)) = false := by
        cases h : headIsGrp (wrapT (noX e) e 8 (toksE4 d noX e)) with
        | false => rfl
        | true => exact absurd (hi.mpr h) hh
      refine ⟨?_, ?_⟩
      · exact Lx.congr (ge.w 8) (by simp [setOfL, prList84LL, hh]) (by simp [toksSet4, ht])
      · have := ge.qw 8
        simpa [setOfL, prList84LL, hh] using this
  | e1 :: e2 :: es, hg, _ =>
    refine ⟨?_, ?_⟩
    · have := Lx.paren (lx_args8 (e1 :: e2 :: es) hg)
      exact Lx.congr this (by simp [setOfL, prList84LL]) (by simp [toksSet4, toksArgs4, toksArgsTail4, grp_eq])
    · have := K.paren (q_list8 (e1 :: e2 :: es) hg)
      simpa [setOfL, prList84LL] using this

theorem sets4LL_eq (l : List (List Expr)) : sets4LL d l = l.map (fun g => setOfL (prList84LL d g)) := by
  induction l with
  | nil => simp [sets4LL]
  | cons g r ih => simp [sets4LL, ih]

theorem pr_sets (l : List (List Expr)) : (∀ g ∈ l, ∀ e ∈ g, GE4 d K e) → PR.prSets d l = .ok ((sets4LL d l).map String.ofList) := by
  induction l with
  | nil => intro _; rfl
  | cons g r ih =>
    intro h
    have hg := h g (by simp)
    have h2 := ih fun y hy => h y (by simp [hy])
    have e3 : (", " : String).toList = [',', ' '] := rfl
    match g, hg with
    | [], _ =>
      simp only [PR.prSets, PR.prList8, h2, Except.map, bind, Except.bind, pure, Except.pure, sets4LL, List.map_cons]
      refine congrArg Except.ok ?_
      congr 1
      all_goals (apply ofList_eq; simp [toString, String.toList_append, toList_joinS, setOfL, prList84LL, joinLL, PR.joinS])
    | [e], hg =>
      have he := (hg e (by simp)).pr
      simp only [PR.prSets, PR.prList8, he, h2, Except.map, bind, Except.bind, pure, Except.pure, sets4LL, List.map_cons, wrap_ofList,
        startsWith_paren]
      refine congrArg Except.ok ?_
      congr 1
      apply ofList_eq
      by_cases hh : (wrapL e 8 (prE4L d e)).head? = some '('
      · simp [toString, String.toList_append, String.toList_ofList, setOfL, prList84LL, hh]
      · simp [toString, String.toList_append, String.toList_ofList, setOfL, prList84LL, hh]
    | e1 :: e2 :: es, hg =>
      have hp := pr_list8 (e1 :: e2 :: es) hg
      simp only [prList84LL, List.map_cons] at hp
      simp only [PR.prSets, hp, h2, Except.map, bind, Except.bind, pure, Except.pure, sets4LL, List.map_cons]
      refine congrArg Except.ok ?_
      congr 1
      apply ofList_eq
      simp [toString, String.toList_append, String.toList_ofList, toList_joinS, map_map_ofList, setOfL, prList84LL, e3, joinLL]

/-! ## GROUP BY -/

def setsPieces (d : Gen.D) : Option (List (List Expr)) → List (List Char)
  | none => []
  | some l => [kwL "GROUPING" ++ ' ' :: (kwL "SETS" ++ ' ' :: '(' :: (joinLL [',', ' '] (sets4LL d l) ++ [')']))]
def gtailPieces (d : Gen.D) (sets : Option (List (List Expr))) (cube rollup : Bool) : List (List Char) :=
  setsPieces d sets ++ ((if cube then [kwL "WITH" ++ ' ' :: kwL "CUBE"] else []) ++ (if rollup then [kwL "WITH" ++ ' ' :: kwL "ROLLUP"] else []))
theorem groupL_eq (keys : List (List Char)) (sets : Option (List (List Expr))) (cube rollup : Bool) :
    groupL keys (setsOpt4L d sets) cube rollup =
      "GROUP".toList ++ ' ' :: ("BY".toList ++ ' ' :: (joinLL [',', ' '] keys ++ pc (gtailPieces d sets cube rollup))) := by
  cases sets <;> cases cube <;> cases rollup <;> simp [groupL, setsOpt4L, setsOptL, gtailPieces, setsPieces, pc]

theorem toksSetsTail4_eq : ∀ (x : List Expr) (xs : List (List Expr)),
    toksSetsTail4 d noX (x :: xs) = TS.commaTok :: (toksSet4 d noX x ++ toksSetsTail4 d noX xs) := by
  intro x xs; simp [toksSetsTail4, TS.commaTok, TP2.commaTok]

theorem gtail_good (hK : QW2 K) (sets : Option (List (List Expr))) (cube rollup : Bool)
    (hsets : ∀ l, sets = some l → ∀ g ∈ l, (∀ e ∈ g, GE4 d K e) ∧ (∀ e, g = [e] → setElemOK e = true)) :
    Seg ' ' (gtailPieces d sets cube rollup) (toksSetsOpt4 d noX sets ++
      ((if cube then [opTok "WITH", opTok "CUBE"] else []) ++ (if rollup then [opTok "WITH", opTok "ROLLUP"] else []))) ∧
    ∀ x ∈ gtailPieces d sets cube rollup, K.Q x := by
  have w2 : ∀ k, k ∈ q2Words → Lx k.toList [opTok k] ∧ K.Q k.toList := fun k hk => ⟨lx_w2 k hk, hK.ws k hk⟩
  have hW := w2 "WITH" (by simp [q2Words])
  have hS : Seg ' ' (setsPieces d sets) (toksSetsOpt4 d noX sets) ∧ ∀ x ∈ setsPieces d sets, K.Q x := by
    cases sets with
    | none => exact ⟨Seg.nil _, fun x hx => by simp [setsPieces] at hx⟩
    | some l =>
      have hall := hsets l rfl
      have hin : Lx (joinLL [',', ' '] (sets4LL d l)) (toksSets4 d noX l) := by
        rw [sets4LL_eq]
        cases l with
        | nil => simpa [joinLL, toksSets4] using lx_nil
        | cons g r =>
          have := lx_commaList (fun g => setOfL (prList84LL d g)) (toksSet4 d noX) (toksSetsTail4 d noX) (by simp [toksSetsTail4])
            toksSetsTail4_eq r g (set_good g (hall g (by simp)).1 (hall g (by simp)).2).1
            (fun y hy => (set_good y (hall y (by simp [hy])).1 (hall y (by simp [hy])).2).1)
          exact Lx.congr this rfl (by simp [toksSets4])
      have hqin : K.Q (joinLL [',', ' '] (sets4LL d l)) := by
        rw [sets4LL_eq]
        exact K.joinLL2 _ fun y hy => by
          obtain ⟨g, hg, rfl⟩ := List.mem_map.mp hy
          exact (set_good g (hall g hg).1 (hall g hg).2).2
      have a := w2 "GROUPING" (by simp [q2Words]); have b := w2 "SETS" (by simp [q2Words])
      refine ⟨Seg.one _ ?_, fun x hx => ?_⟩
      · exact Lx.congr (Lx.sep a.1 (Lx.sep b.1 (Lx.paren hin))) (by simp [setsPieces]) (by simp [toksSetsOpt4, grp_eq])
      · simp only [setsPieces, List.mem_singleton] at hx
        subst hx
        have := K.sp a.2 (K.sp b.2 (K.paren hqin))
        simpa using this
  have hC : Seg ' ' (if cube then [kwL "WITH" ++ ' ' :: kwL "CUBE"] else []) (if cube then [opTok "WITH", opTok "CUBE"] else []) ∧
      ∀ x ∈ (if cube then [kwL "WITH" ++ ' ' :: kwL "CUBE"] else []), K.Q x := by
    have b := w2 "CUBE" (by simp [q2Words])
    cases cube
    · exact ⟨Seg.nil _, fun x hx => by simp at hx⟩
    · refine ⟨Seg.one _ (Lx.congr (Lx.sep hW.1 b.1) (by simp) (by simp)), fun x hx => ?_⟩
      simp only [if_true, List.mem_singleton] at hx
      subst hx
      simpa using K.sp hW.2 b.2
  have hR : Seg ' ' (if rollup then [kwL "WITH" ++ ' ' :: kwL "ROLLUP"] else []) (if rollup then [opTok "WITH", opTok "ROLLUP"] else []) ∧
      ∀ x ∈ (if rollup then [kwL "WITH" ++ ' ' :: kwL "ROLLUP"] else []), K.Q x := by
    have b := w2 "ROLLUP" (by simp [q2Words])
    cases rollup
    · exact ⟨Seg.nil _, fun x hx => by simp at hx⟩
    · refine ⟨Seg.one _ (Lx.congr (Lx.sep hW.1 b.1) (by simp) (by simp)), fun x hx => ?_⟩
      simp only [if_true, List.mem_singleton] at hx
      subst hx
      simpa using K.sp hW.2 b.2
  refine ⟨Seg.append sp hS.1 (Seg.append sp hC.1 hR.1), fun x hx => ?_⟩
  simp only [gtailPieces, List.mem_append] at hx
  rcases hx with hx | hx | hx
  · exact hS.2 x hx
  · exact hC.2 x hx
  · exact hR.2 x hx

theorem cl_group (hK : QW2 K) (gb : Option GroupBy)
    (hne : ∀ cols sets cube rollup, gb = some (.mk cols sets cube rollup) → cols ≠ [] ∨ sets ≠ none)
    (hcols : ∀ cols sets cube rollup, gb = some (.mk cols sets cube rollup) → ∀ e ∈ cols, GE4 d K e)
    (hsets : ∀ cols l cube rollup, gb = some (.mk cols (some l) cube rollup) → ∀ g ∈ l, (∀ e ∈ g, GE4 d K e) ∧ (∀ e, g = [e] → setElemOK e = true)) :
    CL K (PR.prOptGroup d gb) (group4LL d gb) (toksGroup4 d noX gb) := by
  cases gb with
  | none => exact ⟨Seg.nil _, rfl, fun x hx => by simp [group4LL] at hx⟩
  | some g =>
    obtain ⟨cols, sets, cube, rollup⟩ := g
    have hc := hcols cols sets cube rollup rfl
    obtain ⟨t1, t2⟩ := gtail_good hK sets cube rollup (fun l hl g hg => by subst hl; exact hsets cols l cube rollup rfl g hg)
    have hkeys : Lx (joinLL [',', ' '] (prList84LL d cols) ++ pc (gtailPieces d sets cube rollup))
        (toksArgs4 d noX 8 cols ++ (toksSetsOpt4 d noX sets ++
          ((if cube then [opTok "WITH", opTok "CUBE"] else []) ++ (if rollup then [opTok "WITH", opTok "ROLLUP"] else [])))) := by
      cases cols with
      | cons e es => exact lx_pc (lx_args8 (e :: es) hc) t1
      | nil =>
        have hs : sets ≠ none := by
          rcases hne [] sets cube rollup rfl with h | h
          · exact absurd rfl h
          · exact h
        have hp : gtailPieces d sets cube rollup ≠ [] := by
          cases sets with
          | none => exact absurd rfl hs
          | some l => simp [gtailPieces, setsPieces]
        rw [pc_join _ hp]
        simpa [prList84LL, joinLL, toksArgs4] using Lx.blank (t1.lx hp)
    have qkeys : K.Q (joinLL [',', ' '] (prList84LL d cols) ++ pc (gtailPieces d sets cube rollup)) :=
      q_pc K _ t2 _ (q_list8 cols hc)
    refine ⟨?_, ?_, ?_⟩
    · have := lx_kwThen "GROUP" (by simp [clauseWords]) (lx_kwThen "BY" (by simp [clauseWords]) hkeys)
      exact Seg.one _ (Lx.congr this (by simp only [group4LL, groupL_eq]) (by simp [toksGroup4]))
    · have hps : (match sets with
          | some l => (PR.prSets d l).map fun x => " GROUPING SETS (" ++ PR.joinS ", " x ++ ")"
          | none => (pure "" : PR.P)) = .ok (String.ofList (setsOpt4L d sets)) := by
        cases sets with
        | none => rfl
        | some l =>
          have := pr_sets (K := K) l (fun g hg => (hsets cols l cube rollup rfl g hg).1)
          simp only [this, Except.map, setsOpt4L, setsOptL]
          refine congrArg Except.ok ?_
          apply ofList_eq
          have e3 : (", " : String).toList = [',', ' '] := rfl
          simp [String.toList_append, toList_joinS, map_map_ofList, e3]
      have hpl := pr_list8 cols hc
      cases sets with
      | none =>
        simp only [PR.prOptGroup, PR.prGroupBy, hpl, bind, Except.bind, pure, Except.pure, Except.map, group4LL, List.map_cons, List.map_nil]
        refine congrArg Except.ok ?_
        congr 1
        apply ofList_eq
        have e3 : (", " : String).toList = [',', ' '] := rfl
        cases cube <;> cases rollup <;>
          simp [toString, String.toList_append, toList_joinS, map_map_ofList, e3, groupL, setsOpt4L]
      | some l =>
        have := pr_sets (K := K) l (fun g hg => (hsets cols l cube rollup rfl g hg).1)
        simp only [PR.prOptGroup, PR.prGroupBy, hpl, this, bind, Except.bind, pure, Except.pure, Except.map, group4LL, List.map_cons, List.map_nil]
        refine congrArg Except.ok ?_
        congr 1
        apply ofList_eq
        have e3 : (", " : String).toList = [',', ' '] := rfl
        cases cube <;> cases rollup <;>
          simp [toString, String.toList_append, toList_joinS, map_map_ofList, e3, groupL, setsOpt4L, setsOptL]
    · intro x hx
      simp only [group4LL, List.mem_singleton] at hx
      subst hx
      rw [groupL_eq]
      exact K.sp (K.word "GROUP" (mem_cw (by simp [clauseWords]))) (K.sp (K.word "BY" (mem_cw (by simp [clauseWords]))) qkeys)

/-! ## the SELECT -/

/-- **the record of a single SELECT** from the records of its thirteen clauses; `hG1` / `hG2`: the printer's dialect guards -/
theorem gs_select (dist : Bool) (cols : List (Expr × Option String)) (fr : Option (List FromTable)) (lats : List Lateral) (js : List Join)
    (wh : Option Expr) (gb : Option GroupBy) (hv : Option Expr) (ob sb : Option (List OrderItem)) (db cb : Option (List Expr))
    (lm : Option (Int × Option Int))
    (hG1 : (sb.isSome || db.isSome || cb.isSome) = true → d = .HIVE) (hG2 : lats ≠ [] → d = .HIVE ∨ d = .DEFAULT)
    (hcols : Lx (joinLL [',', ' '] (prCols4LL d cols)) (toksCols4 d noX cols) ∧
      PR.prCols d cols = .ok ((prCols4LL d cols).map String.ofList) ∧ K.Q (joinLL [',', ' '] (prCols4LL d cols)))
    (cfr : CL K (PR.prOptFrom d fr) (from4LL d fr) (toksFrom4 d noX fr))
    (clt : CL K (PR.prLateralList d lats) (lats4LL d lats) (toksLats4 d noX lats))
    (cjs : CL K (PR.prJoinList d js) (joins4LL d js) (toksJoins4 d noX js))
    (cwh : CL K (PR.prOptWhere d wh) (opt4LL d "WHERE" wh) (toksOptE4 d noX "WHERE" wh))
    (cgb : CL K (PR.prOptGroup d gb) (group4LL d gb) (toksGroup4 d noX gb))
    (chv : CL K (PR.prOptHaving d hv) (opt4LL d "HAVING" hv) (toksOptE4 d noX "HAVING" hv))
    (cob : CL K (PR.prOptOrder d ob) (order4LL d "ORDER" ob) (toksOrder4 d noX ob))
    (csb : CL K (PR.prOptSort d sb) (order4LL d "SORT" sb) (toksSort4 d noX sb))
    (cdb : CL K (PR.prOptDistribute d db) (by4LL d "DISTRIBUTE" db) (toksBy4 d noX "DISTRIBUTE" db))
    (ccb : CL K (PR.prOptCluster d cb) (by4LL d "CLUSTER" cb) (toksBy4 d noX "CLUSTER" cb))
    (clm : CL K (.ok ((limitC lm).map fun p => String.ofList p.1)) ((limitC lm).map (·.1)) (toksLimit lm)) :
    GS4 d K (.mk (some []) dist cols fr lats js wh gb hv ob sb db cb lm) := by
  have e4 : ("DISTINCT " : String).toList = "DISTINCT".toList ++ [' '] := rfl
  have hsel : Lx ("SELECT".toList ++ ' ' :: ((if dist then "DISTINCT ".toList else []) ++ joinLL [',', ' '] (prCols4LL d cols)))
      (opTok "SELECT" :: ((if dist then [opTok "DISTINCT"] else []) ++ toksCols4 d noX cols)) := by
    cases dist with
    | false =>
      simp only [Bool.false_eq_true, ↓reduceIte, List.nil_append]
      exact lx_kwThen "SELECT" (by simp [clauseWords]) hcols.1
    | true =>
      simp only [↓reduceIte]
      rw [e4]
      exact Lx.congr (lx_kwThen "SELECT" (by simp [clauseWords]) (lx_kwThen "DISTINCT" (by simp [clauseWords]) hcols.1))
        (by simp only [List.append_assoc, List.singleton_append]) rfl
  have qsel : K.Q ("SELECT".toList ++ ' ' :: ((if dist then "DISTINCT ".toList else []) ++ joinLL [',', ' '] (prCols4LL d cols))) := by
    cases dist with
    | false =>
      simp only [Bool.false_eq_true, ↓reduceIte, List.nil_append]
      exact K.sp (K.word "SELECT" (mem_cw (by simp [clauseWords]))) hcols.2.2
    | true =>
      simp only [↓reduceIte]
      rw [e4]
      have := K.sp (K.word "SELECT" (mem_cw (by simp [clauseWords]))) (K.sp (K.word "DISTINCT" (mem_cw (by simp [clauseWords]))) hcols.2.2)
      simpa only [List.append_assoc, List.singleton_append] using this
  have r10 := CL.append ccb clm
  have s9 := Seg.append nl cdb.seg r10.1
  have s8 := Seg.append nl csb.seg s9
  have s7 := Seg.append nl cob.seg s8
  have s6 := Seg.append nl chv.seg s7
  have s5 := Seg.append nl cgb.seg s6
  have s4 := Seg.append nl cwh.seg s5
  have s3 := Seg.append nl cjs.seg s4
  have s2 := Seg.append nl clt.seg s3
  have s1 := Seg.append nl cfr.seg s2
  have s0 := Seg.cons nl hsel s1
  refine ⟨?_, ?_, ?_⟩
  · exact Lx.congr (s0.lx (List.cons_ne_nil _ _)) (by simp only [prS4L]) (by simp only [toksS4, List.cons_append, List.append_assoc])
  · have e_guard : PR.prSGuard d lats sb db cb = .ok () := by
      unfold PR.prSGuard
      have h1 : (d != Gen.D.HIVE && (sb.isSome || db.isSome || cb.isSome)) = false := by
        cases hb : (sb.isSome || db.isSome || cb.isSome) with
        | false => simp
        | true => rw [hG1 hb]; rfl
      have h2 : (!(d == Gen.D.HIVE || d == Gen.D.DEFAULT) && !lats.isEmpty) = false := by
        cases lats with
        | nil => simp
        | cons a b => rcases hG2 (by simp) with h | h <;> rw [h] <;> rfl
      simp only [h1, h2, Bool.false_eq_true, if_false]
    have e_hive : PR.prHive d sb db cb =
        .ok ((order4LL d "SORT" sb ++ (by4LL d "DISTRIBUTE" db ++ by4LL d "CLUSTER" cb)).map String.ofList) := by
      unfold PR.prHive
      by_cases hd : d = .HIVE
      · subst hd
        simp only [beq_self_eq_true, if_true, csb.pr, cdb.pr, ccb.pr, bind, Except.bind, pure, Except.pure, List.map_append, List.append_assoc]
      · have hb : (sb.isSome || db.isSome || cb.isSome) = false := by
          cases hb : (sb.isSome || db.isSome || cb.isSome) with
          | false => rfl
          | true => exact absurd (hG1 hb) hd
        have hne : (d == Gen.D.HIVE) = false := by simpa using hd
        simp only [Bool.or_eq_false_iff, Option.isSome_eq_false_iff, Option.isNone_iff_eq_none] at hb
        obtain ⟨⟨rfl, rfl⟩, rfl⟩ := hb
        simp [hne, order4LL, by4LL]
        rfl
    have hlim : ∀ pr, [(PR.limitSrc pr).toList] = (limitC (some pr)).map (·.1) := by
      intro pr
      have := congrArg (List.map String.toList) (limit_eq (some pr))
      simpa [List.map_map, Function.comp_def, String.toList_ofList] using this
    have hlim0 : (limitC none).map (·.1) = [] := rfl
    have e0 : ("" : String).toList = [] := rfl
    have hhead : (PR.joinS " " ("SELECT" :: ((if dist = true then ["DISTINCT"] else []) ++
        [PR.joinS ", " (List.map String.ofList (prCols4LL d cols))]))).toList =
        "SELECT".toList ++ ' ' :: ((if dist then "DISTINCT ".toList else []) ++ joinLL [',', ' '] (prCols4LL d cols)) := by
      rw [toList_joinS]
      cases dist <;> simp [joinLL, toList_joinS, map_map_ofList]
    rw [PR.prS_eq]
    cases lm <;>
    · simp only [PR.prWithPrefix, List.isEmpty_nil, if_true, PR.ok_bind, e_guard, PR.prSRest, hcols.2.1, cfr.pr, clt.pr, cjs.pr,
        cwh.pr, cgb.pr, chv.pr, cob.pr, e_hive, bind, Except.bind, pure, Except.pure]
      refine ok_ofList ?_
      rw [String.toList_append, e0, List.nil_append, toList_joinS]
      simp only [prS4L]
      congr 1
      simp only [List.map_append, List.map_cons, List.map_nil, map_map_ofList, List.append_assoc, List.cons_append, List.nil_append,
        hlim, hlim0, hhead, List.append_nil]
  · simp only [prS4L]
    refine K.joinLL1 '\n' K.s_nl _ fun x hx => ?_
    simp only [List.mem_cons, List.mem_append] at hx
    rcases hx with rfl | hx | hx | hx | hx | hx | hx | hx | hx | hx | hx | hx
    · exact qsel
    · exact cfr.q x hx
    · exact clt.q x hx
    · exact cjs.q x hx
    · exact cwh.q x hx
    · exact cgb.q x hx
    · exact chv.q x hx
    · exact cob.q x hx
    · exact csb.q x hx
    · exact cdb.q x hx
    · exact ccb.q x hx
    · exact clm.q x hx

end
end LL2
