import MsqProofs.Lemmas.LexLinkQ2C
/-!
# The lexer link for the larger fragment: GROUP BY with GROUPING SETS / WITH CUBE / WITH ROLLUP, and the record of a SELECT (hand-written)
-/
set_option linter.unusedVariables false
set_option linter.unusedSimpArgs false
namespace LL2
open Lex Spec C05 C06 C09 Ast TP TS LexLink TQ2
open TQ (tblTok unionWords isExists)
open LLD (ps pc lx_pc q_pc seg_sp sp pc_cons pc_nil pc_append pc_join)

section
variable {d : Gen.D} {K : QKit}

/-! ## one grouping set -/

theorem startsWith_paren (l : List Char) : (String.ofList l).startsWith "(" = decide (l.head? = some '(') := by
  rw [Bool.eq_iff_iff]
  simp only [String.startsWith_string_iff, String.toList_ofList, decide_eq_true_eq]
  have : ("(" : String).toList = ['('] := rfl
  rw [this]
  cases l with
  | nil => simp
  | cons c r => simp [eq_comm]

theorem grp_has (x : List Tok) : (grp x).has Lex.PAREN = true := by
  show (Lex.PAREN &&& Lex.PAREN != 0) = true
  decide

/-- under `setElemOK` the first character of the element's text is `(` exactly when its first token is a bracket group -/
theorem head_iff (e : Expr) (hs : setElemOK e = true) :
    ((wrapL e 8 (prE4L d e)).head? = some '(') ↔ headIsGrp (wrapT (noX e) e 8 (toksE4 d noX e)) = true := by
  by_cases hlv : PR.lvl e > 8
  · have e1 : wrapL e 8 (prE4L d e) = '(' :: (prE4L d e ++ [')']) := by unfold wrapL; simp [hlv]
    have e2 : wrapT (noX e) e 8 (toksE4 d noX e) = [grp (toksE4 d noX e)] := by unfold wrapT; simp [hlv, noX]
    rw [e1, e2]
    simp [headIsGrp, grp_has]
  · have e1 : wrapL e 8 (prE4L d e) = prE4L d e := by unfold wrapL; simp [hlv]
    have e2 : wrapT (noX e) e 8 (toksE4 d noX e) = toksE4 d noX e := by unfold wrapT; simp [hlv, noX]
    rw [e1, e2]
    simp only [setElemOK, hlv, decide_false, Bool.false_or] at hs
    cases e <;> try (simp at hs; done)
    case column t c =>
      have hn : ∀ x : String, (nameTok x).has Lex.PAREN = false := fun x => by simp [nameTok, Tok.has, Tok.marks]; decide
      cases t <;> simp [prE4L, toksE4, headIsGrp, hn]
    case subValue vs => simp [prE4L, toksE4, headIsGrp, grp_has]
    case subQuery q => simp [prE4L, toksE4, headIsGrp, grp_has]

theorem set_good (g : List Expr) (hg : ∀ e ∈ g, GE4 d K e) (hs : ∀ e, g = [e] → setElemOK e = true) :
    Lx (setOfL (prList84LL d g)) (toksSet4 d noX g) ∧ K.Q (setOfL (prList84LL d g)) := by
  match g, hg, hs with
  | [], _, _ =>
    refine ⟨?_, ?_⟩
    · have := Lx.paren lx_nil
      exact Lx.congr this (by simp [setOfL, prList84LL, joinLL]) (by simp [toksSet4, grp_eq])
    · have := K.paren K.nil
      simpa [setOfL, prList84LL, joinLL] using this
  | [e], hg, hs =>
    have ge := hg e (by simp)
    have hi := head_iff (d := d) e (hs e rfl)
    by_cases hh : (wrapL e 8 (prE4L d e)).head? = some '('
    · have ht := hi.mp hh
      refine ⟨?_, ?_⟩
      · exact Lx.congr (Lx.paren (ge.w 8)) (by simp [setOfL, prList84LL, hh]) (by simp [toksSet4, ht, grp_eq])
      · have := K.paren (ge.qw 8)
        simpa [setOfL, prList84LL, hh] using this
    · have ht : headIsGrp (wrapT (noX e) e 8 (toksE4 d noX e)) = false := by
        cases h : headIsGrp (wrapT (noX e) e 8 (toksE4 d noX e)) with
        | false => rfl
        | true => exact absurd (hi.mpr h) hh
      refine ⟨?_, ?_⟩
      · exact Lx.congr (ge.w 8) (by simp [setOfL, prList84LL, hh]) (by simp [toksSet4, ht])
      · have := ge.qw 8
        simpa [setOfL, prList84LL, hh] using this
  | e1 :: e2 :: es, hg, _ =>
    refine ⟨?_, ?_⟩
    · have := Lx.paren (lx_args8 (e1 :: e2 :: es) hg)
      exact Lx.congr this (by simp [setOfL, prList84LL]) (by simp [toksSet4, toksArgs4, toksArgsTail4, grp_eq])
    · have := K.paren (q_list8 (e1 :: e2 :: es) hg)
      simpa [setOfL, prList84LL] using this

theorem sets4LL_eq (l : List (List Expr)) : sets4LL d l = l.map (fun g => setOfL (prList84LL d g)) := by
  induction l with
  | nil => simp [sets4LL]
  | cons g r ih => simp [sets4LL, ih]

theorem pr_sets (l : List (List Expr)) : (∀ g ∈ l, ∀ e ∈ g, GE4 d K e) → PR.prSets d l = .ok ((sets4LL d l).map String.ofList) := by
  induction l with
  | nil => intro _; rfl
  | cons g r ih =>
    intro h
    have hg := h g (by simp)
    have h2 := ih fun y hy => h y (by simp [hy])
    have e3 : (", " : String).toList = [',', ' '] := rfl
    match g, hg with
    | [], _ =>
      simp only [PR.prSets, PR.prList8, h2, Except.map, bind, Except.bind, pure, Except.pure, sets4LL, List.map_cons]
      refine congrArg Except.ok ?_
      congr 1
      all_goals (apply ofList_eq; simp [toString, String.toList_append, toList_joinS, setOfL, prList84LL, joinLL, PR.joinS])
    | [e], hg =>
      have he := (hg e (by simp)).pr
      simp only [PR.prSets, PR.prList8, he, h2, Except.map, bind, Except.bind, pure, Except.pure, sets4LL, List.map_cons, wrap_ofList,
        startsWith_paren]
      refine congrArg Except.ok ?_
      congr 1
      apply ofList_eq
      by_cases hh : (wrapL e 8 (prE4L d e)).head? = some '('
      · simp [toString, String.toList_append, String.toList_ofList, setOfL, prList84LL, hh]
      · simp [toString, String.toList_append, String.toList_ofList, setOfL, prList84LL, hh]
    | e1 :: e2 :: es, hg =>
      have hp := pr_list8 (e1 :: e2 :: es) hg
      simp only [prList84LL, List.map_cons] at hp
      simp only [PR.prSets, hp, h2, Except.map, bind, Except.bind, pure, Except.pure, sets4LL, List.map_cons]
      refine congrArg Except.ok ?_
      congr 1
      apply ofList_eq
      simp [toString, String.toList_append, String.toList_ofList, toList_joinS, map_map_ofList, setOfL, prList84LL, e3, joinLL]

/-! ## GROUP BY -/

def setsPieces (d : Gen.D) : Option (List (List Expr)) → List (List Char)
  | none => []
  | some l => [kwL "GROUPING" ++ ' ' :: (kwL "SETS" ++ ' ' :: '(' :: (joinLL [',', ' '] (sets4LL d l) ++ [')']))]
def gtailPieces (d : Gen.D) (sets : Option (List (List Expr))) (cube rollup : Bool) : List (List Char) :=
  setsPieces d sets ++ ((if cube then [kwL "WITH" ++ ' ' :: kwL "CUBE"] else []) ++ (if rollup then [kwL "WITH" ++ ' ' :: kwL "ROLLUP"] else []))
theorem groupL_eq (keys : List (List Char)) (sets : Option (List (List Expr))) (cube rollup : Bool) :
    groupL keys (setsOpt4L d sets) cube rollup =
      "GROUP".toList ++ ' ' :: ("BY".toList ++ ' ' :: (joinLL [',', ' '] keys ++ pc (gtailPieces d sets cube rollup))) := by
  cases sets <;> cases cube <;> cases rollup <;> simp [groupL, setsOpt4L, setsOptL, gtailPieces, setsPieces, pc]

theorem toksSetsTail4_eq : ∀ (x : List Expr) (xs : List (List Expr)),
    toksSetsTail4 d noX (x :: xs) = TS.commaTok :: (toksSet4 d noX x ++ toksSetsTail4 d noX xs) := by
  intro x xs; simp [toksSetsTail4, TS.commaTok, TP2.commaTok]

theorem gtail_good (hK : QW2 K) (sets : Option (List (List Expr))) (cube rollup : Bool)
    (hsets : ∀ l, sets = some l → ∀ g ∈ l, (∀ e ∈ g, GE4 d K e) ∧ (∀ e, g = [e] → setElemOK e = true)) :
    Seg ' ' (gtailPieces d sets cube rollup) (toksSetsOpt4 d noX sets ++
      ((if cube then [opTok "WITH", opTok "CUBE"] else []) ++ (if rollup then [opTok "WITH", opTok "ROLLUP"] else []))) ∧
    ∀ x ∈ gtailPieces d sets cube rollup, K.Q x := by
  have w2 : ∀ k, k ∈ q2Words → Lx k.toList [opTok k] ∧ K.Q k.toList := fun k hk => ⟨lx_w2 k hk, hK.ws k hk⟩
  have hW := w2 "WITH" (by simp [q2Words])
  have hS : Seg ' ' (setsPieces d sets) (toksSetsOpt4 d noX sets) ∧ ∀ x ∈ setsPieces d sets, K.Q x := by
    cases sets with
    | none => exact ⟨Seg.nil _, fun x hx => by simp [setsPieces] at hx⟩
    | some l =>
      have hall := hsets l rfl
      have hin : Lx (joinLL [',', ' '] (sets4LL d l)) (toksSets4 d noX l) := by
        rw [sets4LL_eq]
        cases l with
        | nil => simpa [joinLL, toksSets4] using lx_nil
        | cons g r =>
          have := lx_commaList (fun g => setOfL (prList84LL d g)) (toksSet4 d noX) (toksSetsTail4 d noX) (by simp [toksSetsTail4])
            toksSetsTail4_eq r g (set_good g (hall g (by simp)).1 (hall g (by simp)).2).1
            (fun y hy => (set_good y (hall y (by simp [hy])).1 (hall y (by simp [hy])).2).1)
          exact Lx.congr this rfl (by simp [toksSets4])
      have hqin : K.Q (joinLL [',', ' '] (sets4LL d l)) := by
        rw [sets4LL_eq]
        exact K.joinLL2 _ fun y hy => by
          obtain ⟨g, hg, rfl⟩ := List.mem_map.mp hy
          exact (set_good g (hall g hg).1 (hall g hg).2).2
      have a := w2 "GROUPING" (by simp [q2Words]); have b := w2 "SETS" (by simp [q2Words])
      refine ⟨Seg.one _ ?_, fun x hx => ?_⟩
      · exact Lx.congr (Lx.sep a.1 (Lx.sep b.1 (Lx.paren hin))) (by simp [setsPieces]) (by simp [toksSetsOpt4, grp_eq])
      · simp only [setsPieces, List.mem_singleton] at hx
        subst hx
        have := K.sp a.2 (K.sp b.2 (K.paren hqin))
        simpa using this
  have hC : Seg ' ' (if cube then [kwL "WITH" ++ ' ' :: kwL "CUBE"] else []) (if cube then [opTok "WITH", opTok "CUBE"] else []) ∧
      ∀ x ∈ (if cube then [kwL "WITH" ++ ' ' :: kwL "CUBE"] else []), K.Q x := by
    have b := w2 "CUBE" (by simp [q2Words])
    cases cube
    · exact ⟨Seg.nil _, fun x hx => by simp at hx⟩
    · refine ⟨Seg.one _ (Lx.congr (Lx.sep hW.1 b.1) (by simp) (by simp)), fun x hx => ?_⟩
      simp only [if_true, List.mem_singleton] at hx
      subst hx
      simpa using K.sp hW.2 b.2
  have hR : Seg ' ' (if rollup then [kwL "WITH" ++ ' ' :: kwL "ROLLUP"] else []) (if rollup then [opTok "WITH", opTok "ROLLUP"] else []) ∧
      ∀ x ∈ (if rollup then [kwL "WITH" ++ ' ' :: kwL "ROLLUP"] else []), K.Q x := by
    have b := w2 "ROLLUP" (by simp [q2Words])
    cases rollup
    · exact ⟨Seg.nil _, fun x hx => by simp at hx⟩
    · refine ⟨Seg.one _ (Lx.congr (Lx.sep hW.1 b.1) (by simp) (by simp)), fun x hx => ?_⟩
      simp only [if_true, List.mem_singleton] at hx
      subst hx
      simpa using K.sp hW.2 b.2
  refine ⟨Seg.append sp hS.1 (Seg.append sp hC.1 hR.1), fun x hx => ?_⟩
  simp only [gtailPieces, List.mem_append] at hx
  rcases hx with hx | hx | hx
  · exact hS.2 x hx
  · exact hC.2 x hx
  · exact hR.2 x hx

theorem cl_group (hK : QW2 K) (gb : Option GroupBy)
    (hne : ∀ sets cube rollup, gb ≠ some (.mk [] sets cube rollup) ∨ sets ≠ none)
    (hcols : ∀ cols sets cube rollup, gb = some (.mk cols sets cube rollup) → ∀ e ∈ cols, GE4 d K e)
    (hsets : ∀ cols l cube rollup, gb = some (.mk cols (some l) cube rollup) → ∀ g ∈ l, (∀ e ∈ g, GE4 d K e) ∧ (∀ e, g = [e] → setElemOK e = true)) :
    CL K (PR.prOptGroup d gb) (group4LL d gb) (toksGroup4 d noX gb) := by
  cases gb with
  | none => exact ⟨Seg.nil _, rfl, fun x hx => by simp [group4LL] at hx⟩
  | some g =>
    obtain ⟨cols, sets, cube, rollup⟩ := g
    have hc := hcols cols sets cube rollup rfl
    obtain ⟨t1, t2⟩ := gtail_good hK sets cube rollup (fun l hl g hg => by subst hl; exact hsets cols l cube rollup rfl g hg)
    have hkeys : Lx (joinLL [',', ' '] (prList84LL d cols) ++ pc (gtailPieces d sets cube rollup))
        (toksArgs4 d noX 8 cols ++ (toksSetsOpt4 d noX sets ++
          ((if cube then [opTok "WITH", opTok "CUBE"] else []) ++ (if rollup then [opTok "WITH", opTok "ROLLUP"] else [])))) := by
      cases cols with
      | cons e es => exact lx_pc (lx_args8 (e :: es) hc) t1
      | nil =>
        have hs : sets ≠ none := by
          rcases hne sets cube rollup with h | h
          · exact absurd rfl h
          · exact h
        have hp : gtailPieces d sets cube rollup ≠ [] := by
          cases sets with
          | none => exact absurd rfl hs
          | some l => simp [gtailPieces, setsPieces]
        rw [pc_join _ hp]
        simpa [prList84LL, joinLL, toksArgs4] using Lx.blank (t1.lx hp)
    have qkeys : K.Q (joinLL [',', ' '] (prList84LL d cols) ++ pc (gtailPieces d sets cube rollup)) :=
      q_pc K _ t2 _ (q_list8 cols hc)
    refine ⟨?_, ?_, ?_⟩
    · have := lx_kwThen "GROUP" (by simp [clauseWords]) (lx_kwThen "BY" (by simp [clauseWords]) hkeys)
      exact Seg.one _ (Lx.congr this (by simp only [group4LL, groupL_eq]) (by simp [toksGroup4]))
    · have hps : (match sets with
          | some l => (PR.prSets d l).map fun x => " GROUPING SETS (" ++ PR.joinS ", " x ++ ")"
          | none => (pure "" : PR.P)) = .ok (String.ofList (setsOpt4L d sets)) := by
        cases sets with
        | none => rfl
        | some l =>
          have := pr_sets (K := K) l (fun g hg => (hsets cols l cube rollup rfl g hg).1)
          simp only [this, Except.map, setsOpt4L, setsOptL]
          refine congrArg Except.ok ?_
          apply ofList_eq
          have e3 : (", " : String).toList = [',', ' '] := rfl
          simp [String.toList_append, toList_joinS, map_map_ofList, e3]
      have hpl := pr_list8 cols hc
      cases sets with
      | none =>
        simp only [PR.prOptGroup, PR.prGroupBy, hpl, bind, Except.bind, pure, Except.pure, Except.map, group4LL, List.map_cons, List.map_nil]
        refine congrArg Except.ok ?_
        congr 1
        apply ofList_eq
        have e3 : (", " : String).toList = [',', ' '] := rfl
        cases cube <;> cases rollup <;>
          simp [toString, String.toList_append, toList_joinS, map_map_ofList, e3, groupL, setsOpt4L]
      | some l =>
        have := pr_sets (K := K) l (fun g hg => (hsets cols l cube rollup rfl g hg).1)
        simp only [PR.prOptGroup, PR.prGroupBy, hpl, this, bind, Except.bind, pure, Except.pure, Except.map, group4LL, List.map_cons, List.map_nil]
        refine congrArg Except.ok ?_
        congr 1
        apply ofList_eq
        have e3 : (", " : String).toList = [',', ' '] := rfl
        cases cube <;> cases rollup <;>
          simp [toString, String.toList_append, toList_joinS, map_map_ofList, e3, groupL, setsOpt4L, setsOptL]
    · intro x hx
      simp only [group4LL, List.mem_singleton] at hx
      subst hx
      rw [groupL_eq]
      exact K.sp (K.word "GROUP" (mem_cw (by simp [clauseWords]))) (K.sp (K.word "BY" (mem_cw (by simp [clauseWords]))) qkeys)

end
end LL2
