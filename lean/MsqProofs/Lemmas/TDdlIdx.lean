import MsqProofs.Lemmas.TDdlDef
/-!
# T-parse for CREATE TABLE: keys (`PRIMARY KEY`, `UNIQUE KEY`, `KEY`, `FULLTEXT KEY`) and `TBLPROPERTIES` entries (C18 / C03)
-/
set_option linter.unusedVariables false
set_option linter.unusedSimpArgs false
set_option maxHeartbeats 1000000
open Lex PM Ast TP TS
namespace TD

theorem popInt_ok (n : Int) (h : intOK n = true) (r : List Tok) : popInt (intTok n :: r) = .ok (n, r) := by
  simp only [intOK, Bool.and_eq_true, isOkInt] at h
  unfold popInt
  cases hp : pyInt (intTok n).src with
  | error e => rw [hp] at h; simp at h
  | ok m =>
    rw [hp] at h
    have : m = n := by simpa using h.2
    subst this
    simp only [hp]

theorem commaFree_idxCol (c : IndexCol) : noComma (toksIdxCol c) = true := by
  unfold toksIdxCol noComma
  cases c.maxLen with
  | none => simp only [List.all_cons, List.all_nil, Bool.and_true, Bool.not_eq_true']; exact equalsStr_nameTok _ _ (by decide)
  | some n =>
    simp only [List.all_cons, List.all_nil, Bool.and_true, Bool.and_eq_true, Bool.not_eq_true']
    exact ⟨equalsStr_nameTok _ _ (by decide), rfl⟩
theorem segsOK_idxCols (cs : List IndexCol) : segsOK (cs.map toksIdxCol) = true := by
  simp only [segsOK, List.all_map, List.all_eq_true]
  intro c hc
  simp only [Function.comp, Bool.and_eq_true, Bool.not_eq_true']
  exact ⟨rfl, commaFree_idxCol c⟩

theorem pIndexCol_ok (c : IndexCol) (hc : idxColOK c = true) : pIndexCol (toksIdxCol c) = .ok (c, []) := by
  obtain ⟨n, ml⟩ := c
  simp only [idxColOK, Bool.and_eq_true, nameOK, beq_iff_eq] at hc
  cases ml with
  | none =>
    simp only [toksIdxCol, pIndexCol, popSrc, hc.1]
    rfl
  | some m =>
    simp only [toksIdxCol, pIndexCol, popSrc, hc.1]
    kw_simp
    simp only [popInt_ok m hc.2 [], closed]

theorem pIndexCols_ok (cs : List IndexCol) (hc : cs.all idxColOK = true) (r : List Tok) :
    pIndexCols (grp (sepAll (cs.map toksIdxCol)) :: r) = .ok (cs, r) := by
  unfold pIndexCols
  kw_simp
  rw [splitBy_sepAll _ (segsOK_idxCols cs),
    eachClosed_id pIndexCol toksIdxCol cs (fun c hcm => pIndexCol_ok c (List.all_eq_true.1 hc c hcm))]

/-- the shared tail of the four key parsers on a printed key -/
theorem pIndexTail_ok (i : Index) (hc : i.cols.all idxColOK = true) (hk : optIntOK i.keyBlockSize = true) (kind : IndexKind)
    (name : Option String) :
    pIndexTail kind name (toksIdxTail i) = .ok (⟨kind, name, i.cols, i.usingMethod, i.comment, i.keyBlockSize⟩, []) := by
  obtain ⟨k0, n0, cols, um, cm, kbs⟩ := i
  simp only [toksIdxTail, pIndexTail, pIndexCols_ok cols hc]
  cases um <;> cases cm <;> cases kbs <;> simp only [optKw, toksKbs, pOptSrc] <;> kw_simp <;>
    (try simp only [popInt_ok _ hk []])

theorem kind_beq {a b : IndexKind} (h : (a == b) = true) : a = b := by cases a <;> cases b <;> first | rfl | exact absurd h (by decide)

theorem primary_line (i : Index) (h : idxOK .primary i = true) : closed (pPrimaryIndex (toksIndex i)) = .ok i := by
  obtain ⟨k0, n0, cols, um, cm, kbs⟩ := i
  simp only [idxOK, Bool.and_eq_true, beq_self_eq_true, if_true, Option.isNone_iff_eq_none] at h
  obtain ⟨⟨⟨hk, hn⟩, hc⟩, hb⟩ := h
  have hk' := kind_beq hk
  subst hk' hn
  have := pIndexTail_ok ⟨.primary, none, cols, um, cm, kbs⟩ hc hb .primary none
  simp only at this
  simp only [toksIndex, kindToks, toksIdxName, pPrimaryIndex]
  kw_simp
  simp only [this, closed]

theorem named_line (k : IndexKind) (kws : List String) (i : Index) (h : idxOK k i = true) (hk : k ≠ .primary)
    (hm : ∀ r, matchSeq (kindToks k ++ r) kws = .ok ((), r)) : closed (pNamedIndex k kws (toksIndex i)) = .ok i := by
  have hkb : (k == IndexKind.primary) = false := by cases k <;> first | rfl | exact absurd rfl hk
  obtain ⟨k0, n0, cols, um, cm, kbs⟩ := i
  simp only [idxOK, Bool.and_eq_true, hkb, Bool.false_eq_true, if_false, Option.isSome_iff_exists] at h
  obtain ⟨⟨⟨hk1, n, hn⟩, hc⟩, hb⟩ := h
  have hk' := kind_beq hk1
  subst hk' hn
  have := pIndexTail_ok ⟨k0, some n, cols, um, cm, kbs⟩ hc hb k0 (some n)
  simp only at this
  simp only [toksIndex, toksIdxName, pNamedIndex, hm, List.cons_append, List.nil_append, popSrc, src_srcTok, this, closed]

theorem unique_line (i : Index) (h : idxOK .unique i = true) : closed (pUniqueIndex (toksIndex i)) = .ok i :=
  named_line .unique _ i h (by decide) (by intro r; simp only [kindToks]; kw_simp)
theorem normal_line (i : Index) (h : idxOK .normal i = true) : closed (pNormalIndex (toksIndex i)) = .ok i :=
  named_line .normal _ i h (by decide) (by intro r; simp only [kindToks]; kw_simp)
theorem fulltext_line (i : Index) (h : idxOK .fulltext i = true) : closed (pFulltextIndex (toksIndex i)) = .ok i :=
  named_line .fulltext _ i h (by decide) (by intro r; simp only [kindToks]; kw_simp)

/-- the head of a key line -/
theorem toksIndex_head (i : Index) : ∃ r, toksIndex i = kindToks i.kind ++ r := ⟨_, rfl⟩

/-! ### foreign keys -/
theorem pNameList_ok (ns : List String) (h : segsOK (ns.map fun n => [srcTok n]) = true) (r : List Tok) :
    pNameList (toksNames ns :: r) = .ok (ns, r) := by
  unfold pNameList toksNames
  kw_simp
  rw [splitBy_sepAll _ h, eachClosed_id popSrc (fun n => [srcTok n]) ns (fun n _ => by simp [popSrc, src_srcTok])]

theorem pFkAction_ok (s : String) (h : actOK (some s) = true) (r : List Tok) : pFkAction (actToks s ++ r) = .ok (s, r) := by
  simp only [actOK, List.contains_cons, List.contains_nil, Bool.or_false, Bool.or_eq_true, beq_iff_eq] at h
  rcases h with rfl | rfl | rfl | rfl <;> simp only [actToks, pFkAction] <;> kw_simp

theorem pOptFkAction_some (b : String) (s : String) (h : actOK (some s) = true) (r : List Tok) (hb : up b = b) :
    pOptFkAction (toksFkAct b (some s) ++ r) "ON" b = .ok (some s, r) := by
  simp only [toksFkAct, pOptFkAction]
  kw_simp
  simp only [hb, beq_self_eq_true, and_self, if_true, pFkAction_ok s h r]

theorem fk_line (k : ForeignKey) (h : fkOK k = true) : closed (pForeignKey (toksFk k)) = .ok k := by
  obtain ⟨cn, sl, ms, mc, od, ou⟩ := k
  simp only [fkOK, Bool.and_eq_true] at h
  obtain ⟨⟨⟨h1, h2⟩, h3⟩, h4⟩ := h
  simp only [toksFk, pForeignKey]
  kw_simp
  simp only [pNameList_ok sl h1]
  kw_simp
  simp only [pNameList_ok mc h2]
  have hD : up "DELETE" = "DELETE" := by decide
  have hU : up "UPDATE" = "UPDATE" := by decide
  cases od with
  | none =>
    cases ou with
    | none => simp only [toksFkAct, List.append_nil, pOptFkAction, searchTwoUp, closed]; rfl
    | some u =>
      have e1 : pOptFkAction (toksFkAct "DELETE" none ++ toksFkAct "UPDATE" (some u)) "ON" "DELETE" =
          .ok (none, toksFkAct "UPDATE" (some u)) := by
        simp only [toksFkAct, List.nil_append, pOptFkAction]; kw_simp
      have e2 := pOptFkAction_some "UPDATE" u h4 [] hU
      rw [List.append_nil] at e2
      simp only [e1, e2, closed]
  | some dl =>
    have e1 := pOptFkAction_some "DELETE" dl h3 (toksFkAct "UPDATE" ou) hD
    cases ou with
    | none =>
      have e2 : pOptFkAction (toksFkAct "UPDATE" none) "ON" "UPDATE" = .ok (none, []) := by
        simp only [toksFkAct, pOptFkAction, searchTwoUp]; rfl
      simp only [e1, e2, closed]
    | some u =>
      have e2 := pOptFkAction_some "UPDATE" u h4 [] hU
      rw [List.append_nil] at e2
      simp only [e1, e2, closed]

/-! ### `TBLPROPERTIES` entries -/
theorem pConfigStrExpr_ok (p : ConfigStr) : pConfigStrExpr (toksProp p) = .ok (p, []) := by
  obtain ⟨a, v⟩ := p
  simp only [toksProp, pConfigStrExpr, pConfigString, popSrc, src_srcTok, List.length_cons, List.length_nil, configStringLoop, eqTok]
  kw_simp

end TD
