import MsqProofs.Lemmas.ParseCase3
/-!
# C09, parser half — hand-written part 5: the second `split_run`, `match(*tokens)`, table look-ups by a token
-/
set_option linter.unusedSimpArgs false
set_option linter.unusedVariables false
set_option maxHeartbeats 1000000
open Lex Ast
namespace PM

set_option hygiene false in
/-- split the hypothesis `h'` about the SECOND run completely (as C08's `split_run` does for `h`) -/
macro "split_run'" : tactic =>
  `(tactic| repeat' (first | split at h' | (with_reducible have h'' := ite_split h'); clear h'; rcases h'' with ⟨hc', h'⟩ | ⟨hc', h'⟩))

theorem matchSeq_ce : ∀ (ks : List String) (ts ts' : List Tok), CEL ts ts' → CER Eq (matchSeq ts ks) (matchSeq ts' ks) := by
  intro ks
  induction ks with
  | nil => intro ts ts' h; simp [matchSeq, h]
  | cons k ks ih =>
    intro ts ts' h
    cases ts <;> cases ts' <;> simp_all [matchSeq]
    rw [ce_equalsStr h.1 k]
    split
    · exact ih _ _ h.2
    · simp
theorem matchSeq_ce' {ts ts' : List Tok} (h : CEL ts ts') (ks : List String) : CER Eq (matchSeq ts ks) (matchSeq ts' ks) := matchSeq_ce ks ts ts' h
grind_pattern matchSeq_ce' => CEL ts ts', matchSeq ts ks

/-- `EnumCastDataType`: the member whose word the token is (case-insensitively) -/
theorem ce_castTypes {t t' : Tok} (h : CE t t') :
    Gen.castTypes.find? (fun k => t.equalsStr k.2) = Gen.castTypes.find? (fun k => t'.equalsStr k.2) := by
  have : (fun k : String × String => t.equalsStr k.2) = (fun k => t'.equalsStr k.2) := by
    funext k; exact ce_equalsStr h k.2
  rw [this]
grind_pattern ce_castTypes => CE t t', Gen.castTypes.find? (fun k => t.equalsStr k.2)

end PM
