import Lean
import MsqProofs.Lemmas.ParseCase3
/-!
# C09, parser half — hand-written part 5: the second `split_run`, `match(*tokens)`, table look-ups by a token
-/
set_option linter.unusedSimpArgs false
set_option linter.unusedVariables false
set_option maxHeartbeats 1000000
open Lex Ast
namespace PM

set_option hygiene false in
/-- split the hypothesis `h'` about the SECOND run completely (as C08's `split_run` does for `h`) -/
macro "split_run'" : tactic =>
  `(tactic| repeat' (first | split at h' | (with_reducible have h'' := ite_split h'); clear h'; rcases h'' with ⟨hc', h'⟩ | ⟨hc', h'⟩))

open Lean Elab Tactic Meta in
/-- lockstep: after the first run has been split, the SHAPE of its cursor is known; a hypothesis `CEL (t :: ts) ys` / `CEL [] ys` with `ys`
a variable forces the shape of the second cursor.  Doing this before the second run is split removes the impossible pairs of paths
early (and the negative hypotheses `∀ b c r, ys = b :: c :: r → False` that overlapping patterns would leave behind). -/
elab "cel_sync" : tactic => do
  for _ in [0:64] do
    let g ← getMainGoal
    let found ← g.withContext do
      let mut res : Option (FVarId × Nat) := none
      for ld in ← getLCtx do
        if ld.isImplementationDetail then continue
        let ty ← instantiateMVars ld.type
        if ty.isAppOfArity ``PM.CEL 2 then
          let a := ty.getArg! 0; let b := ty.getArg! 1
          if b.isFVar then
            if a.isAppOfArity ``List.cons 3 then res := some (ld.fvarId, 0)
            else if a.isAppOfArity ``List.nil 1 then res := some (ld.fvarId, 1)
          else if a.isFVar then
            if b.isAppOfArity ``List.cons 3 then res := some (ld.fvarId, 2)
            else if b.isAppOfArity ``List.nil 1 then res := some (ld.fvarId, 3)
      return res
    match found with
    | none => return
    | some (fv, k) =>
      let stx ← g.withContext (Term.exprToSyntax (mkFVar fv))
      if k == 0 then
        evalTactic (← `(tactic| (obtain ⟨_, _, hEq, _, _⟩ := PM.cel_cons_left $stx; subst hEq)))
      else if k == 1 then
        evalTactic (← `(tactic| (have hnil := PM.cel_nil_left $stx; subst hnil)))
      else if k == 2 then
        evalTactic (← `(tactic| (obtain ⟨_, _, hEq, _, _⟩ := PM.cel_cons_right $stx; subst hEq)))
      else
        evalTactic (← `(tactic| (have hnil := PM.cel_nil_right $stx; subst hnil)))

open Lean Elab Tactic Meta in
/-- take every conjunction among the hypotheses apart -/
elab "split_ands" : tactic => do
  for _ in [0:64] do
    let g ← getMainGoal
    let found ← g.withContext do
      let mut res : Option FVarId := none
      for ld in ← getLCtx do
        if ld.isImplementationDetail then continue
        let ty ← instantiateMVars ld.type
        if ty.isAppOfArity ``And 2 then res := some ld.fvarId
      return res
    match found with
    | none => return
    | some fv =>
      let stx ← g.withContext (Term.exprToSyntax (mkFVar fv))
      evalTactic (← `(tactic| obtain ⟨hA, hB⟩ := $stx))

/-- after a `split`: equations between cons cells are taken apart and substituted; a negative hypothesis left by overlapping patterns
(`∀ b c r, xs = b :: c :: r → False`) whose cursor has become explicit is discharged -/
macro "ce_norm" : tactic =>
  `(tactic| ((try simp only [List.cons.injEq, reduceCtorEq, and_imp, forall_eq', forall_eq, imp_false, not_true_eq_false, false_imp_iff,
      imp_self, forall_const] at *) <;> split_ands <;> (try subst_vars)))

/-- the shape of an optional argument is the same on both sides -/
theorem optmap_isNone {α β : Type} (f : α → β) (a b : Option α) (h : ceq (Option.map f) a b) : a.isNone = b.isNone := by
  cases a <;> cases b <;> simp_all
grind_pattern optmap_isNone => ceq (Option.map f) a b, a.isNone
theorem optmap_shape {α β : Type} (f : α → β) (a b : Option α) (h : ceq (Option.map f) a b) :
    (a = none ∧ b = none) ∨ (∃ x y, a = some x ∧ b = some y ∧ f x = f y) := by
  cases a <;> cases b <;> simp_all
grind_pattern optmap_shape => ceq (Option.map f) a b
/-- `upAll` does not change the constructor: what `_parse_table_expression` inspects -/
theorem upE_subQuery_inv (x : Expr) (q0 : Query) (h : upE x = .subQuery q0) : ∃ q, x = .subQuery q := by
  cases x <;> simp [upE] at h; exact ⟨_, rfl⟩
grind_pattern upE_subQuery_inv => upE x, Expr.subQuery q0
theorem upTR_table_inv (x : TableRef) (s0 : Option String) (n0 : String) (h : upTR x = .table s0 n0) : ∃ s n, x = .table s n := by
  cases x <;> simp [upTR] at h; exact ⟨_, _, rfl⟩
grind_pattern upTR_table_inv => upTR x, TableRef.table s0 n0
theorem upTR_sub_inv (x : TableRef) (q0 : Query) (h : upTR x = .sub q0) : ∃ q, x = .sub q := by
  cases x <;> simp [upTR] at h; exact ⟨_, rfl⟩
grind_pattern upTR_sub_inv => upTR x, TableRef.sub q0

theorem matchSeq_ce : ∀ (ks : List String) (ts ts' : List Tok), CEL ts ts' → CER Eq (matchSeq ts ks) (matchSeq ts' ks) := by
  intro ks
  induction ks with
  | nil => intro ts ts' h; simp [matchSeq, h]
  | cons k ks ih =>
    intro ts ts' h
    cases ts <;> cases ts' <;> simp_all [matchSeq]
    rw [ce_equalsStr h.1 k]
    split
    · exact ih _ _ h.2
    · simp
theorem matchSeq_ce' {ts ts' : List Tok} (h : CEL ts ts') (ks : List String) : CER Eq (matchSeq ts ks) (matchSeq ts' ks) := matchSeq_ce ks ts ts' h
grind_pattern matchSeq_ce' => CEL ts ts', matchSeq ts ks

/-- `EnumCastDataType`: the member whose word the token is (case-insensitively) -/
theorem ce_castTypes {t t' : Tok} (h : CE t t') :
    Gen.castTypes.find? (fun k => t.equalsStr k.2) = Gen.castTypes.find? (fun k => t'.equalsStr k.2) := by
  have : (fun k : String × String => t.equalsStr k.2) = (fun k => t'.equalsStr k.2) := by
    funext k; exact ce_equalsStr h k.2
  rw [this]
grind_pattern ce_castTypes => CE t t', Gen.castTypes.find? (fun k => t.equalsStr k.2)

end PM
