import MsqProofs.Lemmas.ParseSubstStmt2
import MsqModel.Parse.Entry2
/-!
# C06, parser half — derived from `ParseCase8.lean` — part 10: the functions behind the other 26 public entry points (`MsqModel/Parse/Entry2.lean`)
on two related cursors (same proof pattern as the generated files)
-/
set_option linter.unusedVariables false
set_option linter.unusedSectionVars false
set_option linter.unusedSimpArgs false
set_option maxHeartbeats 4000000
open Lex PM Ast
namespace PMQ
variable [S : PaySet]

theorem pJoinType_qe : ∀ x0 y0, QEL x0 y0 → QER Eq (pJoinType x0) (pJoinType y0) := by
  intro x0 y0 hr0
  generalize h : pJoinType x0 = res
  generalize h' : pJoinType y0 = res'
  unfold pJoinType at h h'
  (try dsimp only at h h') <;> split_run <;> qel_sync <;> split_runq <;> qe_norm <;> qel_sync <;> qe_norm <;> (try simp only [strEq_fold] at *) <;> grind -funext (gen := 40) (instances := 20000) (ematch := 30) [erE, erO, erTR, erFT, erJR, erLat, erW]
theorem pUnionType_qe : ∀ x0 y0, QEL x0 y0 → QER Eq (pUnionType x0) (pUnionType y0) := by
  intro x0 y0 hr0
  generalize h : pUnionType x0 = res
  generalize h' : pUnionType y0 = res'
  unfold pUnionType at h h'
  (try dsimp only at h h') <;> split_run <;> qel_sync <;> split_runq <;> qe_norm <;> qel_sync <;> qe_norm <;> (try simp only [strEq_fold] at *) <;> grind -funext (gen := 40) (instances := 20000) (ematch := 30) [erE, erO, erTR, erFT, erJR, erLat, erW]
theorem pOrderType_qe : ∀ x0 y0, QEL x0 y0 → QER Eq (pOrderType x0) (pOrderType y0) := by
  intro x0 y0 hr0
  generalize h : pOrderType x0 = res
  generalize h' : pOrderType y0 = res'
  unfold pOrderType at h h'
  (try dsimp only at h h') <;> split_run <;> qel_sync <;> split_runq <;> qe_norm <;> qel_sync <;> qe_norm <;> (try simp only [strEq_fold] at *) <;> grind -funext (gen := 40) (instances := 20000) (ematch := 30) [erE, erO, erTR, erFT, erJR, erLat, erW]
theorem pCompareOp_qe : ∀ x0 y0, QEL x0 y0 → QER Eq (pCompareOp x0) (pCompareOp y0) := by
  intro x0 y0 hr0
  generalize h : pCompareOp x0 = res
  generalize h' : pCompareOp y0 = res'
  unfold pCompareOp at h h'
  (try dsimp only at h h') <;> split_run <;> qel_sync <;> split_runq <;> qe_norm <;> qel_sync <;> qe_norm <;> (try simp only [strEq_fold] at *) <;> grind -funext (gen := 40) (instances := 20000) (ematch := 30) [erE, erO, erTR, erFT, erJR, erLat, erW]
theorem pComputeOp_qe : ∀ x0 y0, QEL x0 y0 → QER Eq (pComputeOp x0) (pComputeOp y0) := by
  intro x0 y0 hr0
  generalize h : pComputeOp x0 = res
  generalize h' : pComputeOp y0 = res'
  unfold pComputeOp at h h'
  (try dsimp only at h h') <;> split_run <;> qel_sync <;> split_runq <;> qe_norm <;> qel_sync <;> qe_norm <;> (try simp only [strEq_fold] at *) <;> grind -funext (gen := 40) (instances := 20000) (ematch := 30) [erE, erO, erTR, erFT, erJR, erLat, erW]
theorem pCastDataType_qe : ∀ x0 y0, QEL x0 y0 → QER Eq (pCastDataType x0) (pCastDataType y0) := by
  intro x0 y0 hr0
  generalize h : pCastDataType x0 = res
  generalize h' : pCastDataType y0 = res'
  unfold pCastDataType at h h'
  (try dsimp only at h h') <;> split_run <;> qel_sync <;> split_runq <;> qe_norm <;> qel_sync <;> qe_norm <;> (try simp only [strEq_fold] at *) <;> grind -funext (gen := 40) (instances := 20000) (ematch := 30) [erE, erO, erTR, erFT, erJR, erLat, erW]
theorem pWildcard_qe : ∀ x0 y0, QEL x0 y0 → QER (qeq (Option.map er)) (pWildcard x0) (pWildcard y0) := by
  intro x0 y0 hr0
  generalize h : pWildcard x0 = res
  generalize h' : pWildcard y0 = res'
  unfold pWildcard at h h'
  (try dsimp only at h h') <;> split_run <;> qel_sync <;> split_runq <;> qe_norm <;> qel_sync <;> qe_norm <;> (try simp only [strEq_fold] at *) <;> grind -funext (gen := 40) (instances := 20000) (ematch := 30) [erE, erO, erTR, erFT, erJR, erLat, erW]
theorem pJoinOn_qe (d : Gen.D) (f : Nat) : ∀ x0 y0, QEL x0 y0 → QER (qeq erJR) (pJoinOn d f x0) (pJoinOn d f y0) := by
  intro x0 y0 hr0
  generalize h : pJoinOn d f x0 = res
  generalize h' : pJoinOn d f y0 = res'
  unfold pJoinOn at h h'
  (try dsimp only at h h') <;> split_run <;> qel_sync <;> split_runq <;> qe_norm <;> qel_sync <;> qe_norm <;> (try simp only [strEq_fold] at *) <;> grind -funext (gen := 40) (instances := 20000) (ematch := 30) [erE, erO, erTR, erFT, erJR, erLat, erW]
grind_pattern pJoinOn_qe => pJoinOn d f x0, pJoinOn d f y0
theorem pJoinUsing_qe (d : Gen.D) (f : Nat) : ∀ x0 y0, QEL x0 y0 → QER (qeq erJR) (pJoinUsing d f x0) (pJoinUsing d f y0) := by
  intro x0 y0 hr0
  generalize h : pJoinUsing d f x0 = res
  generalize h' : pJoinUsing d f y0 = res'
  unfold pJoinUsing at h h'
  (try dsimp only at h h') <;> split_run <;> qel_sync <;> split_runq <;> qe_norm <;> qel_sync <;> qe_norm <;> (try simp only [strEq_fold] at *) <;> grind -funext (gen := 40) (instances := 20000) (ematch := 30) [erE, erO, erTR, erFT, erJR, erLat, erW]
grind_pattern pJoinUsing_qe => pJoinUsing d f x0, pJoinUsing d f y0
theorem pJoinExpr_qe (d : Gen.D) (f : Nat) : ∀ x0 y0, QEL x0 y0 → QER (qeq erJR) (pJoinExpr d f x0) (pJoinExpr d f y0) := by
  intro x0 y0 hr0
  generalize h : pJoinExpr d f x0 = res
  generalize h' : pJoinExpr d f y0 = res'
  unfold pJoinExpr at h h'
  (try dsimp only at h h') <;> split_run <;> qel_sync <;> split_runq <;> qe_norm <;> qel_sync <;> qe_norm <;> (try simp only [strEq_fold] at *) <;> grind -funext (gen := 40) (instances := 20000) (ematch := 30) [erE, erO, erTR, erFT, erJR, erLat, erW]
theorem pSelectClause_qe (d : Gen.D) (f : Nat) : ∀ x0 y0, QEL x0 y0 →
    QER (qeq (Prod.map id (List.map (Prod.map erE (Option.map er))))) (pSelectClause d f x0) (pSelectClause d f y0) := by
  intro x0 y0 hr0
  generalize h : pSelectClause d f x0 = res
  generalize h' : pSelectClause d f y0 = res'
  unfold pSelectClause at h h'
  (try dsimp only at h h') <;> split_run <;> qel_sync <;> split_runq <;> qe_norm <;> qel_sync <;> qe_norm <;> (try simp only [strEq_fold] at *) <;> grind -funext (gen := 40) (instances := 20000) (ematch := 30) [erE, erO, erTR, erFT, erJR, erLat, erW]

end PMQ
