import MsqProofs.Props.C03T
import MsqModel.Convert
/-!
# T-parse for CREATE TABLE, base definitions (C18 / C03 / C01)

* `toksCreate d c` — the TOKEN-level printer of a table definition: what `PR.prCreateMysql c` (for `d = MYSQL`) resp.
  `PR.prCreateHive c` (every other dialect; the printer itself only serves HIVE) prints, as the tokens the lexer makes of it:
  `CREATE TABLE [IF NOT EXISTS]`, ONE back-quoted NAME token for the (schema-qualified) table name (`tableNameSrc`), one PARENTHESIS
  group holding the comma-separated lines (column definitions, then — MySQL — `PRIMARY KEY`, `UNIQUE KEY`s, `KEY`s, `FULLTEXT KEY`s,
  `CONSTRAINT … FOREIGN KEY`s),
  then the table options in the printer's order.  A column definition is: back-quoted name, type word, a group with the
  comma-separated parameters, each bracketed when above the compute level (dropped by the Hive printer outside DECIMAL / VARCHAR / CHAR: `hiveDrops`), the attributes in the order
  of `prDefCol` (MySQL only: UNSIGNED, ZEROFILL, CHARACTER SET s, COLLATE s, GENERATED ALWAYS AS (e) mode, NULL, NOT NULL,
  AUTO_INCREMENT, DEFAULT e, ON UPDATE e),
  `COMMENT s`.  Strings the tree stores as raw source (comments, charset names, engine …) are one token `srcTok s`.
  The link `lex (prStmt d (.createTable c)) = toksCreate d c` is the lexer's business; it is checked by compiled evaluation
  (`#guard`s in `MsqProofs/Props/C18T.lean`).
* `FragCreate d c` — the fragment (a `Bool`), see `MsqProofs/Props/C18T.lean`.
* `hiveProj c` — what the Hive DDL of `c` can state: every MySQL-only attribute, key and option dropped, type parameters kept only
  where Hive has them; `toksCreate HIVE c = toksCreate HIVE (hiveProj c)`.
-/
set_option linter.unusedVariables false
set_option linter.unusedSimpArgs false
open Lex PM Ast TP TS
namespace TD

/-! ### tokens -/
/-- the marks the lexer gives a token with source `s`: integer, quoted string, back-quoted name, word / symbol -/
def srcMark (s : String) : Nat :=
  if isDigits s then LITERAL ||| Gen.mark_LITERAL_INT
  else if s.toList.head? == some '\'' || s.toList.head? == some '"' then LITERAL ||| NAME
  else if s.toList.head? == some '`' then NAME
  else wordMark s
/-- a raw-source string of the tree (comment, charset, engine, index name …) as one leaf -/
def srcTok (s : String) : Tok := .single s.toList (srcMark s)
def eqTok : Tok := opTok "="
/-- `tableNameSrc` without the back-quotes -/
def tblStr (t : TableName) : String := match t.schema with | some s => s ++ "." ++ t.name | none => t.name
def tblTok (t : TableName) : Tok := nameTok (tblStr t)

/-- comma-separated segments -/
def sepTail : List (List Tok) → List Tok
  | [] => []
  | s :: r => commaTok :: (s ++ sepTail r)
def sepAll : List (List Tok) → List Tok
  | [] => []
  | s :: r => s ++ sepTail r

variable (d : Gen.D)

/-- the Hive printer drops the parameters of this type (`node.py:1361`) -/
def hiveDrops (t : ColType) : Bool := d == .HIVE && !(["DECIMAL", "VARCHAR", "CHAR"].contains (Gen.pyUpperS t.name))
def toksParams (t : ColType) : List Tok :=
  match t.params with
  | none => []
  | some ps => if hiveDrops d t then [] else [grp (sepAll (ps.map fun e => W d noX e 8))]
def toksType (t : ColType) : List Tok := opTok t.name :: toksParams d t
def toksComment : Option String → List Tok
  | some s => [opTok "COMMENT", srcTok s]
  | none => []
def flag (b : Bool) (ts : List Tok) : List Tok := if b then ts else []
def toksDefault : Option Expr → List Tok
  | some e => opTok "DEFAULT" :: W d noX e 8
  | none => []
def toksOnUpdate : Option Expr → List Tok
  | some e => opTok "ON" :: opTok "UPDATE" :: W d noX e 8
  | none => []
def toksCharset : Option String → List Tok
  | some s => [opTok "CHARACTER", opTok "SET", srcTok s]
  | none => []
def toksCollate : Option String → List Tok
  | some s => [opTok "COLLATE", srcTok s]
  | none => []
/-- `GENERATED ALWAYS AS (e) VIRTUAL|STORED` -/
def toksGenerated : Option GenCol → List Tok
  | some ⟨e, some m⟩ => [opTok "GENERATED", opTok "ALWAYS", opTok "AS", grp (W d noX e 8), srcTok m]
  | _ => []
/-- the MySQL-only attributes, in the order of `prDefCol` -/
def toksMyAttrs (c : DefCol) (tail : List Tok) : List Tok :=
  flag c.unsigned [opTok "UNSIGNED"] ++ (flag c.zerofill [opTok "ZEROFILL"] ++ (toksCharset c.charset ++ (toksCollate c.collate ++
    (toksGenerated d c.generated ++ (flag c.allowNull [opTok "NULL"] ++ (flag c.notNull [opTok "NOT", opTok "NULL"] ++ (flag c.autoInc [opTok "AUTO_INCREMENT"] ++
      (toksDefault d c.default ++ (toksOnUpdate d c.onUpdate ++ tail)))))))))
def toksAttrs (c : DefCol) : List Tok :=
  if d == .MYSQL then toksMyAttrs d c (toksComment c.comment) else toksComment c.comment
def toksDefCol (c : DefCol) : List Tok := nameTok c.name :: (toksType d c.type ++ toksAttrs d c)

def toksIdxCol (c : IndexCol) : List Tok :=
  nameTok c.name :: (match c.maxLen with | none => [] | some n => [grp [intTok n]])
def kindToks : IndexKind → List Tok
  | .primary => [opTok "PRIMARY", opTok "KEY"]
  | .unique => [opTok "UNIQUE", opTok "KEY"]
  | .normal => [opTok "KEY"]
  | .fulltext => [opTok "FULLTEXT", opTok "KEY"]
def optKw (kw : String) : Option String → List Tok
  | some s => [opTok kw, srcTok s]
  | none => []
def toksKbs : Option Int → List Tok
  | some n => [opTok "KEY_BLOCK_SIZE", eqTok, intTok n]
  | none => []
def toksIdxName : Option String → List Tok
  | some n => [srcTok n]
  | none => []
/-- what follows the key words and the name: the column group and `USING … COMMENT … KEY_BLOCK_SIZE=n` -/
def toksIdxTail (i : Index) : List Tok :=
  grp (sepAll (i.cols.map toksIdxCol)) :: (optKw "USING" i.usingMethod ++ (optKw "COMMENT" i.comment ++ toksKbs i.keyBlockSize))
def toksIndex (i : Index) : List Tok := kindToks i.kind ++ (toksIdxName i.name ++ toksIdxTail i)

/-- a foreign-key action as `_parse_foreign_key_action` stores it -/
def actToks (s : String) : List Tok :=
  if s == "NO ACTION" then [opTok "NO", opTok "ACTION"] else if s == "SET NULL" then [opTok "SET", opTok "NULL"] else [opTok s]
def toksFkAct (b : String) : Option String → List Tok
  | some s => opTok "ON" :: opTok b :: actToks s
  | none => []
/-- a bracketed list of raw names -/
def toksNames (ns : List String) : Tok := grp (sepAll (ns.map fun n => [srcTok n]))
/-- `ASTForeignKeyExpression.source` -/
def toksFk (k : ForeignKey) : List Tok :=
  opTok "CONSTRAINT" :: srcTok k.constraint :: opTok "FOREIGN" :: opTok "KEY" :: toksNames k.slave :: opTok "REFERENCES" ::
    srcTok k.master :: toksNames k.masterCols :: (toksFkAct "DELETE" k.onDelete ++ toksFkAct "UPDATE" k.onUpdate)

def optList {α : Type} : Option α → List α | some a => [a] | none => []
/-- the lines inside the bracket of CREATE TABLE -/
def toksLines (c : CreateTable) : List (List Tok) :=
  c.columns.map (toksDefCol d) ++
    (if d == .MYSQL then
      (optList c.primaryKey).map toksIndex ++ (c.uniqueKey.map toksIndex ++ (c.key.map toksIndex ++
        (c.fulltextKey.map toksIndex ++ c.foreignKey.map toksFk)))
     else [])

/-- `KW=s` (MySQL) -/
def optEq (kws : List Tok) : Option String → List Tok
  | some s => kws ++ [eqTok, srcTok s]
  | none => []
/-- `KW s` (Hive) -/
def optSp (kws : List Tok) : Option String → List Tok
  | some s => kws ++ [srcTok s]
  | none => []
def toksAutoInc : Option Int → List Tok
  | some n => [opTok "AUTO_INCREMENT", eqTok, intTok n]
  | none => []
def toksMyOpts (c : CreateTable) : List Tok :=
  optEq [opTok "ENGINE"] c.engine ++ (toksAutoInc c.autoIncrement ++ (optEq [opTok "DEFAULT", opTok "CHARSET"] c.defaultCharset ++
    (optEq [opTok "COLLATE"] c.collate ++ (optEq [opTok "ROW_FORMAT"] c.rowFormat ++ (optEq [opTok "STATS_PERSISTENT"] c.statesPersistent ++
      optEq [opTok "COMMENT"] c.comment)))))
def toksPartitioned (ps : List DefCol) : List Tok :=
  if ps.isEmpty then [] else [opTok "PARTITIONED", opTok "BY", grp (sepAll (ps.map (toksDefCol d)))]
def toksProp (p : ConfigStr) : List Tok := [srcTok p.name, eqTok, srcTok p.value]
def toksProps (ps : List ConfigStr) : List Tok :=
  if ps.isEmpty then [] else [opTok "TBLPROPERTIES", grp (sepAll (ps.map toksProp))]
def toksHiveOpts (c : CreateTable) : List Tok :=
  optSp [opTok "COMMENT"] c.comment ++ (toksPartitioned d c.partitionedBy ++ (optSp [opTok "ROW", opTok "FORMAT", opTok "SERDE"] c.rowFormatSerde ++
    (optSp [opTok "ROW", opTok "FORMAT", opTok "DELIMITED", opTok "FIELDS", opTok "TERMINATED", opTok "BY"] c.rowFormatDelimited ++
      (optSp [opTok "STORED", opTok "AS", opTok "INPUTFORMAT"] c.storedAsInputformat ++
        (flag c.storedAsTextfile [opTok "STORED", opTok "AS", opTok "TEXTFILE"] ++ (optSp [opTok "OUTPUTFORMAT"] c.outputformat ++
          (optSp [opTok "LOCATION"] c.location ++ toksProps c.tblproperties)))))))
def toksOpts (c : CreateTable) : List Tok := if d == .MYSQL then toksMyOpts c else toksHiveOpts d c

/-- **the token-level printer of CREATE TABLE** -/
def toksCreate (c : CreateTable) : List Tok :=
  opTok "CREATE" :: opTok "TABLE" :: (flag c.ifNotExists [opTok "IF", opTok "NOT", opTok "EXISTS"] ++
    tblTok c.table :: grp (sepAll (toksLines d c)) :: toksOpts d c)

/-! ### the fragment -/
def noComma (ts : List Tok) : Bool := ts.all fun t => !t.equalsStr ","
/-- segments that `split_by(",")` gives back: none is empty, none has a `,` at its top level -/
def segsOK (segs : List (List Tok)) : Bool := segs.all fun s => !s.isEmpty && noComma s
/-- the back-quoted token of a name reads back as that name -/
def nameOK (n : String) : Bool := unifyName (nameTok n).src == n
def isOkName (r : Except Err (Option String × String)) (t : TableName) : Bool :=
  match r with | .ok (s, n) => s == t.schema && n == t.name | _ => false
/-- the one back-quoted token of the table name is split into the same schema and table (excludes F-C18-3: dots inside) -/
def tblOK (t : TableName) : Bool := isOkName (splitName (tblTok t).src) t
/-- an integer the printer writes as a non-negative decimal that `int()` reads back -/
def intOK (n : Int) : Bool := decide (0 ≤ n) && isOkInt (pyInt (intTok n).src) n
/-- a type parameter: a tree of the expression fragment (integers, in practice; the printer brackets what is above the compute
level: `source_with_parenthesis(param, sql_type, 8)`) -/
def paramOK (e : Expr) : Bool := Frag d e
def typeOK (t : ColType) : Bool :=
  match t.params with
  | none => true
  | some ps => !hiveDrops d t && ps.all (paramOK d) && segsOK (ps.map fun e => W d noX e 8)
def optFragE : Option Expr → Bool
  | none => true
  | some e => Frag d e
/-- the save mode of a generated column is the word the parser maps to itself (`VIRTUAL`, `STORED`) -/
def modeOK (m : String) : Bool := match Gen.genColSaveModes.find? (·.1 == up m) with | some sm => sm.2 == m | none => false
def genOK : Option GenCol → Bool
  | none => true
  | some ⟨e, some m⟩ => Frag d e && modeOK m
  | some ⟨_, none⟩ => false
/-- a column definition; outside MySQL none of the attributes only the MySQL printer writes -/
def colOK (c : DefCol) : Bool :=
  nameOK c.name && typeOK d c.type &&
    (if d == .MYSQL then optFragE d c.default && optFragE d c.onUpdate && genOK d c.generated
     else c.generated.isNone && !c.unsigned && !c.zerofill && c.charset.isNone && c.collate.isNone && !c.allowNull && !c.notNull && !c.autoInc &&
       c.default.isNone && c.onUpdate.isNone)
def idxColOK (c : IndexCol) : Bool := nameOK c.name && (match c.maxLen with | none => true | some n => intOK n)
def optIntOK : Option Int → Bool | none => true | some n => intOK n
/-- a key: PRIMARY KEY has no name, the others have one -/
def idxOK (k : IndexKind) (i : Index) : Bool :=
  i.kind == k && (if k == .primary then i.name.isNone else i.name.isSome) && i.cols.all idxColOK && optIntOK i.keyBlockSize
def optIdxOK : Option Index → Bool | none => true | some i => idxOK .primary i
def actOK : Option String → Bool
  | none => true
  | some s => ["NO ACTION", "SET NULL", "CASCADE", "RESTRICT"].contains s
/-- a foreign key: the actions are the four the parser knows, the name lists split back -/
def fkOK (k : ForeignKey) : Bool :=
  segsOK (k.slave.map fun n => [srcTok n]) && segsOK (k.masterCols.map fun n => [srcTok n]) && actOK k.onDelete && actOK k.onUpdate
/-- the value of a blank-separated option is not `=` (which the option parser skips) -/
def valOK : Option String → Bool | none => true | some s => s != "="

/-- **the CREATE TABLE fragment** -/
def FragCreate (c : CreateTable) : Bool :=
  tblOK c.table && c.columns.all (colOK d) && segsOK (toksLines d c) &&
    (if d == .MYSQL then
      c.foreignKey.all fkOK && optIdxOK c.primaryKey && c.uniqueKey.all (idxOK .unique) && c.key.all (idxOK .normal) && c.fulltextKey.all (idxOK .fulltext) &&
        optIntOK c.autoIncrement &&
        c.partitionedBy.isEmpty && c.rowFormatSerde.isNone && c.rowFormatDelimited.isNone && c.storedAsInputformat.isNone &&
        !c.storedAsTextfile && c.outputformat.isNone && c.location.isNone && c.tblproperties.isEmpty
     else
      c.foreignKey.isEmpty && c.primaryKey.isNone && c.uniqueKey.isEmpty && c.key.isEmpty && c.fulltextKey.isEmpty && c.engine.isNone && c.autoIncrement.isNone &&
        c.defaultCharset.isNone && c.collate.isNone && c.rowFormat.isNone && c.statesPersistent.isNone &&
        c.partitionedBy.all (colOK d) && segsOK (c.partitionedBy.map (toksDefCol d)) && segsOK (c.tblproperties.map toksProp) &&
        valOK c.comment && valOK c.rowFormatSerde && valOK c.rowFormatDelimited && valOK c.storedAsInputformat && valOK c.outputformat &&
        valOK c.location)

/-- what may follow a CREATE TABLE statement: nothing, or the `;` the statement parser swallows itself -/
def endsC (rest : List Tok) : Bool := rest.isEmpty || searchStr rest ";"

/-! ### what the Hive DDL can state -/
def hiveCol (c : DefCol) : DefCol :=
  { name := c.name, type := ⟨c.type.name, if Conv.hiveKeepsParams c.type.name then c.type.params else none⟩, comment := c.comment }
def hiveProj (c : CreateTable) : CreateTable :=
  { emptyCreate c.table c.ifNotExists with
    columns := c.columns.map hiveCol, partitionedBy := c.partitionedBy.map hiveCol, comment := c.comment,
    rowFormatSerde := c.rowFormatSerde, rowFormatDelimited := c.rowFormatDelimited, storedAsInputformat := c.storedAsInputformat,
    storedAsTextfile := c.storedAsTextfile, outputformat := c.outputformat, location := c.location, tblproperties := c.tblproperties }

end TD
