import MsqProofs.Lemmas.LineageSetStar
/-!
# Lineage: the level of a set operation (UNION …) against the column-wise specification
-/
namespace LineageL
open Ast AN LN Spec Flow

/-! ### shapes -/

theorem shape_withs {q : Query} {ws : List WithTable} (h : shape q = some ws) : Query.withs q = some ws := by
  cases q with
  | single s =>
    cases s with
    | mk w dist cols fr lats js wh gb hv ob sb db cb lm =>
      cases w with
      | none => simp [shape] at h
      | some w =>
        cases lats with
        | nil => simp [shape] at h; simp [Query.withs, h]
        | cons l ls => simp [shape] at h
  | union w s us =>
    cases w with
    | none => simp [shape] at h
    | some w =>
      simp only [shape] at h
      split at h
      · simp at h; simp [Query.withs, h]
      · simp at h

theorem lateralSingle_plain {s : Select} (h : branchPlain s = true) : lateralSingle s = .ok [] := by
  cases s with
  | mk w dist cols fr lats js wh gb hv ob sb db cb lm =>
    cases lats with
    | nil => simp [lateralSingle, Select.laterals, pure, Except.pure]
    | cons l ls => cases w with
      | none => simp [branchPlain] at h
      | some w => cases w <;> simp [branchPlain] at h

theorem shape_lateral {q : Query} {ws : List WithTable} (h : shape q = some ws) : lateralColumns q = .ok [] := by
  cases q with
  | single s =>
    cases s with
    | mk w dist cols fr lats js wh gb hv ob sb db cb lm =>
      cases w with
      | none => simp [shape] at h
      | some w =>
        cases lats with
        | nil => simp [lateralColumns, lateralSingle, Select.laterals, pure, Except.pure]
        | cons l ls => simp [shape] at h
  | union w s us =>
    cases w with
    | none => simp [shape] at h
    | some w =>
      simp only [shape] at h
      split at h
      · rename_i hall
        simp only [List.all_cons, Bool.and_eq_true] at hall
        simp only [lateralColumns, lateralSingle_plain hall.1, bind, Except.bind]
        have : ∀ (us : List (String × Select)), (us.map (·.2)).all branchPlain = true →
            us.foldlM (fun acc p => do mergeByPos acc (← lateralSingle p.2)) ([] : List (String × List QCol)) = .ok [] := by
          intro us
          induction us with
          | nil => intro _; rfl
          | cons p r ih =>
            intro hr
            simp only [List.map_cons, List.all_cons, Bool.and_eq_true] at hr
            have e : (do mergeByPos ([] : List (String × List QCol)) (← lateralSingle p.2)) = .ok [] := by
              simp [lateralSingle_plain hr.1, bind, Except.bind, mergeByPos]
            rw [List.foldlM_cons]
            show ((do mergeByPos ([] : List (String × List QCol)) (← lateralSingle p.2)) >>= fun a =>
              r.foldlM (fun acc p => do mergeByPos acc (← lateralSingle p.2)) a) = .ok []
            rw [e]
            exact ih hr.2
        exact this us hall.2
      · simp at h

theorem zipWith_fst {α β γ : Type} (f : α × β → α × γ → β) : ∀ (a : List (α × β)) (b : List (α × γ)), a.length = b.length →
    (List.zipWith (fun x y => (x.1, f x y)) a b).map (·.1) = a.map (·.1)
  | [], [], _ => rfl
  | [], _ :: _, h => by simp at h
  | _ :: _, [], h => by simp at h
  | x :: a, y :: b, h => by simp [zipWith_fst f a b (by simpa using h)]

/-! ### the analysis' merge of the branches -/

/-- the branches after the first, merged into `acc` one by one -/
def mergeAll (acc : List (SCol × List QCol)) : List (String × Select) → Except FErr (List (SCol × List QCol))
  | [] => .ok acc
  | p :: r => match mergeCur acc (Flow.curOf (Select.cols p.2) 1) with
    | .ok m => mergeAll m r
    | .error e => .error e

theorem foldlM_mergeAll : ∀ (us : List (String × Select)) (acc : List (SCol × List QCol)),
    us.foldlM (fun acc p => mergeCur acc (Flow.curOf (Select.cols p.2) 1)) acc = mergeAll acc us
  | [], acc => rfl
  | p :: r, acc => by
    simp only [List.foldlM_cons, mergeAll, bind, Except.bind]
    cases mergeCur acc (Flow.curOf (Select.cols p.2) 1) with
    | error e => rfl
    | ok m => exact foldlM_mergeAll r m

theorem mergeAll_fst : ∀ (us : List (String × Select)) (acc m : List (SCol × List QCol)), mergeAll acc us = .ok m →
    m.map (·.1) = acc.map (·.1)
  | [], acc, m, h => by simp [mergeAll] at h; subst h; rfl
  | p :: r, acc, m, h => by
    simp only [mergeAll, mergeCur] at h
    by_cases hl : acc.length = (Flow.curOf (Select.cols p.2) 1).length
    · have hl' : (acc.length != (Flow.curOf (Select.cols p.2) 1).length) = false := by simp [hl]
      simp only [hl', Bool.false_eq_true, if_false] at h
      rw [mergeAll_fst r _ m h]
      exact zipWith_fst (fun x y => x.2 ++ y.2) acc _ hl
    · have hl' : (acc.length != (Flow.curOf (Select.cols p.2) 1).length) = true := by simpa using hl
      simp [hl'] at h

theorem mergeAll_err : ∀ (us : List (String × Select)) (acc : List (SCol × List QCol)) (e : FErr), mergeAll acc us = .error e → e = .outside
  | [], acc, e, h => by simp [mergeAll] at h
  | p :: r, acc, e, h => by
    simp only [mergeAll, mergeCur] at h
    by_cases hl : (acc.length != (Flow.curOf (Select.cols p.2) 1).length) = true
    · simp [hl] at h; exact h.symm
    · simp [hl] at h; exact mergeAll_err r _ e h

theorem branchOK_named {s : Select} (h : branchOK s = true) : ∀ it ∈ Select.cols s, (itemName it).isSome = true := by
  intro it hit
  have := List.all_eq_true.mp h it hit
  simp only [Bool.and_eq_true] at this
  exact this.1

/-- the analysis' `get_current_level_stand_column_used_quote_columns` on a set operation whose branches' items are all named: the
merged columns, the stores untouched; a branch with a different number of columns fails the `assert` -/
theorem currentLevel_union (cat : Cat) (tn : List (String × StdTable)) (st : St) :
    ∀ (us : List (String × Select)) (acc : List (SCol × List QCol)),
      (∀ p ∈ us, ∀ it ∈ Select.cols p.2, (itemName it).isSome = true) →
      us.foldlM (fun (acc : List (SCol × List QCol) × St) p => do
          let (m, st) ← currentLevelSingle cat tn (Select.cols p.2) 1 acc.2
          let r ← mergeByPos acc.1 m
          pure (r, st)) (acc, st)
        = match mergeAll acc us with
          | .ok m => .ok (m, st)
          | .error _ => .error (.py .AssertionError)
  | [], acc, _ => rfl
  | p :: r, acc, h => by
    have hp := h p (by simp)
    simp only [List.foldlM_cons, currentLevelSingle_named cat tn _ 1 st hp, bind, Except.bind, mergeAll, mergeCur, mergeByPos, ← curOf_eq]
    by_cases hl : acc.length = (Flow.curOf (Select.cols p.2) 1).length
    · have hl' : (acc.length != (Flow.curOf (Select.cols p.2) 1).length) = false := by simp [hl]
      simp only [hl', Bool.false_eq_true, if_false, pure, Except.pure]
      exact currentLevel_union cat tn st r _ (fun x hx => h x (by simp [hx]))
    · have hl' : (acc.length != (Flow.curOf (Select.cols p.2) 1).length) = true := by simpa using hl
      simp [hl']

/-- **the level of a query — one SELECT or a set operation — against its specification** -/
theorem level_generic {cat : Cat} {st : St} {tn : List (String × StdTable)} {scope : Scope} (hres : Resolves cat st tn scope)
    (q : Query) (hpk : (levelFromTables q).all plainKey = true → ∀ p ∈ tn, p.2.2 = p.1) (st1 : St) (hs : Same st st1) :
    Agrees st ((levelFlow q scope).map (fun R => C16.number R 1))
      (do let (cur, st2) ← currentLevel cat tn q st1; sourcesLoop cat tn [] cur st2) := by
  cases q with
  | single s =>
    simp only [levelFlow]
    by_cases hstar : (Select.cols s).any isStar = true
    · simp only [hstar, if_true]
      exact level_star hres _ hpk (Select.cols s) st1 hs
    · simp only [hstar, Bool.false_eq_true, if_false]
      exact level_spec hres (Select.cols s) st1 hs
  | union ws s us =>
    simp only [levelFlow]
    by_cases hall : (s :: us.map (·.2)).all branchOK = true
    · simp only [hall, Bool.not_true, Bool.false_eq_true, if_false]
      simp only [List.all_cons, Bool.and_eq_true] at hall
      have hnamed1 := branchOK_named hall.1
      have hnamedr : ∀ p ∈ us, ∀ it ∈ Select.cols p.2, (itemName it).isSome = true := by
        intro p hp
        exact branchOK_named (List.all_eq_true.mp hall.2 p.2 (List.mem_map_of_mem hp))
      have hcu := currentLevel_union cat tn st1 us (Flow.curOf (Select.cols s) 1) hnamedr
      simp only [bind, Except.bind, pure, Except.pure] at hcu
      simp only [currentLevel, currentLevelSingle_named cat tn _ 1 st1 hnamed1, bind, Except.bind, pure, Except.pure,
        foldlM_mergeAll, ← curOf_eq]
      rw [hcu]
      cases hm : mergeAll (Flow.curOf (Select.cols s) 1) us with
      | error e =>
        -- a different number of columns: outside the specification
        have : e = FErr.outside := mergeAll_err us _ e hm
        subst this
        simp [Except.map, Agrees]
      | ok merged =>
        simp only
        have hl := sourcesLoop_spec hres merged st1 hs
        rw [curFlow_eq]
        cases hd : curSpec scope merged with
        | error e =>
          rw [hd] at hl
          cases e with
          | analysis => simpa [Except.map, Agrees] using hl
          | outside => simp [Except.map, Agrees]
        | ok data =>
          rw [hd] at hl
          simp only [Agrees] at hl
          obtain ⟨st2, e2, s2⟩ := hl
          simp only [Except.map, Agrees, pure, Except.pure]
          have hseq : Seq (data.map (·.1)) 1 := by
            rw [curSpec_fst scope merged data hd, mergeAll_fst us _ merged hm, curOf_eq]
            exact seq_curOf _ 1
          rw [number_of_seq data 1 hseq]
          exact ⟨st2, e2, s2⟩
    · simp [hall, Except.map, Agrees]

end LineageL
