import MsqProofs.Lemmas.LexSem
/-! the losslessness invariant and its preservation by one summarised operation -/
namespace Lex

inductive Seg | tok (s : List Char) | gap (s : List Char) deriving Repr

def Seg.text : Seg → List Char | .tok s => s | .gap s => s
def tokTexts (segs : List Seg) : List (List Char) := segs.filterMap fun | .tok s => some s | .gap _ => none
def gapTexts (segs : List Seg) : List (List Char) := segs.filterMap fun | .gap s => some s | .tok _ => none

mutual
def leaves : Tok → List (List Char)
  | .single s _ => [s]
  | .group _ cs _ => leavesL cs
def leavesL : List Tok → List (List Char)
  | [] => []
  | t :: ts => leaves t ++ leavesL ts
end

theorem leavesL_append (a b : List Tok) : leavesL (a ++ b) = leavesL a ++ leavesL b := by
  induction a with
  | nil => simp [leavesL]
  | cons t ts ih => simp [leavesL, ih]

/-- leaves of all open frames, outermost first (text order) -/
def allLeaves (stack : List (List Tok)) : List (List Char) := (stack.reverse.map leavesL).flatten

theorem allLeaves_cons (f : List Tok) (fs : List (List Tok)) : allLeaves (f :: fs) = allLeaves fs ++ leavesL f := by
  simp [allLeaves]

theorem allLeaves_appendTop (t : Tok) (st st' : List (List Tok)) (h : appendTop t st = some st') :
    allLeaves st' = allLeaves st ++ leaves t := by
  cases st with
  | nil => simp [appendTop] at h
  | cons f fs =>
    simp [appendTop] at h; subst h
    simp [allLeaves_cons, leavesL_append, leavesL]

theorem take_window (text : List Char) (a b : Nat) (h : a ≤ b) :
    text.take a ++ (text.drop a).take (b - a) = text.take b := by
  have : b = a + (b - a) := by omega
  rw [this, List.take_add]
  simp

/-- the dropped windows satisfy `G` -/
def GapsOK (G : List Char → Prop) (segs : List Seg) : Prop := ∀ g ∈ gapTexts segs, G g

structure Inv (text : List Char) (m : Mem) (segs : List Seg) : Prop where
  cover : (segs.map Seg.text).flatten = text.take m.start
  toks : tokTexts segs = allLeaves m.stack
  le : m.start ≤ m.now

variable (env : Env) (ss : S) (sm : Nat)

/-- the window `text[start:now']` an operation slices or drops -/
def window (text : List Char) (m : Mem) (adv : Bool) : List Char :=
  (text.drop m.start).take ((if adv then m.now + 1 else m.now) - m.start)

/-- one summarised operation preserves the invariant, extending the segment list by at most one segment,
which is the current window (a token if the body emits, a gap if it drops) -/
theorem execCore_inv (adv : Bool) (body : Body) (grp : Grp) (st : St) (ret : Bool) (m m' : Mem) (b : Bool)
    (segs : List Seg) (hinv : Inv env.text m segs)
    (h : execCore env ss sm adv body grp st ret m = .ok (m', b)) :
    ∃ segs', Inv env.text m' segs' ∧ m'.now = (if adv then m.now + 1 else m.now) ∧ b = ret
      ∧ m'.status = st.resolve ss m.status
      ∧ (body ≠ .keep → m'.start = m'.now) ∧ (body = .keep → m'.start = m.start)
      ∧ (segs' = segs ∨ (body ≠ .keep ∧ gapTexts segs' = gapTexts segs ++ (if body = .drop then [window env.text m adv] else []))) := by
  unfold execCore at h
  cases body with
  | keep =>
    simp only at h
    cases grp with
    | none =>
      simp at h; obtain ⟨rfl, rfl⟩ := h
      exact ⟨segs, ⟨hinv.cover, hinv.toks, by have := hinv.le; simp; split <;> omega⟩, rfl, rfl, rfl, by simp, by simp, .inl rfl⟩
    | push =>
      simp at h; obtain ⟨rfl, rfl⟩ := h
      refine ⟨segs, ⟨hinv.cover, ?_, by have := hinv.le; simp; split <;> omega⟩, rfl, rfl, rfl, by simp, by simp, .inl rfl⟩
      simp [allLeaves_cons, leavesL, hinv.toks]
    | pop k mk =>
      simp only at h
      cases hst : m.stack with
      | nil => simp [hst] at h
      | cons f fs =>
        simp only [hst] at h
        cases hap : appendTop (Tok.group k f (resolveMarks env.upper env.wordMarks sm [] mk)) fs with
        | none => simp [hap] at h
        | some stk' =>
          simp [hap] at h; obtain ⟨rfl, rfl⟩ := h
          refine ⟨segs, ⟨hinv.cover, ?_, by have := hinv.le; simp; split <;> omega⟩, rfl, rfl, rfl, by simp, by simp, .inl rfl⟩
          simp [allLeaves_appendTop _ _ _ hap, leaves, hinv.toks, hst, allLeaves_cons]
  | drop =>
    simp only at h
    have hle : m.start ≤ (if adv then m.now + 1 else m.now) := by have := hinv.le; split <;> omega
    have hcov : ((segs ++ [Seg.gap (window env.text m adv)]).map Seg.text).flatten
        = env.text.take (if adv then m.now + 1 else m.now) := by
      simp [hinv.cover, Seg.text, window, take_window env.text _ _ hle]
    have htk : tokTexts (segs ++ [Seg.gap (window env.text m adv)]) = tokTexts segs := by
      simp [tokTexts]
    have hgp : gapTexts (segs ++ [Seg.gap (window env.text m adv)]) = gapTexts segs ++ [window env.text m adv] := by
      simp [gapTexts]
    cases grp with
    | none =>
      simp at h; obtain ⟨rfl, rfl⟩ := h
      exact ⟨_, ⟨hcov, by rw [htk]; exact hinv.toks, Nat.le_refl _⟩, rfl, rfl, rfl, by simp, by simp, .inr ⟨by simp, by simp [hgp]⟩⟩
    | push =>
      simp at h; obtain ⟨rfl, rfl⟩ := h
      exact ⟨_, ⟨hcov, by rw [htk]; simp [allLeaves_cons, leavesL, hinv.toks], Nat.le_refl _⟩, rfl, rfl, rfl, by simp, by simp,
        .inr ⟨by simp, by simp [hgp]⟩⟩
    | pop k mk =>
      simp only at h
      cases hst : m.stack with
      | nil => simp [hst] at h
      | cons f fs =>
        simp only [hst] at h
        cases hap : appendTop (Tok.group k f (resolveMarks env.upper env.wordMarks sm [] mk)) fs with
        | none => simp [hap] at h
        | some stk' =>
          simp [hap] at h; obtain ⟨rfl, rfl⟩ := h
          refine ⟨_, ⟨hcov, ?_, Nat.le_refl _⟩, rfl, rfl, rfl, by simp, by simp, .inr ⟨by simp, by simp [hgp]⟩⟩
          rw [htk]
          simp [allLeaves_appendTop _ _ _ hap, leaves, hinv.toks, hst, allLeaves_cons]
  | emit mk =>
    simp only at h
    have hle : m.start ≤ (if adv then m.now + 1 else m.now) := by have := hinv.le; split <;> omega
    cases hap : appendTop (Tok.single ((env.text.drop m.start).take ((if adv then m.now + 1 else m.now) - m.start))
        (resolveMarks env.upper env.wordMarks sm ((env.text.drop m.start).take ((if adv then m.now + 1 else m.now) - m.start)) mk)) m.stack with
    | none => simp [hap] at h
    | some stk =>
      simp only [hap] at h
      have hcov : ((segs ++ [Seg.tok (window env.text m adv)]).map Seg.text).flatten
          = env.text.take (if adv then m.now + 1 else m.now) := by
        simp [hinv.cover, Seg.text, window, take_window env.text _ _ hle]
      have htk : tokTexts (segs ++ [Seg.tok (window env.text m adv)]) = allLeaves stk := by
        simp [tokTexts, allLeaves_appendTop _ _ _ hap, leaves, window]
        exact hinv.toks
      have hgp : gapTexts (segs ++ [Seg.tok (window env.text m adv)]) = gapTexts segs := by
        simp [gapTexts]
      cases grp with
      | none =>
        simp at h; obtain ⟨rfl, rfl⟩ := h
        exact ⟨_, ⟨hcov, htk, Nat.le_refl _⟩, rfl, rfl, rfl, by simp, by simp, .inr ⟨by simp, by simp [hgp]⟩⟩
      | push =>
        simp at h; obtain ⟨rfl, rfl⟩ := h
        exact ⟨_, ⟨hcov, by simp [allLeaves_cons, leavesL, htk], Nat.le_refl _⟩, rfl, rfl, rfl, by simp, by simp,
          .inr ⟨by simp, by simp [hgp]⟩⟩
      | pop k mk' =>
        simp only at h
        cases hst : stk with
        | nil => simp [hst] at h
        | cons f fs =>
          simp only [hst] at h
          cases hap2 : appendTop (Tok.group k f (resolveMarks env.upper env.wordMarks sm [] mk')) fs with
          | none => simp [hap2] at h
          | some stk' =>
            simp [hap2] at h; obtain ⟨rfl, rfl⟩ := h
            refine ⟨_, ⟨hcov, ?_, Nat.le_refl _⟩, rfl, rfl, rfl, by simp, by simp, .inr ⟨by simp, by simp [hgp]⟩⟩
            simp [allLeaves_appendTop _ _ _ hap2, leaves, htk, hst, allLeaves_cons]

end Lex
