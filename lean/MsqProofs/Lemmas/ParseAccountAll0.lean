import MsqProofs.Lemmas.ParseAccountTexts0
/-!
# C08, accounting for EVERY function of the parser model — hand-written base, part 1: texts and the `Full` fragment of results

* `tX v` — every string stored in the typed value `v` (`Val.texts (toVal v)`), for every type of the abstract syntax: expressions
  (`PM.tE`, reused), order items, table references, joins, GROUP BY, lateral views, WITH tables, SELECT statements, unions.
  One equation per constructor (`[grind =]`), list forms with `nil` / `cons` / `append`.
* `FullE e` … — the RESULT is not degenerate at a position where the parser takes the children of the next token WITHOUT testing
  that it is a bracket group (class F-C08-6: a word standing there is consumed as an empty group and dropped): a function call has
  at least one argument, `IN (…)` at least one value, a window at least one of PARTITION BY / ORDER BY / ROWS, `GROUPING SETS` at
  least one set.  Stated on the result, so no hypothesis on the token list is needed: where the result is not degenerate the
  token WAS a group (it had children).  What this excludes besides the defect: `f()`, `x IN ()`, `OVER ()`, `GROUPING SETS ()`.
-/
set_option linter.unusedVariables false
set_option linter.unusedSectionVars false
set_option linter.unusedSimpArgs false
set_option maxHeartbeats 1000000
open Lex PM Ast

namespace PA

/-! ### texts -/
def tOS (s : Option String) : List String := (Val.optStr s).texts
def tStrs (l : List String) : List String := Val.textsL (l.map .str)
def tInts (l : List Int) : List String := Val.textsL (l.map .int)
def tOI (l : Option Int) : List String := (Val.optInt l).texts
def tRow (r : RowItem) : List String := r.toVal.texts
def tOrd (o : OrderItem) : List String := o.toVal.texts
def tOrds (l : List OrderItem) : List String := Val.textsL (orders l)
def tOOrds : Option (List OrderItem) → List String | none => [] | some l => tOrds l
def tOL : Option (List Expr) → List String | none => [] | some l => tEs l
def tTR (t : TableRef) : List String := t.toVal.texts
def tFT (t : FromTable) : List String := t.toVal.texts
def tFTs (l : List FromTable) : List String := Val.textsL (fromTables l)
def tOFTs : Option (List FromTable) → List String | none => [] | some l => tFTs l
def tJ (j : Join) : List String := j.toVal.texts
def tJs (l : List Join) : List String := Val.textsL (joins l)
def tELs (l : List (List Expr)) : List String := Val.textsL (exprLists l)
def tOLL : Option (List (List Expr)) → List String | none => [] | some l => tELs l
def tGB (g : GroupBy) : List String := g.toVal.texts
def tOGB : Option GroupBy → List String | none => [] | some g => tGB g
def tLat (l : Lateral) : List String := l.toVal.texts
def tLats (l : List Lateral) : List String := Val.textsL (laterals l)
def tWT (w : WithTable) : List String := w.toVal.texts
def tWTs (l : List WithTable) : List String := Val.textsL (withTables l)
def tOWTs : Option (List WithTable) → List String | none => [] | some l => tWTs l
def tCol (c : Expr × Option String) : List String := tE c.1 ++ tOS c.2
def tCols (l : List (Expr × Option String)) : List String := Val.textsL (selectCols l)
def tLim (l : Option (Int × Option Int)) : List String := (limitVal l).texts
def tSel (s : Select) : List String := s.toVal.texts
def tUn (l : List (String × Select)) : List String := Val.textsL (unionElems l)
def tQ (q : Query) : List String := q.toVal.texts
def withsOf : Select → Option (List WithTable) | .mk ws .. => ws

macro "tx_simp" : tactic =>
  `(tactic| simp [tOS, tStrs, tInts, tOI, tRow, tOrd, tOrds, tOOrds, tOL, tTR, tFT, tFTs, tOFTs, tJ, tJs, tELs, tOLL, tGB, tOGB, tLat, tLats, tWT, tWTs,
      tOWTs, tCol, tCols, tLim, tSel, tUn, tQ, tE, tEs, tOpt, tArms, Expr.toVal, OrderItem.toVal, TableRef.toVal, FromTable.toVal, JoinRule.toVal,
      Join.toVal, GroupBy.toVal, Lateral.toVal, WithTable.toVal, Select.toVal, Query.toVal, RowItem.toVal, exprs, optExpr, arms, orders, fromTables,
      joins, exprLists, laterals, withTables, withsVal, selectCols, fromClauseVal, whereClauseVal, groupByClauseVal, havingClauseVal,
      orderByClauseVal, sortByClauseVal, distributeByClauseVal, clusterByClauseVal, unionElems, fnName, Ast.alias, limitVal, tableNameVal,
      Val.texts, Val.textsL, Val.textsF, Val.optStr, Val.optInt, Val.ofOpt, Val.strs, textsL_arms])

@[grind =] theorem tOS_none : tOS none = [] := by tx_simp
@[grind =] theorem tOS_some (a : String) : tOS (some a) = [a] := by tx_simp
@[grind =] theorem tStrs_eq (l : List String) : tStrs l = l := by
  induction l with
  | nil => tx_simp
  | cons a l ih => simp_all [tStrs, Val.textsL, Val.texts]
theorem textsL_append (a b : List Val) : Val.textsL (a ++ b) = Val.textsL a ++ Val.textsL b := by
  induction a with
  | nil => simp [Val.textsL]
  | cons x a ih => simp [Val.textsL, ih]

@[grind =] theorem tOOrds_none : tOOrds none = [] := rfl
@[grind =] theorem tOOrds_some (l) : tOOrds (some l) = tOrds l := rfl
@[grind =] theorem tOL_none : tOL none = [] := rfl
@[grind =] theorem tOL_some (l) : tOL (some l) = tEs l := rfl
@[grind =] theorem tOFTs_none : tOFTs none = [] := rfl
@[grind =] theorem tOFTs_some (l) : tOFTs (some l) = tFTs l := rfl
@[grind =] theorem tOLL_none : tOLL none = [] := rfl
@[grind =] theorem tOLL_some (l) : tOLL (some l) = tELs l := rfl
@[grind =] theorem tOGB_none : tOGB none = [] := rfl
@[grind =] theorem tOGB_some (g) : tOGB (some g) = tGB g := rfl
@[grind =] theorem tOWTs_none : tOWTs none = [] := rfl
@[grind =] theorem tOWTs_some (l) : tOWTs (some l) = tWTs l := rfl

/-! the expression constructors that `ParseAccountTexts0` leaves out -/
@[grind =] theorem tE_func (s : Option String) (n : String) (ps : List Expr) : tE (.func s n ps) = tOS s ++ n :: tEs ps := by
  cases s <;> tx_simp
@[grind =] theorem tE_agg (n : String) (ps : List Expr) (dd : Bool) : tE (.agg n ps dd) = n :: tEs ps := by tx_simp
@[grind =] theorem tE_cast (e : Expr) (sg : Bool) (ty : String) (ps : Option (List Int)) :
    tE (.cast e sg ty ps) = "CAST" :: (tE e ++ ty :: (match ps with | none => [] | some l => tInts l)) := by
  cases ps <;> tx_simp
@[grind =] theorem tE_extract (n e : Expr) : tE (.extract n e) = "EXTRACT" :: (tE n ++ tE e) := by tx_simp
@[grind =] theorem tE_window (fn : Expr) (part : List Expr) (ord : List OrderItem) (rows : Option (RowItem × RowItem)) :
    tE (.window fn part ord rows) = tE fn ++ (tEs part ++ (tOrds ord ++ (match rows with | none => [] | some (a, b) => tRow a ++ tRow b))) := by
  cases rows with
  | none => tx_simp
  | some p => obtain ⟨a, b⟩ := p; tx_simp
@[grind =] theorem tE_subValue (vs : List Expr) : tE (.subValue vs) = tEs vs := by tx_simp
@[grind =] theorem tE_subQuery (q : Query) : tE (.subQuery q) = tQ q := by tx_simp
@[grind =] theorem tE_exists (v : Expr) : tE (.exists_ v) = tE v := by tx_simp

@[grind =] theorem tOrd_mk (e : Expr) (dd nf nl : Bool) : tOrd (.mk e dd nf nl) = tE e ++ [if dd then "DESC" else "ASC"] := by tx_simp
@[grind =] theorem tOrds_nil : tOrds [] = [] := by tx_simp
@[grind =] theorem tOrds_cons (o : OrderItem) (l : List OrderItem) : tOrds (o :: l) = tOrd o ++ tOrds l := by tx_simp
@[grind =] theorem tOrds_append (a b : List OrderItem) : tOrds (a ++ b) = tOrds a ++ tOrds b := by
  induction a with
  | nil => simp [tOrds_nil]
  | cons x a ih => simp [tOrds_cons, ih]
@[grind =] theorem tTR_table (s : Option String) (n : String) : tTR (.table s n) = tOS s ++ [n] := by cases s <;> tx_simp
@[grind =] theorem tTR_sub (q : Query) : tTR (.sub q) = tQ q := by tx_simp
@[grind =] theorem tFT_mk (t : TableRef) (a : Option String) : tFT (.mk t a) = tTR t ++ tOS a := by cases a <;> tx_simp
@[grind =] theorem tFTs_nil : tFTs [] = [] := by tx_simp
@[grind =] theorem tFTs_cons (o : FromTable) (l : List FromTable) : tFTs (o :: l) = tFT o ++ tFTs l := by tx_simp
@[grind =] theorem tFTs_append (a b : List FromTable) : tFTs (a ++ b) = tFTs a ++ tFTs b := by
  induction a with
  | nil => simp [tFTs_nil]
  | cons x a ih => simp [tFTs_cons, ih]
@[grind =] theorem tJ_mk (ty : String) (t : FromTable) (rule : Option JoinRule) :
    tJ (.mk ty t rule) = ty :: (tFT t ++ (match rule with | none => [] | some (.on e) => tE e | some (.using f) => tE f)) := by
  cases rule with
  | none => tx_simp
  | some r => cases r <;> tx_simp
@[grind =] theorem tJs_nil : tJs [] = [] := by tx_simp
@[grind =] theorem tJs_cons (o : Join) (l : List Join) : tJs (o :: l) = tJ o ++ tJs l := by tx_simp
@[grind =] theorem tJs_append (a b : List Join) : tJs (a ++ b) = tJs a ++ tJs b := by
  induction a with
  | nil => simp [tJs_nil]
  | cons x a ih => simp [tJs_cons, ih]
@[grind =] theorem tELs_nil : tELs [] = [] := by tx_simp
@[grind =] theorem tELs_cons (o : List Expr) (l : List (List Expr)) : tELs (o :: l) = tEs o ++ tELs l := by tx_simp
@[grind =] theorem tELs_append (a b : List (List Expr)) : tELs (a ++ b) = tELs a ++ tELs b := by
  induction a with
  | nil => simp [tELs_nil]
  | cons x a ih => simp [tELs_cons, ih]
@[grind =] theorem tGB_mk (cols : List Expr) (sets : Option (List (List Expr))) (c r : Bool) : tGB (.mk cols sets c r) = tEs cols ++ tOLL sets := by
  cases sets <;> tx_simp
@[grind =] theorem tLat_mk (o : Bool) (fn : Expr) (v : String) (as : List String) : tLat (.mk o fn v as) = tE fn ++ v :: as := by
  have := tStrs_eq as
  simp only [tStrs] at this
  tx_simp; exact this
@[grind =] theorem tLats_nil : tLats [] = [] := by tx_simp
@[grind =] theorem tLats_cons (o : Lateral) (l : List Lateral) : tLats (o :: l) = tLat o ++ tLats l := by tx_simp
@[grind =] theorem tLats_append (a b : List Lateral) : tLats (a ++ b) = tLats a ++ tLats b := by
  induction a with
  | nil => simp [tLats_nil]
  | cons x a ih => simp [tLats_cons, ih]
@[grind =] theorem tWT_mk (n : String) (q : Query) : tWT (.mk n q) = n :: tQ q := by tx_simp
@[grind =] theorem tWTs_nil : tWTs [] = [] := by tx_simp
@[grind =] theorem tWTs_cons (o : WithTable) (l : List WithTable) : tWTs (o :: l) = tWT o ++ tWTs l := by tx_simp
@[grind =] theorem tWTs_append (a b : List WithTable) : tWTs (a ++ b) = tWTs a ++ tWTs b := by
  induction a with
  | nil => simp [tWTs_nil]
  | cons x a ih => simp [tWTs_cons, ih]
@[grind =] theorem tCol_mk (e : Expr) (a : Option String) : tCol (e, a) = tE e ++ tOS a := rfl
@[grind =] theorem tCols_nil : tCols [] = [] := by tx_simp
@[grind =] theorem tCols_cons (o : Expr × Option String) (l : List (Expr × Option String)) : tCols (o :: l) = tCol o ++ tCols l := by
  obtain ⟨e, a⟩ := o; cases a <;> tx_simp
@[grind =] theorem tCols_append (a b : List (Expr × Option String)) : tCols (a ++ b) = tCols a ++ tCols b := by
  induction a with
  | nil => simp [tCols_nil]
  | cons x a ih => simp [tCols_cons, ih]
@[grind =] theorem tLim_none : tLim none = [] := by tx_simp
@[grind =] theorem tLim_some (a : Int) (b : Option Int) : tLim (some (a, b)) = toString a :: tOI b := by cases b <;> tx_simp
@[grind =] theorem tOI_none : tOI none = [] := by tx_simp
@[grind =] theorem tOI_some (a : Int) : tOI (some a) = [toString a] := by tx_simp
@[grind =] theorem tInts_nil : tInts [] = [] := by tx_simp
@[grind =] theorem tInts_append (a b : List Int) : tInts (a ++ b) = tInts a ++ tInts b := by simp [tInts, textsL_append]
@[grind =] theorem tInts_one (a : Int) : tInts [a] = [toString a] := by tx_simp
@[grind =] theorem tRow_current : tRow .current = ["CURRENT_ROW"] := by tx_simp
@[grind =] theorem tRow_unbounded (p : Bool) : tRow (.unbounded p) = [if p then "PRECEDING" else "FOLLOWING"] := by tx_simp
@[grind =] theorem tRow_num (n : Int) (p : Bool) : tRow (.num n p) = [if p then "PRECEDING" else "FOLLOWING", toString n] := by tx_simp

@[grind =] theorem tSel_mk (ws dist cols fr lats js wh gb hv ob sb db cb lm) :
    tSel (.mk ws dist cols fr lats js wh gb hv ob sb db cb lm) =
      tOWTs ws ++ (tCols cols ++ (tOFTs fr ++ (tLats lats ++ (tJs js ++ (tOpt wh ++ (tOGB gb ++ (tOpt hv ++ (tOOrds ob ++ (tOOrds sb ++
        (tOL db ++ (tOL cb ++ tLim lm))))))))))) := by
  cases ws <;> cases fr <;> cases wh <;> cases gb <;> cases hv <;> cases ob <;> cases sb <;> cases db <;> cases cb <;> tx_simp
@[grind =] theorem withsOf_mk (ws dist cols fr lats js wh gb hv ob sb db cb lm) :
    withsOf (.mk ws dist cols fr lats js wh gb hv ob sb db cb lm) = ws := rfl
/-- a branch of a union: the WITH clause is recorded once on the union, the branch gets the empty one -/
theorem tSel_split (s : Select) : tSel s = tOWTs (withsOf s) ++ tSel (setWiths s) := by
  cases s; simp [tSel_mk, setWiths, withsOf, tOWTs, tWTs_nil]
@[grind =] theorem tUn_nil : tUn [] = [] := by tx_simp
@[grind =] theorem tUn_cons (t : String) (s : Select) (l : List (String × Select)) : tUn ((t, s) :: l) = t :: (tSel s ++ tUn l) := by tx_simp
@[grind =] theorem tQ_single (s : Select) : tQ (.single s) = tSel s := by tx_simp
@[grind =] theorem tQ_union (ws : Option (List WithTable)) (s : Select) (us : List (String × Select)) :
    tQ (.union ws s us) = tOWTs ws ++ (tSel s ++ tUn us) := by cases ws <;> tx_simp

/-- the branches of a union as the parser collects them (before `setWiths`) -/
def tUnS (l : List (String × Select)) : List String := tUn (l.map fun p => (p.1, setWiths p.2))
@[grind =] theorem tUnS_nil : tUnS [] = [] := by simp [tUnS, tUn_nil]
@[grind =] theorem tUnS_cons (t : String) (s : Select) (l : List (String × Select)) : tUnS ((t, s) :: l) = t :: (tSel (setWiths s) ++ tUnS l) := by
  simp [tUnS, tUn_cons]
@[grind =] theorem tUnS_append (a b : List (String × Select)) : tUnS (a ++ b) = tUnS a ++ tUnS b := by
  induction a with
  | nil => simp [tUnS_nil]
  | cons x a ih => obtain ⟨t, s⟩ := x; simp [tUnS_cons, ih]

/-! ### the `Full` fragment of results -/
mutual
def FullE : Expr → Bool
  | .column _ _ => true | .literal _ => true | .wildcard _ => true | .mybatis _ => true
  | .func _ _ ps => FullNE ps
  | .agg _ ps _ => FullNE ps
  | .cast e _ _ _ => FullE e
  | .extract n e => FullE n && FullE e
  | .window fn part ord rows => FullE fn && (FullL part && (FullOrds ord && (!part.isEmpty || !ord.isEmpty || rows.isSome)))
  | .caseCond cs e => FullA cs && FullO e
  | .caseVal v cs e => FullE v && (FullA cs && FullO e)
  | .subValue vs => FullNE vs
  | .subQuery q => FullQ q
  | .exists_ v => FullE v
  | .index a i => FullE a && FullE i
  | .unary _ e => FullE e
  | .compute l _ r => FullE l && FullE r
  | .kw _ _ l r => FullE l && FullE r
  | .between _ b f t => FullE b && (FullE f && FullE t)
  | .compare _ l r => FullE l && FullE r
  | .not_ e => FullE e
  | .and_ l r => FullE l && FullE r
  | .xor l r => FullE l && FullE r
  | .or_ l r => FullE l && FullE r
/-- a non-empty list of full expressions -/
def FullNE : List Expr → Bool
  | [] => false | e :: r => FullE e && FullL r
def FullL : List Expr → Bool
  | [] => true | e :: r => FullE e && FullL r
def FullA : List (Expr × Expr) → Bool
  | [] => true | (w, t) :: r => FullE w && (FullE t && FullA r)
def FullO : Option Expr → Bool
  | none => true | some e => FullE e
def FullOrd : OrderItem → Bool
  | .mk e _ _ _ => FullE e
def FullOrds : List OrderItem → Bool
  | [] => true | o :: r => FullOrd o && FullOrds r
def FullOOrds : Option (List OrderItem) → Bool
  | none => true | some l => FullOrds l
def FullOL : Option (List Expr) → Bool
  | none => true | some l => FullL l
def FullTR : TableRef → Bool
  | .table _ _ => true | .sub q => FullQ q
def FullFT : FromTable → Bool
  | .mk t _ => FullTR t
def FullFTs : List FromTable → Bool
  | [] => true | t :: r => FullFT t && FullFTs r
def FullOFTs : Option (List FromTable) → Bool
  | none => true | some l => FullFTs l
def FullJR : JoinRule → Bool
  | .on e => FullE e | .using f => FullE f
def FullOJR : Option JoinRule → Bool
  | none => true | some r => FullJR r
def FullJ : Join → Bool
  | .mk _ t rule => FullFT t && FullOJR rule
def FullJs : List Join → Bool
  | [] => true | j :: r => FullJ j && FullJs r
def FullLL : List (List Expr) → Bool
  | [] => true | l :: r => FullL l && FullLL r
/-- `GROUPING SETS`: at least one set -/
def FullOLL : Option (List (List Expr)) → Bool
  | none => true | some l => !l.isEmpty && FullLL l
def FullGB : GroupBy → Bool
  | .mk cols sets _ _ => FullL cols && FullOLL sets
def FullOGB : Option GroupBy → Bool
  | none => true | some g => FullGB g
def FullLat : Lateral → Bool
  | .mk _ fn _ _ => FullE fn
def FullLats : List Lateral → Bool
  | [] => true | l :: r => FullLat l && FullLats r
def FullWT : WithTable → Bool
  | .mk _ q => FullQ q
def FullWTs : List WithTable → Bool
  | [] => true | w :: r => FullWT w && FullWTs r
def FullOWTs : Option (List WithTable) → Bool
  | none => true | some l => FullWTs l
def FullCols : List (Expr × Option String) → Bool
  | [] => true | (e, _) :: r => FullE e && FullCols r
def FullSel : Select → Bool
  | .mk ws _ cols fr lats js wh gb hv ob sb db cb _ =>
    FullOWTs ws && (FullCols cols && (FullOFTs fr && (FullLats lats && (FullJs js && (FullO wh && (FullOGB gb && (FullO hv && (FullOOrds ob &&
      (FullOOrds sb && (FullOL db && FullOL cb))))))))))
def FullUn : List (String × Select) → Bool
  | [] => true | (_, s) :: r => FullSel s && FullUn r
def FullQ : Query → Bool
  | .single s => FullSel s
  | .union ws s us => FullOWTs ws && (FullSel s && FullUn us)
end
def FullSt : List (Expr × String × Nat) → Bool
  | [] => true | (l, _, _) :: st => FullE l && FullSt st
def FullCol (c : Expr × Option String) : Bool := FullE c.1
def FullUnS (l : List (String × Select)) : Bool := FullUn (l.map fun p => (p.1, setWiths p.2))

attribute [grind =] FullE FullNE FullL FullA FullO FullOrd FullOrds FullOOrds FullOL FullTR FullFT FullFTs FullOFTs FullJR FullOJR FullJ FullJs FullLL
  FullOLL FullGB FullOGB FullLat FullLats FullWT FullWTs FullOWTs FullCols FullSel FullUn FullQ FullSt FullCol

theorem FullNE_iff (l : List Expr) : FullNE l = (!l.isEmpty && FullL l) := by cases l <;> simp [FullNE, FullL]
@[grind =] theorem FullL_append (as bs : List Expr) : FullL (as ++ bs) = (FullL as && FullL bs) := by
  induction as with
  | nil => simp [FullL]
  | cons a as ih => simp [FullL, ih, Bool.and_assoc]
@[grind =] theorem FullA_append (as bs : List (Expr × Expr)) : FullA (as ++ bs) = (FullA as && FullA bs) := by
  induction as with
  | nil => simp [FullA]
  | cons a as ih => obtain ⟨w, t⟩ := a; simp [FullA, ih, Bool.and_assoc]
@[grind =] theorem FullOrds_append (as bs : List OrderItem) : FullOrds (as ++ bs) = (FullOrds as && FullOrds bs) := by
  induction as with
  | nil => simp [FullOrds]
  | cons a as ih => simp [FullOrds, ih, Bool.and_assoc]
@[grind =] theorem FullFTs_append (as bs : List FromTable) : FullFTs (as ++ bs) = (FullFTs as && FullFTs bs) := by
  induction as with
  | nil => simp [FullFTs]
  | cons a as ih => simp [FullFTs, ih, Bool.and_assoc]
@[grind =] theorem FullJs_append (as bs : List Join) : FullJs (as ++ bs) = (FullJs as && FullJs bs) := by
  induction as with
  | nil => simp [FullJs]
  | cons a as ih => simp [FullJs, ih, Bool.and_assoc]
@[grind =] theorem FullLL_append (as bs : List (List Expr)) : FullLL (as ++ bs) = (FullLL as && FullLL bs) := by
  induction as with
  | nil => simp [FullLL]
  | cons a as ih => simp [FullLL, ih, Bool.and_assoc]
@[grind =] theorem FullLats_append (as bs : List Lateral) : FullLats (as ++ bs) = (FullLats as && FullLats bs) := by
  induction as with
  | nil => simp [FullLats]
  | cons a as ih => simp [FullLats, ih, Bool.and_assoc]
@[grind =] theorem FullWTs_append (as bs : List WithTable) : FullWTs (as ++ bs) = (FullWTs as && FullWTs bs) := by
  induction as with
  | nil => simp [FullWTs]
  | cons a as ih => simp [FullWTs, ih, Bool.and_assoc]
@[grind =] theorem FullCols_append (as bs : List (Expr × Option String)) : FullCols (as ++ bs) = (FullCols as && FullCols bs) := by
  induction as with
  | nil => simp [FullCols]
  | cons a as ih => obtain ⟨e, x⟩ := a; simp [FullCols, ih, Bool.and_assoc]
@[grind =] theorem FullCols_cons (c : Expr × Option String) (l) : FullCols (c :: l) = (FullCol c && FullCols l) := by
  obtain ⟨e, x⟩ := c; simp [FullCols, FullCol]
@[grind =] theorem FullUnS_nil : FullUnS [] = true := by simp [FullUnS, FullUn]
@[grind =] theorem FullUnS_append_one (as : List (String × Select)) (t : String) (s : Select) :
    FullUnS (as ++ [(t, s)]) = (FullUnS as && FullSel (setWiths s)) := by
  induction as with
  | nil => simp [FullUnS, FullUn]
  | cons a as ih => obtain ⟨u, x⟩ := a; simp_all [FullUnS, FullUn, Bool.and_assoc]
@[grind =] theorem FullE_callNode (s : Option String) (n : String) (a dd : Bool) (ps : List Expr) : FullE (callNode s n a dd ps) = FullNE ps := by
  unfold callNode; split <;> simp [FullE]
@[grind =] theorem tE_callNode (s : Option String) (n : String) (a dd : Bool) (ps : List Expr) (T : List String) :
    Sub (tE (callNode s n a dd ps)) T = (Sub (tOS s) T ∧ n ∈ T ∧ Sub (tEs ps) T) := by
  unfold callNode
  split
  · rename_i h; cases s <;> simp_all [tE_agg, tOS_none, sub_cons, sub_nil]
  · simp [tE_func, sub_append, sub_cons]
/-- a SELECT whose WITH clause is full is full iff it is full with the empty WITH clause -/
theorem FullSel_split (s : Select) : FullSel s = (FullOWTs (withsOf s) && FullSel (setWiths s)) := by
  cases s; simp [FullSel, setWiths, withsOf, FullOWTs, FullWTs]

end PA
