import MsqProofs.Lemmas.ParseAccountDdl4
/-!
# C08, general accounting for the DDL classes — part 5: column-or-index, the element list of CREATE TABLE, CREATE TABLE

`createElems` OVERWRITES the primary key when a second `PRIMARY KEY ( … )` element follows (the same defect as F-C08-4 at another
site: `CREATE TABLE t (a int, b int, PRIMARY KEY (a), PRIMARY KEY (b))` keeps only `(b)`): hypothesis `pkCnt segs ≤ 1`.
-/
set_option linter.unusedVariables false
set_option linter.unusedSectionVars false
set_option linter.unusedSimpArgs false
set_option maxHeartbeats 2000000
open Lex PM Ast

namespace PA
namespace Ddl

theorem ar_all {T : List String} {α : Type} {tx : α → List String} {pl : α → Bool} {sg : List Tok} {a : R α} {v : α}
    (hAR : AR T tx pl sg [] true a) (h : a = .ok (v, [])) (hp : pl v = true) (hs : Sub (tx v) T) : AccAll T sg := by
  have := ((hAR v [] h hp).2 hs).1; rwa [acc3_nil] at this

/-! ### `_parse_column_or_index` (ALTER … ADD / MODIFY / CHANGE) -/
theorem pColOrIdx_acc (T : List String) (d : Gen.D) (f : Nat) (ts : List Tok) (x : ColOrIdx) (r : List Tok) (h : pColOrIdx d f ts = .ok (x, r)) :
    ∃ used, ts = used ++ r ∧ (NoRep used = true → FullCOI x = true → Sub (tCOI x) T → AccAll T used) := by
  have kU : allKw ["UNIQUE", "KEY"] = true := by decide
  have kN : allKw ["KEY"] = true := by decide
  have kF : allKw ["FULLTEXT", "KEY"] = true := by decide
  unfold pColOrIdx at h
  peelD
  · split at h
    · rename_i i r1 hp; simp at h; obtain ⟨rfl, rfl⟩ := h
      obtain ⟨u, e, ha⟩ := ar_used (accD_pPrimaryIndex T _) hp (pPrimaryIndex_consumes _ _ _ hp)
      exact ⟨u, e, fun _ hf hs => ha hf hs⟩
    · simp at h
  peelD
  · split at h
    · rename_i i r1 hp; simp at h; obtain ⟨rfl, rfl⟩ := h
      obtain ⟨u, e, ha⟩ := ar_used (accD_pNamedIndex T .unique _ _ kU) hp (pUniqueIndex_consumes _ _ _ hp)
      exact ⟨u, e, fun _ hf hs => ha hf hs⟩
    · simp at h
  peelD
  · split at h
    · rename_i i r1 hp; simp at h; obtain ⟨rfl, rfl⟩ := h
      obtain ⟨u, e, ha⟩ := ar_used (accD_pNamedIndex T .normal _ _ kN) hp (pNormalIndex_consumes _ _ _ hp)
      exact ⟨u, e, fun _ hf hs => ha hf hs⟩
    · simp at h
  peelD
  · split at h
    · rename_i i r1 hp; simp at h; obtain ⟨rfl, rfl⟩ := h
      obtain ⟨u, e, ha⟩ := ar_used (accD_pNamedIndex T .fulltext _ _ kF) hp (pFulltextIndex_consumes _ _ _ hp)
      exact ⟨u, e, fun _ hf hs => ha hf hs⟩
    · simp at h
  peelD
  · split at h
    · rename_i i r1 hp; simp at h; obtain ⟨rfl, rfl⟩ := h
      obtain ⟨u, e, ha⟩ := ar_used (accD_pForeignKey T _) hp (pForeignKey_consumes _ _ _ hp)
      exact ⟨u, e, fun _ hf hs => ha hf hs⟩
    · simp at h
  · split at h
    · rename_i c r1 hp; simp at h; obtain ⟨rfl, rfl⟩ := h
      exact pDefCol_acc T d f ts c r1 hp
    · simp at h

/-! ### the element list of CREATE TABLE -/
def FullCTe (c : CreateTable) : Bool :=
  FullDCs c.columns && (FullOIdx c.primaryKey && (FullIdxs c.uniqueKey && (FullIdxs c.key && (FullIdxs c.fulltextKey && (FullFKs c.foreignKey &&
    FullDCs c.partitionedBy)))))
theorem FullCT_eq (c : CreateTable) : FullCT c = (FullCTe c && HasElem c) := by simp [FullCT, FullCTe, Bool.and_assoc]
/-- number of `PRIMARY KEY` elements -/
def pkCnt (segs : List (List Tok)) : Nat := segs.countP (fun sg => searchTwoUp sg "PRIMARY" "KEY")

macro "txe" : tactic =>
  `(tactic| (simp only [tDCs_append, tDCs_one, tIdxs_append, tIdxs_one, tFKs_append, tFKs_one, tOIdx_none, tOIdx_some, sub_append, sub_cons, sub_nil] at *;
             grind))
theorem txe_cols {T : List String} {c : CreateTable} (v : DefCol) (hs : Sub (tCTb { c with columns := c.columns ++ [v] }) T) :
    Sub (tDC v) T ∧ Sub (tCTb c) T := by rw [tCTb_eq] at hs; rw [tCTb_eq c]; txe
theorem txe_pk {T : List String} {c : CreateTable} (v : Index) (hn : c.primaryKey = none) (hs : Sub (tCTb { c with primaryKey := some v }) T) :
    Sub (tIdx v) T ∧ Sub (tCTb c) T := by rw [tCTb_eq] at hs; rw [tCTb_eq c]; simp only [hn] at hs ⊢; txe
theorem txe_uk {T : List String} {c : CreateTable} (v : Index) (hs : Sub (tCTb { c with uniqueKey := c.uniqueKey ++ [v] }) T) :
    Sub (tIdx v) T ∧ Sub (tCTb c) T := by rw [tCTb_eq] at hs; rw [tCTb_eq c]; txe
theorem txe_key {T : List String} {c : CreateTable} (v : Index) (hs : Sub (tCTb { c with key := c.key ++ [v] }) T) :
    Sub (tIdx v) T ∧ Sub (tCTb c) T := by rw [tCTb_eq] at hs; rw [tCTb_eq c]; txe
theorem txe_ft {T : List String} {c : CreateTable} (v : Index) (hs : Sub (tCTb { c with fulltextKey := c.fulltextKey ++ [v] }) T) :
    Sub (tIdx v) T ∧ Sub (tCTb c) T := by rw [tCTb_eq] at hs; rw [tCTb_eq c]; txe
theorem txe_fk {T : List String} {c : CreateTable} (v : ForeignKey) (hs : Sub (tCTb { c with foreignKey := c.foreignKey ++ [v] }) T) :
    Sub (tFK v) T ∧ Sub (tCTb c) T := by rw [tCTb_eq] at hs; rw [tCTb_eq c]; txe
macro "fle" : tactic =>
  `(tactic| (simp only [FullCTe, FullDCs_append, FullIdxs_append, FullFKs_append, FullDCs, FullIdxs, FullFKs, FullOIdx, Bool.and_eq_true, Bool.and_true] at *;
             grind))
theorem fle_cols {c : CreateTable} (v : DefCol) (hf : FullCTe { c with columns := c.columns ++ [v] } = true) : FullDC v = true ∧ FullCTe c = true := by fle
theorem fle_pk {c : CreateTable} (v : Index) (hn : c.primaryKey = none) (hf : FullCTe { c with primaryKey := some v } = true) :
    FullIdx v = true ∧ FullCTe c = true := by simp only [FullCTe, hn] at hf ⊢; fle
theorem fle_uk {c : CreateTable} (v : Index) (hf : FullCTe { c with uniqueKey := c.uniqueKey ++ [v] } = true) : FullIdx v = true ∧ FullCTe c = true := by fle
theorem fle_key {c : CreateTable} (v : Index) (hf : FullCTe { c with key := c.key ++ [v] } = true) : FullIdx v = true ∧ FullCTe c = true := by fle
theorem fle_ft {c : CreateTable} (v : Index) (hf : FullCTe { c with fulltextKey := c.fulltextKey ++ [v] } = true) : FullIdx v = true ∧ FullCTe c = true := by fle
theorem fle_fk {c : CreateTable} (v : ForeignKey) (hf : FullCTe { c with foreignKey := c.foreignKey ++ [v] } = true) : FullFK v = true ∧ FullCTe c = true := by fle

/-- the option fields (what `createElems` does not touch) -/
def optsOf (c : CreateTable) :=
  (c.engine, c.autoIncrement, c.defaultCharset, c.rowFormat, c.collate, c.comment, c.statesPersistent, c.rowFormatSerde, c.rowFormatDelimited,
    c.storedAsInputformat, c.outputformat, c.location)
theorem cntO_of_opts {c c0 : CreateTable} {us : List Tok} (h : optsOf c = optsOf c0) (h0 : CntO c0 us) : CntO c us := by
  simp only [optsOf, Prod.mk.injEq] at h
  obtain ⟨h1, h2, h3, h4, h5, h6, h7, h8, h9, h10, h11, h12⟩ := h
  simp only [CntO, h1, h2, h3, h4, h5, h6, h7, h8, h9, h10, h11, h12] at h0 ⊢; exact h0

theorem createElems_acc (T : List String) (d : Gen.D) (f : Nat) : ∀ segs c c', createElems d f segs c = .ok c' →
    optsOf c' = optsOf c ∧ (segs = [] → c' = c) ∧
    ((∀ sg ∈ segs, NoRep sg = true) → pkCnt segs + b2n c.primaryKey.isSome ≤ 1 → FullCTe c' = true →
      FullCTe c = true ∧ (Sub (tCTb c') T → AccAll T segs.flatten ∧ Sub (tCTb c) T)) := by
  have kU : allKw ["UNIQUE", "KEY"] = true := by decide
  have kN : allKw ["KEY"] = true := by decide
  have kF : allKw ["FULLTEXT", "KEY"] = true := by decide
  intro segs
  induction segs with
  | nil =>
    intro c c' h
    simp [createElems] at h; subst h
    exact ⟨rfl, fun _ => rfl, fun _ _ hf => ⟨hf, fun hs => ⟨by simp [AccAll], hs⟩⟩⟩
  | cons sg rest ih =>
    intro c c' h
    unfold createElems at h
    have hne : (sg :: rest = [] → c' = c) := by intro h0; simp at h0
    peelD
    · split at h
      · rename_i v hp
        obtain ⟨o1, _, k⟩ := ih _ _ h
        refine ⟨o1, hne, fun hr hpk hf => ?_⟩
        have hpk1 : pkCnt rest + 1 + b2n c.primaryKey.isSome ≤ 1 := by simpa [pkCnt, List.countP_cons, hcnd] using hpk
        have hn : c.primaryKey = none := by
          cases hx : c.primaryKey with
          | none => rfl
          | some y => simp [hx, b2n] at hpk1
        obtain ⟨f1, k1⟩ := k (fun s hs => hr s (by simp [hs])) (by simp [b2n]; omega) hf
        obtain ⟨f2, f3⟩ := fle_pk v hn f1
        refine ⟨f3, fun hs => ?_⟩
        obtain ⟨a1, s1⟩ := k1 hs
        obtain ⟨s2, s3⟩ := txe_pk v hn s1
        rw [List.flatten_cons, accAll_append]
        exact ⟨⟨ar_all (accD_pPrimaryIndex T sg) ((closed_ok _ _).1 hp) f2 s2, a1⟩, s3⟩
      · simp at h
    have hpk0 : ∀ n, pkCnt (sg :: rest) + n ≤ 1 → pkCnt rest + n ≤ 1 := by
      intro n hn; simp only [pkCnt, List.countP_cons] at hn ⊢; omega
    peelD
    · split at h
      · rename_i v hp
        obtain ⟨o1, _, k⟩ := ih _ _ h
        refine ⟨o1, hne, fun hr hpk hf => ?_⟩
        obtain ⟨f1, k1⟩ := k (fun s hs => hr s (by simp [hs])) (hpk0 _ hpk) hf
        obtain ⟨f2, f3⟩ := fle_uk v f1
        refine ⟨f3, fun hs => ?_⟩
        obtain ⟨a1, s1⟩ := k1 hs
        obtain ⟨s2, s3⟩ := txe_uk v s1
        rw [List.flatten_cons, accAll_append]
        exact ⟨⟨ar_all (accD_pNamedIndex T .unique _ sg kU) ((closed_ok _ _).1 hp) f2 s2, a1⟩, s3⟩
      · simp at h
    peelD
    · split at h
      · rename_i v hp
        obtain ⟨o1, _, k⟩ := ih _ _ h
        refine ⟨o1, hne, fun hr hpk hf => ?_⟩
        obtain ⟨f1, k1⟩ := k (fun s hs => hr s (by simp [hs])) (hpk0 _ hpk) hf
        obtain ⟨f2, f3⟩ := fle_key v f1
        refine ⟨f3, fun hs => ?_⟩
        obtain ⟨a1, s1⟩ := k1 hs
        obtain ⟨s2, s3⟩ := txe_key v s1
        rw [List.flatten_cons, accAll_append]
        exact ⟨⟨ar_all (accD_pNamedIndex T .normal _ sg kN) ((closed_ok _ _).1 hp) f2 s2, a1⟩, s3⟩
      · simp at h
    peelD
    · split at h
      · rename_i v hp
        obtain ⟨o1, _, k⟩ := ih _ _ h
        refine ⟨o1, hne, fun hr hpk hf => ?_⟩
        obtain ⟨f1, k1⟩ := k (fun s hs => hr s (by simp [hs])) (hpk0 _ hpk) hf
        obtain ⟨f2, f3⟩ := fle_ft v f1
        refine ⟨f3, fun hs => ?_⟩
        obtain ⟨a1, s1⟩ := k1 hs
        obtain ⟨s2, s3⟩ := txe_ft v s1
        rw [List.flatten_cons, accAll_append]
        exact ⟨⟨ar_all (accD_pNamedIndex T .fulltext _ sg kF) ((closed_ok _ _).1 hp) f2 s2, a1⟩, s3⟩
      · simp at h
    peelD
    · split at h
      · rename_i v hp
        obtain ⟨o1, _, k⟩ := ih _ _ h
        refine ⟨o1, hne, fun hr hpk hf => ?_⟩
        obtain ⟨f1, k1⟩ := k (fun s hs => hr s (by simp [hs])) (hpk0 _ hpk) hf
        obtain ⟨f2, f3⟩ := fle_fk v f1
        refine ⟨f3, fun hs => ?_⟩
        obtain ⟨a1, s1⟩ := k1 hs
        obtain ⟨s2, s3⟩ := txe_fk v s1
        rw [List.flatten_cons, accAll_append]
        exact ⟨⟨ar_all (accD_pForeignKey T sg) ((closed_ok _ _).1 hp) f2 s2, a1⟩, s3⟩
      · simp at h
    · split at h
      · rename_i v hp
        obtain ⟨o1, _, k⟩ := ih _ _ h
        refine ⟨o1, hne, fun hr hpk hf => ?_⟩
        obtain ⟨f1, k1⟩ := k (fun s hs => hr s (by simp [hs])) (hpk0 _ hpk) hf
        obtain ⟨f2, f3⟩ := fle_cols v f1
        refine ⟨f3, fun hs => ?_⟩
        obtain ⟨a1, s1⟩ := k1 hs
        obtain ⟨s2, s3⟩ := txe_cols v s1
        obtain ⟨used, e, k2⟩ := pDefCol_acc T d f sg v [] ((closed_ok _ _).1 hp)
        simp only [List.append_nil] at e; subst e
        rw [List.flatten_cons, accAll_append]
        exact ⟨⟨k2 (hr _ (by simp)) f2 s2, a1⟩, s3⟩
      · simp at h

end Ddl
end PA
