import MsqProofs.Lemmas.ParseWN
import MsqModel.Print
/-!
# C02 — `Derives` and the printer's level function `PR.lvl`

`derives_shape`: a tree derived at level `L` has printer level at most `L` (2 for the prefix level 1) — unless the whole token list
is one bracket group.  This is the invariant "`Shape L e := lvl e ≤ L ∨ e was written as a bracket group`" of every operand
position: e.g. in `Derives.or_` the right operand derives at level 13, hence is no OR node unless it was bracketed.
-/
set_option linter.unusedVariables false
open Lex
namespace WNG
open PM Ast

theorem lvl_compute {s o : String} {k : Nat} (h : computeOp? s = some (o, k)) (a b : Expr) : PR.lvl (.compute a o b) = k := by
  unfold computeOp? at h
  split at h
  · cases h
  · rename_i nm _
    cases hf : Gen.computeEnum.find? (·.1 == nm) with
    | none => rw [hf] at h; cases h
    | some e =>
      rw [hf] at h
      simp only [Option.map_some, Option.some.injEq, Prod.mk.injEq] at h
      obtain ⟨rfl, rfl⟩ := h
      simp [PR.lvl, hf]

theorem lvl_callNode (s : Option String) (n : String) (a b : Bool) (ps : List Expr) : PR.lvl (callNode s n a b ps) = 0 := by
  unfold callNode; split <;> simp [PR.lvl]

theorem lvl_castTail {e c : Expr} {ts : List Tok} (h : castTail e ts = .ok c) : PR.lvl c = 0 := by
  unfold castTail at h
  simp only at h
  repeat' split at h
  all_goals (cases h <;> rfl)

theorem lvl_winSpec {d : Gen.D} {fn w : Expr} {cs : List Tok} (h : WinSpec d fn cs w) : PR.lvl w = 0 := by
  obtain ⟨f, h⟩ := h
  cases f with
  | zero => simp [pWindowBody] at h
  | succ f =>
    unfold pWindowBody at h
    repeat' split at h
    all_goals (cases h <;> rfl)

/-- **shape of an operand**: derived at level `L` ⇒ printer level ≤ `L` (≤ 2 at the prefix level), or one bracket group -/
theorem derives_shape {d : Gen.D} : ∀ {L : Nat} {ts : List Tok} {e : Expr}, Derives d L ts e →
    PR.lvl e ≤ max L 2 ∨ ∃ g, ts = [g] ∧ g.has PAREN = true
  | _, _, _, .up h hl => by
      rcases derives_shape h with h1 | h2
      · exact .inl (by omega)
      · exact .inr h2
  | _, _, _, .or_ _ _ _ => .inl (by first | (simp [PR.lvl]; done) | exact Nat.zero_le _)
  | _, _, _, .xor _ _ _ => .inl (by first | (simp [PR.lvl]; done) | exact Nat.zero_le _)
  | _, _, _, .and_ _ _ _ => .inl (by first | (simp [PR.lvl]; done) | exact Nat.zero_le _)
  | _, _, _, .not_ _ _ => .inl (by first | (simp [PR.lvl]; done) | exact Nat.zero_le _)
  | _, _, _, .compare _ _ _ => .inl (by first | (simp [PR.lvl]; done) | exact Nat.zero_le _)
  | _, _, _, .between _ _ _ _ _ _ => .inl (by first | (simp [PR.lvl]; done) | exact Nat.zero_le _)
  | _, _, _, .is_ _ _ _ _ => .inl (by first | (simp [PR.lvl]; done) | exact Nat.zero_le _)
  | _, _, _, .isNot_ _ _ _ _ => .inl (by first | (simp [PR.lvl]; done) | exact Nat.zero_le _)
  | _, _, _, .like _ _ _ _ => .inl (by first | (simp [PR.lvl]; done) | exact Nat.zero_le _)
  | _, _, _, .inList _ _ _ _ _ => .inl (by first | (simp [PR.lvl]; done) | exact Nat.zero_le _)
  | _, _, _, .inQuery _ _ _ _ _ => .inl (by first | (simp [PR.lvl]; done) | exact Nat.zero_le _)
  | _, _, _, .exists_ _ _ => .inl (by first | (simp [PR.lvl]; done) | exact Nat.zero_le _)
  | _, _, _, .compute ho _ _ => .inl (by rw [lvl_compute ho]; omega)
  | _, _, _, .unary _ _ _ => .inl (by first | (simp [PR.lvl]; done) | exact Nat.zero_le _)
  | _, _, _, .literal _ => .inl (by first | (simp [PR.lvl]; done) | exact Nat.zero_le _)
  | _, _, _, .paren _ hp _ _ => .inr ⟨_, rfl, hp⟩
  | _, _, _, .subQuery _ _ _ _ => .inl (by first | (simp [PR.lvl]; done) | exact Nat.zero_le _)
  | _, _, _, .caseCond _ _ _ => .inl (by first | (simp [PR.lvl]; done) | exact Nat.zero_le _)
  | _, _, _, .caseVal _ _ _ _ => .inl (by first | (simp [PR.lvl]; done) | exact Nat.zero_le _)
  | _, _, _, .wildcard _ => .inl (by first | (simp [PR.lvl]; done) | exact Nat.zero_le _)
  | _, _, _, .column _ _ => .inl (by first | (simp [PR.lvl]; done) | exact Nat.zero_le _)
  | _, _, _, .qcolumn _ _ => .inl (by first | (simp [PR.lvl]; done) | exact Nat.zero_le _)
  | _, _, _, .qwildcard _ _ => .inl (by first | (simp [PR.lvl]; done) | exact Nat.zero_le _)
  | _, _, _, .index _ _ _ => .inl (by first | (simp [PR.lvl]; done) | exact Nat.zero_le _)
  | _, _, _, .call _ _ => .inl (by rw [lvl_callNode]; omega)
  | _, _, _, .ifCall _ _ _ => .inl (by first | (simp [PR.lvl]; done) | exact Nat.zero_le _)
  | _, _, _, .cast _ _ _ _ _ hc => .inl (by rw [lvl_castTail hc]; omega)
  | _, _, _, .extract _ _ _ _ _ _ => .inl (by first | (simp [PR.lvl]; done) | exact Nat.zero_le _)
  | _, _, _, .window _ _ hw => .inl (by rw [lvl_winSpec hw]; omega)

/-- nothing derives from the empty token list -/
theorem derives_nonempty {d : Gen.D} : ∀ {L : Nat} {ts : List Tok} {e : Expr}, Derives d L ts e → ts ≠ []
  | _, _, _, .up h _ => derives_nonempty h
  | _, _, _, .or_ _ _ _ => by simp
  | _, _, _, .xor _ _ _ => by simp
  | _, _, _, .and_ _ _ _ => by simp
  | _, _, _, .not_ _ _ => by simp
  | _, _, _, .compare _ _ _ => by simp
  | _, _, _, .between _ _ _ _ _ _ => by simp
  | _, _, _, .is_ _ _ _ _ => by simp
  | _, _, _, .isNot_ _ _ _ _ => by simp
  | _, _, _, .like _ _ _ _ => by simp
  | _, _, _, .inList _ _ _ _ _ => by simp
  | _, _, _, .inQuery _ _ _ _ _ => by simp
  | _, _, _, .exists_ _ _ => by simp
  | _, _, _, .compute _ _ _ => by simp
  | _, _, _, .unary _ _ _ => by simp
  | _, _, _, .literal _ => by simp
  | _, _, _, .paren _ _ _ _ => by simp
  | _, _, _, .subQuery _ _ _ _ => by simp
  | _, _, _, .caseCond _ _ _ => by simp
  | _, _, _, .caseVal _ _ _ _ => by simp
  | _, _, _, .wildcard _ => by simp
  | _, _, _, .column _ _ => by simp
  | _, _, _, .qcolumn _ _ => by simp
  | _, _, _, .qwildcard _ _ => by simp
  | _, _, _, .index _ _ _ => by simp
  | _, _, _, .call _ _ => by simp
  | _, _, _, .ifCall _ _ _ => by simp
  | _, _, _, .cast _ _ _ _ _ _ => by simp
  | _, _, _, .extract _ _ _ _ _ _ => by simp
  | _, _, _, .window _ _ _ => by simp

end WNG
