import MsqModel.Lex.Summary
/-! soundness of `summarize`: running the instruction list = running its summary -/
namespace Lex

variable (env : Env) (ss : S) (sm : Nat) (sym : Sym)

theorem exec_ret (st : St × Bool) (is : List Instr) (h : parseRet is = some st) (r : Regs) (m : Mem) :
    exec env ss sm sym is r m = .ok ({ m with status := st.1.resolve ss m.status }, st.2) := by
  unfold parseRet at h
  split at h <;> simp at h <;> subst h <;> simp [exec, St.resolve]

theorem exec_tail (adv : Bool) (dg : Option Nat) (is : List Instr) (s : Summary)
    (h : parseTail adv dg is = some s) (m : Mem) :
    exec env ss sm sym is {} m = execCore env ss sm false s.body s.grp s.st s.ret m
      ∧ s.adv = adv ∧ s.depthGuard = dg ∧ s.raises = false := by
  unfold parseTail at h
  split at h
  all_goals
    simp only [Option.map_eq_some_iff] at h
    obtain ⟨x, hx, rfl⟩ := h
    refine ⟨?_, rfl, rfl, rfl⟩
  · simp only [exec, execCore, mkSummary]
    cases hap : appendTop _ m.stack with
    | none => simp [hap]
    | some stk => simp [hap, exec_ret env ss sm sym x _ hx]
  · simp [exec, execCore, mkSummary, exec_ret env ss sm sym x _ hx]
  · simp only [exec, execCore, mkSummary]
    cases hst : m.stack with
    | nil => simp
    | cons f fs =>
      simp only []
      cases hap : appendTop _ fs with
      | none => simp [hap]
      | some stk => simp [hap, exec_ret env ss sm sym x _ hx]
  · simp [exec, execCore, mkSummary, exec_ret env ss sm sym x _ hx]
  · simp [execCore, mkSummary, exec_ret env ss sm sym x _ hx]

theorem execCore_adv (body : Body) (grp : Grp) (st : St) (ret : Bool) (m : Mem) :
    execCore env ss sm true body grp st ret m =
      execCore env ss sm false body grp st ret { m with now := m.now + 1 } := by
  simp [execCore]

theorem exec_adv (dg : Option Nat) (is : List Instr) (s : Summary) (h : parseAdv dg is = some s) (m : Mem) :
    exec env ss sm sym is {} m = execCore env ss sm s.adv s.body s.grp s.st s.ret m
      ∧ s.depthGuard = dg ∧ s.raises = false := by
  unfold parseAdv at h
  split at h
  · rename_i is'
    obtain ⟨ht, ha, hd, hr⟩ := exec_tail env ss sm sym true dg is' s h { m with now := m.now + 1 }
    refine ⟨?_, hd, hr⟩
    simp only [exec]
    rw [ht, ha, execCore_adv]
  · obtain ⟨ht, ha, hd, hr⟩ := exec_tail env ss sm sym false dg is s h m
    exact ⟨by rw [ht, ha], hd, hr⟩

theorem exec_summarize (is : List Instr) (s : Summary) (h : summarize is = some s) (m : Mem) :
    exec env ss sm sym is {} m = execS env ss sm s m := by
  unfold summarize at h
  split at h
  · rename_i k is'
    obtain ⟨he, hd, hr⟩ := exec_adv env ss sm sym (some k) is' s h m
    simp only [exec, execS, Summary.blocked, hd, hr]
    by_cases hk : m.stack.length ≤ k
    · simp [hk]
    · simp [hk, he]
  · simp at h; subst h
    cases sym <;> simp [exec, execS, Summary.blocked]
  · simp at h; subst h
    simp [exec, execS, Summary.blocked]
  · obtain ⟨he, hd, hr⟩ := exec_adv env ss sm sym none is s h m
    simp [execS, Summary.blocked, hd, hr, he]

end Lex
