import MsqProofs.Lemmas.ParseCase2
/-!
# C09, parser half, SHARP form for the lexer's reserved words — part 0: the text map `km` and `kmAll` on the typed trees

`reservedL` — the entries of the lexer's keyword table that carry NO mark (24 of the 27: the other three, `TRUE` `FALSE` `NULL`, are
LITERAL tokens and are stored by the parser as they are written).
`km s` — the stored text `s` with the one thing forgotten that the letter case of a reserved word can change in a tree: a text that IS a
reserved word (case-insensitively), or the rendering `(`…`)` of a bracket group, is mapped to its `str.upper()`; every other text is kept.
`kmE`, `kmS`, `kmQ`, … — the tree with every stored text mapped through `km` (derived from `upE` … of `ParseCase0.lean` by
`tools/gen_kcase.py`).  Two trees with the same `kmAll` are EQUAL except that a stored reserved word / bracket text may differ in case.
-/
set_option linter.unusedSimpArgs false
set_option linter.unusedVariables false
open Lex Ast
namespace PM

/-- the keyword-table entries without a mark: the reserved words -/
def reservedL : List (List Char) := (Gen.wordMarks.filter (·.2 == 0)).map (·.1.toList)
/-- the text is (case-insensitively) a reserved word, or starts like the rendering of a bracket group -/
def kmHit (s : String) : Bool := reservedL.contains (Gen.pyUpper s.toList) || s.toList.head? == some '('
/-- a stored text up to the letter case of reserved words -/
def km (s : String) : String := if kmHit s then up s else s

theorem km_word {s : List Char} (h : reservedL.contains (Gen.pyUpper s) = true) : km (String.ofList s) = up (String.ofList s) := by
  have : kmHit (String.ofList s) = true := by simp only [kmHit, String.toList_ofList, h, Bool.true_or]
  simp only [km, this, if_true]
theorem km_paren (l : List Char) : km (String.ofList ('(' :: l)) = up (String.ofList ('(' :: l)) := by
  have : kmHit (String.ofList ('(' :: l)) = true := by simp [kmHit, String.toList_ofList]
  simp only [km, this, if_true]
/-- a text that `km` keeps -/
theorem km_of_not_hit {s : String} (h : kmHit s = false) : km s = s := by simp [km, h]

/-! ### `kmAll` on the typed trees -/
mutual
def kmE : Expr → Expr
  | .column t n => .column (t.map km) (km n)
  | .literal v => .literal (km v)
  | .wildcard t => .wildcard (t.map km)
  | .func s n ps => .func (s.map km) (km n) (kmEs ps)
  | .agg n ps d => .agg (km n) (kmEs ps) d
  | .cast e sg ty ps => .cast (kmE e) sg (km ty) ps
  | .extract n e => .extract (kmE n) (kmE e)
  | .window fn part ord rows => .window (kmE fn) (kmEs part) (kmOs ord) rows
  | .caseCond cs e => .caseCond (kmArms cs) (kmEo e)
  | .caseVal v cs e => .caseVal (kmE v) (kmArms cs) (kmEo e)
  | .subValue vs => .subValue (kmEs vs)
  | .subQuery q => .subQuery (kmQ q)
  | .exists_ q => .exists_ (kmE q)
  | .index a i => .index (kmE a) (kmE i)
  | .unary op e => .unary (km op) (kmE e)
  | .compute l op r => .compute (kmE l) (km op) (kmE r)
  | .kw k n l r => .kw k n (kmE l) (kmE r)
  | .between n b f t => .between n (kmE b) (kmE f) (kmE t)
  | .compare op l r => .compare (km op) (kmE l) (kmE r)
  | .not_ e => .not_ (kmE e)
  | .and_ l r => .and_ (kmE l) (kmE r)
  | .xor l r => .xor (kmE l) (kmE r)
  | .or_ l r => .or_ (kmE l) (kmE r)
  | .mybatis s => .mybatis (km s)
def kmEs : List Expr → List Expr
  | [] => [] | e :: r => kmE e :: kmEs r
def kmEo : Option Expr → Option Expr
  | none => none | some e => some (kmE e)
def kmArms : List (Expr × Expr) → List (Expr × Expr)
  | [] => [] | (w, t) :: r => (kmE w, kmE t) :: kmArms r
def kmO : OrderItem → OrderItem
  | .mk e d nf nl => .mk (kmE e) d nf nl
def kmOs : List OrderItem → List OrderItem
  | [] => [] | o :: r => kmO o :: kmOs r
def kmTR : TableRef → TableRef
  | .table s n => .table (s.map km) (km n)
  | .sub q => .sub (kmQ q)
def kmFT : FromTable → FromTable
  | .mk t a => .mk (kmTR t) (a.map km)
def kmFTs : List FromTable → List FromTable
  | [] => [] | t :: r => kmFT t :: kmFTs r
def kmJR : JoinRule → JoinRule
  | .on e => .on (kmE e) | .using f => .using (kmE f)
def kmJ : Join → Join
  | .mk ty t none => .mk (km ty) (kmFT t) none
  | .mk ty t (some r) => .mk (km ty) (kmFT t) (some (kmJR r))
def kmJs : List Join → List Join
  | [] => [] | j :: r => kmJ j :: kmJs r
def kmEss : List (List Expr) → List (List Expr)
  | [] => [] | g :: r => kmEs g :: kmEss r
def kmG : GroupBy → GroupBy
  | .mk cols none cube rollup => .mk (kmEs cols) none cube rollup
  | .mk cols (some sets) cube rollup => .mk (kmEs cols) (some (kmEss sets)) cube rollup
def kmLat : Lateral → Lateral
  | .mk o fn v as => .mk o (kmE fn) (km v) (as.map km)
def kmLats : List Lateral → List Lateral
  | [] => [] | l :: r => kmLat l :: kmLats r
def kmW : WithTable → WithTable
  | .mk n q => .mk (km n) (kmQ q)
def kmWs : List WithTable → List WithTable
  | [] => [] | w :: r => kmW w :: kmWs r
def kmCols : List (Expr × Option String) → List (Expr × Option String)
  | [] => [] | (e, a) :: r => (kmE e, a.map km) :: kmCols r
def kmWso : Option (List WithTable) → Option (List WithTable)
  | none => none | some l => some (kmWs l)
def kmFTso : Option (List FromTable) → Option (List FromTable)
  | none => none | some l => some (kmFTs l)
def kmGo : Option GroupBy → Option GroupBy
  | none => none | some g => some (kmG g)
def kmOso : Option (List OrderItem) → Option (List OrderItem)
  | none => none | some l => some (kmOs l)
def kmEso : Option (List Expr) → Option (List Expr)
  | none => none | some l => some (kmEs l)
def kmS : Select → Select
  | .mk withs dist cols fr lats js wh gb hv ob sb db cb lm =>
    .mk (kmWso withs) dist (kmCols cols) (kmFTso fr) (kmLats lats) (kmJs js) (kmEo wh) (kmGo gb) (kmEo hv) (kmOso ob) (kmOso sb) (kmEso db) (kmEso cb) lm
def kmUs : List (String × Select) → List (String × Select)
  | [] => [] | (n, s) :: r => (km n, kmS s) :: kmUs r
def kmQ : Query → Query
  | .single s => .single (kmS s)
  | .union withs first rest => .union (kmWso withs) (kmS first) (kmUs rest)
end

/-- the stack of the compute loop -/
def kmSt (st : List (Expr × String × Nat)) : List (Expr × String × Nat) := st.map fun p => (kmE p.1, km p.2.1, p.2.2)

@[grind =] theorem kmEs_eq : ∀ l, kmEs l = l.map kmE := by intro l; induction l <;> simp [kmEs, *]
@[grind =] theorem kmEo_eq : ∀ o, kmEo o = o.map kmE := by intro o; cases o <;> simp [kmEo]
@[grind =] theorem kmArms_eq : ∀ l, kmArms l = l.map (Prod.map kmE kmE) := by
  intro l; induction l with | nil => simp [kmArms] | cons p r ih => obtain ⟨w, t⟩ := p; simp [kmArms, ih]
@[grind =] theorem kmOs_eq : ∀ l, kmOs l = l.map kmO := by intro l; induction l <;> simp [kmOs, *]
@[grind =] theorem kmFTs_eq : ∀ l, kmFTs l = l.map kmFT := by intro l; induction l <;> simp [kmFTs, *]
@[grind =] theorem kmJs_eq : ∀ l, kmJs l = l.map kmJ := by intro l; induction l <;> simp [kmJs, *]
@[grind =] theorem kmEss_eq : ∀ l, kmEss l = l.map (List.map kmE) := by intro l; induction l <;> simp [kmEss, kmEs_eq, *]
@[grind =] theorem kmLats_eq : ∀ l, kmLats l = l.map kmLat := by intro l; induction l <;> simp [kmLats, *]
@[grind =] theorem kmWs_eq : ∀ l, kmWs l = l.map kmW := by intro l; induction l <;> simp [kmWs, *]
@[grind =] theorem kmCols_eq : ∀ l, kmCols l = l.map (Prod.map kmE (Option.map km)) := by
  intro l; induction l with | nil => simp [kmCols] | cons p r ih => obtain ⟨e, a⟩ := p; simp [kmCols, ih]
@[grind =] theorem kmUs_eq : ∀ l, kmUs l = l.map (Prod.map km kmS) := by
  intro l; induction l with | nil => simp [kmUs] | cons p r ih => obtain ⟨n, s⟩ := p; simp [kmUs, ih]
@[grind =] theorem kmWso_eq : ∀ o, kmWso o = o.map (List.map kmW) := by intro o; cases o <;> simp [kmWso, kmWs_eq]
@[grind =] theorem kmFTso_eq : ∀ o, kmFTso o = o.map (List.map kmFT) := by intro o; cases o <;> simp [kmFTso, kmFTs_eq]
@[grind =] theorem kmGo_eq : ∀ o, kmGo o = o.map kmG := by intro o; cases o <;> simp [kmGo]
@[grind =] theorem kmOso_eq : ∀ o, kmOso o = o.map (List.map kmO) := by intro o; cases o <;> simp [kmOso, kmOs_eq]
@[grind =] theorem kmEso_eq : ∀ o, kmEso o = o.map (List.map kmE) := by intro o; cases o <;> simp [kmEso, kmEs_eq]
@[grind =] theorem kmJ_mk (ty : String) (t : FromTable) (r : Option JoinRule) : kmJ (.mk ty t r) = .mk (km ty) (kmFT t) (r.map kmJR) := by
  cases r <;> simp [kmJ]
@[grind =] theorem kmG_mk (cols : List Expr) (sets : Option (List (List Expr))) (c r : Bool) :
    kmG (.mk cols sets c r) = .mk (cols.map kmE) (sets.map (List.map (List.map kmE))) c r := by
  cases sets <;> simp [kmG, kmEs_eq, kmEss_eq]
@[grind =] theorem kmS_mk (withs : Option (List WithTable)) (dist : Bool) (cols : List (Expr × Option String)) (fr : Option (List FromTable))
    (lats : List Lateral) (js : List Join) (wh : Option Expr) (gb : Option GroupBy) (hv : Option Expr) (ob sb : Option (List OrderItem))
    (db cb : Option (List Expr)) (lm : Option (Int × Option Int)) :
    kmS (.mk withs dist cols fr lats js wh gb hv ob sb db cb lm) =
      .mk (withs.map (List.map kmW)) dist (cols.map (Prod.map kmE (Option.map km))) (fr.map (List.map kmFT)) (lats.map kmLat) (js.map kmJ)
        (wh.map kmE) (gb.map kmG) (hv.map kmE) (ob.map (List.map kmO)) (sb.map (List.map kmO)) (db.map (List.map kmE)) (cb.map (List.map kmE)) lm := by
  simp [kmS, kmEs_eq, kmEo_eq, kmOs_eq, kmFTs_eq, kmJs_eq, kmLats_eq, kmWs_eq, kmCols_eq, kmWso_eq, kmFTso_eq, kmGo_eq, kmOso_eq, kmEso_eq]
@[grind =] theorem kmQ_union (withs : Option (List WithTable)) (first : Select) (rest : List (String × Select)) :
    kmQ (.union withs first rest) = .union (withs.map (List.map kmW)) (kmS first) (rest.map (Prod.map km kmS)) := by
  simp [kmQ, kmWso_eq, kmUs_eq]
@[grind =] theorem kmQ_single (s : Select) : kmQ (.single s) = .single (kmS s) := by simp [kmQ]

end PM
