import MsqProofs.Lemmas.LexLossless
/-!
# C19, text level: the token tree is no larger than (a constant times) the text

`sizeL` counts every node of the token tree: leaf tokens and bracket groups.  One `handle` call runs one summarised operation
(`execCore`), which adds at most one leaf (its `emit`) and at most one group (its `pop`); the lexer makes at most two `handle` calls per
character and one for END.  Hence `sizeL (lex text) ≤ 4·|text| + 2` for EVERY table that satisfies the table obligation `TableOK` (which
says, among other things, that every reachable operation has a summary) — the eight generated tables do.

Also: the pre-passes (`preproc_sql`'s replacement chain, the dialect rewrites of `parse_statements`) never lengthen the text.
-/
namespace Lex
variable {Cls : Type}

/-- nodes in all open frames -/
def sizeSt : List (List Tok) → Nat
  | [] => 0
  | f :: fs => sizeL f + sizeSt fs

theorem sizeL_append (a b : List Tok) : sizeL (a ++ b) = sizeL a + sizeL b := by
  induction a with
  | nil => simp [sizeL]
  | cons t ts ih => simp [sizeL, ih]; omega

theorem sizeSt_appendTop (t : Tok) (st st' : List (List Tok)) (h : appendTop t st = some st') :
    sizeSt st' = sizeSt st + t.size := by
  cases st with
  | nil => simp [appendTop] at h
  | cons f fs =>
    simp [appendTop] at h; subst h
    simp [sizeSt, sizeL_append, sizeL]; omega

theorem sizeL_le_sizeSt_getLast (st : List (List Tok)) (f : List Tok) (h : st.getLast? = some f) : sizeL f ≤ sizeSt st := by
  induction st with
  | nil => simp at h
  | cons g gs ih =>
    cases gs with
    | nil => simp at h; subst h; simp [sizeSt]
    | cons g2 gs2 =>
      have : (g2 :: gs2).getLast? = some f := by simpa [List.getLast?_cons_cons] using h
      have := ih this
      simp only [sizeSt] at *; omega

/-- one summarised operation adds at most two nodes: the leaf it emits and the group it closes -/
theorem execCore_size (env : Env) (ss : S) (sm : Nat) (adv : Bool) (body : Body) (grp : Grp) (st : St) (ret : Bool) (m m' : Mem) (b : Bool)
    (h : execCore env ss sm adv body grp st ret m = .ok (m', b)) : sizeSt m'.stack ≤ sizeSt m.stack + 2 := by
  unfold execCore at h
  -- the body
  have hb : ∀ start stk, (match body with
      | .keep => (.ok (m.start, m.stack) : Except Err (Nat × List (List Tok)))
      | .drop => .ok ((if adv then m.now + 1 else m.now), m.stack)
      | .emit mk =>
        match appendTop (.single ((env.text.drop m.start).take ((if adv then m.now + 1 else m.now) - m.start))
            (resolveMarks env.upper env.wordMarks sm ((env.text.drop m.start).take ((if adv then m.now + 1 else m.now) - m.start)) mk)) m.stack with
        | none => .error (.py .IndexError)
        | some stk => .ok ((if adv then m.now + 1 else m.now), stk)) = .ok (start, stk) → sizeSt stk ≤ sizeSt m.stack + 1 := by
    intro start stk hr
    cases body with
    | keep => simp at hr; rw [← hr.2]; omega
    | drop => simp at hr; rw [← hr.2]; omega
    | emit mk =>
      simp only at hr
      split at hr
      · simp at hr
      · rename_i stk1 hap
        simp at hr; rw [← hr.2, sizeSt_appendTop _ _ _ hap]; simp [Tok.size]
  simp only at h
  split at h
  · simp at h
  · rename_i start stk hr
    have h1 := hb start stk hr
    cases grp with
    | none => simp at h; rw [← h.1]; simp; omega
    | push => simp at h; rw [← h.1]; simp [sizeSt, sizeL]; omega
    | pop k mk =>
      simp only at h
      cases hst : stk with
      | nil => simp [hst] at h
      | cons f fs =>
        simp only [hst] at h
        split at h
        · simp at h
        · rename_i stk2 hap
          simp at h; rw [← h.1]
          have := sizeSt_appendTop _ _ _ hap
          simp only [this, Tok.size]
          rw [hst] at h1; simp only [sizeSt] at h1; omega

section table
variable (cfg : Cfg Cls) (advSt : List S) (wk : S → WK) (text : List Char)

theorem handle_char_size (hT : TableOK cfg advSt wk = true) (m m' : Mem) (c : Char) (b : Bool)
    (h : handle cfg text m (.ch c) = .ok (m', b)) : sizeSt m'.stack ≤ sizeSt m.stack + 2 := by
  obtain ⟨co, hco, hcell⟩ := TableOK.char hT m.status c
  cases ho : cfg.lookup m.status (.ch c) with
  | none => simp [handle, ho] at h
  | some o =>
    simp only [ho, charOK] at hcell
    cases hs : summarize (cfg.code o.cls) with
    | none => simp [hs] at hcell
    | some sm =>
      rw [handle_eq cfg text m _ o sm ho hs] at h
      obtain ⟨_, h⟩ := execS_ok _ _ _ sm m m' b h
      exact execCore_size _ _ _ _ _ _ _ _ _ _ _ h

theorem handle_eof_size (hT : TableOK cfg advSt wk = true) (m m' : Mem) (b : Bool)
    (h : handle cfg text m .eof = .ok (m', b)) : sizeSt m'.stack ≤ sizeSt m.stack + 2 := by
  have hc := TableOK.eof hT m.status
  cases ho : cfg.lookup m.status .eof with
  | none => simp [handle, ho] at h
  | some o =>
    simp only [ho, eofOK] at hc
    cases hs : summarize (cfg.code o.cls) with
    | none => simp [hs] at hc
    | some sm =>
      rw [handle_eq cfg text m _ o sm ho hs] at h
      obtain ⟨_, h⟩ := execS_ok _ _ _ sm m m' b h
      exact execCore_size _ _ _ _ _ _ _ _ _ _ _ h

theorem feed_size (hT : TableOK cfg advSt wk = true) (m m' : Mem) (c : Char) (h : feed cfg text m c = .ok m') :
    sizeSt m'.stack ≤ sizeSt m.stack + 4 := by
  unfold feed feedWith at h
  split at h
  · simp at h
  · rename_i m1 h1
    simp at h; subst h
    have := handle_char_size cfg advSt wk text hT m m1 c true h1; omega
  · rename_i m1 h1
    have := handle_char_size cfg advSt wk text hT m m1 c false h1
    split at h
    · simp at h
    · rename_i m2 b2 h2
      simp at h; subst h
      have := handle_char_size cfg advSt wk text hT m1 m2 c b2 h2; omega

theorem feedAll_size (hT : TableOK cfg advSt wk = true) (cs : List Char) (m m' : Mem) (h : feedAll cfg text cs m = .ok m') :
    sizeSt m'.stack ≤ sizeSt m.stack + 4 * cs.length := by
  induction cs generalizing m with
  | nil => simp [feedAll, feedAllWith] at h; subst h; simp
  | cons c cs ih =>
    simp only [feedAll, feedAllWith] at h
    split at h
    · simp at h
    · rename_i m1 h1
      have := feed_size cfg advSt wk text hT m m1 c h1
      have := ih m1 h
      simp only [List.length_cons]; omega

/-- **the token tree has at most `4·|text| + 2` nodes** (leaf tokens and bracket groups), for every table under the table obligation -/
theorem lex_size (hT : TableOK cfg advSt wk = true) (raw : List Char) (toks : List Tok) (h : lex cfg raw = .ok toks) :
    sizeL toks ≤ 4 * (cfg.pre raw).length + 2 := by
  unfold lex lexWith at h
  simp only at h
  split at h
  · simp at h
  · rename_i m hm
    have h1 := feedAll_size cfg advSt wk (cfg.pre raw) hT (cfg.pre raw) {} m hm
    split at h
    · simp at h
    · rename_i m' b hm'
      have h2 := handle_eof_size cfg advSt wk (cfg.pre raw) hT m m' b hm'
      unfold finish at h
      split at h
      · simp at h
      · split at h
        · simp at h
        · split at h
          · rename_i f hf
            simp at h; subst h
            have h3 := sizeL_le_sizeSt_getLast _ _ hf
            have h0 : sizeSt ({} : Mem).stack = 0 := by simp [sizeSt, sizeL]
            omega
          · simp at h
end table

/-! ### the pre-passes never lengthen the text -/
theorem replaceGo_length_le (pat rep : List Char) (hl : rep.length ≤ pat.length) : ∀ f t, (Py.replaceGo pat rep f t).length ≤ t.length := by
  intro f
  induction f with
  | zero => intro t; simp [Py.replaceGo]
  | succ f ih =>
    intro t
    cases t with
    | nil => simp [Py.replaceGo]
    | cons c r =>
      simp only [Py.replaceGo]
      split
      · rename_i hp
        have hle : pat.length ≤ (c :: r).length := (List.isPrefixOf_iff_prefix.mp hp).length_le
        have := ih ((c :: r).drop pat.length)
        simp only [List.length_append, List.length_drop] at *; omega
      · have := ih r; simp only [List.length_cons]; omega

theorem replace_length_le (pat rep t : List Char) (hl : rep.length ≤ pat.length) : (Py.replace pat rep t).length ≤ t.length := by
  unfold Py.replace; split
  · exact Nat.le_refl _
  · exact replaceGo_length_le pat rep hl _ t

theorem preWith_length_le (chain : List (List Char × List Char)) (hc : ∀ pr ∈ chain, pr.2.length ≤ pr.1.length) (t : List Char) :
    (preWith chain t).length ≤ t.length := by
  unfold preWith
  induction chain generalizing t with
  | nil => simp
  | cons pr rest ih =>
    simp only [List.foldl_cons]
    have h1 := replace_length_le pr.1 pr.2 t (hc pr (by simp))
    have h2 := ih (fun p hp => hc p (by simp [hp])) (Py.replace pr.1 pr.2 t)
    omega

end Lex
