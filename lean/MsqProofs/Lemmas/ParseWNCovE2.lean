import MsqProofs.Lemmas.ParseWNCovE1
/-!
# C02 at the clause level, fuel step, part 2: WITH, the clauses of a single SELECT, bracketed SELECTs, set operations
-/
set_option linter.unusedVariables false
open Lex
namespace WNG
open PM Ast
variable {d : Gen.D} {n : Nat}

theorem cv_pWithBody (ih : CV d n) : ∀ T name r1 v r, Sub T r1 → pWithBody d (n+1) name r1 = .ok (v, r) → CovL d T (exprsW v) := by
  intro T name r1 v r hs h
  unfold pWithBody at h
  split at h
  · cases h
  · rename_i g r2
    split at h
    · rename_i q hq
      obtain ⟨rfl, rfl⟩ := ret2 h
      rw [closed_ok] at hq
      simpa [exprsW] using ih.pSelectStmt T (some []) g.children q [] hs.head_child (by simpa [exprsOW, exprsWs] using CovL.nil) hq
    · cases h

theorem cv_pWithTable (ih : CV d n) : ∀ T ts v r, Sub T ts → pWithTable d (n+1) ts = .ok (v, r) → CovL d T (exprsW v) := by
  intro T ts v r hs h
  unfold pWithTable at h
  split at h
  · cases h
  · rename_i t r0
    split at h
    · cases h
    · rename_i r1 hm
      exact ih.pWithBody T _ r1 v r (hs.tail.of_cons (matchSeq_cons r0 _ _ r1 hm)) h

theorem cv_pWithTables (ih : CV d n) : ∀ T acc ts v r, Sub T ts → CovL d T (exprsWs acc) → pWithTables d (n+1) acc ts = .ok (v, r) →
    CovL d T (exprsWs v) := by
  intro T acc ts v r hs ha h
  unfold pWithTables at h
  split at h
  · split at h
    · rename_i w r1 h1
      have hc := ih.pWithTable T _ w r1 (hs.drop 1) h1
      have hs1 : Sub T r1 := (hs.drop 1).of_cons (PM.pWithTable_consumes d n _ w r1 h1)
      refine ih.pWithTables T _ r1 v r hs1 ?_ h
      rw [exprsWs_append]
      exact ha.append (by simpa [exprsWs] using hc)
    · cases h
  · obtain ⟨rfl, rfl⟩ := ret2 h; exact ha

theorem cv_pWith (ih : CV d n) : ∀ T ts v r, Sub T ts → pWith d (n+1) ts = .ok (v, r) → CovL d T (exprsWs v) := by
  intro T ts v r hs h
  unfold pWith at h
  split at h
  · split at h
    · cases h
    · rename_i w r1 h1
      have hc := ih.pWithTable T _ w r1 (hs.drop 1) h1
      have hs1 : Sub T r1 := (hs.drop 1).of_cons (PM.pWithTable_consumes d n _ w r1 h1)
      exact ih.pWithTables T [w] r1 v r hs1 (by simpa [exprsWs] using hc) h
  · obtain ⟨rfl, rfl⟩ := ret2 h; simpa [exprsWs] using CovL.nil

theorem cv_pByList (ih : CV d n) : ∀ T kwd ts v r, Sub T ts → pByList d (n+1) kwd ts = .ok (v, r) → CovL d T (v.getD []) := by
  intro T kwd ts v r hs h
  unfold pByList at h
  split at h
  · split at h
    · cases h
    · rename_i e r1 h1
      obtain ⟨hc, hs1⟩ := cov_run (hs.drop 2) ((wf_all d n).pCompute _ e r1 h1)
      split at h
      · rename_i es r2 h2
        obtain ⟨rfl, rfl⟩ := ret2 h
        simpa using ih.pComputeList T [e] r1 es r2 hs1 (.single hc) h2
      · cases h
  · obtain ⟨rfl, rfl⟩ := ret2 h; simpa using CovL.nil

theorem cv_pSortBy (ih : CV d n) : ∀ T ts v r, Sub T ts → pSortBy d (n+1) ts = .ok (v, r) → CovL d T (oiEs v) := by
  intro T ts v r hs h
  unfold pSortBy at h
  split at h
  · split at h
    · cases h
    · rename_i o r1 h1
      have hc := ih.pOrderItem T _ o r1 (hs.drop 2) h1
      split at h
      · rename_i os r2 h2
        obtain ⟨rfl, rfl⟩ := ret2 h
        exact ih.pOrderList T [o] r1 os r2 (pOrderItem_sub (hs.drop 2) h1) (by simpa using CovL.single hc) h2
      · cases h
  · obtain ⟨rfl, rfl⟩ := ret2 h; exact .nil

theorem cv_pHiveClauses (ih : CV d n) : ∀ T ts v r, Sub T ts → pHiveClauses d (n+1) ts = .ok (v, r) →
    CovL d T (oiEs v.1 ++ (v.2.1.getD [] ++ v.2.2.getD [])) := by
  intro T ts v r hs h
  unfold pHiveClauses at h
  split at h
  · cases h
  · rename_i sb r1 h1
    have c1 := ih.pSortBy T ts sb r1 hs h1
    have hs1 : Sub T r1 := hs.of_cons (PM.pSortBy_consumes d n _ sb r1 h1)
    split at h
    · cases h
    · rename_i db r2 h2
      have c2 := ih.pByList T _ r1 db r2 hs1 h2
      have hs2 : Sub T r2 := hs1.of_cons (PM.pByList_consumes d n _ _ db r2 h2)
      split at h
      · cases h
      · rename_i cb r3 h3
        have c3 := ih.pByList T _ r2 cb r3 hs2 h3
        obtain ⟨rfl, rfl⟩ := ret2 h
        exact c1.append (c2.append c3)

theorem cv_pHavingOrder (ih : CV d n) : ∀ T ts v r, Sub T ts → pHavingOrder d (n+1) ts = .ok (v, r) → CovL d T (v.1.toList ++ oiEs v.2) := by
  intro T ts v r hs h
  unfold pHavingOrder at h
  split at h
  · cases h
  · rename_i hv r3 h1
    have c1 := ih.pOptOr T _ ts hv r3 hs h1
    have hs1 : Sub T r3 := hs.of_cons (PM.pOptOr_consumes d n _ _ hv r3 h1)
    split at h
    · cases h
    · rename_i ob r4 h2
      have c2 := ih.pOrderByOpt T r3 ob r4 hs1 h2
      obtain ⟨rfl, rfl⟩ := ret2 h
      exact c1.append c2

theorem cv_pWhereGroup (ih : CV d n) : ∀ T ts v r, Sub T ts → pWhereGroup d (n+1) ts = .ok (v, r) → CovL d T (v.1.toList ++ ogbE v.2) := by
  intro T ts v r hs h
  unfold pWhereGroup at h
  split at h
  · cases h
  · rename_i wh r1 h1
    have c1 := ih.pOptOr T _ ts wh r1 hs h1
    have hs1 : Sub T r1 := hs.of_cons (PM.pOptOr_consumes d n _ _ wh r1 h1)
    split at h
    · cases h
    · rename_i gb r2 h2
      have c2 := ih.pGroupBy T r1 gb r2 hs1 h2
      obtain ⟨rfl, rfl⟩ := ret2 h
      exact c1.append c2

theorem cv_pSelectTail (ih : CV d n) : ∀ T withs dist cols fr lats js ts v r, Sub T ts → CovL d T (exprsWs withs) →
    CovL d T (cols.map (·.1)) → CovL d T (exprsOF fr) → CovL d T (lats.map latE) → CovL d T (exprsJs js) →
    pSelectTail d (n+1) withs dist cols fr lats js ts = .ok (v, r) → CovL d T (exprsS v) := by
  intro T withs dist cols fr lats js ts v r hs hw hc hf hl hj h
  unfold pSelectTail at h
  split at h
  · cases h
  · rename_i wh gb r2 h1
    have c1 := ih.pWhereGroup T ts (wh, gb) r2 hs h1
    have hs1 : Sub T r2 := hs.of_cons (PM.pWhereGroup_consumes d n _ _ r2 h1)
    split at h
    · cases h
    · rename_i hv ob r4 h2
      have c2 := ih.pHavingOrder T r2 (hv, ob) r4 hs1 h2
      have hs2 : Sub T r4 := hs1.of_cons (PM.pHavingOrder_consumes d n _ _ r4 h2)
      split at h
      · cases h
      · rename_i sb db cb r4' h3
        have c3 := ih.pHiveClauses T r4 (sb, db, cb) r4' hs2 h3
        split at h
        · cases h
        · rename_i lm r5 h4
          obtain ⟨rfl, rfl⟩ := ret2 h
          simp only [exprsS, exprsOW]
          exact hw.append (hc.append (hf.append (hl.append (hj.append (c1.left.append (c1.right.append (c2.left.append (c2.right.append
            (c3.left.append c3.right)))))))))

theorem cv_pFromOpt (ih : CV d n) : ∀ T ts v r, Sub T ts → pFromOpt d (n+1) ts = .ok (v, r) → CovL d T (exprsOF v) := by
  intro T ts v r hs h
  unfold pFromOpt at h
  split at h
  · split at h
    · cases h
    · rename_i t r1 h1
      have hc := ih.pFromTable T _ t r1 (hs.drop 1) h1
      have hs1 : Sub T r1 := (hs.drop 1).of_cons (PM.pFromTable_consumes d n _ t r1 h1)
      split at h
      · rename_i tsl r2 h2
        obtain ⟨rfl, rfl⟩ := ret2 h
        simpa [exprsOF] using ih.pFromTables T [t] r1 tsl r2 hs1 (by simpa [exprsFs] using hc) h2
      · cases h
  · obtain ⟨rfl, rfl⟩ := ret2 h; simpa [exprsOF] using CovL.nil

theorem cv_pLateral (ih : CV d n) : ∀ T ts v r, Sub T ts → pLateral d (n+1) ts = .ok (v, r) → Cov d T (latE v) := by
  intro T ts v r hs h
  unfold pLateral at h
  split at h
  · cases h
  · rename_i r0 hm
    have hs0 : Sub T r0 := hs.of_cons (matchSeq_cons ts _ _ r0 hm)
    split at h
    · cases h
    · rename_i fn r1 h1
      obtain ⟨hc, _⟩ := cov_run (hs0.of_cons (moveStrUp_sfx r0 "OUTER")) ((wf_all d n).pFunc _ fn r1 h1)
      split at h
      · cases h
      · split at h
        · cases h
        · obtain ⟨rfl, rfl⟩ := ret2 h; exact hc

theorem cv_pLaterals (ih : CV d n) : ∀ T same outer acc inner v r, Sub T inner → CovL d T (acc.map latE) →
    pLaterals d (n+1) same outer acc inner = .ok (v, r) → CovL d T (v.map latE) := by
  intro T same outer acc inner v r hs ha h
  unfold pLaterals at h
  generalize searchTwoUp (if same = true then inner else outer) "LATERAL" "VIEW" = c at h
  cases c with
  | true =>
    simp only [↓reduceIte] at h
    split at h
    · rename_i l r1 h1
      have hc := ih.pLateral T inner l r1 hs h1
      have hs1 : Sub T r1 := hs.of_cons (PM.pLateral_consumes d n _ l r1 h1)
      exact ih.pLaterals T same outer _ r1 v r hs1 (by simpa using ha.snoc hc) h
    · cases h
  | false =>
    simp only [Bool.false_eq_true, ↓reduceIte] at h
    obtain ⟨rfl, rfl⟩ := ret2 h; exact ha

theorem cv_pSelectRest (ih : CV d n) : ∀ T withs dist cols same outer inner v r, Sub T inner → CovL d T (exprsWs withs) →
    CovL d T (cols.map (·.1)) → pSelectRest d (n+1) withs dist cols same outer inner = .ok (v, r) → CovL d T (exprsS v) := by
  intro T withs dist cols same outer inner v r hs hw hc h
  unfold pSelectRest at h
  split at h
  · cases h
  · rename_i fr r1 h1
    have c1 := ih.pFromOpt T inner fr r1 hs h1
    have hs1 : Sub T r1 := hs.of_cons (PM.pFromOpt_consumes d n _ fr r1 h1)
    split at h
    · cases h
    · rename_i lats r1' h2
      have c2 := ih.pLaterals T same outer [] r1 lats r1' hs1 (by simpa using CovL.nil) h2
      have hs2 : Sub T r1' := hs1.of_cons (PM.pLaterals_consumes d n _ _ _ _ lats r1' h2)
      split at h
      · cases h
      · rename_i js r2 h3
        have c3 := ih.pJoins T same outer [] r1' js r2 hs2 (by simpa [exprsJs] using CovL.nil) h3
        have hs3 : Sub T r2 := hs2.of_cons (PM.pJoins_consumes d n _ _ _ _ js r2 h3)
        exact ih.pSelectTail T withs dist cols fr lats js r2 v r hs3 hw hc c1 c2 c3 h

theorem cv_pSelectBody (ih : CV d n) : ∀ T withs same outer inner v r, Sub T inner → CovL d T (exprsWs withs) →
    pSelectBody d (n+1) withs same outer inner = .ok (v, r) → CovL d T (exprsS v) := by
  intro T withs same outer inner v r hs hw h
  unfold pSelectBody at h
  split at h
  · cases h
  · rename_i r0 hm
    have hs0 : Sub T r0 := hs.of_cons (matchSeq_cons inner _ _ r0 hm)
    have hs0' : Sub T (moveStrUp r0 "DISTINCT").2 := hs0.of_cons (moveStrUp_sfx r0 "DISTINCT")
    split at h
    · cases h
    · rename_i c r1 h1
      have c1 := ih.pSelectCol T _ c r1 hs0' h1
      have hs1 : Sub T r1 := hs0'.of_cons (PM.pSelectCol_consumes d n _ c r1 h1)
      split at h
      · cases h
      · rename_i cols r2 h2
        have c2 := ih.pSelectCols T [c] r1 cols r2 hs1 (by simpa using CovL.single c1) h2
        have hs2 : Sub T r2 := hs1.of_cons (PM.pSelectCols_consumes d n _ _ cols r2 h2)
        exact ih.pSelectRest T withs _ cols same outer r2 v r hs2 hw c2 h

theorem cv_pSingleParen (ih : CV d n) : ∀ T withs outer stack inner v r, Sub T outer → Sub T inner → CovL d T (exprsWs withs) →
    pSingleParen d (n+1) withs outer stack inner = .ok (v, r) → CovL d T (exprsS v) := by
  intro T withs outer stack inner v r hso hsi hw h
  unfold pSingleParen at h
  split at h
  · split at h
    · cases h
    · rename_i g outer'
      exact ih.pSingleParen T withs outer' _ g.children v r hso.tail hso.head_child hw h
  · split at h
    · cases h
    · rename_i s rest h1
      have c := ih.pSelectBody T withs false outer inner s rest hsi hw h1
      split at h
      · cases h
      · split at h
        · cases h
        · obtain ⟨rfl, rfl⟩ := ret2 h; exact c

theorem cv_pSingle (ih : CV d n) : ∀ T withs ts v r, Sub T ts → CovL d T (exprsWs withs) → pSingle d (n+1) withs ts = .ok (v, r) →
    CovL d T (exprsS v) := by
  intro T withs ts v r hs hw h
  unfold pSingle at h
  split at h
  · exact ih.pSelectBody T withs true [] ts v r hs hw h
  · split at h
    · cases h
    · rename_i g outer hc
      exact ih.pSingleParen T withs outer _ g.children v r hs.tail hs.head_child hw h

theorem exprsS_setWiths {T : List Tok} {s : Select} (h : CovL d T (exprsS s)) : CovL d T (exprsS (setWiths s)) := by
  cases s with
  | mk w dist cols fr lats js wh gb hv ob sb db cb lm =>
    simp only [setWiths, exprsS, exprsOW, exprsWs, List.nil_append] at h ⊢
    exact h.right

theorem exprsUs_setWiths {T : List Tok} : ∀ {us : List (String × Select)}, CovL d T (exprsUs us) →
    CovL d T (exprsUs (us.map fun p => (p.1, setWiths p.2))) := by
  intro us
  induction us with
  | nil => intro h; simpa [exprsUs] using h
  | cons p us ih =>
    obtain ⟨x, s⟩ := p
    intro h
    simp only [exprsUs, List.map_cons] at h ⊢
    exact (exprsS_setWiths h.left).append (ih h.right)

theorem cv_pUnions (ih : CV d n) : ∀ T withs acc ts v r, Sub T ts → CovL d T (exprsWs withs) → CovL d T (exprsUs acc) →
    pUnions d (n+1) withs acc ts = .ok (v, r) → CovL d T (exprsUs v) := by
  intro T withs acc ts v r hs hw ha h
  unfold pUnions at h
  split at h
  · obtain ⟨rfl, rfl⟩ := ret2 h; exact ha
  · split at h
    · cases h
    · rename_i ut r0 hf
      have hs0 : Sub T r0 := hs.of_cons (firstEnum_sfx _ _ _ _ hf)
      split at h
      · cases h
      · rename_i s r1 h1
        have c := ih.pSingle T withs r0 s r1 hs0 hw h1
        have hs1 : Sub T r1 := hs0.of_cons (PM.pSingle_consumes d n _ _ s r1 h1)
        refine ih.pUnions T withs _ r1 v r hs1 hw ?_ h
        rw [exprsUs_append]
        exact ha.append (by simpa [exprsUs] using c)

theorem cv_pSelectStmt (ih : CV d n) : ∀ T withs ts v r, Sub T ts → CovL d T (exprsOW withs) → pSelectStmt d (n+1) withs ts = .ok (v, r) →
    CovL d T (exprsQ v) := by
  intro T withs ts v r hs hw h
  have main : ∀ (ws : List WithTable) (r0 : List Tok), Sub T r0 → CovL d T (exprsWs ws) →
      (match pSingle d n ws r0 with
        | .error e => .error e
        | .ok (s, r1) => match pUnions d n ws [] r1 with
          | .error e => .error e
          | .ok (us, r2) =>
            if us.isEmpty then .ok (.single s, r2) else .ok (.union (some ws) (setWiths s) (us.map fun p => (p.1, setWiths p.2)), r2)) = (.ok (v, r) : R Query) →
      CovL d T (exprsQ v) := by
    intro ws r0 hs0 hws h
    split at h
    · cases h
    · rename_i s r1 h1
      have c1 := ih.pSingle T ws r0 s r1 hs0 hws h1
      have hs1 : Sub T r1 := hs0.of_cons (PM.pSingle_consumes d n _ _ s r1 h1)
      split at h
      · cases h
      · rename_i us r2 h2
        have c2 := ih.pUnions T ws [] r1 us r2 hs1 hws (by simpa [exprsUs] using CovL.nil) h2
        split at h
        · obtain ⟨rfl, rfl⟩ := ret2 h
          simpa [exprsQ] using c1
        · obtain ⟨rfl, rfl⟩ := ret2 h
          simp only [exprsQ, exprsOW]
          exact hws.append ((exprsS_setWiths c1).append (exprsUs_setWiths c2))
  cases withs with
  | some w =>
    unfold pSelectStmt at h
    simp only at h
    exact main w ts hs (by simpa [exprsOW] using hw) h
  | none =>
    unfold pSelectStmt at h
    simp only at h
    cases hwith : pWith d n ts with
    | error e => rw [hwith] at h; cases h
    | ok p =>
      obtain ⟨ws, r0⟩ := p
      rw [hwith] at h
      simp only at h
      exact main ws r0 (hs.of_cons (PM.pWith_consumes d n _ ws r0 hwith)) (ih.pWith T ts ws r0 hs hwith) h

end WNG
