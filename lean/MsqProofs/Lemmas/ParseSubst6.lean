import MsqProofs.Lemmas.ParseSubst5
import MsqProofs.Lemmas.ParseSubst4
/-!
# C06, parser half — derived from the file of the same number of C09 (`ParseCase…`) — part 8: facts for the statement level
A word popped by `popSrc` is used by the DDL / DML parsers in three ways: stored as it is, stored after `unifyName` (back-quotes stripped),
or looked up in the compare-operator table: `srcRel` says that two popped words agree in all three.
-/
set_option linter.unusedSimpArgs false
set_option linter.unusedVariables false
open Lex PM Ast
namespace PMQ
variable [S : PaySet]

/-- what two popped sources have in common: stored as it is, stored after `unifyName`, stored inside a config string, looked up in the
compare-operator table, looked up (upper-cased) in the table of saving modes of a generated column / in the compute-operator table -/
def srcRel (s s' : String) : Prop :=
  er s = er s' ∧ er (unifyName s) = er (unifyName s') ∧ er2 s = er2 s' ∧ compareOp? s = compareOp? s' ∧ genModeOf (up s) = genModeOf (up s') ∧ computeOp? (up s) = computeOp? (up s')
@[simp, grind =] theorem srcRel_def (s s' : String) :
    srcRel s s' = (er s = er s' ∧ er (unifyName s) = er (unifyName s') ∧ er2 s = er2 s' ∧ compareOp? s = compareOp? s' ∧ genModeOf (up s) = genModeOf (up s') ∧ computeOp? (up s) = computeOp? (up s')) := rfl
theorem popSrc_qe2 : ∀ x0 y0, QEL x0 y0 → QER srcRel (popSrc x0) (popSrc y0) := by
  intro x0 y0 h
  cases x0 <;> cases y0 <;> simp_all [popSrc]
  exact ⟨qe_er_src h.1, qe_er_unify h.1, er2_of_er (qe_er_src h.1), qe_compareOp h.1, qe_genMode h.1, qe_computeOp h.1⟩
grind_pattern popSrc_qe2 => popSrc x0, popSrc y0

/-- one step of `_parse_config_string`: `acc + "." + source` -/
theorem er2_app3 {a a' b b' sep : String} (h1 : er2 a = er2 a') (h2 : er2 b = er2 b') : er2 (a ++ sep ++ b) = er2 (a' ++ sep ++ b') :=
  er2_append (er2_append h1 rfl) h2
grind_pattern er2_app3 => er2 (a ++ sep ++ b), er2 (a' ++ sep ++ b')

theorem emptyCreate_qe (t t' : TableName) (b : Bool) (h : erTN t = erTN t') : erCR (emptyCreate t b) = erCR (emptyCreate t' b) := by
  simp [emptyCreate, erCR, h]
grind_pattern emptyCreate_qe => emptyCreate t b, emptyCreate t' b

/-- partition items `(expression, is non-dynamic)`: the flags are the same, the expressions related -/
theorem items_any {l l' : List (Expr × Bool)} (h : l.map (Prod.map erE id) = l'.map (Prod.map erE id)) (p : Bool → Bool) :
    (l.any fun i => p i.2) = (l'.any fun i => p i.2) := by
  induction l generalizing l' with
  | nil => cases l' <;> simp_all
  | cons a l ih =>
    cases l' with
    | nil => simp at h
    | cons a' l' =>
      obtain ⟨e, b⟩ := a; obtain ⟨e', b'⟩ := a'
      simp [Prod.map] at h
      simp only [List.any_cons, ih h.2, h.1.2]
theorem items_any_snd {l l' : List (Expr × Bool)} (h : qeq (List.map (Prod.map erE id)) l l') :
    (l.any (·.2)) = (l'.any (·.2)) ∧ (l.any fun i => !i.2) = (l'.any fun i => !i.2) :=
  ⟨items_any h id, items_any h (!·)⟩
grind_pattern items_any_snd => qeq (List.map (Prod.map erE id)) l l'
theorem items_fst {l l' : List (Expr × Bool)} (h : qeq (List.map (Prod.map erE id)) l l') :
    (l.map (·.1)).map erE = (l'.map (·.1)).map erE := by
  have := congrArg (List.map Prod.fst) h
  simpa [List.map_map, Function.comp_def, Prod.map] using this
grind_pattern items_fst => qeq (List.map (Prod.map erE id)) l l'

end PMQ
