import MsqProofs.Lemmas.LexLinkAnyR1
/-!
# The lexer link for ALTER TABLE (every clause of the model)

Column definitions, keys and foreign keys come from the CREATE TABLE link (`LD.lx_defCol`, `lx_index`, `lx_fk` and the printer equations
`LD.prDefCol_my`, `prIndex_toList`, `prForeignKey_toList`); the printer equation for a column definition of a dialect other than MYSQL
(name, type, comment) is proved here for every such dialect (`prDefCol_other`).  Partition lists as in INSERT / ANALYZE (`partition_good`).

The text (`PR.prStmt`): ``ALTER TABLE `t` `` + blank + line break, the clauses joined by `,` + line break.
-/
set_option linter.unusedVariables false
set_option linter.unusedSimpArgs false
namespace LL2.Any
open Lex Spec C05 C06 C09 Ast TP TS LexLink TQ2
open TQ (tblTok unionWords isExists)
open LD (tailL wordsP flagP bqL parenL PAll)

variable {d : Gen.D}

/-- the rendering of a column definition for a dialect other than MYSQL: name, type, comment (whatever else the column has) -/
theorem prDefCol_other (hm : (d == Gen.D.MYSQL) = false) (c : DefCol) (hf : TD.typeOK d c.type = true) (hl : LD.LeafType d c.type) :
    PR.prDefCol d c = .ok (String.ofList (LD.defColL d c)) := by
  rw [LD.prDefCol_unf]
  simp only [hm, LD.prColType_eq d c.type hf hl, LD.prGen_false, LD.prDflt_false, LD.prOnUp_false, bind, Except.bind, pure, Except.pure]
  refine congrArg Except.ok (ofList_eq ?_)
  unfold LD.colStr
  have e0 : ("" : String).toList = [] := rfl
  have e1 : ("`" : String).toList = ['`'] := rfl
  have e2 : ("` " : String).toList = ['`', ' '] := rfl
  simp only [String.toList_append, LD.flagStr_false, LD.optStr_false, e0, List.append_nil, LD.comment_toList]
  simp only [toString, e1, e2, String.toList_ofList, LD.defColL, LD.attrsP, hm, Bool.false_eq_true, if_false, LD.tailL_cons, bqL, List.append_assoc,
    List.cons_append, List.nil_append]

/-! ## a column definition, a key or a foreign key -/

def coiL (d : Gen.D) : ColOrIdx → List Char
  | .col c => LD.defColL d c
  | .idx i => LD.indexL i
  | .fk k => LD.fkL k
def coiLeaf (d : Gen.D) : ColOrIdx → Prop
  | .col c => LD.LeafCol d c
  | .idx i => LD.LeafIdx i
  | .fk k => LD.LeafFk k

theorem coi_good (x : ColOrIdx) (hx : TR.colOrIdxOK d x = true) (hl : coiLeaf d x) :
    Pc (coiL d x) (TR.toksColOrIdx d x) ∧ PR.prColOrIdx d x = .ok (String.ofList (coiL d x)) := by
  cases x with
  | col c =>
    have hx : TD.colOK d c = true := hx
    have hl : LD.LeafCol d c := hl
    have ht : TD.typeOK d c.type = true := by simp only [TD.colOK, Bool.and_eq_true] at hx; exact hx.1.2
    refine ⟨⟨LD.lx_defCol d c hx hl, LD.allP_defCol d c hx hl⟩, ?_⟩
    show PR.prDefCol d c = _
    cases hm : (d == Gen.D.MYSQL)
    · exact prDefCol_other hm c ht hl.type
    · have : d = .MYSQL := by simpa using hm
      subst this
      exact LD.prDefCol_my c hx hl
  | idx i =>
    have hx : TD.idxOK i.kind i = true := hx
    have hl : LD.LeafIdx i := hl
    obtain ⟨h1, h2⟩ := LD.idxOK_parts hx
    exact ⟨⟨LD.lx_index i h1 h2 hl, LD.allP_index i h1 h2 hl⟩, congrArg Except.ok (ofList_eq (LD.prIndex_toList i))⟩
  | fk k =>
    have hx : TD.fkOK k = true := hx
    have hl : LD.LeafFk k := hl
    exact ⟨⟨LD.lx_fk k hx hl, LD.allP_fk k hx hl⟩, congrArg Except.ok (ofList_eq (LD.prForeignKey_toList k))⟩

/-! ## one clause -/

def opL (d : Gen.D) : AlterOp → List Char
  | .addPartition b p => "ADD".toList ++ tailL (flagP b ["IF", "NOT", "EXISTS"] ++ [partTxt d p])
  | .add x => "ADD".toList ++ tailL [coiL d x]
  | .modify x => "MODIFY".toList ++ tailL [coiL d x]
  | .change f t => "CHANGE".toList ++ tailL [bqL f, coiL d t]
  | .renameColumn f t => "RENAME".toList ++ tailL ["COLUMN".toList, bqL f, "TO".toList, bqL t]
  | .dropColumn c => "DROP".toList ++ tailL ["COLUMN".toList, bqL c]
  | .dropPartition b p => "DROP".toList ++ tailL (flagP b ["IF", "EXISTS"] ++ [partTxt d p])
/-- the payloads of a clause: partition items as in INSERT (`leafOK2`), column names without back-quote / pre-pass characters, column
definitions / keys / foreign keys as in CREATE TABLE (`LD.LeafCol` / `LeafIdx` / `LeafFk`) -/
def opLeaf (d : Gen.D) : AlterOp → Prop
  | .addPartition _ p => On2 (leafOK2 d) (leavesL4 p)
  | .add x => coiLeaf d x
  | .modify x => coiLeaf d x
  | .change f t => nameLex f ∧ coiLeaf d t
  | .renameColumn f t => nameLex f ∧ nameLex t
  | .dropColumn c => nameLex c
  | .dropPartition _ p => On2 (leafOK2 d) (leavesL4 p)

theorem pc_bq (n : String) (h : nameLex n) : Pc (bqL n) [nameTok n] := ⟨LD.lx_bq n h, LD.allP_bq n h⟩

theorem bq_str (n : String) : (s!"`{n}`").toList = bqL n := by
  have e1 : ("`" : String).toList = ['`'] := rfl
  simp [toString, String.toList_append, e1, bqL]

theorem op_good (o : AlterOp) (ho : TR.alterOpOK d o = true) (hl : opLeaf d o) :
    Pc (opL d o) (TR.toksAlterOp d o) ∧ PR.prAlterOp d o = .ok (String.ofList (opL d o)) := by
  cases o with
  | addPartition b p =>
    obtain ⟨h1, h2⟩ := partition_good p ho hl
    refine ⟨?_, ?_⟩
    · have := Pc.tail (pc_w "ADD" (by simp [restWords])) (SegP.append (segp_flag b ["IF", "NOT", "EXISTS"] (by simp [restWords])) (SegP.one h1))
      exact this.congr rfl (by simp [TR.toksAlterOp])
    · simp only [PR.prAlterOp, h2, Except.map]
      refine congrArg Except.ok (ofList_eq ?_)
      have e1 : ("ADD" : String).toList = "ADD".toList := rfl
      have e3 : (" " : String).toList = [' '] := rfl
      simp only [toString, String.toList_append, String.toList_ofList, e3,
        LD.ite_toList b " IF NOT EXISTS" ["IF", "NOT", "EXISTS"] (by simp [wordsP]), opL, LD.tailL_append, LD.tailL_cons, LD.tailL_nil,
        List.append_assoc, List.cons_append, List.nil_append, List.append_nil]
  | dropPartition b p =>
    obtain ⟨h1, h2⟩ := partition_good p ho hl
    refine ⟨?_, ?_⟩
    · have := Pc.tail (pc_w "DROP" (by simp [restWords])) (SegP.append (segp_flag b ["IF", "EXISTS"] (by simp [restWords])) (SegP.one h1))
      exact this.congr rfl (by simp [TR.toksAlterOp])
    · simp only [PR.prAlterOp, h2, Except.map]
      refine congrArg Except.ok (ofList_eq ?_)
      have e3 : (" " : String).toList = [' '] := rfl
      simp only [toString, String.toList_append, String.toList_ofList, e3,
        LD.ite_toList b " IF EXISTS" ["IF", "EXISTS"] (by simp [wordsP]), opL, LD.tailL_append, LD.tailL_cons, LD.tailL_nil,
        List.append_assoc, List.cons_append, List.nil_append, List.append_nil]
  | add x =>
    obtain ⟨h1, h2⟩ := coi_good x ho hl
    refine ⟨?_, ?_⟩
    · exact (Pc.tail (pc_w "ADD" (by simp [restWords])) (SegP.one h1)).congr rfl (by simp [TR.toksAlterOp])
    · simp only [PR.prAlterOp, h2, Except.map]
      refine congrArg Except.ok (ofList_eq ?_)
      have e1 : ("ADD " : String).toList = "ADD".toList ++ [' '] := by simp
      simp only [toString, String.toList_append, String.toList_ofList, e1, opL, LD.tailL_cons, LD.tailL_nil, List.append_assoc, List.cons_append,
        List.nil_append, List.append_nil]
  | modify x =>
    obtain ⟨h1, h2⟩ := coi_good x ho hl
    refine ⟨?_, ?_⟩
    · exact (Pc.tail (pc_w "MODIFY" (by simp [restWords])) (SegP.one h1)).congr rfl (by simp [TR.toksAlterOp])
    · simp only [PR.prAlterOp, h2, Except.map]
      refine congrArg Except.ok (ofList_eq ?_)
      have e1 : ("MODIFY " : String).toList = "MODIFY".toList ++ [' '] := by simp
      simp only [toString, String.toList_append, String.toList_ofList, e1, opL, LD.tailL_cons, LD.tailL_nil, List.append_assoc, List.cons_append,
        List.nil_append, List.append_nil]
  | change f t =>
    simp only [TR.alterOpOK, Bool.and_eq_true] at ho
    obtain ⟨h1, h2⟩ := coi_good t ho.2 hl.2
    refine ⟨?_, ?_⟩
    · exact (Pc.tail (pc_w "CHANGE" (by simp [restWords])) (SegP.cons (pc_bq f hl.1) (SegP.one h1))).congr rfl (by simp [TR.toksAlterOp])
    · simp only [PR.prAlterOp, h2, Except.map]
      refine congrArg Except.ok (ofList_eq ?_)
      have e1 : ("CHANGE `" : String).toList = "CHANGE".toList ++ [' ', '`'] := by simp
      have e2 : ("` " : String).toList = ['`', ' '] := rfl
      simp only [toString, String.toList_append, String.toList_ofList, e1, e2, opL, bqL, LD.tailL_cons, LD.tailL_nil, List.append_assoc,
        List.cons_append, List.nil_append, List.append_nil]
  | renameColumn f t =>
    refine ⟨?_, ?_⟩
    · exact (Pc.tail (pc_w "RENAME" (by simp [restWords])) (SegP.cons (pc_w "COLUMN" (by simp [restWords])) (SegP.cons (pc_bq f hl.1)
        (SegP.cons (pc_w "TO" (by simp [restWords])) (SegP.one (pc_bq t hl.2)))))).congr rfl (by simp [TR.toksAlterOp])
    · simp only [PR.prAlterOp]
      refine congrArg Except.ok (ofList_eq ?_)
      have e1 : ("RENAME COLUMN `" : String).toList = "RENAME".toList ++ ' ' :: ("COLUMN".toList ++ [' ', '`']) := by simp
      have e2 : ("` TO `" : String).toList = '`' :: ' ' :: ("TO".toList ++ [' ', '`']) := by simp
      have e3 : ("`" : String).toList = ['`'] := rfl
      simp only [toString, String.toList_append, String.toList_ofList, e1, e2, e3, opL, bqL, LD.tailL_cons, LD.tailL_nil, List.append_assoc,
        List.cons_append, List.nil_append, List.append_nil]
  | dropColumn c =>
    refine ⟨?_, ?_⟩
    · exact (Pc.tail (pc_w "DROP" (by simp [restWords])) (SegP.cons (pc_w "COLUMN" (by simp [restWords])) (SegP.one (pc_bq c hl)))).congr rfl
        (by simp [TR.toksAlterOp])
    · simp only [PR.prAlterOp]
      refine congrArg Except.ok (ofList_eq ?_)
      have e1 : ("DROP COLUMN `" : String).toList = "DROP".toList ++ ' ' :: ("COLUMN".toList ++ [' ', '`']) := by simp
      have e3 : ("`" : String).toList = ['`'] := rfl
      simp only [toString, String.toList_append, String.toList_ofList, e1, e3, opL, bqL, LD.tailL_cons, LD.tailL_nil, List.append_assoc,
        List.cons_append, List.nil_append, List.append_nil]

/-! ## the statement -/

def alterL (d : Gen.D) (t : TableName) (ops : List AlterOp) : List Char :=
  "ALTER".toList ++ ' ' :: ("TABLE".toList ++ ' ' :: (tnL t ++ ' ' :: '\n' :: joinLL [',', '\n'] (ops.map (opL d))))

theorem toksAlterOps_sepAll (ops : List AlterOp) : TR.toksAlterOps d ops = TD.sepAll (ops.map (TR.toksAlterOp d)) := by
  have tl : ∀ l : List AlterOp, TR.toksAlterTail d l = TD.sepTail (l.map (TR.toksAlterOp d)) := by
    intro l
    induction l with
    | nil => rfl
    | cons o r ih => simp only [TR.toksAlterTail, List.map_cons, TD.sepTail, ih]
  cases ops with
  | nil => rfl
  | cons o r => simp only [TR.toksAlterOps, List.map_cons, TD.sepAll, tl]

theorem alter_good (t : TableName) (ops : List AlterOp) (ht : tblLeaf t) (hne : ops ≠ []) (ho : ops.all (TR.alterOpOK d) = true)
    (hl : ∀ o ∈ ops, opLeaf d o) :
    Pc (alterL d t ops) (TR.toksAlter d t ops) ∧ PR.prStmt d (.alter t ops) = .ok (String.ofList (alterL d t ops)) := by
  have hall : ∀ o ∈ ops, Pc (opL d o) (TR.toksAlterOp d o) ∧ PR.prAlterOp d o = .ok (String.ofList (opL d o)) :=
    fun o hm => op_good o ((List.all_eq_true.mp ho) o hm) (hl o hm)
  have hLL : LD.LL (ops.map (opL d)) (ops.map (TR.toksAlterOp d)) := LD.LL.map (opL d) (TR.toksAlterOp d) ops fun o hm => (hall o hm).1.lx
  have hJ : Lx (joinLL [',', '\n'] (ops.map (opL d))) (TR.toksAlterOps d ops) := by
    rw [toksAlterOps_sepAll]
    exact LD.lx_sepAll ['\n'] (fun h => LD.Lx.nl h) _ _ hLL
  have hQ : allP (joinLL [',', '\n'] (ops.map (opL d))) = true := allP_joinLL [',', '\n'] (by decide) _ (by
    intro x hx
    obtain ⟨o, hm, rfl⟩ := List.mem_map.mp hx
    exact (hall o hm).1.q)
  refine ⟨⟨?_, ?_⟩, ?_⟩
  · have := Lx.sep (pc_w "ALTER" (by simp [restWords])).lx (Lx.sep (pc_w "TABLE" (by simp [restWords])).lx
      (Lx.sep (pc_tn t ht).1.lx (LD.Lx.nl hJ)))
    delta alterL TR.toksAlter
    exact Lx.congr this (by simp) (by simp)
  · delta alterL
    exact plainKit.sp (pc_w "ALTER" (by simp [restWords])).q (plainKit.sp (pc_w "TABLE" (by simp [restWords])).q
      (plainKit.sp (pc_tn t ht).1.q (plainKit.pre plainKit.s_nl hQ)))
  · have hm : PR.mapM' (PR.prAlterOp d) ops = .ok (ops.map fun o => String.ofList (opL d o)) :=
      LD.mapM_eq (PR.prAlterOp d) (opL d) ops fun o hm => (hall o hm).2
    simp only [PR.prStmt, hm, Except.map, (pc_tn t ht).2]
    refine congrArg Except.ok (ofList_eq ?_)
    have e1 : ("ALTER TABLE " : String).toList = "ALTER".toList ++ ' ' :: ("TABLE".toList ++ [' ']) := by simp
    have e2 : (" \n" : String).toList = [' ', '\n'] := rfl
    have e3 : (",\n" : String).toList = [',', '\n'] := rfl
    delta alterL
    simp only [toString, String.toList_append, String.toList_ofList, toList_joinS, e1, e2, e3, List.map_map, Function.comp_def]
    simp only [List.append_assoc, List.cons_append, List.nil_append]

end LL2.Any
