import MsqProofs.Lemmas.LexLinkDdl1
/-!
# The CREATE TABLE printers print `createL`

`prCreateMysql_eq` / `prCreateHive_eq`: on tables of the fragment with lexable leaves the printer succeeds with exactly the text
`createL d c` (`String` operations do not reduce in the kernel: the link is stated on the `List Char` mirror and tied to the printer
here).  The optional parts of the printers are first NAMED (`optStr`, `flagStr`, `prGen` …: definitionally the inline `match`es and
`if`s of `Print.lean`, `prDefCol_unf` … by `rfl`), so that the per-part lemmas rewrite them.
-/
set_option linter.unusedVariables false
set_option linter.unusedSimpArgs false
namespace LD
open Lex Spec C05 C06 C09 Ast TP TS TD LexLink

/-! ## the parts of the printers, named -/
def prGen (d : Gen.D) (my : Bool) : Option GenCol → PR.P
  | some g => if my then (do
      let e ← PR.prE d g.e
      match g.mode with
      | some m => pure s!" GENERATED ALWAYS AS ({PR.wrap g.e 8 e}) {m}"
      | none => .error (.py .AttributeError))
    else pure ""
  | none => pure ""
def prDflt (d : Gen.D) (my : Bool) : Option Expr → PR.P
  | some e => if my then (PR.prE d e).map fun x => s!" DEFAULT {PR.wrap e 8 x}" else pure ""
  | none => pure ""
def prOnUp (d : Gen.D) (my : Bool) : Option Expr → PR.P
  | some e => if my then (PR.prE d e).map fun x => s!" ON UPDATE {PR.wrap e 8 x}" else pure ""
  | none => pure ""
def optStr (my : Bool) (pre : String) : Option String → String
  | some s => if my then pre ++ s else ""
  | none => ""
def optIntStr (pre : String) : Option Int → String
  | some n => pre ++ toString n
  | none => ""
def flagStr (b my : Bool) (s : String) : String := if b && my then s else ""
def colStr (c : DefCol) (my : Bool) (ty gen dflt onu : String) : String :=
  s!"`{c.name}` {ty}" ++ flagStr c.unsigned my " UNSIGNED" ++ flagStr c.zerofill my " ZEROFILL" ++ optStr my " CHARACTER SET " c.charset
    ++ optStr my " COLLATE " c.collate ++ gen ++ flagStr c.allowNull my " NULL" ++ flagStr c.notNull my " NOT NULL"
    ++ flagStr c.autoInc my " AUTO_INCREMENT" ++ dflt ++ onu ++ optStr true " COMMENT " c.comment
theorem prDefCol_unf (d : Gen.D) (c : DefCol) : PR.prDefCol d c = (do
    let ty ← PR.prColType d c.type
    let gen ← prGen d (d == .MYSQL) c.generated
    let dflt ← prDflt d (d == .MYSQL) c.default
    let onu ← prOnUp d (d == .MYSQL) c.onUpdate
    pure (colStr c (d == .MYSQL) ty gen dflt onu)) := rfl

def idxStr (i : Index) : String :=
  i.kind.word ++ optStr true " " i.name ++ " (" ++ PR.joinS "," (i.cols.map PR.prIndexCol) ++ ")" ++ optStr true " USING " i.usingMethod
    ++ optStr true " COMMENT " i.comment ++ optIntStr " KEY_BLOCK_SIZE=" i.keyBlockSize
theorem prIndex_unf (i : Index) : PR.prIndex i = idxStr i := rfl
def fkStr (f : ForeignKey) : String :=
  s!"CONSTRAINT {f.constraint} FOREIGN KEY ({PR.joinS ", " f.slave}) REFERENCES {f.master} ({PR.joinS ", " f.masterCols})"
    ++ optStr true " ON DELETE " f.onDelete ++ optStr true " ON UPDATE " f.onUpdate
theorem prForeignKey_unf (f : ForeignKey) : PR.prForeignKey f = fkStr f := rfl

def optIdxStrs : Option Index → List String
  | some i => [PR.prIndex i]
  | none => []
def createMyStr (c : CreateTable) (cols : List String) : String :=
  PR.titleStr c ++ " (\n" ++ PR.joinS ",\n" ((cols ++ optIdxStrs c.primaryKey ++ c.uniqueKey.map PR.prIndex ++ c.key.map PR.prIndex
      ++ c.fulltextKey.map PR.prIndex ++ c.foreignKey.map PR.prForeignKey).map ("  " ++ ·)) ++ "\n)"
    ++ optStr true " ENGINE=" c.engine ++ optIntStr " AUTO_INCREMENT=" c.autoIncrement ++ optStr true " DEFAULT CHARSET=" c.defaultCharset
    ++ optStr true " COLLATE=" c.collate ++ optStr true " ROW_FORMAT=" c.rowFormat ++ optStr true " STATS_PERSISTENT=" c.statesPersistent
    ++ optStr true " COMMENT=" c.comment
theorem prCreateMysql_unf (c : CreateTable) :
    PR.prCreateMysql c = (PR.mapM' (PR.prDefCol .MYSQL) c.columns >>= fun cols => pure (createMyStr c cols)) := rfl
def partStr (ps : List DefCol) (parts : List String) : String :=
  if ps.isEmpty then "" else s!" PARTITIONED BY ({PR.joinS ", " parts})"
def propsStr (ps : List ConfigStr) : String :=
  if ps.isEmpty then "" else " TBLPROPERTIES (" ++ PR.joinS ", " (ps.map fun p => s!"{p.name}={p.value}") ++ ")"
def createHiveStr (c : CreateTable) (cols parts : List String) : String :=
  " " ++ PR.titleStr c ++ "(\n" ++ PR.joinS ",\n" (cols.map ("  " ++ ·)) ++ "\n)"
    ++ optStr true " COMMENT " c.comment ++ partStr c.partitionedBy parts ++ optStr true " ROW FORMAT SERDE " c.rowFormatSerde
    ++ optStr true " ROW FORMAT DELIMITED FIELDS TERMINATED BY " c.rowFormatDelimited
    ++ optStr true " STORED AS INPUTFORMAT " c.storedAsInputformat ++ (if c.storedAsTextfile then " STORED AS TEXTFILE" else "")
    ++ optStr true " OUTPUTFORMAT " c.outputformat ++ optStr true " LOCATION " c.location ++ propsStr c.tblproperties
theorem prCreateHive_unf (c : CreateTable) :
    PR.prCreateHive c = (PR.mapM' (PR.prDefCol .HIVE) c.columns >>= fun cols =>
      PR.mapM' (PR.prDefCol .HIVE) c.partitionedBy >>= fun parts => pure (createHiveStr c cols parts)) := rfl

/-! ## the parts as character lists -/

theorem flagStr_toList (b : Bool) (s : String) (w : List String) (h : s.toList = tailL (wordsP w)) :
    (flagStr b true s).toList = tailL (flagP b w) := by
  cases b
  · rfl
  · simpa [flagStr, flagP] using h
theorem ite_toList (b : Bool) (s : String) (w : List String) (h : s.toList = tailL (wordsP w)) :
    (if b = true then s else "").toList = tailL (flagP b w) := by
  cases b
  · rfl
  · simpa [flagP] using h
theorem flagStr_false (b : Bool) (s : String) : flagStr b false s = "" := by cases b <;> rfl
theorem optStr_false (pre : String) (o : Option String) : optStr false pre o = "" := by cases o <;> rfl

/-- `" KW … "` before a raw-source payload -/
theorem optStr_src (pre : String) (kws : List String) (h : pre.toList = tailL (wordsP kws) ++ [' ']) (o : Option String) :
    (optStr true pre o).toList = tailL (srcP kws o) := by
  cases o with
  | none => rfl
  | some s => simp [optStr, String.toList_append, h, srcP]
/-- `" [KW …] KW="` before a raw-source payload -/
theorem optStr_eq (pre : String) (ws : List String) (kw : String) (h : pre.toList = tailL (wordsP ws) ++ ' ' :: (kw.toList ++ ['='])) (o : Option String) :
    (optStr true pre o).toList = tailL (optEqP ws kw o) := by
  cases o with
  | none => rfl
  | some s => simp [optStr, String.toList_append, h, optEqP]
theorem optIntStr_eq (pre : String) (kw : String) (h : pre.toList = ' ' :: (kw.toList ++ ['='])) (o : Option Int) :
    (optIntStr pre o).toList = tailL (optIntP kw o) := by
  cases o with
  | none => rfl
  | some n => simp [optIntStr, String.toList_append, h, optIntP]

/-! ## column definitions -/

theorem prColType_eq (d : Gen.D) (t : ColType) (hf : typeOK d t = true) (hl : LeafType d t) :
    PR.prColType d t = .ok (String.ofList (typeL d t)) := by
  obtain ⟨tn, ps⟩ := t
  cases ps with
  | none => simp [PR.prColType, typeL, String.ofList_toList]
  | some ps =>
    simp only [typeOK, Bool.and_eq_true, Bool.not_eq_eq_eq_not, Bool.not_true, List.all_eq_true] at hf
    have hd : (d == Gen.D.HIVE && !(["DECIMAL", "VARCHAR", "CHAR"].contains (Gen.pyUpperS tn))) = false := hf.1.1
    have h8 := prList8_eq d ps fun e he => ⟨hf.1.2 e he, hl.2 ps rfl e he⟩
    simp only [PR.prColType, hd, Bool.false_eq_true, if_false, h8, Except.map, typeL, hiveDrops]
    refine congrArg Except.ok (ofList_eq ?_)
    have e1 : (",": String).toList = [','] := rfl
    simp [toString, String.toList_append, toList_joinS, e1, parenL, String.toList_ofList, comp_toList_ofList]

theorem prGen_my (d : Gen.D) (g : Option GenCol) (hf : genOK d g = true) (hl : genLeaf d g) :
    prGen d true g = .ok (String.ofList (tailL (genP d g))) := by
  cases g with
  | none => rfl
  | some g =>
    obtain ⟨e, m⟩ := g
    cases m with
    | none => simp [genOK] at hf
    | some m =>
      simp only [genOK, Bool.and_eq_true] at hf
      have h1 := prE_eq d (sz e) e (Nat.le_refl _) hf.1 hl
      simp only [prGen, if_true, h1, bind, Except.bind, pure, Except.pure, wrap_ofList]
      refine congrArg Except.ok (ofList_eq ?_)
      have e1 : (" GENERATED ALWAYS AS (" : String).toList =
          ' ' :: ("GENERATED".toList ++ ' ' :: ("ALWAYS".toList ++ ' ' :: ("AS".toList ++ [' ', '(']))) := by decide +kernel
      have e2 : (") " : String).toList = [')', ' '] := rfl
      simp [toString, String.toList_append, String.toList_ofList, e1, e2, genP, wordsP, parenL, keyL]

theorem prDflt_my (d : Gen.D) (o : Option Expr) (hf : optFragE d o = true) (hl : optLeaf d o) :
    prDflt d true o = .ok (String.ofList (tailL (dfltP d o))) := by
  cases o with
  | none => rfl
  | some e =>
    have h1 := prE_eq d (sz e) e (Nat.le_refl _) hf hl
    simp only [prDflt, if_true, h1, Except.map, wrap_ofList]
    refine congrArg Except.ok (ofList_eq ?_)
    have e1 : (" DEFAULT " : String).toList = ' ' :: ("DEFAULT".toList ++ [' ']) := by decide +kernel
    simp [toString, String.toList_append, String.toList_ofList, e1, dfltP, keyL]

theorem prOnUp_my (d : Gen.D) (o : Option Expr) (hf : optFragE d o = true) (hl : optLeaf d o) :
    prOnUp d true o = .ok (String.ofList (tailL (onUpP d o))) := by
  cases o with
  | none => rfl
  | some e =>
    have h1 := prE_eq d (sz e) e (Nat.le_refl _) hf hl
    simp only [prOnUp, if_true, h1, Except.map, wrap_ofList]
    refine congrArg Except.ok (ofList_eq ?_)
    have e1 : (" ON UPDATE " : String).toList = ' ' :: ("ON".toList ++ ' ' :: ("UPDATE".toList ++ [' '])) := by decide +kernel
    simp [toString, String.toList_append, String.toList_ofList, e1, onUpP, keyL]

theorem prGen_false (d : Gen.D) (g : Option GenCol) : prGen d false g = .ok "" := by cases g <;> rfl
theorem prDflt_false (d : Gen.D) (o : Option Expr) : prDflt d false o = .ok "" := by cases o <;> rfl
theorem prOnUp_false (d : Gen.D) (o : Option Expr) : prOnUp d false o = .ok "" := by cases o <;> rfl

theorem comment_toList (o : Option String) : (optStr true " COMMENT " o).toList = tailL (srcP ["COMMENT"] o) :=
  optStr_src " COMMENT " ["COMMENT"] (by decide +kernel) o

theorem head_toList (n : String) (ty : List Char) : (s!"`{n}` {String.ofList ty}").toList = bqL n ++ ' ' :: ty := by
  have e1 : ("`" : String).toList = ['`'] := rfl
  have e2 : ("` " : String).toList = ['`', ' '] := rfl
  simp [toString, String.toList_append, String.toList_ofList, e1, e2, bqL]

/-- the MySQL rendering of a column definition -/
theorem prDefCol_my (c : DefCol) (hf : TD.colOK .MYSQL c = true) (hl : LeafCol .MYSQL c) :
    PR.prDefCol .MYSQL c = .ok (String.ofList (defColL .MYSQL c)) := by
  have hm : (Gen.D.MYSQL == Gen.D.MYSQL) = true := rfl
  simp only [TD.colOK, hm, if_true, Bool.and_eq_true] at hf
  rw [prDefCol_unf]
  simp only [hm, prColType_eq .MYSQL c.type hf.1.2 hl.type, prGen_my .MYSQL c.generated hf.2.2 hl.gen,
    prDflt_my .MYSQL c.default hf.2.1.1 hl.dflt, prOnUp_my .MYSQL c.onUpdate hf.2.1.2 hl.onUp, bind, Except.bind, pure, Except.pure]
  refine congrArg Except.ok (ofList_eq ?_)
  unfold colStr
  have e1 : ("`" : String).toList = ['`'] := rfl
  have e2 : ("` " : String).toList = ['`', ' '] := rfl
  simp only [String.toList_append, String.toList_ofList,
    flagStr_toList c.unsigned " UNSIGNED" ["UNSIGNED"] (by decide +kernel),
    flagStr_toList c.zerofill " ZEROFILL" ["ZEROFILL"] (by decide +kernel),
    flagStr_toList c.allowNull " NULL" ["NULL"] (by decide +kernel),
    flagStr_toList c.notNull " NOT NULL" ["NOT", "NULL"] (by decide +kernel),
    flagStr_toList c.autoInc " AUTO_INCREMENT" ["AUTO_INCREMENT"] (by decide +kernel),
    optStr_src " CHARACTER SET " ["CHARACTER", "SET"] (by decide +kernel) c.charset,
    optStr_src " COLLATE " ["COLLATE"] (by decide +kernel) c.collate, comment_toList]
  simp only [toString, e1, e2, String.toList_ofList, defColL, attrsP, hm, if_true, myAttrsP, tailL_cons, tailL_append, bqL, List.append_assoc,
    List.cons_append, List.nil_append]

/-- the Hive rendering of a column definition: name, type, comment (whatever else the column has) -/
theorem prDefCol_hive (c : DefCol) (hf : typeOK .HIVE c.type = true) (hl : LeafType .HIVE c.type) :
    PR.prDefCol .HIVE c = .ok (String.ofList (defColL .HIVE c)) := by
  have hm : (Gen.D.HIVE == Gen.D.MYSQL) = false := rfl
  rw [prDefCol_unf]
  simp only [hm, prColType_eq .HIVE c.type hf hl, prGen_false, prDflt_false, prOnUp_false, bind, Except.bind, pure, Except.pure]
  refine congrArg Except.ok (ofList_eq ?_)
  unfold colStr
  have e0 : ("" : String).toList = [] := rfl
  have e1 : ("`" : String).toList = ['`'] := rfl
  have e2 : ("` " : String).toList = ['`', ' '] := rfl
  simp only [String.toList_append, flagStr_false, optStr_false, e0, List.append_nil, comment_toList]
  simp only [toString, e1, e2, String.toList_ofList, defColL, attrsP, hm, Bool.false_eq_true, if_false, tailL_cons, bqL, List.append_assoc,
    List.cons_append, List.nil_append]

theorem mapM_eq {α : Type} (f : α → PR.P) (g : α → List Char) : ∀ (l : List α), (∀ x ∈ l, f x = .ok (String.ofList (g x))) →
    PR.mapM' f l = .ok (l.map fun x => String.ofList (g x))
  | [], _ => rfl
  | a :: r, h => by
    simp only [PR.mapM', h a (by simp), mapM_eq f g r fun x hx => h x (by simp [hx]), bind, Except.bind, pure, Except.pure, List.map_cons]

/-! ## keys -/

theorem prIndexCol_toList (c : IndexCol) : (PR.prIndexCol c).toList = idxColL c := by
  obtain ⟨n, ml⟩ := c
  have e1 : ("`" : String).toList = ['`'] := rfl
  have e2 : ("`(" : String).toList = ['`', '('] := rfl
  have e3 : (")" : String).toList = [')'] := rfl
  cases ml <;> simp [PR.prIndexCol, idxColL, toString, String.toList_append, e1, e2, e3, bqL, parenL]

theorem kind_toList (k : IndexKind) : k.word.toList = kindL k := by cases k <;> rfl

theorem idxName_toList (o : Option String) : (optStr true " " o).toList = tailL (idxNameP o) := by
  have e : (" " : String).toList = [' '] := rfl
  cases o <;> simp [optStr, idxNameP, String.toList_append, e]

/-- `PR.prIndex i` prints `indexL i` -/
theorem prIndex_toList (i : Index) : (PR.prIndex i).toList = indexL i := by
  have e1 : (" (" : String).toList = [' ', '('] := rfl
  have e2 : (")" : String).toList = [')'] := rfl
  have e3 : ("," : String).toList = [','] := rfl
  have hc : (i.cols.map PR.prIndexCol).map String.toList = i.cols.map idxColL := by
    rw [List.map_map]; exact List.map_congr_left fun c _ => prIndexCol_toList c
  rw [prIndex_unf]
  unfold idxStr
  simp only [String.toList_append, kind_toList, idxName_toList, toList_joinS, hc, e1, e2, e3,
    optStr_src " USING " ["USING"] (by decide +kernel) i.usingMethod, comment_toList,
    optIntStr_eq " KEY_BLOCK_SIZE=" "KEY_BLOCK_SIZE" (by decide +kernel) i.keyBlockSize]
  simp only [indexL, tailL_cons, tailL_append, parenL, List.append_assoc, List.cons_append, List.nil_append]

theorem act_toList (pre : String) (b : String) (h : pre.toList = ' ' :: ("ON".toList ++ ' ' :: (b.toList ++ [' ']))) (o : Option String) :
    (optStr true pre o).toList = tailL (actP b o) := by
  cases o with
  | none => rfl
  | some s => simp [optStr, String.toList_append, h, actP]

/-- `PR.prForeignKey k` prints `fkL k` -/
theorem prForeignKey_toList (k : ForeignKey) : (PR.prForeignKey k).toList = fkL k := by
  have e1 : ("CONSTRAINT " : String).toList = "CONSTRAINT".toList ++ [' '] := by decide +kernel
  have e2 : (" FOREIGN KEY (" : String).toList = ' ' :: ("FOREIGN".toList ++ ' ' :: ("KEY".toList ++ [' ', '('])) := by decide +kernel
  have e3 : (") REFERENCES " : String).toList = ')' :: ' ' :: ("REFERENCES".toList ++ [' ']) := by decide +kernel
  have e4 : (" (" : String).toList = [' ', '('] := rfl
  have e5 : (")" : String).toList = [')'] := rfl
  have e6 : (", " : String).toList = [',', ' '] := rfl
  rw [prForeignKey_unf]
  unfold fkStr
  simp only [String.toList_append]
  simp only [toString]
  simp only [toList_joinS]
  simp only [e6]
  simp only [e4, e5]
  simp only [e1]
  simp only [e2]
  simp only [e3]
  simp only [act_toList " ON DELETE " "DELETE" (by decide +kernel) k.onDelete, act_toList " ON UPDATE " "UPDATE" (by decide +kernel) k.onUpdate]
  unfold fkL namesL parenL
  generalize "CONSTRAINT".toList = w1
  generalize "FOREIGN".toList = w2
  generalize "KEY".toList = w3
  generalize "REFERENCES".toList = w4
  simp only [tailL_cons, tailL_append, List.append_assoc, List.cons_append, List.nil_append]

/-! ## the statement -/

theorem tableNameSrc_toList (t : TableName) : (PR.tableNameSrc t.schema t.name).toList = tblL t := by
  obtain ⟨s, n⟩ := t
  have e1 : ("`" : String).toList = ['`'] := rfl
  have e2 : ("." : String).toList = ['.'] := rfl
  cases s <;> simp [PR.tableNameSrc, tblL, bqL, tblStr, toString, String.toList_append, e1, e2]

theorem titleS_toList (c : CreateTable) :
    (PR.titleStr c).toList = "CREATE".toList ++ tailL ("TABLE".toList :: (flagP c.ifNotExists ["IF", "NOT", "EXISTS"] ++ [tblL c.table])) := by
  have e1 : ("CREATE TABLE" : String).toList = "CREATE".toList ++ ' ' :: "TABLE".toList := by decide +kernel
  have e2 : (" " : String).toList = [' '] := rfl
  have e3 : (" IF NOT EXISTS" : String).toList = tailL (wordsP ["IF", "NOT", "EXISTS"]) := by decide +kernel
  have e4 : ("" : String).toList = [] := rfl
  unfold PR.titleStr
  cases c.ifNotExists
  · simp only [toString, String.toList_append, e1, e2, e4, tableNameSrc_toList, Bool.false_eq_true, if_false, flagP]
    simp only [tailL_cons, tailL_append, tailL_nil, List.append_assoc, List.cons_append, List.nil_append, List.append_nil]
  · simp only [toString, String.toList_append, e1, e2, e3, tableNameSrc_toList, if_true, flagP]
    simp only [tailL_cons, tailL_append, tailL_nil, List.append_assoc, List.cons_append, List.nil_append, List.append_nil]

theorem indent_map (l : List String) : (l.map ("  " ++ ·)).map String.toList = (l.map String.toList).map fun x => ' ' :: ' ' :: x := by
  have e : ("  " : String).toList = [' ', ' '] := rfl
  simp [List.map_map, Function.comp_def, String.toList_append, e]

theorem optIdx_toList (o : Option Index) : (optIdxStrs o).map String.toList = (optList o).map indexL := by
  cases o <;> simp [optIdxStrs, optList, prIndex_toList]

/-- **the MySQL printer prints `createL MYSQL c`** -/
theorem prCreateMysql_eq (c : CreateTable) (hf : FragCreate .MYSQL c = true) (hl : LeafC .MYSQL c) :
    PR.prCreateMysql c = .ok (String.ofList (createL .MYSQL c)) := by
  have hm : (Gen.D.MYSQL == Gen.D.MYSQL) = true := rfl
  have hcols : ∀ x ∈ c.columns, TD.colOK .MYSQL x = true := by
    simp only [FragCreate, Bool.and_eq_true, List.all_eq_true] at hf
    exact hf.1.1.2
  have h1 := mapM_eq (PR.prDefCol .MYSQL) (defColL .MYSQL) c.columns fun x hx => prDefCol_my x (hcols x hx) (hl.cols x hx)
  rw [prCreateMysql_unf, h1, PR.ok_bind]
  refine congrArg Except.ok (ofList_eq ?_)
  have e1 : (" (\n" : String).toList = [' ', '(', '\n'] := rfl
  have e2 : ("\n)" : String).toList = ['\n', ')'] := rfl
  have e3 : (",\n" : String).toList = [',', '\n'] := rfl
  have hi : ∀ l : List Index, (l.map PR.prIndex).map String.toList = l.map indexL := by
    intro l; rw [List.map_map]; exact List.map_congr_left fun i _ => prIndex_toList i
  have hk : (c.foreignKey.map PR.prForeignKey).map String.toList = c.foreignKey.map fkL := by
    rw [List.map_map]; exact List.map_congr_left fun i _ => prForeignKey_toList i
  unfold createMyStr
  simp only [String.toList_append, titleS_toList, toList_joinS, indent_map, List.map_append, hi, hk, optIdx_toList, map_toList_ofList, e1, e2, e3,
    optStr_eq " ENGINE=" [] "ENGINE" (by decide +kernel) c.engine,
    optIntStr_eq " AUTO_INCREMENT=" "AUTO_INCREMENT" (by decide +kernel) c.autoIncrement,
    optStr_eq " DEFAULT CHARSET=" ["DEFAULT"] "CHARSET" (by decide +kernel) c.defaultCharset,
    optStr_eq " COLLATE=" [] "COLLATE" (by decide +kernel) c.collate,
    optStr_eq " ROW_FORMAT=" [] "ROW_FORMAT" (by decide +kernel) c.rowFormat,
    optStr_eq " STATS_PERSISTENT=" [] "STATS_PERSISTENT" (by decide +kernel) c.statesPersistent,
    optStr_eq " COMMENT=" [] "COMMENT" (by decide +kernel) c.comment]
  simp only [createL, hm, if_true, myOptsP, linesL, groupL, parenL, tailL_cons, tailL_append, tailL_nil, List.append_assoc, List.cons_append,
    List.nil_append, List.append_nil, List.map_append]

theorem part_toList (d : Gen.D) (ps : List DefCol) : (partStr ps (ps.map fun x => String.ofList (defColL d x))).toList = tailL (partP d ps) := by
  have e1 : (" PARTITIONED BY (" : String).toList = ' ' :: ("PARTITIONED".toList ++ ' ' :: ("BY".toList ++ [' ', '('])) := by decide +kernel
  have e2 : (")" : String).toList = [')'] := rfl
  have e3 : (", " : String).toList = [',', ' '] := rfl
  cases he : ps.isEmpty with
  | true => simp only [partStr, partP, he, if_true]; rfl
  | false =>
    simp only [partStr, partP, he, Bool.false_eq_true, if_false, toString, String.toList_append, toList_joinS, map_toList_ofList, e1, e2, e3]
    simp only [parenL, tailL_cons, tailL_nil, List.append_assoc, List.cons_append, List.nil_append, List.append_nil]

theorem props_toList (ps : List ConfigStr) : (propsStr ps).toList = tailL (propsP ps) := by
  have e1 : (" TBLPROPERTIES (" : String).toList = ' ' :: ("TBLPROPERTIES".toList ++ [' ', '(']) := by decide +kernel
  have e2 : (")" : String).toList = [')'] := rfl
  have e3 : (", " : String).toList = [',', ' '] := rfl
  have e4 : ("=" : String).toList = ['='] := rfl
  have hp : (ps.map fun p => s!"{p.name}={p.value}").map String.toList = ps.map propL := by
    rw [List.map_map]
    exact List.map_congr_left fun p _ => by simp [toString, String.toList_append, e4, propL]
  cases he : ps.isEmpty with
  | true => simp only [propsStr, propsP, he, if_true]; rfl
  | false =>
    simp only [propsStr, propsP, he, Bool.false_eq_true, if_false, String.toList_append, toList_joinS, hp, e1, e2, e3]
    simp only [parenL, tailL_cons, tailL_nil, List.append_assoc, List.cons_append, List.nil_append, List.append_nil]

/-- the text of the Hive printer, as a function of the column and partition-column texts -/
theorem createHiveStr_toList (c : CreateTable) :
    (createHiveStr c (c.columns.map fun x => String.ofList (defColL .HIVE x))
      (c.partitionedBy.map fun x => String.ofList (defColL .HIVE x))).toList = createL .HIVE c := by
  have hm : (Gen.D.HIVE == Gen.D.MYSQL) = false := rfl
  have e0 : (" " : String).toList = [' '] := rfl
  have e1 : ("(\n" : String).toList = ['(', '\n'] := rfl
  have e2 : ("\n)" : String).toList = ['\n', ')'] := rfl
  have e3 : (",\n" : String).toList = [',', '\n'] := rfl
  unfold createHiveStr
  simp only [String.toList_append, titleS_toList, toList_joinS, indent_map, map_toList_ofList, e0, e1, e2, e3, comment_toList, part_toList, props_toList,
    optStr_src " ROW FORMAT SERDE " ["ROW", "FORMAT", "SERDE"] (by decide +kernel) c.rowFormatSerde,
    optStr_src " ROW FORMAT DELIMITED FIELDS TERMINATED BY " ["ROW", "FORMAT", "DELIMITED", "FIELDS", "TERMINATED", "BY"] (by decide +kernel)
      c.rowFormatDelimited,
    optStr_src " STORED AS INPUTFORMAT " ["STORED", "AS", "INPUTFORMAT"] (by decide +kernel) c.storedAsInputformat,
    ite_toList c.storedAsTextfile " STORED AS TEXTFILE" ["STORED", "AS", "TEXTFILE"] (by decide +kernel),
    optStr_src " OUTPUTFORMAT " ["OUTPUTFORMAT"] (by decide +kernel) c.outputformat,
    optStr_src " LOCATION " ["LOCATION"] (by decide +kernel) c.location]
  simp only [createL, hm, Bool.false_eq_true, if_false, hiveOptsP, linesL, groupL, parenL, tailL_cons, tailL_append, tailL_nil, List.append_assoc,
    List.cons_append, List.nil_append, List.append_nil]

/-- **the Hive printer prints `createL HIVE c`** -/
theorem prCreateHive_eq (c : CreateTable) (hf : FragCreate .HIVE c = true) (hl : LeafC .HIVE c) :
    PR.prCreateHive c = .ok (String.ofList (createL .HIVE c)) := by
  have hm : (Gen.D.HIVE == Gen.D.MYSQL) = false := rfl
  simp only [FragCreate, hm, Bool.false_eq_true, if_false, Bool.and_eq_true, List.all_eq_true] at hf
  have hcols := hf.1.1.2
  have hparts := hf.2.1.1.1.1.1.1.1.1.2
  have ty : ∀ x : DefCol, TD.colOK .HIVE x = true → typeOK .HIVE x.type = true := by
    intro x hx; simp only [TD.colOK, Bool.and_eq_true] at hx; exact hx.1.2
  have h1 := mapM_eq (PR.prDefCol .HIVE) (defColL .HIVE) c.columns fun x hx => prDefCol_hive x (ty x (hcols x hx)) (hl.cols x hx).type
  have h2 := mapM_eq (PR.prDefCol .HIVE) (defColL .HIVE) c.partitionedBy fun x hx => prDefCol_hive x (ty x (hparts x hx)) (hl.parts x hx).type
  rw [prCreateHive_unf, h1, PR.ok_bind, h2, PR.ok_bind]
  exact congrArg Except.ok (ofList_eq (createHiveStr_toList c))

end LD
