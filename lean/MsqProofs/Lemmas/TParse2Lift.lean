import MsqProofs.Lemmas.TParse2_0
/-!
# T-parse, larger fragment: the level tower with the stronger continuation condition (C02 / C01)

The same forms and lifts as MsqProofs/Lemmas/TParseLift.lean, with `stopLE2` (additionally: the head of the continuation is not
`OVER`) in the place of `stopLE`: `Full2`, `Cont2`, `Tower2`.  `Full → Full2`, `Cont → Cont2` (`Full2.of`, `Cont2.of`): what is proved
for the operator fragment is re-used.  (Derived from TParseLift.lean by substitution; the loops-stop lemmas are TP's.)
-/
set_option linter.unusedVariables false
set_option linter.unusedSimpArgs false
open Lex PM Ast TP
namespace TP2
variable (d : Gen.D)

def Full2 (p : Nat → List Tok → R Expr) (L off : Nat) (ts : List Tok) (x : Expr) : Prop :=
  ∀ rest, stopLE2 d L rest = true → OkAt (fun f => p f (ts ++ rest)) (20 * sizeL ts + off) (x, rest)
def Cont2 (p : Nat → List Tok → R Expr) (loop : Nat → Expr → List Tok → R Expr) (L off : Nat) (ts : List Tok) (x : Expr) : Prop :=
  ∀ rest, stopLE2 d L rest = true → ∀ n res, OkAt (fun f => loop f x rest) n res → OkAt (fun f => p f (ts ++ rest)) (n + 20 * sizeL ts + off) res
variable {d}
theorem Full2.of {p L off ts x} (h : Full d p L off ts x) : Full2 d p L off ts x := fun rest hr => h rest (sl hr)
theorem Cont2.of {p loop L off ts x} (h : Cont d p loop L off ts x) : Cont2 d p loop L off ts x := fun rest hr => h rest (sl hr)

/-! ### one level up -/
theorem up8 {ts x} (h : Full2 d (P2 d) 2 0 ts x) : Full2 d (P8 d) 8 2 ts x := by
  intro rest hr f hf
  obtain ⟨g, rfl⟩ : ∃ g, f = g + 1 := ⟨f - 1, by omega⟩
  show pCompute d (g + 1) (ts ++ rest) = _
  unfold pCompute
  have : pUnary d g (ts ++ rest) = .ok (x, rest) := h rest (stopLE2_mono hr (by omega)) g (by omega)
  rw [this]
  simpa [PM.collapse] using computeLoop_stop d [] x rest (sl hr) g (by omega)

theorem c9_of_s8 {ts x} (h : Full2 d (P8 d) 8 2 ts x) (hd : HeadOK d ts) : Cont2 d (P9 d) (kwLoop d) 8 4 ts x := by
  intro rest hr n res hl f hf
  obtain ⟨g, rfl⟩ : ∃ g, f = g + 2 := ⟨f - 2, by omega⟩
  obtain ⟨t, ts', rfl, ht⟩ := hd
  show pKeyword d (g + 2) none (t :: ts' ++ rest) = _
  have he : searchStrUp (t :: ts' ++ rest) "EXISTS" = false := by
    simp only [operandTok, Bool.and_eq_true, Bool.not_eq_true'] at ht
    simpa [searchStrUp] using ht.2
  have h1 : pCompute d g (t :: ts' ++ rest) = .ok (x, rest) := h rest hr g (by omega)
  unfold pKeyword
  simp only [he, Bool.and_false, Bool.false_eq_true, if_false]
  unfold pKwFirst
  simp only [h1]
  exact hl (g + 1) (by omega)
theorem s9_of_c9 {ts x} (h : Cont2 d (P9 d) (kwLoop d) 8 4 ts x) : Full2 d (P9 d) 9 6 ts x := by
  intro rest hr
  exact (h rest (stopLE2_mono hr (by omega)) 2 _ (kwLoop_stop d x rest (sl hr))).mono (by omega)
theorem c10_of_s9 {ts x} (h : Full2 d (P9 d) 9 6 ts x) : Cont2 d (P10 d) (fun f => pCompareLoop d f) 9 7 ts x := by
  intro rest hr n res hl f hf
  obtain ⟨g, rfl⟩ : ∃ g, f = g + 1 := ⟨f - 1, by omega⟩
  show pCompare d (g + 1) (ts ++ rest) = _
  unfold pCompare
  have h1 : pKeyword d g none (ts ++ rest) = .ok (x, rest) := h rest hr g (by omega)
  rw [h1]
  exact hl g (by omega)
theorem s10_of_c10 {ts x} (h : Cont2 d (P10 d) (fun f => pCompareLoop d f) 9 7 ts x) : Full2 d (P10 d) 10 8 ts x := by
  intro rest hr
  exact (h rest (stopLE2_mono hr (by omega)) 1 _ (compareLoop_stop d x rest (sl hr))).mono (by omega)
theorem up11 {ts x} (h : Full2 d (P10 d) 10 8 ts x) (hd : HeadOK d ts) : Full2 d (P11 d) 11 9 ts x := by
  intro rest hr f hf
  obtain ⟨g, rfl⟩ : ∃ g, f = g + 1 := ⟨f - 1, by omega⟩
  obtain ⟨t, ts', rfl, ht⟩ := hd
  show pNot d (g + 1) (t :: ts' ++ rest) = _
  have hn : (Gen.notSet d).contains (up t.src) = false := by
    simp only [operandTok, Bool.and_eq_true, Bool.not_eq_true'] at ht
    exact ht.1.2
  unfold pNot
  simp only [List.cons_append, hn, Bool.false_eq_true, if_false]
  exact h rest (stopLE2_mono hr (by omega)) g (by omega)
theorem c12_of_s11 {ts x} (h : Full2 d (P11 d) 11 9 ts x) : Cont2 d (P12 d) (fun f => pAndLoop d f) 11 10 ts x := by
  intro rest hr n res hl f hf
  obtain ⟨g, rfl⟩ : ∃ g, f = g + 1 := ⟨f - 1, by omega⟩
  show pAnd d (g + 1) (ts ++ rest) = _
  unfold pAnd
  have h1 : pNot d g (ts ++ rest) = .ok (x, rest) := h rest hr g (by omega)
  rw [h1]
  exact hl g (by omega)
theorem s12_of_c12 {ts x} (h : Cont2 d (P12 d) (fun f => pAndLoop d f) 11 10 ts x) : Full2 d (P12 d) 12 11 ts x := by
  intro rest hr
  exact (h rest (stopLE2_mono hr (by omega)) 1 _ (andLoop_stop d x rest (sl hr))).mono (by omega)
theorem c13_of_s12 {ts x} (h : Full2 d (P12 d) 12 11 ts x) : Cont2 d (P13 d) (fun f => pXorLoop d f) 12 12 ts x := by
  intro rest hr n res hl f hf
  obtain ⟨g, rfl⟩ : ∃ g, f = g + 1 := ⟨f - 1, by omega⟩
  show pXor d (g + 1) (ts ++ rest) = _
  unfold pXor
  have h1 : pAnd d g (ts ++ rest) = .ok (x, rest) := h rest hr g (by omega)
  rw [h1]
  exact hl g (by omega)
theorem s13_of_c13 {ts x} (h : Cont2 d (P13 d) (fun f => pXorLoop d f) 12 12 ts x) : Full2 d (P13 d) 13 13 ts x := by
  intro rest hr
  exact (h rest (stopLE2_mono hr (by omega)) 1 _ (xorLoop_stop d x rest (sl hr))).mono (by omega)
theorem c14_of_s13 {ts x} (h : Full2 d (P13 d) 13 13 ts x) : Cont2 d (P14 d) (fun f => pOrLoop d f) 13 14 ts x := by
  intro rest hr n res hl f hf
  obtain ⟨g, rfl⟩ : ∃ g, f = g + 1 := ⟨f - 1, by omega⟩
  show pOr d (g + 1) (ts ++ rest) = _
  unfold pOr
  have h1 : pXor d g (ts ++ rest) = .ok (x, rest) := h rest hr g (by omega)
  rw [h1]
  exact hl g (by omega)
theorem s14_of_c14 {ts x} (h : Cont2 d (P14 d) (fun f => pOrLoop d f) 13 14 ts x) : Full2 d (P14 d) 14 15 ts x := by
  intro rest hr
  exact (h rest (stopLE2_mono hr (by omega)) 1 _ (orLoop_stop d x rest (sl hr))).mono (by omega)

/-! ### every level from `L0` upwards -/
variable (d)
structure Tower2 (L0 : Nat) (ts : List Tok) (x : Expr) : Prop where
  s2 : L0 ≤ 2 → Full2 d (P2 d) 2 0 ts x
  s8 : L0 ≤ 8 → Full2 d (P8 d) 8 2 ts x
  c9 : L0 ≤ 9 → Cont2 d (P9 d) (kwLoop d) 8 4 ts x
  s9 : L0 ≤ 9 → Full2 d (P9 d) 9 6 ts x
  c10 : L0 ≤ 10 → Cont2 d (P10 d) (fun f => pCompareLoop d f) 9 7 ts x
  s10 : L0 ≤ 10 → Full2 d (P10 d) 10 8 ts x
  s11 : L0 ≤ 11 → Full2 d (P11 d) 11 9 ts x
  c12 : L0 ≤ 12 → Cont2 d (P12 d) (fun f => pAndLoop d f) 11 10 ts x
  s12 : L0 ≤ 12 → Full2 d (P12 d) 12 11 ts x
  c13 : L0 ≤ 13 → Cont2 d (P13 d) (fun f => pXorLoop d f) 12 12 ts x
  s13 : L0 ≤ 13 → Full2 d (P13 d) 13 13 ts x
  c14 : Cont2 d (P14 d) (fun f => pOrLoop d f) 13 14 ts x
  s14 : Full2 d (P14 d) 14 15 ts x
variable {d}

theorem Tower2.of14 {ts x} (h : Cont2 d (P14 d) (fun f => pOrLoop d f) 13 14 ts x) : Tower2 d 14 ts x :=
  ⟨fun h => absurd h (by omega), fun h => absurd h (by omega), fun h => absurd h (by omega), fun h => absurd h (by omega),
   fun h => absurd h (by omega), fun h => absurd h (by omega), fun h => absurd h (by omega), fun h => absurd h (by omega),
   fun h => absurd h (by omega), fun h => absurd h (by omega), fun h => absurd h (by omega), h, s14_of_c14 h⟩
theorem Tower2.of_s13 {ts x} (L0 : Nat) (hL : 13 ≤ L0) (h13 : Full2 d (P13 d) 13 13 ts x)
    (c13 : Cont2 d (P13 d) (fun f => pXorLoop d f) 12 12 ts x) : Tower2 d L0 ts x :=
  ⟨fun h => absurd h (by omega), fun h => absurd h (by omega), fun h => absurd h (by omega), fun h => absurd h (by omega),
   fun h => absurd h (by omega), fun h => absurd h (by omega), fun h => absurd h (by omega), fun h => absurd h (by omega),
   fun h => absurd h (by omega), fun _ => c13, fun _ => h13, c14_of_s13 h13, s14_of_c14 (c14_of_s13 h13)⟩
theorem Tower2.of13 {ts x} (h : Cont2 d (P13 d) (fun f => pXorLoop d f) 12 12 ts x) : Tower2 d 13 ts x :=
  Tower2.of_s13 13 (by omega) (s13_of_c13 h) h
theorem Tower2.of_s12 {ts x} (L0 : Nat) (hL : 12 ≤ L0) (h12 : Full2 d (P12 d) 12 11 ts x)
    (c12 : Cont2 d (P12 d) (fun f => pAndLoop d f) 11 10 ts x) : Tower2 d L0 ts x :=
  let T := Tower2.of13 (c13_of_s12 h12)
  ⟨fun h => absurd h (by omega), fun h => absurd h (by omega), fun h => absurd h (by omega), fun h => absurd h (by omega),
   fun h => absurd h (by omega), fun h => absurd h (by omega), fun h => absurd h (by omega), fun _ => c12, fun _ => h12,
   fun _ => T.c13 (by omega), fun _ => T.s13 (by omega), T.c14, T.s14⟩
theorem Tower2.of12 {ts x} (h : Cont2 d (P12 d) (fun f => pAndLoop d f) 11 10 ts x) : Tower2 d 12 ts x :=
  Tower2.of_s12 12 (by omega) (s12_of_c12 h) h
theorem Tower2.of11 {ts x} (h : Full2 d (P11 d) 11 9 ts x) : Tower2 d 11 ts x :=
  let T := Tower2.of12 (c12_of_s11 h)
  ⟨fun h => absurd h (by omega), fun h => absurd h (by omega), fun h => absurd h (by omega), fun h => absurd h (by omega),
   fun h => absurd h (by omega), fun h => absurd h (by omega), fun _ => h, fun _ => T.c12 (by omega), fun _ => T.s12 (by omega),
   fun _ => T.c13 (by omega), fun _ => T.s13 (by omega), T.c14, T.s14⟩
theorem Tower2.of10 {ts x} (h : Cont2 d (P10 d) (fun f => pCompareLoop d f) 9 7 ts x) (hd : HeadOK d ts) : Tower2 d 10 ts x :=
  let T := Tower2.of11 (up11 (s10_of_c10 h) hd)
  ⟨fun h => absurd h (by omega), fun h => absurd h (by omega), fun h => absurd h (by omega), fun h => absurd h (by omega),
   fun _ => h, fun _ => s10_of_c10 h, fun _ => T.s11 (by omega), fun _ => T.c12 (by omega), fun _ => T.s12 (by omega),
   fun _ => T.c13 (by omega), fun _ => T.s13 (by omega), T.c14, T.s14⟩
theorem Tower2.of9 {ts x} (h : Cont2 d (P9 d) (kwLoop d) 8 4 ts x) (hd : HeadOK d ts) : Tower2 d 9 ts x :=
  let T := Tower2.of10 (c10_of_s9 (s9_of_c9 h)) hd
  ⟨fun h => absurd h (by omega), fun h => absurd h (by omega), fun _ => h, fun _ => s9_of_c9 h,
   fun _ => T.c10 (by omega), fun _ => T.s10 (by omega), fun _ => T.s11 (by omega), fun _ => T.c12 (by omega), fun _ => T.s12 (by omega),
   fun _ => T.c13 (by omega), fun _ => T.s13 (by omega), T.c14, T.s14⟩
theorem Tower2.of8 {ts x} (h : Full2 d (P8 d) 8 2 ts x) (hd : HeadOK d ts) : Tower2 d 8 ts x :=
  let T := Tower2.of9 (c9_of_s8 h hd) hd
  ⟨fun h => absurd h (by omega), fun _ => h, fun _ => T.c9 (by omega), fun _ => T.s9 (by omega),
   fun _ => T.c10 (by omega), fun _ => T.s10 (by omega), fun _ => T.s11 (by omega), fun _ => T.c12 (by omega), fun _ => T.s12 (by omega),
   fun _ => T.c13 (by omega), fun _ => T.s13 (by omega), T.c14, T.s14⟩
theorem Tower2.of2 {ts x} (h : Full2 d (P2 d) 2 0 ts x) (hd : HeadOK d ts) : Tower2 d 2 ts x :=
  let T := Tower2.of8 (up8 h) hd
  ⟨fun _ => h, fun _ => T.s8 (by omega), fun _ => T.c9 (by omega), fun _ => T.s9 (by omega),
   fun _ => T.c10 (by omega), fun _ => T.s10 (by omega), fun _ => T.s11 (by omega), fun _ => T.c12 (by omega), fun _ => T.s12 (by omega),
   fun _ => T.c13 (by omega), fun _ => T.s13 (by omega), T.c14, T.s14⟩
/-- a tower from `L0` is a tower from every higher level -/
theorem Tower2.weaken {ts x} {L0 L1 : Nat} (T : Tower2 d L0 ts x) (h : L0 ≤ L1) : Tower2 d L1 ts x :=
  ⟨fun g => T.s2 (by omega), fun g => T.s8 (by omega), fun g => T.c9 (by omega), fun g => T.s9 (by omega),
   fun g => T.c10 (by omega), fun g => T.s10 (by omega), fun g => T.s11 (by omega), fun g => T.c12 (by omega), fun g => T.s12 (by omega),
   fun g => T.c13 (by omega), fun g => T.s13 (by omega), T.c14, T.s14⟩


end TP2
