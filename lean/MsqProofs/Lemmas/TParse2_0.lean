import MsqProofs.Props.C02T
/-!
# T-parse on the larger expression fragment, base definitions (C02 / C01)

Built NEXT to `TP` (Lemmas/TParse0.lean … Props/C02T.lean), whose definitions and statements are unchanged.

* `toksE2 d ch e` — the token-level printer extended to qualified columns `t.c`, the wildcards `*` / `t.*`, normal function calls
  `[s.]f(a₁, …, aₙ)`, aggregate calls `AGG([DISTINCT] a₁, …)`, both forms of `CASE`, and `[NOT] IN (v₁, …, vₙ)` (the value list itself never gets a redundant bracket: `a IN ((1, 2))` is something else); on the old
  constructors it is `TP.toksE` clause for clause (`toksE2_eq`).  Brackets by `PR.wrap`'s rule (`TP.wrapT`) with the bounds of
  `PR.prE`: call arguments, CASE operands: never wrapped by the rule (bound 14); IN values: bound 8 (`prList8`).
* `Frag2 d e` — the fragment (a `Bool`), `Frag2 ⊇ Frag` (`frag_sub`).
* `stopLE2 d L rest` = `TP.stopLE d L rest` and the head is not `OVER` (a call followed by `OVER` is a window expression).
-/
set_option linter.unusedVariables false
set_option linter.unusedSimpArgs false
open Lex PM Ast TP
namespace TP2

/-! ### tokens -/
def dotTok : Tok := opTok "."
def starTok : Tok := opTok "*"
def commaTok : Tok := opTok ","
/-- a name as `quoteName` prints it: bare if it is a plain name and no word of `Gen.wordMarks`, back-quoted otherwise -/
def qTok (n : String) : Tok := if PR.quoteName n == n then opTok n else nameTok n

mutual
def toksE2 (d : Gen.D) (ch : Expr → Bool) : Expr → List Tok
  | .column none c => [nameTok c]
  | .column (some t) c => [nameTok t, dotTok, nameTok c]
  | .literal v => [litTok v]
  | .wildcard none => [starTok]
  | .wildcard (some t) => [qTok t, dotTok, starTok]
  | .func s n ps => (match s with | some s => [nameTok s, dotTok] | none => []) ++ [qTok n, grp (toksArgs d ch 14 ps)]
  | .agg n ps dist => [opTok n, grp ((if dist then [opTok "DISTINCT"] else []) ++ toksArgs d ch 14 ps)]
  | .caseCond cs els => opTok "CASE" :: (toksArms d ch cs ++ (toksElse d ch els ++ [opTok "END"]))
  | .caseVal v cs els =>
      opTok "CASE" :: (wrapT (ch v) v 14 (toksE2 d ch v) ++ (toksArms d ch cs ++ (toksElse d ch els ++ [opTok "END"])))
  | .subValue vs => [grp (toksArgs d ch 8 vs)]
  | .unary o e => opTok (cval o) :: wrapT (ch e) e 2 (toksE2 d ch e)
  | .compute l o r =>
      wrapT (ch l) l (PR.lvl (.compute l o r)) (toksE2 d ch l) ++ opTok (cval o) :: wrapT (ch r) r (PR.lvl (.compute l o r) - 1) (toksE2 d ch r)
  | .kw k n l r => wrapT (ch l) l 9 (toksE2 d ch l) ++ (kwToks k n ++ wrapT (ch r && k != .in_) r 8 (toksE2 d ch r))
  | .between n b f t =>
      wrapT (ch b) b 9 (toksE2 d ch b) ++ ((if n then [opTok "NOT"] else []) ++ opTok "BETWEEN" :: (wrapT (ch f) f 8 (toksE2 d ch f) ++ opTok "AND" :: wrapT (ch t) t 8 (toksE2 d ch t)))
  | .compare o l r => wrapT (ch l) l 10 (toksE2 d ch l) ++ opTok (cmpVal o) :: wrapT (ch r) r 9 (toksE2 d ch r)
  | .not_ e => opTok "NOT" :: wrapT (ch e) e 11 (toksE2 d ch e)
  | .and_ l r => wrapT (ch l) l 12 (toksE2 d ch l) ++ opTok "AND" :: wrapT (ch r) r 11 (toksE2 d ch r)
  | .xor l r => wrapT (ch l) l 13 (toksE2 d ch l) ++ opTok "XOR" :: wrapT (ch r) r 12 (toksE2 d ch r)
  | .or_ l r => wrapT (ch l) l 14 (toksE2 d ch l) ++ opTok "OR" :: wrapT (ch r) r 13 (toksE2 d ch r)
  | _ => []
/-- a comma-separated list, every element at bound `k` -/
def toksArgs (d : Gen.D) (ch : Expr → Bool) (k : Nat) : List Expr → List Tok
  | [] => []
  | a :: as => wrapT (ch a) a k (toksE2 d ch a) ++ toksArgsTail d ch k as
def toksArgsTail (d : Gen.D) (ch : Expr → Bool) (k : Nat) : List Expr → List Tok
  | [] => []
  | a :: as => commaTok :: (wrapT (ch a) a k (toksE2 d ch a) ++ toksArgsTail d ch k as)
def toksArms (d : Gen.D) (ch : Expr → Bool) : List (Expr × Expr) → List Tok
  | [] => []
  | (w, t) :: r =>
      opTok "WHEN" :: (wrapT (ch w) w 14 (toksE2 d ch w) ++ opTok "THEN" :: (wrapT (ch t) t 14 (toksE2 d ch t) ++ toksArms d ch r))
def toksElse (d : Gen.D) (ch : Expr → Bool) : Option Expr → List Tok
  | none => []
  | some y => opTok "ELSE" :: wrapT (ch y) y 14 (toksE2 d ch y)
end
def W2 (d : Gen.D) (ch : Expr → Bool) (e : Expr) (k : Nat) : List Tok := wrapT (ch e) e k (toksE2 d ch e)

/-! ### continuations -/
def stopLE2 (d : Gen.D) (L : Nat) (rest : List Tok) : Bool := stopLE d L rest && !headIsOver rest
/-- `rest` does not continue an expression of the larger fragment -/
def stops2 (d : Gen.D) (rest : List Tok) : Bool := stopLE2 d 14 rest
theorem sl {d : Gen.D} {L : Nat} {rest : List Tok} (h : stopLE2 d L rest = true) : stopLE d L rest = true := by
  simp only [stopLE2, Bool.and_eq_true] at h; exact h.1
theorem so {d : Gen.D} {L : Nat} {rest : List Tok} (h : stopLE2 d L rest = true) : headIsOver rest = false := by
  simp only [stopLE2, Bool.and_eq_true, Bool.not_eq_true'] at h; exact h.2
theorem stopLE2_mono {d : Gen.D} {L L' : Nat} {rest : List Tok} (h : stopLE2 d L rest = true) (hl : L' ≤ L) : stopLE2 d L' rest = true := by
  simp only [stopLE2, Bool.and_eq_true] at h ⊢; exact ⟨stopLE_mono h.1 hl, h.2⟩
theorem stopLE2_nil (d : Gen.D) (L : Nat) : stopLE2 d L [] = true := rfl

/-! ### what may start a rendering: additionally not `WHEN` (after `CASE x`) and not `DISTINCT` (first argument of an aggregate) -/
def hdTok (t : Tok) : Bool := startTok t && !["WHEN", "DISTINCT"].contains (up t.src)

/-! ### an upper bound for the number of TOP-LEVEL tokens of a rendering (whatever brackets are added) -/
mutual
def tl : Expr → Nat
  | .column (some _) _ => 3
  | .wildcard (some _) => 3
  | .func _ _ _ => 4
  | .agg _ _ _ => 2
  | .caseCond cs els => 2 + tlA cs + tlO els
  | .caseVal v cs els => 2 + tl v + tlA cs + tlO els
  | .unary _ e => 1 + tl e
  | .compute l _ r => tl l + 1 + tl r
  | .kw _ _ l r => tl l + 2 + tl r
  | .between _ b f t => tl b + 3 + tl f + tl t
  | .compare _ l r => tl l + 1 + tl r
  | .not_ e => 1 + tl e
  | .and_ l r => tl l + 1 + tl r
  | .xor l r => tl l + 1 + tl r
  | .or_ l r => tl l + 1 + tl r
  | _ => 1
def tlA : List (Expr × Expr) → Nat
  | [] => 0
  | (w, t) :: r => 2 + tl w + tl t + tlA r
def tlO : Option Expr → Nat
  | none => 0
  | some y => 1 + tl y
end
theorem tl_pos (e : Expr) : 1 ≤ tl e := by
  cases e with
  | column t c => cases t <;> simp [tl]
  | wildcard t => cases t <;> simp [tl]
  | _ => first | (simp only [tl]; omega) | simp [tl]
/-- every value of an `IN` list has at most 20 top-level tokens (what is inside brackets and calls does not count): the comma
splitter spends one unit of fuel per token BEFORE the value is parsed, which the uniform bound `20 * tokens` only covers for short
values -/
def shortL (vs : List Expr) : Bool := vs.all (fun v => decide (tl v ≤ 20))

/-! ### the fragment -/
/-- a name token (bare or back-quoted) that reads back as the name, is no word of the grammar, and is an identifier for the parser -/
def nmOK (d : Gen.D) (t : Tok) (n : String) : Bool :=
  elemTok d t && hdTok t && t.has NAME && !t.has LITERAL && !t.has PAREN && !t.srcEqUp "CASE" && !t.srcEq "*" && unifyName t.src == n &&
    !t.equalsStr "," && !t.equalsStr "."
def isOkNoneS (r : Except Err (Option String × String)) (n : String) : Bool :=
  match r with | .ok (none, m) => m == n | _ => false
/-- the second part of a qualified name -/
def nm2OK (t : Tok) (n : String) : Bool := t.has NAME && unifyName t.src == n && !t.equalsStr ","
def qcolOK (d : Gen.D) (t c : String) : Bool := nmOK d (nameTok t) t && nm2OK (nameTok c) c
def wildOK (d : Gen.D) (t : String) : Bool := nmOK d (qTok t) t
/-- a normal function name: not one of the special forms (the model's own tests in `pFunc` / `callPrep`), no aggregate -/
def fnNameOK (n : String) : Bool :=
  !(["CAST", "EXTRACT", "IF"].contains (up n)) && up n != "SUBSTRING" && !Gen.aggNames.contains (up n)
def fnOK (d : Gen.D) (s : Option String) (n : String) : Bool :=
  fnNameOK n && (match s with
    | none => nmOK d (qTok n) n && isOkNoneS (splitName (qTok n).src) n
    | some s => nmOK d (nameTok s) s && nm2OK (qTok n) n)
def aggOK (d : Gen.D) (n : String) : Bool :=
  Gen.aggNames.contains (up n) && nmOK d (opTok n) n && isOkNoneS (splitName (opTok n).src) n

mutual
def Frag2 (d : Gen.D) : Expr → Bool
  | .column none c => colOK d c
  | .column (some t) c => qcolOK d t c
  | .literal v => litOK d v
  | .wildcard none => true
  | .wildcard (some t) => wildOK d t
  | .func s n ps => fnOK d s n && Frag2L d ps
  | .agg n ps _ => aggOK d n && Frag2L d ps
  | .caseCond cs els => Frag2A d cs && Frag2O d els && !cs.isEmpty
  | .caseVal v cs els => Frag2 d v && Frag2A d cs && Frag2O d els && !cs.isEmpty
  | .unary o e => unOK d o && Frag2 d e
  | .compute l o r => binOK d o && Frag2 d l && Frag2 d r
  | .kw k _ l r => Frag2 d l && (if k == .in_ then inRhs d r else Frag2 d r)
  | .between _ b f t => Frag2 d b && Frag2 d f && Frag2 d t
  | .compare o l r => cmpOK d o && Frag2 d l && Frag2 d r
  | .not_ e => Frag2 d e
  | .and_ l r => Frag2 d l && Frag2 d r
  | .xor l r => Frag2 d l && Frag2 d r
  | .or_ l r => Frag2 d l && Frag2 d r
  | _ => false
def Frag2L (d : Gen.D) : List Expr → Bool
  | [] => true
  | a :: as => Frag2 d a && Frag2L d as
def Frag2A (d : Gen.D) : List (Expr × Expr) → Bool
  | [] => true
  | (w, t) :: r => Frag2 d w && Frag2 d t && Frag2A d r
def Frag2O (d : Gen.D) : Option Expr → Bool
  | none => true
  | some y => Frag2 d y
/-- the right side of `IN`: a non-empty value list -/
def inRhs (d : Gen.D) : Expr → Bool
  | .subValue vs => Frag2L d vs && !vs.isEmpty && shortL vs
  | _ => false
end

mutual
/-- number of nodes (measure of the induction) -/
def sz2 : Expr → Nat
  | .func _ _ ps => sz2L ps + 1
  | .agg _ ps _ => sz2L ps + 1
  | .caseCond cs els => sz2A cs + sz2O els + 1
  | .caseVal v cs els => sz2 v + sz2A cs + sz2O els + 1
  | .subValue vs => sz2L vs + 1
  | .unary _ e => sz2 e + 1
  | .compute l _ r => sz2 l + sz2 r + 1
  | .kw _ _ l r => sz2 l + sz2 r + 1
  | .between _ b f t => sz2 b + sz2 f + sz2 t + 1
  | .compare _ l r => sz2 l + sz2 r + 1
  | .not_ e => sz2 e + 1
  | .and_ l r => sz2 l + sz2 r + 1
  | .xor l r => sz2 l + sz2 r + 1
  | .or_ l r => sz2 l + sz2 r + 1
  | _ => 1
def sz2L : List Expr → Nat
  | [] => 0
  | a :: as => sz2 a + sz2L as
def sz2A : List (Expr × Expr) → Nat
  | [] => 0
  | (w, t) :: r => sz2 w + sz2 t + sz2A r
def sz2O : Option Expr → Nat
  | none => 0
  | some y => sz2 y
end

theorem sz2_pos (e : Expr) : 1 ≤ sz2 e := by cases e <;> simp [sz2] <;> omega

/-! ### `Frag2 ⊇ Frag`, and on `Frag` the printers agree -/
theorem frag_sub (d : Gen.D) : ∀ n e, TP.sz e ≤ n → Frag d e = true → Frag2 d e = true := by
  intro n
  induction n with
  | zero => intro e he; cases e <;> simp [TP.sz] at he
  | succ n ih =>
    intro e he hf
    cases e <;> (try simp only [TP.sz] at he) <;> (try simp only [Frag, Bool.and_eq_true, bne_iff_ne, ne_eq] at hf) <;> try (simp at hf; done)
    case column t c => cases t <;> simp_all [Frag, Frag2]
    case literal v => simpa [Frag2] using hf
    case unary o x => simp only [Frag2, Bool.and_eq_true]; exact ⟨hf.1, ih x (by omega) hf.2⟩
    case compute l o r => simp only [Frag2, Bool.and_eq_true]; exact ⟨⟨hf.1.1, ih l (by omega) hf.1.2⟩, ih r (by omega) hf.2⟩
    case kw k n0 l r =>
      have hk : (k == KwKind.in_) = false := by simpa using hf.1.1
      simp only [Frag2, Bool.and_eq_true, hk, Bool.false_eq_true, if_false]
      exact ⟨ih l (by omega) hf.1.2, ih r (by omega) hf.2⟩
    case between n0 b f t => simp only [Frag2, Bool.and_eq_true]; exact ⟨⟨ih b (by omega) hf.1.1, ih f (by omega) hf.1.2⟩, ih t (by omega) hf.2⟩
    case compare o l r => simp only [Frag2, Bool.and_eq_true]; exact ⟨⟨hf.1.1, ih l (by omega) hf.1.2⟩, ih r (by omega) hf.2⟩
    case not_ x => simp only [Frag2]; exact ih x (by omega) hf
    case and_ l r => simp only [Frag2, Bool.and_eq_true]; exact ⟨ih l (by omega) hf.1, ih r (by omega) hf.2⟩
    case xor l r => simp only [Frag2, Bool.and_eq_true]; exact ⟨ih l (by omega) hf.1, ih r (by omega) hf.2⟩
    case or_ l r => simp only [Frag2, Bool.and_eq_true]; exact ⟨ih l (by omega) hf.1, ih r (by omega) hf.2⟩
theorem toksE2_eq (d : Gen.D) (ch : Expr → Bool) : ∀ n e, TP.sz e ≤ n → Frag d e = true → toksE2 d ch e = toksE d ch e := by
  intro n
  induction n with
  | zero => intro e he; cases e <;> simp [TP.sz] at he
  | succ n ih =>
    intro e he hf
    cases e <;> (try simp only [TP.sz] at he) <;> (try simp only [Frag, Bool.and_eq_true, bne_iff_ne, ne_eq] at hf) <;> try (simp at hf; done)
    case column t c => cases t <;> simp_all [Frag, toksE2, toksE]
    case literal v => simp [toksE2, toksE]
    case unary o x => simp only [toksE2, toksE, ih x (by omega) hf.2]
    case compute l o r => simp only [toksE2, toksE, ih l (by omega) hf.1.2, ih r (by omega) hf.2]
    case kw k n0 l r =>
      have hk : (k != KwKind.in_) = true := by simpa using hf.1.1
      simp only [toksE2, toksE, ih l (by omega) hf.1.2, ih r (by omega) hf.2, hk, Bool.and_true]
    case between n0 b f t => simp only [toksE2, toksE, ih b (by omega) hf.1.1, ih f (by omega) hf.1.2, ih t (by omega) hf.2]
    case compare o l r => simp only [toksE2, toksE, ih l (by omega) hf.1.2, ih r (by omega) hf.2]
    case not_ x => simp only [toksE2, toksE, ih x (by omega) hf]
    case and_ l r => simp only [toksE2, toksE, ih l (by omega) hf.1, ih r (by omega) hf.2]
    case xor l r => simp only [toksE2, toksE, ih l (by omega) hf.1, ih r (by omega) hf.2]
    case or_ l r => simp only [toksE2, toksE, ih l (by omega) hf.1, ih r (by omega) hf.2]

/-! ### sizes -/
theorem sizeL_W2_le (d : Gen.D) (ch : Expr → Bool) (e : Expr) (k : Nat) : sizeL (toksE2 d ch e) ≤ sizeL (W2 d ch e k) := by
  unfold W2 wrapT; split <;> simp [sizeL, size_grp]
theorem sizeL_W2_ge (d : Gen.D) (ch : Expr → Bool) (e : Expr) (k : Nat) : sizeL (W2 d ch e k) ≤ 1 + sizeL (toksE2 d ch e) := by
  unfold W2 wrapT; split <;> simp [sizeL, size_grp]

end TP2
