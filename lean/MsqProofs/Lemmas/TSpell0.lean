import MsqProofs.Props.C03Q
/-!
# Spelling-generalised T-parse, base definitions (C09 / C13)

Built NEXT to the nested T-parse development (namespace `TQ`, Lemmas/TQuery*.lean, Props/C03Q.lean), whose definitions and statements
are unchanged.  The FRAGMENT is the same (`TQ.FragE3` / `TQ.FragS3` / `TQ.FragQ`); what is generalised is the token-level PRINTER:

* `Sp` — a record of choice functions, one per production of the grammar in which the PARSER accepts more than one spelling:
  `ch` (a redundant bracket around a sub-term, as in `C03.tquery_ch`), `ne` (`<>` for `!=`), `amp` (`&&` for `AND`), `bar` (`||` for
  `OR`), `bang` (`!` for the prefix `NOT` — Hive only, `SpOK.bang`), `word` (`DIV` for `/`, `MOD` for `%`), `bareC` / `bareT` (a column /
  table alias without `AS`), `asc` (an explicit `ASC`), `offs` (`LIMIT n OFFSET m` for `LIMIT m, n`).
  Every choice is keyed by the node it belongs to (the expression node, the select item, the FROM item, the ORDER BY item, the two LIMIT
  numbers); the compute-operator choice `word` is keyed by the OPERAND THAT FOLLOWS the operator in the flat rendering
  `operand₀ op₁ operand₁ …` of a compute tree (`opdAfter`), because that is the view (`TP.tview`) the shift/reduce argument works on.
* `toksE3 d sp e` / `toksS3 d sp s` / `toksQ d sp q` — the spelled printers: `TQ.toksE3 …` clause for clause with the chosen spellings.
  `plain` is the record of the printer's own spellings.
* the token facts the spelled productions need (`cmpTok_ok`, `opOKs_of`, `notTok_in`, `and_loop`, `or_loop`, `bare_alias`, …).
-/
set_option linter.unusedVariables false
set_option linter.unusedSimpArgs false
open Lex PM Ast SR TP TP2 TS TQ
namespace TSP

structure Sp where
  /-- a redundant bracket around this sub-term -/
  ch : Expr → Bool
  /-- `<>` instead of `!=` at this comparison node -/
  ne : Expr → Bool
  /-- `&&` instead of `AND` at this node -/
  amp : Expr → Bool
  /-- `||` instead of `OR` at this node -/
  bar : Expr → Bool
  /-- `!` instead of the prefix `NOT` at this node (Hive) -/
  bang : Expr → Bool
  /-- `DIV` instead of `/`, `MOD` instead of `%`, for the operator in front of this operand of a flat compute sequence -/
  word : Expr → Bool
  /-- no `AS` before the alias of this select item -/
  bareC : Expr × Option String → Bool
  /-- no `AS` before the alias of this FROM / JOIN item -/
  bareT : FromTable → Bool
  /-- an explicit `ASC` after this (ascending) ORDER BY item -/
  asc : OrderItem → Bool
  /-- `LIMIT n OFFSET m` instead of `LIMIT m, n` -/
  offs : Int → Int → Bool

/-- the printer's own spellings, redundant brackets by `ch` -/
def plainCh (ch : Expr → Bool) : Sp :=
  ⟨ch, fun _ => false, fun _ => false, fun _ => false, fun _ => false, fun _ => false, fun _ => false, fun _ => false, fun _ => false,
   fun _ _ => false⟩
def plain : Sp := plainCh noX

/-! ### the spelled tokens -/
def cmpTok (b : Bool) (o : String) : Tok := if b && o == "NEQ" then opTok "<>" else opTok (cmpVal o)
def cvalSp (b : Bool) (o : String) : String := if b && o == "DIVIDE" then "DIV" else if b && o == "MOD" then "MOD" else cval o
def andTok (b : Bool) : Tok := if b then opTok "&&" else opTok "AND"
def orTok (b : Bool) : Tok := if b then opTok "||" else opTok "OR"
def notTok (b : Bool) : Tok := if b then opTok "!" else opTok "NOT"
def aliasToksB (b : Bool) : Option String → List Tok
  | none => []
  | some a => if b then [opTok a] else [opTok "AS", opTok a]
def ascToks (b desc : Bool) : List Tok := if desc then [opTok "DESC"] else if b then [opTok "ASC"] else []
def toksLimitS (sp : Sp) : Option (Int × Option Int) → List Tok
  | some (n, none) => [opTok "LIMIT", intTok n]
  | some (n, some m) => if sp.offs n m then [opTok "LIMIT", intTok n, opTok "OFFSET", intTok m] else [opTok "LIMIT", intTok m, TS.commaTok, intTok n]
  | none => []
/-- the operand that follows the operator of a compute node in the flat rendering: the first operand of the right child's part -/
def opdAfter (ch : Expr → Bool) (r : Expr) (b : Nat) : Expr := ((if inTree ch r b then tview ch r else .leaf r).flat).1

mutual
def toksE3 (d : Gen.D) (sp : Sp) : Expr → List Tok
  | .column none c => [nameTok c]
  | .column (some t) c => [nameTok t, dotTok, nameTok c]
  | .literal v => [litTok v]
  | .wildcard none => [starTok]
  | .wildcard (some t) => [qTok t, dotTok, starTok]
  | .func s n ps => (match s with | some s => [nameTok s, dotTok] | none => []) ++ [qTok n, grp (toksArgs3 d sp 14 ps)]
  | .agg n ps dist => [opTok n, grp ((if dist then [opTok "DISTINCT"] else []) ++ toksArgs3 d sp 14 ps)]
  | .caseCond cs els => opTok "CASE" :: (toksArms3 d sp cs ++ (toksElse3 d sp els ++ [opTok "END"]))
  | .caseVal v cs els =>
      opTok "CASE" :: (wrapT (sp.ch v) v 14 (toksE3 d sp v) ++ (toksArms3 d sp cs ++ (toksElse3 d sp els ++ [opTok "END"])))
  | .subValue vs => [grp (toksArgs3 d sp 8 vs)]
  | .subQuery q => [grp (toksQ d sp q)]
  | .exists_ v => opTok "EXISTS" :: toksE3 d sp v
  | .unary o e => opTok (cval o) :: wrapT (sp.ch e) e 2 (toksE3 d sp e)
  | .compute l o r =>
      wrapT (sp.ch l) l (PR.lvl (.compute l o r)) (toksE3 d sp l) ++
        opTok (cvalSp (sp.word (opdAfter sp.ch r (PR.lvl (.compute l o r) - 1))) o) :: wrapT (sp.ch r) r (PR.lvl (.compute l o r) - 1) (toksE3 d sp r)
  | .kw k n l r => wrapT (sp.ch l) l 9 (toksE3 d sp l) ++ (kwToks k n ++ wrapT (sp.ch r && k != .in_) r 8 (toksE3 d sp r))
  | .between n b f t =>
      wrapT (sp.ch b) b 9 (toksE3 d sp b) ++ ((if n then [opTok "NOT"] else []) ++ opTok "BETWEEN" :: (wrapT (sp.ch f) f 8 (toksE3 d sp f) ++ opTok "AND" :: wrapT (sp.ch t) t 8 (toksE3 d sp t)))
  | .compare o l r => wrapT (sp.ch l) l 10 (toksE3 d sp l) ++ cmpTok (sp.ne (.compare o l r)) o :: wrapT (sp.ch r) r 9 (toksE3 d sp r)
  | .not_ e => notTok (sp.bang (.not_ e)) :: wrapT (sp.ch e) e 11 (toksE3 d sp e)
  | .and_ l r => wrapT (sp.ch l) l 12 (toksE3 d sp l) ++ andTok (sp.amp (.and_ l r)) :: wrapT (sp.ch r) r 11 (toksE3 d sp r)
  | .xor l r => wrapT (sp.ch l) l 13 (toksE3 d sp l) ++ opTok "XOR" :: wrapT (sp.ch r) r 12 (toksE3 d sp r)
  | .or_ l r => wrapT (sp.ch l) l 14 (toksE3 d sp l) ++ orTok (sp.bar (.or_ l r)) :: wrapT (sp.ch r) r 13 (toksE3 d sp r)
  | _ => []
def toksArgs3 (d : Gen.D) (sp : Sp) (k : Nat) : List Expr → List Tok
  | [] => []
  | a :: as => wrapT (sp.ch a) a k (toksE3 d sp a) ++ toksArgsTail3 d sp k as
def toksArgsTail3 (d : Gen.D) (sp : Sp) (k : Nat) : List Expr → List Tok
  | [] => []
  | a :: as => TP2.commaTok :: (wrapT (sp.ch a) a k (toksE3 d sp a) ++ toksArgsTail3 d sp k as)
def toksArms3 (d : Gen.D) (sp : Sp) : List (Expr × Expr) → List Tok
  | [] => []
  | (w, t) :: r =>
      opTok "WHEN" :: (wrapT (sp.ch w) w 14 (toksE3 d sp w) ++ opTok "THEN" :: (wrapT (sp.ch t) t 14 (toksE3 d sp t) ++ toksArms3 d sp r))
def toksElse3 (d : Gen.D) (sp : Sp) : Option Expr → List Tok
  | none => []
  | some y => opTok "ELSE" :: wrapT (sp.ch y) y 14 (toksE3 d sp y)
def toksQ (d : Gen.D) (sp : Sp) : Query → List Tok
  | .single s => toksS3 d sp s
  | .union _ s us => toksS3 d sp s ++ toksUn d sp us
def toksUn (d : Gen.D) (sp : Sp) : List (String × Select) → List Tok
  | [] => []
  | (t, s) :: r => unionWords t ++ (toksS3 d sp s ++ toksUn d sp r)
def toksS3 (d : Gen.D) (sp : Sp) : Select → List Tok
  | .mk _ dist cols fr _ js wh gb hv ob _ _ _ lm =>
      opTok "SELECT" :: ((if dist then [opTok "DISTINCT"] else []) ++ (toksCols3 d sp cols ++ (toksFrom3 d sp fr ++ (toksJoins3 d sp js ++
        (toksOptE3 d sp "WHERE" wh ++ (toksGroup3 d sp gb ++ (toksOptE3 d sp "HAVING" hv ++ (toksOrder3 d sp ob ++ toksLimitS sp lm))))))))
def toksCols3 (d : Gen.D) (sp : Sp) : List (Expr × Option String) → List Tok
  | [] => []
  | (e, a) :: cs => toksE3 d sp e ++ aliasToksB (sp.bareC (e, a)) a ++ toksColsTail3 d sp cs
def toksColsTail3 (d : Gen.D) (sp : Sp) : List (Expr × Option String) → List Tok
  | [] => []
  | (e, a) :: cs => TS.commaTok :: (toksE3 d sp e ++ aliasToksB (sp.bareC (e, a)) a ++ toksColsTail3 d sp cs)
def toksRef3 (d : Gen.D) (sp : Sp) : TableRef → List Tok
  | .table s n => [tblTok s n]
  | .sub q => [grp (toksQ d sp q)]
def toksTable3 (d : Gen.D) (sp : Sp) : FromTable → List Tok
  | .mk t a => toksRef3 d sp t ++ aliasToksB (sp.bareT (.mk t a)) a
def toksTablesTail3 (d : Gen.D) (sp : Sp) : List FromTable → List Tok
  | [] => []
  | t :: ts => TS.commaTok :: (toksTable3 d sp t ++ toksTablesTail3 d sp ts)
def toksFrom3 (d : Gen.D) (sp : Sp) : Option (List FromTable) → List Tok
  | some (t :: ts) => opTok "FROM" :: (toksTable3 d sp t ++ toksTablesTail3 d sp ts)
  | _ => []
def toksRule3 (d : Gen.D) (sp : Sp) : Option JoinRule → List Tok
  | some (.on e) => opTok "ON" :: toksE3 d sp e
  | _ => []
def toksJoin3 (d : Gen.D) (sp : Sp) : Join → List Tok
  | .mk ty t rule => joinWords ty ++ (toksTable3 d sp t ++ toksRule3 d sp rule)
def toksJoins3 (d : Gen.D) (sp : Sp) : List Join → List Tok
  | [] => []
  | j :: js => toksJoin3 d sp j ++ toksJoins3 d sp js
def toksOptE3 (d : Gen.D) (sp : Sp) (kw : String) : Option Expr → List Tok
  | some e => opTok kw :: toksE3 d sp e
  | none => []
def toksGroup3 (d : Gen.D) (sp : Sp) : Option GroupBy → List Tok
  | some (.mk (e :: es) _ _ _) => opTok "GROUP" :: opTok "BY" :: (wrapT (sp.ch e) e 8 (toksE3 d sp e) ++ toksArgsTail3 d sp 8 es)
  | _ => []
def toksOrdItem3 (d : Gen.D) (sp : Sp) : OrderItem → List Tok
  | .mk e desc nf nl => wrapT (sp.ch e) e 8 (toksE3 d sp e) ++ ascToks (sp.asc (.mk e desc nf nl)) desc
def toksOrdTail3 (d : Gen.D) (sp : Sp) : List OrderItem → List Tok
  | [] => []
  | o :: os => TS.commaTok :: (toksOrdItem3 d sp o ++ toksOrdTail3 d sp os)
def toksOrder3 (d : Gen.D) (sp : Sp) : Option (List OrderItem) → List Tok
  | some (o :: os) => opTok "ORDER" :: opTok "BY" :: (toksOrdItem3 d sp o ++ toksOrdTail3 d sp os)
  | _ => []
end
def W3 (d : Gen.D) (sp : Sp) (e : Expr) (k : Nat) : List Tok := wrapT (sp.ch e) e k (toksE3 d sp e)

/-! ### comparison operators: `!=` / `<>` -/
/-- what `cont10_compare` needs of the operator token -/
structure CmpTokOK (d : Gen.D) (o : String) (t : Tok) : Prop where
  found : compareOp? t.src = some o
  stop : stopTok d 9 t = true
  notOver : t.srcEqUp "OVER" = false
  size : t.size = 1
  nocomma : t.equalsStr "," = false
theorem ne_tok_ok (d : Gen.D) : CmpTokOK d "NEQ" (opTok "<>") :=
  ⟨by decide, by cases d <;> decide, by decide, by decide, by decide⟩
theorem cmpTok_ok {d : Gen.D} {o : String} (h : cmpOK d o = true) (b : Bool) : CmpTokOK d o (cmpTok b o) := by
  unfold cmpTok
  split
  · rename_i hb
    simp only [Bool.and_eq_true, beq_iff_eq] at hb
    rw [hb.2]; exact ne_tok_ok d
  · have hc := h
    simp only [cmpOK, Bool.and_eq_true, beq_iff_eq] at hc
    exact ⟨hc.1.1, hc.1.2, TQ.cmp_notOver hc.1.1, size_opTok _, TQ.cmp_nocomma o h⟩

/-! ### compute operators: `/` / `DIV`, `%` / `MOD` -/
def OpOKs (b : Bool) (o : Op) : Prop :=
  computeOp? (up (opTok (cvalSp b o.name)).src) = some (o.name, o.level) ∧ stopsE (opTok (cvalSp b o.name)) = true
theorem opOKs_of {o : Op} (h : OpOK o) (b : Bool) : OpOKs b o := by
  obtain ⟨nm, lv⟩ := o
  unfold OpOKs cvalSp
  split
  · rename_i hb
    simp only [Bool.and_eq_true, beq_iff_eq] at hb
    obtain ⟨_, rfl⟩ := hb
    have h1 := h.1
    have e1 : computeOp? (up (opTok (cval "DIVIDE")).src) = some ("DIVIDE", 4) := by decide
    simp only [e1, Option.some.injEq, Prod.mk.injEq, true_and] at h1
    subst h1
    exact ⟨by decide, by decide⟩
  · split
    · rename_i hb
      simp only [Bool.and_eq_true, beq_iff_eq] at hb
      obtain ⟨_, rfl⟩ := hb
      have h1 := h.1
      have e1 : computeOp? (up (opTok (cval "MOD")).src) = some ("MOD", 4) := by decide
      simp only [e1, Option.some.injEq, Prod.mk.injEq, true_and] at h1
      subst h1
      exact ⟨by decide, by decide⟩
    · exact h
theorem opOKs_notOver {b : Bool} {o : Op} (h : OpOKs b o) (x : List Tok) : headIsOver (opTok (cvalSp b o.name) :: x) = false := by
  have h1 := h.1
  simp only [headIsOver, Tok.srcEqUp, beq_eq_false_iff_ne, ne_eq]
  intro he
  rw [he] at h1
  have : computeOp? "OVER" = none := by decide
  rw [this] at h1; cases h1
theorem binSp_nocomma {d : Gen.D} (o : String) (ho : binOK d o = true) (b : Bool) : (opTok (cvalSp b o)).equalsStr "," = false := by
  obtain ⟨_, _, hop⟩ := binOK_parts d ho
  have h1 := (opOKs_of hop b).1
  rw [TQ.opTok_equals, beq_eq_false_iff_ne]
  intro he
  have hc : up "," = "," := by decide
  simp only [src_opTok] at h1
  rw [he, hc] at h1
  have hn : computeOp? "," = none := by decide
  rw [hn] at h1; cases h1

/-! ### `AND` / `&&`, `OR` / `||`, `NOT` / `!` -/
theorem and_loop (b : Bool) : (up (andTok b).src == "AND" || up (andTok b).src == "&&") = true := by cases b <;> decide
theorem or_loop (b : Bool) : (up (orTok b).src == "OR" || up (orTok b).src == "||") = true := by cases b <;> decide
theorem andTok_facts (d : Gen.D) (b : Bool) : stopTok d 11 (andTok b) = true ∧ (andTok b).srcEqUp "OVER" = false ∧ (andTok b).size = 1 ∧
    (andTok b).equalsStr "," = false := by cases b <;> cases d <;> decide
theorem orTok_facts (d : Gen.D) (b : Bool) : stopTok d 13 (orTok b) = true ∧ (orTok b).srcEqUp "OVER" = false ∧ (orTok b).size = 1 ∧
    (orTok b).equalsStr "," = false := by cases b <;> cases d <;> decide
theorem stop2_ANDs {d : Gen.D} (b : Bool) (x : List Tok) : stopLE2 d 11 (andTok b :: x) = true :=
  TQ.stop2_of x (andTok_facts d b).1 (andTok_facts d b).2.1
theorem stop2_ORs {d : Gen.D} (b : Bool) (x : List Tok) : stopLE2 d 13 (orTok b :: x) = true :=
  TQ.stop2_of x (orTok_facts d b).1 (orTok_facts d b).2.1
/-- `!` is a NOT word of the Hive dialect only -/
theorem notTok_in {d : Gen.D} (b : Bool) (h : b = true → d = .HIVE) : (Gen.notSet d).contains (up (notTok b).src) = true := by
  cases b with
  | false => exact notSet_NOT
  | true => rw [h rfl]; decide
theorem notTok_facts (b : Bool) : (notTok b).size = 1 ∧ hdTok (notTok b) = true ∧ (notTok b).equalsStr "," = false := by cases b <;> decide

/-! ### aliases with and without `AS` -/
/-- an alias that may be written without `AS`: it does not continue the expression before it and is none of the words the alias parser refuses -/
def bareOK (d : Gen.D) (a : String) : Bool :=
  stopLE2 d 14 [opTok a] && !(opTok a).srcEqUp "AS" && !(["CROSS", "USING", "SORT", "DISTRIBUTE", "CLUSTER"].contains (up (opTok a).src))
def optBareOK (d : Gen.D) (b : Bool) : Option String → Bool
  | some a => !b || bareOK d a
  | none => true
theorem bare_alias {d : Gen.D} (a : String) (h : aliasOK a = true) (hb : bareOK d a = true) (fol : List Tok) :
    pAlias (opTok a :: fol) = .ok (some a, fol) ∧ TP2.stops2 d (opTok a :: fol) = true := by
  simp only [aliasOK, Bool.and_eq_true, beq_iff_eq] at h
  simp only [bareOK, Bool.and_eq_true, Bool.not_eq_true'] at hb
  obtain ⟨⟨h1, h2⟩, h3⟩ := hb
  refine ⟨?_, ?_⟩
  · have hs : searchStrUp (opTok a :: fol) "AS" = false := by simpa [searchStrUp] using h2
    unfold pAlias
    simp only [hs, Bool.false_eq_true, if_false, h.1.1, h3, Bool.not_false, Bool.and_self, if_true, h.1.2]
  · simp only [TP2.stops2, TP2.stopLE2, TP.stopLE, headIsOver, Bool.and_eq_true, Bool.not_eq_true'] at h1 ⊢
    exact h1
theorem alias_anyB {d : Gen.D} (b : Bool) (a : Option String) (h : optAliasOK a = true) (hb : optBareOK d b a = true) (fol : List Tok)
    (hf : TQ.Fol d fol) :
    pAlias (aliasToksB b a ++ fol) = .ok (a, fol) ∧ TP2.stops2 d (aliasToksB b a ++ fol) = true ∧ searchStr (aliasToksB b a ++ fol) "." = false := by
  cases a with
  | none => exact ⟨hf.alias, hf.stops, TS.stops_notDot (TQ.stops2_stops hf.stops)⟩
  | some a =>
    cases b with
    | false => exact ⟨TS.alias_some a h fol, TQ.as_stops2 (d := d) _, TS.stops_notDot (TQ.stops2_stops (TQ.as_stops2 (d := d) _))⟩
    | true =>
      simp only [optBareOK, Bool.not_true, Bool.false_or] at hb
      obtain ⟨p1, p2⟩ := bare_alias a h hb fol
      exact ⟨p1, p2, TS.stops_notDot (TQ.stops2_stops p2)⟩

/-! ### `ASC` -/
theorem asc_stop8 {d : Gen.D} (x : List Tok) : TP2.stopLE2 d 8 (opTok "ASC" :: x) = true := by
  have h : stopTok d 8 (opTok "ASC") = true := by cases d <;> decide
  exact TP2.stop2_of x h (by decide)
theorem ascToks_stop8 {d : Gen.D} (b desc : Bool) (fol : List Tok) (hf : TQ.OFol d fol) : TP2.stopLE2 d 8 (ascToks b desc ++ fol) = true := by
  cases desc with
  | true => exact TQ.desc_stop8 _
  | false => cases b with
    | true => exact asc_stop8 _
    | false => exact hf.stop8
theorem orderTail_asc {d : Gen.D} (e : Expr) (b desc : Bool) (fol : List Tok) (hf : TS.OFol d fol) :
    orderTail e (ascToks b desc ++ fol) = .ok (.mk e desc false false, fol) := by
  cases desc with
  | true => exact TS.orderTail_ok e true fol hf
  | false =>
    cases b with
    | false => exact TS.orderTail_ok e false fol hf
    | true =>
      have h1 : searchStrUp (opTok "ASC" :: fol) "DESC" = false := by
        have : (opTok "ASC").srcEqUp "DESC" = false := by decide
        simpa [searchStrUp] using this
      have h2 : searchStrUp (opTok "ASC" :: fol) "ASC" = true := by
        have : (opTok "ASC").srcEqUp "ASC" = true := by decide
        simpa [searchStrUp] using this
      unfold orderTail
      simp [ascToks, h1, h2, moveTwoUp, hf.nf, hf.nl]

/-! ### `LIMIT m, n` / `LIMIT n OFFSET m` -/
theorem limitS {d : Gen.D} (sp : Sp) (lm : Option (Int × Option Int)) (hl : limitOK lm = true) (fol : List Tok) (hb : Bd d 7 fol = true) :
    pLimit (toksLimitS sp lm ++ fol) = .ok (lm, fol) := by
  cases lm with
  | none => exact TS.limit none hl fol hb
  | some p =>
    obtain ⟨n, o⟩ := p
    cases o with
    | none => exact TS.limit (some (n, none)) hl fol hb
    | some m =>
      cases ho : sp.offs n m with
      | false => simpa [toksLimitS, ho, toksLimit] using TS.limit (some (n, some m)) hl fol hb
      | true =>
        simp only [limitOK, limOK, Bool.and_eq_true] at hl
        have hk : (opTok "LIMIT").srcEqUp "LIMIT" = true := by decide
        have h1 : (opTok "OFFSET").srcEq "," = false := by decide
        have h2 : (opTok "OFFSET").srcEqUp "OFFSET" = true := by decide
        simpa [toksLimitS, ho] using C03.limit_offset _ _ _ _ fol m n hk (TS.isOkInt_eq hl.1.2) h1 h2 (TS.isOkInt_eq hl.2.2)
theorem limitS_head (sp : Sp) (lm : Option (Int × Option Int)) : toksLimitS sp lm = [] ∨ ∃ x, toksLimitS sp lm = opTok "LIMIT" :: x := by
  cases lm with
  | none => exact Or.inl rfl
  | some p =>
    obtain ⟨n, o⟩ := p
    cases o with
    | none => exact Or.inr ⟨_, rfl⟩
    | some m => right; simp only [toksLimitS]; split <;> exact ⟨_, rfl⟩

end TSP
