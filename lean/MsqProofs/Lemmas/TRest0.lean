import MsqProofs.Props.C03D
import MsqProofs.Props.C18T
import MsqProofs.Props.C03Q2
import MsqProofs.Lemmas.TDmlQI
/-!
# T-parse for the remaining statement classes and the union of all fragments: base definitions (C03 / C01)

Built NEXT to the query developments (`TQ`, `TQ2`), the data-change developments (`TDM` over `FragQ`; `TDM2` over `FragQ2`, generated from it:
Lemmas/TDmlQ0-4.lean, with `TDM.FragStmt ⊆ TDM2.FragStmt`: Lemmas/TDmlQI.lean) and the CREATE TABLE development (`TD`), whose definitions
and statements are unchanged.  Namespace `TR`.

* token-level printers mirroring `PR.prStmt`: `toksDrop`, `toksTruncate`, `toksMsck`, `toksUse`, `toksSet`, `toksAnalyze`, `toksAlter`
  (`toksAlterOp`, `toksColOrIdx`), `toksShowColumns`, `toksCreateAs`, the two constant statements `SHOW DATABASES` / `SHOW TABLES`;
* `FragRest d s` — the fragment of the new classes (a `Bool`);
* `FragAny d s` / `toksAny d s` — the union with `TQ2.FragQ2` (queries), `TDM2.FragStmt` (data-change statements, WITH) and
  `TD.FragCreate` (CREATE TABLE);
* `stopsAny d rest` — what may follow a statement of the union: nothing, or a `;` (a leaf with source `;` that continues nothing);
  `restAfter s rest` — what `pStatement` leaves: CREATE TABLE swallows one `;` itself (`parser.py:2017`), every other statement leaves it.
-/
set_option linter.unusedVariables false
set_option linter.unusedSimpArgs false
open Lex PM Ast TP TS
namespace TR

/-! ### tokens -/
/-- the ONE back-quoted token of a (schema-qualified) table name, as in the data-change development -/
def tbl (t : TableName) : Tok := TQ.tblTok t.schema t.name

/-- a configuration string (`_parse_config_string`: words joined by `.` and `-`) is split at its `.` and `-` characters -/
-- pieces: maximal runs without `.` / `-`, with the separator in front of each piece but the first
def cfgPieces : List Char → List Char → List (Char × List Char)
  | [], cur => [(' ', cur)]
  | c :: r, cur => if c == '.' || c == '-' then (' ', cur) :: (match cfgPieces r [] with
      | (_, p) :: more => (c, p) :: more
      | [] => [])
    else cfgPieces r (cur ++ [c])
/-- a piece the lexer reads as one word: letters, digits, `_`, not starting with a digit -/
def cfgWord (p : List Char) : Bool :=
  (match p with | c :: _ => !c.isDigit | [] => false) && p.all (fun c => c.isAlphanum || c == '_')
/-- (first piece, [(separator is `.`, piece)]); a string whose pieces are not all words (a quoted string, a number) is ONE token -/
def cfgSplit (s : String) : String × List (Bool × String) :=
  match cfgPieces s.toList [] with
  | (_, p) :: more =>
    if cfgWord p && more.all (fun x => cfgWord x.2) then (String.ofList p, more.map fun x => (x.1 == '.', String.ofList x.2)) else (s, [])
  | [] => (s, [])
/-- `digits.digits` -/
def isDecimal (s : String) : Bool :=
  match s.toList.span Char.isDigit with
  | (a, '.' :: b) => !a.isEmpty && !b.isEmpty && b.all Char.isDigit
  | _ => false
/-- one piece as a leaf, with the marks the lexer gives it (a decimal number: LITERAL | LITERAL_FLOAT; otherwise as `TD.srcTok`) -/
def cfgTok (s : String) : Tok := .single s.toList (if isDecimal s then LITERAL ||| Gen.mark_LITERAL_FLOAT else TD.srcMark s)
/-- what `configStringLoop` rebuilds from the pieces -/
def cfgJoin (w : String) : List (Bool × String) → String
  | [] => w
  | (dot, p) :: r => cfgJoin (w ++ (if dot then "." else "-") ++ p) r
def cfgTail : List (Bool × String) → List Tok
  | [] => []
  | (dot, p) :: r => opTok (if dot then "." else "-") :: cfgTok p :: cfgTail r
/-- the tokens of a configuration string -/
def toksCfg (s : String) : List Tok := cfgTok (cfgSplit s).1 :: cfgTail (cfgSplit s).2
/-- the string is what the parser rebuilds from its pieces -/
def cfgOK (s : String) : Bool := cfgJoin (cfgSplit s).1 (cfgSplit s).2 == s

def toksDrop (b : Bool) (t : TableName) : List Tok :=
  opTok "DROP" :: opTok "TABLE" :: (TD.flag b [opTok "IF", opTok "EXISTS"] ++ [tbl t])
def toksTruncate (t : TableName) : List Tok := [opTok "TRUNCATE", opTok "TABLE", tbl t]
def toksMsck (t : TableName) : List Tok := [opTok "MSCK", opTok "REPAIR", opTok "TABLE", tbl t]
def toksUse (s : String) : List Tok := [opTok "USE", TD.srcTok s]
/-- `SET k=v` -/
def toksSet (c : ConfigStr) : List Tok := opTok "SET" :: (toksCfg c.name ++ TD.eqTok :: toksCfg c.value)
/-- `ANALYZE TABLE t [PARTITION (…)] COMPUTE STATISTICS [FOR COLUMNS] [CACHE METADATA] [NOSCAN]` for HIVE; `ANALYZE TABLE t` otherwise
(the printer serves MYSQL that way and refuses the other dialects) -/
def toksAnalyze (d : Gen.D) (t : TableName) (p : Option (List Expr)) (fc cm ns : Bool) : List Tok :=
  opTok "ANALYZE" :: opTok "TABLE" :: tbl t ::
    (if d == .HIVE then
      TDM2.toksPart d noX p ++ (opTok "COMPUTE" :: opTok "STATISTICS" :: (TD.flag fc [opTok "FOR", opTok "COLUMNS"] ++
        (TD.flag cm [opTok "CACHE", opTok "METADATA"] ++ TD.flag ns [opTok "NOSCAN"])))
     else [])

/-- a column definition, a key or a foreign key (`PR.prColOrIdx`) -/
def toksColOrIdx (d : Gen.D) : ColOrIdx → List Tok
  | .col c => TD.toksDefCol d c
  | .idx i => TD.toksIndex i
  | .fk k => TD.toksFk k
/-- the bracket group of a partition list -/
def partGrp (d : Gen.D) (p : List Expr) : Tok := grp (TDM2.joinC (p.map (TQ2.toksE4 d noX)))
/-- one clause of ALTER TABLE (`PR.prAlterOp`) -/
def toksAlterOp (d : Gen.D) : AlterOp → List Tok
  | .addPartition b p => opTok "ADD" :: (TD.flag b [opTok "IF", opTok "NOT", opTok "EXISTS"] ++ [opTok "PARTITION", partGrp d p])
  | .add x => opTok "ADD" :: toksColOrIdx d x
  | .modify x => opTok "MODIFY" :: toksColOrIdx d x
  | .change f t => opTok "CHANGE" :: nameTok f :: toksColOrIdx d t
  | .renameColumn f t => [opTok "RENAME", opTok "COLUMN", nameTok f, opTok "TO", nameTok t]
  | .dropColumn c => [opTok "DROP", opTok "COLUMN", nameTok c]
  | .dropPartition b p => opTok "DROP" :: (TD.flag b [opTok "IF", opTok "EXISTS"] ++ [opTok "PARTITION", partGrp d p])
def toksAlterTail (d : Gen.D) : List AlterOp → List Tok
  | [] => []
  | o :: r => commaTok :: (toksAlterOp d o ++ toksAlterTail d r)
def toksAlterOps (d : Gen.D) : List AlterOp → List Tok
  | [] => []
  | o :: r => toksAlterOp d o ++ toksAlterTail d r
def toksAlter (d : Gen.D) (t : TableName) (ops : List AlterOp) : List Tok :=
  opTok "ALTER" :: opTok "TABLE" :: tbl t :: toksAlterOps d ops
/-- `SHOW COLUMNS FROM t, … [WHERE e]` -/
def toksShowColumns (d : Gen.D) (fr : List FromTable) (wh : Option Expr) : List Tok :=
  opTok "SHOW" :: opTok "COLUMNS" :: (TQ2.toksFrom4 d noX (some fr) ++ TQ2.toksOptE4 d noX "WHERE" wh)
/-- a query as a statement: `[WITH name AS (q), …]` in front of a query of the larger fragment `FragQ2` (`TDM2.FragStmt`, which contains the
queries of `FragQ2` with the empty clause; the second alternative only keeps `FragQ2` visible in the definition) -/
def toksSel (d : Gen.D) (q : Query) : List Tok := if TDM2.FragStmt d (.select q) then TDM2.toksStmt d (.select q) else TQ2.toksQ2 d noX q
def selOK (d : Gen.D) (q : Query) : Bool := TDM2.FragStmt d (.select q) || TQ2.FragQ2 d q
/-- `CREATE TABLE t AS [WITH …] <query>` -/
def toksCreateAs (d : Gen.D) (t : TableName) (ine : Bool) (q : Query) : List Tok :=
  opTok "CREATE" :: opTok "TABLE" :: ((if ine then [opTok "IF", opTok "NOT", opTok "EXISTS"] else []) ++ (tbl t :: opTok "AS" :: toksSel d q))

/-- **the token-level printer of the new statement classes** -/
def toksRest (d : Gen.D) : Stmt → List Tok
  | .dropTable b t => toksDrop b t
  | .truncate t => toksTruncate t
  | .msck t => toksMsck t
  | .use s => toksUse s
  | .set c => toksSet c
  | .analyze t p fc cm ns => toksAnalyze d t p fc cm ns
  | .alter t ops => toksAlter d t ops
  | .showDatabases => [opTok "SHOW", opTok "DATABASES"]
  | .showTables => [opTok "SHOW", opTok "TABLES"]
  | .showColumns fr wh => toksShowColumns d fr wh
  | .createTableAs t ine q => toksCreateAs d t ine q
  | _ => []

/-! ### the fragment -/
def colOrIdxOK (d : Gen.D) : ColOrIdx → Bool
  | .col c => TD.colOK d c
  | .idx i => TD.idxOK i.kind i
  | .fk k => TD.fkOK k
def alterOpOK (d : Gen.D) : AlterOp → Bool
  | .addPartition _ p => TDM2.partOK d (some p)
  | .add x => colOrIdxOK d x
  | .modify x => colOrIdxOK d x
  | .change f t => TD.nameOK f && colOrIdxOK d t
  | .renameColumn f t => TD.nameOK f && TD.nameOK t
  | .dropColumn c => TD.nameOK c
  | .dropPartition _ p => TDM2.partOK d (some p)
/-- **the fragment of the new statement classes** -/
def FragRest (d : Gen.D) : Stmt → Bool
  | .dropTable _ t => TDM2.tblOKD t
  | .truncate t => TDM2.tblOKD t
  | .msck t => TDM2.tblOKD t
  | .use _ => true
  | .set c => cfgOK c.name && cfgOK c.value
  | .analyze t p fc cm ns => TDM2.tblOKD t && (if d == .HIVE then TDM2.partOK d p else p.isNone && !fc && !cm && !ns)
  | .alter t ops => TDM2.tblOKD t && !ops.isEmpty && ops.all (alterOpOK d)
  | .showDatabases => true
  | .showTables => true
  | .showColumns fr wh => TQ2.fromOK4 d (some fr) && TQ2.FragO4 d wh
  | .createTableAs t _ q => TDM2.tblOKD t && selOK d q
  | _ => false

/-! ### the union -/
/-- **the union of all statement fragments**: a query of `FragQ2`, a statement of `TDM2.FragStmt` (DELETE, UPDATE, INSERT, WITH … over
`FragQ2` / `FragE4`; it contains `TDM.FragStmt`, the same over `FragQ`: `TDM2.fragStmt_sub`), a CREATE TABLE of `TD.FragCreate`, or a
statement of the new classes -/
def FragAny (d : Gen.D) (s : Stmt) : Bool :=
  (match s with
   | .select q => TQ2.FragQ2 d q
   | .createTable c => TD.FragCreate d c
   | _ => false) || TDM2.FragStmt d s || FragRest d s
/-- **the token-level printer of the union** (on `TDM.FragStmt` it is `TDM.toksStmt`: `TDM2.fragStmt_sub`) -/
def toksAny (d : Gen.D) : Stmt → List Tok
  | .select q => toksSel d q
  | .createTable c => TD.toksCreate d c
  | .insertValues h vs => TDM2.toksStmt d (.insertValues h vs)
  | .insertSelect h q => TDM2.toksStmt d (.insertSelect h q)
  | .update ws t sets wh ob lm => TDM2.toksStmt d (.update ws t sets wh ob lm)
  | .delete t wh ob lm => TDM2.toksStmt d (.delete t wh ob lm)
  | s => toksRest d s

/-- what may follow a statement: nothing, or a `;` that continues nothing -/
def stopsAny (d : Gen.D) (rest : List Tok) : Bool := TDM.stopsStmt d rest && TD.endsC rest
/-- what `pStatement` leaves of `rest`: CREATE TABLE swallows one `;` itself -/
def restAfter (s : Stmt) (rest : List Tok) : List Tok :=
  match s with
  | .createTable _ => (moveStr rest ";").2
  | _ => rest

end TR
