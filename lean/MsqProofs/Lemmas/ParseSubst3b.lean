import Lean
import MsqProofs.Lemmas.ParseSubst3
/-!
# C06, parser half — part 3b (derived from `ParseCase3b.lean`): the second `split_run`, `match(*tokens)`, table look-ups by a token
-/
set_option linter.unusedSimpArgs false
set_option linter.unusedVariables false
set_option maxHeartbeats 1000000
open Lex PM Ast
namespace PMQ

set_option hygiene false in
/-- split the hypothesis `h'` about the SECOND run completely (as C08's `split_run` does for `h`) -/
macro "split_runq" : tactic =>
  `(tactic| repeat' (first | split at h' | (with_reducible have h'' := PM.ite_split h'); clear h'; rcases h'' with ⟨hc', h'⟩ | ⟨hc', h'⟩))

open Lean Elab Tactic Meta in
/-- lockstep: after the first run has been split, the SHAPE of its cursor is known; a hypothesis `QEL (t :: ts) ys` / `QEL [] ys` with `ys`
a variable forces the shape of the second cursor.  Doing this before the second run is split removes the impossible pairs of paths
early (and the negative hypotheses `∀ b c r, ys = b :: c :: r → False` that overlapping patterns would leave behind). -/
elab "qel_sync" : tactic => do
  for _ in [0:64] do
    let g ← getMainGoal
    let found ← g.withContext do
      let mut res : Option (FVarId × Nat) := none
      for ld in ← getLCtx do
        if ld.isImplementationDetail then continue
        let ty ← instantiateMVars ld.type
        if ty.isAppOfArity ``PMQ.QEL 3 then
          let a := ty.getArg! 1; let b := ty.getArg! 2
          if b.isFVar then
            if a.isAppOfArity ``List.cons 3 then res := some (ld.fvarId, 0)
            else if a.isAppOfArity ``List.nil 1 then res := some (ld.fvarId, 1)
          else if a.isFVar then
            if b.isAppOfArity ``List.cons 3 then res := some (ld.fvarId, 2)
            else if b.isAppOfArity ``List.nil 1 then res := some (ld.fvarId, 3)
      return res
    match found with
    | none => return
    | some (fv, k) =>
      let stx ← g.withContext (Term.exprToSyntax (mkFVar fv))
      if k == 0 then
        evalTactic (← `(tactic| (obtain ⟨_, _, hEq, _, _⟩ := PMQ.qel_cons_left $stx; subst hEq)))
      else if k == 1 then
        evalTactic (← `(tactic| (have hnil := PMQ.qel_nil_left $stx; subst hnil)))
      else if k == 2 then
        evalTactic (← `(tactic| (obtain ⟨_, _, hEq, _, _⟩ := PMQ.qel_cons_right $stx; subst hEq)))
      else
        evalTactic (← `(tactic| (have hnil := PMQ.qel_nil_right $stx; subst hnil)))

open Lean Elab Tactic Meta in
/-- take every conjunction among the hypotheses apart -/
elab "split_andsq" : tactic => do
  for _ in [0:64] do
    let g ← getMainGoal
    let found ← g.withContext do
      let mut res : Option FVarId := none
      for ld in ← getLCtx do
        if ld.isImplementationDetail then continue
        let ty ← instantiateMVars ld.type
        if ty.isAppOfArity ``And 2 then res := some ld.fvarId
      return res
    match found with
    | none => return
    | some fv =>
      let stx ← g.withContext (Term.exprToSyntax (mkFVar fv))
      evalTactic (← `(tactic| obtain ⟨hA, hB⟩ := $stx))

/-- after a `split`: equations between cons cells are taken apart and substituted; a negative hypothesis left by overlapping patterns
(`∀ b c r, xs = b :: c :: r → False`) whose cursor has become explicit is discharged -/
macro "qe_norm" : tactic =>
  `(tactic| ((try simp only [List.cons.injEq, reduceCtorEq, and_imp, forall_eq', forall_eq, imp_false, not_true_eq_false, false_imp_iff,
      imp_self, forall_const] at *) <;> split_andsq <;> (try subst_vars)))

/-- the shape of an optional argument is the same on both sides -/
theorem optmap_isNone {α β : Type} (f : α → β) (a b : Option α) (h : qeq (Option.map f) a b) : a.isNone = b.isNone := by
  cases a <;> cases b <;> simp_all
grind_pattern optmap_isNone => qeq (Option.map f) a b, a.isNone
theorem optmap_shape {α β : Type} (f : α → β) (a b : Option α) (h : qeq (Option.map f) a b) :
    (a = none ∧ b = none) ∨ (∃ x y, a = some x ∧ b = some y ∧ f x = f y) := by
  cases a <;> cases b <;> simp_all
grind_pattern optmap_shape => qeq (Option.map f) a b
variable [S : PaySet]
/-- `erAll` does not change the constructor: what `_parse_table_expression` inspects -/
theorem erE_subQuery_inv (x : Expr) (q0 : Query) (h : erE x = .subQuery q0) : ∃ q, x = .subQuery q := by
  cases x <;> simp [erE] at h; exact ⟨_, rfl⟩
grind_pattern erE_subQuery_inv => erE x, Expr.subQuery q0
theorem erTR_table_inv (x : TableRef) (s0 : Option String) (n0 : String) (h : erTR x = .table s0 n0) : ∃ s n, x = .table s n := by
  cases x <;> simp [erTR] at h; exact ⟨_, _, rfl⟩
grind_pattern erTR_table_inv => erTR x, TableRef.table s0 n0
theorem erTR_sub_inv (x : TableRef) (q0 : Query) (h : erTR x = .sub q0) : ∃ q, x = .sub q := by
  cases x <;> simp [erTR] at h; exact ⟨_, rfl⟩
grind_pattern erTR_sub_inv => erTR x, TableRef.sub q0

theorem matchSeq_qe : ∀ (ks : List String), ks.all plainB = true → ∀ (ts ts' : List Tok), QEL ts ts' → QER Eq (matchSeq ts ks) (matchSeq ts' ks) := by
  intro ks
  induction ks with
  | nil => intro _ ts ts' h; simp [matchSeq, h]
  | cons k ks ih =>
    intro hk ts ts' h
    simp only [List.all_cons, Bool.and_eq_true] at hk
    cases ts <;> cases ts' <;> simp_all [matchSeq]
    rw [qe_equalsStr h.1 k hk.1]
    split
    · exact ih _ _ h.2
    · simp
theorem matchSeq_qe2 {ts ts' : List Tok} (h : QEL ts ts') (ks : List String) (hk : ks.all plainB = true) : QER Eq (matchSeq ts ks) (matchSeq ts' ks) :=
  matchSeq_qe ks hk ts ts' h
grind_pattern matchSeq_qe2 => QEL ts ts', matchSeq ts ks
theorem matchKw_qe {ts ts' : List Tok} (h : QEL ts ts') (k : String) (hk : plainB k = true) : QER Eq (matchKw ts k) (matchKw ts' k) := by
  cases ts <;> cases ts' <;> simp_all [matchKw]
  rw [qe_equalsStr h.1 k hk]
  split <;> simp [h.2]
grind_pattern matchKw_qe => QEL ts ts', matchKw ts k

end PMQ
