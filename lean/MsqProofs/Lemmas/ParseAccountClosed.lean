import MsqProofs.Lemmas.ParseAccountStmt
/-!
# C08: every bracket group whose children the parser parses is parsed COMPLETELY

One inversion lemma per function of the parser model that opens a child cursor (`t.children`, `headChildren`, `popSplit`,
`splitBy`): if the function succeeds, then every sub-call it made on a child cursor returned `(_, [])` — the rest of the child
cursor is empty (`closed`, `close()` in the code), or every comma-separated segment of it was parsed to its end
(`Each2 (fun sg e => p sg = ok (e, [])) segments results`).  Proofs: `unfold f at h; split_run <;> grind`.

What the lemmas make visible (nothing here is a new kind of defect; the classes are F-C08-5 / F-C08-6 of known_findings.json):

* NO function of the model leaves a child cursor unchecked.  The two repaired sites (`FROM (t junk)`, `CAST(a AS DECIMAL(10 20))`)
  are closed in the model (`closed_pTableExpr`, `closed_castTail`, `closed_castParamsLoop`).
* `splitBy` (`pop_as_children_scanner_list_split_by`) drops EMPTY segments: `splitBy_flatten` — the segments, concatenated, are
  exactly the children without the separator tokens, so no token other than a separator is lost — and `splitBy_nonempty`: no segment
  is empty.  `IN (1,,2)`, `VALUES (1,,2)`, `GROUPING SETS ((a,,b))`, `PARTITION (a=1,,b=2)` are accepted as if the empty segment were
  not there (`f(a,,b)` is not: `pArgs` wants an expression after each comma).  The code does the same (`scanner.py:223-236`).
* Where the model takes `g.children` of the next token WITHOUT testing that `g` is a bracket group (a word has no children, so
  the group is "empty" and the word is dropped, class F-C08-6) the lemma shows it: the token `g` is existentially bound with no
  `g.has PAREN` conjunct — `closed_pInBody` (`a IN b`), `closed_pWindow` (`f(x) OVER w`), `closed_pGroupingSets`
  (`GROUPING SETS x`), `closed_pIfCall` / `closed_pCall` / `closed_pCast` / `closed_pExtract` (reached without a bracket only from
  `USING x` and `LATERAL VIEW f x`), `popSplit` in `pPartition`, `pNameList`, `pIndexCols`, `createOpts`, `pCreateTable`.
  Where the test is made the conjunct is there (`closed_pIndex`, `closed_pTableExpr`, `closed_castTail`, `closed_pGroupingElem`,
  `closed_pColType`, `closed_pIndexCol`, `closed_valuesLoop`, `closed_pOptColumns`, `closed_pSingle`).
-/
set_option linter.unusedVariables false
set_option linter.unusedSectionVars false
set_option maxHeartbeats 1000000
open Lex PM Ast
namespace PM

/-- pointwise relation between two lists of the same length (segments and what they were parsed to) -/
inductive Each2 {α β : Type} (R : α → β → Prop) : List α → List β → Prop
  | nil : Each2 R [] []
  | cons {a b as bs} : R a b → Each2 R as bs → Each2 R (a :: as) (b :: bs)

theorem Each2.length_eq {α β : Type} {R : α → β → Prop} {as : List α} {bs : List β} (h : Each2 R as bs) : as.length = bs.length := by
  induction h <;> simp_all
theorem Each2.append {α β : Type} {R : α → β → Prop} {as as' : List α} {bs bs' : List β} (h : Each2 R as bs) (h' : Each2 R as' bs') :
    Each2 R (as ++ as') (bs ++ bs') := by
  induction h with
  | nil => simpa using h'
  | cons hab _ ih => exact .cons hab ih

@[grind =] theorem searchMark_cons (t : Tok) (r : List Tok) (m : Nat) : searchMark (t :: r) m = t.has m := rfl
@[grind =] theorem searchMark_nil (m : Nat) : searchMark [] m = false := rfl

/-! ### splitting at separators loses separators only -/
theorem splitBy_acc (sep : String) (ts cur : List Tok) (acc : List (List Tok)) :
    splitBy sep ts cur acc = acc ++ splitBy sep ts cur [] := by
  induction ts generalizing cur acc with
  | nil => simp only [splitBy]; split <;> simp
  | cons t r ih =>
    simp only [splitBy]
    split
    · split
      · exact ih [] acc
      · rw [ih [] (acc ++ [cur]), ih [] ([] ++ [cur])]; simp
    · exact ih _ acc
/-- the segments, concatenated, are the tokens of the group without the separators: nothing else is dropped -/
theorem splitBy_flatten (sep : String) (ts cur : List Tok) (acc : List (List Tok)) :
    (splitBy sep ts cur acc).flatten = acc.flatten ++ cur ++ ts.filter (fun t => !t.equalsStr sep) := by
  induction ts generalizing cur acc with
  | nil => simp only [splitBy]; split <;> simp_all
  | cons t r ih =>
    simp only [splitBy]
    split
    · rename_i hsep
      split
      · rename_i hc; rw [ih]; simp_all
      · rw [ih]; simp_all
    · rename_i hsep; rw [ih]; simp_all
/-- no segment is empty: an empty segment (`1,,2`, a leading or trailing separator) is dropped silently -/
theorem splitBy_nonempty (sep : String) (ts cur : List Tok) (acc : List (List Tok)) (hacc : ∀ sg ∈ acc, sg ≠ []) :
    ∀ sg ∈ splitBy sep ts cur acc, sg ≠ [] := by
  have hext : ∀ cur : List Tok, cur.isEmpty = false → ∀ sg ∈ acc ++ [cur], sg ≠ [] := by
    intro cur hc sg hsg
    simp only [List.mem_append, List.mem_singleton] at hsg
    rcases hsg with h | h
    · exact hacc sg h
    · subst h; intro h0; subst h0; simp at hc
  induction ts generalizing cur acc with
  | nil =>
    simp only [splitBy]; split
    · exact hacc
    · rename_i hc; exact hext cur (by simpa using hc)
  | cons t r ih =>
    simp only [splitBy]
    split
    · split
      · exact ih _ _ hacc (fun cur hc => hext cur hc)
      · rename_i hc
        have hacc' := hext cur (by simpa using hc)
        apply ih _ _ hacc'
        intro cur' hc' sg hsg
        simp only [List.mem_append, List.mem_singleton] at hsg
        rcases hsg with h | h
        · exact hacc' sg (by simpa using h)
        · subst h; intro h0; subst h0; simp at hc'
    · exact ih _ _ hacc (fun cur hc => hext cur hc)

/-! ### running a parser on every segment -/
theorem closed_eachClosed {α : Type} (p : List Tok → R α) : ∀ segs as, eachClosed p segs = .ok as →
    Each2 (fun sg a => p sg = .ok (a, [])) segs as := by
  intro segs
  induction segs with
  | nil => intro as h; simp [eachClosed] at h; subst h; exact .nil
  | cons sg rest ih =>
    intro as h
    unfold eachClosed at h
    split at h
    · simp at h
    · rename_i a ha
      split at h
      · rename_i as' has
        simp at h; subst h
        exact .cons ((closed_ok _ _).1 ha) (ih _ has)
      · simp at h

variable {d : Gen.D} {n : Nat}

/-! ### the mutual block of `MsqModel/Parse/Expr.lean` -/
theorem closed_pParen {n0 r0 v r} (h : pParen d (n+1) n0 r0 = .ok (v, r)) :
    (startsSelect n0.children = true ∧ pSubQuery d n (n0 :: r0) = .ok (v, r)) ∨
    (startsSelect n0.children = false ∧ r = r0 ∧ pOr d n n0.children = .ok (v, [])) := by
  unfold pParen at h
  split_run <;> grind
theorem closed_pIndex {before ts v r} (h : pIndex d (n+1) before ts = .ok (v, r)) :
    (searchMark ts ARRAY = false ∧ v = before ∧ r = ts) ∨
    (∃ t i, ts = t :: r ∧ t.has ARRAY = true ∧ pCompute d n t.children = .ok (i, []) ∧ v = .index before i) := by
  unfold pIndex at h
  split_run <;> grind
theorem closed_pIfCall {ts v r} (h : pIfCall d (n+1) ts = .ok (v, r)) :
    ∃ g acc r2 ps, ts = g :: r ∧ pFirstArg d n g.children = .ok (acc, r2) ∧ pArgs d n acc r2 = .ok (ps, []) ∧ v = .func none "IF" ps := by
  unfold pIfCall at h
  split_run <;> grind [closed_ok]
/-- the argument tokens of a call: the children of the group, `FROM` / `FOR` of `SUBSTRING` turned into commas (same length, same
tokens elsewhere), minus a leading `DISTINCT` of an aggregate (recorded in the flag) -/
theorem callPrep_args (name : String) (g : Tok) :
    ((callPrep name g).2.1 = false ∧ (callPrep name g).2.2 = substringRewrite (up name) g.children) ∨
    ((callPrep name g).2.1 = true ∧ searchStrUp (substringRewrite (up name) g.children) "DISTINCT" = true ∧
      (callPrep name g).2.2 = (substringRewrite (up name) g.children).drop 1) := by
  unfold callPrep moveStrUp
  by_cases h1 : Gen.aggNames.contains (up name) = true <;> by_cases h2 : searchStrUp (substringRewrite (up name) g.children) "DISTINCT" = true <;>
    simp only [h1, h2, if_true, if_false, Bool.false_eq_true] <;> simp
theorem substringRewrite_length (u : String) (cs : List Tok) : (substringRewrite u cs).length = cs.length := by
  unfold substringRewrite; split <;> simp
theorem closed_pCall {schema name ts v r} (h : pCall d (n+1) schema name ts = .ok (v, r)) :
    ∃ g acc r2 ps, ts = g :: r ∧ pFirstArg d n (callPrep name g).2.2 = .ok (acc, r2) ∧ pArgs d n acc r2 = .ok (ps, []) ∧
      v = callNode schema name (callPrep name g).1 (callPrep name g).2.1 ps := by
  unfold pCall at h
  split_run <;> grind [closed_ok]
/-- the comma-separated parser behind `IN (…)` and `_parse_sub_value_expression`: one compute expression per non-empty segment,
each parsed to the end of its segment -/
theorem closed_pSplit : ∀ n acc cur ts vs, pSplit d n acc cur ts = .ok vs →
    ∃ es, vs = acc ++ es ∧ Each2 (fun sg e => ∃ m, pCompute d m sg = .ok (e, [])) (splitBy "," ts cur []) es := by
  intro n
  induction n with
  | zero => intro acc cur ts vs h; simp [pSplit] at h
  | succ n ih =>
    intro acc cur ts vs h
    unfold pSplit at h
    simp only at h
    cases ts with
    | nil =>
      simp only at h
      split at h
      · rename_i hc; simp at h; subst h; exact ⟨[], by simp, by simp [splitBy, hc]; exact .nil⟩
      · rename_i hc
        split at h <;> simp at h
        rename_i e he; subst h
        exact ⟨[e], rfl, by simp [splitBy, hc]; exact .cons ⟨n, he⟩ .nil⟩
    | cons t r =>
      simp only at h
      split at h
      · rename_i hsep
        split at h
        · rename_i acc' hfl
          obtain ⟨es, rfl, hes⟩ := ih _ _ _ _ h
          split at hfl
          · rename_i hc; simp at hfl; subst hfl
            exact ⟨es, rfl, by simpa [splitBy, hsep, hc] using hes⟩
          · rename_i hc
            split at hfl <;> simp at hfl
            rename_i e he; subst hfl
            refine ⟨e :: es, by simp, ?_⟩
            have hc' : cur.isEmpty = false := by simpa using hc
            simp only [splitBy, hsep, if_true, hc', Bool.false_eq_true, if_false]
            rw [splitBy_acc]
            exact Each2.append (.cons ⟨n, he⟩ .nil) hes
        · simp at h
      · rename_i hsep
        obtain ⟨es, rfl, hes⟩ := ih _ _ _ _ h
        exact ⟨es, rfl, by simpa [splitBy, hsep] using hes⟩
theorem closed_pInBody {isNot bv ts v r} (h : pInBody d (n+1) isNot bv ts = .ok (some (v, r))) :
    ∃ g r3, ts = g :: r3 ∧
      ((startsSelect g.children = true ∧ ∃ q, pSubQuery d n ts = .ok (q, r) ∧ v = .kw .in_ isNot bv q) ∨
       (startsSelect g.children = false ∧ r = r3 ∧ ∃ vs, pSplit d n [] [] g.children = .ok vs ∧ v = .kw .in_ isNot bv (.subValue vs))) := by
  unfold pInBody at h
  split_run <;> grind
theorem closed_pSubQuery {ts v r} (h : pSubQuery d (n+1) ts = .ok (v, r)) :
    ∃ g q, ts = g :: r ∧ pSelectStmt d n none g.children = .ok (q, []) ∧ v = .subQuery q := by
  unfold pSubQuery at h
  split_run <;> grind [closed_ok]
/-- the CAST type parameters: every token of the group is a number or the comma between two numbers -/
theorem closed_castParamsLoop : ∀ f acc ts ps, castParamsLoop f acc ts = .ok ps → ts.length + 2 * acc.length = 2 * ps.length := by
  intro f
  induction f with
  | zero => intro acc ts ps h; simp [castParamsLoop] at h
  | succ f ih =>
    intro acc ts ps h
    unfold castParamsLoop at h
    split at h
    · rename_i hs
      split at h
      · rename_i n r hp
        have h1 := ih _ _ _ h
        have h2 := (popInt_cons _ _ _ hp).length_le
        have h3 : 1 ≤ ts.length := by cases ts <;> simp [searchStr] at hs ⊢
        have h4 : r.length + 2 = ts.length := by
          cases ts with
          | nil => simp at h3
          | cons t ts' => cases ts' with
            | nil => simp [popInt] at hp
            | cons t2 ts2 => simp only [List.drop_succ_cons, List.drop_zero, popInt] at hp; split at hp <;> simp at hp <;> simp [← hp.2]
        simp at h1; omega
      · simp at h
    · split at h
      · rename_i he; simp at h he; subst h; subst he; simp
      · simp at h
theorem closed_castParams {g ps} (h : castParams g = .ok ps) : (g.children = [] ∧ ps = []) ∨ g.children.length + 1 = 2 * ps.length := by
  unfold castParams at h
  split at h
  · simp at h; left; simp_all
  · rename_i cs hne
    split at h
    · simp at h
    · rename_i n r hp
      right
      have h1 := closed_castParamsLoop _ _ _ _ h
      have : g.children.length = r.length + 1 := by
        cases hc : g.children with
        | nil => simp [hc, popInt] at hp
        | cons t ts' => rw [hc] at hp; simp only [popInt] at hp; split at hp <;> simp at hp <;> simp [← hp.2]
      simp at h1; omega
/-- after `AS`: `[SIGNED] type` and nothing else, or `[SIGNED] type ( numbers )` and nothing else -/
theorem closed_castTail {e ts v} (h : castTail e ts = .ok v) :
    ∃ t rest, (moveStrUp ts "SIGNED").2 = t :: rest ∧
      (rest = [] ∨ ∃ g ps, rest = [g] ∧ g.has PAREN = true ∧ castParams g = .ok ps) := by
  unfold castTail at h
  simp only at h
  split_run <;> grind
theorem closed_pCast {ts v r} (h : pCast d (n+1) ts = .ok (v, r)) :
    ∃ g e r1 r2 u, ts = g :: r ∧ pCompute d n g.children = .ok (e, r1) ∧ matchSeq r1 ["AS"] = .ok (u, r2) ∧ castTail e r2 = .ok v := by
  unfold pCast at h
  split_run <;> grind
theorem closed_pExtractTail {nm r1 v} (h : pExtractTail d (n+1) nm r1 = .ok v) :
    ∃ u r2 c, matchSeq r1 ["FROM"] = .ok (u, r2) ∧ pCompute d n r2 = .ok (c, []) ∧ v = .extract nm c := by
  unfold pExtractTail at h
  split_run <;> grind [closed_ok]
theorem closed_pExtract {ts v r} (h : pExtract d (n+1) ts = .ok (v, r)) :
    ∃ g nm r1, ts = g :: r ∧ pCompute d n g.children = .ok (nm, r1) ∧ pExtractTail d n nm r1 = .ok v := by
  unfold pExtract at h
  split_run <;> grind
theorem closed_pWindowBody {fn cs v} (h : pWindowBody d (n+1) fn cs = .ok v) :
    ∃ part r1 ord r2, pPartitionBy d n cs = .ok (part, r1) ∧ pOrderByOpt d n r1 = .ok (ord, r2) ∧
      ((r2 = [] ∧ v = .window fn part (ord.getD []) none) ∨ (∃ rw, pWindowRow r2 = .ok (rw, []) ∧ v = .window fn part (ord.getD []) (some rw))) := by
  unfold pWindowBody at h
  split_run <;> grind [closed_ok, List.isEmpty_iff]
theorem closed_pWindow {ts v r} (h : pWindow d (n+1) ts = .ok (v, r)) :
    ∃ fn r0 u g, pFuncIdx d n ts = .ok (fn, r0) ∧ matchSeq r0 ["OVER"] = .ok (u, g :: r) ∧ pWindowBody d n fn g.children = .ok v := by
  unfold pWindow at h
  split_run <;> grind
theorem closed_pTableExpr {ts v r} (h : pTableExpr d (n+1) ts = .ok (v, r)) :
    ∃ cs, headChildren ts = .ok cs ∧
      ((startsSelect cs = true ∧ ∃ q, pSubQuery d n ts = .ok (.subQuery q, r) ∧ v = .sub q) ∨
       (startsSelect cs = false ∧ searchMark ts PAREN = true ∧ r = ts.drop 1 ∧ pTableExpr d n cs = .ok (v, [])) ∨
       (startsSelect cs = false ∧ searchMark ts PAREN = false ∧ pTableName ts = .ok (v, r))) := by
  unfold pTableExpr at h
  split_run <;> grind [closed_ok]
theorem closed_pClosedEach : ∀ n acc segs es, pClosedEach d n acc segs = .ok es →
    ∃ es', es = acc ++ es' ∧ Each2 (fun sg e => ∃ m, pCompute d m sg = .ok (e, [])) segs es' := by
  intro n
  induction n with
  | zero => intro acc segs es h; simp [pClosedEach] at h
  | succ n ih =>
    intro acc segs es h
    unfold pClosedEach at h
    split at h
    · simp at h; subst h; exact ⟨[], by simp, .nil⟩
    · split at h
      · rename_i e he
        obtain ⟨es', rfl, h'⟩ := ih _ _ _ h
        exact ⟨e :: es', by simp, .cons ⟨n, (closed_ok _ _).1 he⟩ h'⟩
      · simp at h
theorem closed_pGroupingElem {seg es} (h : pGroupingElem d (n+1) seg = .ok es) :
    (∃ g, seg = [g] ∧ g.has PAREN = true ∧ pClosedEach d n [] (splitBy "," g.children [] []) = .ok es) ∨
    (∃ e, pCompute d n seg = .ok (e, []) ∧ es = [e]) := by
  unfold pGroupingElem at h
  split_run <;> grind [closed_ok, List.isEmpty_iff]
theorem closed_pGroupingElems : ∀ n acc segs gs, pGroupingElems d n acc segs = .ok gs →
    ∃ gs', gs = acc ++ gs' ∧ Each2 (fun sg es => ∃ m, pGroupingElem d m sg = .ok es) segs gs' := by
  intro n
  induction n with
  | zero => intro acc segs es h; simp [pGroupingElems] at h
  | succ n ih =>
    intro acc segs es h
    unfold pGroupingElems at h
    split at h
    · simp at h; subst h; exact ⟨[], by simp, .nil⟩
    · split at h
      · rename_i e he
        obtain ⟨es', rfl, h'⟩ := ih _ _ _ h
        exact ⟨e :: es', by simp, .cons ⟨n, he⟩ h'⟩
      · simp at h
theorem closed_pGroupingSets {ts v r} (h : pGroupingSets d (n+1) ts = .ok (v, r)) :
    ∃ u g, matchSeq ts ["GROUPING", "SETS"] = .ok (u, g :: r) ∧ pGroupingElems d n [] (splitBy "," g.children [] []) = .ok v := by
  unfold pGroupingSets at h
  split_run <;> grind
theorem closed_pWithBody {name ts v r} (h : pWithBody d (n+1) name ts = .ok (v, r)) :
    ∃ g q, ts = g :: r ∧ pSelectStmt d n (some []) g.children = .ok (q, []) ∧ v = .mk name q := by
  unfold pWithBody at h
  split_run <;> grind [closed_ok]
/-- the bracket loop of `_parse_single_select_statement` pops the NEXT token of the outer cursor instead of descending
(`parser.py`: `inner = scanner.pop_as_children_scanner()`), and `close()` is called on every cursor it opened: a run that entered
the loop never succeeds, a run that did not has parsed the whole group -/
theorem closed_pSingleParen : ∀ n w outer stack inner s r, stack.head? = some inner →
    pSingleParen d n w outer stack inner = .ok (s, r) →
    searchMark inner PAREN = false ∧ r = outer ∧ (stack.drop 1).all (·.isEmpty) = true ∧
      ∃ m, pSelectBody d m w false outer inner = .ok (s, []) := by
  intro n
  induction n with
  | zero => intro w outer stack inner s r _ h; simp [pSingleParen] at h
  | succ n ih =>
    intro w outer stack inner s r hst h
    unfold pSingleParen at h
    split at h
    · rename_i hp
      split at h
      · simp at h
      · rename_i g outer'
        obtain ⟨_, _, hall, _⟩ := ih _ _ (g.children :: stack) _ _ _ rfl h
        cases stack with
        | nil => simp at hst
        | cons c st =>
          simp at hst; subst hst
          simp at hall
          have : c = [] := by simpa using hall.1
          subst this; exact absurd hp (by simp [searchMark])
    · rename_i hp
      split at h
      · simp at h
      · rename_i s' rest hb
        split at h
        · simp at h
        · rename_i hr
          split at h
          · simp at h
          · rename_i hs
            simp at h
            obtain ⟨rfl, rfl⟩ := h
            have : rest = [] := by simpa using hr
            subst this
            refine ⟨by simpa using hp, rfl, ?_, n, hb⟩
            simpa using hs
theorem closed_pSingle {w ts s r} (h : pSingle d (n+1) w ts = .ok (s, r)) :
    (searchMark ts PAREN = false ∧ pSelectBody d n w true [] ts = .ok (s, r)) ∨
    (∃ g, ts = g :: r ∧ g.has PAREN = true ∧ searchMark g.children PAREN = false ∧ ∃ m, pSelectBody d m w false r g.children = .ok (s, [])) := by
  unfold pSingle at h
  split at h
  · left; simp_all
  · rename_i hp
    split at h
    · simp at h
    · rename_i g outer
      obtain ⟨h1, rfl, _, m, h2⟩ := closed_pSingleParen _ _ _ _ _ _ _ rfl h
      right
      exact ⟨g, rfl, by simpa [searchMark] using hp, h1, m, h2⟩

/-! ### `MsqModel/Parse/Stmt.lean` and `pSubValue` -/
variable {f : Nat}
theorem closed_pColType {ts v r} (h : pColType d f ts = .ok (v, r)) :
    ∃ name r0, popSrc ts = .ok (name, r0) ∧
      ((searchMark r0 PAREN = false ∧ r = r0 ∧ v = ⟨name, none⟩) ∨
       (searchMark r0 PAREN = true ∧ ∃ segs ps, popSplit r0 = .ok (segs, r) ∧ eachClosed (pCompute d f) segs = .ok ps ∧ v = ⟨name, some ps⟩)) := by
  unfold pColType at h
  split_run <;> grind
theorem closed_pPartition {already ts v r} (h : pPartition d f already ts = .ok (v, r)) :
    ∃ r0 segs items, Sfx r0 ts ∧ popSplit r0 = .ok (segs, r) ∧ eachClosed (pPartitionItem d f) segs = .ok items ∧ v = items.map (·.1) := by
  unfold pPartition at h
  split_run <;> grind
theorem closed_pNameList {ts v r} (h : pNameList ts = .ok (v, r)) :
    ∃ segs, popSplit ts = .ok (segs, r) ∧ eachClosed popSrc segs = .ok v := by
  unfold pNameList at h
  split_run <;> grind
theorem closed_pIndexCol {ts v r} (h : pIndexCol ts = .ok (v, r)) :
    ∃ nm r0, popSrc ts = .ok (nm, r0) ∧
      ((searchMark r0 PAREN = false ∧ r = r0 ∧ v = ⟨unifyName nm, none⟩) ∨
       (∃ g k, r0 = g :: r ∧ g.has PAREN = true ∧ popInt g.children = .ok (k, []) ∧ v = ⟨unifyName nm, some k⟩)) := by
  unfold pIndexCol at h
  split_run <;> grind [closed_ok]
theorem closed_pIndexCols {ts v r} (h : pIndexCols ts = .ok (v, r)) :
    ∃ segs, popSplit ts = .ok (segs, r) ∧ eachClosed pIndexCol segs = .ok v := by
  unfold pIndexCols at h
  split_run <;> grind
theorem closed_pGenerated {ts gc r} (h : pGenerated d f ts = .ok (some gc, r)) :
    ∃ g r0 e m, ts.drop 3 = g :: r0 ∧ pCompute d f g.children = .ok (e, []) ∧ popSrc r0 = .ok (m, r) ∧ gc.e = e := by
  unfold pGenerated at h
  split_run <;> grind [closed_ok]
theorem closed_valuesLoop {g acc ts v r} (h : valuesLoop d f (g+1) acc ts = .ok (v, r)) :
    (searchMark ts PAREN = false ∧ v = acc ∧ r = ts) ∨
    (∃ t r0 row, ts = t :: r0 ∧ t.has PAREN = true ∧ eachClosed (pCompute d f) (splitBy "," t.children [] []) = .ok row ∧
      valuesLoop d f g (acc ++ [row]) (moveStr r0 ",").2 = .ok (v, r)) := by
  unfold valuesLoop at h
  split_run <;> grind
theorem closed_pOptColumns {ts v r} (h : pOptColumns ts = .ok (v, r)) :
    (searchMark ts PAREN = false ∧ v = none ∧ r = ts) ∨
    (searchMark ts PAREN = true ∧ ∃ segs cs, popSplit ts = .ok (segs, r) ∧ eachClosed pColumnName segs = .ok cs ∧ v = some cs) := by
  unfold pOptColumns at h
  split_run <;> grind
/-- every element of the bracket group of CREATE TABLE is parsed to the end of its segment by one of the six element parsers -/
theorem closed_createElems : ∀ segs c c', createElems d f segs c = .ok c' →
    ∀ sg ∈ segs, (∃ i, pPrimaryIndex sg = .ok (i, [])) ∨ (∃ i, pUniqueIndex sg = .ok (i, [])) ∨ (∃ i, pNormalIndex sg = .ok (i, [])) ∨
      (∃ i, pFulltextIndex sg = .ok (i, [])) ∨ (∃ k, pForeignKey sg = .ok (k, [])) ∨ (∃ col, pDefCol d f sg = .ok (col, [])) := by
  intro segs
  induction segs with
  | nil => intro c c' _ sg hsg; simp at hsg
  | cons s rest ih =>
    intro c c' h sg hsg
    unfold createElems at h
    simp only [List.mem_cons] at hsg
    split_run <;> grind [closed_ok]
theorem closed_createOpts_partitioned {g c ts v r} (h : createOpts d f (g+1) c ts = .ok (v, r))
    (h0 : (ts.isEmpty || searchStr ts ";") = false) (hk : searchTwoUp ts "PARTITIONED" "BY" = true)
    (hn : searchStrUp ts "ENGINE" = false ∧ searchStrUp ts "AUTO_INCREMENT" = false ∧ searchTwoUp ts "DEFAULT" "CHARSET" = false ∧
      searchStrUp ts "ROW_FORMAT" = false ∧ searchStrUp ts "COLLATE" = false ∧ searchStrUp ts "COMMENT" = false ∧
      searchStrUp ts "STATS_PERSISTENT" = false) :
    ∃ segs r0 cs, popSplit (ts.drop 2) = .ok (segs, r0) ∧ eachClosed (pDefCol d f) segs = .ok cs ∧
      createOpts d f g { c with partitionedBy := c.partitionedBy ++ cs } r0 = .ok (v, r) := by
  unfold createOpts at h
  split_run <;> grind
theorem closed_pCreateTable {ts v r} (h : pCreateTable d f ts = .ok (v, r)) :
    (∃ tbl ine q, v = .createTableAs tbl ine q) ∨
    (∃ r1 segs r2 c0 c c' r3, Sfx r1 ts ∧ popSplit r1 = .ok (segs, r2) ∧ createElems d f segs c0 = .ok c ∧
      createOpts d f (r2.length + 1) c r2 = .ok (c', r3) ∧ v = .createTable c' ∧ r = (moveStr r3 ";").2) := by
  unfold pCreateTable at h
  split_run <;> grind
/-- the loop of `parse_statements` returns only at the end of the token list: the whole text has been consumed -/
theorem closed_statementsLoop : ∀ g acc ts ss, statementsLoop d f g acc ts = .ok ss →
    ts = [] ∧ ss = acc ∨ ∃ s r, pStatement d f ts = .ok (s, r) ∧ statementsLoop d f (g-1) (acc ++ [s]) (moveStr r ";").2 = .ok ss := by
  intro g
  cases g with
  | zero => intro acc ts ss h; simp [statementsLoop] at h
  | succ g =>
    intro acc ts ss h
    unfold statementsLoop at h
    split_run <;> grind [List.isEmpty_iff]

end PM
