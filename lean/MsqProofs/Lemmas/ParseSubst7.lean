import MsqProofs.Lemmas.ParseSubst5
/-!
# C06, parser half — derived from the file of the same number of C09 (`ParseCase…`) — part 9: three fuel steps of the block by hand (`pSplit`, `pSelectStmt`, `pUnions`)
-/
set_option linter.unusedSimpArgs false
set_option linter.unusedVariables false
open Lex PM Ast
namespace PMQ
variable [S : PaySet]

/-! ### two fuel steps of the block by hand (the generated two-sided split is too slow on them) -/
section hand
variable (d : Gen.D)
set_option maxHeartbeats 4000000

/-- `flush` of `pSplit`: the collected segment is parsed as one expression -/
def flushOf (f : Nat) (acc : List Expr) (cur : List Tok) : Except Err (List Expr) :=
  if cur.isEmpty then .ok acc else
    match pCompute d f cur with
    | .ok (e, []) => .ok (acc ++ [e]) | .ok (_, _ :: _) => .error .parse | .error e => .error e
omit S in
theorem pSplit_succ (f : Nat) (acc : List Expr) (cur ts : List Tok) : pSplit d (f+1) acc cur ts =
    match ts with
    | [] => flushOf d f acc cur
    | t :: r => if t.equalsStr "," then (match flushOf d f acc cur with | .ok acc' => pSplit d f acc' [] r | .error e => .error e)
                else pSplit d f acc (cur ++ [t]) r := by
  cases ts <;> simp only [pSplit, flushOf] <;> rfl
theorem flushOf_qe (n : Nat) (ih : SubF d n) : ∀ x0 x1 y0 y1, qeq (List.map erE) x0 y0 → QEL x1 y1 →
    QEX (qeq (List.map erE)) (flushOf d n x0 x1) (flushOf d n y0 y1) := by
  intro x0 x1 y0 y1 hr0 hr1
  generalize h : flushOf d n x0 x1 = res
  generalize h' : flushOf d n y0 y1 = res'
  unfold flushOf at h h'
  split_run <;> qel_sync <;> split_runq <;> qe_norm <;> qel_sync <;> qe_norm <;> (try simp only [strEq_fold] at *) <;>
    grind -funext (gen := 40) (instances := 20000) (ematch := 30) [erE]
theorem qel_snoc {a a' : List Tok} {t t' : Tok} (h1 : QEL a a') (h2 : QE t t') : QEL (a ++ [t]) (a' ++ [t']) :=
  qel_append h1 (by simp [h2])
grind_pattern qel_snoc => QEL a a', QE t t', a ++ [t]
theorem subF_pSplit (n : Nat) (ih : SubF d n) :
    ∀ x0 x1 x2 y0 y1 y2, qeq (List.map erE) x0 y0 → QEL x1 y1 → QEL x2 y2 → ∀ res res', pSplit d (n+1) x0 x1 x2 = res → pSplit d (n+1) y0 y1 y2 = res' → QEX (qeq (List.map erE)) res res' := by
  intro x0 x1 x2 y0 y1 y2 hr0 hr1 hr2 res res' h h'
  have hf := flushOf_qe d n ih x0 x1 y0 y1 hr0 hr1
  rw [pSplit_succ] at h h'
  generalize flushOf d n x0 x1 = fl at hf h
  generalize flushOf d n y0 y1 = fl' at hf h'
  split_run <;> qel_sync <;> split_runq <;> qe_norm <;> qel_sync <;> qe_norm <;> (try simp only [strEq_fold] at *) <;>
    grind -funext (gen := 40) (instances := 20000) (ematch := 30) [erE]

/-- `set_with_clauses` on every branch of a union -/
theorem unionBranches_qe : ∀ (us us' : List (String × Select)), us.map (Prod.map er erS) = us'.map (Prod.map er erS) →
    (us.map fun p => (p.1, setWiths p.2)).map (Prod.map er erS) = (us'.map fun p => (p.1, setWiths p.2)).map (Prod.map er erS) := by
  intro us
  induction us with
  | nil => intro us' h; cases us' <;> simp_all
  | cons a us ih =>
    intro us' h
    cases us' with
    | nil => simp at h
    | cons a' us' =>
      obtain ⟨n, s⟩ := a; obtain ⟨n', s'⟩ := a'
      simp only [List.map_cons, List.cons.injEq, Prod.map, Prod.mk.injEq] at h ⊢
      exact ⟨⟨h.1.1, setWiths_qe h.1.2⟩, ih us' h.2⟩
omit S in
theorem map_isEmpty_eq {α β : Type} (f : α → β) (a b : List α) (h : a.map f = b.map f) : a.isEmpty = b.isEmpty := by
  cases a <;> cases b <;> simp_all
theorem subF_pSelectStmt (n : Nat) (ih : SubF d n) :
    ∀ x0 x1 y0 y1, qeq (Option.map (List.map erW)) x0 y0 → QEL x1 y1 → ∀ res res', pSelectStmt d (n+1) x0 x1 = res → pSelectStmt d (n+1) y0 y1 = res' → QER (qeq erQ) res res' := by
  intro x0 x1 y0 y1 hr0 hr1 res res' h h'
  unfold pSelectStmt at h h'
  have hU := unionBranches_qe
  have hE := @map_isEmpty_eq (String × Select) (String × Select) (Prod.map er erS)
  cases x0 <;> cases y0 <;> simp only [qeq_def, Option.map_none, Option.map_some, reduceCtorEq, Option.some.injEq] at hr0 <;> dsimp only at h h' <;>
    split_run <;> qel_sync <;> split_runq <;> qe_norm <;> qel_sync <;> qe_norm <;> (try simp only [strEq_fold] at *) <;>
    grind -funext (gen := 40) (instances := 20000) (ematch := 30) [erE, erW]

/-- `pUnions`: in lockstep (the generated two-sided split needs 12 minutes) -/
theorem subF_pUnions (n : Nat) (ih : SubF d n) :
    ∀ x0 x1 x2 y0 y1 y2, qeq (List.map erW) x0 y0 → qeq (List.map (Prod.map er erS)) x1 y1 → QEL x2 y2 → ∀ res res', pUnions d (n+1) x0 x1 x2 = res → pUnions d (n+1) y0 y1 y2 = res' → QER (qeq (List.map (Prod.map er erS))) res res' := by
  intro x0 x1 x2 y0 y1 y2 hr0 hr1 hr2 res res' h h'
  subst h h'
  unfold pUnions
  refine qer_ite (by rw [qel_setOpHead hr2]) (fun _ _ => ?_) (fun _ _ => ?_)
  · simp at hr1; simp [hr1, hr2]
  · rcases qel_firstEnum_union hr2 with ⟨h1, h2⟩ | ⟨nm, r, r', h1, h2, h3⟩
    · rw [h1, h2]; simp
    · rw [h1, h2]; dsimp only
      have hs := ih.pSingle x0 r y0 r' hr0 h3
      revert hs; generalize pSingle d n x0 r = a; generalize pSingle d n y0 r' = b; intro hs
      match a, b, hs with
      | .ok (s, r1), .ok (s', r1'), hs =>
        simp at hs; dsimp only
        exact ih.pUnions _ _ _ _ _ _ hr0 (by simp at hr1 ⊢; simp [hr1, hs.1]) hs.2
      | .error e, .error e', hs => simp at hs; simp [hs]
      | .ok (_, _), .error _, hs => simp at hs
      | .error _, .ok (_, _), hs => simp at hs
end hand

end PMQ
