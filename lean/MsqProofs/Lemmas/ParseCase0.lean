import MsqModel.Parse.Entry
import MsqProofs.Lemmas.ParseAccount0
/-!
# C09, parser half — hand-written part 1: the case-equivalence of token lists and of trees

* `CE t t'` / `CEL ts ts'` — the two tokens (token lists) differ at most in the LETTER CASE OF WORDS: same shape, same marks, and a
  leaf is either literally the same or both leaves are *case words* (`caseWord`: only ASCII letters, digits and `_`, at least one
  letter — so no quote, no back-quote, no dot, no operator character) with the same `str.upper()`.  A bracket group that carries
  the NAME mark (the lexer never emits one) must be literally the same.
* `upE`, `upS`, `upQ`, … — `upAll`: the tree with EVERY string in it mapped through `str.upper()` (`up`).  Two trees are equal up to
  the letter case of the texts they store iff their `upAll` are equal.
* `CER rv a b` — the two runs `a`, `b` agree: both fail with the same error kind, or both succeed with values related by `rv`
  and remaining cursors related by `CEL`.  `CEX` the same for results without a cursor.

Proof style of the generated files (`tools/gen_case.py`): the statement is `f args = res → f args' = res' → CER … res res'`; both
hypotheses are split completely (C08's `split_run`, and `split_run'` for the second run) before `grind` is called, so `grind`
never sees a `match`.
-/
set_option linter.unusedSimpArgs false
set_option linter.unusedVariables false
open Lex Ast
namespace PM

/-! ### `upAll` on the typed trees -/
mutual
def upE : Expr → Expr
  | .column t n => .column (t.map up) (up n)
  | .literal v => .literal (up v)
  | .wildcard t => .wildcard (t.map up)
  | .func s n ps => .func (s.map up) (up n) (upEs ps)
  | .agg n ps d => .agg (up n) (upEs ps) d
  | .cast e sg ty ps => .cast (upE e) sg (up ty) ps
  | .extract n e => .extract (upE n) (upE e)
  | .window fn part ord rows => .window (upE fn) (upEs part) (upOs ord) rows
  | .caseCond cs e => .caseCond (upArms cs) (upEo e)
  | .caseVal v cs e => .caseVal (upE v) (upArms cs) (upEo e)
  | .subValue vs => .subValue (upEs vs)
  | .subQuery q => .subQuery (upQ q)
  | .exists_ q => .exists_ (upE q)
  | .index a i => .index (upE a) (upE i)
  | .unary op e => .unary (up op) (upE e)
  | .compute l op r => .compute (upE l) (up op) (upE r)
  | .kw k n l r => .kw k n (upE l) (upE r)
  | .between n b f t => .between n (upE b) (upE f) (upE t)
  | .compare op l r => .compare (up op) (upE l) (upE r)
  | .not_ e => .not_ (upE e)
  | .and_ l r => .and_ (upE l) (upE r)
  | .xor l r => .xor (upE l) (upE r)
  | .or_ l r => .or_ (upE l) (upE r)
  | .mybatis s => .mybatis (up s)
def upEs : List Expr → List Expr
  | [] => [] | e :: r => upE e :: upEs r
def upEo : Option Expr → Option Expr
  | none => none | some e => some (upE e)
def upArms : List (Expr × Expr) → List (Expr × Expr)
  | [] => [] | (w, t) :: r => (upE w, upE t) :: upArms r
def upO : OrderItem → OrderItem
  | .mk e d nf nl => .mk (upE e) d nf nl
def upOs : List OrderItem → List OrderItem
  | [] => [] | o :: r => upO o :: upOs r
def upTR : TableRef → TableRef
  | .table s n => .table (s.map up) (up n)
  | .sub q => .sub (upQ q)
def upFT : FromTable → FromTable
  | .mk t a => .mk (upTR t) (a.map up)
def upFTs : List FromTable → List FromTable
  | [] => [] | t :: r => upFT t :: upFTs r
def upJR : JoinRule → JoinRule
  | .on e => .on (upE e) | .using f => .using (upE f)
def upJ : Join → Join
  | .mk ty t none => .mk (up ty) (upFT t) none
  | .mk ty t (some r) => .mk (up ty) (upFT t) (some (upJR r))
def upJs : List Join → List Join
  | [] => [] | j :: r => upJ j :: upJs r
def upEss : List (List Expr) → List (List Expr)
  | [] => [] | g :: r => upEs g :: upEss r
def upG : GroupBy → GroupBy
  | .mk cols none cube rollup => .mk (upEs cols) none cube rollup
  | .mk cols (some sets) cube rollup => .mk (upEs cols) (some (upEss sets)) cube rollup
def upLat : Lateral → Lateral
  | .mk o fn v as => .mk o (upE fn) (up v) (as.map up)
def upLats : List Lateral → List Lateral
  | [] => [] | l :: r => upLat l :: upLats r
def upW : WithTable → WithTable
  | .mk n q => .mk (up n) (upQ q)
def upWs : List WithTable → List WithTable
  | [] => [] | w :: r => upW w :: upWs r
def upCols : List (Expr × Option String) → List (Expr × Option String)
  | [] => [] | (e, a) :: r => (upE e, a.map up) :: upCols r
def upWso : Option (List WithTable) → Option (List WithTable)
  | none => none | some l => some (upWs l)
def upFTso : Option (List FromTable) → Option (List FromTable)
  | none => none | some l => some (upFTs l)
def upGo : Option GroupBy → Option GroupBy
  | none => none | some g => some (upG g)
def upOso : Option (List OrderItem) → Option (List OrderItem)
  | none => none | some l => some (upOs l)
def upEso : Option (List Expr) → Option (List Expr)
  | none => none | some l => some (upEs l)
def upS : Select → Select
  | .mk withs dist cols fr lats js wh gb hv ob sb db cb lm =>
    .mk (upWso withs) dist (upCols cols) (upFTso fr) (upLats lats) (upJs js) (upEo wh) (upGo gb) (upEo hv) (upOso ob) (upOso sb) (upEso db) (upEso cb) lm
def upUs : List (String × Select) → List (String × Select)
  | [] => [] | (n, s) :: r => (up n, upS s) :: upUs r
def upQ : Query → Query
  | .single s => .single (upS s)
  | .union withs first rest => .union (upWso withs) (upS first) (upUs rest)
end

/-- the stack of the compute loop -/
def upSt (st : List (Expr × String × Nat)) : List (Expr × String × Nat) := st.map fun p => (upE p.1, up p.2.1, p.2.2)

@[grind =] theorem upEs_eq : ∀ l, upEs l = l.map upE := by intro l; induction l <;> simp [upEs, *]
@[grind =] theorem upEo_eq : ∀ o, upEo o = o.map upE := by intro o; cases o <;> simp [upEo]
@[grind =] theorem upArms_eq : ∀ l, upArms l = l.map (Prod.map upE upE) := by
  intro l; induction l with | nil => simp [upArms] | cons p r ih => obtain ⟨w, t⟩ := p; simp [upArms, ih]
@[grind =] theorem upOs_eq : ∀ l, upOs l = l.map upO := by intro l; induction l <;> simp [upOs, *]
@[grind =] theorem upFTs_eq : ∀ l, upFTs l = l.map upFT := by intro l; induction l <;> simp [upFTs, *]
@[grind =] theorem upJs_eq : ∀ l, upJs l = l.map upJ := by intro l; induction l <;> simp [upJs, *]
@[grind =] theorem upEss_eq : ∀ l, upEss l = l.map (List.map upE) := by intro l; induction l <;> simp [upEss, upEs_eq, *]
@[grind =] theorem upLats_eq : ∀ l, upLats l = l.map upLat := by intro l; induction l <;> simp [upLats, *]
@[grind =] theorem upWs_eq : ∀ l, upWs l = l.map upW := by intro l; induction l <;> simp [upWs, *]
@[grind =] theorem upCols_eq : ∀ l, upCols l = l.map (Prod.map upE (Option.map up)) := by
  intro l; induction l with | nil => simp [upCols] | cons p r ih => obtain ⟨e, a⟩ := p; simp [upCols, ih]
@[grind =] theorem upUs_eq : ∀ l, upUs l = l.map (Prod.map up upS) := by
  intro l; induction l with | nil => simp [upUs] | cons p r ih => obtain ⟨n, s⟩ := p; simp [upUs, ih]
@[grind =] theorem upWso_eq : ∀ o, upWso o = o.map (List.map upW) := by intro o; cases o <;> simp [upWso, upWs_eq]
@[grind =] theorem upFTso_eq : ∀ o, upFTso o = o.map (List.map upFT) := by intro o; cases o <;> simp [upFTso, upFTs_eq]
@[grind =] theorem upGo_eq : ∀ o, upGo o = o.map upG := by intro o; cases o <;> simp [upGo]
@[grind =] theorem upOso_eq : ∀ o, upOso o = o.map (List.map upO) := by intro o; cases o <;> simp [upOso, upOs_eq]
@[grind =] theorem upEso_eq : ∀ o, upEso o = o.map (List.map upE) := by intro o; cases o <;> simp [upEso, upEs_eq]
@[grind =] theorem upJ_mk (ty : String) (t : FromTable) (r : Option JoinRule) : upJ (.mk ty t r) = .mk (up ty) (upFT t) (r.map upJR) := by
  cases r <;> simp [upJ]
@[grind =] theorem upG_mk (cols : List Expr) (sets : Option (List (List Expr))) (c r : Bool) :
    upG (.mk cols sets c r) = .mk (cols.map upE) (sets.map (List.map (List.map upE))) c r := by
  cases sets <;> simp [upG, upEs_eq, upEss_eq]
@[grind =] theorem upS_mk (withs : Option (List WithTable)) (dist : Bool) (cols : List (Expr × Option String)) (fr : Option (List FromTable))
    (lats : List Lateral) (js : List Join) (wh : Option Expr) (gb : Option GroupBy) (hv : Option Expr) (ob sb : Option (List OrderItem))
    (db cb : Option (List Expr)) (lm : Option (Int × Option Int)) :
    upS (.mk withs dist cols fr lats js wh gb hv ob sb db cb lm) =
      .mk (withs.map (List.map upW)) dist (cols.map (Prod.map upE (Option.map up))) (fr.map (List.map upFT)) (lats.map upLat) (js.map upJ)
        (wh.map upE) (gb.map upG) (hv.map upE) (ob.map (List.map upO)) (sb.map (List.map upO)) (db.map (List.map upE)) (cb.map (List.map upE)) lm := by
  simp [upS, upEs_eq, upEo_eq, upOs_eq, upFTs_eq, upJs_eq, upLats_eq, upWs_eq, upCols_eq, upWso_eq, upFTso_eq, upGo_eq, upOso_eq, upEso_eq]
@[grind =] theorem upQ_union (withs : Option (List WithTable)) (first : Select) (rest : List (String × Select)) :
    upQ (.union withs first rest) = .union (withs.map (List.map upW)) (upS first) (rest.map (Prod.map up upS)) := by
  simp [upQ, upWso_eq, upUs_eq]
@[grind =] theorem upQ_single (s : Select) : upQ (.single s) = .single (upS s) := by simp [upQ]

end PM
