import MsqProofs.Lemmas.LexSem
import MsqModel.Lex.TableOK
/-!
# Outcome typing of the lexer model: `lex` returns a token list or `.lexical`

The lexer model reports three kinds of foreign exception: `KeyError` for a missing table cell (`handle`), `IndexError` for
`memory.stack[-1]` / `stack.pop()` on an empty stack (`appendTop`, `popStack`, `finish`) and `UnboundLocalError` for an
operation body that uses `source` / `tokens` before assigning it; an operation body that falls off its end is
`.unmodelled`.  `NoPyOK cfg` is a decidable obligation on the (regenerated) table that excludes all of them:

* `live s` = the state has a default cell and an end cell (so no symbol can miss); `WAIT` is live and every cell of a live
  state that does not raise leads to a live state (so `END` and the plug-in states, which have no cells, are never the
  current state while characters are fed);
* every operation body of a reachable cell has a normal form (`summarize`), hence none of the `UnboundLocalError` /
  fall-through shapes;
* every body that pops the bracket stack is guarded by `raiseIfDepthLE k` with `k ≥ 1`, so the stack is never empty.

`lex_ok_or_lexical` is the theorem; the obligation is discharged for the shipped table (and the seven other option
settings) in `MsqProofs/Oblig/LexNoPyCfg.lean` by kernel evaluation on every build.
-/
namespace Lex
namespace NoPy
variable {Cls : Type}

/-- the state has a default cell and an end cell: no symbol misses the table -/
def live (cfg : Cfg Cls) (s : S) : Bool := (cfg.dflt s).isSome && (cfg.atEnd s).isSome

/-- a body that pops the bracket stack first tests `len(stack) > k` for some `k ≥ 1` -/
def popGuarded (sm : Summary) : Bool :=
  match sm.grp with
  | .pop _ _ => (match sm.depthGuard with | some k => decide (1 ≤ k) | none => false)
  | _ => true

/-- one cell: its body has a normal form, and it raises the lexical error or (pops only under the guard and, if more
input may follow, moves to a live state) -/
def cellNoPy (cfg : Cfg Cls) (s : S) (o : OpRef Cls) (needLive : Bool) : Bool :=
  match summarize (cfg.code o.cls) with
  | none => false
  | some sm => sm.raises || (popGuarded sm && (!needLive || live cfg (nextSt s o sm)))

/-- the decidable table obligation -/
def NoPyOK (cfg : Cfg Cls) : Bool :=
  live cfg .WAIT &&
  allS.all fun s => !live cfg s ||
    (((cfg.rows s).all fun e => cellNoPy cfg s e.2 true) &&
     (match cfg.dflt s with | some o => cellNoPy cfg s o true | none => false) &&
     (match cfg.atEnd s with | some o => cellNoPy cfg s o false | none => false))

/-! ### one operation -/

theorem appendTop_ne_nil (t : Tok) (stk : List (List Tok)) (h : stk ≠ []) : ∃ stk', appendTop t stk = some stk' ∧ stk'.length = stk.length := by
  cases stk with
  | nil => exact absurd rfl h
  | cons f fs => exact ⟨_, rfl, rfl⟩

/-- the straight-line part of an operation succeeds when the stack discipline is respected -/
theorem execCore_ok (env : Env) (ss : S) (smk : Nat) (adv : Bool) (body : Body) (grp : Grp) (st : St) (ret : Bool) (m : Mem)
    (hne : m.stack ≠ []) (hpop : ∀ k mk, grp = .pop k mk → 2 ≤ m.stack.length) :
    ∃ m', execCore env ss smk adv body grp st ret m = .ok (m', ret) ∧ m'.stack ≠ [] ∧ m'.status = st.resolve ss m.status := by
  obtain ⟨f0, rest, hst⟩ := List.exists_cons_of_ne_nil hne
  unfold execCore
  cases grp with
  | none => cases body <;> simp [hst, appendTop]
  | push => cases body <;> simp [hst, appendTop]
  | pop k mk =>
    have h2 := hpop k mk rfl
    rw [hst] at h2
    cases rest with
    | nil => simp at h2
    | cons g fs => cases body <;> simp [hst, appendTop]

/-- a summarised operation raises the lexical error or succeeds -/
theorem execS_ok (env : Env) (ss : S) (smk : Nat) (s : Summary) (m : Mem) (hne : m.stack ≠ []) (hg : popGuarded s = true) :
    execS env ss smk s m = .error .lexical ∨
      ∃ m', execS env ss smk s m = .ok (m', s.ret) ∧ m'.stack ≠ [] ∧ m'.status = s.st.resolve ss m.status := by
  unfold execS
  by_cases hb : s.blocked m = true
  · simp [hb]
  · by_cases hr : s.raises = true
    · simp [hr]
    · right
      simp only [hb, hr, Bool.false_eq_true, if_false]
      apply execCore_ok env ss smk s.adv s.body s.grp s.st s.ret m hne
      intro k mk hk
      unfold popGuarded at hg
      rw [hk] at hg
      unfold Summary.blocked at hb
      cases hd : s.depthGuard with
      | none => simp [hd] at hg
      | some j =>
        simp only [hd, decide_eq_true_eq] at hg hb
        omega

/-! ### one symbol -/

theorem lookup_ch_cases (cfg : Cfg Cls) (s : S) (c : Char) :
    (∃ e ∈ cfg.rows s, cfg.lookup s (.ch c) = some e.2) ∨ cfg.lookup s (.ch c) = cfg.dflt s := by
  unfold Cfg.lookup
  simp only
  cases hf : (cfg.rows s).find? (fun e => e.1 == c.toNat) with
  | none => right; rfl
  | some e => left; exact ⟨e, List.mem_of_find?_eq_some hf, rfl⟩

theorem noPyOK_wait {cfg : Cfg Cls} (h : NoPyOK cfg = true) : live cfg .WAIT = true := by
  unfold NoPyOK at h; simp only [Bool.and_eq_true] at h; exact h.1

theorem noPyOK_state {cfg : Cfg Cls} (h : NoPyOK cfg = true) (s : S) (hl : live cfg s = true) :
    (∀ e ∈ cfg.rows s, cellNoPy cfg s e.2 true = true) ∧
    (∃ o, cfg.dflt s = some o ∧ cellNoPy cfg s o true = true) ∧
    (∃ o, cfg.atEnd s = some o ∧ cellNoPy cfg s o false = true) := by
  unfold NoPyOK at h
  simp only [Bool.and_eq_true, List.all_eq_true] at h
  have hs := h.2 s (mem_allS s)
  simp only [hl, Bool.not_true, Bool.false_or, Bool.and_eq_true, List.all_eq_true] at hs
  refine ⟨hs.1.1, ?_, ?_⟩
  · cases hd : cfg.dflt s with
    | none => simp [hd] at hs
    | some o => exact ⟨o, rfl, by simpa [hd] using hs.1.2⟩
  · cases hd : cfg.atEnd s with
    | none => simp [hd] at hs
    | some o => exact ⟨o, rfl, by simpa [hd] using hs.2⟩

/-- what a cell that satisfies `cellNoPy` does -/
theorem cell_ok (cfg : Cfg Cls) (text : List Char) (m : Mem) (sym : Sym) (o : OpRef Cls) (needLive : Bool)
    (hl : cfg.lookup m.status sym = some o) (hc : cellNoPy cfg m.status o needLive = true) (hne : m.stack ≠ []) :
    handle cfg text m sym = .error .lexical ∨
      ∃ m' b, handle cfg text m sym = .ok (m', b) ∧ m'.stack ≠ [] ∧ (needLive = true → live cfg m'.status = true) := by
  unfold handle
  simp only [hl]
  unfold cellNoPy at hc
  cases hs : summarize (cfg.code o.cls) with
  | none => simp [hs] at hc
  | some sm =>
    simp only [hs, Bool.or_eq_true, Bool.and_eq_true] at hc
    rw [exec_summarize (cfg.env text) o.status o.marks sym _ sm hs m]
    rcases hc with hr | ⟨hg, hlive⟩
    · left; unfold execS; by_cases hb : sm.blocked m = true <;> simp [hb, hr]
    · rcases execS_ok (cfg.env text) o.status o.marks sm m hne hg with he | ⟨m', he, hne', hst⟩
      · exact .inl he
      · refine .inr ⟨m', sm.ret, he, hne', ?_⟩
        intro hn
        subst hn
        rw [hst]; simpa [nextSt] using hlive

theorem handle_ch_ok {cfg : Cfg Cls} (h : NoPyOK cfg = true) (text : List Char) (m : Mem) (c : Char)
    (hl : live cfg m.status = true) (hne : m.stack ≠ []) :
    handle cfg text m (.ch c) = .error .lexical ∨
      ∃ m' b, handle cfg text m (.ch c) = .ok (m', b) ∧ m'.stack ≠ [] ∧ live cfg m'.status = true := by
  obtain ⟨hrows, ⟨od, hd, hdc⟩, _⟩ := noPyOK_state h m.status hl
  have : ∃ o, cfg.lookup m.status (.ch c) = some o ∧ cellNoPy cfg m.status o true = true := by
    rcases lookup_ch_cases cfg m.status c with ⟨e, he, hlk⟩ | hlk
    · exact ⟨e.2, hlk, hrows e he⟩
    · exact ⟨od, by rw [hlk, hd], hdc⟩
  obtain ⟨o, hlk, hc⟩ := this
  rcases cell_ok cfg text m (.ch c) o true hlk hc hne with he | ⟨m', b, he, hne', hlv⟩
  · exact .inl he
  · exact .inr ⟨m', b, he, hne', hlv rfl⟩

theorem handle_eof_ok {cfg : Cfg Cls} (h : NoPyOK cfg = true) (text : List Char) (m : Mem)
    (hl : live cfg m.status = true) (hne : m.stack ≠ []) :
    handle cfg text m .eof = .error .lexical ∨ ∃ m' b, handle cfg text m .eof = .ok (m', b) ∧ m'.stack ≠ [] := by
  obtain ⟨_, _, ⟨oe, he, hec⟩⟩ := noPyOK_state h m.status hl
  rcases cell_ok cfg text m .eof oe false (by simp [Cfg.lookup, he]) hec hne with hx | ⟨m', b, hx, hne', _⟩
  · exact .inl hx
  · exact .inr ⟨m', b, hx, hne'⟩

/-! ### the driver -/

theorem feed_ok {cfg : Cfg Cls} (h : NoPyOK cfg = true) (text : List Char) (m : Mem) (c : Char)
    (hl : live cfg m.status = true) (hne : m.stack ≠ []) :
    feedWith (handle cfg text) m c = .error .lexical ∨
      ∃ m', feedWith (handle cfg text) m c = .ok m' ∧ m'.stack ≠ [] ∧ live cfg m'.status = true := by
  unfold feedWith
  rcases handle_ch_ok h text m c hl hne with he | ⟨m1, b, he, hne1, hl1⟩
  · simp [he]
  · cases b with
    | true => exact .inr ⟨m1, by simp [he], hne1, hl1⟩
    | false =>
      simp only [he]
      rcases handle_ch_ok h text m1 c hl1 hne1 with he2 | ⟨m2, b2, he2, hne2, hl2⟩
      · simp [he2]
      · exact .inr ⟨m2, by simp [he2], hne2, hl2⟩

theorem feedAll_ok {cfg : Cfg Cls} (h : NoPyOK cfg = true) (text : List Char) (cs : List Char) (m : Mem)
    (hl : live cfg m.status = true) (hne : m.stack ≠ []) :
    feedAllWith (handle cfg text) cs m = .error .lexical ∨
      ∃ m', feedAllWith (handle cfg text) cs m = .ok m' ∧ m'.stack ≠ [] ∧ live cfg m'.status = true := by
  induction cs generalizing m with
  | nil => exact .inr ⟨m, rfl, hne, hl⟩
  | cons c cs ih =>
    unfold feedAllWith
    rcases feed_ok h text m c hl hne with he | ⟨m', he, hne', hl'⟩
    · simp [he]
    · simp only [he]; exact ih m' hl' hne'

theorem finish_ok (cfg : Cfg Cls) (m : Mem) (hne : m.stack ≠ []) :
    finish cfg m = .error .lexical ∨ ∃ ts, finish cfg m = .ok ts := by
  unfold finish
  split
  · exact .inl rfl
  · split
    · exact .inl rfl
    · cases hg : m.stack.getLast? with
      | none => exact absurd (List.getLast?_eq_none_iff.mp hg) hne
      | some f => exact .inr ⟨f, rfl⟩

end NoPy
open NoPy
variable {Cls : Type}

/-- **The lexer fails closed**: for a table that satisfies `NoPyOK`, `FSMMachine.parse` returns a token list or raises the
library's lexical error — no `KeyError`, `IndexError`, `UnboundLocalError`, on any text. -/
theorem lex_ok_or_lexical {cfg : Cfg Cls} (h : NoPyOK cfg = true) (raw : List Char) :
    (∃ ts, lex cfg raw = .ok ts) ∨ lex cfg raw = .error .lexical := by
  unfold lex lexWith
  simp only
  rcases feedAll_ok h (cfg.pre raw) (cfg.pre raw) {} (noPyOK_wait h) (by simp) with he | ⟨m, he, hne, hl⟩
  · right; simp [he]
  · simp only [he]
    rcases handle_eof_ok h (cfg.pre raw) m hl hne with hx | ⟨m', b, hx, hne'⟩
    · right; simp [hx]
    · simp only [hx]
      rcases finish_ok cfg m' hne' with hf | ⟨ts, hf⟩
      · exact .inr hf
      · exact .inl ⟨ts, hf⟩

theorem lex_error_lexical {cfg : Cfg Cls} (h : NoPyOK cfg = true) (raw : List Char) (x : Err) (hx : lex cfg raw = .error x) :
    x = .lexical := by
  rcases lex_ok_or_lexical h raw with ⟨ts, ht⟩ | he
  · rw [ht] at hx; cases hx
  · rw [he] at hx; cases hx; rfl

end Lex
