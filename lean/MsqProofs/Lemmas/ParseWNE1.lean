import MsqProofs.Lemmas.ParseWNDefs
/-!
# C02 — `parse_derives`, fuel step, part 1: the logical layers, the comparison layer, the compute loop, the prefix operators
-/
set_option linter.unusedVariables false
open Lex
namespace WNG
open PM Ast
variable {d : Gen.D} {n : Nat}

theorem re_ret {L : Nat} {pre ts : List Tok} {acc v : Expr} {r : List Tok} (hacc : Derives d L pre acc)
    (h : (Except.ok (acc, ts) : R Expr) = .ok (v, r)) : ∃ u, ts = u ++ r ∧ Derives d L (pre ++ u) v := by
  simp only [Except.ok.injEq, Prod.mk.injEq] at h
  obtain ⟨rfl, rfl⟩ := h
  exact ⟨[], by simp, by simpa using hacc⟩

/-! ### OR -/
theorem wf_pOrLoop (ih : WF d n) : ∀ acc pre ts, Derives d 14 pre acc → RE d 14 pre ts (pOrLoop d (n+1) acc ts) := by
  intro acc pre ts hacc v r h
  unfold pOrLoop at h
  split at h
  · rename_i t r0
    split at h
    · rename_i hc
      split at h
      · rename_i e r2 h1
        obtain ⟨u1, rfl, hd1⟩ := ih.pXor r0 e r2 h1
        have hnew : Derives d 14 (pre ++ t :: ([] ++ u1)) (.or_ acc e) := Derives.or_ hacc hc hd1
        obtain ⟨u2, rfl, hd2⟩ := ih.pOrLoop _ _ r2 hnew v r h
        exact ⟨t :: u1 ++ u2, by simp, by simpa using hd2⟩
      · cases h
    · exact re_ret hacc h
  · exact re_ret hacc h

theorem wf_pOr (ih : WF d n) : ∀ ts, RE d 14 [] ts (pOr d (n+1) ts) := by
  intro ts v r h
  unfold pOr at h
  split at h
  · rename_i e r1 h1
    obtain ⟨u1, rfl, hd1⟩ := ih.pXor ts e r1 h1
    obtain ⟨u2, rfl, hd2⟩ := ih.pOrLoop e _ r1 (hd1.up (by omega)) v r h
    exact ⟨u1 ++ u2, by simp, by simpa using hd2⟩
  · cases h

/-! ### XOR -/
theorem wf_pXorLoop (ih : WF d n) : ∀ acc pre ts, Derives d 13 pre acc → RE d 13 pre ts (pXorLoop d (n+1) acc ts) := by
  intro acc pre ts hacc v r h
  unfold pXorLoop at h
  split at h
  · rename_i hc
    cases ts with
    | nil => simp [searchStrUp] at hc
    | cons t r0 =>
      simp only [searchStrUp] at hc
      simp only [List.drop_one, List.tail_cons] at h
      split at h
      · rename_i e r2 h1
        obtain ⟨u1, rfl, hd1⟩ := ih.pAnd r0 e r2 h1
        have hnew : Derives d 13 (pre ++ t :: ([] ++ u1)) (.xor acc e) := Derives.xor hacc hc hd1
        obtain ⟨u2, rfl, hd2⟩ := ih.pXorLoop _ _ r2 hnew v r h
        exact ⟨t :: u1 ++ u2, by simp, by simpa using hd2⟩
      · cases h
  · exact re_ret hacc h

theorem wf_pXor (ih : WF d n) : ∀ ts, RE d 13 [] ts (pXor d (n+1) ts) := by
  intro ts v r h
  unfold pXor at h
  split at h
  · rename_i e r1 h1
    obtain ⟨u1, rfl, hd1⟩ := ih.pAnd ts e r1 h1
    obtain ⟨u2, rfl, hd2⟩ := ih.pXorLoop e _ r1 (hd1.up (by omega)) v r h
    exact ⟨u1 ++ u2, by simp, by simpa using hd2⟩
  · cases h

/-! ### AND -/
theorem wf_pAndLoop (ih : WF d n) : ∀ acc pre ts, Derives d 12 pre acc → RE d 12 pre ts (pAndLoop d (n+1) acc ts) := by
  intro acc pre ts hacc v r h
  unfold pAndLoop at h
  split at h
  · rename_i t r0
    split at h
    · rename_i hc
      split at h
      · rename_i e r2 h1
        obtain ⟨u1, rfl, hd1⟩ := ih.pNot r0 e r2 h1
        have hnew : Derives d 12 (pre ++ t :: ([] ++ u1)) (.and_ acc e) := Derives.and_ hacc hc hd1
        obtain ⟨u2, rfl, hd2⟩ := ih.pAndLoop _ _ r2 hnew v r h
        exact ⟨t :: u1 ++ u2, by simp, by simpa using hd2⟩
      · cases h
    · exact re_ret hacc h
  · exact re_ret hacc h

theorem wf_pAnd (ih : WF d n) : ∀ ts, RE d 12 [] ts (pAnd d (n+1) ts) := by
  intro ts v r h
  unfold pAnd at h
  split at h
  · rename_i e r1 h1
    obtain ⟨u1, rfl, hd1⟩ := ih.pNot ts e r1 h1
    obtain ⟨u2, rfl, hd2⟩ := ih.pAndLoop e _ r1 (hd1.up (by omega)) v r h
    exact ⟨u1 ++ u2, by simp, by simpa using hd2⟩
  · cases h

/-! ### NOT -/
theorem wf_pNot (ih : WF d n) : ∀ ts, RE d 11 [] ts (pNot d (n+1) ts) := by
  intro ts v r h
  unfold pNot at h
  split at h
  · rename_i t r0
    split at h
    · rename_i hc
      split at h
      · rename_i e r2 h1
        simp only [Except.ok.injEq, Prod.mk.injEq] at h
        obtain ⟨rfl, rfl⟩ := h
        obtain ⟨u1, rfl, hd1⟩ := ih.pNot r0 e r2 h1
        exact ⟨t :: u1, by simp, by simpa using Derives.not_ hc hd1⟩
      · cases h
    · obtain ⟨u, hu, hd⟩ := ih.pCompare _ v r h
      exact ⟨u, hu, hd.up (by omega)⟩
  · obtain ⟨u, hu, hd⟩ := ih.pCompare _ v r h
    exact ⟨u, hu, hd.up (by omega)⟩

/-! ### comparison operators -/
theorem wf_pCompareLoop (ih : WF d n) : ∀ acc pre ts, Derives d 10 pre acc → RE d 10 pre ts (pCompareLoop d (n+1) acc ts) := by
  intro acc pre ts hacc v r h
  unfold pCompareLoop at h
  split at h
  · rename_i t r0
    split at h
    · rename_i o ho
      split at h
      · rename_i e r2 h1
        obtain ⟨u1, rfl, hd1⟩ := ih.pKeyword none [] r0 rfl e r2 h1
        have hnew : Derives d 10 (pre ++ t :: ([] ++ u1)) (.compare o acc e) := Derives.compare hacc ho hd1
        obtain ⟨u2, rfl, hd2⟩ := ih.pCompareLoop _ _ r2 hnew v r h
        exact ⟨t :: u1 ++ u2, by simp, by simpa using hd2⟩
      · cases h
    · exact re_ret hacc h
  · exact re_ret hacc h

theorem wf_pCompare (ih : WF d n) : ∀ ts, RE d 10 [] ts (pCompare d (n+1) ts) := by
  intro ts v r h
  unfold pCompare at h
  split at h
  · rename_i e r1 h1
    obtain ⟨u1, rfl, hd1⟩ := ih.pKeyword none [] ts rfl e r1 h1
    obtain ⟨u2, rfl, hd2⟩ := ih.pCompareLoop e _ r1 (hd1.up (by omega)) v r h
    exact ⟨u1 ++ u2, by simp, by simpa using hd2⟩
  · cases h

/-! ### the compute loop -/
theorem wf_pComputeLoop (ih : WF d n) : ∀ st top ts pre tt b, StackD d st pre b → Derives d 1 tt top →
    RE d 8 (pre ++ tt) ts (pComputeLoop d (n+1) st top ts) := by
  intro st top ts pre tt b hs ht v r h
  have hb := hs.two_le
  have hstop : ∀ ts', (Except.ok (PM.collapse st top, ts') : R Expr) = .ok (v, r) →
      ∃ u, ts' = u ++ r ∧ Derives d 8 (pre ++ tt ++ u) v := by
    intro ts' h
    simp only [Except.ok.injEq, Prod.mk.injEq] at h
    obtain ⟨rfl, rfl⟩ := h
    exact ⟨[], by simp, by simpa using collapse_derives hs ht (by omega)⟩
  unfold pComputeLoop at h
  split at h
  · rename_i t r0
    split at h
    · rename_i o k ho
      have hk := computeOp_level ho
      obtain ⟨pre', tt', b', m', h1, h2, h3, h4, h5, h6⟩ := reduceWhile_derives k hk.2 hs ht (by omega)
      cases hrw : PM.reduceWhile k st top with
      | mk st' top' =>
        rw [hrw] at h h1 h2
        simp only at h h1 h2
        split at h
        · rename_i e r2 hu
          obtain ⟨u1, rfl, hd1⟩ := ih.pUnary r0 e r2 hu
          have hnew : StackD d ((top', o, k) :: st') (pre' ++ tt' ++ [t]) k :=
            .cons h1 h5 (h2.up (by omega)) ho
          obtain ⟨u2, rfl, hd2⟩ := ih.pComputeLoop _ _ r2 _ _ _ hnew hd1 v r h
          refine ⟨t :: u1 ++ u2, by simp, ?_⟩
          rw [← h4]
          simpa using hd2
        · cases h
    · exact hstop _ h
  · exact hstop _ h

theorem wf_pCompute (ih : WF d n) : ∀ ts, RE d 8 [] ts (pCompute d (n+1) ts) := by
  intro ts v r h
  unfold pCompute at h
  split at h
  · rename_i e r1 h1
    obtain ⟨u1, rfl, hd1⟩ := ih.pUnary ts e r1 h1
    obtain ⟨u2, rfl, hd2⟩ := ih.pComputeLoop [] e r1 [] _ 9 .nil hd1 v r h
    exact ⟨u1 ++ u2, by simp, by simpa using hd2⟩
  · cases h

/-! ### prefix operators -/
theorem wf_pUnary (ih : WF d n) : ∀ ts, RE d 1 [] ts (pUnary d (n+1) ts) := by
  intro ts v r h
  unfold pUnary at h
  split at h
  · rename_i t r0
    split at h
    · rename_i hc
      split at h
      · cases h
      · rename_i o k ho
        split at h
        · rename_i e r2 h1
          simp only [Except.ok.injEq, Prod.mk.injEq] at h
          obtain ⟨rfl, rfl⟩ := h
          obtain ⟨u1, rfl, hd1⟩ := ih.pUnary r0 e r2 h1
          exact ⟨t :: u1, by simp, by simpa using Derives.unary hc ho hd1⟩
        · cases h
    · obtain ⟨u, hu, hd⟩ := ih.pElement _ v r h
      exact ⟨u, hu, hd.up (by omega)⟩
  · obtain ⟨u, hu, hd⟩ := ih.pElement _ v r h
    exact ⟨u, hu, hd.up (by omega)⟩

end WNG
