import MsqModel.Parse.Stmt
/-!
# Frame lemmas for the cursor primitives (hand-written part of C10)

`IsSemi t` — "`t` is a separator token": a leaf whose source is `;` and which carries none of the four marks the
parser ever tests (`NAME`, `PARENTHESIS`, `LITERAL`, `ARRAY_INDEX`).  The lexer emits `;` as `Tok.single [';'] 0`
(`isSemi_lexed`; `#guard` on a lexed text at the end of `MsqProofs/Props/C10.lean`).

For a cursor `ts` and a continuation `X = semi :: Y` with `IsSemi semi` (`Y` arbitrary) every primitive of
`MsqModel/Parse/Prim.lean` answers on `ts ++ X` what it answers on `ts`, with `++ X` on the remaining tokens:

* look-aheads (`search*`, `move*`, `firstEnum`, `startsSelect`, `headIsOver`, `setOpHead`, `joinHead`, `onUsingHead`,
  `chainsOn`, `skipNot`): `p (ts ++ X) = p ts` — when the look-ahead stays inside `ts` because the tokens are the same,
  when it reads past the end of `ts` because it meets `;` where it met the end of the list, PROVIDED the keyword(s) it
  compares with are not `;` (hypotheses `k ≠ ";"` for raw / upper-cased source comparison, `up k ≠ ";"` for `equals`);
* consuming primitives (`pop`, `popSrc`, `popInt`, `popAsInt`, `matchKw`, `matchSeq`, `headChildren`, `popSplit`, …) fail at the
  end of the list, so only successful runs are framed: `p ts = ok (v, r) → p (ts ++ X) = ok (v, r ++ X)`, unconditionally;
* table look-ups on the source of the head (`computeOp?`, `compareOp?`, the NOT / unary sets): `;` is in none of the generated
  tables (`decide` on the tables, re-checked whenever the translator regenerates them).

The three tests of the model that compare with `;` itself — `defColLoop`, `createOpts` (stop at the end of the cursor OR at
`;`) and the optional skip after a statement (`moveStr r ";"` in `statementsLoop` and at the end of `pCreateTable`) — are
treated where they occur (`MsqProofs/Lemmas/ParseFrameStmt.lean`, `MsqProofs/Props/C10.lean`).
-/
set_option linter.unusedSimpArgs false
set_option linter.unusedSectionVars false
open Lex
namespace PM

/-- a separator token: leaf `;` without `NAME` / `PARENTHESIS` / `LITERAL` / `ARRAY_INDEX` mark -/
structure IsSemi (t : Tok) : Prop where
  shape : ∃ m, t = Tok.single [';'] m
  name : t.has NAME = false
  paren : t.has PAREN = false
  literal : t.has LITERAL = false
  array : t.has ARRAY = false

/-- what the shipped lexer emits for `;` -/
theorem isSemi_lexed : IsSemi (Tok.single [';'] 0) := ⟨⟨0, rfl⟩, by decide, by decide, by decide, by decide⟩

theorem up_semi : up ";" = ";" := by decide

section
variable {semi : Tok} (hs : IsSemi semi)
include hs

theorem IsSemi.src : semi.src = ";" := by
  obtain ⟨m, rfl⟩ := hs.shape; rfl
theorem IsSemi.upSrc : up semi.src = ";" := by rw [hs.src]; exact up_semi
theorem IsSemi.children : semi.children = [] := by
  obtain ⟨m, rfl⟩ := hs.shape; rfl
theorem IsSemi.srcEq (k : String) (hk : k ≠ ";") : semi.srcEq k = false := by
  simp [Tok.srcEq, hs.src, Ne.symm hk]
theorem IsSemi.srcEq_semi : semi.srcEq ";" = true := by
  simp [Tok.srcEq, hs.src]
theorem IsSemi.srcEqUp (k : String) (hk : k ≠ ";") : semi.srcEqUp k = false := by
  simp [Tok.srcEqUp, hs.upSrc, Ne.symm hk]
grind_pattern IsSemi.srcEq => IsSemi semi, semi.srcEq k
grind_pattern IsSemi.srcEqUp => IsSemi semi, semi.srcEqUp k
theorem IsSemi.equalsStr (k : String) (hk : up k ≠ ";") : semi.equalsStr k = false := by
  obtain ⟨m, rfl⟩ := hs.shape
  have : up (String.ofList [';']) = ";" := up_semi
  simp [Tok.equalsStr, this, Ne.symm hk]

end

/-! ### `;` is in none of the generated look-up tables -/
theorem computeOp_semi : computeOp? ";" = none := by decide
theorem compareOp_semi : compareOp? ";" = none := by decide
theorem notSet_semi (d : Gen.D) : (Gen.notSet d).contains ";" = false := by cases d <;> decide
theorem unarySet_semi (d : Gen.D) : (Gen.unarySet d).contains ";" = false := by cases d <;> decide
theorem compareSet_semi : Gen.compareSet.contains ";" = false := by decide

/-- no keyword of the sequence upper-cases to `;` (`equals` compares upper-cased sources) -/
def kwsNoSemi (ks : List String) : Bool := ks.all fun k => up k != ";"
/-- no keyword of an enum table upper-cases to `;` -/
def tableNoSemi (tbl : List (String × List String)) : Bool := tbl.all fun e => kwsNoSemi e.2
theorem joinTypes_noSemi : tableNoSemi Gen.joinTypes = true := by decide
theorem unionTypes_noSemi : tableNoSemi Gen.unionTypes = true := by decide

section
variable {semi : Tok} (hs : IsSemi semi) (Y : List Tok)
include hs

/-! ### look-aheads -/
theorem searchStrUp_frame (ts : List Tok) (k : String) (hk : k ≠ ";") : searchStrUp (ts ++ semi :: Y) k = searchStrUp ts k := by
  cases ts <;> simp [searchStrUp, hs.srcEqUp k hk]
grind_pattern searchStrUp_frame => searchStrUp (ts ++ semi :: Y) k
theorem searchStr_frame (ts : List Tok) (k : String) (hk : k ≠ ";") : searchStr (ts ++ semi :: Y) k = searchStr ts k := by
  cases ts <;> simp [searchStr, hs.srcEq k hk]
grind_pattern searchStr_frame => searchStr (ts ++ semi :: Y) k
/-- the look-ahead for the separator itself: at the end of `ts` it now answers `true` -/
theorem searchStr_semi (ts : List Tok) : searchStr (ts ++ semi :: Y) ";" = (ts.isEmpty || searchStr ts ";") := by
  cases ts <;> simp [searchStr, hs.srcEq_semi]
grind_pattern searchStr_semi => searchStr (ts ++ semi :: Y) ";"
theorem searchMark_frame (ts : List Tok) (m : Nat) (hm : semi.has m = false) : searchMark (ts ++ semi :: Y) m = searchMark ts m := by
  cases ts <;> simp [searchMark, hm]
grind_pattern searchMark_frame => searchMark (ts ++ semi :: Y) m
theorem searchMark_paren (ts : List Tok) : searchMark (ts ++ semi :: Y) PAREN = searchMark ts PAREN := searchMark_frame hs Y ts _ hs.paren
theorem searchSet_frame (ts : List Tok) (ks : List String) (hk : ks.contains ";" = false) : searchSet (ts ++ semi :: Y) ks = searchSet ts ks := by
  cases ts <;> simp [searchSet, hs.src] <;> simpa using hk
grind_pattern searchSet_frame => searchSet (ts ++ semi :: Y) ks
theorem searchSetUp_frame (ts : List Tok) (ks : List String) (hk : ks.contains ";" = false) : searchSetUp (ts ++ semi :: Y) ks = searchSetUp ts ks := by
  cases ts <;> simp [searchSetUp, hs.upSrc] <;> simpa using hk
grind_pattern searchSetUp_frame => searchSetUp (ts ++ semi :: Y) ks
theorem searchTwoUp_frame (ts : List Tok) (a b : String) (ha : a ≠ ";") (hb : b ≠ ";") :
    searchTwoUp (ts ++ semi :: Y) a b = searchTwoUp ts a b := by
  rcases ts with _ | ⟨x, _ | ⟨y, r⟩⟩ <;> simp [searchTwoUp, hs.srcEqUp a ha, hs.srcEqUp b hb]
  cases Y <;> simp [searchTwoUp, hs.srcEqUp a ha]
grind_pattern searchTwoUp_frame => searchTwoUp (ts ++ semi :: Y) a b
theorem searchThreeUp_frame (ts : List Tok) (a b c : String) (ha : a ≠ ";") (hb : b ≠ ";") (hc : c ≠ ";") :
    searchThreeUp (ts ++ semi :: Y) a b c = searchThreeUp ts a b c := by
  rcases ts with _ | ⟨x, _ | ⟨y, _ | ⟨z, r⟩⟩⟩ <;> simp [searchThreeUp, hs.srcEqUp a ha, hs.srcEqUp b hb, hs.srcEqUp c hc]
  · rcases Y with _ | ⟨y1, _ | ⟨y2, Y⟩⟩ <;> simp [searchThreeUp, hs.srcEqUp a ha]
  · cases Y <;> simp [searchThreeUp, hs.srcEqUp b hb]
grind_pattern searchThreeUp_frame => searchThreeUp (ts ++ semi :: Y) a b c
theorem searchSeq_frame (ts : List Tok) (ks : List String) (hk : kwsNoSemi ks = true) :
    searchSeq (ts ++ semi :: Y) ks = searchSeq ts ks := by
  induction ks generalizing ts with
  | nil => simp [searchSeq]
  | cons k ks ih =>
    simp only [kwsNoSemi, List.all_cons, Bool.and_eq_true, bne_iff_ne, ne_eq] at hk
    cases ts with
    | nil => simp [searchSeq, hs.equalsStr k hk.1]
    | cons t ts => simp [searchSeq, ih ts hk.2]
grind_pattern searchSeq_frame => searchSeq (ts ++ semi :: Y) ks
theorem firstEnum_frame (tbl : List (String × List String)) (ht : tableNoSemi tbl = true) (ts : List Tok) :
    firstEnum tbl (ts ++ semi :: Y) = (firstEnum tbl ts).map fun p => (p.1, p.2 ++ semi :: Y) := by
  induction tbl with
  | nil => simp [firstEnum]
  | cons e tbl ih =>
    obtain ⟨n, ks⟩ := e
    simp only [tableNoSemi, List.all_cons, Bool.and_eq_true] at ht
    have ih' := ih (by simpa [tableNoSemi] using ht.2)
    simp only [firstEnum, searchSeq_frame hs Y ts ks ht.1, ih']
    split
    · rename_i h
      have hl : ks.length ≤ ts.length := by
        clear ih ih' ht
        induction ks generalizing ts with
        | nil => simp
        | cons k ks ih2 => cases ts with
          | nil => simp [searchSeq] at h
          | cons t ts => simp only [searchSeq, Bool.and_eq_true] at h; simpa using ih2 ts h.2
      simp [List.drop_append_of_le_length hl]
    · rfl
grind_pattern firstEnum_frame => firstEnum tbl (ts ++ semi :: Y)
theorem startsSelect_frame (ts : List Tok) : startsSelect (ts ++ semi :: Y) = startsSelect ts :=
  searchSetUp_frame hs Y ts _ (by decide)
grind_pattern startsSelect_frame => startsSelect (ts ++ semi :: Y)
theorem headIsOver_frame (ts : List Tok) : headIsOver (ts ++ semi :: Y) = headIsOver ts := by
  cases ts <;> simp [headIsOver, hs.srcEqUp "OVER" (by decide)]
grind_pattern headIsOver_frame => headIsOver (ts ++ semi :: Y)
theorem setOpHead_frame (ts : List Tok) : setOpHead (ts ++ semi :: Y) = setOpHead ts := by
  cases ts <;> simp [setOpHead, hs.upSrc]
grind_pattern setOpHead_frame => setOpHead (ts ++ semi :: Y)
theorem joinHead_frame (ts : List Tok) : joinHead (ts ++ semi :: Y) = joinHead ts := by
  cases ts <;> simp [joinHead, hs.upSrc]
grind_pattern joinHead_frame => joinHead (ts ++ semi :: Y)
theorem onUsingHead_frame (ts : List Tok) : onUsingHead (ts ++ semi :: Y) = onUsingHead ts := by
  cases ts <;> simp [onUsingHead, hs.upSrc]
grind_pattern onUsingHead_frame => onUsingHead (ts ++ semi :: Y)
theorem chainsOn_frame (ts : List Tok) : chainsOn (ts ++ semi :: Y) = chainsOn ts := by
  cases ts <;> simp [chainsOn, hs.upSrc]
grind_pattern chainsOn_frame => chainsOn (ts ++ semi :: Y)
theorem skipNot_frame (d : Gen.D) (ts : List Tok) : skipNot d (ts ++ semi :: Y) = ((skipNot d ts).1, (skipNot d ts).2 ++ semi :: Y) := by
  cases ts with
  | nil => have := notSet_semi d; simp only [List.contains_eq_mem, decide_eq_false_iff_not] at this; simp [skipNot, hs.upSrc, this]
  | cons t r => simp only [skipNot, List.cons_append]; split <;> rfl

grind_pattern skipNot_frame => skipNot d (ts ++ semi :: Y)
/-! ### what a successful look-ahead says about the length of the cursor (for `drop`) -/
omit hs in
theorem drop_frame (ts X : List Tok) (n : Nat) (h : n ≤ ts.length) : (ts ++ X).drop n = ts.drop n ++ X :=
  List.drop_append_of_le_length h
grind_pattern drop_frame => List.drop n (ts ++ X)
omit hs in
theorem searchStrUp_len {ts : List Tok} {k : String} (h : searchStrUp ts k = true) : 1 ≤ ts.length := by
  cases ts <;> simp [searchStrUp] at h ⊢
grind_pattern searchStrUp_len => searchStrUp ts k
omit hs in
theorem searchStr_len {ts : List Tok} {k : String} (h : searchStr ts k = true) : 1 ≤ ts.length := by
  cases ts <;> simp [searchStr] at h ⊢
grind_pattern searchStr_len => searchStr ts k
omit hs in
theorem searchMark_len {ts : List Tok} {m : Nat} (h : searchMark ts m = true) : 1 ≤ ts.length := by
  cases ts <;> simp [searchMark] at h ⊢
grind_pattern searchMark_len => searchMark ts m
omit hs in
theorem searchSet_len {ts : List Tok} {ks : List String} (h : searchSet ts ks = true) : 1 ≤ ts.length := by
  cases ts <;> simp [searchSet] at h ⊢
grind_pattern searchSet_len => searchSet ts ks
omit hs in
theorem searchSetUp_len {ts : List Tok} {ks : List String} (h : searchSetUp ts ks = true) : 1 ≤ ts.length := by
  cases ts <;> simp [searchSetUp] at h ⊢
grind_pattern searchSetUp_len => searchSetUp ts ks
omit hs in
theorem searchTwoUp_len {ts : List Tok} {a b : String} (h : searchTwoUp ts a b = true) : 2 ≤ ts.length := by
  rcases ts with _ | ⟨x, _ | ⟨y, r⟩⟩ <;> simp [searchTwoUp] at h ⊢
grind_pattern searchTwoUp_len => searchTwoUp ts a b
omit hs in
theorem searchThreeUp_len {ts : List Tok} {a b c : String} (h : searchThreeUp ts a b c = true) : 3 ≤ ts.length := by
  rcases ts with _ | ⟨x, _ | ⟨y, _ | ⟨z, r⟩⟩⟩ <;> simp [searchThreeUp] at h ⊢
grind_pattern searchThreeUp_len => searchThreeUp ts a b c
omit hs in
theorem searchSeq_len {ts : List Tok} {ks : List String} (h : searchSeq ts ks = true) : ks.length ≤ ts.length := by
  induction ks generalizing ts with
  | nil => simp
  | cons k ks ih => cases ts with
    | nil => simp [searchSeq] at h
    | cons t ts => simp only [searchSeq, Bool.and_eq_true] at h; simpa using ih h.2

grind_pattern searchSeq_len => searchSeq ts ks
/-! ### the `search_and_move` forms -/
theorem moveStrUp_frame (ts : List Tok) (k : String) (hk : k ≠ ";") :
    moveStrUp (ts ++ semi :: Y) k = ((moveStrUp ts k).1, (moveStrUp ts k).2 ++ semi :: Y) := by
  simp only [moveStrUp, searchStrUp_frame hs Y ts k hk]
  split
  · rename_i h; simp [drop_frame _ _ _ (searchStrUp_len h)]
  · rfl
grind_pattern moveStrUp_frame => moveStrUp (ts ++ semi :: Y) k
theorem moveStr_frame (ts : List Tok) (k : String) (hk : k ≠ ";") :
    moveStr (ts ++ semi :: Y) k = ((moveStr ts k).1, (moveStr ts k).2 ++ semi :: Y) := by
  simp only [moveStr, searchStr_frame hs Y ts k hk]
  split
  · rename_i h; simp [drop_frame _ _ _ (searchStr_len h)]
  · rfl
grind_pattern moveStr_frame => moveStr (ts ++ semi :: Y) k
theorem moveSetUp_frame (ts : List Tok) (ks : List String) (hk : ks.contains ";" = false) :
    moveSetUp (ts ++ semi :: Y) ks = ((moveSetUp ts ks).1, (moveSetUp ts ks).2 ++ semi :: Y) := by
  simp only [moveSetUp, searchSetUp_frame hs Y ts ks hk]
  split
  · rename_i h; simp [drop_frame _ _ _ (searchSetUp_len h)]
  · rfl
grind_pattern moveSetUp_frame => moveSetUp (ts ++ semi :: Y) ks
theorem moveSeq_frame (ts : List Tok) (ks : List String) (hk : kwsNoSemi ks = true) :
    moveSeq (ts ++ semi :: Y) ks = ((moveSeq ts ks).1, (moveSeq ts ks).2 ++ semi :: Y) := by
  simp only [moveSeq, searchSeq_frame hs Y ts ks hk]
  split
  · rename_i h; simp [drop_frame _ _ _ (searchSeq_len h)]
  · rfl
grind_pattern moveSeq_frame => moveSeq (ts ++ semi :: Y) ks
theorem moveTwoUp_frame (ts : List Tok) (a b : String) (ha : a ≠ ";") (hb : b ≠ ";") :
    moveTwoUp (ts ++ semi :: Y) a b = ((moveTwoUp ts a b).1, (moveTwoUp ts a b).2 ++ semi :: Y) := by
  simp only [moveTwoUp, searchTwoUp_frame hs Y ts a b ha hb]
  split
  · rename_i h; simp [drop_frame _ _ _ (searchTwoUp_len h)]
  · rfl
grind_pattern moveTwoUp_frame => moveTwoUp (ts ++ semi :: Y) a b
theorem moveThreeUp_frame (ts : List Tok) (a b c : String) (ha : a ≠ ";") (hb : b ≠ ";") (hc : c ≠ ";") :
    moveThreeUp (ts ++ semi :: Y) a b c = ((moveThreeUp ts a b c).1, (moveThreeUp ts a b c).2 ++ semi :: Y) := by
  simp only [moveThreeUp, searchThreeUp_frame hs Y ts a b c ha hb hc]
  split
  · rename_i h; simp [drop_frame _ _ _ (searchThreeUp_len h)]
  · rfl
grind_pattern moveThreeUp_frame => moveThreeUp (ts ++ semi :: Y) a b c
/-- the optional skip of the separator itself: at the end of `ts` it now consumes the appended `;` -/
theorem moveStr_semi (ts : List Tok) :
    moveStr (ts ++ semi :: Y) ";" = if ts = [] then (true, Y) else ((moveStr ts ";").1, (moveStr ts ";").2 ++ semi :: Y) := by
  cases ts with
  | nil => simp [moveStr, searchStr, hs.srcEq_semi]
  | cons t r => simp only [moveStr, searchStr, List.cons_append]; by_cases hq : t.srcEq ";" = true <;> simp [hq]
grind_pattern moveStr_semi => moveStr (ts ++ semi :: Y) ";"
omit hs in
theorem moveStr_nil (k : String) : moveStr [] k = (false, []) := rfl
grind_pattern moveStr_nil => moveStr [] k
omit hs in
theorem isEmpty_frame (ts : List Tok) : (ts ++ semi :: Y).isEmpty = false := by cases ts <;> rfl
grind_pattern isEmpty_frame => (ts ++ semi :: Y).isEmpty

end

/-! ### the relations the frame lemmas are stated with

`FrameRel X a b`: if the run `a` (on `ts`) succeeds with `(v, r)` then the run `b` (on `ts ++ X`) succeeds with `(v, r ++ X)`.
`MonoRel a b`: if `a` succeeds then `b` succeeds with the same result (more fuel; a cursor that is not the framed one).
Stated as relations between the two runs so that `grind` instantiates an induction hypothesis exactly once per call
of the ORIGINAL run (`grind_pattern … => …, f d n ts`) and never on terms it creates itself. -/
def FrameRel {α : Type} (X : List Tok) (a b : R α) : Prop := ∀ v r, a = .ok (v, r) → b = .ok (v, r ++ X)
@[grind =] theorem frameRel_ok {α : Type} (X : List Tok) (v : α) (r : List Tok) (b : R α) :
    FrameRel X (.ok (v, r)) b = (b = .ok (v, r ++ X)) := by simp [FrameRel]
@[grind =] theorem frameRel_error {α : Type} (X : List Tok) (e : Err) (b : R α) : FrameRel X (.error e) b = True := by simp [FrameRel]
/-- the same for the three functions that return `Option (value × cursor)` -/
def FrameRelO {α : Type} (X : List Tok) (a b : Except Err (Option (α × List Tok))) : Prop :=
  (∀ v r, a = .ok (some (v, r)) → b = .ok (some (v, r ++ X))) ∧ (a = .ok none → b = .ok none)
@[grind =] theorem frameRelO_some {α : Type} (X : List Tok) (v : α) (r : List Tok) (b) :
    FrameRelO X (.ok (some (v, r))) b = (b = .ok (some (v, r ++ X))) := by simp [FrameRelO]
@[grind =] theorem frameRelO_none {α : Type} (X : List Tok) (b : Except Err (Option (α × List Tok))) :
    FrameRelO X (.ok none) b = (b = .ok none) := by simp [FrameRelO]
@[grind =] theorem frameRelO_error {α : Type} (X : List Tok) (e : Err) (b : Except Err (Option (α × List Tok))) :
    FrameRelO X (.error e) b = True := by simp [FrameRelO]
def MonoRel {α : Type} (a b : Except Err α) : Prop := ∀ r, a = .ok r → b = .ok r
@[grind =] theorem monoRel_ok {α : Type} (r : α) (b : Except Err α) : MonoRel (.ok r) b = (b = .ok r) := by simp [MonoRel]
@[grind =] theorem monoRel_error {α : Type} (e : Err) (b : Except Err α) : MonoRel (.error e) b = True := by simp [MonoRel]
theorem MonoRel.rfl {α : Type} (a : Except Err α) : MonoRel a a := fun _ h => h

/-- the continuation starts with a separator token -/
def SemiHead (X : List Tok) : Prop := ∃ semi Y, X = semi :: Y ∧ IsSemi semi
theorem SemiHead.mk' {semi : Tok} (hs : IsSemi semi) (Y : List Tok) : SemiHead (semi :: Y) := ⟨semi, Y, rfl, hs⟩

/-! ### consuming primitives: successful runs only, no side condition (`SemiHead X` only selects the `X` for `grind`) -/
section
variable {X : List Tok} (hX : SemiHead X)
include hX

theorem pop_frame (ts : List Tok) : FrameRel X (pop ts) (pop (ts ++ X)) := by
  intro v r h; cases ts <;> simp_all [pop]
grind_pattern pop_frame => SemiHead X, pop ts, pop (ts ++ X)
theorem popSrc_frame (ts : List Tok) : FrameRel X (popSrc ts) (popSrc (ts ++ X)) := by
  intro v r h; cases ts <;> simp_all [popSrc]
grind_pattern popSrc_frame => SemiHead X, popSrc ts, popSrc (ts ++ X)
theorem popInt_frame (ts : List Tok) : FrameRel X (popInt ts) (popInt (ts ++ X)) := by
  intro v r h
  cases ts with
  | nil => simp [popInt] at h
  | cons t ts => simp only [popInt, List.cons_append] at h ⊢; split at h <;> simp_all
grind_pattern popInt_frame => SemiHead X, popInt ts, popInt (ts ++ X)
theorem popAsInt_frame (ts : List Tok) : FrameRel X (popAsInt ts) (popAsInt (ts ++ X)) := by
  intro v r h
  cases ts with
  | nil => simp [popAsInt] at h
  | cons t ts => simp only [popAsInt, List.cons_append] at h ⊢; split at h <;> simp_all
grind_pattern popAsInt_frame => SemiHead X, popAsInt ts, popAsInt (ts ++ X)
theorem matchKw_frame (ts : List Tok) (k : String) : FrameRel X (matchKw ts k) (matchKw (ts ++ X) k) := by
  intro v r h
  cases ts with
  | nil => simp [matchKw] at h
  | cons t ts => simp only [matchKw, List.cons_append] at h ⊢; split at h <;> simp_all
grind_pattern matchKw_frame => SemiHead X, matchKw ts k, matchKw (ts ++ X) k
theorem matchSeq_frame (ts : List Tok) (ks : List String) : FrameRel X (matchSeq ts ks) (matchSeq (ts ++ X) ks) := by
  clear hX
  intro v r h
  induction ks generalizing ts with
  | nil => simp_all [matchSeq]
  | cons k ks ih => cases ts with
    | nil => simp [matchSeq] at h
    | cons t ts =>
      simp only [matchSeq, List.cons_append] at h ⊢
      split at h
      · rename_i hk; simp [hk, ih ts h]
      · simp at h
grind_pattern matchSeq_frame => SemiHead X, matchSeq ts ks, matchSeq (ts ++ X) ks
theorem headChildren_frame (ts : List Tok) : MonoRel (headChildren ts) (headChildren (ts ++ X)) := by
  intro v h; cases ts <;> simp_all [headChildren]
grind_pattern headChildren_frame => SemiHead X, headChildren ts, headChildren (ts ++ X)
theorem popSplit_frame (ts : List Tok) : FrameRel X (popSplit ts) (popSplit (ts ++ X)) := by
  intro v r h; cases ts <;> simp_all [popSplit]
grind_pattern popSplit_frame => SemiHead X, popSplit ts, popSplit (ts ++ X)
theorem getAliasName_frame (ts : List Tok) : FrameRel X (getAliasName ts) (getAliasName (ts ++ X)) := by
  intro v r h
  cases ts with
  | nil => simp [getAliasName] at h
  | cons t ts => simp only [getAliasName, List.cons_append] at h ⊢; split at h <;> simp_all
grind_pattern getAliasName_frame => SemiHead X, getAliasName ts, getAliasName (ts ++ X)

/-! ### the helper functions of `MsqModel/Parse/Expr.lean` outside the mutual block -/
theorem pFuncName_frame (ts : List Tok) : FrameRel X (pFuncName ts) (pFuncName (ts ++ X)) := by
  obtain ⟨semi, Y, rfl, hs⟩ := hX
  intro v r h
  have hN := hs.name
  have hE := hs.equalsStr "." (by decide)
  rcases ts with _ | ⟨a, _ | ⟨b, _ | ⟨c, r'⟩⟩⟩
  · simp [pFuncName] at h
  · rcases Y with _ | ⟨y1, Y⟩ <;> simp only [pFuncName, List.nil_append, List.cons_append] at h ⊢ <;> grind -funext
  · simp only [pFuncName, List.nil_append, List.cons_append] at h ⊢; grind -funext
  · simp only [pFuncName, List.cons_append] at h ⊢; grind -funext
grind_pattern pFuncName_frame => SemiHead X, pFuncName ts, pFuncName (ts ++ X)

theorem pAlias_frame (ts : List Tok) : FrameRel X (pAlias ts) (pAlias (ts ++ X)) := by
  have hX' := hX
  obtain ⟨semi, Y, rfl, hs⟩ := hX
  intro v r h
  have hN := hs.name
  unfold pAlias at h ⊢
  grind -funext
grind_pattern pAlias_frame => SemiHead X, pAlias ts, pAlias (ts ++ X)

theorem pTableName_frame (ts : List Tok) : FrameRel X (pTableName ts) (pTableName (ts ++ X)) := by
  have hX' := hX
  obtain ⟨semi, Y, rfl, hs⟩ := hX
  intro v r h
  have hN := hs.name
  unfold pTableName at h ⊢
  grind -funext
grind_pattern pTableName_frame => SemiHead X, pTableName ts, pTableName (ts ++ X)

theorem orderTail_frame (e : Ast.Expr) (ts : List Tok) : FrameRel X (orderTail e ts) (orderTail e (ts ++ X)) := by
  have hX' := hX
  obtain ⟨semi, Y, rfl, hs⟩ := hX
  intro v r h
  unfold orderTail at h ⊢
  grind -funext
grind_pattern orderTail_frame => SemiHead X, orderTail e ts, orderTail e (ts ++ X)

theorem pLimit_frame (ts : List Tok) : FrameRel X (pLimit ts) (pLimit (ts ++ X)) := by
  have hX' := hX
  obtain ⟨semi, Y, rfl, hs⟩ := hX
  intro v r h
  unfold pLimit at h ⊢
  grind -funext
grind_pattern pLimit_frame => SemiHead X, pLimit ts, pLimit (ts ++ X)

/-- a loop with its own counter: the counter of the framed run is computed from a longer cursor, hence `g ≤ g'` -/
theorem multiAliasLoop_frame : ∀ g acc ts g', g ≤ g' → FrameRel X (multiAliasLoop g acc ts) (multiAliasLoop g' acc (ts ++ X)) := by
  have hX' := hX
  obtain ⟨semi, Y, rfl, hs⟩ := hX
  intro g
  induction g with
  | zero => intro acc ts g' _ v r h; simp [multiAliasLoop] at h
  | succ g ih =>
    intro acc ts g' hg v r h
    obtain ⟨k, rfl⟩ : ∃ k, g' = k + 1 := ⟨g' - 1, by omega⟩
    have ih' := fun acc ts => ih acc ts k (by omega)
    unfold multiAliasLoop at h ⊢
    grind -funext

grind_pattern multiAliasLoop_frame => SemiHead X, multiAliasLoop g acc ts, multiAliasLoop g' acc (ts ++ X)

theorem pMultiAlias_frame (ts : List Tok) : FrameRel X (pMultiAlias ts) (pMultiAlias (ts ++ X)) := by
  intro v r h
  unfold pMultiAlias at h ⊢
  grind -funext
grind_pattern pMultiAlias_frame => SemiHead X, pMultiAlias ts, pMultiAlias (ts ++ X)

end
end PM
