import MsqProofs.Lemmas.ParseKCase1
/-! DERIVED by tools/gen_kcase.py from ParseCase3.lean (identifier substitution `CE`→`KE`, `CER`→`KER`, `upAll`→`kmAll`) — C09, parser half, sharp form for reserved words -/

/-!
# C09, parser half — hand-written part 4: the look-aheads and pure helpers of the parser on two case-equivalent cursors

One lemma per primitive of `MsqModel/Parse/Prim.lean` / helper of `Expr.lean` that is not a run (`Bool`- or pair-valued), each with a
`grind_pattern` on the term for the FIRST cursor, so that it is instantiated once per test that occurs in an unfolded run.
-/
set_option linter.unusedSimpArgs false
set_option linter.unusedVariables false
set_option maxHeartbeats 1000000
open Lex Ast
namespace PM

/-- `close()` on two related runs -/
theorem closed_ke {α : Type} {rv : α → α → Prop} {a b : R α} (h : KER rv a b) : KEX rv (closed a) (closed b) := by
  match a, b, h with
  | .ok (v, r), .ok (v', r'), h =>
    simp at h
    cases r <;> cases r' <;> simp_all [closed]
  | .error e, .error e', h => simp at h; simp [closed, h]
  | .ok (_, _), .error _, h => simp at h
  | .error _, .ok (_, _), h => simp at h
grind_pattern closed_ke => KER rv a b, closed a

/-! ### token facts, as `grind` rules -/
theorem gk_has {t t' : Tok} (h : KE t t') (m : Nat) : t.has m = t'.has m := ke_has h m
grind_pattern gk_has => KE t t', Tok.has t m
theorem gk_up_src {t t' : Tok} (h : KE t t') : up t.src = up t'.src := ke_up_src h
grind_pattern gk_up_src => KE t t', Tok.src t
theorem gk_srcEqUp {t t' : Tok} (h : KE t t') (k : String) : t.srcEqUp k = t'.srcEqUp k := ke_srcEqUp h k
grind_pattern gk_srcEqUp => KE t t', Tok.srcEqUp t k
theorem gk_equalsStr {t t' : Tok} (h : KE t t') (k : String) : t.equalsStr k = t'.equalsStr k := ke_equalsStr h k
grind_pattern gk_equalsStr => KE t t', Tok.equalsStr t k
theorem gk_children {t t' : Tok} (h : KE t t') : KEL t.children t'.children := ke_children h
grind_pattern gk_children => KE t t', Tok.children t
theorem gk_unarySet {t t' : Tok} (h : KE t t') (d : Gen.D) : (Gen.unarySet d).contains t.src = (Gen.unarySet d).contains t'.src := ke_unarySet h d
grind_pattern gk_unarySet => KE t t', (Gen.unarySet d).contains (Tok.src t)
theorem gk_compareOp {t t' : Tok} (h : KE t t') : compareOp? t.src = compareOp? t'.src := ke_compareOp h
grind_pattern gk_compareOp => KE t t', compareOp? (Tok.src t)
theorem gk_pyInt {t t' : Tok} (h : KE t t') : pyInt t.src = pyInt t'.src := ke_pyInt h
grind_pattern gk_pyInt => KE t t', pyInt (Tok.src t)
theorem gk_asInt {t t' : Tok} (h : KE t t') : asInt t.src = asInt t'.src := ke_asInt h
grind_pattern gk_asInt => KE t t', asInt (Tok.src t)
theorem gk_unifyName {t t' : Tok} (h : KE t t') : km (unifyName t.src) = km (unifyName t'.src) := ke_unifyName h
grind_pattern gk_unifyName => KE t t', unifyName (Tok.src t)
/-! ### what is new for reserved-word variation: a checked token is the same; an unchecked stored source is the same up to `km` -/
theorem gk_eq_of_name {t t' : Tok} (h : KE t t') (hn : t.has NAME = true) : t = t' := ke_eq_of_name h hn
grind_pattern gk_eq_of_name => KE t t', Tok.has t NAME
theorem gk_eq_of_lit {t t' : Tok} (h : KE t t') (hn : t.has LITERAL = true) : t = t' := ke_eq_of_lit h hn
grind_pattern gk_eq_of_lit => KE t t', Tok.has t LITERAL
theorem gk_km_src {t t' : Tok} (h : KE t t') : km t.src = km t'.src := ke_km_src h
grind_pattern gk_km_src => KE t t', Tok.src t
theorem gk_up_unifyName {t t' : Tok} (h : KE t t') : up (unifyName t.src) = up (unifyName t'.src) := ke_up_unifyName h
grind_pattern gk_up_unifyName => KE t t', unifyName (Tok.src t)
theorem gk_srcEq_comma {t t' : Tok} (h : KE t t') : t.srcEq "," = t'.srcEq "," := ke_srcEq h _ (by decide)
grind_pattern gk_srcEq_comma => KE t t', Tok.srcEq t ","
theorem gk_srcEq_dot {t t' : Tok} (h : KE t t') : t.srcEq "." = t'.srcEq "." := ke_srcEq h _ (by decide)
grind_pattern gk_srcEq_dot => KE t t', Tok.srcEq t "."
theorem gk_srcEq_semi {t t' : Tok} (h : KE t t') : t.srcEq ";" = t'.srcEq ";" := ke_srcEq h _ (by decide)
grind_pattern gk_srcEq_semi => KE t t', Tok.srcEq t ";"
theorem gk_srcEq_star {t t' : Tok} (h : KE t t') : t.srcEq "*" = t'.srcEq "*" := ke_srcEq h _ (by decide)
grind_pattern gk_srcEq_star => KE t t', Tok.srcEq t "*"
theorem gk_srcEq_eq {t t' : Tok} (h : KE t t') : t.srcEq "=" = t'.srcEq "=" := ke_srcEq h _ (by decide)
grind_pattern gk_srcEq_eq => KE t t', Tok.srcEq t "="
theorem gk_srcEq_minus {t t' : Tok} (h : KE t t') : t.srcEq "-" = t'.srcEq "-" := ke_srcEq h _ (by decide)
grind_pattern gk_srcEq_minus => KE t t', Tok.srcEq t "-"

/-! ### look-aheads on the head of the cursor -/
section cur
variable {ts ts' : List Tok} (h : KEL ts ts')
include h
theorem kel_searchStrUp (k : String) : searchStrUp ts k = searchStrUp ts' k := by
  cases ts <;> cases ts' <;> simp_all [searchStrUp]; exact ke_srcEqUp h.1 k
theorem kel_searchMark (m : Nat) : searchMark ts m = searchMark ts' m := by
  cases ts <;> cases ts' <;> simp_all [searchMark]; exact ke_has h.1 m
theorem kel_searchSetUp (ks : List String) : searchSetUp ts ks = searchSetUp ts' ks := by
  cases ts <;> cases ts' <;> simp_all [searchSetUp]; rw [ke_up_src h.1]
theorem kel_searchSet_compare : searchSet ts Gen.compareSet = searchSet ts' Gen.compareSet := by
  cases ts with
  | nil => rw [kel_nil_left h]
  | cons t r => cases ts' with
    | nil => simp at h
    | cons t' r' => simp at h; simp only [searchSet]; exact ke_contains h.1 Gen.compareSet (by decide)
theorem kel_searchTwoUp (a b : String) : searchTwoUp ts a b = searchTwoUp ts' a b := by
  unfold searchTwoUp
  match ts, ts', h with
  | [], [], _ => rfl
  | [_], [_], _ => rfl
  | x :: y :: _, x' :: y' :: _, h => simp at h; simp [ke_srcEqUp h.1, ke_srcEqUp h.2.1]
  | [], _ :: _, h => simp at h
  | _ :: _, [], h => simp at h
  | [_], _ :: _ :: _, h => simp at h
  | _ :: _ :: _, [_], h => simp at h
theorem kel_searchThreeUp (a b c : String) : searchThreeUp ts a b c = searchThreeUp ts' a b c := by
  unfold searchThreeUp
  match ts, ts', h with
  | [], [], _ => rfl
  | [_], [_], _ => rfl
  | [_, _], [_, _], _ => rfl
  | x :: y :: z :: _, x' :: y' :: z' :: _, h => simp at h; simp [ke_srcEqUp h.1, ke_srcEqUp h.2.1, ke_srcEqUp h.2.2.1]
  | [], _ :: _, h => simp at h
  | _ :: _, [], h => simp at h
  | [_], _ :: _ :: _, h => simp at h
  | _ :: _ :: _, [_], h => simp at h
  | [_, _], _ :: _ :: _ :: _, h => simp at h
  | _ :: _ :: _ :: _, [_, _], h => simp at h
theorem kel_searchSeq (ks : List String) : searchSeq ts ks = searchSeq ts' ks := by
  induction ks generalizing ts ts' with
  | nil => simp [searchSeq]
  | cons k ks ih =>
    cases ts <;> cases ts' <;> simp_all [searchSeq]
    rw [ke_equalsStr h.1, ih h.2]
theorem kel_startsSelect : startsSelect ts = startsSelect ts' := kel_searchSetUp h _
theorem kel_headIsOver : headIsOver ts = headIsOver ts' := by
  cases ts <;> cases ts' <;> simp_all [headIsOver]; exact ke_srcEqUp h.1 _
theorem kel_setOpHead : setOpHead ts = setOpHead ts' := by
  cases ts <;> cases ts' <;> simp_all [setOpHead]; rw [ke_up_src h.1]
theorem kel_joinHead : joinHead ts = joinHead ts' := by
  cases ts <;> cases ts' <;> simp_all [joinHead]; rw [ke_up_src h.1]
theorem kel_onUsingHead : onUsingHead ts = onUsingHead ts' := by
  cases ts <;> cases ts' <;> simp_all [onUsingHead]; rw [ke_up_src h.1]
theorem kel_chainsOn : chainsOn ts = chainsOn ts' := by
  cases ts <;> cases ts' <;> simp_all [chainsOn]; rw [ke_up_src h.1]
theorem kel_skipNot (d : Gen.D) : (skipNot d ts).1 = (skipNot d ts').1 ∧ KEL (skipNot d ts).2 (skipNot d ts').2 := by
  cases ts <;> cases ts' <;> simp_all [skipNot]
  rw [ke_up_src h.1]; split <;> simp_all
theorem kel_moveStrUp (k : String) : (moveStrUp ts k).1 = (moveStrUp ts' k).1 ∧ KEL (moveStrUp ts k).2 (moveStrUp ts' k).2 := by
  unfold moveStrUp; rw [kel_searchStrUp h k]; split <;> first | exact ⟨rfl, kel_drop h _⟩ | exact ⟨rfl, h⟩
theorem kel_moveSetUp (ks : List String) : (moveSetUp ts ks).1 = (moveSetUp ts' ks).1 ∧ KEL (moveSetUp ts ks).2 (moveSetUp ts' ks).2 := by
  unfold moveSetUp; rw [kel_searchSetUp h ks]; split <;> first | exact ⟨rfl, kel_drop h _⟩ | exact ⟨rfl, h⟩
theorem kel_moveSeq (ks : List String) : (moveSeq ts ks).1 = (moveSeq ts' ks).1 ∧ KEL (moveSeq ts ks).2 (moveSeq ts' ks).2 := by
  unfold moveSeq; rw [kel_searchSeq h ks]; split <;> first | exact ⟨rfl, kel_drop h _⟩ | exact ⟨rfl, h⟩
theorem kel_moveTwoUp (a b : String) : (moveTwoUp ts a b).1 = (moveTwoUp ts' a b).1 ∧ KEL (moveTwoUp ts a b).2 (moveTwoUp ts' a b).2 := by
  unfold moveTwoUp; rw [kel_searchTwoUp h a b]; split <;> first | exact ⟨rfl, kel_drop h _⟩ | exact ⟨rfl, h⟩
theorem kel_moveThreeUp (a b c : String) : (moveThreeUp ts a b c).1 = (moveThreeUp ts' a b c).1 ∧ KEL (moveThreeUp ts a b c).2 (moveThreeUp ts' a b c).2 := by
  unfold moveThreeUp; rw [kel_searchThreeUp h a b c]; split <;> first | exact ⟨rfl, kel_drop h _⟩ | exact ⟨rfl, h⟩
/-- `for m in Enum: if search_and_move(*m.value)`: the same member, related rests -/
theorem kel_firstEnum (tbl : List (String × List String)) :
    (firstEnum tbl ts = none ∧ firstEnum tbl ts' = none) ∨
    (∃ n r r', firstEnum tbl ts = some (n, r) ∧ firstEnum tbl ts' = some (n, r') ∧ KEL r r') := by
  induction tbl with
  | nil => simp [firstEnum]
  | cons e tbl ih =>
    obtain ⟨n, ks⟩ := e
    simp only [firstEnum, kel_searchSeq h ks]
    split
    · exact .inr ⟨n, _, _, rfl, rfl, kel_drop h _⟩
    · exact ih
theorem kel_substringRewrite (u : String) : KEL (substringRewrite u ts) (substringRewrite u ts') := by
  unfold substringRewrite
  split
  · induction ts generalizing ts' with
    | nil => rw [kel_nil_left h]; simp
    | cons t ts ih =>
      cases ts' with
      | nil => simp at h
      | cons t' ts' =>
        simp at h
        simp only [List.map_cons, kel_cons_cons, ke_up_src h.1]
        refine ⟨?_, ih h.2⟩
        split
        · exact KE.refl _
        · exact h.1
  · exact h
end cur
grind_pattern kel_searchStrUp => KEL ts ts', searchStrUp ts k
grind_pattern kel_searchMark => KEL ts ts', searchMark ts m
grind_pattern kel_searchSetUp => KEL ts ts', searchSetUp ts ks
grind_pattern kel_searchSet_compare => KEL ts ts', searchSet ts Gen.compareSet
grind_pattern kel_searchTwoUp => KEL ts ts', searchTwoUp ts a b
grind_pattern kel_searchThreeUp => KEL ts ts', searchThreeUp ts a b c
grind_pattern kel_searchSeq => KEL ts ts', searchSeq ts ks
grind_pattern kel_startsSelect => KEL ts ts', startsSelect ts
grind_pattern kel_headIsOver => KEL ts ts', headIsOver ts
grind_pattern kel_setOpHead => KEL ts ts', setOpHead ts
grind_pattern kel_joinHead => KEL ts ts', joinHead ts
grind_pattern kel_onUsingHead => KEL ts ts', onUsingHead ts
grind_pattern kel_chainsOn => KEL ts ts', chainsOn ts
grind_pattern kel_skipNot => KEL ts ts', skipNot d ts
grind_pattern kel_moveStrUp => KEL ts ts', moveStrUp ts k
grind_pattern kel_moveSetUp => KEL ts ts', moveSetUp ts ks
grind_pattern kel_moveSeq => KEL ts ts', moveSeq ts ks
grind_pattern kel_moveTwoUp => KEL ts ts', moveTwoUp ts a b
grind_pattern kel_moveThreeUp => KEL ts ts', moveThreeUp ts a b c
grind_pattern kel_firstEnum => KEL ts ts', firstEnum tbl ts
grind_pattern kel_substringRewrite => KEL ts ts', substringRewrite u ts
theorem kel_searchStr_comma {ts ts' : List Tok} (h : KEL ts ts') : searchStr ts "," = searchStr ts' "," := by
  cases ts <;> cases ts' <;> simp_all [searchStr]; exact ke_srcEq h.1 _ (by decide)
grind_pattern kel_searchStr_comma => KEL ts ts', searchStr ts ","
theorem kel_moveStr_comma {ts ts' : List Tok} (h : KEL ts ts') : (moveStr ts ",").1 = (moveStr ts' ",").1 ∧ KEL (moveStr ts ",").2 (moveStr ts' ",").2 := by
  unfold moveStr; rw [kel_searchStr_comma h]; split <;> first | exact ⟨rfl, kel_drop h _⟩ | exact ⟨rfl, h⟩
grind_pattern kel_moveStr_comma => KEL ts ts', moveStr ts ","
theorem kel_searchStr_dot {ts ts' : List Tok} (h : KEL ts ts') : searchStr ts "." = searchStr ts' "." := by
  cases ts <;> cases ts' <;> simp_all [searchStr]; exact ke_srcEq h.1 _ (by decide)
grind_pattern kel_searchStr_dot => KEL ts ts', searchStr ts "."
theorem kel_moveStr_dot {ts ts' : List Tok} (h : KEL ts ts') : (moveStr ts ".").1 = (moveStr ts' ".").1 ∧ KEL (moveStr ts ".").2 (moveStr ts' ".").2 := by
  unfold moveStr; rw [kel_searchStr_dot h]; split <;> first | exact ⟨rfl, kel_drop h _⟩ | exact ⟨rfl, h⟩
grind_pattern kel_moveStr_dot => KEL ts ts', moveStr ts "."
theorem kel_searchStr_semi {ts ts' : List Tok} (h : KEL ts ts') : searchStr ts ";" = searchStr ts' ";" := by
  cases ts <;> cases ts' <;> simp_all [searchStr]; exact ke_srcEq h.1 _ (by decide)
grind_pattern kel_searchStr_semi => KEL ts ts', searchStr ts ";"
theorem kel_moveStr_semi {ts ts' : List Tok} (h : KEL ts ts') : (moveStr ts ";").1 = (moveStr ts' ";").1 ∧ KEL (moveStr ts ";").2 (moveStr ts' ";").2 := by
  unfold moveStr; rw [kel_searchStr_semi h]; split <;> first | exact ⟨rfl, kel_drop h _⟩ | exact ⟨rfl, h⟩
grind_pattern kel_moveStr_semi => KEL ts ts', moveStr ts ";"
theorem kel_searchStr_star {ts ts' : List Tok} (h : KEL ts ts') : searchStr ts "*" = searchStr ts' "*" := by
  cases ts <;> cases ts' <;> simp_all [searchStr]; exact ke_srcEq h.1 _ (by decide)
grind_pattern kel_searchStr_star => KEL ts ts', searchStr ts "*"
theorem kel_moveStr_star {ts ts' : List Tok} (h : KEL ts ts') : (moveStr ts "*").1 = (moveStr ts' "*").1 ∧ KEL (moveStr ts "*").2 (moveStr ts' "*").2 := by
  unfold moveStr; rw [kel_searchStr_star h]; split <;> first | exact ⟨rfl, kel_drop h _⟩ | exact ⟨rfl, h⟩
grind_pattern kel_moveStr_star => KEL ts ts', moveStr ts "*"
theorem kel_searchStr_eq {ts ts' : List Tok} (h : KEL ts ts') : searchStr ts "=" = searchStr ts' "=" := by
  cases ts <;> cases ts' <;> simp_all [searchStr]; exact ke_srcEq h.1 _ (by decide)
grind_pattern kel_searchStr_eq => KEL ts ts', searchStr ts "="
theorem kel_moveStr_eq {ts ts' : List Tok} (h : KEL ts ts') : (moveStr ts "=").1 = (moveStr ts' "=").1 ∧ KEL (moveStr ts "=").2 (moveStr ts' "=").2 := by
  unfold moveStr; rw [kel_searchStr_eq h]; split <;> first | exact ⟨rfl, kel_drop h _⟩ | exact ⟨rfl, h⟩
grind_pattern kel_moveStr_eq => KEL ts ts', moveStr ts "="
theorem kel_searchStr_minus {ts ts' : List Tok} (h : KEL ts ts') : searchStr ts "-" = searchStr ts' "-" := by
  cases ts <;> cases ts' <;> simp_all [searchStr]; exact ke_srcEq h.1 _ (by decide)
grind_pattern kel_searchStr_minus => KEL ts ts', searchStr ts "-"
theorem kel_moveStr_minus {ts ts' : List Tok} (h : KEL ts ts') : (moveStr ts "-").1 = (moveStr ts' "-").1 ∧ KEL (moveStr ts "-").2 (moveStr ts' "-").2 := by
  unfold moveStr; rw [kel_searchStr_minus h]; split <;> first | exact ⟨rfl, kel_drop h _⟩ | exact ⟨rfl, h⟩
grind_pattern kel_moveStr_minus => KEL ts ts', moveStr ts "-"

/-- `pop_as_children_scanner_list_split_by(",")` -/
theorem kel_splitBy (sep : String) : ∀ (ts ts' cur cur' : List Tok) (acc acc' : List (List Tok)), KEL ts ts' → KEL cur cur' → KELL acc acc' →
    KELL (splitBy sep ts cur acc) (splitBy sep ts' cur' acc') := by
  intro ts
  induction ts with
  | nil =>
    intro ts' cur cur' acc acc' h hc ha
    rw [kel_nil_left h]
    simp only [splitBy, kel_isEmpty hc]
    split
    · exact ha
    · exact kell_append ha (by simp [hc])
  | cons t r ih =>
    intro ts' cur cur' acc acc' h hc ha
    cases ts' with
    | nil => simp at h
    | cons t' r' =>
      simp at h
      simp only [splitBy, ke_equalsStr h.1, kel_isEmpty hc]
      split
      · split
        · exact ih _ _ _ _ _ h.2 (by simp) ha
        · exact ih _ _ _ _ _ h.2 (by simp) (kell_append ha (by simp [hc]))
      · exact ih _ _ _ _ _ h.2 (kel_append hc (by simp [h.1])) ha
theorem kel_splitBy0 (sep : String) {ts ts' : List Tok} (h : KEL ts ts') : KELL (splitBy sep ts [] []) (splitBy sep ts' [] []) :=
  kel_splitBy sep ts ts' [] [] [] [] h (by simp) (by simp)
grind_pattern kel_splitBy0 => KEL ts ts', splitBy sep ts [] []

/-- `_parse_function_expression`, the pure part: aggregate?, DISTINCT seen?, argument tokens -/
theorem kel_callPrep {name name' : String} {g g' : Tok} (hn : up name = up name') (h : KE g g') :
    (callPrep name g).1 = (callPrep name' g').1 ∧ (callPrep name g).2.1 = (callPrep name' g').2.1 ∧ KEL (callPrep name g).2.2 (callPrep name' g').2.2 := by
  have hs := kel_substringRewrite (ke_children h) (up name)
  have hm := kel_moveStrUp hs "DISTINCT"
  unfold callPrep
  simp only [← hn]
  split <;> simp_all
grind_pattern kel_callPrep => KE g g', callPrep name g, callPrep name' g'
theorem callNode_ke {schema schema' : Option String} {name name' : String} {a d : Bool} {ps ps' : List Expr}
    (hs : schema.map km = schema'.map km) (hn : km name = km name') (hp : ps.map kmE = ps'.map kmE) :
    kmE (callNode schema name a d ps) = kmE (callNode schema' name' a d ps') := by
  have : schema.isNone = schema'.isNone := by cases schema <;> cases schema' <;> simp_all
  unfold callNode
  rw [this]
  split <;> simp [kmE, kmEs_eq, hs, hn, hp]
grind_pattern callNode_ke => callNode schema name a d ps, callNode schema' name' a d ps'

/-- the operator stack of the compute loop -/
theorem reduceWhile_ke (lvl : Nat) : ∀ (st st' : List (Expr × String × Nat)) (top top' : Expr), kmSt st = kmSt st' → kmE top = kmE top' →
    kmSt (reduceWhile lvl st top).1 = kmSt (reduceWhile lvl st' top').1 ∧ kmE (reduceWhile lvl st top).2 = kmE (reduceWhile lvl st' top').2 := by
  intro st
  induction st with
  | nil => intro st' top top' hs ht; cases st' <;> simp_all [kmSt, reduceWhile]
  | cons p st ih =>
    intro st' top top' hs ht
    cases st' with
    | nil => simp [kmSt] at hs
    | cons p' st' =>
      obtain ⟨l, o, k⟩ := p; obtain ⟨l', o', k'⟩ := p'
      simp [kmSt] at hs
      obtain ⟨⟨h1, h2, rfl⟩, h3⟩ := hs
      simp only [reduceWhile]
      split
      · exact ih st' _ _ (by simpa [kmSt] using h3) (by simp [kmE, h1, h2, ht])
      · simp [kmSt, h1, h2, h3, ht]
grind_pattern reduceWhile_ke => reduceWhile lvl st top, reduceWhile lvl st' top'
theorem collapse_ke : ∀ (st st' : List (Expr × String × Nat)) (top top' : Expr), kmSt st = kmSt st' → kmE top = kmE top' →
    kmE (collapse st top) = kmE (collapse st' top') := by
  intro st
  induction st with
  | nil => intro st' top top' hs ht; cases st' <;> simp_all [kmSt, collapse]
  | cons p st ih =>
    intro st' top top' hs ht
    cases st' with
    | nil => simp [kmSt] at hs
    | cons p' st' =>
      obtain ⟨l, o, k⟩ := p; obtain ⟨l', o', k'⟩ := p'
      simp [kmSt] at hs
      obtain ⟨⟨h1, h2, rfl⟩, h3⟩ := hs
      simp only [collapse]
      exact ih st' _ _ (by simpa [kmSt] using h3) (by simp [kmE, h1, h2, ht])
grind_pattern collapse_ke => collapse st top, collapse st' top'
@[grind =] theorem kmSt_cons (l : Expr) (o : String) (k : Nat) (st : List (Expr × String × Nat)) :
    kmSt ((l, o, k) :: st) = (kmE l, km o, k) :: kmSt st := by simp [kmSt]
@[grind =] theorem kmSt_nil : kmSt [] = [] := rfl
theorem setWiths_ke {s s' : Select} (h : kmS s = kmS s') : kmS (setWiths s) = kmS (setWiths s') := by
  cases s; cases s'
  simp only [kmS_mk, Select.mk.injEq] at h
  simp only [setWiths, kmS_mk, Select.mk.injEq]
  simp_all
grind_pattern setWiths_ke => setWiths s, setWiths s'

end PM
