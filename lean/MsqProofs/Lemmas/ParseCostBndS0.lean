import MsqProofs.Lemmas.ParseCostBnd
/-!
# C19, parser half: the linear bound on cursor operations, statement level — hand-written part

The statement level (`Parse/Stmt.lean`, `pStatements`) uses the potential `250 * adqWL ts` (the expression / SELECT block: `70 * adqWL ts`).
The multiplier is larger because the parsers that run on every segment of a comma split (`pDefCol`, `pPartitionItem`, the index and foreign-key
parsers) have larger constants than the segment parsers of the block, and the ONE unit that a segment has in `adqWLL` must pay the constant of its
parser and the `close()` of its cursor.  A bound of the block with multiplier 70 lifts to any larger multiplier as soon as the rest of the run is
no heavier than the cursor (`lift_rem2`; consumption is `ConsF`).
-/
set_option linter.unusedSimpArgs false
set_option linter.unusedVariables false
open Lex
namespace PM

set_option hygiene false in
/-- split the hypothesis `h` about a counted run completely: every `if`, every `match`, through the `let`s of the accumulator -/
macro "split_run2" : tactic =>
  `(tactic| repeat' (first | split at h | (dsimp only at h) | (with_reducible have h' := ite_split h); clear h; rcases h' with ⟨hc, h⟩ | ⟨hc, h⟩))

/-- potential left in the result of a counted run, statement level -/
def rem2 {α : Type} (res : R α) : Nat := match res with | .ok (_, r) => 250 * adqWL r | .error _ => 0
@[grind =] theorem rem2_ok {α : Type} (v : α) (r : List Tok) : rem2 (.ok (v, r) : R α) = 250 * adqWL r := rfl
@[grind =] theorem rem2_error {α : Type} (e : Err) : rem2 (.error e : R α) = 0 := rfl

/-- … of a run that has consumed at least one token when it succeeds (statements, `INSERT …` heads): `s` units are left over to pay the next
look-ahead of the loop that called it -/
def remS2 {α : Type} (s : Nat) (res : R α) : Nat := match res with | .ok (_, r) => 250 * adqWL r + s | .error _ => 0
@[grind =] theorem remS2_ok {α : Type} (s : Nat) (v : α) (r : List Tok) : remS2 s (.ok (v, r) : R α) = 250 * adqWL r + s := rfl
@[grind =] theorem remS2_error {α : Type} (s : Nat) (e : Err) : remS2 s (.error e : R α) = 0 := rfl
theorem rem2_le_remS2 {α : Type} (s : Nat) (res : R α) : rem2 res ≤ remS2 s res := by
  unfold remS2 rem2; split <;> omega
grind_pattern rem2_le_remS2 => remS2 s res
/-- … of `GENERATED ALWAYS AS (…) mode` (`pGenerated`): slack when the clause was there -/
def remG {α : Type} (s : Nat) (res : R (Option α)) : Nat :=
  match res with | .ok (some _, r) => 250 * adqWL r + s | .ok (none, r) => 250 * adqWL r | .error _ => 0
@[grind =] theorem remG_some {α : Type} (s : Nat) (v : α) (r : List Tok) : remG s (.ok (some v, r) : R (Option α)) = 250 * adqWL r + s := rfl
@[grind =] theorem remG_none {α : Type} (s : Nat) (r : List Tok) : remG s (.ok (none, r) : R (Option α)) = 250 * adqWL r := rfl
@[grind =] theorem remG_error {α : Type} (s : Nat) (e : Err) : remG s (.error e : R (Option α)) = 0 := rfl

theorem rem2_consRel {α : Type} (ts : List Tok) (a : R α) (h : ConsRel ts a) : rem2 a ≤ 250 * adqWL ts := by
  cases a with
  | error e => simp [rem2_error]
  | ok p => obtain ⟨v, r⟩ := p; have := (sfx_adqWL (h v r rfl)).1; simp only [rem2_ok]; omega
grind_pattern rem2_consRel => ConsRel ts a, rem2 a

/-- a bound with the multiplier of the block is a bound with the multiplier of the statement level (the run does not make the cursor heavier) -/
theorem lift_rem2 {α : Type} (x : Nat × R α) (κ W c : Nat) (h : x.1 + rem x.2 ≤ κ + 70 * W + c)
    (hc : ∀ v r, x.2 = .ok (v, r) → adqWL r ≤ W) : x.1 + rem2 x.2 ≤ κ + 250 * W + c := by
  obtain ⟨k, res⟩ := x
  cases res with
  | error e => simp only [rem_error, rem2_error] at *; omega
  | ok p =>
    obtain ⟨v, r⟩ := p
    have := hc v r rfl
    simp only [rem_ok, rem2_ok] at *; omega

/-- … with slack when the run consumes at least one token: the difference of the multipliers on 19 units of weight -/
theorem lift_remS2 {α : Type} (x : Nat × R α) (κ W c s : Nat) (h : x.1 + rem x.2 ≤ κ + 70 * W + c)
    (hc : ∀ v r, x.2 = .ok (v, r) → adqWL r + 19 ≤ W) (hs : s ≤ (250 - 70) * 19) : x.1 + remS2 s x.2 ≤ κ + 250 * W + c := by
  obtain ⟨k, res⟩ := x
  cases res with
  | error e => simp only [rem_error, remS2_error] at *; omega
  | ok p =>
    obtain ⟨v, r⟩ := p
    have := hc v r rfl
    simp only [rem_ok, remS2_ok] at *; omega

theorem consRel_adqWL {α : Type} {ts : List Tok} {a : R α} (h : ConsRel ts a) : ∀ v r, a = .ok (v, r) → adqWL r ≤ adqWL ts := by
  intro v r e
  exact (sfx_adqWL (h v r e)).1

/-! ### the functions of the block that the statement level calls -/
section
variable (d : Gen.D) (n : Nat)
theorem pCompute_bnd2 (ts : List Tok) (κ : Nat) : (pCompute_k d n ts κ).1 + rem2 (pCompute_k d n ts κ).2 ≤ κ + 250 * adqWL ts + 61 :=
  lift_rem2 _ _ _ _ (pCompute_bnd d n ts κ) (by rw [pCompute_proj]; exact consRel_adqWL ((consF_all d n).pCompute ts))
theorem pOr_bnd2 (ts : List Tok) (κ : Nat) : (pOr_k d n ts κ).1 + rem2 (pOr_k d n ts κ).2 ≤ κ + 250 * adqWL ts + 209 :=
  lift_rem2 _ _ _ _ (pOr_bnd d n ts κ) (by rw [pOr_proj]; exact consRel_adqWL ((consF_all d n).pOr ts))
theorem pSelectStmt_bnd2 (w : Option (List Ast.WithTable)) (ts : List Tok) (κ : Nat) :
    (pSelectStmt_k d n w ts κ).1 + remS2 600 (pSelectStmt_k d n w ts κ).2 ≤ κ + 250 * adqWL ts + 21 :=
  lift_remS2 _ _ _ _ _ (pSelectStmt_bnd d n w ts κ) (by rw [pSelectStmt_proj]; exact fun v r h => (pSelectStmt_strict d n w ts v r h).1) (by omega)
theorem pWith_bnd2 (ts : List Tok) (κ : Nat) : (pWith_k d n ts κ).1 + rem2 (pWith_k d n ts κ).2 ≤ κ + 250 * adqWL ts + 3 :=
  lift_rem2 _ _ _ _ (pWith_bnd d n ts κ) (by rw [pWith_proj]; exact consRel_adqWL ((consF_all d n).pWith ts))
theorem pOptOr_bnd2 (k : String) (ts : List Tok) (κ : Nat) : (pOptOr_k d n k ts κ).1 + rem2 (pOptOr_k d n k ts κ).2 ≤ κ + 250 * adqWL ts + 3 :=
  lift_rem2 _ _ _ _ (pOptOr_bnd d n k ts κ) (by rw [pOptOr_proj]; exact consRel_adqWL ((consF_all d n).pOptOr k ts))
theorem pOrderByOpt_bnd2 (ts : List Tok) (κ : Nat) : (pOrderByOpt_k d n ts κ).1 + rem2 (pOrderByOpt_k d n ts κ).2 ≤ κ + 250 * adqWL ts + 3 :=
  lift_rem2 _ _ _ _ (pOrderByOpt_bnd d n ts κ) (by rw [pOrderByOpt_proj]; exact consRel_adqWL ((consF_all d n).pOrderByOpt ts))
theorem pFromTable_bnd2 (ts : List Tok) (κ : Nat) : (pFromTable_k d n ts κ).1 + rem2 (pFromTable_k d n ts κ).2 ≤ κ + 250 * adqWL ts + 18 :=
  lift_rem2 _ _ _ _ (pFromTable_bnd d n ts κ) (by rw [pFromTable_proj]; exact consRel_adqWL ((consF_all d n).pFromTable ts))
theorem pFromTables_bnd2 (acc : List Ast.FromTable) (ts : List Tok) (κ : Nat) :
    (pFromTables_k d n acc ts κ).1 + rem2 (pFromTables_k d n acc ts κ).2 ≤ κ + 250 * adqWL ts + 3 :=
  lift_rem2 _ _ _ _ (pFromTables_bnd d n acc ts κ) (by rw [pFromTables_proj]; exact consRel_adqWL ((consF_all d n).pFromTables acc ts))
end
theorem pLimit_bnd2 (ts : List Tok) (κ : Nat) : (pLimit_k ts κ).1 + rem2 (pLimit_k ts κ).2 ≤ κ + 250 * adqWL ts + 13 :=
  lift_rem2 _ _ _ _ (pLimit_bnd ts κ) (by rw [pLimit_proj]; exact consRel_adqWL (pLimit_cons ts))
theorem pTableName_bnd2 (ts : List Tok) (κ : Nat) : (pTableName_k ts κ).1 + rem2 (pTableName_k ts κ).2 ≤ κ + 250 * adqWL ts + 5 :=
  lift_rem2 _ _ _ _ (pTableName_bnd ts κ) (by rw [pTableName_proj]; exact consRel_adqWL (pTableName_cons ts))
theorem popSrc_k_bnd2 (ts : List Tok) (κ : Nat) : (popSrc_k ts κ).1 + rem2 (popSrc_k ts κ).2 ≤ κ + 250 * adqWL ts + 2 := by
  have h := popSrc_cons ts
  unfold popSrc_k
  cases hp : popSrc ts with
  | error e => simp only [rem2_error]; omega
  | ok p => obtain ⟨v, r⟩ := p; have := (sfx_adqWL (h v r hp)).1; simp only [rem2_ok]; omega

/-! ### comma splits with the multiplier of the statement level -/
theorem popSplit_cost2 (ts : List Tok) (segs : List (List Tok)) (r : List Tok) (h : popSplit ts = .ok (segs, r)) :
    250 * adqWLL segs + cSplit ts + 250 * adqWL r + 35 ≤ 250 * adqWL ts := by
  have := popSplit_cost ts segs r h; omega
grind_pattern popSplit_cost2 => popSplit ts, Except.ok (segs, r)
theorem splitBy_children3 (sep : String) (t : Tok) : 250 * adqWLL (splitBy sep t.children [] []) + t.children.length + 37 ≤ 250 * adqW t := by
  have := splitBy_children2 sep t; omega
grind_pattern splitBy_children3 => splitBy sep (Tok.children t) [] []

/-- a counted segment parser that costs at most `250 * weight of the segment + C`: the segment loop costs at most `250 * weight of the
segment list` (which holds `250 ≥ C + 1` per segment) -/
theorem eachClosed_k_bnd2 {α : Type} (pk : List Tok → Nat → Nat × R α) (C : Nat) (hC : C + 1 ≤ 250)
    (hp : ∀ s κ, (pk s κ).1 ≤ κ + 250 * adqWL s + C) : ∀ segs κ, (eachClosed_k pk segs κ).1 ≤ κ + 250 * adqWLL segs := by
  intro segs
  induction segs with
  | nil => intro κ; simp [eachClosed_k]
  | cons sg rest ih =>
    intro κ
    have h1 := hp sg κ
    have h2 := cClosed_le (pk sg κ).2
    have h3 := ih ((closed_k (pk sg κ)).1)
    unfold eachClosed_k
    simp only [closed_k_fst, adqWLL_cons] at *
    split
    · simp only []; rw [Nat.mul_add, Nat.mul_add]; omega
    · split <;> (simp only []; rw [Nat.mul_add, Nat.mul_add]; omega)
/-- the same from a bound in the `rem2` form -/
theorem eachClosed_k_rem2 {α : Type} (pk : List Tok → Nat → Nat × R α) (C : Nat) (hC : C + 1 ≤ 250)
    (hp : ∀ s κ, (pk s κ).1 + rem2 (pk s κ).2 ≤ κ + 250 * adqWL s + C) : ∀ segs κ, (eachClosed_k pk segs κ).1 ≤ κ + 250 * adqWLL segs :=
  eachClosed_k_bnd2 pk C hC (fun s κ => by have := hp s κ; omega)

end PM
