import MsqProofs.Lemmas.ParseWN0
/-!
# C02 — `parse_derives`: the induction hypothesis (one field per function of the expression block) and the stack invariant
of the shift/reduce loop, stated with `Derives`.
-/
open Lex
namespace WNG
open PM Ast

/-- a successful run on the cursor `ts` has consumed a prefix `u` of it, and `pre ++ u` derives the returned tree at level `L`
(`pre`: what the caller has already consumed for the left operand of a loop) -/
def RE (d : Gen.D) (L : Nat) (pre ts : List Tok) (a : R Expr) : Prop :=
  ∀ v r, a = .ok (v, r) → ∃ u, ts = u ++ r ∧ Derives d L (pre ++ u) v

/-- the `before_value` handed to the keyword level: nothing yet, or a derived left operand -/
def KB (d : Gen.D) : Option Expr → List Tok → Prop
  | none, pre => pre = []
  | some b, pre => Derives d 9 pre b

/-! ### the operator table: levels 2 … 8 -/
theorem computeEnum_levels : Gen.computeEnum.all (fun e => decide (2 ≤ e.2.2 ∧ e.2.2 ≤ 8)) = true := by decide

theorem computeOp_level {s o : String} {k : Nat} (h : computeOp? s = some (o, k)) : 2 ≤ k ∧ k ≤ 8 := by
  unfold computeOp? at h
  split at h
  · cases h
  · rename_i nm _
    cases hf : Gen.computeEnum.find? (·.1 == nm) with
    | none => rw [hf] at h; cases h
    | some e =>
      rw [hf] at h
      simp only [Option.map_some, Option.some.injEq, Prod.mk.injEq] at h
      have hm := List.mem_of_find?_eq_some hf
      have := List.all_eq_true.mp computeEnum_levels e hm
      rw [← h.2]
      simpa using this

/-! ### the stack of `_parse_compute_expression` (parser.py:838-846) -/
/-- `StackD st pre b`: the pending entries `l o` of the stack (top first) stand for the tokens `pre`; every pending left operand
derives at the level of its operator; the levels strictly increase downwards; `b` is the level of the top entry (9 if none) -/
inductive StackD (d : Gen.D) : List (Expr × String × Nat) → List Tok → Nat → Prop
  | nil : StackD d [] [] 9
  | cons {st : List (Expr × String × Nat)} {pre ls : List Tok} {b k : Nat} {t : Tok} {l : Expr} {o : String} :
      StackD d st pre b → k < b → Derives d k ls l → computeOp? (up t.src) = some (o, k) →
      StackD d ((l, o, k) :: st) (pre ++ ls ++ [t]) k

theorem StackD.two_le {d : Gen.D} {st pre b} (h : StackD d st pre b) : 2 ≤ b := by
  cases h with
  | nil => omega
  | cons _ _ _ ho => exact (computeOp_level ho).1

/-- the final `while len(stack) >= 3` -/
theorem collapse_derives {d : Gen.D} {st pre b} (hs : StackD d st pre b) :
    ∀ {m tt top}, Derives d m tt top → m < b → Derives d 8 (pre ++ tt) (PM.collapse st top) := by
  induction hs with
  | nil => intro m tt top ht hm; simpa [PM.collapse] using Derives.up ht (by omega)
  | @cons st pre ls b k t l o hst hk hl ho ih =>
    intro m tt top ht hm
    simp only [PM.collapse]
    have hc : Derives d k (ls ++ t :: tt) (.compute l o top) := Derives.compute ho hl (Derives.up ht (by omega))
    have := ih hc hk
    simpa using this

/-- the inner `while … compute_operator.level >= stack[-2].level` -/
theorem reduceWhile_derives {d : Gen.D} (lvl : Nat) (hl8 : lvl ≤ 8) {st pre b} (hs : StackD d st pre b) :
    ∀ {m tt top}, Derives d m tt top → m < b →
      ∃ pre' tt' b' m', StackD d (PM.reduceWhile lvl st top).1 pre' b' ∧ Derives d m' tt' (PM.reduceWhile lvl st top).2 ∧ m' < b' ∧
        pre' ++ tt' = pre ++ tt ∧ lvl < b' ∧ m' ≤ max m lvl := by
  induction hs with
  | nil => intro m tt top ht hm; exact ⟨[], tt, 9, m, .nil, by simpa [PM.reduceWhile] using ht, hm, rfl, by omega, by omega⟩
  | @cons st pre ls b k t l o hst hk hl ho ih =>
    intro m tt top ht hm
    simp only [PM.reduceWhile]
    split
    · rename_i hge
      have hc : Derives d k (ls ++ t :: tt) (.compute l o top) := Derives.compute ho hl (Derives.up ht (by omega))
      obtain ⟨pre', tt', b', m', h1, h2, h3, h4, h5, h6⟩ := ih hc hk
      exact ⟨pre', tt', b', m', h1, h2, h3, by simpa using h4, h5, by omega⟩
    · rename_i hlt
      exact ⟨pre ++ ls ++ [t], tt, k, m, .cons hst hk hl ho, ht, hm, rfl, by omega, by omega⟩

/-- the induction hypothesis of `parse_derives`: every function of the expression block, at fuel `n` -/
structure WF (d : Gen.D) (n : Nat) : Prop where
  pElement : ∀ ts, RE d 0 [] ts (pElement d n ts)
  pParen : ∀ n0 r0, n0.has LITERAL = false → n0.has PAREN = true → RE d 0 [] (n0 :: r0) (pParen d n n0 r0)
  pNamed : ∀ n0 r0, n0.has LITERAL = false → n0.has PAREN = false → RE d 0 [] (n0 :: r0) (pNamed d n n0 r0 (n0 :: r0))
  pQualified : ∀ n0 n1 r1, n1.srcEq "." = true → RE d 0 [] (n0 :: n1 :: r1) (pQualified d n n0 r1 (n0 :: n1 :: r1))
  pIndex : ∀ before pre ts, Derives d 0 pre before → RE d 0 pre ts (pIndex d n before ts)
  pFuncIdx : ∀ ts, RE d 0 [] ts (pFuncIdx d n ts)
  pFunc : ∀ ts, RE d 0 [] ts (pFunc d n ts)
  pIfCall : ∀ nm name r, FName nm none name → up name = "IF" → RE d 0 nm r (pIfCall d n r)
  pFirstArg : ∀ inner acc r2, pFirstArg d n inner = .ok (acc, r2) →
      (inner = [] ∧ acc = [] ∧ r2 = []) ∨ ∃ u e, inner = u ++ r2 ∧ acc = [e] ∧ Derives d 14 u e
  pCall : ∀ nm s name r, FName nm s name → RE d 0 nm r (pCall d n s name r)
  pArgs : ∀ acc ts ps r, pArgs d n acc ts = .ok (ps, r) → ∃ u es, ts = u ++ r ∧ ps = acc ++ es ∧ CommaTail d 14 u es
  pCase : ∀ ts, RE d 0 [] ts (pCase d n ts)
  pElseEnd : ∀ ts el r, pElseEnd d n ts = .ok (el, r) → ∃ u, ts = u ++ r ∧ ElseEnd d u el
  pWhens : ∀ acc ts cs r, pWhens d n acc ts = .ok (cs, r) → ∃ u cs', ts = u ++ r ∧ cs = acc ++ cs' ∧ Whens d u cs'
  pUnary : ∀ ts, RE d 1 [] ts (pUnary d n ts)
  pCompute : ∀ ts, RE d 8 [] ts (pCompute d n ts)
  pComputeLoop : ∀ st top ts pre tt b, StackD d st pre b → Derives d 1 tt top → RE d 8 (pre ++ tt) ts (pComputeLoop d n st top ts)
  pKeyword : ∀ before pre ts, KB d before pre → RE d 9 pre ts (pKeyword d n before ts)
  pKwFirst : ∀ before pre ts, KB d before pre → RE d 9 pre ts (pKwFirst d n before ts)
  pKwRest : ∀ bv isN r1 pre ns, Derives d 9 pre bv → NotOpt d ns isN → RE d 9 (pre ++ ns) r1 (pKwRest d n bv isN r1)
  pKwBody : ∀ k isN bv r2 pre ns tk, Derives d 9 pre bv → NotOpt d ns isN → up tk.src = k →
      ∀ v r, pKwBody d n k isN bv r2 = .ok (some (v, r)) → ∃ u, r2 = u ++ r ∧ Derives d 9 (pre ++ ns ++ tk :: u) v
  pBetween : ∀ isN bv r2 pre ns tk, Derives d 9 pre bv → NotOpt d ns isN → up tk.src = "BETWEEN" →
      ∀ v r, pBetween d n isN bv r2 = .ok (some (v, r)) → ∃ u, r2 = u ++ r ∧ Derives d 9 (pre ++ ns ++ tk :: u) v
  pInBody : ∀ isN bv r2 pre ns tk, Derives d 9 pre bv → NotOpt d ns isN → up tk.src = "IN" →
      ∀ v r, pInBody d n isN bv r2 = .ok (some (v, r)) → ∃ u, r2 = u ++ r ∧ Derives d 9 (pre ++ ns ++ tk :: u) v
  pSplit : ∀ acc cur ts vs, pSplit d n acc cur ts = .ok vs → ∃ vs', vs = acc ++ vs' ∧ Segs d (splitBy "," ts cur []) vs'
  pCompare : ∀ ts, RE d 10 [] ts (pCompare d n ts)
  pCompareLoop : ∀ acc pre ts, Derives d 10 pre acc → RE d 10 pre ts (pCompareLoop d n acc ts)
  pNot : ∀ ts, RE d 11 [] ts (pNot d n ts)
  pAnd : ∀ ts, RE d 12 [] ts (pAnd d n ts)
  pAndLoop : ∀ acc pre ts, Derives d 12 pre acc → RE d 12 pre ts (pAndLoop d n acc ts)
  pXor : ∀ ts, RE d 13 [] ts (pXor d n ts)
  pXorLoop : ∀ acc pre ts, Derives d 13 pre acc → RE d 13 pre ts (pXorLoop d n acc ts)
  pOr : ∀ ts, RE d 14 [] ts (pOr d n ts)
  pOrLoop : ∀ acc pre ts, Derives d 14 pre acc → RE d 14 pre ts (pOrLoop d n acc ts)
  pSubQuery : ∀ ts v r, pSubQuery d n ts = .ok (v, r) → ∃ g q, ts = g :: r ∧ v = .subQuery q ∧ SubQ d g q
  pCast : ∀ nm name r, FName nm none name → up name = "CAST" → RE d 0 nm r (pCast d n r)
  pExtract : ∀ nm name r, FName nm none name → up name = "EXTRACT" → RE d 0 nm r (pExtract d n r)
  pExtractTail : ∀ a r1 x, pExtractTail d n a r1 = .ok x →
      ∃ tf u2 b, r1 = tf :: u2 ∧ tf.equalsStr "FROM" = true ∧ Derives d 8 u2 b ∧ x = .extract a b
  pWindow : ∀ ts, RE d 0 [] ts (pWindow d n ts)

end WNG
