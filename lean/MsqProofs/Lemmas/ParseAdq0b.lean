import MsqProofs.Lemmas.ParseAdq0
/-!
# Fuel adequacy, hand-written part 2: `.fuel` through the generic combinators; the strictly consuming functions of the block

* `closed` / `eachClosed` / `matchSeq` add no `.fuel`;
* `pJoin`, `pLateral` (the bodies of the two loops of the SELECT parser whose look-ahead may be on ANOTHER cursor — the two-cursor
  quirk of `_parse_single_select_statement`) and `pSelectBody`, `pSingle`, `pSelectStmt` (needed for the loop of `parse_statements`):
  a successful run returns a cursor that lost at least one token, at every fuel.
-/
set_option linter.unusedSimpArgs false
set_option linter.unusedVariables false
set_option maxHeartbeats 1000000
open Lex
namespace PM

theorem matchSeq_nofuel (ts : List Tok) (ks : List String) : matchSeq ts ks ≠ .error .fuel := by
  induction ks generalizing ts with
  | nil => simp [matchSeq]
  | cons k ks ih =>
    cases ts with
    | nil => simp [matchSeq]
    | cons t ts => simp only [matchSeq]; split <;> simp [ih]
/-- `close()` adds only `.parse` (contrapositive form, instantiated from the term `closed res`) -/
theorem closed_nofuel {α : Type} (res : R α) (h : res ≠ .error .fuel) : closed res ≠ .error .fuel := by
  intro hc; unfold closed at hc; split at hc <;> simp_all
/-- a fuel-free parser on every segment -/
theorem eachClosed_nofuel {α : Type} (p : List Tok → R α) (hp : ∀ sg, p sg ≠ .error .fuel) : ∀ segs, eachClosed p segs ≠ .error .fuel := by
  intro segs
  induction segs with
  | nil => simp [eachClosed]
  | cons sg rest ih =>
    intro h
    unfold eachClosed at h
    split at h
    · rename_i e he; cases h; exact closed_nofuel _ (hp sg) he
    · split at h
      · cases h
      · rename_i e he; cases h; exact ih he
/-- a parser that needs `B + weight of its cursor` on every segment: `B + weight of the segment list` is enough -/
theorem eachClosed_adq {α : Type} (p : List Tok → R α) (B f : Nat) (hp : ∀ sg, B + adqWL sg ≤ f → p sg ≠ .error .fuel) :
    ∀ segs, B + adqWLL segs ≤ f → eachClosed p segs ≠ .error .fuel := by
  intro segs
  induction segs with
  | nil => simp [eachClosed]
  | cons sg rest ih =>
    intro hle h
    simp only [adqWLL_cons] at hle
    unfold eachClosed at h
    split at h
    · rename_i e he; cases h; exact closed_nofuel _ (hp sg (by omega)) he
    · split at h
      · cases h
      · rename_i e he; cases h; exact ih (by omega) he

/-! ### strictly consuming functions of the block (every fuel) -/
variable (d : Gen.D)

theorem pJoin_strict (n : Nat) (ts : List Tok) : StrictRel ts (pJoin d n ts) := by
  intro v r h
  cases n with
  | zero => simp [pJoin] at h
  | succ n =>
    have hC := consF_all d n
    unfold pJoin at h
    split_run <;> grind -funext (gen := 40) (instances := 20000) [Lost]
grind_pattern pJoin_strict => pJoin d n ts
theorem pLateral_strict (n : Nat) (ts : List Tok) : StrictRel ts (pLateral d n ts) := by
  intro v r h
  cases n with
  | zero => simp [pLateral] at h
  | succ n =>
    have hC := consF_all d n
    unfold pLateral at h
    split_run <;> grind -funext (gen := 40) (instances := 20000) [Lost]
grind_pattern pLateral_strict => pLateral d n ts
theorem pSelectBody_strict (n : Nat) (w : List Ast.WithTable) (same : Bool) (outer inner : List Tok) :
    StrictRel inner (pSelectBody d n w same outer inner) := by
  intro v r h
  cases n with
  | zero => simp [pSelectBody] at h
  | succ n =>
    have hC := consF_all d n
    unfold pSelectBody at h
    split_run <;> grind -funext (gen := 40) (instances := 20000) [Lost]
grind_pattern pSelectBody_strict => pSelectBody d n w same outer inner
theorem pSingle_strict (n : Nat) (w : List Ast.WithTable) (ts : List Tok) : StrictRel ts (pSingle d n w ts) := by
  intro v r h
  cases n with
  | zero => simp [pSingle] at h
  | succ n =>
    have hC := consF_all d n
    unfold pSingle at h
    split_run <;> grind -funext (gen := 40) (instances := 20000) [Lost]
grind_pattern pSingle_strict => pSingle d n w ts
theorem pSelectStmt_strict (n : Nat) (w : Option (List Ast.WithTable)) (ts : List Tok) : StrictRel ts (pSelectStmt d n w ts) := by
  intro v r h
  cases n with
  | zero => simp [pSelectStmt] at h
  | succ n =>
    have hC := consF_all d n
    unfold pSelectStmt at h
    split_run <;> grind -funext (gen := 40) (instances := 20000) [Lost]
grind_pattern pSelectStmt_strict => pSelectStmt d n w ts

end PM
