import MsqProofs.Lemmas.TQuery0
/-!
# T-parse closed under nesting: the nested expression fragment contains the larger expression fragment (C02)

`TP2.Frag2 d e → TQ.FragE3 d e`, and on `Frag2` the token printers and the top-level token bounds agree (`frag2_sub`): the statements about
`Frag2` (Props/C02T2.lean) are instances of the statements about `FragE3`.
-/
set_option linter.unusedVariables false
set_option linter.unusedSimpArgs false
set_option maxHeartbeats 1000000
open Lex PM Ast TP
namespace TQ
variable {d : Gen.D} {ch : Expr → Bool}

def Inc (d : Gen.D) (ch : Expr → Bool) (e : Expr) : Prop :=
  FragE3 d e = true ∧ toksE3 d ch e = TP2.toksE2 d ch e ∧ tl3 e = TP2.tl e
theorem frag2_notExists {l : Expr} (h : TP2.Frag2 d l = true) : isExists l = false := by
  cases l <;> first | rfl | simp [TP2.Frag2] at h
theorem incL : ∀ (ps : List Expr), (∀ a ∈ ps, Inc d ch a) →
    FragL3 d ps = true ∧ (∀ k, toksArgsTail3 d ch k ps = TP2.toksArgsTail d ch k ps) ∧ (∀ k, toksArgs3 d ch k ps = TP2.toksArgs d ch k ps) ∧
      shortL3 ps = TP2.shortL ps := by
  intro ps
  induction ps with
  | nil => intro _; exact ⟨by simp [FragL3], fun k => by simp [toksArgsTail3, TP2.toksArgsTail], fun k => by simp [toksArgs3, TP2.toksArgs], rfl⟩
  | cons a as ih =>
    intro h
    obtain ⟨h1, h2, h3⟩ := h a (by simp)
    obtain ⟨i1, i2, i3, i4⟩ := ih (fun x hx => h x (by simp [hx]))
    refine ⟨by simp [FragL3, h1, i1], fun k => by simp only [toksArgsTail3, TP2.toksArgsTail, h2, i2], fun k => by simp only [toksArgs3, TP2.toksArgs, h2, i2], ?_⟩
    simp only [shortL3, TP2.shortL, List.all_cons, h3] at i4 ⊢
    rw [i4]
theorem incA : ∀ (cs : List (Expr × Expr)), (∀ p ∈ cs, Inc d ch p.1 ∧ Inc d ch p.2) →
    FragA3 d cs = true ∧ toksArms3 d ch cs = TP2.toksArms d ch cs ∧ tlA3 cs = TP2.tlA cs := by
  intro cs
  induction cs with
  | nil => intro _; exact ⟨by simp [FragA3], by simp [toksArms3, TP2.toksArms], by simp [tlA3, TP2.tlA]⟩
  | cons p r ih =>
    obtain ⟨w, t⟩ := p
    intro h
    obtain ⟨⟨a1, a2, a3⟩, ⟨b1, b2, b3⟩⟩ := h (w, t) (by simp)
    obtain ⟨i1, i2, i3⟩ := ih (fun x hx => h x (by simp [hx]))
    simp only at a1 a2 a3 b1 b2 b3
    exact ⟨by simp [FragA3, a1, b1, i1], by simp only [toksArms3, TP2.toksArms, a2, b2, i2], by simp only [tlA3, TP2.tlA, a3, b3, i3]⟩
theorem incO (o : Option Expr) (h : ∀ y, o = some y → Inc d ch y) :
    FragO3 d o = true ∧ toksElse3 d ch o = TP2.toksElse d ch o ∧ tlO3 o = TP2.tlO o := by
  cases o with
  | none => exact ⟨by simp [FragO3], by simp [toksElse3, TP2.toksElse], by simp [tlO3, TP2.tlO]⟩
  | some y =>
    obtain ⟨a1, a2, a3⟩ := h y rfl
    exact ⟨by simp [FragO3, a1], by simp only [toksElse3, TP2.toksElse, a2], by simp only [tlO3, TP2.tlO, a3]⟩

theorem frag2L_sz : ∀ (ps : List Expr), TP2.Frag2L d ps = true → ∀ a ∈ ps, TP2.Frag2 d a = true ∧ TP2.sz2 a ≤ TP2.sz2L ps := by
  intro ps
  induction ps with
  | nil => intro _ a ha; simp at ha
  | cons p ps ih =>
    intro h a ha
    simp only [TP2.Frag2L, Bool.and_eq_true] at h
    simp only [TP2.sz2L]
    rcases List.mem_cons.1 ha with rfl | ha
    · exact ⟨h.1, by omega⟩
    · have := ih h.2 a ha; exact ⟨this.1, by omega⟩
theorem frag2A_sz : ∀ (cs : List (Expr × Expr)), TP2.Frag2A d cs = true → ∀ p ∈ cs,
    (TP2.Frag2 d p.1 = true ∧ TP2.sz2 p.1 ≤ TP2.sz2A cs) ∧ (TP2.Frag2 d p.2 = true ∧ TP2.sz2 p.2 ≤ TP2.sz2A cs) := by
  intro cs
  induction cs with
  | nil => intro _ a ha; simp at ha
  | cons q cs ih =>
    obtain ⟨w, t⟩ := q
    intro h a ha
    simp only [TP2.Frag2A, Bool.and_eq_true] at h
    simp only [TP2.sz2A]
    rcases List.mem_cons.1 ha with rfl | ha
    · exact ⟨⟨h.1.1, by dsimp only; omega⟩, ⟨h.1.2, by dsimp only; omega⟩⟩
    · have := ih h.2 a ha; exact ⟨⟨this.1.1, by omega⟩, ⟨this.2.1, by omega⟩⟩

theorem frag2_sub : ∀ n e, TP2.sz2 e ≤ n → TP2.Frag2 d e = true → Inc d ch e := by
  intro n
  induction n with
  | zero => intro e he; have := TP2.sz2_pos e; omega
  | succ n ih =>
    intro e he hf
    have hL : ∀ ps, TP2.sz2L ps ≤ n → TP2.Frag2L d ps = true → ∀ a ∈ ps, Inc d ch a := fun ps hs hp a ha => by
      obtain ⟨x, y⟩ := frag2L_sz ps hp a ha; exact ih a (by omega) x
    have hA : ∀ cs, TP2.sz2A cs ≤ n → TP2.Frag2A d cs = true → ∀ p ∈ cs, Inc d ch p.1 ∧ Inc d ch p.2 := fun cs hs hp p hpm => by
      obtain ⟨⟨x1, x2⟩, ⟨y1, y2⟩⟩ := frag2A_sz cs hp p hpm; exact ⟨ih _ (by omega) x1, ih _ (by omega) y1⟩
    have hO : ∀ o, TP2.sz2O o ≤ n → TP2.Frag2O d o = true → ∀ y, o = some y → Inc d ch y := fun o hs hp y hy => by
      subst hy; simp only [TP2.Frag2O] at hp; simp only [TP2.sz2O] at hs; exact ih y hs hp
    cases e with
    | column t c => cases t <;> (simp only [TP2.Frag2] at hf; exact ⟨by simpa [FragE3] using hf, by simp [toksE3, TP2.toksE2], by simp [tl3, TP2.tl, PR.lvl]⟩)
    | literal v => simp only [TP2.Frag2] at hf; exact ⟨by simpa [FragE3] using hf, by simp [toksE3, TP2.toksE2], by simp [tl3, TP2.tl, PR.lvl]⟩
    | wildcard t => cases t <;> (simp only [TP2.Frag2] at hf; exact ⟨by simpa [FragE3] using hf, by simp [toksE3, TP2.toksE2], by simp [tl3, TP2.tl, PR.lvl]⟩)
    | func s nm ps =>
      simp only [TP2.Frag2, Bool.and_eq_true] at hf; simp only [TP2.sz2] at he
      obtain ⟨i1, _, i3, _⟩ := incL ps (hL ps (by omega) hf.2)
      exact ⟨by simp [FragE3, hf.1, i1], by cases s <;> simp only [toksE3, TP2.toksE2, i3], by simp [tl3, TP2.tl]⟩
    | agg nm ps dist =>
      simp only [TP2.Frag2, Bool.and_eq_true] at hf; simp only [TP2.sz2] at he
      obtain ⟨i1, _, i3, _⟩ := incL ps (hL ps (by omega) hf.2)
      exact ⟨by simp [FragE3, hf.1, i1], by simp only [toksE3, TP2.toksE2, i3], by simp [tl3, TP2.tl]⟩
    | caseCond cs els =>
      simp only [TP2.Frag2, Bool.and_eq_true] at hf; simp only [TP2.sz2] at he
      obtain ⟨a1, a2, a3⟩ := incA cs (hA cs (by omega) hf.1.1)
      obtain ⟨o1, o2, o3⟩ := incO els (hO els (by omega) hf.1.2)
      exact ⟨by simp only [FragE3, a1, o1, hf.2, Bool.and_self], by simp only [toksE3, TP2.toksE2, a2, o2], by simp only [tl3, TP2.tl, a3, o3]⟩
    | caseVal v cs els =>
      simp only [TP2.Frag2, Bool.and_eq_true] at hf; simp only [TP2.sz2] at he
      obtain ⟨v1, v2, v3⟩ := ih v (by omega) hf.1.1.1
      obtain ⟨a1, a2, a3⟩ := incA cs (hA cs (by omega) hf.1.1.2)
      obtain ⟨o1, o2, o3⟩ := incO els (hO els (by omega) hf.1.2)
      exact ⟨by simp only [FragE3, v1, a1, o1, hf.2, Bool.and_self], by simp only [toksE3, TP2.toksE2, v2, a2, o2], by simp only [tl3, TP2.tl, v3, a3, o3]⟩
    | unary o x =>
      simp only [TP2.Frag2, Bool.and_eq_true] at hf; simp only [TP2.sz2] at he
      obtain ⟨x1, x2, x3⟩ := ih x (by omega) hf.2
      exact ⟨by simp only [FragE3, hf.1, x1, Bool.and_self], by simp only [toksE3, TP2.toksE2, x2], by simp only [tl3, TP2.tl, x3]⟩
    | compute l o r =>
      simp only [TP2.Frag2, Bool.and_eq_true] at hf; simp only [TP2.sz2] at he
      obtain ⟨l1, l2, l3⟩ := ih l (by omega) hf.1.2
      obtain ⟨r1, r2, r3⟩ := ih r (by omega) hf.2
      exact ⟨by simp only [FragE3, hf.1.1, l1, r1, Bool.and_self], by simp only [toksE3, TP2.toksE2, l2, r2], by simp only [tl3, TP2.tl, l3, r3]⟩
    | kw kk n0 l r =>
      simp only [TP2.Frag2, Bool.and_eq_true] at hf; simp only [TP2.sz2] at he
      obtain ⟨l1, l2, l3⟩ := ih l (by omega) hf.1
      have hne := frag2_notExists hf.1
      by_cases hk : kk = .in_
      · subst hk
        simp only [beq_self_eq_true, if_true] at hf
        cases r with
        | subValue vs =>
          simp only [TP2.inRhs, Bool.and_eq_true] at hf; simp only [TP2.sz2] at he
          obtain ⟨i1, _, i3, i4⟩ := incL vs (hL vs (by omega) hf.2.1.1)
          refine ⟨?_, by simp only [toksE3, TP2.toksE2, l2, i3], by simp only [tl3, TP2.tl, l3]⟩
          simp only [FragE3, l1, beq_self_eq_true, if_true, inRhs3, i1, hf.2.1.2, i4, hf.2.2, hne, Bool.not_false, Bool.and_self]
        | _ => simp [TP2.inRhs] at hf
      · have hk' : (kk == KwKind.in_) = false := by simpa using hk
        simp only [hk', Bool.false_eq_true, if_false] at hf
        obtain ⟨r1, r2, r3⟩ := ih r (by omega) hf.2
        exact ⟨by simp only [FragE3, l1, hk', Bool.false_eq_true, if_false, r1, hne, Bool.not_false, Bool.and_self],
          by simp only [toksE3, TP2.toksE2, l2, r2], by simp only [tl3, TP2.tl, l3, r3]⟩
    | between n0 b f t =>
      simp only [TP2.Frag2, Bool.and_eq_true] at hf; simp only [TP2.sz2] at he
      obtain ⟨b1, b2, b3⟩ := ih b (by omega) hf.1.1
      obtain ⟨f1, f2, f3⟩ := ih f (by omega) hf.1.2
      obtain ⟨t1, t2, t3⟩ := ih t (by omega) hf.2
      exact ⟨by simp only [FragE3, b1, f1, t1, frag2_notExists hf.1.1, Bool.not_false, Bool.and_self],
        by simp only [toksE3, TP2.toksE2, b2, f2, t2], by simp only [tl3, TP2.tl, b3, f3, t3]⟩
    | compare o l r =>
      simp only [TP2.Frag2, Bool.and_eq_true] at hf; simp only [TP2.sz2] at he
      obtain ⟨l1, l2, l3⟩ := ih l (by omega) hf.1.2
      obtain ⟨r1, r2, r3⟩ := ih r (by omega) hf.2
      exact ⟨by simp only [FragE3, hf.1.1, l1, r1, frag2_notExists hf.1.2, Bool.not_false, Bool.and_self],
        by simp only [toksE3, TP2.toksE2, l2, r2], by simp only [tl3, TP2.tl, l3, r3]⟩
    | not_ x =>
      simp only [TP2.Frag2] at hf; simp only [TP2.sz2] at he
      obtain ⟨x1, x2, x3⟩ := ih x (by omega) hf
      exact ⟨by simp only [FragE3, x1], by simp only [toksE3, TP2.toksE2, x2], by simp only [tl3, TP2.tl, x3]⟩
    | and_ l r =>
      simp only [TP2.Frag2, Bool.and_eq_true] at hf; simp only [TP2.sz2] at he
      obtain ⟨l1, l2, l3⟩ := ih l (by omega) hf.1
      obtain ⟨r1, r2, r3⟩ := ih r (by omega) hf.2
      exact ⟨by simp only [FragE3, l1, r1, Bool.and_self], by simp only [toksE3, TP2.toksE2, l2, r2], by simp only [tl3, TP2.tl, l3, r3]⟩
    | xor l r =>
      simp only [TP2.Frag2, Bool.and_eq_true] at hf; simp only [TP2.sz2] at he
      obtain ⟨l1, l2, l3⟩ := ih l (by omega) hf.1
      obtain ⟨r1, r2, r3⟩ := ih r (by omega) hf.2
      exact ⟨by simp only [FragE3, l1, r1, Bool.and_self], by simp only [toksE3, TP2.toksE2, l2, r2], by simp only [tl3, TP2.tl, l3, r3]⟩
    | or_ l r =>
      simp only [TP2.Frag2, Bool.and_eq_true] at hf; simp only [TP2.sz2] at he
      obtain ⟨l1, l2, l3⟩ := ih l (by omega) hf.1
      obtain ⟨r1, r2, r3⟩ := ih r (by omega) hf.2
      exact ⟨by simp only [FragE3, l1, r1, Bool.and_self], by simp only [toksE3, TP2.toksE2, l2, r2], by simp only [tl3, TP2.tl, l3, r3]⟩
    | _ => simp [TP2.Frag2] at hf

end TQ
