import MsqProofs.Props.C03Q
/-!
# The larger nested fragment (CAST / EXTRACT / IF / array index / window functions; USING, GROUPING SETS / WITH CUBE / WITH ROLLUP, NULLS
FIRST / LAST, SORT / DISTRIBUTE / CLUSTER BY, LATERAL VIEW): base definitions (C03 / C02 / C01)

Built NEXT to `TQ` (Lemmas/TQuery*.lean, Props/C03Q.lean), whose definitions and statements are unchanged; `TQ.FragQ ⊆ TQ2.FragQ2` with
equal renderings is proved in Lemmas/TQuery2I.lean.

* `toksE4 d ch e` / `toksS4 d ch s` / `toksQ2 d ch q` — the token-level printers (one `mutual` block).  On the old constructors they are
  `TQ.toksE3` / `toksS3` / `toksQ` clause for clause.  New: `CAST(e AS [SIGNED] type [(p, …)])`, `EXTRACT(n FROM e)`, `fn OVER (…)`,
  `a[i]` (an ARRAY_INDEX group), order items with `NULLS FIRST` / `NULLS LAST`, `JOIN t f(…)` (the USING rule is a call), `GROUP BY keys
  [GROUPING SETS (…)] [WITH CUBE] [WITH ROLLUP]`, `LATERAL VIEW [OUTER] f(…) v AS a, b`, `SORT BY` / `DISTRIBUTE BY` / `CLUSTER BY`.
* `FragE4` / `FragS4` / `FragQ2` — the fragment; `szE4` / `szS4` / `szQ2` — the common size.
* continuations: `Bd4 d k rest` — `rest` may follow clause number `k` of a SELECT, with the finer clause numbering 0 select list, 1 FROM,
  2 LATERAL VIEW, 3 JOIN, 4 WHERE, 5 GROUP BY, 6 HAVING, 7 ORDER BY, 8 SORT BY, 9 DISTRIBUTE BY, 10 CLUSTER BY, 11 LIMIT (`rank4`), and the
  head is not `OVER`; `stopsQ2 d rest` = `Bd4 d 11 rest` and the head is no set operator (`TQ.stopsQ d rest → stopsQ2 d rest`:
  `stopsQ2_of_stopsQ`).
-/
set_option linter.unusedVariables false
set_option linter.unusedSimpArgs false
open Lex PM Ast TP TP2 TS
open TQ (tblTok unionWords lvlH isExists lvlH_eq lvlH_ge lvlH_of_le8 isOkPair tblOK)
namespace TQ2

/-! ### tokens -/
/-- an array index `[ … ]`: a slice group with the ARRAY_INDEX mark -/
def arr (cs : List Tok) : Tok := .group .slice cs ARRAY
def castVal (ty : String) : String := match Gen.castTypes.find? (·.1 == ty) with | some e => e.2 | none => ""
def intsTail : List Int → List Tok
  | [] => []
  | n :: r => TP2.commaTok :: intTok n :: intsTail r
def intsToks : List Int → List Tok
  | [] => []
  | n :: r => intTok n :: intsTail r
def castParamToks : Option (List Int) → List Tok
  | none => []
  | some l => [grp (intsToks l)]
def rowToks : RowItem → List Tok
  | .current => [opTok "CURRENT", opTok "ROW"]
  | .unbounded p => [opTok "UNBOUNDED", opTok (if p then "PRECEDING" else "FOLLOWING")]
  | .num n p => [intTok n, opTok (if p then "PRECEDING" else "FOLLOWING")]
def toksRows : Option (RowItem × RowItem) → List Tok
  | none => []
  | some (a, b) => opTok "ROWS" :: opTok "BETWEEN" :: (rowToks a ++ opTok "AND" :: rowToks b)
def aliasTail : List String → List Tok
  | [] => []
  | a :: r => TP2.commaTok :: qTok a :: aliasTail r
def aliasList : List String → List Tok
  | [] => []
  | a :: r => qTok a :: aliasTail r
def headIsGrp (ts : List Tok) : Bool := match ts with | t :: _ => t.has PAREN | [] => false

mutual
def toksE4 (d : Gen.D) (ch : Expr → Bool) : Expr → List Tok
  | .column none c => [nameTok c]
  | .column (some t) c => [nameTok t, dotTok, nameTok c]
  | .literal v => [litTok v]
  | .wildcard none => [starTok]
  | .wildcard (some t) => [qTok t, dotTok, starTok]
  | .func s n ps => (match s with | some s => [nameTok s, dotTok] | none => []) ++ [qTok n, grp (toksArgs4 d ch 14 ps)]
  | .agg n ps dist => [opTok n, grp ((if dist then [opTok "DISTINCT"] else []) ++ toksArgs4 d ch 14 ps)]
  | .cast e sg ty ps =>
      [opTok "CAST", grp (wrapT (ch e) e 8 (toksE4 d ch e) ++ opTok "AS" :: ((if sg then [opTok "SIGNED"] else []) ++ opTok (castVal ty) :: castParamToks ps))]
  | .extract n e => [opTok "EXTRACT", grp (wrapT (ch n) n 8 (toksE4 d ch n) ++ opTok "FROM" :: wrapT (ch e) e 8 (toksE4 d ch e))]
  | .window fn part ord rows =>
      toksE4 d ch fn ++ [opTok "OVER", grp (((if part.isEmpty then [] else [opTok "PARTITION", opTok "BY"]) ++ toksArgs4 d ch 8 part) ++
        (((if ord.isEmpty then [] else [opTok "ORDER", opTok "BY"]) ++ toksOrdList4 d ch ord) ++ toksRows rows))]
  | .caseCond cs els => opTok "CASE" :: (toksArms4 d ch cs ++ (toksElse4 d ch els ++ [opTok "END"]))
  | .caseVal v cs els =>
      opTok "CASE" :: (wrapT (ch v) v 14 (toksE4 d ch v) ++ (toksArms4 d ch cs ++ (toksElse4 d ch els ++ [opTok "END"])))
  | .subValue vs => [grp (toksArgs4 d ch 8 vs)]
  | .subQuery q => [grp (toksQ2 d ch q)]
  | .exists_ v => opTok "EXISTS" :: toksE4 d ch v
  | .index a i => toksE4 d ch a ++ [arr (wrapT (ch i) i 8 (toksE4 d ch i))]
  | .unary o e => opTok (cval o) :: wrapT (ch e) e 2 (toksE4 d ch e)
  | .compute l o r =>
      wrapT (ch l) l (PR.lvl (.compute l o r)) (toksE4 d ch l) ++ opTok (cval o) :: wrapT (ch r) r (PR.lvl (.compute l o r) - 1) (toksE4 d ch r)
  | .kw k n l r => wrapT (ch l) l 9 (toksE4 d ch l) ++ (kwToks k n ++ wrapT (ch r && k != .in_) r 8 (toksE4 d ch r))
  | .between n b f t =>
      wrapT (ch b) b 9 (toksE4 d ch b) ++ ((if n then [opTok "NOT"] else []) ++ opTok "BETWEEN" :: (wrapT (ch f) f 8 (toksE4 d ch f) ++ opTok "AND" :: wrapT (ch t) t 8 (toksE4 d ch t)))
  | .compare o l r => wrapT (ch l) l 10 (toksE4 d ch l) ++ opTok (cmpVal o) :: wrapT (ch r) r 9 (toksE4 d ch r)
  | .not_ e => opTok "NOT" :: wrapT (ch e) e 11 (toksE4 d ch e)
  | .and_ l r => wrapT (ch l) l 12 (toksE4 d ch l) ++ opTok "AND" :: wrapT (ch r) r 11 (toksE4 d ch r)
  | .xor l r => wrapT (ch l) l 13 (toksE4 d ch l) ++ opTok "XOR" :: wrapT (ch r) r 12 (toksE4 d ch r)
  | .or_ l r => wrapT (ch l) l 14 (toksE4 d ch l) ++ opTok "OR" :: wrapT (ch r) r 13 (toksE4 d ch r)
  | _ => []
def toksArgs4 (d : Gen.D) (ch : Expr → Bool) (k : Nat) : List Expr → List Tok
  | [] => []
  | a :: as => wrapT (ch a) a k (toksE4 d ch a) ++ toksArgsTail4 d ch k as
def toksArgsTail4 (d : Gen.D) (ch : Expr → Bool) (k : Nat) : List Expr → List Tok
  | [] => []
  | a :: as => TP2.commaTok :: (wrapT (ch a) a k (toksE4 d ch a) ++ toksArgsTail4 d ch k as)
def toksArms4 (d : Gen.D) (ch : Expr → Bool) : List (Expr × Expr) → List Tok
  | [] => []
  | (w, t) :: r =>
      opTok "WHEN" :: (wrapT (ch w) w 14 (toksE4 d ch w) ++ opTok "THEN" :: (wrapT (ch t) t 14 (toksE4 d ch t) ++ toksArms4 d ch r))
def toksElse4 (d : Gen.D) (ch : Expr → Bool) : Option Expr → List Tok
  | none => []
  | some y => opTok "ELSE" :: wrapT (ch y) y 14 (toksE4 d ch y)
def toksQ2 (d : Gen.D) (ch : Expr → Bool) : Query → List Tok
  | .single s => toksS4 d ch s
  | .union _ s us => toksS4 d ch s ++ toksUn2 d ch us
def toksUn2 (d : Gen.D) (ch : Expr → Bool) : List (String × Select) → List Tok
  | [] => []
  | (t, s) :: r => unionWords t ++ (toksS4 d ch s ++ toksUn2 d ch r)
def toksS4 (d : Gen.D) (ch : Expr → Bool) : Select → List Tok
  | .mk _ dist cols fr lats js wh gb hv ob sb db cb lm =>
      opTok "SELECT" :: ((if dist then [opTok "DISTINCT"] else []) ++ (toksCols4 d ch cols ++ (toksFrom4 d ch fr ++ (toksLats4 d ch lats ++
        (toksJoins4 d ch js ++ (toksOptE4 d ch "WHERE" wh ++ (toksGroup4 d ch gb ++ (toksOptE4 d ch "HAVING" hv ++ (toksOrder4 d ch ob ++
          (toksSort4 d ch sb ++ (toksBy4 d ch "DISTRIBUTE" db ++ (toksBy4 d ch "CLUSTER" cb ++ toksLimit lm))))))))))))
def toksCols4 (d : Gen.D) (ch : Expr → Bool) : List (Expr × Option String) → List Tok
  | [] => []
  | (e, a) :: cs => toksE4 d ch e ++ aliasToks a ++ toksColsTail4 d ch cs
def toksColsTail4 (d : Gen.D) (ch : Expr → Bool) : List (Expr × Option String) → List Tok
  | [] => []
  | (e, a) :: cs => TS.commaTok :: (toksE4 d ch e ++ aliasToks a ++ toksColsTail4 d ch cs)
def toksRef4 (d : Gen.D) (ch : Expr → Bool) : TableRef → List Tok
  | .table s n => [tblTok s n]
  | .sub q => [grp (toksQ2 d ch q)]
def toksTable4 (d : Gen.D) (ch : Expr → Bool) : FromTable → List Tok
  | .mk t a => toksRef4 d ch t ++ aliasToks a
def toksTablesTail4 (d : Gen.D) (ch : Expr → Bool) : List FromTable → List Tok
  | [] => []
  | t :: ts => TS.commaTok :: (toksTable4 d ch t ++ toksTablesTail4 d ch ts)
def toksFrom4 (d : Gen.D) (ch : Expr → Bool) : Option (List FromTable) → List Tok
  | some (t :: ts) => opTok "FROM" :: (toksTable4 d ch t ++ toksTablesTail4 d ch ts)
  | _ => []
def toksLat4 (d : Gen.D) (ch : Expr → Bool) : Lateral → List Tok
  | .mk o fn v as =>
      opTok "LATERAL" :: opTok "VIEW" :: ((if o then [opTok "OUTER"] else []) ++ (toksE4 d ch fn ++ opTok v :: opTok "AS" :: aliasList as))
def toksLats4 (d : Gen.D) (ch : Expr → Bool) : List Lateral → List Tok
  | [] => []
  | l :: ls => toksLat4 d ch l ++ toksLats4 d ch ls
def toksRule4 (d : Gen.D) (ch : Expr → Bool) : Option JoinRule → List Tok
  | some (.on e) => opTok "ON" :: toksE4 d ch e
  | some (.using u) => toksE4 d ch u
  | none => []
def toksJoin4 (d : Gen.D) (ch : Expr → Bool) : Join → List Tok
  | .mk ty t rule => joinWords ty ++ (toksTable4 d ch t ++ toksRule4 d ch rule)
def toksJoins4 (d : Gen.D) (ch : Expr → Bool) : List Join → List Tok
  | [] => []
  | j :: js => toksJoin4 d ch j ++ toksJoins4 d ch js
def toksOptE4 (d : Gen.D) (ch : Expr → Bool) (kw : String) : Option Expr → List Tok
  | some e => opTok kw :: toksE4 d ch e
  | none => []
/-- one grouping set: a single element bare unless its rendering starts with a bracket (then one more bracket), otherwise `(e₁, …, eₙ)` -/
def toksSet4 (d : Gen.D) (ch : Expr → Bool) : List Expr → List Tok
  | [] => [grp []]
  | [e] => if headIsGrp (wrapT (ch e) e 8 (toksE4 d ch e)) then [grp (wrapT (ch e) e 8 (toksE4 d ch e))] else wrapT (ch e) e 8 (toksE4 d ch e)
  | e :: e2 :: es => [grp (wrapT (ch e) e 8 (toksE4 d ch e) ++ TP2.commaTok :: (wrapT (ch e2) e2 8 (toksE4 d ch e2) ++ toksArgsTail4 d ch 8 es))]
def toksSetsTail4 (d : Gen.D) (ch : Expr → Bool) : List (List Expr) → List Tok
  | [] => []
  | g :: gs => TP2.commaTok :: (toksSet4 d ch g ++ toksSetsTail4 d ch gs)
def toksSets4 (d : Gen.D) (ch : Expr → Bool) : List (List Expr) → List Tok
  | [] => []
  | g :: gs => toksSet4 d ch g ++ toksSetsTail4 d ch gs
def toksSetsOpt4 (d : Gen.D) (ch : Expr → Bool) : Option (List (List Expr)) → List Tok
  | none => []
  | some l => [opTok "GROUPING", opTok "SETS", grp (toksSets4 d ch l)]
def toksGroup4 (d : Gen.D) (ch : Expr → Bool) : Option GroupBy → List Tok
  | some (.mk cols sets cube rollup) =>
      opTok "GROUP" :: opTok "BY" :: (toksArgs4 d ch 8 cols ++ (toksSetsOpt4 d ch sets ++
        ((if cube then [opTok "WITH", opTok "CUBE"] else []) ++ (if rollup then [opTok "WITH", opTok "ROLLUP"] else []))))
  | none => []
def toksOrdItem4 (d : Gen.D) (ch : Expr → Bool) : OrderItem → List Tok
  | .mk e desc nf nl => wrapT (ch e) e 8 (toksE4 d ch e) ++ ((if desc then [opTok "DESC"] else []) ++
      ((if nf then [opTok "NULLS", opTok "FIRST"] else []) ++ (if nl then [opTok "NULLS", opTok "LAST"] else [])))
def toksOrdTail4 (d : Gen.D) (ch : Expr → Bool) : List OrderItem → List Tok
  | [] => []
  | o :: os => TS.commaTok :: (toksOrdItem4 d ch o ++ toksOrdTail4 d ch os)
def toksOrdList4 (d : Gen.D) (ch : Expr → Bool) : List OrderItem → List Tok
  | [] => []
  | o :: os => toksOrdItem4 d ch o ++ toksOrdTail4 d ch os
def toksOrder4 (d : Gen.D) (ch : Expr → Bool) : Option (List OrderItem) → List Tok
  | some (o :: os) => opTok "ORDER" :: opTok "BY" :: (toksOrdItem4 d ch o ++ toksOrdTail4 d ch os)
  | _ => []
def toksSort4 (d : Gen.D) (ch : Expr → Bool) : Option (List OrderItem) → List Tok
  | some (o :: os) => opTok "SORT" :: opTok "BY" :: (toksOrdItem4 d ch o ++ toksOrdTail4 d ch os)
  | _ => []
def toksBy4 (d : Gen.D) (ch : Expr → Bool) (kw : String) : Option (List Expr) → List Tok
  | some (e :: es) => opTok kw :: opTok "BY" :: (wrapT (ch e) e 8 (toksE4 d ch e) ++ toksArgsTail4 d ch 8 es)
  | _ => []
end
def W4 (d : Gen.D) (ch : Expr → Bool) (e : Expr) (k : Nat) : List Tok := wrapT (ch e) e k (toksE4 d ch e)

/-! ### an upper bound for the number of top-level tokens of a rendering -/
mutual
def tl4 : Expr → Nat
  | .column (some _) _ => 3
  | .wildcard (some _) => 3
  | .func _ _ _ => 4
  | .agg _ _ _ => 2
  | .cast _ _ _ _ => 2
  | .extract _ _ => 2
  | .window fn _ _ _ => tl4 fn + 2
  | .index a _ => tl4 a + 1
  | .caseCond cs els => 2 + tlA4 cs + tlO4 els
  | .caseVal v cs els => 2 + tl4 v + tlA4 cs + tlO4 els
  | .exists_ v => 1 + tl4 v
  | .unary _ e => 1 + tl4 e
  | .compute l _ r => tl4 l + 1 + tl4 r
  | .kw _ _ l r => tl4 l + 2 + tl4 r
  | .between _ b f t => tl4 b + 3 + tl4 f + tl4 t
  | .compare _ l r => tl4 l + 1 + tl4 r
  | .not_ e => 1 + tl4 e
  | .and_ l r => tl4 l + 1 + tl4 r
  | .xor l r => tl4 l + 1 + tl4 r
  | .or_ l r => tl4 l + 1 + tl4 r
  | _ => 1
def tlA4 : List (Expr × Expr) → Nat
  | [] => 0
  | (w, t) :: r => 2 + tl4 w + tl4 t + tlA4 r
def tlO4 : Option Expr → Nat
  | none => 0
  | some y => 1 + tl4 y
end
theorem tl4_pos (e : Expr) : 1 ≤ tl4 e := by
  cases e with
  | column t c => cases t <;> simp [tl4]
  | wildcard t => cases t <;> simp [tl4]
  | _ => first | (simp only [tl4]; omega) | simp [tl4]
def shortL4 (vs : List Expr) : Bool := vs.all (fun v => decide (tl4 v ≤ 20))

/-! ### continuations -/
/-- the rank of the clause a word starts (finer than `TS.rank`: LATERAL VIEW and the three Hive clauses have their own numbers); 0 for the
words that continue a clause -/
def rank4 (u : String) : Nat :=
  if u == "FROM" then 1
  else if u == "LATERAL" then 2
  else if ["JOIN", "INNER", "LEFT", "RIGHT", "FULL", "CROSS"].contains u then 3
  else if u == "WHERE" then 4
  else if u == "GROUP" then 5
  else if u == "HAVING" then 6
  else if u == "ORDER" then 7
  else if u == "SORT" then 8
  else if u == "DISTRIBUTE" then 9
  else if u == "CLUSTER" then 10
  else if u == "LIMIT" then 11
  else if [",", "AS", "ON", "USING", "DISTINCT", "VIEW", "WITH", "GROUPING", "BY", "ASC", "DESC", "NULLS", "OFFSET", "SELECT"].contains u then 0
  else 12
/-- the head of a continuation: it does not continue an expression, is not read as an alias (no NAME mark, or one of the words `pAlias`
leaves alone), is no bracket, and starts a clause after clause `k` (or nothing of a SELECT) -/
def bdTok4 (d : Gen.D) (k : Nat) (t : Tok) : Bool :=
  stopTok d 14 t && (!t.has NAME || ["CROSS", "SORT", "DISTRIBUTE", "CLUSTER"].contains (up t.src)) && !t.has PAREN &&
    decide (k < rank4 (up t.src)) && !t.srcEqUp "OVER"
def Bd4 (d : Gen.D) (k : Nat) : List Tok → Bool
  | [] => true
  | t :: _ => bdTok4 d k t
/-- nothing of a query follows -/
def stopsQ2 (d : Gen.D) (rest : List Tok) : Bool := Bd4 d 11 rest && !setOpHead rest

/-! ### the fragment -/
/-- a join type whose words are found again as that type; its first word may follow FROM and LATERAL VIEW -/
def joinTyOK4 (d : Gen.D) (ty : String) : Bool :=
  (match firstEnumA Gen.joinTypes (joinWords ty) with | some (n, k) => n == ty && k == (joinWords ty).length | none => false) &&
    (match joinWords ty with | t :: _ => bdTok4 d 2 t && joinHead [t] | [] => false)
def unionTyOK4 (d : Gen.D) (ty : String) : Bool :=
  (match firstEnumA Gen.unionTypes (unionWords ty) with | some (n, k) => n == ty && k == (unionWords ty).length | none => false) &&
    (match unionWords ty with | t :: _ => bdTok4 d 11 t && setOpHead [t] | [] => false)
/-- a CAST type of the regenerated table: its word is found again as that type, and is not `SIGNED` -/
def castTyOK (ty : String) : Bool :=
  (match Gen.castTypes.find? (fun k => (opTok (castVal ty)).equalsStr k.2) with | some (t, _) => t == ty | none => false) &&
    !(opTok (castVal ty)).srcEqUp "SIGNED" && !(opTok (castVal ty)).has PAREN
/-- a non-negative integer whose decimal text `int()` reads back -/
def intOK (n : Int) : Bool := decide (0 ≤ n) && isOkInt (pyInt (intTok n).src) n
def castParamsOK : Option (List Int) → Bool
  | none => true
  | some l => l.all intOK
/-- a frame bound: `n PRECEDING / FOLLOWING` with `n` a non-negative integer (0 too) that is read back, and is none of the two words -/
def rowOK : RowItem → Bool
  | .num n _ => intOK n && !(intTok n).srcEqUp "CURRENT" && !(intTok n).srcEqUp "UNBOUNDED"
  | _ => true
def rowsOK : Option (RowItem × RowItem) → Bool
  | none => true
  | some (a, b) => rowOK a && rowOK b
/-- the aliases of a LATERAL VIEW: at least one, each printed by `quoteName` and read back -/
def aliasesOK : List String → Bool
  | [] => false
  | a :: as => (a :: as).all (fun x => nm2OK (qTok x) x)
/-- `IF(…)`: the parser stores the name `IF` itself -/
def ifOK (d : Gen.D) (s : Option String) (n : String) : Bool :=
  s.isNone && n == "IF" && nmOK d (qTok n) n && isOkNoneS (splitName (qTok n).src) n

mutual
def FragE4 (d : Gen.D) : Expr → Bool
  | .column none c => colOK d c
  | .column (some t) c => qcolOK d t c
  | .literal v => litOK d v
  | .wildcard none => true
  | .wildcard (some t) => wildOK d t
  | .func s n ps => (fnOK d s n || ifOK d s n) && FragL4 d ps
  | .agg n ps _ => aggOK d n && FragL4 d ps
  | .cast e _ ty ps => FragE4 d e && castTyOK ty && castParamsOK ps
  | .extract n e => FragE4 d n && FragE4 d e
  | .window fn part ord rows => winFnOK4 d fn && FragL4 d part && ordTailOK4 d ord && rowsOK rows
  | .index a i => idxBaseOK4 d a && FragE4 d i
  | .caseCond cs els => FragA4 d cs && FragO4 d els && !cs.isEmpty
  | .caseVal v cs els => FragE4 d v && FragA4 d cs && FragO4 d els && !cs.isEmpty
  | .subQuery q => FragQ2 d q
  | .exists_ v => isSubQ4 d v
  | .unary o e => unOK d o && FragE4 d e
  | .compute l o r => binOK d o && FragE4 d l && FragE4 d r
  | .kw k _ l r => FragE4 d l && (if k == .in_ then inRhs4 d r else FragE4 d r) && !isExists l
  | .between _ b f t => FragE4 d b && FragE4 d f && FragE4 d t && !isExists b
  | .compare o l r => cmpOK d o && FragE4 d l && FragE4 d r && !isExists l
  | .not_ e => FragE4 d e
  | .and_ l r => FragE4 d l && FragE4 d r
  | .xor l r => FragE4 d l && FragE4 d r
  | .or_ l r => FragE4 d l && FragE4 d r
  | _ => false
def FragL4 (d : Gen.D) : List Expr → Bool
  | [] => true
  | a :: as => FragE4 d a && FragL4 d as
def FragA4 (d : Gen.D) : List (Expr × Expr) → Bool
  | [] => true
  | (w, t) :: r => FragE4 d w && FragE4 d t && FragA4 d r
def FragO4 (d : Gen.D) : Option Expr → Bool
  | none => true
  | some y => FragE4 d y
def inRhs4 (d : Gen.D) : Expr → Bool
  | .subValue vs => FragL4 d vs && !vs.isEmpty && shortL4 vs
  | .subQuery q => FragQ2 d q
  | _ => false
def isSubQ4 (d : Gen.D) : Expr → Bool
  | .subQuery q => FragQ2 d q
  | _ => false
/-- the function of a window expression: a plain call or an aggregate call -/
def winFnOK4 (d : Gen.D) : Expr → Bool
  | .func none n ps => fnOK d none n && FragL4 d ps
  | .agg n ps _ => aggOK d n && FragL4 d ps
  | _ => false
/-- what an array index is applied to: a column or a plain call -/
def idxBaseOK4 (d : Gen.D) : Expr → Bool
  | .column none c => colOK d c
  | .column (some t) c => qcolOK d t c
  | .func none n ps => fnOK d none n && FragL4 d ps
  | _ => false
def FragQ2 (d : Gen.D) : Query → Bool
  | .single s => FragS4 d s
  | .union ws s us => (match ws with | some [] => true | _ => false) && FragS4 d s && FragUn2 d us && !us.isEmpty
def FragUn2 (d : Gen.D) : List (String × Select) → Bool
  | [] => true
  | (t, s) :: r => unionTyOK4 d t && FragS4 d s && FragUn2 d r
def FragS4 (d : Gen.D) : Select → Bool
  | .mk (some []) dist cols fr lats js wh gb hv ob sb db cb lm =>
      colsOK4 d cols && !cols.isEmpty && fromOK4 d fr && latsOK4 d lats && joinsOK4 d js && FragO4 d wh && groupOK4 d gb && FragO4 d hv &&
        orderOK4 d ob && orderOK4 d sb && byOK4 d db && byOK4 d cb && limitOK lm && (dist || !searchStrUp (toksCols4 d noX cols) "DISTINCT")
  | _ => false
def colsOK4 (d : Gen.D) : List (Expr × Option String) → Bool
  | [] => true
  | (e, a) :: cs => FragE4 d e && optAliasOK a && colsOK4 d cs
def refOK4 (d : Gen.D) : TableRef → Bool
  | .table s n => tblOK s n
  | .sub q => FragQ2 d q
def tableOK4 (d : Gen.D) : FromTable → Bool
  | .mk r a => refOK4 d r && optAliasOK a
def tablesOK4 (d : Gen.D) : List FromTable → Bool
  | [] => true
  | t :: ts => tableOK4 d t && tablesOK4 d ts
def fromOK4 (d : Gen.D) : Option (List FromTable) → Bool
  | none => true
  | some (t :: ts) => tableOK4 d t && tablesOK4 d ts
  | some [] => false
/-- the generator function of a LATERAL VIEW: a plain call whose name is not read as the word `OUTER` -/
def latFnOK4 (d : Gen.D) : Expr → Bool
  | .func none n ps => fnOK d none n && !(qTok n).srcEqUp "OUTER" && FragL4 d ps
  | _ => false
def latOK4 (d : Gen.D) : Lateral → Bool
  | .mk _ fn _ as => latFnOK4 d fn && aliasesOK as
def latsOK4 (d : Gen.D) : List Lateral → Bool
  | [] => true
  | l :: ls => latOK4 d l && latsOK4 d ls
/-- `USING (…)`: the parser reads a call; the tree stores the spelling of the word (F-C09-2) -/
def usingOK4 (d : Gen.D) : Expr → Bool
  | .func none n ps => fnOK d none n && (qTok n).srcEqUp "USING" && stopTok d 14 (qTok n) && FragL4 d ps
  | _ => false
def ruleOK4 (d : Gen.D) : Option JoinRule → Bool
  | none => true
  | some (.on e) => FragE4 d e
  | some (.using u) => usingOK4 d u
def joinOK4 (d : Gen.D) : Join → Bool
  | .mk ty t rule => joinTyOK4 d ty && tableOK4 d t && ruleOK4 d rule
def joinsOK4 (d : Gen.D) : List Join → Bool
  | [] => true
  | j :: js => joinOK4 d j && joinsOK4 d js
def setsOK4 (d : Gen.D) : List (List Expr) → Bool
  | [] => true
  | g :: gs => FragL4 d g && setsOK4 d gs
def groupOK4 (d : Gen.D) : Option GroupBy → Bool
  | none => true
  | some (.mk [] (some l) _ _) => setsOK4 d l
  | some (.mk (e :: es) sets _ _) =>
      FragE4 d e && FragL4 d es && !searchStrUp (wrapT (noX e) e 8 (toksE4 d noX e)) "GROUPING" && (match sets with | some l => setsOK4 d l | none => true)
  | _ => false
def ordItemOK4 (d : Gen.D) : OrderItem → Bool
  | .mk e _ nf nl => FragE4 d e && !(nf && nl)
def ordTailOK4 (d : Gen.D) : List OrderItem → Bool
  | [] => true
  | o :: os => ordItemOK4 d o && ordTailOK4 d os
def orderOK4 (d : Gen.D) : Option (List OrderItem) → Bool
  | none => true
  | some (o :: os) => ordItemOK4 d o && ordTailOK4 d os
  | some [] => false
def byOK4 (d : Gen.D) : Option (List Expr) → Bool
  | none => true
  | some (e :: es) => FragE4 d e && FragL4 d es
  | some [] => false
end

/-! ### the common size -/
mutual
def szE4 : Expr → Nat
  | .func _ _ ps => szL4 ps + 1
  | .agg _ ps _ => szL4 ps + 1
  | .cast e _ _ _ => szE4 e + 1
  | .extract n e => szE4 n + szE4 e + 1
  | .window fn part ord _ => szE4 fn + szL4 part + szOrdL ord + 1
  | .index a i => szE4 a + szE4 i + 1
  | .caseCond cs els => szA4 cs + szO4 els + 1
  | .caseVal v cs els => szE4 v + szA4 cs + szO4 els + 1
  | .subValue vs => szL4 vs + 1
  | .subQuery q => szQ2 q + 1
  | .exists_ v => szE4 v + 1
  | .unary _ e => szE4 e + 1
  | .compute l _ r => szE4 l + szE4 r + 1
  | .kw _ _ l r => szE4 l + szE4 r + 1
  | .between _ b f t => szE4 b + szE4 f + szE4 t + 1
  | .compare _ l r => szE4 l + szE4 r + 1
  | .not_ e => szE4 e + 1
  | .and_ l r => szE4 l + szE4 r + 1
  | .xor l r => szE4 l + szE4 r + 1
  | .or_ l r => szE4 l + szE4 r + 1
  | _ => 1
def szL4 : List Expr → Nat
  | [] => 0
  | a :: as => szE4 a + szL4 as
def szA4 : List (Expr × Expr) → Nat
  | [] => 0
  | (w, t) :: r => szE4 w + szE4 t + szA4 r
def szO4 : Option Expr → Nat
  | none => 0
  | some y => szE4 y
def szQ2 : Query → Nat
  | .single s => szS4 s + 1
  | .union _ s us => szS4 s + szUn2 us + 1
def szUn2 : List (String × Select) → Nat
  | [] => 0
  | (_, s) :: r => szS4 s + szUn2 r + 1
def szS4 : Select → Nat
  | .mk _ _ cols fr lats js wh gb hv ob sb db cb _ =>
      szCols cols + szFrom fr + szLats lats + szJoins js + szO4 wh + szGroup gb + szO4 hv + szOrder ob + szOrder sb + szBy db + szBy cb + 1
def szCols : List (Expr × Option String) → Nat
  | [] => 0
  | (e, _) :: cs => szE4 e + szCols cs
def szRef : TableRef → Nat
  | .table _ _ => 1
  | .sub q => szQ2 q + 1
def szTable : FromTable → Nat
  | .mk r _ => szRef r
def szTables : List FromTable → Nat
  | [] => 0
  | t :: ts => szTable t + szTables ts
def szFrom : Option (List FromTable) → Nat
  | none => 0
  | some ts => szTables ts
def szLat : Lateral → Nat
  | .mk _ fn _ _ => szE4 fn
def szLats : List Lateral → Nat
  | [] => 0
  | l :: ls => szLat l + szLats ls
def szRule : Option JoinRule → Nat
  | some (.on e) => szE4 e
  | some (.using u) => szE4 u
  | none => 0
def szJoin : Join → Nat
  | .mk _ t rule => szTable t + szRule rule
def szJoins : List Join → Nat
  | [] => 0
  | j :: js => szJoin j + szJoins js
def szSets : List (List Expr) → Nat
  | [] => 0
  | g :: gs => szL4 g + szSets gs
def szGroup : Option GroupBy → Nat
  | some (.mk es sets _ _) => szL4 es + (match sets with | some l => szSets l | none => 0)
  | none => 0
def szOrdItem : OrderItem → Nat
  | .mk e _ _ _ => szE4 e
def szOrdL : List OrderItem → Nat
  | [] => 0
  | o :: os => szOrdItem o + szOrdL os
def szOrder : Option (List OrderItem) → Nat
  | none => 0
  | some os => szOrdL os
def szBy : Option (List Expr) → Nat
  | none => 0
  | some es => szL4 es
end
theorem szE4_pos (e : Expr) : 1 ≤ szE4 e := by cases e <;> simp [szE4] <;> omega

end TQ2
