import MsqProofs.Lemmas.ParseWNCovDefs
/-!
# C02 at the clause level, fuel step, part 1: sub-queries, window specifications, lists of items, tables, joins, GROUP BY
-/
set_option linter.unusedVariables false
open Lex
namespace WNG
open PM Ast
variable {d : Gen.D} {n : Nat}

theorem ret2 {α : Type} {a v : α} {ts r : List Tok} (h : (Except.ok (a, ts) : R α) = .ok (v, r)) : a = v ∧ ts = r := by
  simpa using h

theorem orderTail_spec {e : Expr} {ts r : List Tok} {v : OrderItem} (h : orderTail e ts = .ok (v, r)) : oiE v = e ∧ ∃ u, ts = u ++ r := by
  unfold orderTail at h
  dsimp only at h
  generalize hd : (if searchStrUp ts "DESC" = true then ((true, List.drop 1 ts) : Bool × List Tok) else if searchStrUp ts "ASC" = true then (false, List.drop 1 ts) else (false, ts)) = dd at h
  have c : Sfx dd.2 ts := by
    rw [← hd]
    split
    · exact sfx_drop _ _
    · split
      · exact sfx_drop _ _
      · exact Sfx.refl _
  split at h
  · cases h
  · simp only [Except.ok.injEq, Prod.mk.injEq] at h
    refine ⟨by rw [← h.1]; rfl, ?_⟩
    rw [← h.2]
    exact ((moveTwoUp_sfx _ _ _).trans (moveTwoUp_sfx _ _ _)).trans c
theorem orderTail_e {e : Expr} {ts r : List Tok} {v : OrderItem} (h : orderTail e ts = .ok (v, r)) : oiE v = e := (orderTail_spec h).1

theorem pTableName_exprs {ts r : List Tok} {v : TableRef} (h : pTableName ts = .ok (v, r)) : exprsT v = [] := by
  unfold pTableName at h
  repeat' split at h
  all_goals (cases h <;> simp [exprsT])

theorem headChildren_sub {T ts cs : List Tok} (hs : Sub T ts) (h : headChildren ts = .ok cs) : Sub T cs := by
  cases ts with
  | nil => simp [headChildren] at h
  | cons t r =>
    simp only [headChildren, Except.ok.injEq] at h
    exact h ▸ hs.head_child

theorem cv_pSubQuery (ih : CV d n) : ∀ T ts v r, Sub T ts → pSubQuery d (n+1) ts = .ok (v, r) → ∃ q, v = .subQuery q ∧ CovL d T (exprsQ q) := by
  intro T ts v r hs h
  unfold pSubQuery at h
  split at h
  · cases h
  · rename_i g r0
    split at h
    · rename_i q hq
      simp only [Except.ok.injEq, Prod.mk.injEq] at h
      rw [closed_ok] at hq
      exact ⟨q, h.1.symm, ih.pSelectStmt T none g.children q [] hs.head_child (by simpa [exprsOW] using CovL.nil) hq⟩
    · cases h

theorem cv_pComputeList (ih : CV d n) : ∀ T acc ts v r, Sub T ts → CovL d T acc → pComputeList d (n+1) acc ts = .ok (v, r) → CovL d T v := by
  intro T acc ts v r hs ha h
  unfold pComputeList at h
  split at h
  · split at h
    · rename_i e r1 h1
      obtain ⟨hc, hs1⟩ := cov_run (hs.drop 1) ((wf_all d n).pCompute _ e r1 h1)
      exact ih.pComputeList T _ r1 v r hs1 (ha.snoc hc) h
    · cases h
  · obtain ⟨rfl, rfl⟩ := ret2 h; exact ha

theorem cv_pPartitionBy (ih : CV d n) : ∀ T ts v r, Sub T ts → pPartitionBy d (n+1) ts = .ok (v, r) → CovL d T v := by
  intro T ts v r hs h
  unfold pPartitionBy at h
  split at h
  · split at h
    · cases h
    · rename_i e r1 h1
      obtain ⟨hc, hs1⟩ := cov_run (hs.drop 2) ((wf_all d n).pCompute _ e r1 h1)
      exact ih.pComputeList T _ r1 v r hs1 (.single hc) h
  · obtain ⟨rfl, rfl⟩ := ret2 h; exact .nil

theorem cv_pOrderItem (ih : CV d n) : ∀ T ts v r, Sub T ts → pOrderItem d (n+1) ts = .ok (v, r) → Cov d T (oiE v) := by
  intro T ts v r hs h
  unfold pOrderItem at h
  split at h
  · cases h
  · rename_i e r1 h1
    obtain ⟨hc, hs1⟩ := cov_run hs ((wf_all d n).pCompute _ e r1 h1)
    rw [orderTail_e h]; exact hc

theorem pOrderItem_sub {T ts r : List Tok} {v : OrderItem} (hs : Sub T ts) (h : pOrderItem d n ts = .ok (v, r)) : Sub T r :=
  hs.of_cons (PM.pOrderItem_consumes d n ts v r h)

theorem cv_pOrderList (ih : CV d n) : ∀ T acc ts v r, Sub T ts → CovL d T (acc.map oiE) → pOrderList d (n+1) acc ts = .ok (v, r) →
    CovL d T (v.map oiE) := by
  intro T acc ts v r hs ha h
  unfold pOrderList at h
  split at h
  · split at h
    · rename_i o r1 h1
      have hc := ih.pOrderItem T _ o r1 (hs.drop 1) h1
      exact ih.pOrderList T _ r1 v r (pOrderItem_sub (hs.drop 1) h1) (by simpa using ha.snoc hc) h
    · cases h
  · obtain ⟨rfl, rfl⟩ := ret2 h; exact ha

theorem cv_pOrderByOpt (ih : CV d n) : ∀ T ts v r, Sub T ts → pOrderByOpt d (n+1) ts = .ok (v, r) → CovL d T (oiEs v) := by
  intro T ts v r hs h
  unfold pOrderByOpt at h
  split at h
  · split at h
    · cases h
    · rename_i o r1 h1
      have hc := ih.pOrderItem T _ o r1 (hs.drop 2) h1
      split at h
      · rename_i os r2 h2
        obtain ⟨rfl, rfl⟩ := ret2 h
        exact ih.pOrderList T [o] r1 os r2 (pOrderItem_sub (hs.drop 2) h1) (by simpa using CovL.single hc) h2
      · cases h
  · obtain ⟨rfl, rfl⟩ := ret2 h; exact .nil

theorem cv_pWindowBody (ih : CV d n) : ∀ T fn cs w, Sub T cs → pWindowBody d (n+1) fn cs = .ok w →
    ∃ part ord rows, w = .window fn part ord rows ∧ CovL d T (part ++ ord.map oiE) := by
  intro T fn cs w hs h
  unfold pWindowBody at h
  split at h
  · cases h
  · rename_i part r1 h1
    have hp := ih.pPartitionBy T cs part r1 hs h1
    have hs1 : Sub T r1 := hs.of_cons (PM.pPartitionBy_consumes d n cs part r1 h1)
    split at h
    · cases h
    · rename_i ord r2 h2
      have ho := ih.pOrderByOpt T r1 ord r2 hs1 h2
      split at h
      · split at h
        · simp only [Except.ok.injEq] at h; exact ⟨part, ord.getD [], _, h.symm, hp.append ho⟩
        · cases h
      · split at h
        · simp only [Except.ok.injEq] at h; exact ⟨part, ord.getD [], _, h.symm, hp.append ho⟩
        · cases h

theorem cv_pSelectCol (ih : CV d n) : ∀ T ts v r, Sub T ts → pSelectCol d (n+1) ts = .ok (v, r) → Cov d T v.1 := by
  intro T ts v r hs h
  unfold pSelectCol at h
  split at h
  · cases h
  · rename_i e r1 h1
    obtain ⟨hc, hs1⟩ := cov_run hs ((wf_all d n).pOr _ e r1 h1)
    split at h
    · obtain ⟨rfl, rfl⟩ := ret2 h; exact hc
    · cases h

theorem cv_pSelectCols (ih : CV d n) : ∀ T acc ts v r, Sub T ts → CovL d T (acc.map (·.1)) → pSelectCols d (n+1) acc ts = .ok (v, r) →
    CovL d T (v.map (·.1)) := by
  intro T acc ts v r hs ha h
  unfold pSelectCols at h
  split at h
  · split at h
    · rename_i c r1 h1
      have hc := ih.pSelectCol T _ c r1 (hs.drop 1) h1
      have hs1 : Sub T r1 := (hs.drop 1).of_cons (PM.pSelectCol_consumes d n _ c r1 h1)
      exact ih.pSelectCols T _ r1 v r hs1 (by simpa using ha.snoc hc) h
    · cases h
  · obtain ⟨rfl, rfl⟩ := ret2 h; exact ha

theorem cv_pTableExpr (ih : CV d n) : ∀ T ts v r, Sub T ts → pTableExpr d (n+1) ts = .ok (v, r) → CovL d T (exprsT v) := by
  intro T ts v r hs h
  unfold pTableExpr at h
  split at h
  · cases h
  · rename_i cs hcs
    split at h
    · split at h
      · rename_i q r1 h1
        obtain ⟨rfl, rfl⟩ := ret2 h
        obtain ⟨q', hq, hc⟩ := ih.pSubQuery T ts _ r1 hs h1
        cases hq
        simpa [exprsT] using hc
      · cases h
      · cases h
    · split at h
      · split at h
        · rename_i t ht
          obtain ⟨rfl, rfl⟩ := ret2 h
          rw [closed_ok] at ht
          exact ih.pTableExpr T cs t [] (headChildren_sub hs hcs) ht
        · cases h
      · rw [pTableName_exprs h]; exact .nil

theorem cv_pFromTable (ih : CV d n) : ∀ T ts v r, Sub T ts → pFromTable d (n+1) ts = .ok (v, r) → CovL d T (exprsF v) := by
  intro T ts v r hs h
  unfold pFromTable at h
  split at h
  · cases h
  · rename_i t r1 h1
    split at h
    · obtain ⟨rfl, rfl⟩ := ret2 h
      simpa [exprsF] using ih.pTableExpr T ts t r1 hs h1
    · cases h

theorem cv_pFromTables (ih : CV d n) : ∀ T acc ts v r, Sub T ts → CovL d T (exprsFs acc) → pFromTables d (n+1) acc ts = .ok (v, r) →
    CovL d T (exprsFs v) := by
  intro T acc ts v r hs ha h
  unfold pFromTables at h
  split at h
  · split at h
    · rename_i t r1 h1
      have hc := ih.pFromTable T _ t r1 (hs.drop 1) h1
      have hs1 : Sub T r1 := (hs.drop 1).of_cons (PM.pFromTable_consumes d n _ t r1 h1)
      refine ih.pFromTables T _ r1 v r hs1 ?_ h
      rw [exprsFs_append]
      exact ha.append (by simpa [exprsFs] using hc)
    · cases h
  · obtain ⟨rfl, rfl⟩ := ret2 h; exact ha

theorem cv_pJoinRule (ih : CV d n) : ∀ T jt t r1 v r, Sub T r1 → CovL d T (exprsF t) → pJoinRule d (n+1) jt t r1 = .ok (v, r) →
    CovL d T (exprsJ v) := by
  intro T jt t r1 v r hs ht h
  unfold pJoinRule at h
  split at h
  · obtain ⟨rfl, rfl⟩ := ret2 h
    simpa [exprsJ, ojrE] using ht
  · split at h
    · split at h
      · rename_i c r2 h1
        obtain ⟨rfl, rfl⟩ := ret2 h
        obtain ⟨hc, _⟩ := cov_run (hs.drop 1) ((wf_all d n).pOr _ c r2 h1)
        simpa [exprsJ, ojrE, jrE] using ht.snoc hc
      · cases h
    · split at h
      · rename_i u r2 h1
        obtain ⟨rfl, rfl⟩ := ret2 h
        obtain ⟨hc, _⟩ := cov_run hs ((wf_all d n).pFunc _ u r2 h1)
        simpa [exprsJ, ojrE, jrE] using ht.snoc hc
      · cases h

theorem cv_pJoin (ih : CV d n) : ∀ T ts v r, Sub T ts → pJoin d (n+1) ts = .ok (v, r) → CovL d T (exprsJ v) := by
  intro T ts v r hs h
  unfold pJoin at h
  split at h
  · cases h
  · rename_i jt r0 hf
    have hs0 : Sub T r0 := hs.of_cons (firstEnum_sfx _ _ _ _ hf)
    split at h
    · cases h
    · rename_i t r1 h1
      have ht := ih.pFromTable T r0 t r1 hs0 h1
      have hs1 : Sub T r1 := hs0.of_cons (PM.pFromTable_consumes d n _ t r1 h1)
      exact ih.pJoinRule T jt t r1 v r hs1 ht h

theorem cv_pJoins (ih : CV d n) : ∀ T same outer acc inner v r, Sub T inner → CovL d T (exprsJs acc) →
    pJoins d (n+1) same outer acc inner = .ok (v, r) → CovL d T (exprsJs v) := by
  intro T same outer acc inner v r hs ha h
  unfold pJoins at h
  generalize joinHead (if same = true then inner else outer) = c at h
  cases c with
  | true =>
    simp only [↓reduceIte] at h
    split at h
    · rename_i j r1 h1
      have hc := ih.pJoin T inner j r1 hs h1
      have hs1 : Sub T r1 := hs.of_cons (PM.pJoin_consumes d n _ j r1 h1)
      refine ih.pJoins T same outer _ r1 v r hs1 ?_ h
      rw [exprsJs_append]
      exact ha.append (by simpa [exprsJs] using hc)
    · cases h
  | false =>
    simp only [Bool.false_eq_true, ↓reduceIte] at h
    obtain ⟨rfl, rfl⟩ := ret2 h; exact ha

theorem cv_pOptOr (ih : CV d n) : ∀ T kwd ts v r, Sub T ts → pOptOr d (n+1) kwd ts = .ok (v, r) → CovL d T v.toList := by
  intro T kwd ts v r hs h
  unfold pOptOr at h
  split at h
  · split at h
    · rename_i c r1 h1
      obtain ⟨rfl, rfl⟩ := ret2 h
      obtain ⟨hc, _⟩ := cov_run (hs.drop 1) ((wf_all d n).pOr _ c r1 h1)
      exact .opt hc
    · cases h
  · obtain ⟨rfl, rfl⟩ := ret2 h; exact .nil

theorem cov_closed_compute {T sg : List Tok} {e : Expr} (hs : Sub T sg) (h : closed (pCompute d n sg) = .ok e) : Cov d T e := by
  rw [closed_ok] at h
  exact (cov_run hs ((wf_all d n).pCompute _ e [] h)).1

theorem cv_pClosedEach (ih : CV d n) : ∀ T acc segs v, (∀ sg ∈ segs, Sub T sg) → CovL d T acc → pClosedEach d (n+1) acc segs = .ok v →
    CovL d T v := by
  intro T acc segs v hss ha h
  unfold pClosedEach at h
  split at h
  · simp only [Except.ok.injEq] at h; exact h ▸ ha
  · rename_i sg rest
    split at h
    · rename_i e he
      exact ih.pClosedEach T _ rest v (fun s hm => hss s (by simp [hm])) (ha.snoc (cov_closed_compute (hss sg (by simp)) he)) h
    · cases h

theorem cv_pGroupingElem (ih : CV d n) : ∀ T seg v, Sub T seg → pGroupingElem d (n+1) seg = .ok v → CovL d T v := by
  intro T seg v hs h
  unfold pGroupingElem at h
  split at h
  · rename_i g r
    split at h
    · split at h
      · rename_i es hes
        split at h
        · simp only [Except.ok.injEq] at h
          exact h ▸ ih.pClosedEach T [] _ es (splitBy_sub hs.head_child) .nil hes
        · cases h
      · cases h
    · split at h
      · rename_i e he
        simp only [Except.ok.injEq] at h
        exact h ▸ CovL.single (cov_closed_compute hs he)
      · cases h
  · split at h
    · rename_i e he
      simp only [Except.ok.injEq] at h
      exact h ▸ CovL.single (cov_closed_compute hs he)
    · cases h

theorem cv_pGroupingElems (ih : CV d n) : ∀ T acc segs v, (∀ sg ∈ segs, Sub T sg) → CovL d T acc.flatten →
    pGroupingElems d (n+1) acc segs = .ok v → CovL d T v.flatten := by
  intro T acc segs v hss ha h
  unfold pGroupingElems at h
  split at h
  · simp only [Except.ok.injEq] at h; exact h ▸ ha
  · rename_i sg rest
    split at h
    · rename_i es hes
      have hc := ih.pGroupingElem T sg es (hss sg (by simp)) hes
      exact ih.pGroupingElems T _ rest v (fun s hm => hss s (by simp [hm])) (by simpa using ha.append hc) h
    · cases h

theorem cv_pGroupingSets (ih : CV d n) : ∀ T ts v r, Sub T ts → pGroupingSets d (n+1) ts = .ok (v, r) → CovL d T v.flatten := by
  intro T ts v r hs h
  unfold pGroupingSets at h
  split at h
  · cases h
  · rename_i r0 hm
    have hs0 : Sub T r0 := hs.of_cons (matchSeq_cons ts _ _ r0 hm)
    split at h
    · cases h
    · rename_i g r1
      split at h
      · rename_i gs hgs
        obtain ⟨rfl, rfl⟩ := ret2 h
        exact ih.pGroupingElems T [] _ gs (splitBy_sub hs0.head_child) (by simpa using CovL.nil) hgs
      · cases h

theorem cv_pGroupCols (ih : CV d n) : ∀ T ts v r, Sub T ts → pGroupCols d (n+1) ts = .ok (v, r) → CovL d T v := by
  intro T ts v r hs h
  unfold pGroupCols at h
  split at h
  · obtain ⟨rfl, rfl⟩ := ret2 h; exact .nil
  · split at h
    · cases h
    · rename_i e r1 h1
      obtain ⟨hc, hs1⟩ := cov_run hs ((wf_all d n).pCompute _ e r1 h1)
      exact ih.pComputeList T _ r1 v r hs1 (.single hc) h

theorem cv_pGroupSetsOpt (ih : CV d n) : ∀ T ts v r, Sub T ts → pGroupSetsOpt d (n+1) ts = .ok (v, r) → CovL d T (v.getD []).flatten := by
  intro T ts v r hs h
  unfold pGroupSetsOpt at h
  split at h
  · split at h
    · rename_i g r1 h1
      obtain ⟨rfl, rfl⟩ := ret2 h
      simpa using ih.pGroupingSets T ts g r1 hs h1
    · cases h
  · obtain ⟨rfl, rfl⟩ := ret2 h; simpa using CovL.nil

theorem cv_pGroupBy (ih : CV d n) : ∀ T ts v r, Sub T ts → pGroupBy d (n+1) ts = .ok (v, r) → CovL d T (ogbE v) := by
  intro T ts v r hs h
  unfold pGroupBy at h
  split at h
  · obtain ⟨rfl, rfl⟩ := ret2 h; exact .nil
  · split at h
    · cases h
    · rename_i cols r1 h1
      have hc := ih.pGroupCols T _ cols r1 (hs.drop 2) h1
      have hs1 : Sub T r1 := (hs.drop 2).of_cons (PM.pGroupCols_consumes d n _ cols r1 h1)
      split at h
      · cases h
      · rename_i sets r2 h2
        have hg := ih.pGroupSetsOpt T r1 sets r2 hs1 h2
        simp only at h
        obtain ⟨rfl, rfl⟩ := ret2 h
        simpa [ogbE, gbE] using hc.append hg

end WNG
