import MsqProofs.Lemmas.LexLinkQueryMain
import MsqProofs.Lemmas.TDml0
/-!
# The lexer link for data-change statements: the `List Char` mirror of `PR.prStmt` on `TDM.FragStmt`, layout lemmas

Built on the link for nested queries (`LexLinkQuery*.lean`: records `GE` / `GQ` for fragment expressions / queries).

* `stmtL d s` — what `PR.prStmt d s` writes for DELETE / UPDATE / INSERT … VALUES / INSERT … query / a query, each with its optional
  `WITH name AS (q), …` prefix, as a character list assembled from PIECES: `ps us` (every piece followed by one blank: the INSERT head,
  whose optional parts `TABLE `, `PARTITION (…) `, `(c, …) ` each carry their own trailing blank), `pc us` (every piece preceded by one
  blank: the tail ` WHERE …`, ` ORDER BY …`, ` LIMIT …`);
* `leavesStmt s` — the payloads of a statement as `LexLink.LeafItem`s (besides those of its expressions and queries: the target table
  as `.tbl`, the columns of the column list as `.col`, WITH names and SET columns as `.wild` — a name that must be free of back-quotes and
  pre-pass characters, `nameLex`);
* `DW K` — the kit's property holds of the words only statements use (`dmlWords`, the words of `Gen.insertTypes`);
* layout lemmas: a line break before a text, lists joined by `, ` + line break (WITH tables), pieces with leading / trailing blanks.
-/
set_option linter.unusedVariables false
set_option linter.unusedSimpArgs false
namespace LLD
open Lex Spec C05 C06 C09 Ast TP TS TQ LexLink

/-! ## layout -/

theorem lx_nlpre {b : List Char} {tb : List Tok} (hb : Lx b tb) : Lx ('\n' :: b) tb := by
  intro T pre rest f fs hT hd
  have e1 : ('\n' :: b) ++ rest = '\n' :: (b ++ rest) := rfl
  rw [e1, step_newline]
  have hT2 : T = (pre ++ ['\n']) ++ b ++ rest := by rw [hT]; simp
  have := hb T (pre ++ ['\n']) rest f fs hT2 hd
  simp only [List.length_append, List.length_cons, List.length_nil] at this ⊢
  rw [this]
  congr 2 <;> omega

/-- comma-joined pieces against `TDM.joinC` -/
theorem lx_joinC {α : Type} (txt : α → List Char) (tk : α → List Tok) :
    ∀ (xs : List α), (∀ x ∈ xs, Lx (txt x) (tk x)) → Lx (joinLL [',', ' '] (xs.map txt)) (TDM.joinC (xs.map tk))
  | [], _ => lx_nil
  | [x], h => by simpa [joinLL, TDM.joinC] using h x (by simp)
  | x :: y :: r, h => by
    have := Lx.comma (h x (by simp)) (lx_joinC txt tk (y :: r) fun z hz => h z (by simp [hz]))
    exact Lx.congr this (by simp [joinLL]) (by simp [TDM.joinC])

/-- pieces joined by `, ` + line break (the tables of a WITH clause) -/
theorem lx_cnl {α : Type} (txt : α → List Char) (tk : α → List Tok) (tail : List α → List Tok)
    (h0 : tail [] = []) (h1 : ∀ x xs, tail (x :: xs) = TS.commaTok :: (tk x ++ tail xs)) :
    ∀ (xs : List α) (x : α), Lx (txt x) (tk x) → (∀ y ∈ xs, Lx (txt y) (tk y)) →
      Lx (joinLL [',', ' ', '\n'] ((x :: xs).map txt)) (tk x ++ tail xs) := by
  intro xs
  induction xs with
  | nil => intro x hx _; simpa [joinLL, h0] using hx
  | cons y ys ih =>
    intro x hx hall
    have := Lx.comma hx (lx_nlpre (ih y (hall y (by simp)) fun z hz => hall z (by simp [hz])))
    exact Lx.congr this (by simp [joinLL]) (by rw [h1])

/-- every piece followed by one blank -/
def ps (us : List (List Char)) : List Char := (us.map (· ++ [' '])).flatten
/-- every piece preceded by one blank -/
def pc (us : List (List Char)) : List Char := (us.map (' ' :: ·)).flatten

theorem ps_cons (a : List Char) (r : List (List Char)) : ps (a :: r) = a ++ ' ' :: ps r := by simp [ps]
theorem pc_cons (a : List Char) (r : List (List Char)) : pc (a :: r) = ' ' :: (a ++ pc r) := by simp [pc]
@[simp] theorem ps_nil : ps [] = [] := rfl
@[simp] theorem pc_nil : pc [] = [] := rfl
theorem ps_append (a b : List (List Char)) : ps (a ++ b) = ps a ++ ps b := by simp [ps]
theorem pc_append (a b : List (List Char)) : pc (a ++ b) = pc a ++ pc b := by simp [pc]

theorem ps_join : ∀ (us : List (List Char)), us ≠ [] → ∀ b, ps us ++ b = joinLL [' '] us ++ ' ' :: b
  | [], h, _ => absurd rfl h
  | [a], _, b => by simp [ps, joinLL]
  | a :: c :: r, _, b => by
    have := ps_join (c :: r) (by simp) b
    rw [ps_cons, List.append_assoc, List.cons_append, this]
    simp [joinLL]
theorem pc_join : ∀ (us : List (List Char)), us ≠ [] → pc us = ' ' :: joinLL [' '] us
  | [], h => absurd rfl h
  | [a], _ => by simp [pc, joinLL]
  | a :: c :: r, _ => by
    have := pc_join (c :: r) (by simp)
    rw [pc_cons, this]
    simp [joinLL]

/-- the head pieces (each with its blank), then a text -/
theorem lx_ps {us : List (List Char)} {ts : List Tok} (hs : Seg ' ' us ts) {b : List Char} {tb : List Tok} (hb : Lx b tb) :
    Lx (ps us ++ b) (ts ++ tb) := by
  rcases hs with ⟨rfl, rfl⟩ | ⟨hne, h⟩
  · simpa using hb
  · rw [ps_join us hne]; exact Lx.sep h hb
/-- a text, then the tail pieces (each behind its blank) -/
theorem lx_pc {a : List Char} {ta : List Tok} (ha : Lx a ta) {us : List (List Char)} {ts : List Tok} (hs : Seg ' ' us ts) :
    Lx (a ++ pc us) (ta ++ ts) := by
  rcases hs with ⟨rfl, rfl⟩ | ⟨hne, h⟩
  · simpa using ha
  · rw [pc_join us hne]; exact Lx.sep ha h
/-- the same with one more blank between (DELETE: `… {table} {tail}`) -/
theorem lx_pc2 {a : List Char} {ta : List Tok} (ha : Lx a ta) {us : List (List Char)} {ts : List Tok} (hs : Seg ' ' us ts) :
    Lx (a ++ ' ' :: pc us) (ta ++ ts) := by
  rcases hs with ⟨rfl, rfl⟩ | ⟨hne, h⟩
  · simpa using Lx.trail ha
  · rw [pc_join us hne]; exact Lx.sep ha (Lx.blank h)

/-- a clause record with at most one line, read with blanks -/
theorem seg_sp {us : List (List Char)} {ts : List Tok} (h : Seg '\n' us ts) (hlen : us.length ≤ 1) : Seg ' ' us ts := by
  rcases h with ⟨rfl, rfl⟩ | ⟨hne, h⟩
  · exact Seg.nil _
  · match us, hne, hlen, h with
    | [x], _, _, h => exact Seg.one _ (by simpa [joinLL] using h)

theorem sp : (' ' : Char) = ' ' ∨ (' ' : Char) = '\n' := Or.inl rfl

/-! ## the kit on pieces -/

theorem q_ps (K : QKit) : ∀ (us : List (List Char)), (∀ x ∈ us, K.Q x) → ∀ b, K.Q b → K.Q (ps us ++ b)
  | [], _, b, hb => by simpa using hb
  | a :: r, h, b, hb => by
    rw [ps_cons, List.append_assoc, List.cons_append]
    exact K.sp (h a (by simp)) (q_ps K r (fun x hx => h x (by simp [hx])) b hb)
theorem q_pc (K : QKit) : ∀ (us : List (List Char)), (∀ x ∈ us, K.Q x) → ∀ a, K.Q a → K.Q (a ++ pc us)
  | [], _, a, ha => by simpa using ha
  | x :: r, h, a, ha => by
    rw [pc_cons]
    have := q_pc K r (fun y hy => h y (by simp [hy])) (a ++ ' ' :: x) (K.sp ha (h x (by simp)))
    simpa using this
theorem q_cnl (K : QKit) : ∀ (l : List (List Char)), (∀ x ∈ l, K.Q x) → K.Q (joinLL [',', ' ', '\n'] l)
  | [], _ => K.nil
  | [a], h => h a (by simp)
  | a :: b :: r, h => by
    have := q_cnl K (b :: r) fun x hx => h x (by simp [hx])
    have e : joinLL [',', ' ', '\n'] (a :: b :: r) = a ++ ',' :: ([] ++ ' ' :: ([] ++ '\n' :: joinLL [',', ' ', '\n'] (b :: r))) := by
      simp [joinLL]
    rw [e]; exact K.sep _ _ _ K.s_cm (h a (by simp)) (K.sep _ _ _ K.s_sp K.nil (K.sep _ _ _ K.s_nl K.nil this))

/-! ## the words only statements use -/

def dmlWords : List String := ["WITH", "UPDATE", "SET", "DELETE", "VALUES", "PARTITION", "TABLE", "="]
theorem dml_words_lex : dmlWords.all (fun k => lxIs k.toList (ctok k.toList)) = true := by decide +kernel
theorem insert_words_lex : Gen.insertTypes.all (fun e => e.2.all fun w => lxIs w.toList (ctok w.toList)) = true := by decide +kernel
theorem lx_dw (k : String) (hk : k ∈ dmlWords) : Lx k.toList [opTok k] := by
  rw [opTok_eq]; exact lx_of_is ((List.all_eq_true.mp dml_words_lex) k hk)

/-- the kit's property holds of the words of the statement level -/
structure DW (K : QKit) : Prop where
  dws : ∀ k ∈ dmlWords, K.Q k.toList
  iws : ∀ e ∈ Gen.insertTypes, ∀ w ∈ e.2, K.Q w.toList

/-! ## the mirror -/

/-- `name AS (q)` -/
def withItemL (d : Gen.D) : WithTable → List Char
  | .mk n q => qnameL n ++ ' ' :: ("AS".toList ++ ' ' :: '(' :: (prQL d q ++ [')']))
/-- `PR.prWithPrefix d sep` -/
def withPrefixL (d : Gen.D) (sep : List Char) : Option (List WithTable) → List Char
  | some (w :: r) => "WITH".toList ++ ' ' :: (joinLL [',', ' ', '\n'] ((w :: r).map (withItemL d)) ++ sep)
  | _ => []
/-- `` `c` = e `` -/
def setL (d : Gen.D) (p : String × Expr) : List Char := '`' :: (p.1.toList ++ '`' :: ' ' :: '=' :: ' ' :: prE3L d p.2)
/-- the pieces of `PR.prTail` (each is printed behind one blank) -/
def tailPieces (d : Gen.D) (wh : Option Expr) (ob : Option (List OrderItem)) (lm : Option (Int × Option Int)) : List (List Char) :=
  optLL d "WHERE" wh ++ (orderLL d ob ++ (limitC lm).map (·.1))
def insertWordsL (ty : String) : List Char :=
  match Gen.insertTypes.find? (·.1 == ty) with | some e => joinLL [' '] (e.2.map String.toList) | none => []
def colNameL (d : Gen.D) (c : Option String × String) : List Char := prE3L d (.column c.1 c.2)
def partPieces (d : Gen.D) : Option (List Expr) → List (List Char)
  | none => []
  | some es => ["PARTITION".toList ++ ' ' :: '(' :: (joinLL [',', ' '] (es.map (prE3L d)) ++ [')'])]
def colPieces (d : Gen.D) : Option (List (Option String × String)) → List (List Char)
  | none => []
  | some cs => ['(' :: (joinLL [',', ' '] (cs.map (colNameL d)) ++ [')'])]
/-- the pieces of `PR.prInsertHead` after the WITH prefix (each is printed with one blank behind it) -/
def headPieces (d : Gen.D) (h : InsertHead) : List (List Char) :=
  insertWordsL h.type :: ((if d == .HIVE then ["TABLE".toList] else []) ++
    (tblL h.table.schema h.table.name :: (partPieces d h.partition ++ colPieces d h.columns)))
def rowL (d : Gen.D) (r : List Expr) : List Char := prE3L d (.subValue r)

/-- **the mirror of `PR.prStmt`** on the statement fragment -/
def stmtL (d : Gen.D) : Stmt → List Char
  | .select q => withPrefixL d ['\n'] (TDM.withsOf q) ++ prQL d q
  | .insertValues h vs =>
      withPrefixL d ['\n'] h.withs ++ (ps (headPieces d h) ++ ("VALUES".toList ++ ' ' :: joinLL [',', ' '] (vs.map (rowL d))))
  | .insertSelect h q => withPrefixL d ['\n'] h.withs ++ (ps (headPieces d h) ++ ' ' :: prQL d q)
  | .update ws t sets wh ob lm =>
      withPrefixL d ['\n', '\n'] ws ++ ("UPDATE".toList ++ ' ' :: (tblL t.schema t.name ++ ' ' :: ("SET".toList ++ ' ' ::
        (joinLL [',', ' '] (sets.map (setL d)) ++ pc (tailPieces d wh ob lm)))))
  | .delete t wh ob lm =>
      "DELETE".toList ++ ' ' :: ("FROM".toList ++ ' ' :: (tblL t.schema t.name ++ ' ' :: pc (tailPieces d wh ob lm)))
  | _ => []

/-! ## the payloads -/

def leavesWL : List WithTable → List LeafItem
  | [] => []
  | .mk n q :: r => .wild n :: (leavesQ q ++ leavesWL r)
def leavesWiths : Option (List WithTable) → List LeafItem
  | none => []
  | some ws => leavesWL ws
def leavesSets : List (String × Expr) → List LeafItem
  | [] => []
  | (c, e) :: r => .wild c :: (leavesE e ++ leavesSets r)
def leavesRows : List (List Expr) → List LeafItem
  | [] => []
  | r :: rs => leavesL r ++ leavesRows rs
def leavesPart : Option (List Expr) → List LeafItem
  | none => []
  | some es => leavesL es
def leavesColNames : Option (List (Option String × String)) → List LeafItem
  | none => []
  | some cs => cs.map fun p => .col p.1 p.2
def leavesHead (h : InsertHead) : List LeafItem :=
  leavesWiths h.withs ++ (.tbl h.table.schema h.table.name :: (leavesPart h.partition ++ leavesColNames h.columns))
/-- **the payloads of a statement** -/
def leavesStmt : Stmt → List LeafItem
  | .select q => leavesWiths (TDM.withsOf q) ++ leavesQ q
  | .insertValues h vs => leavesHead h ++ leavesRows vs
  | .insertSelect h q => leavesHead h ++ leavesQ q
  | .update ws t sets wh ob _ => leavesWiths ws ++ (.tbl t.schema t.name :: (leavesSets sets ++ (leavesO wh ++ leavesOrder ob)))
  | .delete t wh ob _ => .tbl t.schema t.name :: (leavesO wh ++ leavesOrder ob)
  | _ => []

/-- what the PRINTER needs beyond the token-level fragment: `INSERT OVERWRITE` is printed for HIVE and DEFAULT only
(`ASTInsertStatement._insert_str` raises for the other dialects) -/
def insertPrintable (d : Gen.D) (h : InsertHead) : Bool := !(h.type == "INSERT_OVERWRITE" && !(d == .HIVE || d == .DEFAULT))
def printableStmt (d : Gen.D) : Stmt → Bool
  | .insertValues h _ => insertPrintable d h
  | .insertSelect h _ => insertPrintable d h
  | _ => true

end LLD
