import MsqProofs.Lemmas.ParseAccountAll
/-!
# C08, general accounting — hand-written base, part 3: the statement level

Texts of the statement-level values (`tStmt s = Val.texts (Stmt.toVal s)`: what the canonical dump shows) and the `Full` fragment of
statements.  `FullStmt` excludes, besides the degenerate results of class F-C08-6 (an empty `PARTITION` list):

* `CREATE TABLE … ( … )`, `ALTER TABLE … ADD / MODIFY / CHANGE <column or index>` — the attribute / option loops overwrite a
  repeated attribute (class F-C08-4), `PARTITIONED BY x` / `TBLPROPERTIES x` drop a word without leaving a trace in the result, and
  the name positions take any token (F-C08-5); not covered by the general theorem (covered for the printed renderings by `C18T`);
* `SET a.b = c` — the configuration name is stored as ONE string concatenated from several tokens.
-/
set_option linter.unusedVariables false
set_option linter.unusedSectionVars false
set_option linter.unusedSimpArgs false
set_option maxHeartbeats 1000000
open Lex PM Ast

namespace PA

def tTN (t : TableName) : List String := t.toVal.texts
def tCNs (l : List (Option String × String)) : List String := Val.textsL (l.map fun (t, n) => (Expr.column t n).toVal)
def tOCN : Option (List (Option String × String)) → List String | none => [] | some l => tCNs l
def tVals (l : List (List Expr)) : List String := Val.textsL (l.map fun r => (Expr.subValue r).toVal)
def tSets (l : List (String × Expr)) : List String :=
  Val.textsL (l.map fun (c, v) => Val.node "ASTUpdateSetColumn" [("column_name", .str c), ("column_value", v.toVal)])
def tIH (h : InsertHead) : List String := Val.textsF h.fields
def tAO (o : AlterOp) : List String := o.toVal.texts
def tAOs (l : List AlterOp) : List String := Val.textsL (l.map AlterOp.toVal)
def tStmt (s : Stmt) : List String := s.toVal.texts
def tStmts (l : List Stmt) : List String := Val.textsL (l.map Stmt.toVal)

macro "sx_simp" : tactic =>
  `(tactic| simp [tTN, tCNs, tOCN, tVals, tSets, tIH, tAO, tAOs, tStmt, tStmts, tOS, tOL, tE, tEs, tOpt, tQ, tFTs, tOOrds, tOrds, tLim, tOWTs, tWTs,
      TableName.toVal, InsertHead.fields, AlterOp.toVal, Stmt.toVal, Expr.toVal, partitionVal, whereVal, orderVal, limitVal, tableNameVal,
      withsVal, exprs, optExpr, Val.texts, Val.textsL, Val.textsF, Val.optStr, Val.optInt, Val.ofOpt, textsL_append])

@[grind =] theorem tTN_mk (s : Option String) (n : String) : tTN ⟨s, n⟩ = tOS s ++ [n] := by cases s <;> sx_simp
@[grind =] theorem tCNs_nil : tCNs [] = [] := by sx_simp
@[grind =] theorem tCNs_cons (t : Option String) (n : String) (l) : tCNs ((t, n) :: l) = tOS t ++ n :: tCNs l := by cases t <;> sx_simp
@[grind =] theorem tOCN_none : tOCN none = [] := rfl
@[grind =] theorem tOCN_some (l) : tOCN (some l) = tCNs l := rfl
@[grind =] theorem tVals_nil : tVals [] = [] := by sx_simp
@[grind =] theorem tVals_append (a b : List (List Expr)) : tVals (a ++ b) = tVals a ++ tVals b := by sx_simp
@[grind =] theorem tVals_one (r : List Expr) : tVals [r] = tEs r := by sx_simp
@[grind =] theorem tSets_nil : tSets [] = [] := by sx_simp
@[grind =] theorem tSets_append (a b : List (String × Expr)) : tSets (a ++ b) = tSets a ++ tSets b := by sx_simp
@[grind =] theorem tSets_one (c : String) (v : Expr) : tSets [(c, v)] = c :: tE v := by sx_simp
@[grind =] theorem tAOs_nil : tAOs [] = [] := by sx_simp
@[grind =] theorem tAOs_append (a b : List AlterOp) : tAOs (a ++ b) = tAOs a ++ tAOs b := by sx_simp
@[grind =] theorem tAOs_one (o : AlterOp) : tAOs [o] = tAO o := by sx_simp
@[grind =] theorem tIH_mk (ws ty tbl part cols) : tIH ⟨ws, ty, tbl, part, cols⟩ = tOWTs ws ++ (ty :: (tTN tbl ++ (tOL part ++ tOCN cols))) := by
  cases ws <;> cases part <;> cases cols <;> sx_simp
@[grind =] theorem tAO_addPartition (b p) : tAO (.addPartition b p) = tEs p := by sx_simp
@[grind =] theorem tAO_dropPartition (b p) : tAO (.dropPartition b p) = tEs p := by sx_simp
@[grind =] theorem tAO_renameColumn (f t) : tAO (.renameColumn f t) = [f, t] := by sx_simp
@[grind =] theorem tAO_dropColumn (c) : tAO (.dropColumn c) = [c] := by sx_simp
@[grind =] theorem tStmt_select (q) : tStmt (.select q) = tQ q := by sx_simp
@[grind =] theorem tStmt_insertValues (h vs) : tStmt (.insertValues h vs) = tIH h ++ tVals vs := by sx_simp
@[grind =] theorem tStmt_insertSelect (h q) : tStmt (.insertSelect h q) = tIH h ++ tQ q := by sx_simp
@[grind =] theorem tStmt_update (ws t sets wh ob lm) :
    tStmt (.update ws t sets wh ob lm) = tOWTs ws ++ (tTN t ++ (tSets sets ++ (tOpt wh ++ (tOOrds ob ++ tLim lm)))) := by
  cases ws <;> cases wh <;> cases ob <;> sx_simp
@[grind =] theorem tStmt_delete (t wh ob lm) : tStmt (.delete t wh ob lm) = tTN t ++ (tOpt wh ++ (tOOrds ob ++ tLim lm)) := by
  cases wh <;> cases ob <;> sx_simp
@[grind =] theorem tStmt_createTableAs (t ine q) : tStmt (.createTableAs t ine q) = tTN t ++ tQ q := by sx_simp
@[grind =] theorem tStmt_dropTable (b t) : tStmt (.dropTable b t) = tTN t := by sx_simp
@[grind =] theorem tStmt_analyze (t p a b c) : tStmt (.analyze t p a b c) = tTN t ++ tOL p := by cases p <;> sx_simp
@[grind =] theorem tStmt_alter (t ops) : tStmt (.alter t ops) = tTN t ++ tAOs ops := by sx_simp
@[grind =] theorem tStmt_msck (t) : tStmt (.msck t) = tTN t := by sx_simp
@[grind =] theorem tStmt_truncate (t) : tStmt (.truncate t) = tTN t := by sx_simp
@[grind =] theorem tStmt_use (s) : tStmt (.use s) = [s] := by sx_simp
@[grind =] theorem tStmt_showDatabases : tStmt .showDatabases = [] := by sx_simp
@[grind =] theorem tStmt_showTables : tStmt .showTables = [] := by sx_simp
@[grind =] theorem tStmt_showColumns (fr wh) : tStmt (.showColumns fr wh) = tFTs fr ++ tOpt wh := by cases wh <;> sx_simp
@[grind =] theorem tStmts_nil : tStmts [] = [] := by sx_simp
@[grind =] theorem tStmts_append (a b : List Stmt) : tStmts (a ++ b) = tStmts a ++ tStmts b := by sx_simp
@[grind =] theorem tStmts_one (s : Stmt) : tStmts [s] = tStmt s := by sx_simp

/-! ### the `Full` fragment of statements -/
def FullVals : List (List Expr) → Bool
  | [] => true | r :: l => FullL r && FullVals l
def FullUS : List (String × Expr) → Bool
  | [] => true | (_, v) :: l => FullE v && FullUS l
/-- a partition list that is there is not empty (F-C08-6: `PARTITION x`) -/
def FullPart : Option (List Expr) → Bool
  | none => true | some l => FullNE l
def FullIH (h : InsertHead) : Bool := FullOWTs h.withs && FullPart h.partition
def FullAO : AlterOp → Bool
  | .addPartition _ p => FullNE p | .dropPartition _ p => FullNE p | .renameColumn _ _ => true | .dropColumn _ => true
  | .add _ => false | .modify _ => false | .change _ _ => false
def FullAOs : List AlterOp → Bool
  | [] => true | o :: l => FullAO o && FullAOs l
def FullStmt : Stmt → Bool
  | .select q => FullQ q
  | .insertValues h vs => FullIH h && FullVals vs
  | .insertSelect h q => FullIH h && FullQ q
  | .update ws _ sets wh ob _ => FullOWTs ws && (FullUS sets && (FullO wh && FullOOrds ob))
  | .delete _ wh ob _ => FullO wh && FullOOrds ob
  | .createTable _ => false
  | .createTableAs _ _ q => FullQ q
  | .dropTable _ _ => true
  | .set _ => false
  | .analyze _ p _ _ _ => FullPart p
  | .alter _ ops => FullAOs ops
  | .msck _ => true | .use _ => true | .truncate _ => true | .showDatabases => true | .showTables => true
  | .showColumns fr wh => FullFTs fr && FullO wh
def FullStmts : List Stmt → Bool
  | [] => true | s :: l => FullStmt s && FullStmts l
attribute [grind =] FullVals FullUS FullPart FullAO FullAOs FullStmt FullStmts
@[grind =] theorem FullIH_mk (ws ty tbl part cols) : FullIH ⟨ws, ty, tbl, part, cols⟩ = (FullOWTs ws && FullPart part) := rfl
@[grind =] theorem FullVals_append (a b : List (List Expr)) : FullVals (a ++ b) = (FullVals a && FullVals b) := by
  induction a with
  | nil => simp [FullVals]
  | cons x a ih => simp [FullVals, ih, Bool.and_assoc]
@[grind =] theorem FullUS_append (a b : List (String × Expr)) : FullUS (a ++ b) = (FullUS a && FullUS b) := by
  induction a with
  | nil => simp [FullUS]
  | cons x a ih => obtain ⟨c, v⟩ := x; simp [FullUS, ih, Bool.and_assoc]
@[grind =] theorem FullAOs_append (a b : List AlterOp) : FullAOs (a ++ b) = (FullAOs a && FullAOs b) := by
  induction a with
  | nil => simp [FullAOs]
  | cons x a ih => simp [FullAOs, ih, Bool.and_assoc]
@[grind =] theorem FullStmts_append (a b : List Stmt) : FullStmts (a ++ b) = (FullStmts a && FullStmts b) := by
  induction a with
  | nil => simp [FullStmts]
  | cons x a ih => simp [FullStmts, ih, Bool.and_assoc]

/-! ### running a parser on every comma-separated segment -/
theorem eachClosed_acc (T : List String) {α : Type} (p : List Tok → R α) (tx : α → List String) (pl : α → Bool)
    (hp : ∀ sg, AR T tx pl sg [] true (p sg)) : ∀ segs vs, eachClosed p segs = .ok vs → (∀ v ∈ vs, pl v = true) →
      Sub (vs.flatMap tx) T → AccAll T segs.flatten := by
  intro segs
  induction segs with
  | nil => intro vs _ _ _; simp [AccAll]
  | cons sg rest ih =>
    intro vs h hpl hs
    unfold eachClosed at h
    split at h
    · simp at h
    · rename_i a ha
      split at h
      · rename_i as has
        simp at h; subst h
        have h1 := (hp sg) a [] ((closed_ok _ _).1 ha) (hpl a (by simp))
        simp only [List.flatMap_cons, sub_append] at hs
        have h2 := (h1.2 hs.1).1
        rw [acc3_nil] at h2
        rw [List.flatten_cons, accAll_append]
        exact ⟨h2, ih as has (fun v hv => hpl v (by simp [hv])) hs.2⟩
      · simp at h
theorem tEs_flatMap (vs : List Expr) : vs.flatMap tE = tEs vs := by
  induction vs with
  | nil => simp [tEs_nil]
  | cons v vs ih => simp [tEs_cons, ih]
theorem fullL_all (vs : List Expr) : FullL vs = true → ∀ v ∈ vs, FullE v = true := by
  induction vs with
  | nil => simp
  | cons v vs ih => simp only [FullL, Bool.and_eq_true, List.mem_cons]; rintro ⟨h1, h2⟩ x (rfl | hx); exact h1; exact ih h2 x hx


/-! ### small results of the statement level -/
def tPI (p : Expr × Bool) : List String := tE p.1
def FullPI (p : Expr × Bool) : Bool := FullE p.1
@[grind =] theorem tPI_def (a b) : tPI (a, b) = tE a := rfl
@[grind =] theorem FullPI_def (a b) : FullPI (a, b) = FullE a := rfl
def tWOL (p : Option Expr × Option (List OrderItem) × Option (Int × Option Int)) : List String := tOpt p.1 ++ (tOOrds p.2.1 ++ tLim p.2.2)
def FullWOL (p : Option Expr × Option (List OrderItem) × Option (Int × Option Int)) : Bool := FullO p.1 && FullOOrds p.2.1
@[grind =] theorem tWOL_def (a b c) : tWOL (a, b, c) = tOpt a ++ (tOOrds b ++ tLim c) := rfl
@[grind =] theorem FullWOL_def (a b c) : FullWOL (a, b, c) = (FullO a && FullOOrds b) := rfl
def tUSC (p : String × Expr) : List String := p.1 :: tE p.2
def FullUSC (p : String × Expr) : Bool := FullE p.2
@[grind =] theorem tUSC_def (a b) : tUSC (a, b) = a :: tE b := rfl
@[grind =] theorem FullUSC_def (a b) : FullUSC (a, b) = FullE b := rfl
@[grind =] theorem FullUS_one (c : String) (v : Expr) : FullUS [(c, v)] = FullE v := by simp [FullUS]
@[grind =] theorem FullVals_one (r : List Expr) : FullVals [r] = FullL r := by simp [FullVals]
@[grind =] theorem FullAOs_one (o : AlterOp) : FullAOs [o] = FullAO o := by simp [FullAOs]
@[grind =] theorem FullStmts_one (s : Stmt) : FullStmts [s] = FullStmt s := by simp [FullStmts]
theorem popSplit_ok (ts : List Tok) (segs : List (List Tok)) (r : List Tok) (h : popSplit ts = .ok (segs, r)) :
    ∃ g, ts = g :: r ∧ segs = splitBy "," g.children [] [] := by
  cases ts with
  | nil => simp [popSplit] at h
  | cons g r' => simp [popSplit] at h; exact ⟨g, by rw [h.2], h.1.symm⟩
grind_pattern popSplit_ok => popSplit ts, Except.ok (segs, r)
theorem eachClosed_nil_or {α : Type} (p : List Tok → R α) (segs : List (List Tok)) (vs : List α) (h : eachClosed p segs = .ok vs) :
    segs ≠ [] ∨ vs = [] := by
  cases segs with
  | nil => right; simp [eachClosed] at h; exact h
  | cons a b => left; simp
grind_pattern eachClosed_nil_or => eachClosed p segs, Except.ok vs
theorem map_nil_or {α β : Type} (l : List α) (f : α → β) : l ≠ [] ∨ l.map f = [] := by cases l <;> simp
grind_pattern map_nil_or => l.map f
theorem eachClosed_compute (T : List String) (d : Gen.D) (f : Nat) (segs : List (List Tok)) (row : List Expr)
    (h : eachClosed (pCompute d f) segs = .ok row) (hpl : FullL row = true) (hs : Sub (tEs row) T) : AccAll T segs.flatten := by
  refine eachClosed_acc T (pCompute d f) tE FullE (accA_all d T f).pCompute segs row h (fullL_all _ hpl) ?_
  rw [tEs_flatMap]; exact hs
grind_pattern eachClosed_compute => Anchor T, eachClosed (pCompute d f) segs, Except.ok row

end PA
