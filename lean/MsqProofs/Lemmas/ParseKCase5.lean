import MsqProofs.Lemmas.ParseKCaseDefs
/-! DERIVED by tools/gen_kcase.py from ParseCase5.lean (identifier substitution `CE`→`KE`, `CER`→`KER`, `upAll`→`kmAll`) — C09, parser half, sharp form for reserved words -/

/-!
# C09, parser half — hand-written part 7: the facts the generated fuel steps of a few block functions need in addition
(`pFunc`: a related PAIR of (schema, name) has related components; `pSingleParen`: `close()` on the stack of opened cursors)
-/
set_option linter.unusedSimpArgs false
set_option linter.unusedVariables false
open Lex Ast
namespace PM

/-- a related pair has related components -/
theorem ceq_prod_mkK {α β γ δ : Type} (f : α → γ) (g : β → δ) (a c : α) (b e : β) (h : ceq (Prod.map f g) (a, b) (c, e)) :
    f a = f c ∧ g b = g e := by
  simpa [ceq, Prod.map] using h
grind_pattern ceq_prod_mkK => ceq (Prod.map f g) (a, b) (c, e)

theorem optmap_up_isNoneK (a b : Option String) (h : Option.map km a = Option.map km b) : a.isNone = b.isNone := by
  cases a <;> cases b <;> simp_all
grind_pattern optmap_up_isNoneK => Option.map km a, Option.map km b, a.isNone

theorem kell_drop {a b : List (List Tok)} (h : KELL a b) (n : Nat) : KELL (a.drop n) (b.drop n) := by
  induction n generalizing a b with
  | zero => simpa using h
  | succ n ih => cases a <;> cases b <;> simp_all
theorem kell_anyNonEmpty {a b : List (List Tok)} (h : KELL a b) : (a.any fun c => !c.isEmpty) = (b.any fun c => !c.isEmpty) := by
  induction a generalizing b with
  | nil => cases b <;> simp_all
  | cons x a ih =>
    cases b with
    | nil => simp at h
    | cons y b => simp at h; simp only [List.any_cons, kel_isEmpty h.1, ih h.2]
/-- `close()` on the cursors opened by `_parse_single_select_statement`: the same answer -/
theorem kell_drop_any {a b : List (List Tok)} (h : KELL a b) (n : Nat) :
    ((a.drop n).any fun c => !c.isEmpty) = ((b.drop n).any fun c => !c.isEmpty) := kell_anyNonEmpty (kell_drop h n)
grind_pattern kell_drop_any => KELL a b, (a.drop n).any fun c => !c.isEmpty

/-- `ord.getD []` under `kmAll` (`pWindowBody`) -/
@[grind =] theorem map_getD_nilK {α β : Type} (f : α → β) (o : Option (List α)) : List.map f (o.getD []) = (Option.map (List.map f) o).getD [] := by
  cases o <;> simp

/-! ### lockstep steps: for the long `if`-chains the two runs are taken apart TOGETHER (one goal per path instead of one per pair of paths) -/
theorem ker_ite {α : Type} {rv : α → α → Prop} {b b' : Bool} {x y x' y' : R α} (hc : b = b')
    (h1 : b = true → b' = true → KER rv x x') (h2 : b = false → b' = false → KER rv y y') :
    KER rv (if b then x else y) (if b' then x' else y') := by
  subst hc; cases b <;> simp_all
theorem kex_ite {α : Type} {rv : α → α → Prop} {b b' : Bool} {x y x' y' : Except Err α} (hc : b = b')
    (h1 : b = true → b' = true → KEX rv x x') (h2 : b = false → b' = false → KEX rv y y') :
    KEX rv (if b then x else y) (if b' then x' else y') := by
  subst hc; cases b <;> simp_all
theorem ker_of_eq {α : Type} {rv : α → α → Prop} {a b : R α} (h : ∀ res res', a = res → b = res' → KER rv res res') : KER rv a b :=
  h _ _ rfl rfl
theorem kex_of_eq {α : Type} {rv : α → α → Prop} {a b : Except Err α} (h : ∀ res res', a = res → b = res' → KEX rv res res') : KEX rv a b :=
  h _ _ rfl rfl

end PM
