import MsqProofs.Props.C03Q
/-!
# T-parse for data-change statements: base definitions (C03 / C01 / C08)

Built NEXT to the query development (Props/C03Q.lean, Lemmas/TQuery*.lean), whose definitions and statements are unchanged.

* `toksStmtG d ch tb s` — the token-level printer of a statement (`PR.prStmt` as tokens): DELETE, UPDATE, INSERT … VALUES, INSERT … query,
  SELECT, each with an optional leading `WITH name AS (q), …`.  `ch` chooses redundant brackets inside expressions (`noX`: none), `tb` says
  whether the word `TABLE` follows the INSERT words (the printer writes it for HIVE only; the parser accepts it everywhere).
  `toksStmt d s` = `toksStmtG d noX (d == .HIVE) s` is the printer's own choice.
* `FragStmt d s` — the fragment (a `Bool`): expressions of `TQ.FragE3`, queries of `TQ.FragQ`.
* `stopsStmt d rest` — what may follow a statement: nothing that continues an expression, a clause, a set operation, a VALUES list
  (`= TQ.stopsQ`; `;` and the end of the token list satisfy it).
-/
set_option linter.unusedVariables false
set_option linter.unusedSimpArgs false
open Lex PM Ast TP TP2 TS TQ
namespace TDM

/-- the statement separator as the lexer emits it -/
def semiTok : Tok := Tok.single [';'] 0
def insertWords (ty : String) : List Tok :=
  match Gen.insertTypes.find? (·.1 == ty) with | some e => e.2.map opTok | none => []

/-- comma-joined token lists -/
def joinC : List (List Tok) → List Tok
  | [] => []
  | [s] => s
  | s :: r => s ++ TS.commaTok :: joinC r

/-! ### the printers of the parts -/
/-- ` WHERE … ORDER BY … LIMIT …` (`PR.prTail`) -/
def toksTail (d : Gen.D) (ch : Expr → Bool) (wh : Option Expr) (ob : Option (List OrderItem)) (lm : Option (Int × Option Int)) : List Tok :=
  toksOptE3 d ch "WHERE" wh ++ (toksOrder3 d ch ob ++ toksLimit lm)
/-- `` `c` = e `` -/
def toksSet (d : Gen.D) (ch : Expr → Bool) (p : String × Expr) : List Tok := nameTok p.1 :: opTok "=" :: toksE3 d ch p.2
def toksSetsTail (d : Gen.D) (ch : Expr → Bool) : List (String × Expr) → List Tok
  | [] => []
  | p :: r => TS.commaTok :: (toksSet d ch p ++ toksSetsTail d ch r)
def toksSets (d : Gen.D) (ch : Expr → Bool) : List (String × Expr) → List Tok
  | [] => []
  | p :: r => toksSet d ch p ++ toksSetsTail d ch r
/-- `name AS (q)` -/
def toksWith (d : Gen.D) (ch : Expr → Bool) : WithTable → List Tok
  | .mk n q => [qTok n, opTok "AS", grp (toksQ d ch q)]
def toksWithsTail (d : Gen.D) (ch : Expr → Bool) : List WithTable → List Tok
  | [] => []
  | w :: r => TS.commaTok :: (toksWith d ch w ++ toksWithsTail d ch r)
/-- `PR.prWithPrefix`: nothing for an empty clause -/
def toksWiths (d : Gen.D) (ch : Expr → Bool) : Option (List WithTable) → List Tok
  | some (w :: r) => opTok "WITH" :: (toksWith d ch w ++ toksWithsTail d ch r)
  | _ => []
/-- `PARTITION (item, …)` (`PR.prPartition`: every item printed by `prE`, no brackets added) -/
def toksPart (d : Gen.D) (ch : Expr → Bool) : Option (List Expr) → List Tok
  | none => []
  | some es => [opTok "PARTITION", grp (joinC (es.map (toksE3 d ch)))]
/-- one column of the explicit column list (`PR.columnSrc`) -/
def toksColName (c : Option String × String) : List Tok :=
  match c.1 with | none => [nameTok c.2] | some t => [nameTok t, dotTok, nameTok c.2]
def toksColNames : Option (List (Option String × String)) → List Tok
  | none => []
  | some cs => [grp (joinC (cs.map toksColName))]
/-- one row of VALUES: `ASTSubValueExpression.source` (`node.py:744`) brackets every value above the compute level -/
def toksRow (d : Gen.D) (ch : Expr → Bool) (vs : List Expr) : Tok := grp (joinC (vs.map (fun e => W3 d ch e 8)))
def toksRowsTail (d : Gen.D) (ch : Expr → Bool) : List (List Expr) → List Tok
  | [] => []
  | r :: rs => TS.commaTok :: toksRow d ch r :: toksRowsTail d ch rs
def toksRows (d : Gen.D) (ch : Expr → Bool) : List (List Expr) → List Tok
  | [] => []
  | r :: rs => toksRow d ch r :: toksRowsTail d ch rs
/-- `ASTInsertStatement._insert_str` without the WITH prefix -/
def toksTarget (d : Gen.D) (ch : Expr → Bool) (tb : Bool) (h : InsertHead) : List Tok :=
  insertWords h.type ++ ((if tb then [opTok "TABLE"] else []) ++ (tblTok h.table.schema h.table.name :: (toksPart d ch h.partition ++ toksColNames h.columns)))

/-- the WITH slot of a query -/
def withsOf : Query → Option (List WithTable)
  | .single (.mk w _ _ _ _ _ _ _ _ _ _ _ _ _) => w
  | .union w _ _ => w
/-- put a WITH clause on a SELECT / on a query (where `_parse_select_statement` records it) -/
def setW (ws : List WithTable) : Select → Select
  | .mk _ dist cols fr lats js wh gb hv ob sb db cb lm => .mk (some ws) dist cols fr lats js wh gb hv ob sb db cb lm
def setQW (ws : List WithTable) : Query → Query
  | .single s => .single (setW ws s)
  | .union _ s us => .union (some ws) s us
/-- the query without its WITH clause -/
def stripW (q : Query) : Query := setQW [] q

/-- **the token-level printer of a statement** -/
def toksStmtG (d : Gen.D) (ch : Expr → Bool) (tb : Bool) : Stmt → List Tok
  | .select q => toksWiths d ch (withsOf q) ++ toksQ d ch q
  | .insertValues h vs => toksWiths d ch h.withs ++ (toksTarget d ch tb h ++ opTok "VALUES" :: toksRows d ch vs)
  | .insertSelect h q => toksWiths d ch h.withs ++ (toksTarget d ch tb h ++ toksQ d ch q)
  | .update ws t sets wh ob lm =>
      toksWiths d ch ws ++ opTok "UPDATE" :: tblTok t.schema t.name :: opTok "SET" :: (toksSets d ch sets ++ toksTail d ch wh ob lm)
  | .delete t wh ob lm => opTok "DELETE" :: opTok "FROM" :: tblTok t.schema t.name :: toksTail d ch wh ob lm
  | _ => []
/-- the printer's own choices: no redundant brackets, `TABLE` for HIVE -/
def toksStmt (d : Gen.D) (s : Stmt) : List Tok := toksStmtG d noX (d == .HIVE) s

/-! ### the fragment -/
/-- a statement's target table: `tblOK`, and its token is not taken for the optional word `TABLE` -/
def tblOKD (t : TableName) : Bool := tblOK t.schema t.name && !(tblTok t.schema t.name).srcEqUp "TABLE"
/-- a WITH table: the (bare or back-quoted) name token reads back as the name, the body is a fragment query -/
def withOK (d : Gen.D) : WithTable → Bool
  | .mk n q => unifyName (qTok n).src == n && FragQ d q
def withsOK (d : Gen.D) : Option (List WithTable) → Bool
  | some ws => ws.all (withOK d)
  | none => false
/-- an assignment: the back-quoted column token reads back as the name -/
def setOK (d : Gen.D) (p : String × Expr) : Bool := unifyName (nameTok p.1).src == p.1 && FragE3 d p.2
/-- a static partition item `k = v` (key and value below the comparison level, as the partition parser reads them) -/
def staticOK (d : Gen.D) : Expr → Bool
  | .compare o l r => cmpOK d o && FragE3 d l && FragE3 d r && decide (PR.lvl l ≤ 8) && decide (PR.lvl r ≠ 9) &&
      (Gen.compareSet.contains (opTok (cmpVal o)).src)
  | _ => false
/-- a dynamic partition item: one expression below the comparison level -/
def dynOK (d : Gen.D) (e : Expr) : Bool := FragE3 d e && decide (PR.lvl e ≤ 8)
/-- the parser refuses a list that mixes static and dynamic items (`parser.py:1600`) -/
def partOK (d : Gen.D) : Option (List Expr) → Bool
  | none => true
  | some es => es.all (staticOK d) || es.all (dynOK d)
def colNameOK (c : Option String × String) : Bool :=
  nm2OK (nameTok c.2) c.2 && (match c.1 with | none => true | some t => nm2OK (nameTok t) t) &&
    !(["*", "CURRENT_DATE", "CURRENT_TIME", "CURRENT_TIMESTAMP"].contains c.2)
def colNamesOK : Option (List (Option String × String)) → Bool
  | none => true
  | some cs => cs.all colNameOK
def insertTyOK (ty : String) : Bool := ["INSERT_INTO", "INSERT_IGNORE_INTO", "INSERT_OVERWRITE"].contains ty
def headOK (d : Gen.D) (h : InsertHead) : Bool :=
  withsOK d h.withs && insertTyOK h.type && tblOKD h.table && partOK d h.partition && colNamesOK h.columns
def FragStmt (d : Gen.D) : Stmt → Bool
  | .select q => withsOK d (withsOf q) && FragQ d (stripW q)
  | .insertValues h vs => headOK d h && vs.all (FragL3 d)
  | .insertSelect h q => headOK d h && FragQ d q
  | .update ws t sets wh ob lm => withsOK d ws && tblOKD t && !sets.isEmpty && sets.all (setOK d) && FragO3 d wh && orderOK3 d ob && limitOK lm
  | .delete t wh ob lm => tblOKD t && FragO3 d wh && orderOK3 d ob && limitOK lm
  | _ => false

/-- what may follow a statement -/
def stopsStmt (d : Gen.D) (rest : List Tok) : Bool := stopsQ d rest

end TDM
