import MsqProofs.Lemmas.LexSem
/-!
# Simulation of a machine with intercepts by its base machine

Generic in the machine: `ConsExt mc cls` collects the (Boolean, hence `decide`-able) facts about the intercept list and
the base table under which `mc` — run on a text in which the opener `#` is never directly followed by `{` — goes
through exactly the memories of the base machine, up to the label of the one state "directly after a `#` read in WAIT"
(`CUSTOM_1` for the plug-in, `IN_EXPLAIN_1` for the base machine).
-/
namespace Lex
variable {Cls : Type}

/-! ## what `exec` does to the status -/

/-- the status after an `execute` call is the old one, the operation's own `status` attribute, or one named by a
`setStatus` instruction of the code: any predicate that holds of these holds of the result -/
theorem exec_status (P : S → Prop) (env : Env) (ss : S) (sm : Nat) (sym : Sym) (hss : P ss) :
    ∀ (is : List Instr) (r : Regs) (m m' : Mem) (b : Bool), (∀ s, Instr.setStatus s ∈ is → P s) → P m.status →
      exec env ss sm sym is r m = .ok (m', b) → P m'.status := by
  intro is
  induction is with
  | nil => intro r m m' b _ _ h; simp [exec] at h
  | cons i is ih =>
    intro r m m' b hcode hm h
    have hcode' : ∀ s, Instr.setStatus s ∈ is → P s := fun s hs => hcode s (List.mem_cons_of_mem _ hs)
    cases i with
    | incNow => simp only [exec] at h; refine ih _ _ _ _ hcode' ?_ h; exact hm
    | setStartNow => simp only [exec] at h; refine ih _ _ _ _ hcode' ?_ h; exact hm
    | setStatus s => exact ih _ { m with status := s } _ _ hcode' (hcode s (List.mem_cons_self ..)) (by simpa [exec] using h)
    | setStatusSelf => exact ih _ { m with status := ss } _ _ hcode' hss (by simpa [exec] using h)
    | sliceWindow => simp only [exec] at h; refine ih _ _ _ _ hcode' ?_ h; exact hm
    | emitSingle mk =>
      simp only [exec] at h
      split at h
      · simp at h
      · split at h
        · simp at h
        · refine ih _ _ _ _ hcode' ?_ h; exact hm
    | pushStack => simp only [exec] at h; refine ih _ _ _ _ hcode' ?_ h; exact hm
    | popStack =>
      simp only [exec] at h
      split at h
      · simp at h
      · refine ih _ _ _ _ hcode' ?_ h; exact hm
    | emitGroup k mk =>
      simp only [exec] at h
      split at h
      · simp at h
      · split at h
        · simp at h
        · refine ih _ _ _ _ hcode' ?_ h; exact hm
    | raiseIfDepthLE k =>
      simp only [exec] at h
      split at h
      · simp at h
      · refine ih _ _ _ _ hcode' ?_ h; exact hm
    | raiseIfEnd =>
      simp only [exec] at h
      split at h
      · simp at h
      · refine ih _ _ _ _ hcode' ?_ h; exact hm
    | raise => simp [exec] at h
    | ret b' =>
      simp only [exec, Except.ok.injEq, Prod.mk.injEq] at h
      obtain ⟨rfl, _⟩ := h
      exact hm

/-! ## tables that never name a "bad" status -/

/-- no cell of the table (explicit, default, END) and no `setStatus` of the code of the classes `cls` names a status in `bad` -/
def Cfg.avoids (cfg : Cfg Cls) (bad : S → Bool) (cls : List Cls) : Bool :=
  (allS.all fun s =>
    ((cfg.rows s).all fun e => !bad e.2.status) &&
    (match cfg.dflt s with | some o => !bad o.status | none => true) &&
    (match cfg.atEnd s with | some o => !bad o.status | none => true)) &&
  (cls.all fun c => (cfg.code c).all fun i => match i with | .setStatus s => !bad s | _ => true)

theorem Cfg.lookup_avoids (cfg : Cfg Cls) (bad : S → Bool) (cls : List Cls) (h : cfg.avoids bad cls = true)
    (s : S) (sym : Sym) (o : OpRef Cls) (hl : cfg.lookup s sym = some o) : bad o.status = false := by
  simp only [Cfg.avoids, Bool.and_eq_true, List.all_eq_true] at h
  obtain ⟨⟨hrows, hd⟩, he⟩ := h.1 s (mem_allS s)
  cases sym with
  | eof =>
    simp only [Cfg.lookup] at hl
    rw [hl] at he; simpa using he
  | ch c =>
    simp only [Cfg.lookup] at hl
    split at hl
    · rename_i e hf
      have := hrows e (List.mem_of_find?_eq_some hf)
      simp only [Option.some.injEq] at hl
      subst hl; simpa using this
    · rw [hl] at hd; simpa using hd

/-- one `handle` call of a table that avoids `bad`, started outside `bad`, ends outside `bad` -/
theorem handle_avoids (cfg : Cfg Cls) (bad : S → Bool) (cls : List Cls) (h : cfg.avoids bad cls = true)
    (hcls : ∀ c, c ∈ cls) (text : List Char) (m m' : Mem) (sym : Sym) (b : Bool) (hm : bad m.status = false)
    (hh : handle cfg text m sym = .ok (m', b)) : bad m'.status = false := by
  unfold handle at hh
  split at hh
  · simp at hh
  · rename_i o hl
    refine exec_status (fun s => bad s = false) _ _ _ _ (cfg.lookup_avoids bad cls h _ _ o hl) _ _ _ _ _ ?_ hm hh
    intro s hs
    simp only [Cfg.avoids, Bool.and_eq_true, List.all_eq_true] at h
    have := h.2 _ (hcls o.cls) _ hs
    simpa using this

/-! ## the conditions on the intercept list -/
namespace Sim

def custom (s : S) : Bool := s == .CUSTOM_1 || s == .CUSTOM_2

/-- the normal form of `FSMOperate.add_cache_to(status)`: advance, keep the window, go to the operation's own status, done -/
def addCacheSummary : Summary := ⟨none, false, false, true, .keep, .none, .self, true⟩

/-- among the intercepts of state `s`, everything before the first one that does not test for `brace` tests for `brace`,
and that one fires on every symbol and only re-labels the state as `tgt` -/
def redirectsAfter (s tgt : S) (brace : List Char) : List (Intercept Cls) → Bool
  | [] => false
  | i :: is =>
    if i.status == s then
      (if i.ch == .lit brace then redirectsAfter s tgt brace is else i.ch == .any && i.redirect == some tgt)
    else redirectsAfter s tgt brace is

/-- the facts (all Boolean) under which `mc` is a conservative extension of its base table -/
structure ConsExt (mc : Machine Cls) (cls : List Cls) : Prop where
  /-- `cls` lists every operation class -/
  cls_all : ∀ c, c ∈ cls
  /-- the base table never enters a custom state -/
  base_closed : mc.cfg.avoids custom cls = true
  /-- an intercept belongs to (WAIT, `#`) or to a custom state -/
  states : mc.intercepts.all (fun i => (i.status == .WAIT && i.ch == .lit ['#']) || i.status == .CUSTOM_1 || i.status == .CUSTOM_2) = true
  /-- the END marker is neither `#` nor `{` -/
  marker : (mc.endMarker != ['#'] && mc.endMarker != ['{']) = true
  /-- what the plug-in does for `#` in WAIT: `add_cache_to(CUSTOM_1)` -/
  opener : (match mc.intercepts.find? (fun i => i.fires mc.endMarker .WAIT (.ch '#')) with
    | some i => i.redirect.isNone && i.op.status == .CUSTOM_1 && summarize (mc.cfg.code i.op.cls) == some addCacheSummary
    | none => false) = true
  /-- what the base table does for `#` in WAIT: `add_cache_to(IN_EXPLAIN_1)` -/
  base_cell : (match mc.cfg.lookup .WAIT (.ch '#') with
    | some o => o.status == .IN_EXPLAIN_1 && summarize (mc.cfg.code o.cls) == some addCacheSummary
    | none => false) = true
  /-- after `#`: `{` or else re-label as the base line-comment state and call the base machine -/
  after : redirectsAfter .CUSTOM_1 .IN_EXPLAIN_1 ['{'] mc.intercepts = true

theorem redirectsAfter_find (e : List Char) (s tgt : S) (brace : List Char) (sym : Sym) (hsym : sym.pyStr e ≠ brace) :
    ∀ l : List (Intercept Cls), redirectsAfter s tgt brace l = true →
      ∃ i, l.find? (fun i => i.fires e s sym) = some i ∧ i.redirect = some tgt := by
  intro l
  induction l with
  | nil => simp [redirectsAfter]
  | cons i is ih =>
    intro h
    simp only [redirectsAfter] at h
    by_cases hs : (i.status == s) = true
    · simp only [hs, if_true] at h
      by_cases hb : (i.ch == .lit brace) = true
      · simp only [hb, if_true] at h
        obtain ⟨j, hj, hr⟩ := ih h
        refine ⟨j, ?_, hr⟩
        have hb' : i.ch = .lit brace := by simpa using hb
        have : i.fires e s sym = false := by
          simp only [Intercept.fires, hb', hs, Bool.true_and]
          simpa using fun h => hsym h.symm
        simp [this, hj]
      · simp only [hb] at h
        simp only [Bool.false_eq_true, if_false, Bool.and_eq_true] at h
        have ha : i.ch = .any := by simpa using h.1
        refine ⟨i, ?_, by simpa using h.2⟩
        have : i.fires e s sym = true := by simp [Intercept.fires, ha, hs]
        simp [this]
    · have hs' : (i.status == s) = false := by simpa using hs
      simp only [hs', Bool.false_eq_true, if_false] at h
      obtain ⟨j, hj, hr⟩ := ih h
      refine ⟨j, ?_, hr⟩
      have : i.fires e s sym = false := by simp [Intercept.fires, hs']
      simp [this, hj]

/-! ## the simulation -/

/-- plug-in memory `mM` vs. base memory `mB`: equal outside the custom states, or the plug-in is directly behind a `#`
read in WAIT (`CUSTOM_1`) where the base machine has opened a line comment (`IN_EXPLAIN_1`) -/
def Rel (mM mB : Mem) : Prop :=
  (mM = mB ∧ custom mM.status = false) ∨ (mM.status = .CUSTOM_1 ∧ mB = { mM with status := .IN_EXPLAIN_1 })

/-- results of one `handle` call for `sym`, the base machine being in state `sB` before the call -/
def RelRes (sB : S) (sym : Sym) : Except Err (Mem × Bool) → Except Err (Mem × Bool) → Prop
  | .ok (mM, b), .ok (mB, b') => b = b' ∧ Rel mM mB ∧ (mM.status = .CUSTOM_1 → sym = .ch '#' ∧ sB = .WAIT)
  | .error e, .error e' => e = e'
  | _, _ => False

theorem RelRes_same (sB : S) (sym : Sym) (r : Except Err (Mem × Bool))
    (h : ∀ m b, r = .ok (m, b) → custom m.status = false) : RelRes sB sym r r := by
  match r, h with
  | .error e, _ => simp [RelRes]
  | .ok (m, b), h =>
    have hc := h m b rfl
    refine ⟨rfl, .inl ⟨rfl, hc⟩, fun h1 => ?_⟩
    simp [custom, h1] at hc

theorem exec_addCache (env : Env) (ss : S) (sm : Nat) (sym : Sym) (is : List Instr)
    (h : summarize is = some addCacheSummary) (m : Mem) :
    exec env ss sm sym is {} m = .ok ({ m with now := m.now + 1, status := ss }, true) := by
  rw [exec_summarize env ss sm sym is _ h]
  simp [execS, Summary.blocked, addCacheSummary, execCore, St.resolve]

variable {mc : Machine Cls} {cls : List Cls}

/-- one `handle` call -/
theorem handle_sim (H : ConsExt mc cls) (text : List Char) (mM mB : Mem) (sym : Sym) (hR : Rel mM mB)
    (hs : mM.status = .CUSTOM_1 → sym ≠ .ch '{') :
    RelRes mB.status sym (mc.handle text mM sym) (handle mc.cfg text mB sym) := by
  have hmk := H.marker
  simp only [Bool.and_eq_true, bne_iff_ne, ne_eq] at hmk
  rcases hR with ⟨rfl, hc⟩ | ⟨hc1, rfl⟩
  · -- same memory, not in a custom state
    unfold Machine.handle
    cases hf : mc.intercepts.find? (fun i => i.fires mc.endMarker mM.status sym) with
    | none =>
      exact RelRes_same _ _ _ fun m b hh => handle_avoids mc.cfg custom cls H.base_closed H.cls_all text mM m sym b hc hh
    | some i =>
      have hmem := List.mem_of_find?_eq_some hf
      have hfire := List.find?_some hf
      have hst := List.all_eq_true.mp H.states i hmem
      simp only [Intercept.fires, Bool.and_eq_true, beq_iff_eq] at hfire
      obtain ⟨hi, hch⟩ := hfire
      rw [hi] at hst
      simp only [custom, Bool.or_eq_false_iff] at hc
      simp only [hc.1, hc.2, Bool.or_false, Bool.and_eq_true, beq_iff_eq] at hst
      obtain ⟨hw, hlit⟩ := hst
      rw [hlit] at hch
      have hsym : sym = .ch '#' := by
        cases sym with
        | eof => simp [Sym.pyStr] at hch; exact absurd hch.symm hmk.1
        | ch c => simp [Sym.pyStr] at hch; rw [hch]
      subst hsym
      rw [hw] at hf
      have hop := H.opener
      rw [hf] at hop
      simp only [Bool.and_eq_true, Option.isNone_iff_eq_none, beq_iff_eq] at hop
      obtain ⟨⟨hred, hos⟩, hsum⟩ := hop
      have hbc := H.base_cell
      unfold handle
      rw [hw]
      cases hl : mc.cfg.lookup .WAIT (.ch '#') with
      | none => simp [hl] at hbc
      | some o =>
        simp only [hl, Bool.and_eq_true, beq_iff_eq] at hbc
        simp only [hred]
        rw [exec_addCache _ _ _ _ _ hsum, exec_addCache _ _ _ _ _ hbc.2, hos, hbc.1]
        exact ⟨rfl, .inr ⟨rfl, rfl⟩, fun _ => ⟨rfl, rfl⟩⟩
  · -- directly behind `#`: the redirect fires
    have hne : sym.pyStr mc.endMarker ≠ ['{'] := by
      have := hs hc1
      cases sym with
      | eof => exact hmk.2
      | ch c => simp [Sym.pyStr]; intro h; exact this (by rw [h])
    obtain ⟨i, hf, hred⟩ := redirectsAfter_find mc.endMarker .CUSTOM_1 .IN_EXPLAIN_1 ['{'] sym hne _ H.after
    unfold Machine.handle
    rw [hc1, hf]
    simp only [hred]
    exact RelRes_same _ _ _ fun m b hh =>
      handle_avoids mc.cfg custom cls H.base_closed H.cls_all text _ m sym b (by simp [custom]) hh

/-- the state in which `feedWith` makes its last `handle` call for the character `c`, i.e. the state in which `c` is
consumed (`handle` returns false when the pending window was closed first and `c` has to be handled again) -/
def consumedIn (h : Mem → Sym → Except Err (Mem × Bool)) (m : Mem) (c : Char) : Option S :=
  match h m (.ch c) with
  | .error _ => none
  | .ok (_, true) => some m.status
  | .ok (m1, false) => some m1.status

/-- results of `feedWith` / `feedAllWith` -/
def RelMem (P : Mem → Prop) : Except Err Mem → Except Err Mem → Prop
  | .ok mM, .ok mB => Rel mM mB ∧ P mM
  | .error e, .error e' => e = e'
  | _, _ => False

/-- one character, with the retry -/
theorem feed_sim (H : ConsExt mc cls) (text : List Char) (mM mB : Mem) (c : Char) (hR : Rel mM mB)
    (hs : mM.status = .CUSTOM_1 → c ≠ '{') :
    RelMem (fun mM' => mM'.status = .CUSTOM_1 → c = '#' ∧ consumedIn (handle mc.cfg text) mB c = some .WAIT)
      (feedWith (mc.handle text) mM c) (feedWith (handle mc.cfg text) mB c) := by
  have h1 := handle_sim H text mM mB (.ch c) hR (fun h hc => hs h (by simpa using hc))
  unfold feedWith consumedIn
  cases hM : mc.handle text mM (.ch c) with
  | error e =>
    cases hB : handle mc.cfg text mB (.ch c) with
    | error e' => simpa [hM, hB, RelRes, RelMem] using h1
    | ok r => simp [hM, hB, RelRes] at h1
  | ok r =>
    obtain ⟨m1M, b⟩ := r
    cases hB : handle mc.cfg text mB (.ch c) with
    | error e' => simp [hM, hB, RelRes] at h1
    | ok r' =>
      obtain ⟨m1B, b'⟩ := r'
      simp only [hM, hB, RelRes] at h1
      obtain ⟨rfl, hR1, hp1⟩ := h1
      cases b with
      | true =>
        refine ⟨hR1, fun h => ?_⟩
        obtain ⟨h3, h4⟩ := hp1 h
        exact ⟨by simpa using h3, by simp [h4]⟩
      | false =>
        have hp1' : m1M.status = .CUSTOM_1 → c = '#' := fun h => by simpa using (hp1 h).1
        have h2 := handle_sim H text m1M m1B (.ch c) hR1
          (fun h hc => by have := hp1' h; simp at hc; rw [this] at hc; exact absurd hc (by decide))
        simp only []
        cases hM2 : mc.handle text m1M (.ch c) with
        | error e =>
          cases hB2 : handle mc.cfg text m1B (.ch c) with
          | error e' => simpa [hM2, hB2, RelRes, RelMem] using h2
          | ok r => simp [hM2, hB2, RelRes] at h2
        | ok r =>
          obtain ⟨m2M, b2⟩ := r
          cases hB2 : handle mc.cfg text m1B (.ch c) with
          | error e' => simp [hM2, hB2, RelRes] at h2
          | ok r' =>
            obtain ⟨m2B, b2'⟩ := r'
            simp only [hM2, hB2, RelRes] at h2
            refine ⟨h2.2.1, fun h => ?_⟩
            obtain ⟨h3, h4⟩ := h2.2.2 h
            exact ⟨by simpa using h3, by simp [h4]⟩

theorem feedAllWith_snoc (h : Mem → Sym → Except Err (Mem × Bool)) (c : Char) (m1 : Mem) :
    ∀ (pre : List Char) (m0 m : Mem), feedAllWith h pre m0 = .ok m → feedWith h m c = .ok m1 →
      feedAllWith h (pre ++ [c]) m0 = .ok m1
  | [], m0, m, h0, h1 => by
    simp only [feedAllWith, Except.ok.injEq] at h0
    subst h0
    simp [feedAllWith, h1]
  | d :: pre, m0, m, h0, h1 => by
    simp only [feedAllWith, List.cons_append] at h0 ⊢
    cases hd : feedWith h m0 d with
    | error e => simp [hd] at h0
    | ok m' =>
      simp only [hd] at h0 ⊢
      exact feedAllWith_snoc h c m1 pre m' m h0 h1

/-- the text `pre ++ cs`, of which `pre` has been read: wherever `#{` occurs, the base machine does not consume that `#` in WAIT -/
theorem feedAll_sim (H : ConsExt mc cls) (text : List Char) (m0 : Mem) :
    ∀ (cs pre : List Char) (mM mB : Mem),
      (∀ p q m, pre ++ cs = p ++ '#' :: '{' :: q → feedAllWith (handle mc.cfg text) p m0 = .ok m →
        consumedIn (handle mc.cfg text) m '#' ≠ some .WAIT) →
      feedAllWith (handle mc.cfg text) pre m0 = .ok mB → Rel mM mB →
      (mM.status = .CUSTOM_1 → cs.head? ≠ some '{') →
      RelMem (fun _ => True) (feedAllWith (mc.handle text) cs mM) (feedAllWith (handle mc.cfg text) cs mB)
  | [], pre, mM, mB, _, _, hR, _ => by simp [feedAllWith, RelMem, hR]
  | c :: cs, pre, mM, mB, hG, hpre, hR, hs => by
    have h1 := feed_sim H text mM mB c hR (fun h hc => hs h (by simp [hc]))
    unfold feedAllWith
    cases hM : feedWith (mc.handle text) mM c with
    | error e =>
      cases hB : feedWith (handle mc.cfg text) mB c with
      | error e' => simpa [hM, hB, RelMem] using h1
      | ok r => simp [hM, hB, RelMem] at h1
    | ok m1M =>
      cases hB : feedWith (handle mc.cfg text) mB c with
      | error e' => simp [hM, hB, RelMem] at h1
      | ok m1B =>
        simp only [hM, hB, RelMem] at h1
        simp only []
        refine feedAll_sim H text m0 cs (pre ++ [c]) m1M m1B ?_ (feedAllWith_snoc _ c m1B pre m0 mB hpre hB) h1.1 ?_
        · intro p q m hpq
          exact hG p q m (by simpa using hpq)
        · intro h
          obtain ⟨hc, hw⟩ := h1.2 h
          subst hc
          cases cs with
          | nil => simp
          | cons d ds =>
            simp only [List.head?_cons, ne_eq, Option.some.injEq]
            intro hd
            subst hd
            exact hG pre ds mB rfl hpre hw

/-- every `#{` of the (pre-processed) text `t` is harmless: the base machine does not consume that `#` in state WAIT
(it is inside a string literal, a comment, …) or has failed before -/
def Harmless (cfg : Cfg Cls) (t : List Char) : Prop :=
  ∀ p q m, t = p ++ '#' :: '{' :: q → feedAllWith (handle cfg t) p {} = .ok m → consumedIn (handle cfg t) m '#' ≠ some .WAIT

/-- **conservative extension, sharp form**: if every `#{` of the pre-processed text is harmless, the machine with
intercepts and the base machine return the same result (the same token tree or the same error) -/
theorem lex_conservative_sharp (H : ConsExt mc cls) (raw : List Char) (hno : Harmless mc.cfg (mc.cfg.pre raw)) :
    mc.lex raw = lex mc.cfg raw := by
  unfold Machine.lex lex lexWith
  simp only []
  have h1 := feedAll_sim H (mc.cfg.pre raw) {} (mc.cfg.pre raw) [] {} {}
    (fun p q m hpq => hno p q m (by simpa using hpq)) (by simp [feedAllWith])
    (.inl ⟨rfl, by simp [custom]⟩) (by simp)
  cases hM : feedAllWith (mc.handle (mc.cfg.pre raw)) (mc.cfg.pre raw) {} with
  | error e =>
    cases hB : feedAllWith (handle mc.cfg (mc.cfg.pre raw)) (mc.cfg.pre raw) {} with
    | error e' => simpa [hM, hB, RelMem] using h1
    | ok r => simp [hM, hB, RelMem] at h1
  | ok mM =>
    cases hB : feedAllWith (handle mc.cfg (mc.cfg.pre raw)) (mc.cfg.pre raw) {} with
    | error e' => simp [hM, hB, RelMem] at h1
    | ok mB =>
      simp only [hM, hB, RelMem, and_true] at h1
      have h2 := handle_sim H (mc.cfg.pre raw) mM mB .eof h1 (fun _ => by simp)
      simp only []
      cases hM2 : mc.handle (mc.cfg.pre raw) mM .eof with
      | error e =>
        cases hB2 : handle mc.cfg (mc.cfg.pre raw) mB .eof with
        | error e' => simpa [hM2, hB2, RelRes] using h2
        | ok r => simp [hM2, hB2, RelRes] at h2
      | ok r =>
        obtain ⟨m2M, b2⟩ := r
        cases hB2 : handle mc.cfg (mc.cfg.pre raw) mB .eof with
        | error e' => simp [hM2, hB2, RelRes] at h2
        | ok r' =>
          obtain ⟨m2B, b2'⟩ := r'
          simp only [hM2, hB2, RelRes] at h2
          obtain ⟨_, hR2, hp2⟩ := h2
          rcases hR2 with ⟨rfl, _⟩ | ⟨hc1, _⟩
          · rfl
          · exact absurd (hp2 hc1).1 (by simp)

/-- **conservative extension**: if `#` is nowhere directly followed by `{` in the pre-processed text, the machine with
intercepts and the base machine return the same result -/
theorem lex_conservative (H : ConsExt mc cls) (raw : List Char) (hno : ¬ (['#', '{'] <:+: mc.cfg.pre raw)) :
    mc.lex raw = lex mc.cfg raw :=
  lex_conservative_sharp H raw fun p q _ ht _ => absurd ⟨p, q, by simp [ht]⟩ hno

/-- a machine without intercepts is the base driver -/
theorem lex_no_intercepts (mc : Machine Cls) (h : mc.intercepts = []) (raw : List Char) : mc.lex raw = lex mc.cfg raw := by
  have : mc.handle = handle mc.cfg := by funext t m sym; simp [Machine.handle, h]
  simp [Machine.lex, lex, this]

/-! ## the pre-pass (`preproc_sql`) cannot create the opener -/

/-- `#` directly followed by `{` occurs nowhere (recursive form of `¬ ['#','{'] <:+: t`) -/
def NoOpener : List Char → Prop
  | a :: b :: rest => ¬ (a = '#' ∧ b = '{') ∧ NoOpener (b :: rest)
  | _ => True

theorem noOpener_iff : ∀ t : List Char, NoOpener t ↔ ¬ (['#', '{'] <:+: t)
  | [] => by
    simp only [NoOpener, true_iff]
    rintro ⟨p, q, h⟩
    have := congrArg List.length h
    simp at this
  | [a] => by
    simp only [NoOpener, true_iff]
    rintro ⟨p, q, h⟩
    have := congrArg List.length h
    simp at this
    omega
  | a :: b :: rest => by
    have ih := noOpener_iff (b :: rest)
    simp only [NoOpener, ih]
    constructor
    · rintro ⟨h1, h2⟩ ⟨p, q, hpq⟩
      cases p with
      | nil =>
        simp only [List.nil_append, List.cons_append, List.cons.injEq] at hpq
        exact h1 ⟨hpq.1.symm, hpq.2.1.symm⟩
      | cons x p' =>
        simp only [List.cons_append, List.cons.injEq] at hpq
        exact h2 ⟨p', q, by simpa using hpq.2⟩
    · intro h
      refine ⟨?_, fun hi => h ?_⟩
      · rintro ⟨rfl, rfl⟩
        exact h ⟨[], rest, by simp⟩
      · obtain ⟨p, q, hpq⟩ := hi
        exact ⟨a :: p, q, by simp [← hpq]⟩

/-- Boolean form of "contains `#{`" for `decide` on concrete texts -/
def hasOpener : List Char → Bool
  | a :: b :: rest => (a == '#' && b == '{') || hasOpener (b :: rest)
  | _ => false

theorem hasOpener_false_iff : ∀ t : List Char, hasOpener t = false ↔ NoOpener t
  | [] => by simp [hasOpener, NoOpener]
  | [a] => by simp [hasOpener, NoOpener]
  | a :: b :: rest => by
    have ih := hasOpener_false_iff (b :: rest)
    simp only [hasOpener, NoOpener, Bool.or_eq_false_iff, ih, Bool.and_eq_false_iff, beq_eq_false_iff_ne, ne_eq]
    constructor
    · rintro ⟨h1, h2⟩
      exact ⟨fun h => by rcases h1 with h1 | h1 <;> simp_all, h2⟩
    · rintro ⟨h1, h2⟩
      refine ⟨?_, h2⟩
      by_cases ha : a = '#'
      · exact .inr fun hb => h1 ⟨ha, hb⟩
      · exact .inl ha

theorem hasOpener_iff (t : List Char) : hasOpener t = true ↔ ['#', '{'] <:+: t := by
  have h1 := hasOpener_false_iff t
  have h2 := noOpener_iff t
  cases h : hasOpener t
  · simp only [Bool.false_eq_true, false_iff]
    exact h2.mp (h1.mp h)
  · simp only [true_iff]
    apply Classical.byContradiction
    intro hn
    have := h1.mpr (h2.mpr hn)
    simp [h] at this

theorem noOpener_cons_of_ne {p : Char} {t : List Char} (hp : p ≠ '#') (h : NoOpener t) : NoOpener (p :: t) := by
  cases t with
  | nil => trivial
  | cons b rest => exact ⟨fun h' => hp h'.1, h⟩

theorem noOpener_tail {p : Char} {t : List Char} (h : NoOpener (p :: t)) : NoOpener t := by
  cases t with
  | nil => trivial
  | cons b rest => exact h.2

theorem noOpener_drop : ∀ (n : Nat) (t : List Char), NoOpener t → NoOpener (t.drop n)
  | 0, t, h => by simpa using h
  | n + 1, [], _ => by simp [NoOpener]
  | n + 1, _ :: t, h => by simpa using noOpener_drop n t (noOpener_tail h)

/-- a replacement text that cannot take part in an opener: not empty, no `#`, no `{` -/
def cleanRep (rep : List Char) : Bool := !rep.isEmpty && rep.all (fun c => c != '#' && c != '{')

theorem noOpener_rep (Y : List Char) (hY : NoOpener Y) :
    ∀ (rep : List Char) (p : Char), cleanRep rep = true → NoOpener (p :: (rep ++ Y))
  | [], _, h => by simp [cleanRep] at h
  | [x], p, h => by
    simp only [cleanRep, List.isEmpty_cons, Bool.not_false, List.all_cons, List.all_nil, Bool.and_true, Bool.true_and,
      Bool.and_eq_true, bne_iff_ne, ne_eq] at h
    exact ⟨fun h' => h.2 h'.2, noOpener_cons_of_ne h.1 hY⟩
  | x :: y :: rep, p, h => by
    have hx : x ≠ '#' ∧ x ≠ '{' := by
      simp only [cleanRep, List.all_cons, Bool.and_eq_true, bne_iff_ne, ne_eq] at h
      exact h.2.1
    have h' : cleanRep (y :: rep) = true := by
      simp only [cleanRep, List.all_cons, Bool.and_eq_true] at h ⊢
      exact ⟨by simp, h.2.2⟩
    exact ⟨fun hh => hx.2 hh.2, noOpener_rep Y hY (y :: rep) x h'⟩

theorem replaceGo_noOpener (pat rep : List Char) (hrep : cleanRep rep = true) :
    ∀ (f : Nat) (p : Char) (t : List Char), NoOpener (p :: t) → NoOpener (p :: Py.replaceGo pat rep f t)
  | 0, p, t, h => by simpa [Py.replaceGo] using h
  | f + 1, p, [], h => by simpa [Py.replaceGo] using h
  | f + 1, p, c :: r, h => by
    simp only [Py.replaceGo]
    split
    · have h1 : NoOpener ((c :: r).drop pat.length) := noOpener_drop _ _ (noOpener_tail h)
      have h2 := replaceGo_noOpener pat rep hrep f ' ' _ (noOpener_cons_of_ne (by decide) h1)
      exact noOpener_rep _ (noOpener_tail h2) rep p hrep
    · exact ⟨h.1, replaceGo_noOpener pat rep hrep f c r h.2⟩

theorem replace_noOpener (pat rep : List Char) (hrep : cleanRep rep = true) (t : List Char) (h : NoOpener t) :
    NoOpener (Py.replace pat rep t) := by
  unfold Py.replace
  split
  · exact h
  · exact noOpener_tail (replaceGo_noOpener pat rep hrep _ ' ' t (noOpener_cons_of_ne (by decide) h))

theorem preWith_noOpener : ∀ (chain : List (List Char × List Char)) (t : List Char),
    chain.all (fun pr => cleanRep pr.2) = true → NoOpener t → NoOpener (preWith chain t)
  | [], t, _, h => by simpa [preWith] using h
  | pr :: chain, t, hc, h => by
    simp only [List.all_cons, Bool.and_eq_true] at hc
    have := preWith_noOpener chain (Py.replace pr.1 pr.2 t) hc.2 (replace_noOpener pr.1 pr.2 hc.1 t h)
    simpa [preWith] using this

/-- **conservative extension, stated on the raw text**: the pre-pass only inserts characters other than `#` and `{`
and never joins two characters of the text, so a raw text without `#{` stays without `#{` -/
theorem lex_conservative_raw (H : ConsExt mc cls) (hpre : mc.cfg.preChain.all (fun pr => cleanRep pr.2) = true)
    (raw : List Char) (hno : ¬ (['#', '{'] <:+: raw)) : mc.lex raw = lex mc.cfg raw :=
  lex_conservative H raw ((noOpener_iff _).mp (preWith_noOpener _ raw hpre ((noOpener_iff raw).mpr hno)))

/-! ## a checker for `Harmless` on concrete texts -/

def harmlessB (cfg : Cfg Cls) (t : List Char) : Bool :=
  (List.range t.length).all fun i =>
    !(['#', '{'].isPrefixOf (t.drop i)) ||
      (match feedAllWith (handle cfg t) (t.take i) {} with
       | .ok m => consumedIn (handle cfg t) m '#' != some .WAIT
       | .error _ => true)

theorem harmless_of_harmlessB (cfg : Cfg Cls) (t : List Char) (h : harmlessB cfg t = true) : Harmless cfg t := by
  intro p q m ht hm
  simp only [harmlessB, List.all_eq_true, List.mem_range] at h
  have hlen : p.length < t.length := by rw [ht]; simp
  have := h p.length hlen
  have htake : t.take p.length = p := by rw [ht]; simp
  have hdrop : t.drop p.length = '#' :: '{' :: q := by rw [ht]; simp
  rw [htake, hdrop, hm] at this
  simpa using this

/-! ## small generic facts used for the placeholder theorem -/

theorem feedAllWith_append' (h : Mem → Sym → Except Err (Mem × Bool)) : ∀ (a b : List Char) (m : Mem),
    feedAllWith h (a ++ b) m = (match feedAllWith h a m with | .ok m' => feedAllWith h b m' | .error e => .error e)
  | [], b, m => by simp [feedAllWith]
  | c :: a, b, m => by
    simp only [List.cons_append, feedAllWith]
    cases feedWith h m c with
    | error e => rfl
    | ok m' => exact feedAllWith_append' h a b m'

theorem replaceGo_id (pat rep : List Char) (c : Char) (cs : List Char) (hpat : pat = c :: cs) :
    ∀ (f : Nat) (t : List Char), c ∉ t → Py.replaceGo pat rep f t = t
  | 0, t, _ => by simp [Py.replaceGo]
  | f + 1, [], _ => by simp [Py.replaceGo]
  | f + 1, d :: r, h => by
    simp only [List.mem_cons, not_or] at h
    have : pat.isPrefixOf (d :: r) = false := by
      subst hpat
      simp [List.isPrefixOf, h.1]
    simp only [Py.replaceGo, this, Bool.false_eq_true, if_false]
    rw [replaceGo_id pat rep c cs hpat f r h.2]

/-- a replacement whose pattern starts with a character that does not occur changes nothing -/
theorem preWith_id : ∀ (chain : List (List Char × List Char)) (t : List Char),
    (∀ pr ∈ chain, ∃ c cs, pr.1 = c :: cs ∧ c ∉ t) → preWith chain t = t
  | [], t, _ => by simp [preWith]
  | pr :: chain, t, h => by
    obtain ⟨c, cs, hpat, hc⟩ := h pr (List.mem_cons_self ..)
    have h1 : Py.replace pr.1 pr.2 t = t := by
      unfold Py.replace
      split
      · rfl
      · exact replaceGo_id pr.1 pr.2 c cs hpat _ t hc
    have := preWith_id chain t fun pr' hpr' => h pr' (List.mem_cons_of_mem _ hpr')
    simpa [preWith, h1] using this

end Sim
end Lex
